Require Import NV.C08.Model.
Theorem C08_stub : True. Proof. exact I. Qed.
