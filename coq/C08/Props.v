(* C08 -- property theorems only.  Each is closed by [exact] of a lemma from Proofs*.v. *)
From Coq Require Import List Arith Bool Lia ZArith QArith Qcanon Permutation Sorting.Sorted.
Import ListNotations.
Require Import NV.C08.Model NV.C08.ProofsLM NV.C08.ProofsRG NV.C08.ProofsVol NV.C08.ProofsPS NV.C08.ProofsHC NV.C08.ProofsSph.
Open Scope nat_scope.

(* ---- LMSpace: for all lmax >= mmax ------------------------------------------------------------- *)
(* the blocks written by get_k_length_array fill exactly `size` cells *)
Theorem C08_lm_size : forall lmax mmax, mmax <= lmax ->
  length (lm_klengths lmax mmax) = lm_size lmax mmax.
Proof. exact lm_length. Qed.

(* l occurs 1 + 2*min(l, mmax) times (m = 0 once, every 1 <= m <= min(l,mmax) twice), nothing else occurs *)
Theorem C08_lm_multiplicity : forall lmax mmax k, mmax <= lmax ->
  count_occ Nat.eq_dec (lm_klengths lmax mmax) k = if k <=? lmax then 1 + 2 * Nat.min k mmax else 0.
Proof. exact lm_count. Qed.

(* the k-length table and get_unique_k_lengths have the same values *)
Theorem C08_lm_unique : forall lmax mmax k, mmax <= lmax ->
  (In k (lm_klengths lmax mmax) <-> In k (lm_unique lmax)).
Proof. exact lm_values. Qed.

(* ---- RGSpace integer tables: every dimension, all axis lengths >= 1 ---------------------------- *)
(* {min(j, n-j) : j < n} = {0..n/2}: the 1-D table and arange(n//2+1) have the same values *)
Theorem C08_rg_klengths_1d : forall n, 1 <= n -> same_set (rg_k1 n) (rg_unique1 n).
Proof. exact axis_vals. Qed.

(* equal distances: the squared k-length table sum_i min(j_i, n_i-j_i)^2 and the output of the
   sum-of-squares sieve have the same values, the sieve never indexes outside its boolean array,
   and its output is strictly increasing (sorted, duplicate-free) *)
Theorem C08_rg_klengths : forall shape, Forall (fun n => 1 <= n) shape ->
  same_set (rg_ksq shape) (rg_unique_sq shape) /\
  (forall v, In v (sieve_vals shape) -> v < sieve_len shape) /\
  StronglySorted lt (rg_unique_sq shape).
Proof.
  intros shape H. split; [exact (rg_tables_agree shape H)|].
  split; [exact (sieve_in_range shape)|exact (unique_sq_sorted shape)].
Qed.

(* natural binning on the integer tables: pixel i lies in the bin of ITS unique length, and every
   unique length has a pixel (no empty bin) *)
Theorem C08_rg_natural_bins : forall shape, Forall (fun n => 1 <= n) shape ->
  (forall i, i < length (rg_ksq shape) ->
     nth i (rg_natural_pindex shape) 0 < length (rg_unique_sq shape) /\
     nth (nth i (rg_natural_pindex shape) 0) (rg_unique_sq shape) 0 = nth i (rg_ksq shape) 0) /\
  (forall b, b < length (rg_unique_sq shape) ->
     exists i, i < length (rg_ksq shape) /\ nth i (rg_natural_pindex shape) 0 = b).
Proof.
  intros shape H. split.
  - intros i Hi. exact (natural_pindex_spec shape i H Hi).
  - intros b Hb. exact (natural_bins_nonempty shape b H Hb).
Qed.

(* ---- RGSpace distances and volumes (exact rationals) ------------------------------------------- *)
(* for every well-formed grid (axis lengths >= 1, non-zero distances): harmonic/position distances
   satisfy n_i * d_i * d'_i = 1, size * dvol * dvol' = 1, total volume = size*dvol = prod(extents) *)
Theorem C08_rg_volumes : forall s, rg_ok s ->
  (forall i, i < length (rg_shape s) ->
     (qn (nth i (rg_shape s) 0%nat) * nth i (rg_distances s) 0%Qc * nth i (rg_distances (rg_codomain s)) 0%Qc = 1)%Qc) /\
  (qn (rg_size s) * rg_dvol s * rg_dvol (rg_codomain s) = 1)%Qc /\
  rg_total_volume s = qprod (rg_extents s).
Proof.
  intros s H. split; [intros i Hi; exact (rg_ndd s i H Hi)|].
  split; [exact (rg_volume_product s H)|exact (rg_total_is_extents s H)].
Qed.

Theorem C08_rg_codomain_involution : forall s,
  rg_codomain (rg_codomain s) = s /\ (rg_ok s -> rg_ok (rg_codomain s)).
Proof. intros s. split; [exact (codomain_involutive s)|exact (codomain_ok s)]. Qed.

(* the constructor: a grid reports the distances it was built with (position and harmonic), is
   well-formed, and the default distances are 1/n resp. 1 *)
Theorem C08_rg_constructor : forall sh ds h,
  length ds = length sh -> Forall (fun n => 1 <= n) sh -> Forall (fun r => r <> 0%Qc) ds ->
  rg_distances (rg_make sh (Some ds) h) = ds /\ rg_ok (rg_make sh (Some ds) h).
Proof.
  intros sh ds h L Hn Hd. split; [exact (rg_make_distances sh ds h L Hn Hd)|exact (rg_make_ok sh ds h L Hn Hd)].
Qed.

Theorem C08_rg_default_distances : forall sh h, Forall (fun n => 1 <= n) sh ->
  rg_distances (rg_make sh None h) = if h then repeat 1%Qc (length sh) else map (fun n => (1 / qn n)%Qc) sh.
Proof. exact rg_make_default. Qed.

(* ---- PowerSpace: any k-length list, any bounds -------------------------------------------------- *)
(* numpy's searchsorted contract (left): bounds[j] < k for j < i and k <= bounds[i] *)
Theorem C08_searchsorted : forall bounds k,
  searchsorted bounds k <= length bounds /\
  (forall j, j < searchsorted bounds k -> (nth j bounds 0 < k)%Q) /\
  (searchsorted bounds k < length bounds -> (k <= nth (searchsorted bounds k) bounds 0)%Q).
Proof.
  intros bounds k. split; [exact (searchsorted_le bounds k)|exact (searchsorted_spec bounds k)].
Qed.

(* partition: every pixel has exactly one bin index, it is < nbin; rho_b counts the pixels of bin b;
   the bin sizes add up to the partner's size; dvol_b = rho_b * pdvol; the bin volumes add up to
   the partner's total volume size * pdvol *)
Theorem C08_power_partition : forall bounds ks pdvol,
  Forall (fun i => i < ps_nbin bounds) (pindex_of bounds ks) /\
  length (pindex_of bounds ks) = length ks /\
  (forall b, nth b (ps_rho bounds ks) 0 = count_eq b (pindex_of bounds ks)) /\
  list_sum (ps_rho bounds ks) = length ks /\
  (forall b, b < ps_nbin bounds ->
     nth b (ps_dvol bounds ks pdvol) 0%Q = (qofn (nth b (ps_rho bounds ks) 0%nat) * pdvol)%Q) /\
  (qsum (ps_dvol bounds ks pdvol) == qofn (length ks) * pdvol)%Q.
Proof.
  intros bounds ks pdvol. split; [exact (pindex_in_range bounds ks)|].
  split; [unfold pindex_of; apply map_length|].
  split; [exact (rho_counts bounds ks)|]. split; [exact (rho_total bounds ks)|].
  split; [intros b Hb; exact (dvol_nth bounds ks pdvol b Hb)|exact (dvol_total bounds ks pdvol)].
Qed.

(* natural bounds = midpoints of the strictly increasing unique lengths u: a pixel whose length is
   one of the unique lengths is in bin b iff its length is the b-th one; hence the summed k-lengths
   of bin b are rho_b * u_b (the bin's k-length, sum/rho, is u_b) *)
Theorem C08_power_natural : forall u, StronglySorted Qlt u ->
  length (mids u) = length u - 1 /\
  (forall k b, b < length u -> (exists b', b' < length u /\ (k == nth b' u 0)%Q) ->
     (searchsorted (mids u) k = b <-> (k == nth b u 0)%Q)) /\
  (forall ks b, b < length u ->
     (forall k, In k ks -> exists b', b' < length u /\ (k == nth b' u 0)%Q) ->
     (nth b (ps_ksum (mids u) ks) 0 == qofn (nth b (ps_rho (mids u) ks) 0%nat) * nth b u 0)%Q).
Proof.
  intros u Hs. split; [exact (mids_length u)|]. split.
  - intros k b Hb Hin. exact (natural_bin_iff u k b Hs Hb Hin).
  - intros ks b Hb Hin. exact (natural_ksum u ks b Hs Hb Hin).
Qed.

(* ---- canonical identity -------------------------------------------------------------------------- *)
(* For every description type D, key type K with decidable equality, canonicalisation canon, every
   well-formed starting cache (whatever was made before) and EVERY history of
   make(description) / make(existing object) / pickle round trip: two results are the identical
   object iff their canonicalised descriptions are equal. *)
Theorem C08_canonical :
  forall (D K : Type) (canon : D -> K) (keqb : K -> K -> bool),
    (forall a b, keqb a b = true <-> a = b) ->
    forall (s0 : hstate K) (ops : list (hop D)) o1 d1 o2 d2,
      inv D K canon s0 [] ->
      In (o1, d1) (run D K canon keqb ops s0 []) -> In (o2, d2) (run D K canon keqb ops s0 []) ->
      (o1 = o2 <-> canon d1 = canon d2).
Proof. exact canonical_from. Qed.

Theorem C08_empty_cache_wellformed : forall (D K : Type) (canon : D -> K), inv D K canon (hinit K) [].
Proof. exact inv_init. Qed.

(* MultiDomain: the key (items sorted by name) is the same for two dicts iff they have the same
   items in some order (names distinct) *)
Theorem C08_multidomain_key : forall l1 l2, NoDup (map fst l1) ->
  (sort_items l1 = sort_items l2 <-> Permutation l1 l2).
Proof. exact sort_items_canonical. Qed.

(* PowerSpace._powerIndexCache: for every pure binning computation f, every key type with decidable
   equality, every cache whose entries were produced by f, and every sequence of queries (repeated,
   interleaved, through different but equal domain objects) the answers are exactly f of the keys. *)
Theorem C08_power_cache_transparent :
  forall (K V : Type) (f : K -> V) (keqb : K -> K -> bool),
    (forall a b, keqb a b = true <-> a = b) ->
    forall (ks : list K) (t : list (K * V)),
      (forall k v, In (k, v) t -> v = f k) ->
      mrun K V f keqb ks t = map f ks.
Proof. exact mrun_transparent. Qed.

(* ---- sphere (partial: ducc0 geometry is an oracle) ---------------------------------------------- *)
(* HEALPix: size * scalar_dvol = 4 pi for every value of the symbol pi and every nside >= 1 *)
Theorem C08_sphere_volumes_partial : forall pi nside, 1 <= nside ->
  hp_total pi nside = (qn 4 * pi)%Qc.
Proof. exact hp_total_4pi. Qed.

(* ---- sphere pair: LMSpace / GLSpace constructors and default codomains (round 6) ------------------ *)
(* for all mmax <= lmax: the constructor accepts, the default codomain is GLSpace(lmax+1, 2*mmax+1),
   which is accepted, and ITS default codomain is the LMSpace we started from (involution on the LM side) *)
Theorem C08_sphere_lm_codomain_roundtrip : forall lmax mmax, mmax <= lmax ->
  lm_make lmax (Some mmax) = Some (lmax, mmax) /\
  lm_codomain (lmax, mmax) = Some (lmax + 1, mmax * 2 + 1) /\
  gl_codomain (lmax + 1, mmax * 2 + 1) = Some (lmax, mmax).
Proof. exact sph_lm_roundtrip. Qed.

(* for all nlat, nlon >= 1: GLSpace accepts, get_default_codomain never raises (mmax = nlon//2 <= lmax),
   the LMSpace resolves at least nlat-1, and its own codomain is accepted and has at least nlat rings *)
Theorem C08_sphere_gl_codomain_valid : forall nlat nlon, 1 <= nlat -> 1 <= nlon ->
  gl_make nlat (Some nlon) = Some (nlat, nlon) /\
  exists l m, gl_codomain (nlat, nlon) = Some (l, m) /\ m <= l /\ m = nlon / 2 /\ nlat - 1 <= l /\
    lm_codomain (l, m) = Some (l + 1, m * 2 + 1) /\ nlat <= l + 1.
Proof. exact sph_gl_codomain_valid. Qed.

(* defaults: LMSpace(lmax) = LMSpace(lmax, lmax) with (lmax+1)^2 coefficients; GLSpace(nlat) has
   nlon = 2*nlat-1, its codomain is LMSpace(nlat-1, nlat-1), whose codomain is the same GLSpace again *)
Theorem C08_sphere_defaults : forall n,
  (lm_make n None = Some (n, n) /\ lm_size n n = (n + 1) * (n + 1)) /\
  (1 <= n -> gl_make n None = Some (n, 2 * n - 1) /\
             gl_codomain (n, 2 * n - 1) = Some (n - 1, n - 1) /\
             lm_codomain (n - 1, n - 1) = Some (n, 2 * n - 1)).
Proof. intros n. split; [exact (sph_lm_default n)|exact (sph_gl_default n)]. Qed.

(* the ValueError branches: mmax > lmax, nlat < 1, nlon < 1 *)
Theorem C08_sphere_rejections : forall lmax mmax nlon, lmax < mmax ->
  lm_make lmax (Some mmax) = None /\ gl_make 0 nlon = None /\ gl_make (S lmax) (Some 0) = None.
Proof. exact sph_rejects. Qed.

(* the Gauss-Legendre partner has at least as many pixels as the LMSpace has coefficients *)
Theorem C08_sphere_gl_enough_pixels : forall lmax mmax, mmax <= lmax ->
  lm_size lmax mmax <= gl_size (lmax + 1, mmax * 2 + 1).
Proof. exact sph_gl_enough. Qed.

(* Non-vacuity *)
Example C08_hyps_satisfiable :
  rg_ok (rg_make [4; 3] (Some [Q2Qc (1 # 2); Q2Qc (3 # 4)]) true) /\
  StronglySorted Qlt [0; 1 # 2; 1]%Q /\
  rg_unique_sq [4; 3] = [0; 1; 2; 4; 5] /\
  rg_natural_pindex [4; 3] = [0; 1; 1; 1; 2; 2; 3; 4; 4; 1; 2; 2] /\
  lm_klengths 2 1 = [0; 1; 2; 1; 1; 2; 2].
Proof.
  split; [apply rg_make_ok; [reflexivity|repeat constructor|repeat constructor; discriminate]|].
  split; [repeat constructor; reflexivity|]. repeat split; reflexivity.
Qed.
