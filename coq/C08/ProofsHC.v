(* C08 -- the hash-consing caches: two results of any history of make / make(obj) / pickle round
   trips are the identical object iff their (canonicalised) descriptions are equal. *)
From Coq Require Import List Arith Bool Lia Permutation Sorting.Sorted.
Import ListNotations.
Require Import NV.C08.Model.

Section HC.
Variables (D K : Type) (canon : D -> K) (keqb : K -> K -> bool).
Hypothesis keqb_spec : forall a b, keqb a b = true <-> a = b.

Local Notation lookup := (lookup K keqb).
Local Notation make := (make K keqb).
Local Notation run := (run D K canon keqb).

Lemma lookup_some t k o : lookup t k = Some o -> In (k, o) t.
Proof.
  induction t as [|[k' o'] t IH]; simpl; [discriminate|].
  destruct (keqb k k') eqn:E.
  - intros H. injection H as <-. apply keqb_spec in E. subst. left. reflexivity.
  - intros H. right. apply IH. exact H.
Qed.

Lemma lookup_none t k : lookup t k = None -> ~ In k (map fst t).
Proof.
  induction t as [|[k' o'] t IH]; simpl; [tauto|].
  destruct (keqb k k') eqn:E; [discriminate|].
  intros H [H1|H1]; [|exact (IH H H1)].
  subst. assert (keqb k k = true) by (apply keqb_spec; reflexivity). congruence.
Qed.

Definition inv (s : hstate K) (res : list (nat * D)) : Prop :=
  (forall k o, In (k, o) (cache K s) -> o < next K s) /\
  NoDup (map fst (cache K s)) /\ NoDup (map snd (cache K s)) /\
  (forall o d, In (o, d) res -> In (canon d, o) (cache K s)).

Lemma make_inv s res d :
  inv s res -> inv (fst (make s (canon d))) (res ++ [(snd (make s (canon d)), d)]).
Proof.
  intros (I1 & I2 & I3 & I4). unfold Model.make.
  destruct (lookup (cache K s) (canon d)) as [o|] eqn:E; simpl.
  - repeat split; try assumption.
    intros o' d' Hin. apply in_app_or in Hin. destruct Hin as [Hin|[Hin|[]]]; [apply I4; exact Hin|].
    injection Hin as <- <-. apply lookup_some. exact E.
  - repeat split.
    + simpl. intros k o [Hin|Hin]; [injection Hin as <- <-; lia|]. specialize (I1 k o Hin). lia.
    + constructor; [apply lookup_none; exact E|exact I2].
    + constructor; [|exact I3]. intros Hin. apply in_map_iff in Hin. destruct Hin as ([k o] & Eo & Hin).
      simpl in Eo. subst o. specialize (I1 k _ Hin). lia.
    + intros o' d' Hin. apply in_app_or in Hin. destruct Hin as [Hin|[Hin|[]]].
      * right. apply I4. exact Hin.
      * injection Hin as <- <-. left. reflexivity.
Qed.

Lemma run_inv ops : forall s res, inv s res -> exists s', inv s' (run ops s res).
Proof.
  induction ops as [|op ops IH]; intros s res Hinv; simpl; [exists s; exact Hinv|].
  destruct op as [d|i|i].
  - pose proof (make_inv s res d Hinv) as H. destruct (make s (canon d)) as [s' o]. apply (IH s'). exact H.
  - destruct (nth_error res i) as [[o d]|] eqn:E; [|apply (IH s); exact Hinv].
    apply (IH s). destruct Hinv as (I1 & I2 & I3 & I4). repeat split; try assumption.
    intros o' d' Hin. apply in_app_or in Hin. destruct Hin as [Hin|[Hin|[]]]; [apply I4; exact Hin|].
    injection Hin as <- <-. apply I4. eapply nth_error_In. exact E.
  - destruct (nth_error res i) as [[o d]|] eqn:E; [|apply (IH s); exact Hinv].
    pose proof (make_inv s res d Hinv) as H. destruct (make s (canon d)) as [s' o']. apply (IH s'). exact H.
Qed.

Lemma nodup_fst_fun {A B} (l : list (A * B)) a b1 b2 :
  NoDup (map fst l) -> In (a, b1) l -> In (a, b2) l -> b1 = b2.
Proof.
  induction l as [|[a' b'] l IH]; simpl; intros Hnd H1 H2; [contradiction|].
  inversion Hnd as [|? ? Hni Hnd']; subst.
  destruct H1 as [H1|H1], H2 as [H2|H2].
  - congruence.
  - injection H1 as -> ->. exfalso. apply Hni. apply in_map_iff. exists (a, b2). auto.
  - injection H2 as -> ->. exfalso. apply Hni. apply in_map_iff. exists (a, b1). auto.
  - apply IH; assumption.
Qed.

Lemma nodup_snd_fun {A B} (l : list (A * B)) a1 a2 b :
  NoDup (map snd l) -> In (a1, b) l -> In (a2, b) l -> a1 = a2.
Proof.
  induction l as [|[a' b'] l IH]; simpl; intros Hnd H1 H2; [contradiction|].
  inversion Hnd as [|? ? Hni Hnd']; subst.
  destruct H1 as [H1|H1], H2 as [H2|H2].
  - congruence.
  - injection H1 as -> ->. exfalso. apply Hni. apply in_map_iff. exists (a2, b). auto.
  - injection H2 as -> ->. exfalso. apply Hni. apply in_map_iff. exists (a1, b). auto.
  - apply IH; assumption.
Qed.

Lemma inv_canonical s res o1 d1 o2 d2 :
  inv s res -> In (o1, d1) res -> In (o2, d2) res -> (o1 = o2 <-> canon d1 = canon d2).
Proof.
  intros (I1 & I2 & I3 & I4) H1 H2. apply I4 in H1. apply I4 in H2. split.
  - intros ->. eapply nodup_snd_fun; eassumption.
  - intros E. rewrite E in H1. eapply nodup_fst_fun; eassumption.
Qed.

Lemma inv_init : inv (hinit K) [].
Proof. unfold inv, hinit. simpl. repeat split; try constructor; intros; contradiction. Qed.

(* from ANY well-formed cache (whatever was made before), for every history *)
Lemma canonical_from s0 ops o1 d1 o2 d2 :
  inv s0 [] ->
  In (o1, d1) (run ops s0 []) -> In (o2, d2) (run ops s0 []) ->
  (o1 = o2 <-> canon d1 = canon d2).
Proof.
  intros H0 H1 H2. destruct (run_inv ops s0 [] H0) as (s' & Hinv).
  exact (inv_canonical s' _ o1 d1 o2 d2 Hinv H1 H2).
Qed.

Lemma canonical ops o1 d1 o2 d2 :
  In (o1, d1) (run ops (hinit K) []) -> In (o2, d2) (run ops (hinit K) []) ->
  (o1 = o2 <-> canon d1 = canon d2).
Proof. apply canonical_from. exact inv_init. Qed.

(* the cache never holds two objects for one key, nor one object under two keys *)
Lemma cache_bijective s res : inv s res ->
  NoDup (map fst (cache K s)) /\ NoDup (map snd (cache K s)).
Proof. intros (_ & I2 & I3 & _). split; assumption. Qed.
End HC.

(* ---- MultiDomain keys: sorting by name makes the key independent of the insertion order ---- *)
Definition name_lt (a b : nat * nat) : Prop := fst a < fst b.

Lemma ins_perm x l : Permutation (ins_sorted x l) (x :: l).
Proof.
  induction l as [|y r IH]; simpl; [reflexivity|].
  destruct (fst x <=? fst y); [reflexivity|].
  rewrite IH. apply perm_swap.
Qed.

Lemma sort_perm l : Permutation (sort_items l) l.
Proof. induction l as [|x l IH]; simpl; [reflexivity|]. rewrite ins_perm, IH. reflexivity. Qed.

Lemma ins_sorted_srt x l :
  StronglySorted name_lt l -> ~ In (fst x) (map fst l) -> StronglySorted name_lt (ins_sorted x l).
Proof.
  induction 1 as [|y r Hs IH Hy]; intros Hni; simpl; [constructor; constructor|].
  destruct (fst x <=? fst y) eqn:E.
  - apply Nat.leb_le in E. assert (fst x <> fst y) by (intros Z; apply Hni; left; symmetry; exact Z).
    constructor; [constructor; assumption|].
    constructor; [unfold name_lt; lia|].
    rewrite Forall_forall in *. intros z Hz. specialize (Hy z Hz). unfold name_lt in *. lia.
  - apply Nat.leb_gt in E. constructor.
    + apply IH. intros Z. apply Hni. right. exact Z.
    + apply Forall_forall. intros z Hz.
      apply (Permutation_in _ (ins_perm x r)) in Hz. destruct Hz as [<-|Hz]; [exact E|].
      rewrite Forall_forall in Hy. apply Hy. exact Hz.
Qed.

Lemma sort_srt l : NoDup (map fst l) -> StronglySorted name_lt (sort_items l).
Proof.
  induction l as [|x l IH]; simpl; intros Hnd; [constructor|].
  inversion Hnd; subst. apply ins_sorted_srt; [apply IH; assumption|].
  intros Hin. apply H1. apply (Permutation_in _ (Permutation_map fst (sort_perm l))). exact Hin.
Qed.

Lemma srt_unique l1 : forall l2,
  StronglySorted name_lt l1 -> StronglySorted name_lt l2 -> Permutation l1 l2 -> l1 = l2.
Proof.
  induction l1 as [|x l1 IH]; intros l2 H1 H2 P.
  - apply Permutation_nil in P. subst. reflexivity.
  - destruct l2 as [|y l2]; [apply Permutation_sym, Permutation_nil in P; discriminate|].
    inversion H1 as [|? ? H1' Hx]; subst. inversion H2 as [|? ? H2' Hy]; subst.
    rewrite Forall_forall in Hx, Hy.
    assert (x = y).
    { assert (Iy : In y (x :: l1)) by (apply (Permutation_in _ (Permutation_sym P)); left; reflexivity).
      assert (Ix : In x (y :: l2)) by (apply (Permutation_in _ P); left; reflexivity).
      destruct Iy as [Iy|Iy]; [exact Iy|]. destruct Ix as [Ix|Ix]; [symmetry; exact Ix|].
      specialize (Hx y Iy). specialize (Hy x Ix). unfold name_lt in *. lia. }
    subst y. f_equal. apply IH; try assumption. eapply Permutation_cons_inv. exact P.
Qed.

(* two dicts with the same items (in any order, names distinct) have the same key, and conversely *)
Lemma sort_items_canonical l1 l2 :
  NoDup (map fst l1) ->
  (sort_items l1 = sort_items l2 <-> Permutation l1 l2).
Proof.
  intros Hnd. split.
  - intros E. rewrite <- (sort_perm l1), E. apply sort_perm.
  - intros P. apply srt_unique.
    + apply sort_srt. exact Hnd.
    + apply sort_srt. apply (Permutation_NoDup (Permutation_map fst P)). exact Hnd.
    + rewrite (sort_perm l1), (sort_perm l2). exact P.
Qed.

(* ---- a memo table in front of a pure function is transparent ---- *)
Section MemoP.
Variables (K V : Type) (f : K -> V) (keqb : K -> K -> bool).
Hypothesis keqb_spec : forall a b, keqb a b = true <-> a = b.

Definition minv (t : list (K * V)) : Prop := forall k v, In (k, v) t -> v = f k.

Lemma mlookup_in t k v : mlookup K V keqb t k = Some v -> In (k, v) t.
Proof.
  induction t as [|[k' v'] t IH]; simpl; [discriminate|].
  destruct (keqb k k') eqn:E.
  - intros H. injection H as <-. apply keqb_spec in E. subst. left. reflexivity.
  - intros H. right. apply IH. exact H.
Qed.

Lemma mrun_transparent ks : forall t, minv t -> mrun K V f keqb ks t = map f ks.
Proof.
  induction ks as [|k ks IH]; intros t Ht; simpl; [reflexivity|].
  unfold mget. destruct (mlookup K V keqb t k) as [v|] eqn:E.
  - rewrite IH by exact Ht. f_equal. apply Ht. apply mlookup_in. exact E.
  - rewrite IH; [reflexivity|]. intros k' v' [H|H]; [injection H as <- <-; reflexivity|apply Ht; exact H].
Qed.
End MemoP.
