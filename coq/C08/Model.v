(* C08 -- executable model of the domain geometry and of the canonical-object caches (no proofs).

   Mirrors nifty/cl:
     domains/lm_space.py      LMSpace.size, get_k_length_array, get_unique_k_lengths
     domains/rg_space.py      RGSpace.__init__ (distances), scalar_dvol, size, total_volume, extents,
                              get_default_codomain, _get_dist_array, get_unique_k_lengths
     domains/power_space.py   PowerSpace.__init__ (natural bounds, searchsorted, rho, k_lengths, dvol)
     domains/hp_space.py      HPSpace.size / scalar_dvol  (pi is a symbol)
     domain_tuple.py          DomainTuple.make / _tupleCache / __reduce__
     multi_domain.py          MultiDomain.make / _domainCache / __reduce__ (keys sorted)
*)
From Coq Require Import List Arith Bool ZArith QArith Qcanon.
Import ListNotations.
Open Scope nat_scope.

(* ============================================================================================== *)
(* LMSpace                                                                                         *)
(* ============================================================================================== *)
(*  size:  l, m = lmax, mmax;  return (l+1)**2 - (l-m)*(l-m+1)          (mmax <= lmax is enforced) *)
Definition lm_size (lmax mmax : nat) : nat := (lmax + 1) * (lmax + 1) - (lmax - mmax) * (lmax - mmax + 1).

(*  tmp = np.empty(2*lmax+2); tmp[0::2] = np.arange(lmax+1); tmp[1::2] = np.arange(lmax+1)          *)
Definition lm_tmp (lmax : nat) : list nat := flat_map (fun l => [l; l]) (seq 0 (S lmax)).

(*  ldist[0:lmax+1] = np.arange(lmax+1)
    idx = lmax+1
    for m in range(1, mmax+1):
        ldist[idx:idx+2*(lmax+1-m)] = tmp[2*m:]
        idx += 2*(lmax+1-m)
    (slice assignments = consecutive blocks; the theorem shows that they fill exactly `size` cells) *)
Definition lm_klengths (lmax mmax : nat) : list nat :=
  seq 0 (S lmax) ++ flat_map (fun m => skipn (2 * m) (lm_tmp lmax)) (seq 1 mmax).

(*  get_unique_k_lengths: np.arange(self.lmax+1)                                                     *)
Definition lm_unique (lmax : nat) : list nat := seq 0 (S lmax).

(* ============================================================================================== *)
(* RGSpace: integer tables (k-lengths in units of the harmonic distance)                            *)
(* ============================================================================================== *)
(*  res = np.arange(n);  res = np.minimum(res, n - res)                                              *)
Definition axis_tab (n : nat) : list nat := map (fun j => Nat.min j (n - j)) (seq 0 n).
Definition sqs (l : list nat) : list nat := map (fun x => x * x) l.

(*  np.add.outer(res, tmp), flattened row-major                                                      *)
Definition outer_add (a b : list nat) : list nat := flat_map (fun x => map (fun y => x + y) b) a.

(*  _get_dist_array for >= 2 axes and equal distances d: entries are sqrt(table) * d
        res = min-table of axis 0, squared;  for i in 1..: tmp = min-table of axis i, squared;
        res = np.add.outer(res, tmp)                                                                 *)
Definition rg_ksq (shape : list nat) : list nat :=
  match shape with
  | [] => []
  | n0 :: rest => fold_left (fun res n => outer_add res (sqs (axis_tab n))) rest (sqs (axis_tab n0))
  end.

(*  1-D: entries are axis_tab n * d (no square root)                                                 *)
Definition rg_k1 (n : nat) : list nat := axis_tab n.

(*  get_unique_k_lengths, 1-D:  np.arange(shape[0]//2 + 1) * d                                        *)
Definition rg_unique1 (n : nat) : list nat := seq 0 (S (n / 2)).

(*  get_unique_k_lengths, equal distances ("shortcut"):
        maxdist = shape//2;  tmp = zeros(sum(maxdist*maxdist)+1, bool)
        t2 = arange(maxdist[0]+1)**2;  for i in 1..: t2 = add.outer(t2, arange(maxdist[i]+1)**2)
        tmp[t2] = True;  return sqrt(nonzero(tmp)[0]) * d                                             *)
Definition sieve_vals (shape : list nat) : list nat :=
  match shape with
  | [] => []
  | n0 :: rest => fold_left (fun res n => outer_add res (sqs (seq 0 (S (n / 2))))) rest (sqs (seq 0 (S (n0 / 2))))
  end.
Definition sieve_len (shape : list nat) : nat := S (list_sum (map (fun n => (n / 2) * (n / 2)) shape)).
Definition rg_unique_sq (shape : list nat) : list nat :=
  filter (fun v => existsb (Nat.eqb v) (sieve_vals shape)) (seq 0 (sieve_len shape)).

(* rank of a value in a strictly increasing list = its natural-binning power index                   *)
Fixpoint rank_of (v : nat) (u : list nat) : nat :=
  match u with
  | [] => 0
  | x :: r => if v <=? x then 0 else S (rank_of v r)
  end.
Definition rg_natural_pindex (shape : list nat) : list nat :=
  map (fun v => rank_of v (rg_unique_sq shape)) (rg_ksq shape).

(* ============================================================================================== *)
(* RGSpace: distances and volumes (exact rationals)                                                 *)
(* ============================================================================================== *)
Definition qn (n : nat) : Qc := Q2Qc (inject_Z (Z.of_nat n)).

Record rgspace := mkRG { rg_shape : list nat; rg_rdist : list Qc; rg_harm : bool }.

Fixpoint map2 {A B C} (f : A -> B -> C) (a : list A) (b : list B) : list C :=
  match a, b with
  | x :: a', y :: b' => f x y :: map2 f a' b'
  | _, _ => []
  end.

(*  __init__(shape, distances, harmonic):
        distances is None:  _rdistances = 1/shape
        else (scalar broadcast or tuple):  temp[:] = distances
              if harmonic: temp = 1/(shape*temp)
              _rdistances = temp                                                                      *)
Definition rg_make (shape : list nat) (distances : option (list Qc)) (harmonic : bool) : rgspace :=
  match distances with
  | None => mkRG shape (map (fun n => (1 / qn n)%Qc) shape) harmonic
  | Some ds =>
      mkRG shape (if harmonic then map2 (fun n d => (1 / (qn n * d))%Qc) shape ds else ds) harmonic
  end.

(*  _hdistances = 1/(shape*_rdistances);  distances = _hdistances if harmonic else _rdistances        *)
Definition rg_hdist (s : rgspace) : list Qc := map2 (fun n r => (1 / (qn n * r))%Qc) (rg_shape s) (rg_rdist s).
Definition rg_distances (s : rgspace) : list Qc := if rg_harm s then rg_hdist s else rg_rdist s.

Definition qprod (l : list Qc) : Qc := fold_right Qcmult 1%Qc l.
Definition nprod (l : list nat) : nat := fold_right Nat.mul 1 l.

(*  _dvol = reduce(mul, distances);  _size = reduce(mul, shape);  total_volume = size * dvol
    extents = tuple(x*y for x, y in zip(shape, distances))                                            *)
Definition rg_dvol (s : rgspace) : Qc := qprod (rg_distances s).
Definition rg_size (s : rgspace) : nat := nprod (rg_shape s).
Definition rg_total_volume (s : rgspace) : Qc := (qn (rg_size s) * rg_dvol s)%Qc.
Definition rg_extents (s : rgspace) : list Qc := map2 (fun n d => (qn n * d)%Qc) (rg_shape s) (rg_distances s).

(*  get_default_codomain:  RGSpace(self.shape, None, not self.harmonic, self._rdistances)             *)
Definition rg_codomain (s : rgspace) : rgspace := mkRG (rg_shape s) (rg_rdist s) (negb (rg_harm s)).

(* ============================================================================================== *)
(* PowerSpace: binning                                                                              *)
(* ============================================================================================== *)
(*  np.searchsorted(tbb, k) (side='left'): the first i with k <= tbb[i], len(tbb) if none
    (= the insertion point a[i-1] < k <= a[i] for sorted tbb)                                         *)
Fixpoint searchsorted (bounds : list Q) (k : Q) : nat :=
  match bounds with
  | [] => 0
  | b :: r => if Qle_bool k b then 0 else S (searchsorted r k)
  end.

(*  tbb = 0.5*(tmp[:-1]+tmp[1:])   for tmp = get_unique_k_lengths()                                    *)
Fixpoint mids (u : list Q) : list Q :=
  match u with
  | a :: ((b :: _) as r) => ((a + b) * (1 # 2))%Q :: mids r
  | _ => []
  end.

Definition pindex_of (bounds : list Q) (ks : list Q) : list nat := map (searchsorted bounds) ks.

(*  numpy.bincount(idx, weights, minlength) restricted to idx < minlength                            *)
Fixpoint upd {A} (l : list A) (i : nat) (v : A) : list A :=
  match l, i with
  | [], _ => []
  | _ :: t, O => v :: t
  | x :: t, S i' => x :: upd t i' v
  end.

Fixpoint bincount_acc {A} (zero : A) (add : A -> A -> A) (idx : list nat) (w : list A) (acc : list A) : list A :=
  match idx, w with
  | i :: idx', v :: w' => bincount_acc zero add idx' w' (upd acc i (add (nth i acc zero) v))
  | _, _ => acc
  end.

(*  nbin = len(tbb)+1
    temp_rho = np.bincount(temp_pindex.ravel(), minlength=nbin)
    temp_k_lengths = np.bincount(temp_pindex.ravel(), weights=k_length_array.ravel(), minlength=nbin) / temp_rho
    temp_dvol = temp_rho*pdvol                                                                        *)
Definition ps_nbin (bounds : list Q) : nat := S (length bounds).
Definition ps_rho (bounds ks : list Q) : list nat :=
  bincount_acc 0 Nat.add (pindex_of bounds ks) (repeat 1 (length ks)) (repeat 0 (ps_nbin bounds)).
Definition ps_ksum (bounds ks : list Q) : list Q :=
  bincount_acc 0%Q Qplus (pindex_of bounds ks) ks (repeat 0%Q (ps_nbin bounds)).
Definition qofn (n : nat) : Q := inject_Z (Z.of_nat n).
Definition ps_klengths (bounds ks : list Q) : list Q :=
  map2 (fun s r => (s / qofn r)%Q) (ps_ksum bounds ks) (ps_rho bounds ks).
Definition ps_dvol (bounds ks : list Q) (pdvol : Q) : list Q := map (fun r => (qofn r * pdvol)%Q) (ps_rho bounds ks).
(*  if (temp_rho == 0).any(): raise ValueError("empty bins detected")                                 *)
Definition ps_valid (bounds ks : list Q) : bool := negb (existsb (Nat.eqb 0) (ps_rho bounds ks)).

Definition qsum (l : list Q) : Q := fold_right Qplus 0%Q l.

(* ============================================================================================== *)
(* canonical objects: DomainTuple._tupleCache / MultiDomain._domainCache                            *)
(* ============================================================================================== *)
Section HashCons.
Variable D : Type.                       (* what the caller passes: a description *)
Variable K : Type.                       (* the cache key *)
Variable canon : D -> K.                 (* DomainTuple: the tuple itself; MultiDomain: keys sorted *)
Variable keqb : K -> K -> bool.          (* dict lookup: __hash__/__eq__ of the key *)

Definition table := list (K * nat).
Fixpoint lookup (t : table) (k : K) : option nat :=
  match t with
  | [] => None
  | (k', o) :: r => if keqb k k' then Some o else lookup r k
  end.

Record hstate := mkH { cache : table; next : nat }.

(*  obj = Cache.get(key);  if obj is not None: return obj
    obj = Class(key, _callingfrommake=True);  Cache[key] = obj;  return obj                            *)
Definition make (s : hstate) (k : K) : hstate * nat :=
  match lookup (cache s) k with
  | Some o => (s, o)
  | None => (mkH ((k, next s) :: cache s) (S (next s)), next s)
  end.

(* one step of a history; results so far = list of (object identity, description) *)
Inductive hop :=
| Make (d : D)          (* Class.make(description) *)
| Same (i : nat)        (* Class.make(obj_i): `if isinstance(domain, Class): return domain` *)
| Pickle (i : nat).     (* pickle.loads(pickle.dumps(obj_i)): __reduce__ -> make(description of obj_i) *)

Fixpoint run (ops : list hop) (s : hstate) (res : list (nat * D)) : list (nat * D) :=
  match ops with
  | [] => res
  | Make d :: r => let (s', o) := make s (canon d) in run r s' (res ++ [(o, d)])
  | Same i :: r =>
      match nth_error res i with
      | Some (o, d) => run r s (res ++ [(o, d)])
      | None => run r s res
      end
  | Pickle i :: r =>
      match nth_error res i with
      | Some (_, d) => let (s', o) := make s (canon d) in run r s' (res ++ [(o, d)])
      | None => run r s res
      end
  end.

Definition hinit : hstate := mkH [] 0.
End HashCons.

(* MultiDomain key: `self._keys = tuple(sorted(dct.keys()))`, frozendict equality is order-free.
   A dict is an association list name -> tuple description with distinct names. *)
Fixpoint ins_sorted (x : nat * nat) (l : list (nat * nat)) : list (nat * nat) :=
  match l with
  | [] => [x]
  | y :: r => if fst x <=? fst y then x :: l else y :: ins_sorted x r
  end.
Definition sort_items (l : list (nat * nat)) : list (nat * nat) := fold_right ins_sorted [] l.

(* label every result by the position of the first result that is the identical object *)
Fixpoint first_pos (o : nat) (ids : list nat) : nat :=
  match ids with
  | [] => 0
  | x :: r => if x =? o then 0 else S (first_pos o r)
  end.
Definition id_classes (ids : list nat) : list nat := map (fun o => first_pos o ids) ids.

(* ============================================================================================== *)
(* HPSpace (pi is a symbol: any element of the field)                                              *)
(* ============================================================================================== *)
(*  size = int(12*nside*nside);  scalar_dvol = np.pi/(3*nside*nside);  total_volume = size*dvol      *)
Definition hp_size (nside : nat) : nat := 12 * nside * nside.
Definition hp_dvol (pi : Qc) (nside : nat) : Qc := (pi / (qn 3 * qn nside * qn nside))%Qc.
Definition hp_total (pi : Qc) (nside : nat) : Qc := (qn (hp_size nside) * hp_dvol pi nside)%Qc.

(* ============================================================================================== *)
(* PowerSpace._powerIndexCache: a memo table in front of a pure computation                         *)
(* ============================================================================================== *)
(*  key = (harmonic_partner, binbounds)
    if self._powerIndexCache.get(key) is None:  ... compute ...;  self._powerIndexCache[key] = (...)
    (...) = self._powerIndexCache[key]                                                                *)
Section Memo.
Variables (K V : Type) (f : K -> V) (keqb : K -> K -> bool).
Fixpoint mlookup (t : list (K * V)) (k : K) : option V :=
  match t with
  | [] => None
  | (k', v) :: r => if keqb k k' then Some v else mlookup r k
  end.
Definition mget (t : list (K * V)) (k : K) : list (K * V) * V :=
  match mlookup t k with
  | Some v => (t, v)
  | None => ((k, f k) :: t, f k)
  end.
Fixpoint mrun (ks : list K) (t : list (K * V)) : list V :=
  match ks with
  | [] => []
  | k :: r => let (t', v) := mget t k in v :: mrun r t'
  end.
End Memo.

(* ============================================================================================== *)
(* The sphere pair: LMSpace / GLSpace constructors (option handling) and default codomains          *)
(* ============================================================================================== *)
(*  LMSpace.__init__(lmax, mmax=None):
        if mmax is None: mmax = self._lmax
        if self._mmax < 0 or self._mmax > self._lmax: raise ValueError     (None = ValueError)        *)
Definition lm_make (lmax : nat) (mmax : option nat) : option (nat * nat) :=
  let m := match mmax with None => lmax | Some m => m end in
  if lmax <? m then None else Some (lmax, m).

(*  GLSpace.__init__(nlat, nlon=None):
        if self._nlat < 1: raise ValueError
        if nlon is None: self._nlon = 2*self._nlat - 1
        else: self._nlon = int(nlon); if self._nlon < 1: raise ValueError                            *)
Definition gl_make (nlat : nat) (nlon : option nat) : option (nat * nat) :=
  if nlat <? 1 then None else
  match nlon with
  | None => Some (nlat, 2 * nlat - 1)
  | Some n => if n <? 1 then None else Some (nlat, n)
  end.

(*  GLSpace.size: int(self.nlat * self.nlon)                                                          *)
Definition gl_size (g : nat * nat) : nat := fst g * snd g.

(*  LMSpace.get_default_codomain: return GLSpace(self.lmax+1, self.mmax*2+1)                          *)
Definition lm_codomain (s : nat * nat) : option (nat * nat) := gl_make (fst s + 1) (Some (snd s * 2 + 1)).

(*  GLSpace.get_default_codomain:
        mmax = self._nlon//2;  lmax = max(mmax, self._nlat-1);  return LMSpace(lmax=lmax, mmax=mmax)  *)
Definition gl_codomain (g : nat * nat) : option (nat * nat) :=
  let mmax := snd g / 2 in
  let lmax := Nat.max mmax (fst g - 1) in
  lm_make lmax (Some mmax).

(* what the correspondence observes: [parameters; size; codomain parameters; codomain-of-codomain parameters] *)
Definition sph_model (is_lm : bool) (a : nat) (b : option nat) : option (list nat) :=
  if is_lm then
    match lm_make a b with
    | None => None
    | Some s =>
        match lm_codomain s with
        | None => None
        | Some g =>
            match gl_codomain g with
            | None => None
            | Some s2 => Some [fst s; snd s; lm_size (fst s) (snd s); fst g; snd g; gl_size g; fst s2; snd s2]
            end
        end
    end
  else
    match gl_make a b with
    | None => None
    | Some g =>
        match gl_codomain g with
        | None => None
        | Some s =>
            match lm_codomain s with
            | None => None
            | Some g2 => Some [fst g; snd g; gl_size g; fst s; snd s; lm_size (fst s) (snd s); fst g2; snd g2]
            end
        end
    end.
