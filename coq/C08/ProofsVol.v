(* C08 -- RGSpace distances and volumes over the rationals (Qc, Leibniz equality). *)
From Coq Require Import List Arith Bool Lia ZArith QArith Qcanon Field.
Import ListNotations.
Require Import NV.C08.Model.
Open Scope nat_scope.

Lemma qn_nonzero n : 1 <= n -> qn n <> 0%Qc.
Proof.
  intros H E. unfold qn in E. change 0%Qc with (Q2Qc 0) in E. apply Q2Qc_eq_iff in E.
  unfold Qeq in E. simpl in E. lia.
Qed.

Lemma qn_mul a b : qn (a * b) = (qn a * qn b)%Qc.
Proof.
  unfold qn, Qcmult. apply Q2Qc_eq_iff. cbn [this Q2Qc]. rewrite !Qred_correct.
  rewrite Nat2Z.inj_mul, inject_Z_mult. reflexivity.
Qed.

Lemma qn_1 : qn 1 = 1%Qc.
Proof. apply Qc_is_canon. reflexivity. Qed.

Definition rg_ok (s : rgspace) : Prop :=
  length (rg_rdist s) = length (rg_shape s) /\
  Forall (fun n => 1 <= n) (rg_shape s) /\ Forall (fun r => r <> 0%Qc) (rg_rdist s).

Lemma codomain_involutive s : rg_codomain (rg_codomain s) = s.
Proof. destruct s as [sh rd h]. unfold rg_codomain. simpl. rewrite negb_involutive. reflexivity. Qed.

Lemma codomain_ok s : rg_ok s -> rg_ok (rg_codomain s).
Proof. destruct s; unfold rg_ok; simpl; tauto. Qed.

Lemma map2_length {A B C} (f : A -> B -> C) a : forall b, length b = length a -> length (map2 f a b) = length a.
Proof. induction a; intros [|y b] H; simpl in *; try lia. rewrite IHa by lia. reflexivity. Qed.

Lemma distances_length s : rg_ok s -> length (rg_distances s) = length (rg_shape s).
Proof.
  intros (L & _ & _). unfold rg_distances, rg_hdist. destruct (rg_harm s); [|exact L].
  apply map2_length. exact L.
Qed.

(* n_i * r_i * h_i = 1 for the two distance tables of a grid *)
Lemma ndd_tables sh : forall rd i,
  length rd = length sh -> Forall (fun n => 1 <= n) sh -> Forall (fun r => r <> 0%Qc) rd ->
  i < length sh ->
  (qn (nth i sh 0%nat) * nth i rd 0%Qc * nth i (map2 (fun n r => (1 / (qn n * r))%Qc) sh rd) 0%Qc = 1)%Qc.
Proof.
  induction sh as [|n sh IH]; intros [|r rd] i L Hn Hr Hi; simpl in *; try lia.
  inversion Hn; subst. inversion Hr; subst.
  destruct i.
  - pose proof (qn_nonzero n ltac:(assumption)). field. split; assumption.
  - apply IH; try assumption; lia.
Qed.

Lemma rg_ndd s i : rg_ok s -> i < length (rg_shape s) ->
  (qn (nth i (rg_shape s) 0%nat) * nth i (rg_distances s) 0%Qc * nth i (rg_distances (rg_codomain s)) 0%Qc = 1)%Qc.
Proof.
  intros (L & Hn & Hr) Hi. pose proof (ndd_tables (rg_shape s) (rg_rdist s) i L Hn Hr Hi) as E.
  unfold rg_distances, rg_codomain, rg_hdist. simpl. destruct (rg_harm s); simpl; (etransitivity; [|exact E]); ring.
Qed.

Lemma prod_tables sh : forall rd,
  length rd = length sh -> Forall (fun n => 1 <= n) sh -> Forall (fun r => r <> 0%Qc) rd ->
  (qn (nprod sh) * qprod rd * qprod (map2 (fun n r => (1 / (qn n * r))%Qc) sh rd) = 1)%Qc.
Proof.
  induction sh as [|n sh IH]; intros [|r rd] L Hn Hr; simpl in *; try lia.
  - rewrite qn_1. ring.
  - inversion Hn; subst. inversion Hr; subst.
    specialize (IH rd ltac:(lia) ltac:(assumption) ltac:(assumption)).
    rewrite qn_mul. pose proof (qn_nonzero n ltac:(assumption)).
    transitivity ((qn (nprod sh) * qprod rd * qprod (map2 (fun n r => (1 / (qn n * r))%Qc) sh rd)) * 1)%Qc;
      [|rewrite IH; ring].
    field. split; assumption.
Qed.

Lemma rg_volume_product s : rg_ok s ->
  (qn (rg_size s) * rg_dvol s * rg_dvol (rg_codomain s) = 1)%Qc.
Proof.
  intros (L & Hn & Hr). pose proof (prod_tables (rg_shape s) (rg_rdist s) L Hn Hr) as E.
  unfold rg_size, rg_dvol, rg_distances, rg_codomain, rg_hdist. simpl. destruct (rg_harm s); simpl; (etransitivity; [|exact E]); ring.
Qed.

Lemma extents_prod sh : forall ds, length ds = length sh ->
  qprod (map2 (fun n d => (qn n * d)%Qc) sh ds) = (qn (nprod sh) * qprod ds)%Qc.
Proof.
  induction sh as [|n sh IH]; intros [|d ds] L; simpl in *; try lia.
  - rewrite qn_1. ring.
  - rewrite IH by lia. rewrite qn_mul. ring.
Qed.

Lemma rg_total_is_extents s : rg_ok s -> rg_total_volume s = qprod (rg_extents s).
Proof.
  intros H. unfold rg_total_volume, rg_extents, rg_dvol, rg_size.
  rewrite extents_prod by (apply distances_length; exact H). reflexivity.
Qed.

(* the constructor returns the distances it was given, for both kinds of grid *)
Lemma make_tables sh : forall ds,
  length ds = length sh -> Forall (fun n => 1 <= n) sh -> Forall (fun r => r <> 0%Qc) ds ->
  map2 (fun n r => (1 / (qn n * r))%Qc) sh (map2 (fun n d => (1 / (qn n * d))%Qc) sh ds) = ds.
Proof.
  induction sh as [|n sh IH]; intros [|d ds] L Hn Hd; simpl in *; try lia; [reflexivity|].
  inversion Hn; subst. inversion Hd; subst. rewrite IH by (try assumption; lia).
  f_equal. pose proof (qn_nonzero n ltac:(assumption)). field. repeat split; try assumption. discriminate.
Qed.

Lemma rg_make_distances sh ds h :
  length ds = length sh -> Forall (fun n => 1 <= n) sh -> Forall (fun r => r <> 0%Qc) ds ->
  rg_distances (rg_make sh (Some ds) h) = ds.
Proof.
  intros L Hn Hd. unfold rg_make, rg_distances, rg_hdist. destruct h; simpl; [|reflexivity].
  apply make_tables; assumption.
Qed.

Lemma make_ok_tables sh : forall ds,
  length ds = length sh -> Forall (fun n => 1 <= n) sh -> Forall (fun r => r <> 0%Qc) ds ->
  length (map2 (fun n d => (1 / (qn n * d))%Qc) sh ds) = length sh /\
  Forall (fun r => r <> 0%Qc) (map2 (fun n d => (1 / (qn n * d))%Qc) sh ds).
Proof.
  induction sh as [|n sh IH]; intros [|d ds] L Hn Hd; simpl in *; try lia; [split; [reflexivity|constructor]|].
  inversion Hn; subst. inversion Hd; subst.
  destruct (IH ds ltac:(lia) ltac:(assumption) ltac:(assumption)) as [IL IF].
  split; [lia|]. constructor; [|exact IF].
  pose proof (qn_nonzero n ltac:(assumption)) as Hq. intros E.
  assert (Hone : ((qn n * d) * (1 / (qn n * d)) = 1)%Qc) by (field; split; assumption).
  rewrite E in Hone. assert (Z : 0%Qc = 1%Qc) by (rewrite <- Hone; ring). discriminate Z.
Qed.

Lemma rg_make_ok sh ds h :
  length ds = length sh -> Forall (fun n => 1 <= n) sh -> Forall (fun r => r <> 0%Qc) ds ->
  rg_ok (rg_make sh (Some ds) h).
Proof.
  intros L Hn Hd. unfold rg_ok, rg_make. destruct h; simpl.
  - destruct (make_ok_tables sh ds L Hn Hd). tauto.
  - tauto.
Qed.

(* default distances: 1/n in position space, hence 1 in harmonic space *)
Lemma default_tables sh : Forall (fun n => 1 <= n) sh ->
  map2 (fun n r => (1 / (qn n * r))%Qc) sh (map (fun n => (1 / qn n)%Qc) sh) = repeat 1%Qc (length sh).
Proof.
  induction 1 as [|n sh Hn _ IH]; simpl; [reflexivity|]. rewrite IH. f_equal.
  pose proof (qn_nonzero n Hn). field. repeat split; try assumption. discriminate.
Qed.

Lemma rg_make_default sh h : Forall (fun n => 1 <= n) sh ->
  rg_distances (rg_make sh None h) = if h then repeat 1%Qc (length sh) else map (fun n => (1 / qn n)%Qc) sh.
Proof.
  intros Hn. unfold rg_make, rg_distances, rg_hdist. destruct h; simpl; [|reflexivity].
  apply default_tables. exact Hn.
Qed.

Lemma hp_total_4pi pi nside : 1 <= nside -> hp_total pi nside = (qn 4 * pi)%Qc.
Proof.
  intros H. unfold hp_total, hp_dvol, hp_size. rewrite !qn_mul.
  pose proof (qn_nonzero nside H). pose proof (qn_nonzero 3 ltac:(lia)).
  replace (qn 12) with (qn 4 * qn 3)%Qc by (rewrite <- qn_mul; reflexivity).
  field. split; assumption.
Qed.
