(* C08 -- comparison functions used by the correspondence check (no proofs). *)
From Coq Require Import List Arith Bool ZArith QArith Qabs Qcanon.
Import ListNotations.
Require Import NV.C08.Model.
Open Scope nat_scope.

Fixpoint nat_list_eqb (a b : list nat) : bool :=
  match a, b with
  | [], [] => true
  | x :: a', y :: b' => (x =? y) && nat_list_eqb a' b'
  | _, _ => false
  end.

(* |x - y| <= 2^-40 * max(1, |y|)   (x: float64 value of the implementation, y: exact model value) *)
Definition qclose (x y : Q) : bool :=
  let d := Qabs (x - y) in
  let s := Qabs y in
  Qle_bool (d * (1099511627776 # 1)) (if Qle_bool 1 s then s else 1).

Fixpoint qclose_list (a b : list Q) : bool :=
  match a, b with
  | [], [] => true
  | x :: a', y :: b' => qclose x y && qclose_list a' b'
  | _, _ => false
  end.

Definition qcs (l : list Q) : list Qc := map Q2Qc l.
Definition qs (l : list Qc) : list Q := map this l.

(* ---- LMSpace ---- *)
Definition lm_ok (lmax mmax size : nat) (ks uniq : list nat) : bool :=
  (lm_size lmax mmax =? size) && nat_list_eqb (lm_klengths lmax mmax) ks && nat_list_eqb (lm_unique lmax) uniq.

(* ---- RGSpace tables, equal distances d: k = sqrt(table)*d (>= 2 axes) or table*d (1 axis) ---- *)
Definition sqq (x : Q) : Q := (x * x)%Q.
Definition ksq_ok (d : Q) (tab : list nat) (ks : list Q) : bool :=
  qclose_list (map sqq ks) (map (fun v => (qofn v * sqq d)%Q) tab).
Definition k1_ok (d : Q) (tab : list nat) (ks : list Q) : bool :=
  qclose_list ks (map (fun v => (qofn v * d)%Q) tab).

Definition rg_tables_ok (shape : list nat) (d : Q) (ks uniq : list Q) (pindex : list nat) : bool :=
  match shape with
  | [n] => k1_ok d (rg_k1 n) ks && k1_ok d (rg_unique1 n) uniq
           && nat_list_eqb (map (fun v => rank_of v (rg_unique1 n)) (rg_k1 n)) pindex
  | _ => ksq_ok d (rg_ksq shape) ks && ksq_ok d (rg_unique_sq shape) uniq
         && nat_list_eqb (rg_natural_pindex shape) pindex
  end.

(* ---- RGSpace tables, arbitrary distances: squared lengths as exact rationals ---- *)
Definition outer_add_q (a b : list Q) : list Q := flat_map (fun x => map (fun y => (x + y)%Q) b) a.
Definition axis_sq_q (n : nat) (d : Q) : list Q := map (fun v => sqq (qofn v * d)) (axis_tab n).
Fixpoint rg_ksq_q (shape : list nat) (ds : list Q) : list Q :=
  match shape, ds with
  | n :: shape', d :: ds' =>
      match shape' with
      | [] => axis_sq_q n d
      | _ => outer_add_q (axis_sq_q n d) (rg_ksq_q shape' ds')
      end
  | _, _ => []
  end.
Fixpoint ins_uq (x : Q) (l : list Q) : list Q :=
  match l with
  | [] => [x]
  | y :: r => if qclose x y then l else if Qle_bool x y then x :: l else y :: ins_uq x r
  end.
(* values within 2^-40 relative are ONE length: a scalar harmonic distance d gives per-axis distances
   1/(n_i*(1/(n_i*d))) that may differ in the last bit, and the code merges lengths closer than
   1e-12*kmax; genuinely different lengths of the generated grids differ by far more *)
Definition usort_q (l : list Q) : list Q := fold_right ins_uq [] l.
Fixpoint rank_q (v : Q) (u : list Q) : nat :=
  match u with
  | [] => 0
  | x :: r => if Qle_bool v x || qclose v x then 0 else S (rank_q v r)
  end.
Definition rg_tables_q_ok (shape : list nat) (ds : list Q) (ks uniq : list Q) (pindex : list nat) : bool :=
  let tab := rg_ksq_q shape ds in
  let u := usort_q tab in
  qclose_list (map sqq ks) tab && qclose_list (map sqq uniq) u
  && nat_list_eqb (map (fun v => rank_q v u) tab) pindex.

(* ---- RGSpace distances / volumes ---- *)
Definition rg_geom_ok (shape : list nat) (dist : option (list Q)) (harm : bool)
           (distances : list Q) (dvol : Q) (size : nat) (total : Q) (extents : list Q) (codist : list Q) (codvol : Q) : bool :=
  let s := rg_make shape (match dist with None => None | Some l => Some (qcs l) end) harm in
  qclose_list distances (qs (rg_distances s)) && qclose dvol (this (rg_dvol s)) && (rg_size s =? size)
  && qclose total (this (rg_total_volume s)) && qclose_list extents (qs (rg_extents s))
  && qclose_list codist (qs (rg_distances (rg_codomain s))) && qclose codvol (this (rg_dvol (rg_codomain s))).

(* ---- PowerSpace on given k-lengths and bounds ---- *)
Definition ps_ok (bounds ks : list Q) (pdvol : Q) (obs : option (list nat * (list Q * list Q))) : bool :=
  match obs with
  | None => negb (ps_valid bounds ks)
  | Some (pindex, (klen, dvol)) =>
      ps_valid bounds ks && nat_list_eqb (pindex_of bounds ks) pindex
      && qclose_list klen (ps_klengths bounds ks) && qclose_list dvol (ps_dvol bounds ks pdvol)
  end.
Definition ps_natural_ok (uniq ks : list Q) (pdvol : Q) (obs : option (list nat * (list Q * list Q))) : bool :=
  ps_ok (mids uniq) ks pdvol obs.

(* ---- identity histories ---- *)
Definition dt_classes (ops : list (hop (list nat))) : list nat :=
  id_classes (map fst (run (list nat) (list nat) (fun d => d) nat_list_eqb ops (hinit (list nat)) [])).

Fixpoint items_eqb (a b : list (nat * nat)) : bool :=
  match a, b with
  | [], [] => true
  | (x1, x2) :: a', (y1, y2) :: b' => (x1 =? y1) && (x2 =? y2) && items_eqb a' b'
  | _, _ => false
  end.
Definition md_classes (ops : list (hop (list (nat * nat)))) : list nat :=
  id_classes (map fst (run (list (nat * nat)) (list (nat * nat)) sort_items items_eqb ops (hinit (list (nat * nat))) [])).

(* ---- repeated queries on ONE domain object (round 2): every answer of get_unique_k_lengths must
        be the (pure) table's value set, whatever was called in between ---- *)
Definition uniq_q_ok (shape : list nat) (ds : list Q) (uniq : list Q) : bool :=
  qclose_list (map sqq uniq) (usort_q (rg_ksq_q shape ds)).
Definition uniq_lm_ok (lmax : nat) (uniq : list nat) : bool := nat_list_eqb (lm_unique lmax) uniq.

(* ---- DOFSpace(dof_weights): dvol = weights, size = len(weights), total_volume = sum(dvol) ---- *)
Fixpoint q_list_eqb (a b : list Q) : bool :=
  match a, b with
  | [], [] => true
  | x :: a', y :: b' => Qeq_bool x y && q_list_eqb a' b'
  | _, _ => false
  end.
Definition dof_ok (weights : list Q) (size : nat) (dvol : list Q) (total : Q) : bool :=
  (length weights =? size) && q_list_eqb dvol weights && qclose total (qsum weights).

(* ---- PowerSpace._powerIndexCache: the cached index arrays are canonical objects keyed by
        (partner description, binbounds): identity classes follow the hash-consing model ---- *)
Definition pc_classes (keys : list nat) : list nat :=
  dt_classes (map (fun k => Make (list nat) [k]) keys).

(* ---- sphere pair: constructor options and default codomains (None = ValueError) ---- *)
Definition sph_ok (is_lm : bool) (a : nat) (b : option nat) (obs : option (list nat)) : bool :=
  match sph_model is_lm a b, obs with
  | None, None => true
  | Some m, Some o => nat_list_eqb m o
  | _, _ => false
  end.
