(* C08 -- LMSpace layout lemmas (natural numbers). *)
From Coq Require Import List Arith Bool Lia.
Import ListNotations.
Require Import NV.C08.Model.

Definition dup (l : nat) : list nat := [l; l].

Lemma flat_dup_length l0 : length (flat_map dup l0) = 2 * length l0.
Proof. induction l0; simpl; lia. Qed.

Lemma skipn_flat_dup m : forall a n, m <= n ->
  skipn (2 * m) (flat_map dup (seq a n)) = flat_map dup (seq (a + m) (n - m)).
Proof.
  induction m; intros a n H.
  - simpl. rewrite Nat.add_0_r, Nat.sub_0_r. reflexivity.
  - destruct n as [|n]; [lia|].
    replace (2 * S m) with (S (S (2 * m))) by lia. simpl seq. simpl flat_map. simpl skipn.
    rewrite IHm by lia. replace (S a + m) with (a + S m) by lia. reflexivity.
Qed.

Lemma lm_block lmax m : m <= S lmax ->
  skipn (2 * m) (lm_tmp lmax) = flat_map dup (seq m (S lmax - m)).
Proof. intros H. unfold lm_tmp. change (fun l => [l; l]) with dup. rewrite skipn_flat_dup by exact H. reflexivity. Qed.

Lemma lm_klengths_succ lmax m :
  lm_klengths lmax (S m) = lm_klengths lmax m ++ skipn (2 * S m) (lm_tmp lmax).
Proof.
  unfold lm_klengths. rewrite (seq_S m 1). rewrite flat_map_app. cbn [flat_map].
  rewrite app_nil_r. rewrite app_assoc. reflexivity.
Qed.

Lemma lm_length lmax mmax : mmax <= lmax ->
  length (lm_klengths lmax mmax) = lm_size lmax mmax.
Proof.
  induction mmax; intros H.
  - unfold lm_klengths, lm_size. simpl flat_map. rewrite app_nil_r, seq_length.
    rewrite Nat.sub_0_r. nia.
  - rewrite lm_klengths_succ, app_length, IHmmax by lia.
    rewrite lm_block by lia. rewrite flat_dup_length, seq_length.
    unfold lm_size.
    remember (lmax - S mmax) as a. assert (lmax - mmax = S a) by lia. assert (lmax = a + S mmax) by lia.
    rewrite H0. subst lmax. replace (S (a + S mmax) - S mmax) with (S a) by lia. nia.
Qed.

Lemma count_flat_dup k : forall n a,
  count_occ Nat.eq_dec (flat_map dup (seq a n)) k = if (a <=? k) && (k <? a + n) then 2 else 0.
Proof.
  induction n; intros a.
  - simpl. destruct (a <=? k) eqn:E1; simpl; [|reflexivity].
    destruct (k <? a + 0) eqn:E2; [|reflexivity]. apply Nat.leb_le in E1. apply Nat.ltb_lt in E2. lia.
  - cbn [seq flat_map]. unfold dup at 1. cbn [app].
    destruct (Nat.eq_dec a k) as [->|Hne].
    + rewrite !count_occ_cons_eq by reflexivity. rewrite IHn.
      replace (S k <=? k) with false by (symmetry; apply Nat.leb_gt; lia). simpl.
      rewrite Nat.leb_refl. replace (k <? k + S n) with true by (symmetry; apply Nat.ltb_lt; lia). reflexivity.
    + rewrite !count_occ_cons_neq by exact Hne. rewrite IHn.
      destruct (a <=? k) eqn:E1, (S a <=? k) eqn:E2, (k <? a + S n) eqn:E3, (k <? S a + n) eqn:E4; simpl; try reflexivity;
        repeat match goal with
               | H : (_ <=? _) = true |- _ => apply Nat.leb_le in H
               | H : (_ <=? _) = false |- _ => apply Nat.leb_gt in H
               | H : (_ <? _) = true |- _ => apply Nat.ltb_lt in H
               | H : (_ <? _) = false |- _ => apply Nat.ltb_ge in H
               end; lia.
Qed.

Lemma count_seq k : forall n a,
  count_occ Nat.eq_dec (seq a n) k = if (a <=? k) && (k <? a + n) then 1 else 0.
Proof.
  induction n; intros a.
  - simpl. destruct (a <=? k) eqn:E1; simpl; [|reflexivity].
    destruct (k <? a + 0) eqn:E2; [|reflexivity]. apply Nat.leb_le in E1. apply Nat.ltb_lt in E2. lia.
  - simpl seq. destruct (Nat.eq_dec a k) as [->|Hne].
    + rewrite count_occ_cons_eq by reflexivity. rewrite IHn.
      replace (S k <=? k) with false by (symmetry; apply Nat.leb_gt; lia). simpl.
      rewrite Nat.leb_refl. replace (k <? k + S n) with true by (symmetry; apply Nat.ltb_lt; lia). reflexivity.
    + rewrite count_occ_cons_neq by exact Hne. rewrite IHn.
      destruct (a <=? k) eqn:E1, (S a <=? k) eqn:E2, (k <? a + S n) eqn:E3, (k <? S a + n) eqn:E4; simpl; try reflexivity;
        repeat match goal with
               | H : (_ <=? _) = true |- _ => apply Nat.leb_le in H
               | H : (_ <=? _) = false |- _ => apply Nat.leb_gt in H
               | H : (_ <? _) = true |- _ => apply Nat.ltb_lt in H
               | H : (_ <? _) = false |- _ => apply Nat.ltb_ge in H
               end; lia.
Qed.

(* l appears 1 + 2*min(l, mmax) times: once for m = 0 and twice (+m and -m) for every 1 <= m <= min(l, mmax) *)
Lemma lm_count lmax mmax k : mmax <= lmax ->
  count_occ Nat.eq_dec (lm_klengths lmax mmax) k = if k <=? lmax then 1 + 2 * Nat.min k mmax else 0.
Proof.
  induction mmax; intros H.
  - unfold lm_klengths. simpl flat_map. rewrite app_nil_r, count_seq. simpl.
    replace (k <? S lmax) with (k <=? lmax).
    2:{ destruct (k <=? lmax) eqn:E; symmetry; [apply Nat.ltb_lt; apply Nat.leb_le in E|apply Nat.ltb_ge; apply Nat.leb_gt in E]; lia. }
    destruct (k <=? lmax); [rewrite Nat.min_0_r; reflexivity|reflexivity].
  - rewrite lm_klengths_succ, count_occ_app, IHmmax by lia.
    rewrite lm_block by lia. rewrite count_flat_dup.
    destruct (k <=? lmax) eqn:E1, (S mmax <=? k) eqn:E2, (k <? S mmax + (S lmax - S mmax)) eqn:E3; simpl;
      repeat match goal with
             | H : (_ <=? _) = true |- _ => apply Nat.leb_le in H
             | H : (_ <=? _) = false |- _ => apply Nat.leb_gt in H
             | H : (_ <? _) = true |- _ => apply Nat.ltb_lt in H
             | H : (_ <? _) = false |- _ => apply Nat.ltb_ge in H
             end; lia.
Qed.

Lemma lm_values lmax mmax k : mmax <= lmax ->
  (In k (lm_klengths lmax mmax) <-> In k (lm_unique lmax)).
Proof.
  intros H. rewrite (count_occ_In Nat.eq_dec), lm_count by exact H.
  unfold lm_unique. rewrite in_seq.
  destruct (k <=? lmax) eqn:E; [apply Nat.leb_le in E|apply Nat.leb_gt in E]; lia.
Qed.
