(* C08 -- LMSpace / GLSpace constructors and default codomains *)
From Coq Require Import List Arith Bool Lia.
Import ListNotations.
Require Import NV.C08.Model.
Open Scope nat_scope.

Lemma half_odd : forall m, (m * 2 + 1) / 2 = m.
Proof. intros m. symmetry. apply (Nat.div_unique _ 2 m 1); lia. Qed.

Lemma half_default : forall n, 1 <= n -> (2 * n - 1) / 2 = n - 1.
Proof. intros n H. symmetry. apply (Nat.div_unique _ 2 (n - 1) 1); lia. Qed.

Lemma lm_make_some : forall l m, m <= l -> lm_make l (Some m) = Some (l, m).
Proof. intros l m H. unfold lm_make. destruct (l <? m) eqn:E; [apply Nat.ltb_lt in E; lia|reflexivity]. Qed.

Lemma gl_make_some : forall a b, 1 <= a -> 1 <= b -> gl_make a (Some b) = Some (a, b).
Proof.
  intros a b Ha Hb. unfold gl_make.
  destruct (a <? 1) eqn:E; [apply Nat.ltb_lt in E; lia|].
  destruct (b <? 1) eqn:F; [apply Nat.ltb_lt in F; lia|reflexivity].
Qed.

Lemma sph_lm_roundtrip : forall lmax mmax, mmax <= lmax ->
  lm_make lmax (Some mmax) = Some (lmax, mmax) /\
  lm_codomain (lmax, mmax) = Some (lmax + 1, mmax * 2 + 1) /\
  gl_codomain (lmax + 1, mmax * 2 + 1) = Some (lmax, mmax).
Proof.
  intros l m H. split; [exact (lm_make_some l m H)|]. split.
  - unfold lm_codomain. cbn [fst snd]. apply gl_make_some; lia.
  - unfold gl_codomain. cbn [fst snd]. rewrite half_odd.
    replace (Nat.max m (l + 1 - 1)) with l by lia. exact (lm_make_some l m H).
Qed.

Lemma sph_gl_codomain_valid : forall nlat nlon, 1 <= nlat -> 1 <= nlon ->
  gl_make nlat (Some nlon) = Some (nlat, nlon) /\
  exists l m, gl_codomain (nlat, nlon) = Some (l, m) /\ m <= l /\ m = nlon / 2 /\ nlat - 1 <= l /\
    lm_codomain (l, m) = Some (l + 1, m * 2 + 1) /\ nlat <= l + 1.
Proof.
  intros a b Ha Hb. split; [exact (gl_make_some a b Ha Hb)|].
  exists (Nat.max (b / 2) (a - 1)), (b / 2).
  split; [unfold gl_codomain; cbn [fst snd]; apply lm_make_some; lia|].
  split; [lia|]. split; [reflexivity|]. split; [lia|].
  split; [unfold lm_codomain; cbn [fst snd]; apply gl_make_some; lia|lia].
Qed.

Lemma sph_lm_default : forall lmax,
  lm_make lmax None = Some (lmax, lmax) /\ lm_size lmax lmax = (lmax + 1) * (lmax + 1).
Proof.
  intros l. split.
  - unfold lm_make. rewrite Nat.ltb_irrefl. reflexivity.
  - unfold lm_size. rewrite Nat.sub_diag. lia.
Qed.

Lemma sph_gl_default : forall nlat, 1 <= nlat ->
  gl_make nlat None = Some (nlat, 2 * nlat - 1) /\
  gl_codomain (nlat, 2 * nlat - 1) = Some (nlat - 1, nlat - 1) /\
  lm_codomain (nlat - 1, nlat - 1) = Some (nlat, 2 * nlat - 1).
Proof.
  intros n H. split.
  - unfold gl_make. destruct (n <? 1) eqn:E; [apply Nat.ltb_lt in E; lia|reflexivity].
  - split.
    + unfold gl_codomain. cbn [fst snd]. rewrite (half_default n H).
      rewrite Nat.max_id. apply lm_make_some. lia.
    + unfold lm_codomain. cbn [fst snd].
      replace (n - 1 + 1) with n by lia. replace ((n - 1) * 2 + 1) with (2 * n - 1) by lia.
      apply gl_make_some; lia.
Qed.

Lemma sph_rejects : forall lmax mmax nlon, lmax < mmax ->
  lm_make lmax (Some mmax) = None /\ gl_make 0 nlon = None /\ gl_make (S lmax) (Some 0) = None.
Proof.
  intros l m n H. split; [|split; reflexivity].
  unfold lm_make. destruct (l <? m) eqn:E; [reflexivity|apply Nat.ltb_ge in E; lia].
Qed.

(* the Gauss-Legendre partner has at least as many pixels as the LMSpace has coefficients *)
Lemma sph_gl_enough : forall lmax mmax, mmax <= lmax ->
  lm_size lmax mmax <= gl_size (lmax + 1, mmax * 2 + 1).
Proof.
  intros l m H. unfold lm_size, gl_size. cbn [fst snd].
  assert (E : l = m + (l - m)) by lia. remember (l - m) as d. subst l.
  replace (m + d - m) with d by lia. nia.
Qed.
