(* C08 -- PowerSpace binning: searchsorted partition, bin sizes, volumes, natural bounds. *)
From Coq Require Import List Arith Bool Lia ZArith QArith Lqa Sorting.Sorted.
Import ListNotations.
Require Import NV.C08.Model.
Open Scope nat_scope.

(* ---- searchsorted ---- *)
Lemma searchsorted_le bounds k : searchsorted bounds k <= length bounds.
Proof. induction bounds as [|b r IH]; simpl; [lia|]. destruct (Qle_bool k b); lia. Qed.

Lemma searchsorted_compat bounds k k' : (k == k')%Q -> searchsorted bounds k = searchsorted bounds k'.
Proof.
  intros E. induction bounds as [|b r IH]; simpl; [reflexivity|].
  assert (Qle_bool k b = Qle_bool k' b).
  { destruct (Qle_bool k b) eqn:A, (Qle_bool k' b) eqn:B; try reflexivity.
    - apply Qle_bool_iff in A. rewrite E in A. apply Qle_bool_iff in A. congruence.
    - apply Qle_bool_iff in B. rewrite <- E in B. apply Qle_bool_iff in B. congruence. }
  rewrite H, IH. reflexivity.
Qed.

(* numpy's contract for side='left' on ascending bounds: bounds[i-1] < k <= bounds[i] *)
Lemma searchsorted_spec bounds k :
  (forall j, j < searchsorted bounds k -> (nth j bounds 0 < k)%Q) /\
  (searchsorted bounds k < length bounds -> (k <= nth (searchsorted bounds k) bounds 0)%Q).
Proof.
  induction bounds as [|b r [IH1 IH2]]; simpl.
  - split; intros; lia.
  - destruct (Qle_bool k b) eqn:E.
    + split; [intros; lia|]. intros _. apply Qle_bool_iff. exact E.
    + assert (b < k)%Q. { apply Qnot_le_lt. intros H. apply Qle_bool_iff in H. congruence. }
      split.
      * intros [|j] Hj; [assumption|]. apply IH1. lia.
      * intros Hl. apply IH2. lia.
Qed.

Lemma pindex_in_range bounds ks : Forall (fun i => i < ps_nbin bounds) (pindex_of bounds ks).
Proof.
  unfold pindex_of, ps_nbin. apply Forall_forall. intros i Hi. apply in_map_iff in Hi.
  destruct Hi as (k & <- & _). pose proof (searchsorted_le bounds k). lia.
Qed.

(* ---- natural bounds: midpoints of a strictly increasing list ---- *)
Lemma mids_length u : length (mids u) = length u - 1.
Proof.
  induction u as [|a [|b r] IH]; simpl in *; try reflexivity. rewrite IH. lia.
Qed.

Lemma natural_bin u : StronglySorted Qlt u -> forall b, b < length u ->
  searchsorted (mids u) (nth b u 0%Q) = b.
Proof.
  induction 1 as [|a u Hs IH Ha]; intros b Hb; [simpl in Hb; lia|].
  destruct u as [|c r].
  - simpl in *. destruct b; [reflexivity|lia].
  - rewrite Forall_forall in Ha.
    change (mids (a :: c :: r)) with (((a + c) * (1 # 2))%Q :: mids (c :: r)).
    destruct b as [|b].
    + simpl. assert (a < c)%Q by (apply Ha; left; reflexivity).
      replace (Qle_bool a ((a + c) * (1 # 2))) with true; [reflexivity|].
      symmetry. apply Qle_bool_iff. lra.
    + change (nth (S b) (a :: c :: r) 0%Q) with (nth b (c :: r) 0%Q). simpl in Hb.
      assert (Hin : In (nth b (c :: r) 0%Q) (c :: r)) by (apply nth_In; simpl; lia).
      assert (a < c)%Q by (apply Ha; left; reflexivity).
      assert (c <= nth b (c :: r) 0)%Q.
      { destruct b; [simpl; lra|]. inversion Hs as [|? ? Hs' Hc]; subst. rewrite Forall_forall in Hc.
        apply Qlt_le_weak. apply Hc. simpl. apply nth_In. simpl in Hb. lia. }
      pose proof (IH b ltac:(simpl; lia)) as IHb.
      set (kk := nth b (c :: r) 0%Q) in *.
      cbn [searchsorted].
      replace (Qle_bool kk ((a + c) * (1 # 2))) with false.
      * f_equal. exact IHb.
      * symmetry. destruct (Qle_bool kk ((a + c) * (1 # 2))) eqn:E; [|reflexivity].
        apply Qle_bool_iff in E. lra.
Qed.

(* a pixel whose length is (equal to) one of the unique lengths lands in that length's bin, and only there *)
Lemma natural_bin_iff u k b : StronglySorted Qlt u -> b < length u ->
  (exists b', b' < length u /\ (k == nth b' u 0)%Q) ->
  (searchsorted (mids u) k = b <-> (k == nth b u 0)%Q).
Proof.
  intros Hs Hb (b' & Hb' & E). rewrite (searchsorted_compat _ _ _ E), natural_bin by assumption.
  split.
  - intros ->. exact E.
  - intros E2. rewrite E in E2.
    (* strictly increasing => nth injective up to == *)
    assert (Inj : forall u, StronglySorted Qlt u -> forall p q, p < length u -> q < length u ->
                  (nth p u 0 == nth q u 0)%Q -> p = q).
    { clear. induction 1 as [|x u Hs IH Hx]; intros p q Hp Hq Epq; [simpl in Hp; lia|].
      rewrite Forall_forall in Hx.
      destruct p as [|p], q as [|q]; simpl in Hp, Hq, Epq; try reflexivity.
      - assert (Hq' : q < length u) by lia. pose proof (Hx _ (nth_In u 0%Q Hq')). lra.
      - assert (Hp' : p < length u) by lia. pose proof (Hx _ (nth_In u 0%Q Hp')). lra.
      - f_equal. apply IH; lia || assumption. }
    apply (Inj u Hs); assumption.
Qed.

(* ---- bincount ---- *)
Lemma upd_length {A} (l : list A) i v : length (upd l i v) = length l.
Proof. revert i; induction l; intros [|i]; simpl; auto. Qed.

Lemma nth_upd {A} (l : list A) i v k d :
  nth k (upd l i v) d = if (i =? k) && (i <? length l) then v else nth k l d.
Proof.
  revert i k; induction l as [|x l IH]; intros [|i] [|k]; simpl; auto.
  - destruct (i =? k); reflexivity.
  - rewrite IH. reflexivity.
Qed.

Lemma bincount_acc_length {A} (z : A) add idx : forall w acc, length (bincount_acc z add idx w acc) = length acc.
Proof.
  induction idx as [|i idx IH]; intros [|v w] acc; simpl; auto. rewrite IH. apply upd_length.
Qed.

(* counts *)
Lemma list_sum_upd acc i v : i < length acc -> list_sum (upd acc i (nth i acc 0 + v)) = list_sum acc + v.
Proof.
  revert i; induction acc as [|x acc IH]; intros [|i] H; simpl in *; try lia.
  rewrite IH by lia. lia.
Qed.

Lemma bincount_nat_sum idx : forall w acc,
  Forall (fun i => i < length acc) idx -> length w = length idx ->
  list_sum (bincount_acc 0 Nat.add idx w acc) = list_sum acc + list_sum w.
Proof.
  induction idx as [|i idx IH]; intros [|v w] acc Hall HL; simpl in *; try lia.
  inversion Hall; subst. rewrite IH; [|rewrite upd_length; assumption|lia].
  rewrite list_sum_upd by assumption. lia.
Qed.

Lemma list_sum_repeat c n : list_sum (repeat c n) = n * c.
Proof. induction n; simpl; lia. Qed.

Lemma rho_total bounds ks : list_sum (ps_rho bounds ks) = length ks.
Proof.
  unfold ps_rho. rewrite bincount_nat_sum.
  - rewrite !list_sum_repeat. lia.
  - rewrite repeat_length. apply pindex_in_range.
  - unfold pindex_of. rewrite repeat_length, map_length. reflexivity.
Qed.

Lemma rho_length bounds ks : length (ps_rho bounds ks) = ps_nbin bounds.
Proof. unfold ps_rho. rewrite bincount_acc_length, repeat_length. reflexivity. Qed.

Fixpoint count_eq (b : nat) (idx : list nat) : nat :=
  match idx with [] => 0 | i :: r => (if i =? b then 1 else 0) + count_eq b r end.

Lemma bincount_nat_nth idx : forall acc b,
  Forall (fun i => i < length acc) idx ->
  nth b (bincount_acc 0 Nat.add idx (repeat 1 (length idx)) acc) 0 = nth b acc 0 + count_eq b idx.
Proof.
  induction idx as [|i idx IH]; intros acc b Hall; simpl; [lia|].
  inversion Hall; subst. rewrite IH by (rewrite upd_length; assumption).
  rewrite nth_upd. replace (i <? length acc) with true by (symmetry; apply Nat.ltb_lt; assumption).
  rewrite andb_true_r. destruct (i =? b) eqn:E; [apply Nat.eqb_eq in E; subst|]; lia.
Qed.

(* rho_b = number of pixels whose index is b *)
Lemma rho_counts bounds ks b :
  nth b (ps_rho bounds ks) 0 = count_eq b (pindex_of bounds ks).
Proof.
  unfold ps_rho. replace (length ks) with (length (pindex_of bounds ks)) by (unfold pindex_of; apply map_length).
  rewrite bincount_nat_nth by (rewrite repeat_length; apply pindex_in_range).
  rewrite nth_repeat. reflexivity.
Qed.

(* ---- volumes ---- *)
Lemma qofn_plus a b : (qofn (a + b) == qofn a + qofn b)%Q.
Proof. unfold qofn. rewrite Nat2Z.inj_add, inject_Z_plus. reflexivity. Qed.

Lemma dvol_total_gen rho pdvol :
  (qsum (map (fun r => qofn r * pdvol) rho) == qofn (list_sum rho) * pdvol)%Q.
Proof.
  induction rho as [|r rho IH]; simpl.
  - unfold qofn, inject_Z. simpl. ring.
  - rewrite IH, qofn_plus. ring.
Qed.

Lemma dvol_total bounds ks pdvol :
  (qsum (ps_dvol bounds ks pdvol) == qofn (length ks) * pdvol)%Q.
Proof. unfold ps_dvol. rewrite dvol_total_gen, rho_total. reflexivity. Qed.

Lemma dvol_nth bounds ks pdvol b : b < ps_nbin bounds ->
  nth b (ps_dvol bounds ks pdvol) 0%Q = (qofn (nth b (ps_rho bounds ks) 0%nat) * pdvol)%Q.
Proof.
  intros Hb. unfold ps_dvol.
  rewrite (nth_indep _ 0%Q ((fun r => (qofn r * pdvol)%Q) 0)) by (rewrite map_length, rho_length; exact Hb).
  rewrite (map_nth (fun r => (qofn r * pdvol)%Q)). reflexivity.
Qed.

(* ---- summed k-lengths per bin ---- *)
Fixpoint bsumQ (idx : list nat) (w : list Q) (b : nat) : Q :=
  match idx, w with
  | i :: idx', v :: w' => ((if i =? b then v else 0) + bsumQ idx' w' b)%Q
  | _, _ => 0%Q
  end.

Lemma bincount_Q_nth idx : forall w acc b,
  Forall (fun i => i < length acc) idx ->
  (nth b (bincount_acc 0%Q Qplus idx w acc) 0 == nth b acc 0 + bsumQ idx w b)%Q.
Proof.
  induction idx as [|i idx IH]; intros [|v w] acc b Hall; simpl; try lra.
  inversion Hall; subst. rewrite IH by (rewrite upd_length; assumption).
  rewrite nth_upd. replace (i <? length acc) with true by (symmetry; apply Nat.ltb_lt; assumption).
  rewrite andb_true_r. destruct (i =? b) eqn:E; [apply Nat.eqb_eq in E; subst|]; lra.
Qed.

Lemma ksum_nth bounds ks b :
  (nth b (ps_ksum bounds ks) 0 == bsumQ (pindex_of bounds ks) ks b)%Q.
Proof.
  unfold ps_ksum. rewrite bincount_Q_nth by (rewrite repeat_length; apply pindex_in_range).
  rewrite nth_repeat. lra.
Qed.

Lemma bsumQ_const bounds c b : forall ks,
  (forall k, In k ks -> searchsorted bounds k = b -> (k == c)%Q) ->
  (bsumQ (pindex_of bounds ks) ks b == qofn (count_eq b (pindex_of bounds ks)) * c)%Q.
Proof.
  induction ks as [|k ks IH]; intros H; simpl.
  - unfold qofn, inject_Z. simpl. ring.
  - rewrite IH by (intros; apply H; [right|]; assumption). rewrite qofn_plus.
    destruct (searchsorted bounds k =? b) eqn:E.
    + apply Nat.eqb_eq in E. rewrite (H k (or_introl eq_refl) E). unfold qofn, inject_Z. simpl. ring.
    + unfold qofn, inject_Z. simpl. ring.
Qed.

(* natural binning: the summed k-lengths of bin b are rho_b times the b-th unique length,
   i.e. the bin's k-length (sum / rho) is that unique length *)
Lemma natural_ksum u ks b : StronglySorted Qlt u -> b < length u ->
  (forall k, In k ks -> exists b', b' < length u /\ (k == nth b' u 0)%Q) ->
  (nth b (ps_ksum (mids u) ks) 0 == qofn (nth b (ps_rho (mids u) ks) 0%nat) * nth b u 0)%Q.
Proof.
  intros Hs Hb Hin. rewrite ksum_nth, rho_counts. apply bsumQ_const.
  intros k Hk E. apply (natural_bin_iff u k b Hs Hb (Hin k Hk)). exact E.
Qed.
