(* C08 -- RGSpace integer tables: the k-length table and the sieve of get_unique_k_lengths have the
   same set of values; the sieve output is strictly increasing; natural power indices. *)
From Coq Require Import List Arith Bool Lia Sorting.Sorted.
Import ListNotations.
Require Import NV.C08.Model.

Definition same_set (a b : list nat) : Prop := forall v, In v a <-> In v b.

Lemma in_outer_add v a b :
  In v (outer_add a b) <-> exists x y, In x a /\ In y b /\ v = x + y.
Proof.
  unfold outer_add. rewrite in_flat_map. split.
  - intros (x & Hx & Hv). apply in_map_iff in Hv. destruct Hv as (y & <- & Hy). eauto.
  - intros (x & y & Hx & Hy & ->). exists x. split; [exact Hx|]. apply in_map_iff. eauto.
Qed.

Lemma outer_add_same a a' b b' :
  same_set a a' -> same_set b b' -> same_set (outer_add a b) (outer_add a' b').
Proof.
  intros Ha Hb v. rewrite !in_outer_add. split; intros (x & y & Hx & Hy & E); exists x, y;
    (split; [apply Ha; exact Hx|split; [apply Hb; exact Hy|exact E]]).
Qed.

Lemma sqs_same a b : same_set a b -> same_set (sqs a) (sqs b).
Proof.
  intros H v. unfold sqs. rewrite !in_map_iff. split; intros (x & E & Hx); exists x; (split; [exact E|apply H; exact Hx]).
Qed.

(* {min(j, n-j) : j < n} = {0 .. n/2} *)
Lemma axis_vals n : 1 <= n -> same_set (axis_tab n) (seq 0 (S (n / 2))).
Proof.
  intros Hn v. unfold axis_tab. rewrite in_map_iff, in_seq. split.
  - intros (j & <- & Hj). apply in_seq in Hj. split; [lia|].
    assert (Nat.min j (n - j) <= n / 2); [|lia].
    apply Nat.div_le_lower_bound; lia.
  - intros [_ Hv]. assert (v <= n / 2) by lia.
    pose proof (Nat.mul_div_le n 2 ltac:(lia)). pose proof (Nat.div_lt n 2 ltac:(lia) ltac:(lia)).
    exists v. split; [lia|]. apply in_seq. lia.
Qed.

Definition step_k (res : list nat) (n : nat) := outer_add res (sqs (axis_tab n)).
Definition step_s (res : list nat) (n : nat) := outer_add res (sqs (seq 0 (S (n / 2)))).

Lemma fold_same rest : forall acc acc',
  Forall (fun n => 1 <= n) rest -> same_set acc acc' ->
  same_set (fold_left step_k rest acc) (fold_left step_s rest acc').
Proof.
  induction rest as [|n rest IH]; intros acc acc' Hall H; [exact H|].
  inversion Hall; subst. simpl. apply IH; [assumption|].
  apply outer_add_same; [exact H|]. apply sqs_same. apply axis_vals. assumption.
Qed.

Lemma ksq_sieve_same shape :
  Forall (fun n => 1 <= n) shape -> same_set (rg_ksq shape) (sieve_vals shape).
Proof.
  destruct shape as [|n0 rest]; intros H; [intros v; reflexivity|].
  inversion H; subst. unfold rg_ksq, sieve_vals.
  apply (fold_same rest); [assumption|]. apply sqs_same. apply axis_vals. assumption.
Qed.

(* every sieve value fits into the boolean array `tmp` *)
Lemma fold_bound rest : forall acc B,
  (forall v, In v acc -> v <= B) ->
  forall v, In v (fold_left step_s rest acc) -> v <= B + list_sum (map (fun n => (n / 2) * (n / 2)) rest).
Proof.
  induction rest as [|n rest IH]; intros acc B H v Hv; simpl in *; [specialize (H v Hv); lia|].
  specialize (IH (step_s acc n) (B + (n / 2) * (n / 2))).
  rewrite Nat.add_assoc. apply IH; [|exact Hv].
  intros w Hw. unfold step_s in Hw. apply in_outer_add in Hw. destruct Hw as (x & y & Hx & Hy & ->).
  specialize (H x Hx). unfold sqs in Hy. apply in_map_iff in Hy. destruct Hy as (z & <- & Hz).
  apply in_seq in Hz. assert (z <= n / 2) by lia. nia.
Qed.

Lemma sieve_in_range shape v : In v (sieve_vals shape) -> v < sieve_len shape.
Proof.
  destruct shape as [|n0 rest]; [intros []|]. unfold sieve_vals, sieve_len. intros Hv.
  pose proof (fold_bound rest (sqs (seq 0 (S (n0 / 2)))) ((n0 / 2) * (n0 / 2))) as F.
  simpl map. simpl list_sum. apply Nat.lt_succ_r. apply F; [|exact Hv].
  intros w Hw. unfold sqs in Hw. apply in_map_iff in Hw. destruct Hw as (z & <- & Hz).
  apply in_seq in Hz. assert (z <= n0 / 2) by lia. nia.
Qed.

Lemma unique_sq_in shape v : In v (rg_unique_sq shape) <-> In v (sieve_vals shape).
Proof.
  unfold rg_unique_sq. rewrite filter_In, in_seq, existsb_exists. split.
  - intros (_ & x & Hx & E). apply Nat.eqb_eq in E. subst. exact Hx.
  - intros H. split; [pose proof (sieve_in_range shape v H); lia|].
    exists v. split; [exact H|apply Nat.eqb_refl].
Qed.

Lemma seq_sorted n : forall a, StronglySorted lt (seq a n).
Proof.
  induction n; intros a; simpl; constructor; [apply IHn|].
  apply Forall_forall. intros x Hx. apply in_seq in Hx. lia.
Qed.

Lemma filter_sorted (f : nat -> bool) l : StronglySorted lt l -> StronglySorted lt (filter f l).
Proof.
  induction 1 as [|x l Hs IH Hx]; simpl; [constructor|].
  destruct (f x); [|exact IH]. constructor; [exact IH|].
  apply Forall_forall. intros y Hy. apply filter_In in Hy. rewrite Forall_forall in Hx. apply Hx. tauto.
Qed.

Lemma unique_sq_sorted shape : StronglySorted lt (rg_unique_sq shape).
Proof. apply filter_sorted. apply seq_sorted. Qed.

Lemma rg_tables_agree shape :
  Forall (fun n => 1 <= n) shape ->
  same_set (rg_ksq shape) (rg_unique_sq shape).
Proof.
  intros H v. rewrite unique_sq_in. apply ksq_sieve_same. exact H.
Qed.

(* rank in a strictly increasing list *)
Lemma rank_of_spec u : StronglySorted lt u -> forall v, In v u ->
  rank_of v u < length u /\ nth (rank_of v u) u 0 = v.
Proof.
  induction 1 as [|x u Hs IH Hx]; intros v Hv; [destruct Hv|].
  simpl. destruct Hv as [->|Hv].
  - rewrite Nat.leb_refl. split; [lia|reflexivity].
  - rewrite Forall_forall in Hx. specialize (Hx v Hv).
    replace (v <=? x) with false by (symmetry; apply Nat.leb_gt; lia).
    destruct (IH v Hv). split; [lia|assumption].
Qed.

Lemma natural_pindex_spec shape i :
  Forall (fun n => 1 <= n) shape -> i < length (rg_ksq shape) ->
  nth i (rg_natural_pindex shape) 0 < length (rg_unique_sq shape) /\
  nth (nth i (rg_natural_pindex shape) 0) (rg_unique_sq shape) 0 = nth i (rg_ksq shape) 0.
Proof.
  intros H Hi. unfold rg_natural_pindex.
  rewrite (nth_indep _ 0 (rank_of 0 (rg_unique_sq shape))) by (rewrite map_length; exact Hi).
  rewrite (map_nth (fun v => rank_of v (rg_unique_sq shape))).
  apply rank_of_spec; [apply unique_sq_sorted|].
  apply rg_tables_agree; [exact H|]. apply nth_In. exact Hi.
Qed.

(* every unique length is taken by some pixel: no natural bin is empty *)
Lemma natural_bins_nonempty shape b :
  Forall (fun n => 1 <= n) shape -> b < length (rg_unique_sq shape) ->
  exists i, i < length (rg_ksq shape) /\ nth i (rg_natural_pindex shape) 0 = b.
Proof.
  intros H Hb.
  assert (Hin : In (nth b (rg_unique_sq shape) 0) (rg_ksq shape)).
  { apply rg_tables_agree; [exact H|]. apply nth_In. exact Hb. }
  destruct (In_nth _ _ 0 Hin) as (i & Hi & Ei). exists i. split; [exact Hi|].
  destruct (natural_pindex_spec shape i H Hi) as [L E]. rewrite Ei in E.
  (* injectivity of nth on a strictly sorted list *)
  assert (Inj : forall u, StronglySorted lt u -> forall p q, p < length u -> q < length u -> nth p u 0 = nth q u 0 -> p = q).
  { induction 1 as [|x u Hs IH Hx]; intros p q Hp Hq Epq; [simpl in Hp; lia|].
    rewrite Forall_forall in Hx.
    destruct p as [|p], q as [|q]; simpl in Hp, Hq, Epq; try reflexivity.
    - assert (Hq' : q < length u) by lia. pose proof (Hx _ (nth_In u 0 Hq')). lia.
    - assert (Hp' : p < length u) by lia. pose proof (Hx _ (nth_In u 0 Hp')). lia.
    - f_equal. apply IH; lia. }
  apply (Inj _ (unique_sq_sorted shape)); assumption.
Qed.
