(* C16 -- executable model of NIFTy's classic line search and descent-minimiser loop.

   Mirrors  /repo/nifty/cl/minimization/line_search.py  (LineSearch.perform_line_search, _zoom)
   and      /repo/nifty/cl/minimization/descent_minimizers.py  (DescentMinimizer.__call__).

   NO proofs in this file.  The arithmetic is an abstract record [arith] WITHOUT laws: every theorem
   about the control flow therefore holds for IEEE doubles as well ([float_arith] below is the
   instance used by the bit-exact correspondence), and for exact rationals.

   phi / phi' are ORACLES (arbitrary functions of the step length), the trial points proposed by
   _cubicmin / _quadmin are an arbitrary ORACLE STREAM indexed by the zoom iteration (their
   arguments are not modelled: any value or None is allowed). *)
From Coq Require Import List Bool Arith PrimFloat.
Import ListNotations.

Set Implicit Arguments.

(* ---------------------------------------------------------------------------------------------- *)
(* Arithmetic without laws                                                                         *)
(* ---------------------------------------------------------------------------------------------- *)

Record arith (T : Type) : Type := {
  a_add : T -> T -> T;
  a_sub : T -> T -> T;
  a_mul : T -> T -> T;
  a_div : T -> T -> T;
  a_opp : T -> T;
  a_abs : T -> T;
  a_ltb : T -> T -> bool;      (* Python  x < y  *)
  a_leb : T -> T -> bool;      (* Python  x <= y *)
  a_eqb : T -> T -> bool;      (* Python  x == y *)
  a_isnan : T -> bool;         (* np.isnan *)
  a_zero : T;                  (* 0.   *)
  a_one : T;                   (* 1.0  *)
  a_two : T;                   (* 2    *)
  a_half : T;                  (* 0.5  *)
  a_1p01 : T;                  (* 1.01 *)
  a_0p99 : T;                  (* 0.99 *)
  a_0p2 : T;                   (* cubic_delta = 0.2 *)
  a_0p1 : T;                   (* quad_delta = 0.1 *)
  a_1e100 : T                  (* 1e100 *)
}.

(* What an energy evaluation at step length alpha can do:
   [le_0.at(alpha)] raises FloatingPointError / [.value] raises FloatingPointError / a value. *)
Inductive phires (T : Type) : Type :=
  | PhiVal (v : T)
  | PhiFpeAt
  | PhiFpeVal.
Arguments PhiFpeAt {T}.
Arguments PhiFpeVal {T}.

(* Observable evaluations, in program order (compared with the implementation's log). *)
Inductive ev (T : Type) : Type :=
  | EvVal (alpha : T)        (* .value accessed at step length alpha (even if it raised) *)
  | EvGrad (alpha : T)       (* .directional_derivative accessed at alpha *)
  | EvAtFail (alpha : T).    (* le_0.at(alpha) raised FloatingPointError *)

Inductive exc : Type :=
  | ExcValueError            (* raise ValueError("inconsistent data") *)
  | ExcFPE                   (* FloatingPointError escaping from _zoom (no try/except there) *)
  | ExcUnbound.              (* UnboundLocalError: le_alpha1 / le_alphaj never assigned *)

Inductive lsres (T : Type) : Type :=
  | Ret (alpha : T) (success : bool)   (* returns (energy at start + alpha*pk, success) *)
  | Raise (e : exc).
Arguments Raise {T}.

Record ls_params (T : Type) : Type := {
  p_pref : option T;         (* preferred_initial_step_size *)
  p_c1 : T;
  p_c2 : T;
  p_max_step : T;            (* max_step_size *)
  p_max_it : nat;            (* max_iterations *)
  p_max_zoom : nat           (* max_zoom_iterations *)
}.

Section LineSearch.
  Variable T : Type.
  Variable A : arith T.
  Variable P : ls_params T.
  Variable phi : T -> phires T.            (* value of the energy along the line *)
  Variable dphi : T -> T.                  (* directional derivative along the line *)
  Variable cub : nat -> option T.          (* result of _cubicmin in zoom iteration i *)
  Variable quad : nat -> option T.         (* result of _quadmin in zoom iteration i *)

  Notation "x + y" := (a_add A x y).
  Notation "x - y" := (a_sub A x y).
  Notation "x * y" := (a_mul A x y).
  Notation "x / y" := (a_div A x y).
  Notation "x <? y" := (a_ltb A x y).
  Notation "x <=? y" := (a_leb A x y).
  Notation "x >? y" := (a_ltb A y x) (at level 70).
  Notation "x >=? y" := (a_leb A y x) (at level 70).
  Notation "x =? y" := (a_eqb A x y).

  (* Python's builtin min(a, b): "b if b < a else a";  max(a, b): "b if b > a else a". *)
  Definition pymin (a b : T) : T := if b <? a then b else a.
  Definition pymax (a b : T) : T := if b >? a then b else a.

  (* The two Wolfe tests exactly as the code writes them (both in perform_line_search and _zoom):
       phi_alpha > phi_0 + self.c1*alpha*phiprime_0          (negated: sufficient decrease)
       abs(phiprime_alpha) <= -self.c2*phiprime_0              (strong curvature condition)   *)
  Definition armijo_violated (phi_0 phiprime_0 alpha v : T) : bool :=
    v >? phi_0 + (p_c1 P * alpha) * phiprime_0.
  Definition curvature_ok (phiprime_0 dv : T) : bool :=
    a_abs A dv <=? (a_opp A (p_c2 P)) * phiprime_0.

  (* ---- _zoom, line_search.py:247-343 -------------------------------------------------------- *)
  (* alpha_recent / phi_recent only feed _cubicmin (an oracle here), so they are not state.        *)
  Fixpoint zoom_loop (n i : nat) (phi_0 phiprime_0 : T)
           (alpha_lo alpha_hi phi_lo phiprime_lo phi_hi : T)
           (lastj : option T) (tr : list (ev T)) {struct n} : lsres T * list (ev T) :=
    match n with
    | O =>
        (* for ... else:  return le_alphaj.energy, False *)
        match lastj with
        | Some aj => (Ret aj false, tr)
        | None => (Raise ExcUnbound, tr)
        end
    | S n' =>
        (* delta_alpha = alpha_hi - alpha_lo
           a, b = min(alpha_lo, alpha_hi), max(alpha_lo, alpha_hi) *)
        let delta_alpha := alpha_hi - alpha_lo in
        let a := pymin alpha_lo alpha_hi in
        let b := pymax alpha_lo alpha_hi in
        (* quad_check = quad_delta * delta_alpha; alpha_j = self._quadmin(...)
           if (alpha_j is None) or (alpha_j > b - quad_check) or (alpha_j < a + quad_check):
               alpha_j = alpha_lo + 0.5*delta_alpha *)
        let quad_check := a_0p1 A * delta_alpha in
        let alpha_quad :=
          match quad i with
          | None => alpha_lo + a_half A * delta_alpha
          | Some x => if (x >? b - quad_check) || (x <? a + quad_check)
                      then alpha_lo + a_half A * delta_alpha else x
          end in
        (* if i > 0: cubic_check = cubic_delta * delta_alpha; alpha_j = self._cubicmin(...)
           if (i == 0) or (alpha_j is None) or (alpha_j > b - cubic_check) or
              (alpha_j < a + cubic_check):   [quadratic / bisection as above] *)
        let cubic_check := a_0p2 A * delta_alpha in
        let alpha_j :=
          match i with
          | O => alpha_quad
          | S _ => match cub i with
                   | None => alpha_quad
                   | Some x => if (x >? b - cubic_check) || (x <? a + cubic_check)
                               then alpha_quad else x
                   end
          end in
        (* le_alphaj = le_0.at(alpha_j); phi_alphaj = le_alphaj.value   -- no try/except *)
        match phi alpha_j with
        | PhiFpeAt => (Raise ExcFPE, EvAtFail alpha_j :: tr)
        | PhiFpeVal => (Raise ExcFPE, EvVal alpha_j :: tr)
        | PhiVal phi_alphaj =>
            let tr := EvVal alpha_j :: tr in
            (* if (phi_alphaj > phi_0 + self.c1*alpha_j*phiprime_0) or (phi_alphaj >= phi_lo): *)
            if armijo_violated phi_0 phiprime_0 alpha_j phi_alphaj || (phi_alphaj >=? phi_lo) then
              (* alpha_hi, phi_hi = alpha_j, phi_alphaj *)
              zoom_loop n' (S i) phi_0 phiprime_0 alpha_lo alpha_j phi_lo phiprime_lo phi_alphaj
                        (Some alpha_j) tr
            else
              (* phiprime_alphaj = le_alphaj.directional_derivative *)
              let phiprime_alphaj := dphi alpha_j in
              let tr := EvGrad alpha_j :: tr in
              (* if abs(phiprime_alphaj) <= -self.c2*phiprime_0: return le_alphaj.energy, True *)
              if curvature_ok phiprime_0 phiprime_alphaj then (Ret alpha_j true, tr)
              else
                (* if phiprime_alphaj*delta_alpha >= 0: alpha_hi, phi_hi = alpha_lo, phi_lo
                   (alpha_lo, phi_lo, phiprime_lo) = (alpha_j, phi_alphaj, phiprime_alphaj) *)
                if phiprime_alphaj * delta_alpha >=? a_zero A then
                  zoom_loop n' (S i) phi_0 phiprime_0 alpha_j alpha_lo phi_alphaj phiprime_alphaj
                            phi_lo (Some alpha_j) tr
                else
                  zoom_loop n' (S i) phi_0 phiprime_0 alpha_j alpha_hi phi_alphaj phiprime_alphaj
                            phi_hi (Some alpha_j) tr
        end
    end.

  Definition zoom (phi_0 phiprime_0 alpha_lo alpha_hi phi_lo phiprime_lo phi_hi : T)
             (tr : list (ev T)) : lsres T * list (ev T) :=
    (* if phi_lo > phi_0 + self.c1*alpha_lo*phiprime_0: raise ValueError("inconsistent data") *)
    if armijo_violated phi_0 phiprime_0 alpha_lo phi_lo then (Raise ExcValueError, tr)
    (* if phiprime_lo*(alpha_hi-alpha_lo) >= 0.: raise ValueError("inconsistent data") *)
    else if phiprime_lo * (alpha_hi - alpha_lo) >=? a_zero A then (Raise ExcValueError, tr)
    else zoom_loop (p_max_zoom P) 0 phi_0 phiprime_0 alpha_lo alpha_hi phi_lo phiprime_lo phi_hi
                   None tr.

  (* ---- perform_line_search, line_search.py:143-245 ------------------------------------------- *)
  (* the while loop; [n] = iterations left, [it] = iteration_number before the increment,
     [last] = step length of the LineEnergy currently bound to le_alpha1 (None: unbound).         *)
  Fixpoint stage1 (n it : nat) (maxstepsize phi_0 phiprime_0 : T)
           (alpha0 alpha1 phi_alpha0 phiprime_alpha0 : T)
           (last : option T) (tr : list (ev T)) {struct n} : lsres T * list (ev T) :=
    match n with
    | O =>
        (* logger.warning("max iterations reached"); return le_alpha1.energy, False *)
        match last with
        | Some a1 => (Ret a1 false, tr)
        | None => (Raise ExcUnbound, tr)
        end
    | S n' =>
        let it := S it in
        (* if alpha1 == 0: return le_0.energy, False *)
        if alpha1 =? a_zero A then (Ret (a_zero A) false, tr)
        else
          (* try: le_alpha1 = le_0.at(alpha1); phi_alpha1 = le_alpha1.value
             except FloatingPointError: alpha1 = (alpha0+alpha1)/2; continue *)
          match phi alpha1 with
          | PhiFpeAt =>
              stage1 n' it maxstepsize phi_0 phiprime_0 alpha0 ((alpha0 + alpha1) / a_two A)
                     phi_alpha0 phiprime_alpha0 last (EvAtFail alpha1 :: tr)
          | PhiFpeVal =>
              stage1 n' it maxstepsize phi_0 phiprime_0 alpha0 ((alpha0 + alpha1) / a_two A)
                     phi_alpha0 phiprime_alpha0 (Some alpha1) (EvVal alpha1 :: tr)
          | PhiVal phi_alpha1 =>
              let tr := EvVal alpha1 :: tr in
              (* if np.isnan(phi_alpha1) or np.abs(phi_alpha1) > 1e100: backtrack *)
              if a_isnan A phi_alpha1 || (a_abs A phi_alpha1 >? a_1e100 A) then
                stage1 n' it maxstepsize phi_0 phiprime_0 alpha0 ((alpha0 + alpha1) / a_two A)
                       phi_alpha0 phiprime_alpha0 (Some alpha1) tr
              (* if (phi_alpha1 > phi_0 + self.c1*alpha1*phiprime_0) or
                    ((phi_alpha1 >= phi_alpha0) and (iteration_number > 1)):
                     return self._zoom(alpha0, alpha1, phi_0, phiprime_0,
                                       phi_alpha0, phiprime_alpha0, phi_alpha1, le_0) *)
              else if armijo_violated phi_0 phiprime_0 alpha1 phi_alpha1
                      || ((phi_alpha1 >=? phi_alpha0) && Nat.ltb 1 it) then
                zoom phi_0 phiprime_0 alpha0 alpha1 phi_alpha0 phiprime_alpha0 phi_alpha1 tr
              else
                (* phiprime_alpha1 = le_alpha1.directional_derivative *)
                let phiprime_alpha1 := dphi alpha1 in
                let tr := EvGrad alpha1 :: tr in
                (* if abs(phiprime_alpha1) <= -self.c2*phiprime_0: return le_alpha1.energy, True *)
                if curvature_ok phiprime_0 phiprime_alpha1 then (Ret alpha1 true, tr)
                (* if phiprime_alpha1 >= 0:
                     return self._zoom(alpha1, alpha0, phi_0, phiprime_0,
                                       phi_alpha1, phiprime_alpha1, phi_alpha0, le_0) *)
                else if phiprime_alpha1 >=? a_zero A then
                  zoom phi_0 phiprime_0 alpha1 alpha0 phi_alpha1 phiprime_alpha1 phi_alpha0 tr
                else
                  (* alpha0, alpha1 = alpha1, min(2*alpha1, maxstepsize)
                     if alpha1 == maxstepsize: return le_alpha1.energy, False
                     phi_alpha0 = phi_alpha1; phiprime_alpha0 = phiprime_alpha1 *)
                  let new_alpha1 := pymin (a_two A * alpha1) maxstepsize in
                  if new_alpha1 =? maxstepsize then (Ret alpha1 false, tr)
                  else stage1 n' it maxstepsize phi_0 phiprime_0 alpha1 new_alpha1
                              phi_alpha1 phiprime_alpha1 (Some alpha1) tr
          end
    end.

  (* [phi_0], [phiprime_0]: le_0.value and le_0.directional_derivative of the energy passed in;
     [longest]: energy.longest_step(pk); [f_k_minus_1]; [pk_norm]: pk.norm().                     *)
  Definition perform_line_search (phi_0 phiprime_0 : T) (longest f_k_minus_1 : option T)
             (pk_norm : T) : lsres T * list (ev T) :=
    (* maxstepsize = energy.longest_step(pk)
       if maxstepsize is None: maxstepsize = self.max_step_size
       maxstepsize = min(maxstepsize, self.max_step_size) *)
    let maxstepsize := match longest with Some m => m | None => p_max_step P end in
    let maxstepsize := pymin maxstepsize (p_max_step P) in
    (* phi_0 = le_0.value; phiprime_0 = le_0.directional_derivative *)
    let tr := [EvGrad (a_zero A); EvVal (a_zero A)] in
    (* if phiprime_0 == 0: return energy, False *)
    if phiprime_0 =? a_zero A then (Ret (a_zero A) false, tr)
    (* if phiprime_0 > 0: return energy, False *)
    else if phiprime_0 >? a_zero A then (Ret (a_zero A) false, tr)
    else
      (* if self.preferred_initial_step_size is not None: alpha1 = ...
         elif old_phi_0 is not None:
             alpha1 = min(1.0, 1.01*2*(phi_0 - old_phi_0)/phiprime_0)
             if alpha1 < 0: alpha1 = 1.0
         else: alpha1 = 1.0/pk.norm()
         alpha1 = min(alpha1, 0.99*maxstepsize) *)
      let alpha1 :=
        match p_pref P with
        | Some s => s
        | None =>
            match f_k_minus_1 with
            | Some old_phi_0 =>
                let a1 := pymin (a_one A)
                                (((a_1p01 A * a_two A) * (phi_0 - old_phi_0)) / phiprime_0) in
                if a1 <? a_zero A then a_one A else a1
            | None => a_one A / pk_norm
            end
        end in
      let alpha1 := pymin alpha1 (a_0p99 A * maxstepsize) in
      stage1 (p_max_it P) 0 maxstepsize phi_0 phiprime_0 (a_zero A) alpha1 phi_0 phiprime_0
             None tr.

  (* what the harness compares: the result and the evaluations in program order *)
  Definition run_line_search (phi_0 phiprime_0 : T) (longest f_k_minus_1 : option T)
             (pk_norm : T) : lsres T * list (ev T) :=
    let '(r, tr) := perform_line_search phi_0 phiprime_0 longest f_k_minus_1 pk_norm in
    (r, rev tr).
End LineSearch.

(* ---------------------------------------------------------------------------------------------- *)
(* DescentMinimizer.__call__, descent_minimizers.py:52-108                                         *)
(* ---------------------------------------------------------------------------------------------- *)

Inductive status : Type := CONVERGED | CONTINUE | ERROR.

Definition status_eqb (a b : status) : bool :=
  match a, b with
  | CONVERGED, CONVERGED | CONTINUE, CONTINUE | ERROR, ERROR => true
  | _, _ => false
  end.

Section Descent.
  Variable T : Type.
  Variable A : arith T.
  Variable E : Type.                          (* energy objects *)
  Variable value : E -> T.                    (* energy.value *)
  Variable gradnorm_zero : E -> bool.         (* energy.gradient_norm == 0 *)
  (* the k-th call of  self.line_searcher.perform_line_search(energy, pk=self.get_descent_direction(
     energy, f_k_minus_1), f_k_minus_1)  -- direction, history and reset() are inside the oracle *)
  Variable linesearch : nat -> E -> option T -> E * bool.
  Variable ctrl_start : E -> status.          (* controller.start(energy) *)
  Variable ctrl_check : nat -> E -> status.   (* k-th call of controller.check(energy) *)

  (* result: None = out of fuel (the Python loop is `while True`);
     second component: the accepted energies (`energy = new_energy`), most recent first *)
  Fixpoint descent_loop (fuel k : nat) (energy : E) (f_k_minus_1 : option T) (acc : list E)
    : option (E * status) * list E :=
    match fuel with
    | O => (None, acc)
    | S fuel' =>
        (* if energy.gradient_norm == 0: return energy, controller.CONVERGED *)
        if gradnorm_zero energy then (Some (energy, CONVERGED), acc)
        else
          (* new_energy, success = self.line_searcher.perform_line_search(...)
             if not success: self.reset()
             f_k_minus_1 = energy.value *)
          let '(new_energy, success) := linesearch k energy f_k_minus_1 in
          let f_k_minus_1 := Some (value energy) in
          (* if new_energy.value > energy.value: return energy, controller.ERROR *)
          if a_ltb A (value energy) (value new_energy) then (Some (energy, ERROR), acc)
          (* if new_energy.value == energy.value: return new_energy, controller.CONVERGED *)
          else if a_eqb A (value new_energy) (value energy) then (Some (new_energy, CONVERGED), acc)
          else
            (* energy = new_energy; status = self._controller.check(energy)
               if status != controller.CONTINUE: return energy, status *)
            let acc := new_energy :: acc in
            match ctrl_check k new_energy with
            | CONTINUE => descent_loop fuel' (S k) new_energy f_k_minus_1 acc
            | s => (Some (new_energy, s), acc)
            end
    end.

  Definition descent (fuel : nat) (energy : E) : option (E * status) * list E :=
    (* status = controller.start(energy); if status != controller.CONTINUE: return energy, status *)
    match ctrl_start energy with
    | CONTINUE => descent_loop fuel 0 energy None [energy]
    | s => (Some (energy, s), [energy])
    end.
End Descent.

(* ---------------------------------------------------------------------------------------------- *)
(* IEEE double instance (bit-exact replay of the implementation's evaluations)                      *)
(* ---------------------------------------------------------------------------------------------- *)

Definition float_arith : arith float := {|
  a_add := PrimFloat.add; a_sub := PrimFloat.sub; a_mul := PrimFloat.mul; a_div := PrimFloat.div;
  a_opp := PrimFloat.opp; a_abs := PrimFloat.abs;
  a_ltb := PrimFloat.ltb; a_leb := PrimFloat.leb; a_eqb := PrimFloat.eqb;
  a_isnan := PrimFloat.is_nan;
  a_zero := 0%float; a_one := 1%float; a_two := 2%float; a_half := 0.5%float;
  a_1p01 := 0x1.028f5c28f5c29p+0%float;     (* float.hex(1.01) *)
  a_0p99 := 0x1.fae147ae147aep-1%float;     (* float.hex(0.99) *)
  a_0p2 := 0x1.999999999999ap-3%float;      (* float.hex(0.2)  *)
  a_0p1 := 0x1.999999999999ap-4%float;      (* float.hex(0.1)  *)
  a_1e100 := 0x1.249ad2594c37dp+332%float   (* float.hex(1e100) *)
|}.

(* same double up to the sign of zero; NaN equals NaN *)
Definition fsame (x y : float) : bool :=
  PrimFloat.eqb x y || (PrimFloat.is_nan x && PrimFloat.is_nan y).

Definition ev_same (a b : ev float) : bool :=
  match a, b with
  | EvVal x, EvVal y | EvGrad x, EvGrad y | EvAtFail x, EvAtFail y => fsame x y
  | _, _ => false
  end.

Fixpoint list_same {X : Type} (f : X -> X -> bool) (l m : list X) : bool :=
  match l, m with
  | [], [] => true
  | x :: l', y :: m' => f x y && list_same f l' m'
  | _, _ => false
  end.

Definition exc_eqb (a b : exc) : bool :=
  match a, b with
  | ExcValueError, ExcValueError | ExcFPE, ExcFPE | ExcUnbound, ExcUnbound => true
  | _, _ => false
  end.

Definition lsres_same (a b : lsres float) : bool :=
  match a, b with
  | Ret x s, Ret y t => fsame x y && Bool.eqb s t
  | Raise e, Raise f => exc_eqb e f
  | _, _ => false
  end.

(* oracle built from the implementation's log: (alpha, outcome of the value access, derivative) *)
Inductive logval : Type := LVal (v : float) | LFpeAt | LFpeVal.

Fixpoint lookup (tab : list (float * logval * float)) (x : float) : option (logval * float) :=
  match tab with
  | [] => None
  | (k, v, d) :: tab' => if fsame k x then Some (v, d) else lookup tab' x
  end.

(* a step length the implementation never evaluated makes the event traces differ (the model's
   trace then contains an alpha that is not in the log), so the default is never accepted silently *)
Definition tab_phi (tab : list (float * logval * float)) (x : float) : phires float :=
  match lookup tab x with
  | Some (LVal v, _) => PhiVal v
  | Some (LFpeAt, _) => PhiFpeAt
  | Some (LFpeVal, _) => PhiFpeVal
  | None => PhiFpeAt
  end.
Definition tab_dphi (tab : list (float * logval * float)) (x : float) : float :=
  match lookup tab x with Some (_, d) => d | None => PrimFloat.nan end.

Definition stream {X : Type} (l : list (option X)) (i : nat) : option X := nth i l None.

(* one replayed line search: parameters, table, interpolation streams; expected result and trace *)
Definition ls_case (P : ls_params float) (tab : list (float * logval * float))
           (cubs quads : list (option float)) (phi_0 phiprime_0 : float)
           (longest fkm1 : option float) (pk_norm : float)
           (want : lsres float) (want_tr : list (ev float)) : bool :=
  let '(r, tr) := run_line_search float_arith P (tab_phi tab) (tab_dphi tab)
                                  (stream cubs) (stream quads) phi_0 phiprime_0 longest fkm1 pk_norm in
  lsres_same r want && list_same ev_same tr want_tr.

(* one replayed minimiser run: energies are indices into the table of observed energy objects *)
Definition optf_same (a b : option float) : bool :=
  match a, b with
  | Some x, Some y => fsame x y
  | None, None => true
  | _, _ => false
  end.

(* [ls]: per call of the line searcher, the observed (energy passed in, f_k_minus_1 passed in,
   energy returned, success); a call with other arguments than observed yields the poison index
   [length vals] (value NaN: accepted by the loop, so it shows up in the accepted list) *)
Definition dm_case (vals : list float) (gz : list bool)
           (ls : list (nat * option float * nat * bool)) (start : status) (checks : list status)
           (fuel : nat) (want : option (nat * status)) (want_acc : list nat) : bool :=
  let value := fun e => nth e vals PrimFloat.nan in
  let gzero := fun e => nth e gz false in
  let poison := length vals in
  let linesearch := fun k (e : nat) (f : option float) =>
    match nth_error ls k with
    | Some (e', f', ne, ok) => if Nat.eqb e e' && optf_same f f' then (ne, ok) else (poison, false)
    | None => (poison, false)
    end in
  let check := fun k (_ : nat) => nth k checks ERROR in
  let '(r, acc) := descent float_arith value gzero linesearch (fun _ => start) check fuel 0 in
  (match r, want with
   | Some (e, s), Some (e', s') => Nat.eqb e e' && status_eqb s s'
   | None, None => true
   | _, _ => false
   end) && list_same Nat.eqb (rev acc) want_acc.

(* ---------------------------------------------------------------------------------------------- *)
(* L_BFGS.get_descent_direction and VL_BFGS.get_descent_direction (+ _InformationStore.delta),      *)
(* descent_minimizers.py:229-261 and 292-309, 432-462, as functions of the WINDOW of stored pairs  *)
(* (s_0,y_0) ... (s_{m-1},y_{m-1}), oldest first, and the current gradient g.                       *)
(* Vectors are index functions nat -> F of dimension [dim]; F is any type with ring operations and  *)
(* an uninterpreted division (no laws here).  The ring buffers / cached Gram entries of the         *)
(* implementation are NOT modelled: the window is "the last min(k, max_history_length) pairs".      *)
(* ---------------------------------------------------------------------------------------------- *)
Section BFGS.
  Variable F : Type.
  Variables (f0 f1 : F) (fadd fmul fsub fdiv : F -> F -> F) (fopp : F -> F).
  Variable dim : nat.
  Definition vec := nat -> F.

  (* Python sum([...]) / np.vdot on small arrays: ((0 + t0) + t1) + ... *)
  Fixpoint sum_upto (n : nat) (t : nat -> F) : F :=
    match n with O => f0 | S n' => fadd (sum_upto n' t) (t n') end.

  Definition dot (u v : vec) : F := sum_upto dim (fun i => fmul (u i) (v i)).   (* u.s_vdot(v) *)
  Definition vadd (u v : vec) : vec := fun i => fadd (u i) (v i).
  Definition vsub (u v : vec) : vec := fun i => fsub (u i) (v i).
  Definition smul (a : F) (v : vec) : vec := fun i => fmul a (v i).           (* a*v *)
  Definition vscale (v : vec) (a : F) : vec := fun i => fmul (v i) a.         (* v*a *)
  Definition vneg (v : vec) : vec := fun i => fopp (v i).

  Definition upd {X : Type} (d : nat -> X) (k : nat) (f : X -> X) : nat -> X :=
    fun l => if Nat.eqb l k then f (d l) else d l.

  Variable m : nat.                 (* nhist / history_length *)
  Variables s y : nat -> vec.       (* window, index 0 = oldest *)
  Variable g : vec.                 (* gradient / last_gradient *)

  (* ---- L_BFGS ---- *)
  (* for i in range(k-1, k-nhist-1, -1):   [window index j = c-1 counts down from m-1 to 0]
         alpha[idx] = s[idx].s_vdot(p)/s[idx].s_vdot(y[idx]);  p = p - alpha[idx]*y[idx] *)
  Fixpoint L_loop1 (c : nat) (p : vec) (al : nat -> F) : vec * (nat -> F) :=
    match c with
    | O => (p, al)
    | S j => let a := fdiv (dot (s j) p) (dot (s j) (y j)) in
             L_loop1 j (vsub p (smul a (y j))) (upd al j (fun _ => a))
    end.
  (* for i in range(k-nhist, k):   [window index j = m - r counts up from 0 to m-1]
         beta = y[idx].s_vdot(p) / s[idx].s_vdot(y[idx]);  p = p + (alpha[idx]-beta)*s[idx] *)
  Fixpoint L_loop2 (r : nat) (al : nat -> F) (p : vec) : vec :=
    match r with
    | O => p
    | S r' => let j := m - r in
              let beta := fdiv (dot (y j) p) (dot (s j) (y j)) in
              L_loop2 r' al (vadd p (smul (fsub (al j) beta) (s j)))
    end.
  Definition lbfgs_direction : vec :=
    (* p = -gradient;  if nhist > 0: ... *)
    let p := vneg g in
    match m with
    | O => p
    | S _ =>
        let '(p, al) := L_loop1 m p (fun _ => f0) in
        (* idx = (k-1) % maxhist; fact = s[idx].s_vdot(y[idx]) / y[idx].s_vdot(y[idx]); p = p*fact *)
        let fact := fdiv (dot (s (m - 1)) (y (m - 1))) (dot (y (m - 1)) (y (m - 1))) in
        L_loop2 m al (vscale p fact)
    end.

  (* ---- VL_BFGS ---- *)
  (* _InformationStore.b : s-window, y-window, last_gradient *)
  Definition bvec (i : nat) : vec :=
    if Nat.ltb i m then s i else if Nat.ltb i (2 * m) then y (i - m) else g.
  (* b_dot_b as assembled at lines 415-429 (orientation of the cached products kept):
       result[i, j] = ss;  result[i, m+j] = result[m+j, i] = sy[i, j] = s_i.y_j;  result[m+i, m+j] = yy
       result[2m, i] = result[i, 2m] = s_i.g;  result[2m, m+i] = result[m+i, 2m] = y_i.g
       result[2m, 2m] = last_gradient.norm()      [sic: the norm, not its square]          *)
  Variable gnorm : F.
  Definition B (i j : nat) : F :=
    if Nat.ltb i m then
      if Nat.ltb j m then dot (s i) (s j)
      else if Nat.ltb j (2 * m) then dot (s i) (y (j - m))
      else dot (s i) g
    else if Nat.ltb i (2 * m) then
      if Nat.ltb j m then dot (s j) (y (i - m))
      else if Nat.ltb j (2 * m) then dot (y (i - m)) (y (j - m))
      else dot (y (i - m)) g
    else
      if Nat.ltb j m then dot (s j) g
      else if Nat.ltb j (2 * m) then dot (y (j - m)) g
      else gnorm.

  (* for j in range(m-1, -1, -1):
         delta_b_b = sum([delta[l] * b_dot_b[l, j] for l in range(2*m+1)])
         alpha[j] = delta_b_b/b_dot_b[j, m+j];  delta[m+j] -= alpha[j] *)
  (* [Bm] is the matrix b_dot_b (the model's [B], or the implementation's own matrix in the replay) *)
  Fixpoint V_loop1 (Bm : nat -> nat -> F) (c : nat) (delta : nat -> F) (al : nat -> F)
    : (nat -> F) * (nat -> F) :=
    match c with
    | O => (delta, al)
    | S j => let dbb := sum_upto (2 * m + 1) (fun l => fmul (delta l) (Bm l j)) in
             let a := fdiv dbb (Bm j (m + j)) in
             V_loop1 Bm j (upd delta (m + j) (fun x => fsub x a)) (upd al j (fun _ => a))
    end.
  (* for j in range(m):
         delta_b_b = sum([delta[l]*b_dot_b[m+j, l] for l in range(2*m+1)])
         beta = delta_b_b/b_dot_b[j, m+j];  delta[j] += (alpha[j] - beta) *)
  Fixpoint V_loop2 (Bm : nat -> nat -> F) (r : nat) (al : nat -> F) (delta : nat -> F) : nat -> F :=
    match r with
    | O => delta
    | S r' => let j := m - r in
              let dbb := sum_upto (2 * m + 1) (fun l => fmul (delta l) (Bm (m + j) l)) in
              let beta := fdiv dbb (Bm j (m + j)) in
              V_loop2 Bm r' al (upd delta j (fun x => fadd x (fsub (al j) beta)))
    end.
  Definition vl_delta_of (Bm : nat -> nat -> F) : nat -> F :=
    (* delta = np.zeros(2*m+1); delta[2*m] = -1 *)
    let delta := fun l => if Nat.eqb l (2 * m) then fopp f1 else f0 in
    let '(delta, al) := V_loop1 Bm m delta (fun _ => f0) in
    (* for i in range(2*m+1): delta[i] *= b_dot_b[m-1, 2*m-1]/b_dot_b[2*m-1, 2*m-1]
       For m = 0 both indices are -1, i.e. the last (= only) entry [0,0] of the 1x1 matrix; the
       truncated subtraction of nat yields exactly that index 0. *)
    let fac := fdiv (Bm (m - 1) (2 * m - 1)) (Bm (2 * m - 1) (2 * m - 1)) in
    let delta := fun l => fmul (delta l) fac in
    V_loop2 Bm m al delta.
  Definition vl_delta : nat -> F := vl_delta_of B.
  (* descent_direction = delta[0] * b[0]; for i in range(1, len(delta)): dd = dd + delta[i]*b[i] *)
  Fixpoint lincomb_from (delta : nat -> F) (n : nat) : vec :=
    match n with
    | O => smul (delta 0) (bvec 0)
    | S n' => vadd (lincomb_from delta n') (smul (delta (S n')) (bvec (S n')))
    end.
  Definition vl_direction : vec := lincomb_from vl_delta (2 * m).
End BFGS.

(* IEEE replay of _InformationStore.delta from the implementation's own b_dot_b matrix (row-major
   list of its (2m+1)^2 entries): bit-exact, any field dimension. *)
Definition delta_case (m : nat) (bdb : list float) (want_delta : list float) : bool :=
  let n := 2 * m + 1 in
  let Bm := fun i j => nth (i * n + j) bdb PrimFloat.nan in
  let dl := map (vl_delta_of 0%float 1%float PrimFloat.add PrimFloat.mul PrimFloat.sub PrimFloat.div
                             PrimFloat.opp m Bm) (seq 0 n) in
  list_same fsame dl want_delta.

(* Both directions from a window of pairs in IEEE arithmetic with naive left-to-right dot products
   (the implementation accumulates in extended precision, so this is compared with a tolerance, in
   Python): window S, Y (oldest first), gradient g, all as lists of [dim] doubles. *)
Definition bfgs_dirs (dim : nat) (S Y : list (list float)) (g : list float)
  : list float * list float :=
  let m := length S in
  let s := fun j i => nth i (nth j S []) PrimFloat.nan in
  let y := fun j i => nth i (nth j Y []) PrimFloat.nan in
  let gv := fun i => nth i g PrimFloat.nan in
  let gnorm := PrimFloat.sqrt (dot 0%float PrimFloat.add PrimFloat.mul dim gv gv) in
  (map (lbfgs_direction 0%float PrimFloat.add PrimFloat.mul PrimFloat.sub PrimFloat.div
                        PrimFloat.opp dim m s y gv) (seq 0 dim),
   map (vl_direction 0%float 1%float PrimFloat.add PrimFloat.mul PrimFloat.sub PrimFloat.div
                     PrimFloat.opp dim m s y gv gnorm) (seq 0 dim)).
