(* C16 -- lemmas about the line-search / descent-loop model.  No arithmetic laws are used anywhere
   except in the explicitly marked section [Ordered]. *)
From Coq Require Import List Bool Arith Lia.
Import ListNotations.
Require Import NV.C16.Model.

Set Implicit Arguments.

Section LS.
  Variable T : Type.
  Variable A : arith T.
  Variable P : ls_params T.
  Variable phi : T -> phires T.
  Variable dphi : T -> T.
  Variable cub quad : nat -> option T.

  (* "alpha satisfies the two tests of the code w.r.t. (phi_0, phiprime_0)" *)
  Definition wolfe_checked (phi_0 phiprime_0 alpha : T) : Prop :=
    exists v, phi alpha = PhiVal v /\
              armijo_violated A P phi_0 phiprime_0 alpha v = false /\
              curvature_ok A P phiprime_0 (dphi alpha) = true.

  Lemma zoom_loop_wolfe :
    forall n i phi_0 phiprime_0 alpha_lo alpha_hi phi_lo phiprime_lo phi_hi lastj tr alpha tr',
      zoom_loop A P phi dphi cub quad n i phi_0 phiprime_0 alpha_lo alpha_hi phi_lo phiprime_lo
                phi_hi lastj tr = (Ret alpha true, tr') ->
      wolfe_checked phi_0 phiprime_0 alpha.
  Proof.
    induction n as [|n IH]; intros until tr'; intro H.
    - simpl in H. destruct lastj; discriminate.
    - cbn [zoom_loop] in H.
      match type of H with context [phi ?a] => remember a as aj eqn:Haj end. clear Haj.
      destruct (phi aj) as [v| |] eqn:Hp; try discriminate.
      destruct (armijo_violated A P phi_0 phiprime_0 aj v || a_leb A phi_lo v) eqn:Hc.
      + eapply IH; eassumption.
      + destruct (curvature_ok A P phiprime_0 (dphi aj)) eqn:Hk.
        * inversion H; subst. apply orb_false_elim in Hc. destruct Hc as [Ha _].
          exists v. auto.
        * destruct (a_leb A (a_zero A) (a_mul A (dphi aj) (a_sub A alpha_hi alpha_lo)));
            eapply IH; eassumption.
  Qed.

  Lemma zoom_wolfe :
    forall phi_0 phiprime_0 alpha_lo alpha_hi phi_lo phiprime_lo phi_hi tr alpha tr',
      zoom A P phi dphi cub quad phi_0 phiprime_0 alpha_lo alpha_hi phi_lo phiprime_lo phi_hi tr
        = (Ret alpha true, tr') ->
      wolfe_checked phi_0 phiprime_0 alpha.
  Proof.
    unfold zoom; intros until tr'; intro H.
    destruct (armijo_violated A P phi_0 phiprime_0 alpha_lo phi_lo); try discriminate.
    destruct (a_leb A (a_zero A) (a_mul A phiprime_lo (a_sub A alpha_hi alpha_lo))); try discriminate.
    eapply zoom_loop_wolfe; eassumption.
  Qed.

  Lemma stage1_wolfe :
    forall n it maxstepsize phi_0 phiprime_0 alpha0 alpha1 phi_alpha0 phiprime_alpha0 last tr alpha tr',
      stage1 A P phi dphi cub quad n it maxstepsize phi_0 phiprime_0 alpha0 alpha1 phi_alpha0
             phiprime_alpha0 last tr = (Ret alpha true, tr') ->
      wolfe_checked phi_0 phiprime_0 alpha.
  Proof.
    induction n as [|n IH]; intros until tr'; intro H.
    - simpl in H. destruct last; discriminate.
    - cbn [stage1] in H.
      destruct (a_eqb A alpha1 (a_zero A)); try discriminate.
      destruct (phi alpha1) as [v| |] eqn:Hp.
      + destruct (a_isnan A v || a_ltb A (a_1e100 A) (a_abs A v)).
        * eapply IH; eassumption.
        * destruct (armijo_violated A P phi_0 phiprime_0 alpha1 v
                    || a_leb A phi_alpha0 v && Nat.ltb 1 (S it)) eqn:Hc.
          -- eapply zoom_wolfe; eassumption.
          -- destruct (curvature_ok A P phiprime_0 (dphi alpha1)) eqn:Hk.
             ++ inversion H; subst. apply orb_false_elim in Hc. destruct Hc as [Ha _].
                exists v. auto.
             ++ destruct (a_leb A (a_zero A) (dphi alpha1)).
                ** eapply zoom_wolfe; eassumption.
                ** destruct (a_eqb A (pymin A (a_mul A (a_two A) alpha1) maxstepsize) maxstepsize);
                     try discriminate.
                   eapply IH; eassumption.
      + eapply IH; eassumption.
      + eapply IH; eassumption.
  Qed.

  (* perform_line_search returns success => the direction was a descent direction according to the
     code's own tests, and the returned step length passed both Wolfe tests *)
  Lemma perform_line_search_wolfe :
    forall phi_0 phiprime_0 longest fkm1 pk_norm alpha tr,
      perform_line_search A P phi dphi cub quad phi_0 phiprime_0 longest fkm1 pk_norm
        = (Ret alpha true, tr) ->
      a_eqb A phiprime_0 (a_zero A) = false /\
      a_ltb A (a_zero A) phiprime_0 = false /\
      exists v, phi alpha = PhiVal v /\
                a_ltb A (a_add A phi_0 (a_mul A (a_mul A (p_c1 P) alpha) phiprime_0)) v = false /\
                a_leb A (a_abs A (dphi alpha)) (a_mul A (a_opp A (p_c2 P)) phiprime_0) = true.
  Proof.
    unfold perform_line_search; intros until tr; intro H.
    destruct (a_eqb A phiprime_0 (a_zero A)); try discriminate.
    destruct (a_ltb A (a_zero A) phiprime_0); try discriminate.
    split; [reflexivity|]. split; [reflexivity|].
    apply stage1_wolfe in H. exact H.
  Qed.

  (* zero slope or ascent direction: the start energy is returned, success = False, and nothing
     but the start point has been evaluated *)
  Lemma perform_line_search_nondescent :
    forall phi_0 phiprime_0 longest fkm1 pk_norm,
      a_eqb A phiprime_0 (a_zero A) = true \/ a_ltb A (a_zero A) phiprime_0 = true ->
      perform_line_search A P phi dphi cub quad phi_0 phiprime_0 longest fkm1 pk_norm
        = (Ret (a_zero A) false, [EvGrad (a_zero A); EvVal (a_zero A)]).
  Proof.
    unfold perform_line_search; intros until pk_norm; intros [H|H].
    - rewrite H. reflexivity.
    - rewrite H. destruct (a_eqb A phiprime_0 (a_zero A)); reflexivity.
  Qed.

End LS.

(* ---------------------------------------------------------------------------------------------- *)
(* With the one order law "not (y < x) -> x <= y" (true for IEEE comparisons of non-NaN values
   and for every total order) the first test is the textbook sufficient-decrease inequality.       *)
(* ---------------------------------------------------------------------------------------------- *)
Section Ordered.
  Variable T : Type.
  Variable A : arith T.
  Variable P : ls_params T.
  Variable phi : T -> phires T.
  Variable dphi : T -> T.
  Variable cub quad : nat -> option T.
  Variable defined : T -> Prop.             (* "is not NaN" *)
  Hypothesis not_lt_le : forall x y, defined x -> defined y -> a_ltb A y x = false -> a_leb A x y = true.

  Lemma perform_line_search_wolfe_le :
    forall phi_0 phiprime_0 longest fkm1 pk_norm alpha tr,
      perform_line_search A P phi dphi cub quad phi_0 phiprime_0 longest fkm1 pk_norm
        = (Ret alpha true, tr) ->
      exists v, phi alpha = PhiVal v /\
        (defined v -> defined (a_add A phi_0 (a_mul A (a_mul A (p_c1 P) alpha) phiprime_0)) ->
         a_leb A v (a_add A phi_0 (a_mul A (a_mul A (p_c1 P) alpha) phiprime_0)) = true) /\
        a_leb A (a_abs A (dphi alpha)) (a_mul A (a_opp A (p_c2 P)) phiprime_0) = true.
  Proof.
    intros until tr; intro H. apply perform_line_search_wolfe in H.
    destruct H as (_ & _ & v & Hv & Ha & Hc). exists v. repeat split; auto.
  Qed.
End Ordered.

(* ---------------------------------------------------------------------------------------------- *)
(* DescentMinimizer.__call__                                                                       *)
(* ---------------------------------------------------------------------------------------------- *)
Section DM.
  Variable T : Type.
  Variable A : arith T.
  Variable E : Type.
  Variable value : E -> T.
  Variable gradnorm_zero : E -> bool.
  Variable linesearch : nat -> E -> option T -> E * bool.
  Variable ctrl_start : E -> status.
  Variable ctrl_check : nat -> E -> status.

  (* the accepted energies, most recent first: each was neither larger than nor equal to its
     predecessor according to the comparisons the code performs *)
  Fixpoint chain (acc : list E) : Prop :=
    match acc with
    | newer :: ((older :: _) as rest) =>
        a_ltb A (value older) (value newer) = false /\
        a_eqb A (value newer) (value older) = false /\ chain rest
    | _ => True
    end.

  (* contract of the returned pair w.r.t. the most recently accepted energy [cur] *)
  Definition result_ok (cur : E) (r : option (E * status)) : Prop :=
    match r with
    | None => True
    | Some (e, s) =>
        s <> CONTINUE /\
        (e = cur \/
         (s = CONVERGED /\ a_eqb A (value e) (value cur) = true /\
          a_ltb A (value cur) (value e) = false))
    end.

  Lemma descent_loop_ok :
    forall fuel k energy fkm1 acc r acc',
      chain (energy :: acc) ->
      descent_loop A value gradnorm_zero linesearch ctrl_check fuel k energy fkm1 (energy :: acc)
        = (r, acc') ->
      chain acc' /\ (exists cur rest, acc' = cur :: rest /\ result_ok cur r) /\
      (exists pre, acc' = pre ++ energy :: acc).
  Proof.
    induction fuel as [|fuel IH]; intros until acc'; intros Hch H.
    - simpl in H. inversion H; subst. split; auto. split.
      + exists energy, acc. split; auto. exact I.
      + exists []. reflexivity.
    - cbn [descent_loop] in H.
      destruct (gradnorm_zero energy).
      { inversion H; subst. split; auto. split.
        - exists energy, acc. split; auto. split; [discriminate | left; reflexivity].
        - exists []. reflexivity. }
      destruct (linesearch k energy fkm1) as [ne ok].
      destruct (a_ltb A (value energy) (value ne)) eqn:Hgt.
      { inversion H; subst. split; auto. split.
        - exists energy, acc. split; auto. split; [discriminate | left; reflexivity].
        - exists []. reflexivity. }
      destruct (a_eqb A (value ne) (value energy)) eqn:Heq.
      { inversion H; subst. split; auto. split.
        - exists energy, acc. split; auto. split; [discriminate | right; auto].
        - exists []. reflexivity. }
      assert (Hch' : chain (ne :: energy :: acc)) by (simpl; auto).
      destruct (ctrl_check k ne) eqn:Hs.
      + inversion H; subst. split; auto. split.
        * exists ne, (energy :: acc). split; auto. split; [discriminate | left; reflexivity].
        * exists [ne]. reflexivity.
      + apply IH in H; auto. destruct H as (H1 & H2 & pre & H3). split; auto. split; auto.
        exists (pre ++ [ne]). rewrite <- app_assoc. exact H3.
      + inversion H; subst. split; auto. split.
        * exists ne, (energy :: acc). split; auto. split; [discriminate | left; reflexivity].
        * exists [ne]. reflexivity.
  Qed.

  Lemma descent_ok :
    forall fuel energy r acc,
      descent A value gradnorm_zero linesearch ctrl_start ctrl_check fuel energy = (r, acc) ->
      chain acc /\ (exists cur rest, acc = cur :: rest /\ result_ok cur r) /\
      (exists pre, acc = pre ++ [energy]).
  Proof.
    unfold descent; intros until acc; intro H.
    destruct (ctrl_start energy) eqn:Hs.
    - inversion H; subst. split; [exact I|]. split.
      + exists energy, []. split; auto. split; [discriminate | left; reflexivity].
      + exists []. reflexivity.
    - apply descent_loop_ok in H; [|exact I]. exact H.
    - inversion H; subst. split; [exact I|]. split.
      + exists energy, []. split; auto. split; [discriminate | left; reflexivity].
      + exists []. reflexivity.
  Qed.

  (* an energy increase reported by the line search ends the run with the PREVIOUS energy and ERROR *)
  Lemma descent_increase_is_error :
    forall fuel k energy fkm1 acc ne ok,
      gradnorm_zero energy = false ->
      linesearch k energy fkm1 = (ne, ok) ->
      a_ltb A (value energy) (value ne) = true ->
      descent_loop A value gradnorm_zero linesearch ctrl_check (S fuel) k energy fkm1 acc
        = (Some (energy, ERROR), acc).
  Proof.
    intros until ok; intros Hg Hl Hlt. cbn [descent_loop]. rewrite Hg, Hl, Hlt. reflexivity.
  Qed.
End DM.
