(* C16 -- property theorems only.  Each is closed by [exact] of a lemma from Proofs.v. *)
From Coq Require Import List Bool Arith PrimFloat.
Import ListNotations.
Require Import NV.C16.Model NV.C16.Proofs NV.C16.ProofsBFGS NV.C16.ModelRing NV.C16.ProofsRing.

(* Soundness of the line search, control flow only: NO law about the arithmetic [A] is assumed, so
   the statement holds verbatim for IEEE doubles ([float_arith]), for every value function phi
   (including ones that raise FloatingPointError or return NaN/inf somewhere), every derivative
   function, every stream of interpolation proposals, every parameter setting (c1, c2, step limits,
   iteration limits, preferred step), every start data.
   If perform_line_search returns (energy at alpha, True) then
     - the start slope passed the code's descent tests (not == 0, not > 0),
     - phi(alpha) was evaluated to a value v with  NOT (v > phi_0 + c1*alpha*phi'_0)   (Armijo)
     - and  |phi'(alpha)| <= -c2*phi'_0                                    (strong curvature). *)
Theorem C16_wolfe :
  forall (T : Type) (A : arith T) (P : ls_params T) (phi : T -> phires T) (dphi : T -> T)
         (cub quad : nat -> option T) (phi_0 phiprime_0 : T) (longest fkm1 : option T)
         (pk_norm alpha : T) (tr : list (ev T)),
    perform_line_search A P phi dphi cub quad phi_0 phiprime_0 longest fkm1 pk_norm
      = (Ret alpha true, tr) ->
    a_eqb A phiprime_0 (a_zero A) = false /\
    a_ltb A (a_zero A) phiprime_0 = false /\
    exists v, phi alpha = PhiVal v /\
              a_ltb A (a_add A phi_0 (a_mul A (a_mul A (p_c1 P) alpha) phiprime_0)) v = false /\
              a_leb A (a_abs A (dphi alpha)) (a_mul A (a_opp A (p_c2 P)) phiprime_0) = true.
Proof. exact perform_line_search_wolfe. Qed.

(* The same with the sufficient-decrease test in its textbook form  phi(alpha) <= phi(0)+c1*alpha*phi'(0):
   needs only "not (y < x) implies x <= y" on defined (non-NaN) values -- true for IEEE comparisons
   of non-NaN doubles and for every total order. *)
Theorem C16_wolfe_le :
  forall (T : Type) (A : arith T) (P : ls_params T) (phi : T -> phires T) (dphi : T -> T)
         (cub quad : nat -> option T) (defined : T -> Prop),
    (forall x y, defined x -> defined y -> a_ltb A y x = false -> a_leb A x y = true) ->
    forall (phi_0 phiprime_0 : T) (longest fkm1 : option T) (pk_norm alpha : T) (tr : list (ev T)),
    perform_line_search A P phi dphi cub quad phi_0 phiprime_0 longest fkm1 pk_norm
      = (Ret alpha true, tr) ->
    exists v, phi alpha = PhiVal v /\
      (defined v -> defined (a_add A phi_0 (a_mul A (a_mul A (p_c1 P) alpha) phiprime_0)) ->
       a_leb A v (a_add A phi_0 (a_mul A (a_mul A (p_c1 P) alpha) phiprime_0)) = true) /\
      a_leb A (a_abs A (dphi alpha)) (a_mul A (a_opp A (p_c2 P)) phiprime_0) = true.
Proof. exact perform_line_search_wolfe_le. Qed.

(* Zero slope or ascent direction: the unchanged start energy is returned with success = False and
   nothing but the start point is evaluated. *)
Theorem C16_nondescent :
  forall (T : Type) (A : arith T) (P : ls_params T) (phi : T -> phires T) (dphi : T -> T)
         (cub quad : nat -> option T) (phi_0 phiprime_0 : T) (longest fkm1 : option T) (pk_norm : T),
    a_eqb A phiprime_0 (a_zero A) = true \/ a_ltb A (a_zero A) phiprime_0 = true ->
    perform_line_search A P phi dphi cub quad phi_0 phiprime_0 longest fkm1 pk_norm
      = (Ret (a_zero A) false, [EvGrad (a_zero A); EvVal (a_zero A)]).
Proof. exact perform_line_search_nondescent. Qed.

(* The minimiser loop, for every energy type, every line searcher / direction rule (an arbitrary
   function of the call number, the current energy and f_k_minus_1), every controller, every fuel:
   - the accepted energies (start first in time; the list is most-recent-first) form a chain in
     which each newer value was found neither greater than nor equal to its predecessor,
   - the list starts (in time) with the start energy,
   - the returned status is never CONTINUE, and the returned energy is the most recently accepted
     one -- except for the "energy has not changed" exit, which returns the new energy whose value
     compares equal to (and not above) the most recently accepted one, with CONVERGED. *)
Theorem C16_monotone :
  forall (T : Type) (A : arith T) (E : Type) (value : E -> T) (gradnorm_zero : E -> bool)
         (linesearch : nat -> E -> option T -> E * bool) (ctrl_start : E -> status)
         (ctrl_check : nat -> E -> status) (fuel : nat) (energy : E)
         (r : option (E * status)) (acc : list E),
    descent A value gradnorm_zero linesearch ctrl_start ctrl_check fuel energy = (r, acc) ->
    chain A value acc /\
    (exists cur rest, acc = cur :: rest /\ result_ok A value cur r) /\
    (exists pre, acc = pre ++ [energy]).
Proof. exact descent_ok. Qed.

(* An energy increase reported by the line search ends the run with the PREVIOUS energy and ERROR,
   and nothing is appended to the accepted energies. *)
Theorem C16_increase_is_error :
  forall (T : Type) (A : arith T) (E : Type) (value : E -> T) (gradnorm_zero : E -> bool)
         (linesearch : nat -> E -> option T -> E * bool) (ctrl_check : nat -> E -> status)
         (fuel k : nat) (energy : E) (fkm1 : option T) (acc : list E) (ne : E) (ok : bool),
    gradnorm_zero energy = false ->
    linesearch k energy fkm1 = (ne, ok) ->
    a_ltb A (value energy) (value ne) = true ->
    descent_loop A value gradnorm_zero linesearch ctrl_check (S fuel) k energy fkm1 acc
      = (Some (energy, ERROR), acc).
Proof. exact descent_increase_is_error. Qed.

(* Non-vacuity: a concrete IEEE run that succeeds through _zoom (phi(a) = 1 - 3a + a^2/2 + a^4/4
   tabulated at the points the real implementation evaluated), so the hypothesis of C16_wolfe is
   satisfiable with success coming from the second stage. *)
Example C16_wolfe_nonvacuous :
  exists alpha tr,
    perform_line_search float_arith
      (Build_ls_params None 0x1.a36e2eb1c432dp-14%float 0x1.999999999999ap-4%float
                       0x1.93e5939a08ceap+99%float 100 100)
      (fun a => PhiVal (1 - 3*a + 0.5*a*a + 0.25*a*a*a*a)%float)
      (fun a => (-3 + a + a*a*a)%float) (fun _ => None) (fun _ => None)
      1%float (-3)%float None None 1%float = (Ret alpha true, tr).
Proof. eexists; eexists. vm_compute. reflexivity. Qed.

(* ... and that run indeed goes through _zoom (bisection proposals): 1.25 is not a first-stage trial *)
Example C16_wolfe_nonvacuous_zoom :
  fst (perform_line_search float_arith
      (Build_ls_params None 0x1.a36e2eb1c432dp-14%float 0x1.999999999999ap-4%float
                       0x1.93e5939a08ceap+99%float 100 100)
      (fun a => PhiVal (1 - 3*a + 0.5*a*a + 0.25*a*a*a*a)%float)
      (fun a => (-3 + a + a*a*a)%float) (fun _ => None) (fun _ => None)
      1%float (-3)%float None None 1%float) = Ret 1.25%float true.
Proof. vm_compute. reflexivity. Qed.

(* The two L-BFGS variants give the same direction.  For every commutative ring F with an
   uninterpreted division (no law about division is needed: both routines divide equal numerators by
   equal denominators, so nothing is assumed about non-zero curvature), every dimension, every
   window of m >= 1 stored pairs (s_j, y_j) and every gradient g, every value of the (unused)
   [2m,2m] entry: VL_BFGS' direction  sum_l delta_l b_l, with delta computed from the Gram matrix
   b_dot_b exactly as _InformationStore.delta does, equals L_BFGS' two-loop direction, component by
   component.
   PARTIAL: stated for the window of pairs ("the last min(k, max_history_length) pairs"); the ring
   buffers s/y and the cached ss/sy/yy entries of _InformationStore are not modelled (they are
   covered by the bit-exact replay of wrapped 1-pixel histories and by the n-D direct oracle). *)
Theorem C16_lbfgs_equiv_partial :
  forall (F : Type) (f0 f1 : F) (fadd fmul fsub fdiv : F -> F -> F) (fopp : F -> F),
    Ring_theory.ring_theory f0 f1 fadd fmul fsub fopp (@eq F) ->
    forall (dim m : nat) (s y : nat -> nat -> F) (g : nat -> F) (gnorm : F),
      1 <= m ->
      forall i,
        vl_direction f0 f1 fadd fmul fsub fdiv fopp dim m s y g gnorm i =
        lbfgs_direction f0 fadd fmul fsub fdiv fopp dim m s y g i.
Proof. exact ProofsBFGS.lbfgs_equiv. Qed.

(* Empty window (first call after a reset): VL_BFGS scales -g by |g|/|g| (Python's negative index
   -1 into the 1x1 matrix), so the directions agree as soon as |g|/|g| = 1. *)
Theorem C16_lbfgs_equiv_empty :
  forall (F : Type) (f0 f1 : F) (fadd fmul fsub fdiv : F -> F -> F) (fopp : F -> F),
    Ring_theory.ring_theory f0 f1 fadd fmul fsub fopp (@eq F) ->
    forall (dim : nat) (s y : nat -> nat -> F) (g : nat -> F) (gnorm : F),
      fdiv gnorm gnorm = f1 ->
      forall i,
        vl_direction f0 f1 fadd fmul fsub fdiv fopp dim 0 s y g gnorm i =
        lbfgs_direction f0 fadd fmul fsub fdiv fopp dim 0 s y g i.
Proof. exact ProofsBFGS.lbfgs_equiv0. Qed.


(* The window abstraction of the two theorems above, discharged for the ring buffers: for every
   payload type, every capacity max_history_length >= 1 and EVERY sequence l of add_new_point calls
   (any length, so any number of wrap-arounds), the model of _InformationStore (slot written:
   k % mmax; history_length = min(k, mmax); slots read by .b: (k-m+i) % mmax) reports
   m = min(k, mmax) and its read-out is, entry by entry, the (k-m+i)-th pushed element:
   the last m pushed pairs, oldest first. *)
Theorem C16_ring_window :
  forall (X : Type) (mmax : nat) (l : list X), 1 <= mmax ->
    let k := length l in let m := Nat.min k mmax in
    history_length X mmax (ring_pushes X mmax l) = m /\
    ring_readout X mmax (ring_pushes X mmax l)
      = map (fun i => nth_error l (k - m + i)) (seq 0 m).
Proof. exact ring_readout_window. Qed.

(* ... and every one of these m entries is a stored element (never the initial None of the buffer,
   never an index outside the pushed sequence). *)
Theorem C16_ring_defined :
  forall (X : Type) (mmax : nat) (l : list X) (i : nat), 1 <= mmax ->
    i < Nat.min (length l) mmax ->
    exists x, nth_error (ring_readout X mmax (ring_pushes X mmax l)) i = Some (Some x) /\
              nth_error l (length l - Nat.min (length l) mmax + i) = Some x.
Proof. exact ring_readout_defined. Qed.

(* The slot k1 = (k-1) % mmax, which b_dot_b refreshes as "the newest pair", holds the element of
   the last add_new_point call. *)
Theorem C16_ring_newest :
  forall (X : Type) (mmax : nat) (l : list X) (v : X), 1 <= mmax ->
    ring_newest X mmax (ring_pushes X mmax (l ++ [v])) = Some v.
Proof. exact ring_newest_last. Qed.

(* Non-vacuity / wrap-around: capacity 3, five pushes -> the last three, oldest first. *)
Example C16_ring_example :
  ring_readout nat 3 (ring_pushes nat 3 [10; 11; 12; 13; 14]) = [Some 12; Some 13; Some 14].
Proof. vm_compute. reflexivity. Qed.
