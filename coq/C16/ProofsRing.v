(* C16 -- the ring buffers of _InformationStore hold, and read out, the last min(k, mmax) pairs. *)
From Coq Require Import List Arith Lia.
Import ListNotations.
Require Import NV.C16.ModelRing.

Lemma mod_neq_close : forall mmax t k, t < k -> k < t + mmax -> t mod mmax <> k mod mmax.
Proof.
  intros mmax t k Htk Hk E.
  assert (Hm : mmax <> 0) by lia.
  pose proof (Nat.div_mod t mmax Hm) as Ht.
  pose proof (Nat.div_mod k mmax Hm) as Hk2.
  rewrite E in Ht.
  set (a := k / mmax) in *. set (b := t / mmax) in *. set (r := k mod mmax) in *.
  destruct (le_lt_dec a b) as [L|L].
  - pose proof (Nat.mul_le_mono_l a b mmax L). lia.
  - assert (L2 : S b <= a) by lia.
    pose proof (Nat.mul_le_mono_l (S b) a mmax L2) as M.
    rewrite Nat.mul_succ_r in M. lia.
Qed.

Section RingProofs.
  Variable X : Type.

  Definition ring_inv (mmax : nat) (st : store X) (l : list X) : Prop :=
    st_k X st = length l /\
    forall t, t < length l -> length l <= t + mmax ->
              st_buf X st (t mod mmax) = nth_error l t.

  Lemma ring_inv_init : forall mmax, ring_inv mmax (ring_init X) [].
  Proof. intros mmax. split; [reflexivity|]. simpl. intros t H. lia. Qed.

  Lemma ring_inv_add : forall mmax st l v, 1 <= mmax ->
    ring_inv mmax st l -> ring_inv mmax (ring_add X mmax st v) (l ++ [v]).
  Proof.
    intros mmax st l v Hm [Hk Hb]. split.
    - cbn [ring_add st_k]. rewrite app_length. simpl. lia.
    - intros t Ht Hw. rewrite app_length in Ht, Hw. simpl in Ht, Hw.
      cbn [ring_add st_buf]. rewrite Hk.
      destruct (Nat.eq_dec t (length l)) as [->|Hne].
      + rewrite Nat.eqb_refl. rewrite nth_error_app2 by lia. rewrite Nat.sub_diag. reflexivity.
      + destruct (Nat.eqb (t mod mmax) (length l mod mmax)) eqn:E.
        * apply Nat.eqb_eq in E. exfalso.
          apply (mod_neq_close mmax t (length l)); [lia|lia|exact E].
        * rewrite nth_error_app1 by lia. apply Hb; lia.
  Qed.

  Lemma fold_left_snoc : forall (f : store X -> X -> store X) l v s0,
    fold_left f (l ++ [v]) s0 = f (fold_left f l s0) v.
  Proof. intros. rewrite fold_left_app. reflexivity. Qed.

  Lemma ring_inv_pushes : forall mmax l, 1 <= mmax -> ring_inv mmax (ring_pushes X mmax l) l.
  Proof.
    intros mmax l Hm. induction l as [|v l IH] using rev_ind.
    - apply ring_inv_init.
    - unfold ring_pushes. rewrite fold_left_snoc. apply ring_inv_add; assumption.
  Qed.

  (* the read-out of .b after ANY sequence of add_new_point calls: entry i is the (k-m+i)-th pushed
     element, m = min(k, mmax), k = number of calls *)
  Lemma ring_readout_window : forall mmax (l : list X), 1 <= mmax ->
    let k := length l in let m := Nat.min k mmax in
    history_length X mmax (ring_pushes X mmax l) = m /\
    ring_readout X mmax (ring_pushes X mmax l)
      = map (fun i => nth_error l (k - m + i)) (seq 0 m).
  Proof.
    intros mmax l Hm k m. destruct (ring_inv_pushes mmax l Hm) as [Hk Hb].
    unfold ring_readout, history_length. rewrite Hk. fold k. fold m. split; [reflexivity|].
    apply map_ext_in. intros i Hi. apply in_seq in Hi.
    apply Hb; unfold m, k in *; lia.
  Qed.

  (* every read-out entry is a stored element (never the initial None, never out of range) *)
  Lemma ring_readout_defined : forall mmax (l : list X) i, 1 <= mmax ->
    i < Nat.min (length l) mmax ->
    exists x, nth_error (ring_readout X mmax (ring_pushes X mmax l)) i = Some (Some x) /\
              nth_error l (length l - Nat.min (length l) mmax + i) = Some x.
  Proof.
    intros mmax l i Hm Hi.
    destruct (ring_readout_window mmax l Hm) as [_ ->].
    set (m := Nat.min (length l) mmax) in *.
    destruct (nth_error l (length l - m + i)) as [x|] eqn:E.
    - exists x. split; [|reflexivity].
      erewrite map_nth_error; [rewrite E; reflexivity|].
      rewrite nth_error_nth' with (d := 0) by (rewrite seq_length; lia).
      rewrite seq_nth by lia. reflexivity.
    - apply nth_error_None in E. unfold m in *. lia.
  Qed.

  (* the slot (k-1) % mmax used by b_dot_b as "newest" holds the last pushed element *)
  Lemma ring_newest_last : forall mmax (l : list X) v, 1 <= mmax ->
    ring_newest X mmax (ring_pushes X mmax (l ++ [v])) = Some v.
  Proof.
    intros mmax l v Hm. destruct (ring_inv_pushes mmax (l ++ [v]) Hm) as [Hk Hb].
    unfold ring_newest. rewrite Hk. rewrite app_length in *. simpl in *.
    replace (length l + 1 - 1) with (length l) by lia.
    rewrite Hb by lia. rewrite nth_error_app2 by lia. rewrite Nat.sub_diag. reflexivity.
  Qed.
End RingProofs.
