(* C16 -- model of the ring buffers of _InformationStore (descent_minimizers.py), NO proofs.
   One buffer with payload type X stands for self.s and self.y alike: both are written and read with
   the same index expressions (the correspondence uses X = Z * Z, the pair (s_k, y_k)). *)
From Coq Require Import List Arith ZArith.
Import ListNotations.

Section Ring.
  Variable X : Type.

  (*  self.s = [None]*max_history_length ; self.k = 0  *)
  Record store := { st_buf : nat -> option X; st_k : nat }.
  Definition ring_init : store := {| st_buf := fun _ => None; st_k := 0 |}.

  (*  add_new_point:   mmax = self.max_history_length
                       self.s[self.k % mmax] = x - self.last_x
                       self.y[self.k % mmax] = gradient - self.last_gradient
                       self.k += 1                                               *)
  Definition ring_add (mmax : nat) (st : store) (v : X) : store :=
    {| st_buf := fun j => if Nat.eqb j (st_k st mod mmax) then Some v else st_buf st j;
       st_k := S (st_k st) |}.

  (*  history_length:  return min(self.k, self.max_history_length)  *)
  Definition history_length (mmax : nat) (st : store) : nat := Nat.min (st_k st) mmax.

  (*  b:   m = self.history_length ; mmax = self.max_history_length
           for i in range(m): result.append(self.s[(self.k-m+i) % mmax])
           for i in range(m): result.append(self.y[(self.k-m+i) % mmax])
      (k - m >= 0 always, so truncated subtraction on nat is faithful)  *)
  Definition ring_readout (mmax : nat) (st : store) : list (option X) :=
    let m := history_length mmax st in
    map (fun i => st_buf st ((st_k st - m + i) mod mmax)) (seq 0 m).

  (*  b_dot_b:  k1 = (k-1) % mmax  -- the slot that the code treats as "the newest pair"  *)
  Definition ring_newest (mmax : nat) (st : store) : option X :=
    st_buf st ((st_k st - 1) mod mmax).

  Definition ring_pushes (mmax : nat) (l : list X) : store := fold_left (ring_add mmax) l ring_init.
End Ring.

(* correspondence: push the payload pairs, read out, compare with the implementation's read-out *)
Definition zz_eqb (a b : Z * Z) : bool := andb (Z.eqb (fst a) (fst b)) (Z.eqb (snd a) (snd b)).
Fixpoint opt_list_same (a : list (option (Z * Z))) (b : list (Z * Z)) : bool :=
  match a, b with
  | [], [] => true
  | Some x :: a', y :: b' => andb (zz_eqb x y) (opt_list_same a' b')
  | _, _ => false
  end.
Definition ring_case (mmax : nat) (pushed want : list (Z * Z)) (want_m : nat) : bool :=
  let st := ring_pushes (Z * Z) mmax pushed in
  andb (Nat.eqb (history_length _ mmax st) want_m)
       (andb (opt_list_same (ring_readout _ mmax st) want)
             (match want_m, ring_newest _ mmax st with
              | O, _ => true
              | _, Some x => zz_eqb x (last want (0%Z, 0%Z))
              | _, None => false
              end)).
