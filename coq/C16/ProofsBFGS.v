(* C16 -- the two L-BFGS variants compute the same direction from the same window of pairs.
   F: any commutative ring (ring_theory) with an UNINTERPRETED division: the proof never needs a law
   about division, because both algorithms divide equal numerators by equal denominators.
   Vectors: index functions, equality pointwise. *)
From Coq Require Import List Bool Arith Lia Ring Ring_theory.
Require Import NV.C16.Model.

Section BFGSProofs.
  Variable F : Type.
  Variables (f0 f1 : F) (fadd fmul fsub fdiv : F -> F -> F) (fopp : F -> F).
  Hypothesis Fring : ring_theory f0 f1 fadd fmul fsub fopp (@eq F).
  Add Ring FRing : Fring.
  Variable dim : nat.

  Notation "x + y" := (fadd x y).
  Notation "x * y" := (fmul x y).
  Notation "x - y" := (fsub x y).
  Notation sum := (sum_upto f0 fadd).
  Notation dotv := (dot f0 fadd fmul dim).

  Lemma sum_ext : forall n t t', (forall l, (l < n)%nat -> t l = t' l) -> sum n t = sum n t'.
  Proof.
    induction n; intros t t' H; simpl; [reflexivity|].
    rewrite (IHn t t'), H; auto.
  Qed.

  Lemma sum_zero : forall n t, (forall l, (l < n)%nat -> t l = f0) -> sum n t = f0.
  Proof.
    induction n; intros t H; simpl; [reflexivity|].
    rewrite IHn, H; auto. ring.
  Qed.

  Lemma sum_add : forall n t t', sum n (fun l => t l + t' l) = sum n t + sum n t'.
  Proof. induction n; intros; simpl; [ring|]. rewrite IHn. ring. Qed.

  Lemma sum_scale_r : forall n t a, sum n (fun l => t l * a) = sum n t * a.
  Proof. induction n; intros; simpl; [ring|]. rewrite IHn. ring. Qed.

  Lemma sum_scale_l : forall n t a, sum n (fun l => a * t l) = a * sum n t.
  Proof. induction n; intros; simpl; [ring|]. rewrite IHn. ring. Qed.

  Lemma sum_swap : forall n d (a : nat -> nat -> F),
      sum n (fun l => sum d (fun i => a l i)) = sum d (fun i => sum n (fun l => a l i)).
  Proof.
    induction n; intros; simpl.
    - symmetry. apply sum_zero. reflexivity.
    - rewrite IHn. rewrite <- sum_add. reflexivity.
  Qed.

  Lemma sum_upd : forall n (d : nat -> F) k f w, (k < n)%nat ->
      sum n (fun l => upd d k f l * w l) = sum n (fun l => d l * w l) + (f (d k) - d k) * w k.
  Proof.
    induction n; intros d k f w Hk; [lia|]. simpl.
    destruct (Nat.eq_dec k n) as [->|Hne].
    - rewrite (sum_ext n (fun l => upd d n f l * w l) (fun l => d l * w l)).
      + unfold upd at 1. rewrite Nat.eqb_refl. ring.
      + intros l Hl. unfold upd. destruct (Nat.eqb_spec l n); [lia|reflexivity].
    - rewrite IHn by lia. unfold upd at 1. destruct (Nat.eqb_spec n k); [lia|]. ring.
  Qed.

  Lemma dot_ext : forall u p q, (forall i, p i = q i) -> dotv u p = dotv u q.
  Proof. intros. unfold dot. apply sum_ext. intros. rewrite H. reflexivity. Qed.

  Lemma dot_sym : forall u v, dotv u v = dotv v u.
  Proof. intros. unfold dot. apply sum_ext. intros. ring. Qed.

  Variable m : nat.
  Variables s y : nat -> nat -> F.
  Variable g : nat -> F.
  Variable gnorm : F.
  Hypothesis m_pos : (1 <= m)%nat.

  Notation N := (2 * m + 1)%nat.
  Notation bv := (bvec m s y g).
  Notation BB := (B f0 fadd fmul dim m s y g gnorm).

  (* linear combination of the basis b with coefficients d *)
  Definition lc (n : nat) (d : nat -> F) : nat -> F := fun i => sum n (fun l => d l * bv l i).

  Lemma dot_lc : forall u n d, dotv u (lc n d) = sum n (fun l => d l * dotv u (bv l)).
  Proof.
    intros. unfold dot, lc.
    rewrite (sum_ext dim _ (fun i => sum n (fun l => u i * (d l * bv l i)))).
    2:{ intros. rewrite sum_scale_l. reflexivity. }
    rewrite <- sum_swap. apply sum_ext. intros l Hl.
    rewrite <- sum_scale_l. apply sum_ext. intros. ring.
  Qed.

  Lemma bv_s : forall j, (j < m)%nat -> bv j = s j.
  Proof. intros. unfold bvec. destruct (Nat.ltb_spec j m); [reflexivity|lia]. Qed.

  Lemma bv_y : forall j, (j < m)%nat -> bv (m + j) = y j.
  Proof.
    intros. unfold bvec. destruct (Nat.ltb_spec (m + j) m); [lia|].
    destruct (Nat.ltb_spec (m + j) (2 * m)); [|lia]. f_equal. lia.
  Qed.

  Lemma bv_g : bv (2 * m) = g.
  Proof.
    unfold bvec. destruct (Nat.ltb_spec (2 * m) m); [lia|].
    destruct (Nat.ltb_spec (2 * m) (2 * m)); [lia|reflexivity].
  Qed.

  (* every entry of b_dot_b except [2m,2m] is the inner product of the two basis vectors *)
  Lemma B_spec : forall i j, (i <= 2 * m)%nat -> (j <= 2 * m)%nat -> ~ (i = 2 * m /\ j = 2 * m)%nat ->
      BB i j = dotv (bv i) (bv j).
  Proof.
    intros i j Hi Hj Hne. unfold B, bvec.
    destruct (Nat.ltb_spec i m); destruct (Nat.ltb_spec j m);
      destruct (Nat.ltb_spec i (2 * m)); destruct (Nat.ltb_spec j (2 * m));
      try lia; try reflexivity; apply dot_sym.
  Qed.

  Lemma B_sy : forall j, (j < m)%nat -> BB j (m + j) = dotv (s j) (y j).
  Proof.
    intros. rewrite B_spec by lia. rewrite bv_s, bv_y by lia. reflexivity.
  Qed.

  Lemma lc_upd : forall d k f i, (k < N)%nat ->
      lc N (upd d k f) i = lc N d i + (f (d k) - d k) * bv k i.
  Proof. intros. unfold lc. apply (sum_upd N d k f (fun l => bv l i)). assumption. Qed.

  Notation Lloop1 := (L_loop1 f0 fadd fmul fsub fdiv dim s y).
  Notation Vloop1 := (V_loop1 f0 fadd fmul fsub fdiv m BB).
  Notation Lloop2 := (L_loop2 f0 fadd fmul fsub fdiv dim m s y).
  Notation Vloop2 := (V_loop2 f0 fadd fmul fsub fdiv m BB).

  Lemma loop1_sim : forall c, (c <= m)%nat -> forall p d alL alV,
      (forall i, p i = lc N d i) -> (forall j, alL j = alV j) ->
      (forall i, fst (Lloop1 c p alL) i = lc N (fst (Vloop1 c d alV)) i) /\
      (forall j, snd (Lloop1 c p alL) j = snd (Vloop1 c d alV) j).
  Proof.
    induction c as [|j IH]; intros Hc p d alL alV Hp Hal; [simpl; auto|].
    cbn [L_loop1 V_loop1].
    assert (Ha : fdiv (dotv (s j) p) (dotv (s j) (y j)) =
                 fdiv (sum N (fun l => d l * BB l j)) (BB j (m + j))).
    { f_equal.
      - rewrite (dot_ext (s j) p (lc N d)) by assumption. rewrite dot_lc.
        apply sum_ext. intros l Hl. f_equal.
        rewrite B_spec by lia. rewrite (bv_s j) by lia. apply dot_sym.
      - symmetry. apply B_sy. lia. }
    rewrite Ha. apply IH; [lia| |].
    - intros i. rewrite lc_upd by lia. rewrite bv_y by lia.
      unfold vsub, smul. rewrite Hp. ring.
    - intros j'. unfold upd. destruct (Nat.eqb j' j); auto.
  Qed.

  Lemma loop2_sim : forall r, (r <= m)%nat -> forall p d alL alV,
      (forall i, p i = lc N d i) -> (forall j, alL j = alV j) ->
      forall i, Lloop2 r alL p i = lc N (Vloop2 r alV d) i.
  Proof.
    induction r as [|r IH]; intros Hr p d alL alV Hp Hal; [simpl; auto|].
    cbn [L_loop2 V_loop2].
    set (j := (m - S r)%nat). assert (Hj : (j < m)%nat) by (unfold j; lia).
    assert (Hb : fdiv (dotv (y j) p) (dotv (s j) (y j)) =
                 fdiv (sum N (fun l => d l * BB (m + j) l)) (BB j (m + j))).
    { f_equal.
      - rewrite (dot_ext (y j) p (lc N d)) by assumption. rewrite dot_lc.
        apply sum_ext. intros l Hl. f_equal.
        rewrite B_spec by lia. rewrite (bv_y j) by lia. reflexivity.
      - symmetry. apply B_sy. lia. }
    rewrite Hb, Hal. apply IH; [lia| |assumption].
    intros i. rewrite lc_upd by lia. rewrite bv_s by lia.
    unfold vadd, smul. rewrite Hp. ring.
  Qed.

  Lemma lincomb_from_lc : forall d n i, lincomb_from fadd fmul m s y g d n i = lc (S n) d i.
  Proof.
    induction n; intros i.
    - unfold lc. simpl. unfold smul. ring.
    - cbn [lincomb_from]. unfold vadd, smul. rewrite IHn. unfold lc. simpl. ring.
  Qed.

  Lemma lbfgs_direction_pos :
      lbfgs_direction f0 fadd fmul fsub fdiv fopp dim m s y g =
      (let '(p, al) := Lloop1 m (vneg fopp g) (fun _ => f0) in
       Lloop2 m al (vscale fmul p (fdiv (dotv (s (m - 1)) (y (m - 1)))
                                        (dotv (y (m - 1)) (y (m - 1)))))).
  Proof. unfold lbfgs_direction. destruct m; [lia|reflexivity]. Qed.

  Theorem lbfgs_equiv : forall i,
      vl_direction f0 f1 fadd fmul fsub fdiv fopp dim m s y g gnorm i =
      lbfgs_direction f0 fadd fmul fsub fdiv fopp dim m s y g i.
  Proof.
    intros i. rewrite lbfgs_direction_pos. unfold vl_direction, vl_delta, vl_delta_of.
    set (d0 := fun l : nat => if Nat.eqb l (2 * m) then fopp f1 else f0).
    set (p0 := vneg fopp g).
    assert (H0 : forall i, p0 i = lc N d0 i).
    { intros k. unfold lc. rewrite Nat.add_1_r. cbn [sum_upto].
      rewrite sum_zero.
      - unfold d0. rewrite Nat.eqb_refl. rewrite bv_g. unfold p0, vneg. ring.
      - intros l Hl. unfold d0. destruct (Nat.eqb_spec l (2 * m)); [lia|]. ring. }
    destruct (loop1_sim m (le_n m) p0 d0 (fun _ => f0) (fun _ => f0) H0 (fun _ => eq_refl))
      as [H1 H1a].
    destruct (Lloop1 m p0 (fun _ => f0)) as [p1 alL].
    destruct (Vloop1 m d0 (fun _ => f0)) as [d1 alV].
    simpl fst in *. simpl snd in *.
    rewrite lincomb_from_lc. replace (S (2 * m)) with N by lia.
    symmetry. apply loop2_sim; [lia| |assumption].
    intros k. unfold vscale, lc.
    rewrite (sum_ext N _ (fun l => (d1 l * bv l k) *
              fdiv (BB (m - 1) (2 * m - 1)) (BB (2 * m - 1) (2 * m - 1)))).
    2:{ intros. ring. }
    rewrite sum_scale_r. fold (lc N d1 k). rewrite <- H1. f_equal. f_equal.
    - replace (2 * m - 1)%nat with (m + (m - 1))%nat by lia. symmetry. apply B_sy. lia.
    - rewrite B_spec by lia. replace (2 * m - 1)%nat with (m + (m - 1))%nat by lia.
      rewrite bv_y by lia. reflexivity.
  Qed.
End BFGSProofs.

(* m = 0 (first call after a reset): L_BFGS returns -g; VL_BFGS returns (-1 * (|g|/|g|)) * g, which is
   the same as soon as x/x = 1 for the gradient norm. *)
Section BFGS0.
  Variable F : Type.
  Variables (f0 f1 : F) (fadd fmul fsub fdiv : F -> F -> F) (fopp : F -> F).
  Hypothesis Fring : ring_theory f0 f1 fadd fmul fsub fopp (@eq F).
  Add Ring FRing0 : Fring.
  Variable dim : nat.
  Variables s y : nat -> nat -> F.
  Variable g : nat -> F.
  Variable gnorm : F.
  Hypothesis div_self : fdiv gnorm gnorm = f1.

  Theorem lbfgs_equiv0 : forall i,
      vl_direction f0 f1 fadd fmul fsub fdiv fopp dim 0 s y g gnorm i =
      lbfgs_direction f0 fadd fmul fsub fdiv fopp dim 0 s y g i.
  Proof.
    intros i. unfold vl_direction, vl_delta, vl_delta_of, lbfgs_direction. simpl.
    unfold smul, vneg, bvec, B. simpl. rewrite div_self. ring.
  Qed.
End BFGS0.
