(* Shared by the "real analysis via translator" group (C30, C11, C12): the few non-arithmetic
   constructs that tr/realexpr.py emits.  Definitions and their basic case lemmas only. *)
From Coq Require Import Reals Lra.
Open Scope R_scope.

(* Python `(a < b)` used as a number (NumPy/JAX booleans promote to 0/1). *)
Definition ind_lt (a b : R) : R := if Rlt_dec a b then 1 else 0.
Definition ind_gt (a b : R) : R := if Rlt_dec b a then 1 else 0.
Definition ind_le (a b : R) : R := if Rle_dec a b then 1 else 0.
Definition ind_ge (a b : R) : R := if Rle_dec b a then 1 else 0.

(* `np.where(a op b, x, y)` *)
Definition where_lt (a b x y : R) : R := if Rlt_dec a b then x else y.
Definition where_gt (a b x y : R) : R := if Rlt_dec b a then x else y.
Definition where_le (a b x y : R) : R := if Rle_dec a b then x else y.
Definition where_ge (a b x y : R) : R := if Rle_dec b a then x else y.

Lemma ind_lt_true a b : a < b -> ind_lt a b = 1.
Proof. intros; unfold ind_lt; destruct (Rlt_dec a b); lra. Qed.
Lemma ind_lt_false a b : ~ a < b -> ind_lt a b = 0.
Proof. intros; unfold ind_lt; destruct (Rlt_dec a b); tauto. Qed.
Lemma ind_gt_true a b : b < a -> ind_gt a b = 1.
Proof. intros; unfold ind_gt; destruct (Rlt_dec b a); lra. Qed.
Lemma ind_gt_false a b : ~ b < a -> ind_gt a b = 0.
Proof. intros; unfold ind_gt; destruct (Rlt_dec b a); tauto. Qed.
Lemma where_gt_true a b x y : b < a -> where_gt a b x y = x.
Proof. intros; unfold where_gt; destruct (Rlt_dec b a); tauto. Qed.
Lemma where_gt_false a b x y : ~ b < a -> where_gt a b x y = y.
Proof. intros; unfold where_gt; destruct (Rlt_dec b a); tauto. Qed.
Lemma where_lt_true a b x y : a < b -> where_lt a b x y = x.
Proof. intros; unfold where_lt; destruct (Rlt_dec a b); tauto. Qed.
Lemma where_lt_false a b x y : ~ a < b -> where_lt a b x y = y.
Proof. intros; unfold where_lt; destruct (Rlt_dec a b); tauto. Qed.
