(* Composition rules of likelihoods as statements about arbitrary spaces and maps (shared by C11/C12).

   A likelihood at a point is a triple (M, L, R): metric M : V -> V, left square root L : W -> V,
   right square root R : V -> W, on a domain V and a Euclidean (white-noise) space W, each with a
   bilinear pairing <.,.> into a scalar type K.  [factored] says what the property demands:
       M = L o R        and        R = L^dagger   (<L w, v>_V = <w, R v>_W).
   The combinators below are written as the code applies them (source lines quoted); every theorem
   holds for ALL types V, W, X, ..., all maps and all pairings satisfying the stated hypotheses --
   no finite dimension, no linearity beyond what is listed. *)

Section Combinators.
Variable K : Type.
Variable kadd kmul : K -> K -> K.

Definition factored {V W : Type} (ipV : V -> V -> K) (ipW : W -> W -> K)
           (M : V -> V) (L : W -> V) (R : V -> W) : Prop :=
  (forall v, M v = L (R v)) /\ (forall w v, ipV (L w) v = ipW w (R v)).

(* --- amend a forward model (nifty/re/likelihood.py LikelihoodWithModel) ---------------------------
     metric:            bwd(self.likelihood.metric(y, fwd(tangents)))
     left_sqrt_metric:  bwd(self.likelihood.left_sqrt_metric(y, tangents))
     right_sqrt_metric: self.likelihood.right_sqrt_metric(y, fwd(tangents))
   fwd = Jacobian J : X -> V of the forward model at the point, bwd = conj o transpose = J^dagger.
   Classic: _LikelihoodChain / get_metric_at: SandwichOperator(bun = jac). *)
Section Amend.
Variables V W X : Type.
Variable ipV : V -> V -> K. Variable ipW : W -> W -> K. Variable ipX : X -> X -> K.
Variables (M : V -> V) (L : W -> V) (R : V -> W).
Variables (J : X -> V) (Jt : V -> X).
Hypothesis J_adjoint : forall v x, ipX (Jt v) x = ipV v (J x).

Definition amend_M (x : X) : X := Jt (M (J x)).
Definition amend_L (w : W) : X := Jt (L w).
Definition amend_R (x : X) : W := R (J x).

Lemma amend_factored : factored ipV ipW M L R -> factored ipX ipW amend_M amend_L amend_R.
Proof.
  intros [HM HA]. split; unfold amend_M, amend_L, amend_R.
  - intros x. rewrite HM. reflexivity.
  - intros w x. rewrite J_adjoint. apply HA.
Qed.

(* the amended metric is the pull-back J^dagger M J as a bilinear form *)
Lemma amend_metric_form x y : ipX (amend_M x) y = ipV (M (J x)) (J y).
Proof. unfold amend_M. apply J_adjoint. Qed.

Lemma amend_rules : factored ipV ipW M L R ->
  factored ipX ipW amend_M amend_L amend_R /\ (forall x y, ipX (amend_M x) y = ipV (M (J x)) (J y)).
Proof. intros H. split. apply amend_factored; auto. apply amend_metric_form. Qed.
End Amend.

(* --- freezing point estimates (LikelihoodPartial): insert zero tangents for the frozen inputs,
   remove the frozen outputs.  ins : V1 -> V (liquid part, zeros elsewhere), rem : V -> V1
   (drop the frozen part); <rem v, x>_1 = <v, ins x>.  This is amend with J = ins, J^dagger = rem:
   the frozen metric is the principal sub-block rem o M o ins, the frozen L consists of the liquid
   rows rem o L. *)
Definition freeze_factored := amend_factored.

(* --- sum of likelihoods on one domain (LikelihoodSum; classic _LikelihoodSum) ---------------------
     metric:            reduce(add, (lh.metric(primals, tangents) ...))
     left_sqrt_metric:  reduce(add, (lh.left_sqrt_metric(primals, tangents[key]) ...))
     right_sqrt_metric: {key: lh.right_sqrt_metric(primals, tangents)} *)
Section Sum.
Variables V W1 W2 : Type.
Variable vadd : V -> V -> V.
Variable ipV : V -> V -> K. Variable ipW1 : W1 -> W1 -> K. Variable ipW2 : W2 -> W2 -> K.
Hypothesis ipV_add_l : forall a b v, ipV (vadd a b) v = kadd (ipV a v) (ipV b v).
Variables (M1 : V -> V) (L1 : W1 -> V) (R1 : V -> W1).
Variables (M2 : V -> V) (L2 : W2 -> V) (R2 : V -> W2).

Definition ipW12 (a b : W1 * W2) : K := kadd (ipW1 (fst a) (fst b)) (ipW2 (snd a) (snd b)).
Definition sum_M (v : V) : V := vadd (M1 v) (M2 v).
Definition sum_L (w : W1 * W2) : V := vadd (L1 (fst w)) (L2 (snd w)).
Definition sum_R (v : V) : W1 * W2 := (R1 v, R2 v).

Lemma sum_factored :
  factored ipV ipW1 M1 L1 R1 -> factored ipV ipW2 M2 L2 R2 -> factored ipV ipW12 sum_M sum_L sum_R.
Proof.
  intros [HM1 HA1] [HM2 HA2]. split; unfold sum_M, sum_L, sum_R, ipW12.
  - intros v. simpl. rewrite HM1, HM2. reflexivity.
  - intros [w1 w2] v. simpl. rewrite ipV_add_l, HA1, HA2. reflexivity.
Qed.

(* the summed metric as a bilinear form is the sum of the forms (block-diagonal in W) *)
Lemma sum_metric_form v u : ipV (sum_M v) u = kadd (ipV (M1 v) u) (ipV (M2 v) u).
Proof. unfold sum_M. apply ipV_add_l. Qed.
End Sum.

(* --- StandardHamiltonian: likelihood + white prior 0.5 x^dagger x: metric M + 1.
   The prior is the likelihood (id, id, id) on W2 = V; apply [sum_factored]. *)
Section Hamiltonian.
Variables V W : Type.
Variable vadd : V -> V -> V.
Variable ipV : V -> V -> K. Variable ipW : W -> W -> K.
Hypothesis ipV_add_l : forall a b v, ipV (vadd a b) v = kadd (ipV a v) (ipV b v).
Variables (M : V -> V) (L : W -> V) (R : V -> W).

Lemma prior_factored : factored ipV ipV (fun v : V => v) (fun v : V => v) (fun v : V => v).
Proof. split; reflexivity. Qed.

Lemma hamiltonian_factored :
  factored ipV ipW M L R ->
  factored ipV (ipW12 W V ipW ipV) (fun v => vadd (M v) v) (fun w : W * V => vadd (L (fst w)) (snd w)) (fun v => (R v, v)).
Proof.
  intros H. exact (sum_factored V W V vadd ipV ipW ipV ipV_add_l M L R (fun v => v) (fun v => v) (fun v => v) H prior_factored).
Qed.
End Hamiltonian.

(* --- scaling a likelihood by f = s*s (classic _LikelihoodChain with a ScalingOperator):
     get_transformation: trafo.scale(np.sqrt(self._op._ops[0]._factor))
   transformation scaled by s = sqrt f  =>  L, R scaled by s, metric scaled by f. *)
Section Scale.
Variables V W : Type.
Variable ipV : V -> V -> K. Variable ipW : W -> W -> K.
Variable vscal : K -> V -> V. Variable wscal : K -> W -> W.
Hypothesis ipV_scal_l : forall s a v, ipV (vscal s a) v = kmul s (ipV a v).
Hypothesis ipW_scal_r : forall s w b, ipW w (wscal s b) = kmul s (ipW w b).
Hypothesis vscal_assoc : forall s t a, vscal s (vscal t a) = vscal (kmul s t) a.
Variables (M : V -> V) (L : W -> V) (R : V -> W).
Hypothesis L_linear : forall s b, L (wscal s b) = vscal s (L b).

Lemma scale_factored s :
  factored ipV ipW M L R ->
  factored ipV ipW (fun v => vscal (kmul s s) (M v)) (fun w => vscal s (L w)) (fun v => wscal s (R v)).
Proof.
  intros [HM HA]. split.
  - intros v. rewrite L_linear, vscal_assoc, HM. reflexivity.
  - intros w v. rewrite ipV_scal_l, ipW_scal_r, HA. reflexivity.
Qed.
End Scale.

End Combinators.
