(* Generic theory of rank-local programs that are projections of one global event list.

   Each rank r executes, in order, the events of a global list G in which it participates
   (its "program" is [filter (involves r) G]).  An event fires atomically when it is the next
   action of every one of its participants: a local operation has one participant, a rendezvous
   (synchronous send / matching receive) two, a collective all of them.  Events whose participant
   sets are disjoint are assumed to commute on the (merged) state.

   Proved here for EVERY such G, every state type and every interleaving:
     - the state after any execution is the G-ordered run of the events fired so far,
       hence every terminating execution ends in [run G s0] (schedule independence);
     - every reachable configuration in which some rank still has work can step (no deadlock).

   No permutation reasoning: configurations are related to "G with fired flags" and the invariant
   says that a fired event never conflicts with an earlier unfired one. *)
From Coq Require Import List Arith Lia Bool.
Import ListNotations.

Section Trace.
Variables (St E : Type).
Variable fire : St -> E -> St.
Variable parts : E -> list nat.

Definition involves (r : nat) (e : E) : bool := existsb (Nat.eqb r) (parts e).
Definition conflict (a b : E) : bool := existsb (fun r => involves r b) (parts a).

Hypothesis commute : forall s a b, conflict a b = false -> fire (fire s a) b = fire (fire s b) a.

Definition run (l : list E) (s : St) := fold_left fire l s.
Lemma run_app l1 l2 s : run (l1 ++ l2) s = run l2 (run l1 s).
Proof. apply fold_left_app. Qed.

(* ---- G with "fired" flags ---- *)
Definition cfg := list (E * bool).
Definition firedpart (c : cfg) : list E := map fst (filter snd c).
Definition unfired (c : cfg) : list E := map fst (filter (fun x => negb (snd x)) c).

Fixpoint inv (c : cfg) : Prop :=
  match c with
  | [] => True
  | (e, b) :: c' => (b = false -> forall a, In (a, true) c' -> conflict e a = false) /\ inv c'
  end.

Definition earlier_conflicts_fired (c1 : cfg) (e : E) :=
  forall a b, In (a, b) c1 -> conflict a e = true -> b = true.

Lemma bubble_back e l s :
  (forall a, In a l -> conflict e a = false) -> run l (fire s e) = fire (run l s) e.
Proof.
  revert s; induction l as [|a l IH]; intros s H; [reflexivity|]. simpl.
  rewrite <- IH by (intros; apply H; right; assumption).
  f_equal. apply commute. apply H; left; reflexivity.
Qed.

Lemma firedpart_app c1 c2 : firedpart (c1 ++ c2) = firedpart c1 ++ firedpart c2.
Proof. unfold firedpart. rewrite filter_app, map_app. reflexivity. Qed.

Lemma unfired_app c1 c2 : unfired (c1 ++ c2) = unfired c1 ++ unfired c2.
Proof. unfold unfired. rewrite filter_app, map_app. reflexivity. Qed.

Lemma in_firedpart a c : In a (firedpart c) -> In (a, true) c.
Proof.
  unfold firedpart; intros H. apply in_map_iff in H as [[x b] [Hx Hf]]. simpl in Hx; subst.
  apply filter_In in Hf as [Hin Hb]. simpl in Hb; subst; assumption.
Qed.

Lemma in_unfired a c : In a (unfired c) <-> In (a, false) c.
Proof.
  unfold unfired; split.
  - intros H. apply in_map_iff in H as [[x b] [Hx Hf]]. simpl in Hx; subst.
    apply filter_In in Hf as [Hin Hb]. simpl in Hb. destruct b; [discriminate|assumption].
  - intros H. apply in_map_iff. exists (a, false). split; [reflexivity|].
    apply filter_In. split; [assumption|reflexivity].
Qed.

Lemma inv_split c1 e c2 :
  inv (c1 ++ (e, false) :: c2) -> forall a, In (a, true) c2 -> conflict e a = false.
Proof.
  induction c1 as [|[x b] c1 IH]; simpl; intros [H1 H2]; [exact (H1 eq_refl)|exact (IH H2)].
Qed.

Lemma inv_fire c1 e c2 :
  earlier_conflicts_fired c1 e -> inv (c1 ++ (e, false) :: c2) -> inv (c1 ++ (e, true) :: c2).
Proof.
  induction c1 as [|[x b] c1 IH]; simpl; intros En [H1 H2].
  - split; [discriminate|exact H2].
  - split.
    + intros Hb a Ha. subst b. apply in_app_or in Ha as [Ha|[Ha|Ha]].
      * apply H1; [reflexivity|]. apply in_or_app; left; exact Ha.
      * inversion Ha; subst a. destruct (conflict x e) eqn:C; [|reflexivity].
        specialize (En x false (or_introl eq_refl) C). discriminate.
      * apply H1; [reflexivity|]. apply in_or_app; right; right; exact Ha.
    + apply IH; [|exact H2]. intros a b' Hin. apply En. right; exact Hin.
Qed.

Lemma step_state c1 e c2 s0 :
  inv (c1 ++ (e, false) :: c2) ->
  run (firedpart (c1 ++ (e, true) :: c2)) s0 = fire (run (firedpart (c1 ++ (e, false) :: c2)) s0) e.
Proof.
  intros I. rewrite !firedpart_app.
  assert (E1 : firedpart ((e, true) :: c2) = e :: firedpart c2) by reflexivity.
  assert (E2 : firedpart ((e, false) :: c2) = firedpart c2) by reflexivity.
  rewrite E1, E2, !run_app. simpl. rewrite bubble_back; [reflexivity|].
  intros a Ha. apply (inv_split c1 e c2 I). apply in_firedpart; assumption.
Qed.

Definition mk0 (l : list E) : cfg := map (fun e => (e, false)) l.
Lemma mk0_fst l : map fst (mk0 l) = l.
Proof. unfold mk0. rewrite map_map. simpl. apply map_id. Qed.
Lemma mk0_unfired l : unfired (mk0 l) = l.
Proof. unfold unfired, mk0. induction l as [|e l IH]; [reflexivity|]. simpl. f_equal. exact IH. Qed.
Lemma mk0_fired l : firedpart (mk0 l) = [].
Proof. unfold firedpart, mk0. induction l as [|e l IH]; [reflexivity|]. simpl. exact IH. Qed.
Lemma mk0_inv l : inv (mk0 l).
Proof.
  unfold mk0. induction l as [|e l IH]; simpl; [exact I|]. split; [|exact IH].
  intros _ a Ha. apply in_map_iff in Ha as [x [Hx _]]. discriminate.
Qed.

(* ---- the rank-local machine ---- *)
Variable G : list E.
Variable s0 : St.
Hypothesis G_nodup : NoDup G.
Hypothesis G_parts : forall e, In e G -> parts e <> [].

Record pcfg := { rems : nat -> list E; st : St }.

Definition prog (r : nat) : list E := filter (involves r) G.
Definition pinit : pcfg := {| rems := prog; st := s0 |}.

Inductive pstep : pcfg -> pcfg -> Prop :=
| PStep p e rems' :
    parts e <> [] ->
    (forall r, involves r e = true -> hd_error (rems p r) = Some e) ->
    (forall r, rems' r = if involves r e then tl (rems p r) else rems p r) ->
    pstep p {| rems := rems'; st := fire (st p) e |}.

Inductive psteps : pcfg -> pcfg -> Prop :=
| PRefl p : psteps p p
| PTrans p q r : psteps p q -> pstep q r -> psteps p r.

Definition Rel (c : cfg) (p : pcfg) : Prop :=
  map fst c = G /\ inv c /\ (forall r, rems p r = filter (involves r) (unfired c)) /\
  st p = run (firedpart c) s0.

Definition c0 : cfg := mk0 G.

Lemma c0_fst : map fst c0 = G.
Proof. apply mk0_fst. Qed.
Lemma c0_unfired : unfired c0 = G.
Proof. apply mk0_unfired. Qed.
Lemma c0_fired : firedpart c0 = [].
Proof. apply mk0_fired. Qed.
Lemma c0_inv : inv c0.
Proof. apply mk0_inv. Qed.

Lemma rel_init : Rel c0 pinit.
Proof.
  split; [apply c0_fst|]. split; [apply c0_inv|]. split.
  - intros r. simpl. rewrite c0_unfired. reflexivity.
  - simpl. rewrite c0_fired. reflexivity.
Qed.

Lemma involves_in r e : involves r e = true <-> In r (parts e).
Proof.
  unfold involves. rewrite existsb_exists. split.
  - intros [x [Hx Hr]]. apply Nat.eqb_eq in Hr. subst; assumption.
  - intros H. exists r. split; [assumption|apply Nat.eqb_refl].
Qed.

Lemma conflict_true a b : conflict a b = true <-> exists r, In r (parts a) /\ In r (parts b).
Proof.
  unfold conflict. rewrite existsb_exists. split.
  - intros [r [Hr Hi]]. exists r. split; [assumption|]. apply involves_in; assumption.
  - intros [r [Ha Hb]]. exists r. split; [assumption|]. apply involves_in; assumption.
Qed.

Lemma hd_filter_nil (f : E -> bool) (l1 l2 : list E) (e : E) :
  ~ In e l1 -> hd_error (filter f (l1 ++ e :: l2)) = Some e -> filter f l1 = [].
Proof.
  intros Hn H. rewrite filter_app in H. destruct (filter f l1) as [|x t] eqn:F; [reflexivity|].
  simpl in H. inversion H; subst x. exfalso. apply Hn.
  assert (In e (filter f l1)) as Hin by (rewrite F; left; reflexivity).
  apply filter_In in Hin. tauto.
Qed.

Lemma rel_step c p q : Rel c p -> pstep p q -> exists c', Rel c' q.
Proof.
  intros [Hg [Hi [Hr Hs]]] Hstep. destruct Hstep as [p e rems' Hne Hhd Hrems].
  (* e is unfired in c *)
  destruct (parts e) as [|r0 rest] eqn:Pe; [contradiction|].
  assert (Hinv0 : involves r0 e = true) by (apply involves_in; rewrite Pe; left; reflexivity).
  pose proof (Hhd r0 Hinv0) as Hh0. rewrite Hr in Hh0.
  assert (Hin : In e (unfired c)).
  { destruct (filter (involves r0) (unfired c)) as [|x t] eqn:F; [discriminate|].
    simpl in Hh0. inversion Hh0; subst x.
    assert (In e (filter (involves r0) (unfired c))) as H by (rewrite F; left; reflexivity).
    apply filter_In in H. tauto. }
  apply in_unfired in Hin. apply in_split in Hin as [c1 [c2 Hc]]. subst c.
  assert (Hnd : NoDup (map fst (c1 ++ (e, false) :: c2))) by (rewrite Hg; exact G_nodup).
  rewrite map_app in Hnd. simpl in Hnd. apply NoDup_remove_2 in Hnd.
  assert (Hn1 : ~ In e (unfired c1)).
  { intros H. apply in_unfired in H. apply Hnd. apply in_or_app; left.
    apply in_map_iff. exists (e, false). split; [reflexivity|assumption]. }
  assert (Hn2 : ~ In e (unfired c2)).
  { intros H. apply in_unfired in H. apply Hnd. apply in_or_app; right.
    apply in_map_iff. exists (e, false). split; [reflexivity|assumption]. }
  (* no unfired event before e involves a participant of e *)
  assert (Hnil : forall r, involves r e = true -> filter (involves r) (unfired c1) = []).
  { intros r Hre. pose proof (Hhd r Hre) as H. rewrite Hr in H.
    rewrite unfired_app in H. change (unfired ((e, false) :: c2)) with (e :: unfired c2) in H.
    eapply hd_filter_nil; eassumption. }
  assert (En : earlier_conflicts_fired c1 e).
  { intros a b Hab C. destruct b; [reflexivity|]. exfalso.
    apply conflict_true in C as [r [Ra Re]].
    assert (In a (filter (involves r) (unfired c1))) as H.
    { apply filter_In. split; [apply in_unfired; assumption|apply involves_in; assumption]. }
    rewrite Hnil in H by (apply involves_in; assumption). exact H. }
  exists (c1 ++ (e, true) :: c2). split; [|split; [|split]].
  - rewrite <- Hg. rewrite !map_app. reflexivity.
  - apply inv_fire; assumption.
  - intros r. simpl. rewrite Hrems, Hr. rewrite !unfired_app.
    change (unfired ((e, false) :: c2)) with (e :: unfired c2).
    change (unfired ((e, true) :: c2)) with (unfired c2).
    rewrite !filter_app. simpl. destruct (involves r e) eqn:Ire.
    + rewrite Hnil by assumption. reflexivity.
    + reflexivity.
  - simpl. rewrite Hs. symmetry. apply step_state. assumption.
Qed.

Lemma rel_steps p : psteps pinit p -> exists c, Rel c p.
Proof.
  intros H. remember pinit as p0 eqn:E0. induction H as [p|p q r H1 IH H2].
  - subst. exists c0. apply rel_init.
  - destruct (IH E0) as [c Hc]. eapply rel_step; eassumption.
Qed.

Lemma unfired_nil_fired c : unfired c = [] -> firedpart c = map fst c.
Proof.
  induction c as [|[e b] c IH]; [reflexivity|]. unfold unfired, firedpart in *. simpl.
  destruct b; simpl; intros H; [f_equal; apply IH; exact H|discriminate].
Qed.

(* Schedule independence: every execution that terminates (all rank programs consumed) ends in
   the state of the canonical G-ordered run. *)
Theorem trace_final_state p :
  psteps pinit p -> (forall r, rems p r = []) -> st p = run G s0.
Proof.
  intros H Hfin. destruct (rel_steps p H) as [c [Hg [Hi [Hr Hs]]]].
  assert (unfired c = []) as Hu.
  { destruct (unfired c) as [|e t] eqn:U; [reflexivity|]. exfalso.
    assert (In e G) as HeG.
    { rewrite <- Hg. apply in_map_iff. exists (e, false). split; [reflexivity|].
      apply in_unfired. rewrite U. left; reflexivity. }
    pose proof (G_parts e HeG) as Hp. destruct (parts e) as [|r0 rest] eqn:Pe; [contradiction|].
    pose proof (Hr r0) as H0. rewrite Hfin in H0. simpl in H0.
    assert (involves r0 e = true) as Hi0 by (apply involves_in; rewrite Pe; left; reflexivity).
    rewrite Hi0 in H0. discriminate. }
  rewrite Hs, (unfired_nil_fired c Hu), Hg. reflexivity.
Qed.

(* Any state reached is the canonical-order run of the fired events (so partial sums held by
   the ranks are always sub-sums of the canonical tree). *)
Theorem trace_reachable_state p :
  psteps pinit p -> exists c, map fst c = G /\ st p = run (firedpart c) s0.
Proof. intros H. destruct (rel_steps p H) as [c [Hg [_ [_ Hs]]]]. exists c. tauto. Qed.

(* Deadlock freedom: while some rank has work left, some event can fire. *)
Theorem trace_no_deadlock p :
  psteps pinit p -> (exists r, rems p r <> []) -> exists q, pstep p q.
Proof.
  intros H [r Hr]. destruct (rel_steps p H) as [c [Hg [Hi [Hrm Hs]]]].
  destruct (unfired c) as [|e t] eqn:U.
  - exfalso. apply Hr. rewrite Hrm. reflexivity.
  - assert (In e G) as HeG.
    { rewrite <- Hg. apply in_map_iff. exists (e, false). split; [reflexivity|].
      apply in_unfired. rewrite U. left; reflexivity. }
    exists {| rems := fun r => if involves r e then tl (rems p r) else rems p r; st := fire (st p) e |}.
    apply PStep.
    + apply G_parts; assumption.
    + intros r' Hr'. rewrite Hrm. simpl. rewrite Hr'. reflexivity.
    + intros r'. reflexivity.
Qed.

End Trace.
