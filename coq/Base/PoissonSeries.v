(* Moments of the Poisson distribution as convergent series (Coquelicot), shared by C11 and C12:
   for every x, with p_d = x^d e^-x / d!,   sum_d p_d = 1   and   sum_d p_d * d = x.
   This replaces the moment hypothesis "E[d] = x" of the Poisson Fisher-information theorems. *)
From Coq Require Import Reals Lra Lia.
From Coquelicot Require Import Coquelicot.
Open Scope R_scope.

Definition pois (x : R) (d : nat) : R := x ^ d * exp (- x) / INR (fact d).

Lemma exp_series x : is_series (fun k : nat => x ^ k / INR (fact k)) (exp x).
Proof.
  pose proof (is_exp_Reals x) as H. unfold is_pseries in H.
  apply is_series_ext with (2 := H). intros n. unfold scal; simpl. unfold mult; simpl.
  rewrite pow_n_pow. unfold Rdiv. reflexivity.
Qed.

Lemma pois_total x : is_series (pois x) 1.
Proof.
  replace 1 with (scal (exp (- x)) (exp x)).
  2:{ unfold scal; simpl; unfold mult; simpl. rewrite <- exp_plus. replace (- x + x) with 0 by ring. apply exp_0. }
  apply is_series_ext with (fun k : nat => scal (exp (- x)) (x ^ k / INR (fact k))).
  - intros n. unfold pois, scal; simpl; unfold mult; simpl. unfold Rdiv. ring.
  - apply (@is_series_scal_l R_AbsRing R_NormedModule (exp (- x)) (fun k : nat => x ^ k / INR (fact k)) (exp x)), exp_series.
Qed.

Lemma fact_pos n : 0 < INR (fact n).
Proof. apply lt_0_INR, lt_O_fact. Qed.

Lemma is_series_lim_eq (a : nat -> R) (l l' : R) :
  l = l' -> @is_series R_AbsRing R_NormedModule a l -> @is_series R_AbsRing R_NormedModule a l'.
Proof. intros ->; auto. Qed.

Lemma is_series_ext_R (a b : nat -> R) (l : R) :
  (forall n, a n = b n) -> @is_series R_AbsRing R_NormedModule a l -> @is_series R_AbsRing R_NormedModule b l.
Proof. intros H. apply is_series_ext. exact H. Qed.

Lemma pois_mean_shift x : is_series (fun k : nat => pois x (S k) * INR (S k)) x.
Proof.
  pose proof (@is_series_scal_l R_AbsRing R_NormedModule (x * exp (- x)) (fun k : nat => x ^ k / INR (fact k)) (exp x) (exp_series x)) as H.
  apply is_series_lim_eq with (l' := x) in H.
  2:{ change (x * exp (- x) * exp x = x).
      rewrite Rmult_assoc, <- exp_plus. replace (- x + x) with 0 by ring. rewrite exp_0. ring. }
  apply is_series_ext with (2 := H).
  intros k. change (x * exp (- x) * (x ^ k / INR (fact k)) = pois x (S k) * INR (S k)).
  unfold pois. rewrite fact_simpl, mult_INR, <- tech_pow_Rmult.
  pose proof (fact_pos k). assert (0 < INR (S k)) by (apply lt_0_INR; lia).
  field. split; lra.
Qed.

Lemma pois_mean x : is_series (fun d : nat => pois x d * INR d) x.
Proof.
  apply is_series_decr_1.
  apply is_series_lim_eq with (l := x); [|apply pois_mean_shift].
  change (x = x + - (pois x 0 * INR 0)). simpl. ring.
Qed.

(* expectation of a function affine in the datum *)
Lemma pois_affine x a b : is_series (fun d : nat => pois x d * (a * INR d + b)) (a * x + b).
Proof.
  apply is_series_ext with (fun d : nat => plus (scal a (pois x d * INR d)) (scal b (pois x d))).
  - intros d. unfold plus, scal; simpl; unfold mult; simpl. ring.
  - replace (a * x + b) with (plus (scal a x) (scal b 1)).
    2:{ unfold plus, scal; simpl; unfold mult; simpl. ring. }
    apply (@is_series_plus R_AbsRing R_NormedModule).
    + apply (@is_series_scal_l R_AbsRing R_NormedModule a (fun d : nat => pois x d * INR d) x), pois_mean.
    + apply (@is_series_scal_l R_AbsRing R_NormedModule b (pois x) 1), pois_total.
Qed.
