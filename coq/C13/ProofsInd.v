(* C13 -- one inductive theorem: for EVERY operator expression built from scalings, diagonals (all
   _trafo values), sandwiches (forward through any bun, inverse through an invertible bun), sums,
   OperatorAdapters and InversionEnablers, in both directions, whenever [covop] assigns the expression
   its covariance operator C (or C^-1), the model's draw_sample returns -- for every noise stream -- a
   sample S(xi) that is linear-in-noise with covariance form <u, C v>, reads exactly the blocks it
   consumed, and has zero imaginary part (real sampling dtype). *)
From Coq Require Import List Arith Bool Lia Ring Ring_theory.
Import ListNotations.
Require Import NV.C13.Model NV.C13.Proofs.

Section Field.
Variable T : Type.
Variables (t0 t1 : T) (tadd tmul : T -> T -> T) (topp tinv tsqrt : T -> T) (tneg tzero : T -> bool).
Hypothesis RT : ring_theory t0 t1 tadd tmul (fun a b => tadd a (topp b)) topp eq.
Add Ring TR13i : RT.
Variable N : nat.          (* a bound on all field sizes: every noise block has at most N coordinates *)

Notation "0" := t0.
Notation "1" := t1.
Infix "+" := tadd.
Infix "*" := tmul.

Notation vec := (vec T).
Notation noise := (noise T).
Notation cop := (cop T).
Notation dot := (dot T t0 tadd tmul).
Notation draw := (draw T t0 t1 tadd tmul tinv tsqrt tneg tzero).
Notation is_cov := (is_cov T t0 t1 tadd tmul).
Notation reads := (reads T t0 t1).
Notation delta := (delta T t0 t1).
Notation sqrt_ok := (sqrt_ok T tmul tsqrt).
Notation inv_ok := (inv_ok T t1 tmul tinv).

(* a linear map that sends (pointwise) zero to zero -- all that is needed besides adjointness *)
Definition zero_pres (L : vec -> vec) : Prop := forall x, (forall j, x j = 0) -> forall j, L x j = 0.

(* [covop o n inv C]: C is the covariance operator of the expression o on n pixels (its inverse if inv) *)
Inductive covop : cop -> nat -> bool -> (vec -> vec) -> Prop :=
| cov_scal_fwd c n :
    (n <= N)%nat -> tneg c = false -> sqrt_ok c ->
    covop (CScal T c false DReal) n false (fun v j => c * v j)
| cov_scal_inv c n :
    (n <= N)%nat -> tneg c = false -> tzero c = false -> sqrt_ok c -> inv_ok (tsqrt c) ->
    covop (CScal T c false DReal) n true (fun v j => (tinv (tsqrt c) * tinv (tsqrt c)) * v j)
| cov_diag_mul d trafo n inv :
    (n <= N)%nat -> any_lt0 T tneg d n = false -> xorb inv (Nat.leb 2 trafo) = false ->
    (forall j, (j < n)%nat -> sqrt_ok (d j)) ->
    covop (CDiag T d false trafo DReal) n inv (fun v j => d j * v j)
| cov_diag_div d trafo n inv :
    (n <= N)%nat -> any_lt0 T tneg d n = false -> any_eq0 T tzero d n = false -> xorb inv (Nat.leb 2 trafo) = true ->
    (forall j, (j < n)%nat -> sqrt_ok (d j) /\ inv_ok (tsqrt (d j))) ->
    covop (CDiag T d false trafo DReal) n inv (fun v j => (tinv (tsqrt (d j)) * tinv (tsqrt (d j))) * v j)
| cov_sand_fwd bun cheese n Cch :
    (forall u w, dot (l_m T bun) (l_times T bun u) w = dot n u (l_adj T bun w)) -> zero_pres (l_adj T bun) ->
    covop cheese (l_m T bun) false Cch ->
    covop (CSand T bun cheese) n false (fun v => l_adj T bun (Cch (l_times T bun v)))
| cov_sand_inv bun cheese n binv binvadj Cch :
    l_inv T bun = Some binv ->
    (forall u w, dot n u (binv w) = dot (l_m T bun) (binvadj u) w) -> zero_pres binv ->
    covop cheese (l_m T bun) true Cch ->
    covop (CSand T bun cheese) n true (fun v => binv (Cch (binvadj v)))
| cov_emb o m n emb embadj C :
    (forall u w, dot n u (emb w) = dot m (embadj u) w) -> zero_pres emb ->
    covop o m false C ->
    covop (CEmb T o m emb) n false (fun v => emb (C (embadj v)))
| cov_sum ops n Cs :
    covops ops n Cs ->
    covop (CSum T ops) n false (fun v j => fold_right (fun C acc => C v j + acc) 0 Cs)
| cov_adapt o trafo n inv C :
    covop o n (if Nat.odd (trafo / 2) then negb inv else inv) C ->
    covop (CAdapt T o trafo) n inv C
| cov_inven o n inv C :
    covop o n inv C -> covop (CInvEn T o) n inv C
with covops : list cop -> nat -> list (vec -> vec) -> Prop :=
| covs_nil n : covops [] n []
| covs_cons o r n C Cs : o <> CNull T -> covop o n false C -> covops r n Cs -> covops (o :: r) n (C :: Cs).

Scheme covop_mind := Minimality for covop Sort Prop
  with covops_mind := Minimality for covops Sort Prop.

(* what the theorem promises about one draw *)
Definition sound (o : cop) (n : nat) (inv : bool) (C : vec -> vec) : Prop :=
  forall k, exists (S I : noise -> vec) (nb : nat),
    (forall xi, draw o n inv k xi = Ok (S xi, I xi, (k + nb)%nat)) /\
    (forall xi j, I xi j = 0) /\ reads k nb S /\ is_cov N k nb n S C.

Lemma is_cov_ext N' k nb n S S' C :
  (forall xi j, S xi j = S' xi j) -> is_cov N' k nb n S C -> is_cov N' k nb n S' C.
Proof.
  intros E H u v. rewrite <- (H u v). unfold cov_form.
  apply (sum_to_ext T t0 tadd). intros b _. apply (sum_to_ext T t0 tadd). intros i _.
  f_equal; unfold Model.dot; apply (sum_to_ext T t0 tadd); intros j _; rewrite E; reflexivity.
Qed.

Lemma delta_other b i k j : b <> k -> delta b i k j = 0.
Proof.
  intros H. unfold Proofs.delta. destruct (Nat.eqb k b) eqn:E; [apply Nat.eqb_eq in E; congruence|reflexivity].
Qed.

Lemma reads_pointwise k (w : vec) : reads k 1 (fun xi j => w j * xi k j).
Proof. intros b i j H. rewrite delta_other by lia. ring. Qed.

(* ---- the sum loop ---- *)
Fixpoint sum_go (n : nat) (xi : noise) (l : list cop) (acc : cvec T) (k0 : nat) : res (cvec T * nat) :=
  match l with
  | [] => Ok (acc, k0)
  | CNull _ :: r => sum_go n xi r acc k0
  | a :: r => bind (draw a n false k0 xi) (fun '(s, k') => sum_go n xi r (cadd T tadd acc s) k')
  end.

Lemma draw_sum ops n k xi : draw (CSum T ops) n false k xi = sum_go n xi ops (vzero T t0, vzero T t0) k.
Proof.
  cbn [Model.draw]. generalize (vzero T t0, vzero T t0). revert k.
  induction ops as [|a r IH]; intros k acc; [reflexivity|].
  destruct a; cbn [sum_go]; try (rewrite <- IH; reflexivity);
    try (match goal with |- _ = bind ?d _ => destruct d as [[s k']|e] eqn:E end; cbn [bind];
         [rewrite <- IH|]; cbn; rewrite ?E; reflexivity).

Qed.

Lemma sum_go_sound l n Cs :
  covops l n Cs -> Forall2 (fun o C => sound o n false C) l Cs ->
  forall k (Sa Ia : noise -> vec) nba Ca,
    (forall xi j, Ia xi j = 0) -> reads k nba Sa -> is_cov N k nba n Sa Ca ->
    exists (S I : noise -> vec) (nb : nat),
      (forall xi, sum_go n xi l (Sa xi, Ia xi) (k + nba)%nat = Ok (S xi, I xi, (k + nb)%nat)) /\
      (forall xi j, I xi j = 0) /\ reads k nb S /\
      is_cov N k nb n S (fun v j => Ca v j + fold_right (fun C acc => C v j + acc) 0 Cs).
Proof.
  intros Hc Hs. revert Hc. induction Hs as [|o C l Cs Ho Hs IH]; intros Hc k Sa Ia nba Ca HI HR HC.
  - exists Sa, Ia, nba. repeat split; try assumption.
    intros u v. rewrite (HC u v). unfold Model.dot. apply (sum_to_ext T t0 tadd). intros j _. cbn [fold_right]. ring.
  - inversion Hc as [|o' r' n' C' Cs' Hnn Hco Hcs]; subst.
    destruct (Ho (k + nba)%nat) as (S1 & I1 & nb1 & Hd1 & HI1 & HR1 & HC1).
    assert (HC' : is_cov N k (nba + nb1) n (fun xi j => Sa xi j + S1 xi j) (fun v j => Ca v j + C v j)).
    { apply (Proofs.cov_sum T t0 t1 tadd tmul topp RT); assumption. }
    assert (HR' : reads k (nba + nb1) (fun xi j => Sa xi j + S1 xi j)).
    { intros b i j Hb. rewrite HR by lia. rewrite HR1 by lia. ring. }
    assert (HI' : forall xi j, (fun xi j => Ia xi j + I1 xi j) xi j = 0).
    { intros xi j. cbv beta. rewrite HI, HI1. ring. }
    destruct (IH Hcs k (fun xi j => Sa xi j + S1 xi j) (fun xi j => Ia xi j + I1 xi j) (nba + nb1)%nat
                 (fun v j => Ca v j + C v j) HI' HR' HC') as (S & I & nb & Hd & HIf & HRf & HCf).
    exists S, I, nb. repeat split; try assumption.
    + intros xi. specialize (Hd xi). specialize (Hd1 xi).
      assert (E : sum_go n xi (o :: l) (Sa xi, Ia xi) (k + nba)%nat
                  = bind (draw o n false (k + nba)%nat xi) (fun '(s, k') => sum_go n xi l (cadd T tadd (Sa xi, Ia xi) s) k')).
      { destruct o; try reflexivity. exfalso. apply Hnn. reflexivity. }
      rewrite E, Hd1. cbn [bind]. unfold Model.cadd, Model.vadd. cbn [fst snd].
      rewrite <- Hd. f_equal. lia.
    + apply (is_cov_ext N k nb n S S); [reflexivity|]. intros u v. rewrite (HCf u v).
      unfold Model.dot. apply (sum_to_ext T t0 tadd). intros j _. cbn [fold_right]. ring.
Qed.

(* ---- the theorem ---- *)
Theorem draw_sound o n inv C : covop o n inv C -> sound o n inv C.
Proof.
  intros H.
  apply (covop_mind (fun o n inv C => sound o n inv C)
                    (fun l n Cs => Forall2 (fun o C => sound o n false C) l Cs)); try assumption; clear H o n inv C.
  - (* scaling, forward *)
    intros c n HN Hn Hs k. exists (fun xi j => tsqrt c * xi k j), (fun _ => vzero T t0), 1%nat. repeat split.
    + intros xi. rewrite (scaling_draw T t0 t1 tadd tmul tinv tsqrt tneg tzero c n false k xi Hn); [|apply andb_false_r].
      f_equal. f_equal. lia.
    + apply reads_pointwise.
    + apply (scaling_cov T t0 t1 tadd tmul topp tsqrt RT); assumption.
  - (* scaling, inverse *)
    intros c n HN Hn Hz Hs Hi k. exists (fun xi j => tinv (tsqrt c) * xi k j), (fun _ => vzero T t0), 1%nat. repeat split.
    + intros xi. rewrite (scaling_draw T t0 t1 tadd tmul tinv tsqrt tneg tzero c n true k xi Hn); [|rewrite Hz; reflexivity].
      f_equal. f_equal. lia.
    + apply reads_pointwise.
    + apply (scaling_cov_inverse T t0 t1 tadd tmul topp tinv tsqrt RT); assumption.
  - (* diagonal, multiply *)
    intros d trafo n inv HN Hlt Hx Hs k.
    destruct (diag_draw T t0 t1 tadd tmul topp tinv tsqrt tneg tzero RT d trafo n inv k (fun _ _ => 0) Hlt) as (im0 & _ & _);
      [rewrite Hx; apply andb_false_r|].
    exists (fun xi j => (1 * xi k j) * tsqrt (d j)), (fun xi j => vzero T t0 j * tsqrt (d j)), 1%nat. repeat split.
    + intros xi. cbn [Model.draw Model.normal]. rewrite Hlt, Hx, andb_false_r. cbn [orb].
      unfold Model.cmap, Model.vscale. cbn [fst snd]. f_equal. f_equal. lia.
    + intros xi j. unfold Model.vzero. ring.
    + intros b i j Hb. rewrite delta_other by lia. ring.
    + apply (diag_cov T t0 t1 tadd tmul topp tsqrt RT); assumption.
  - (* diagonal, divide *)
    intros d trafo n inv HN Hlt Hz Hx Hs k.
    exists (fun xi j => (1 * xi k j) * tinv (tsqrt (d j))), (fun xi j => vzero T t0 j * tinv (tsqrt (d j))), 1%nat. repeat split.
    + intros xi. cbn [Model.draw Model.normal]. rewrite Hlt, Hz, Hx. cbn [orb andb].
      unfold Model.cmap, Model.vscale. cbn [fst snd]. f_equal. f_equal. lia.
    + intros xi j. unfold Model.vzero. ring.
    + intros b i j Hb. rewrite delta_other by lia. ring.
    + apply (diag_cov_inverse T t0 t1 tadd tmul topp tinv tsqrt RT N k n d HN Hs).
  - (* sandwich, forward *)
    intros bun cheese n Cch Hadj Hz _ IH k. destruct (IH k) as (S & I & nb & Hd & HI & HR & HC).
    exists (fun xi => l_adj T bun (S xi)), (fun xi => l_adj T bun (I xi)), nb. repeat split.
    + intros xi. cbn [Model.draw]. rewrite Hd. reflexivity.
    + intros xi j. apply Hz. apply HI.
    + intros b i j Hb. apply Hz. intros j'. apply HR. exact Hb.
    + apply (sandwich_cov T t0 t1 tadd tmul topp RT N k nb (l_m T bun) n S Cch (l_times T bun) (l_adj T bun) Hadj HC).
  - (* sandwich, inverse *)
    intros bun cheese n binv binvadj Cch Hb Hadj Hz _ IH k. destruct (IH k) as (S & I & nb & Hd & HI & HR & HC).
    exists (fun xi => binv (S xi)), (fun xi => binv (I xi)), nb. repeat split.
    + intros xi. cbn [Model.draw]. rewrite Hb, Hd. reflexivity.
    + intros xi j. apply Hz. apply HI.
    + intros b i j Hb'. apply Hz. intros j'. apply HR. exact Hb'.
    + apply (cov_linear_image T t0 t1 tadd tmul topp RT N k nb (l_m T bun) n S Cch binv binvadj Hadj HC).
  - (* embedded summand *)
    intros o m n emb embadj C Hadj Hz _ IH k. destruct (IH k) as (S & I & nb & Hd & HI & HR & HC).
    exists (fun xi => emb (S xi)), (fun xi => emb (I xi)), nb. repeat split.
    + intros xi. cbn [Model.draw]. rewrite Hd. reflexivity.
    + intros xi j. apply Hz. apply HI.
    + intros b i j Hb'. apply Hz. intros j'. apply HR. exact Hb'.
    + apply (cov_linear_image T t0 t1 tadd tmul topp RT N k nb m n S C emb embadj Hadj HC).
  - (* sum *)
    intros ops n Cs Hc IH k.
    assert (H0 : is_cov N k 0 n (fun (_ : noise) => vzero T t0) (fun _ _ => 0)).
    { intros u v. unfold cov_form. cbn [Model.sum_to]. unfold Model.dot.
      rewrite (sum_to_ext T t0 tadd n _ (fun _ => 0)) by (intros; ring). symmetry. apply (sum_to_zero T t0 t1 tadd tmul topp RT). }
    destruct (sum_go_sound ops n Cs Hc IH k (fun _ => vzero T t0) (fun _ => vzero T t0) 0%nat (fun _ _ => 0))
      as (S & I & nb & Hd & HI & HR & HC); try (intros; reflexivity); [intros b i j _; reflexivity|exact H0|].
    exists S, I, nb. repeat split; try assumption.
    + intros xi. rewrite draw_sum. specialize (Hd xi). rewrite Nat.add_0_r in Hd. exact Hd.
    + intros u v. rewrite (HC u v). unfold Model.dot. apply (sum_to_ext T t0 tadd). intros j _. ring.
  - (* adapter *)
    intros o trafo n inv C _ IH k. destruct (IH k) as (S & I & nb & Hd & HI & HR & HC).
    exists S, I, nb. repeat split; try assumption. intros xi. rewrite (adapter_draw T t0 t1 tadd tmul tinv tsqrt tneg tzero). apply Hd.
  - (* inversion enabler *)
    intros o n inv C _ IH k. destruct (IH k) as (S & I & nb & Hd & HI & HR & HC).
    exists S, I, nb. repeat split; try assumption.
  - constructor.
  - intros o r n C Cs _ _ IH _ IHr. constructor; assumption.
Qed.

(* ---- dense matrices (the executable buns, [mklin] in Exec.v) satisfy the hypotheses of [covop] ---- *)
Notation sum_to := (sum_to T t0 tadd).
Notation mat_apply := (mat_apply T t0 tadd tmul).
Notation mat_adj := (mat_adj T t0 tadd tmul).

Lemma sum_to_S_first n (f : nat -> T) : sum_to (S n) f = f 0%nat + sum_to n (fun i => f (S i)).
Proof.
  induction n as [|n IHn]; cbn [Model.sum_to]; [ring|]. cbn [Model.sum_to] in IHn. rewrite IHn. ring.
Qed.

Lemma fold_row (row : list T) (x : vec) s :
  fold_right (fun '(i, w) acc => w * x i + acc) 0 (combine (seq s (length row)) row)
  = sum_to (length row) (fun i => nth i row 0 * x (s + i)%nat).
Proof.
  revert s. induction row as [|w r IH]; intros s; [reflexivity|].
  cbn [length seq combine fold_right]. rewrite IH.
  rewrite sum_to_S_first. cbn [nth]. rewrite Nat.add_0_r. f_equal.
  apply (sum_to_ext T t0 tadd). intros i _. rewrite Nat.add_succ_r. reflexivity.
Qed.

Lemma mat_apply_sum rows x o :
  mat_apply rows x o = sum_to (length (nth o rows [])) (fun i => nth i (nth o rows []) 0 * x i).
Proof. unfold Model.mat_apply. rewrite fold_row. reflexivity. Qed.

Lemma mat_adj_sum rows y i :
  mat_adj rows y i = sum_to (length rows) (fun o => nth i (nth o rows []) 0 * y o).
Proof.
  unfold Model.mat_adj.
  assert (G : forall rs s, fold_right (fun '(o, r) acc => nth i r 0 * y o + acc) 0 (combine (seq s (length rs)) rs)
                           = sum_to (length rs) (fun o => nth i (nth o rs []) 0 * y (s + o)%nat)).
  { induction rs as [|r rs IH]; intros s; [reflexivity|].
    cbn [length seq combine fold_right]. rewrite IH.
    rewrite sum_to_S_first. cbn [nth]. rewrite Nat.add_0_r. f_equal.
    apply (sum_to_ext T t0 tadd). intros o _. rewrite Nat.add_succ_r. reflexivity. }
  rewrite (G rows 0%nat). apply (sum_to_ext T t0 tadd). intros o _. reflexivity.
Qed.

Lemma sum_swap m n (f : nat -> nat -> T) :
  sum_to m (fun o => sum_to n (fun i => f o i)) = sum_to n (fun i => sum_to m (fun o => f o i)).
Proof.
  induction m as [|m IH]; cbn [Model.sum_to].
  - symmetry. apply (sum_to_zero T t0 t1 tadd tmul topp RT).
  - rewrite IH, <- (sum_to_add T t0 t1 tadd tmul topp RT). reflexivity.
Qed.

(* <B u, w>_m = <u, B^T w>_n for an m x n matrix given by its rows *)
Theorem matrix_adjoint rows n u w :
  Forall (fun r => length r = n) rows ->
  dot (length rows) (mat_apply rows u) w = dot n u (mat_adj rows w).
Proof.
  intros Hr. unfold Model.dot.
  rewrite (sum_to_ext T t0 tadd (length rows) _ (fun o => sum_to n (fun i => (nth i (nth o rows []) 0 * u i) * w o))).
  2:{ intros o Ho. rewrite mat_apply_sum.
      assert (E : length (nth o rows []) = n) by (rewrite Forall_forall in Hr; apply Hr, nth_In; exact Ho).
      rewrite E. symmetry.
      rewrite (sum_to_ext T t0 tadd n _ (fun i => w o * (nth i (nth o rows []) 0 * u i))) by (intros; ring).
      rewrite (sum_to_scale T t0 t1 tadd tmul topp RT). ring. }
  rewrite sum_swap. apply (sum_to_ext T t0 tadd). intros i _.
  rewrite mat_adj_sum, <- (sum_to_scale T t0 t1 tadd tmul topp RT). apply (sum_to_ext T t0 tadd). intros; ring.
Qed.

Theorem matrix_zero_pres rows : zero_pres (mat_adj rows) /\ zero_pres (mat_apply rows).
Proof.
  split; intros x Hx j.
  - rewrite mat_adj_sum. rewrite (sum_to_ext T t0 tadd _ _ (fun _ => 0)) by (intros; rewrite Hx; ring).
    apply (sum_to_zero T t0 t1 tadd tmul topp RT).
  - rewrite mat_apply_sum. rewrite (sum_to_ext T t0 tadd _ _ (fun _ => 0)) by (intros; rewrite Hx; ring).
    apply (sum_to_zero T t0 t1 tadd tmul topp RT).
Qed.

End Field.
