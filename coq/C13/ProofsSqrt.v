(* C13 -- ScalingOperator._get_fct and DiagonalOperator.get_sqrt: the standard deviation used by
   draw_sample is exactly _get_fct; get_sqrt returns an operator R (same _trafo, same sampling dtype)
   with R*R = D entrywise; it refuses exactly for complex or negative diagonals (no zero guard); and a
   multiplying draw of D is the white noise multiplied by the _ldiag of D.get_sqrt(). *)
From Coq Require Import List Arith Bool.
Import ListNotations.
Require Import NV.C13.Model NV.C13.Proofs.

Section S.
Variable T : Type.
Variables (t0 t1 : T) (tadd tmul : T -> T -> T) (tinv tsqrt : T -> T) (tneg tzero : T -> bool).

Notation draw := (draw T t0 t1 tadd tmul tinv tsqrt tneg tzero).
Notation get_fct := (get_fct T tinv tsqrt tneg tzero).
Notation diag_get_sqrt := (diag_get_sqrt T tsqrt tneg).
Notation normal := (normal T t0 tmul).
Notation sqrt_ok := (sqrt_ok T tmul tsqrt).
Notation inv_ok := (inv_ok T t1 tmul tinv).

(* draw_sample of a scaling = from_random(std = _get_fct(from_inverse)), after the dtype check *)
Lemma scaling_draw_is_get_fct c cplx dt n inv k xi :
  draw (CScal T c cplx dt) n inv k xi =
  match dt with
  | DNone => Refuse RRuntimeError
  | _ => bind (get_fct c cplx inv) (fun s => Ok (normal dt s k xi))
  end.
Proof.
  destruct dt; cbn [Model.draw]; try reflexivity; unfold Model.get_fct;
    destruct (cplx || tneg c || (tzero c && inv)); reflexivity.
Qed.

(* the returned standard deviation squares to the variance (forward) / to its inverse (inverse),
   and the refusal is a ValueError exactly under the code's condition *)
Lemma get_fct_sound c cplx inv :
  (forall s, get_fct c cplx inv = Ok s ->
     (cplx || tneg c || (tzero c && inv)) = false /\
     (sqrt_ok c -> inv = false -> tmul s s = c) /\
     (inv_ok (tsqrt c) -> inv = true -> tmul (tsqrt c) s = t1)) /\
  (forall e, get_fct c cplx inv = Refuse e <-> (e = RValueError /\ (cplx || tneg c || (tzero c && inv)) = true)).
Proof.
  unfold Model.get_fct. destruct (cplx || tneg c || (tzero c && inv)); split.
  - intros s H; discriminate.
  - intros e; split; [intros H; inversion H; auto|intros [-> _]; reflexivity].
  - intros s H. inversion H; subst; clear H. split; [reflexivity|]. split.
    + intros Hs ->. exact Hs.
    + intros Hi ->. exact Hi.
  - intros e; split; [intros H; discriminate|intros [_ H]; discriminate].
Qed.

Lemma diag_get_sqrt_sound d cplx trafo dt n :
  (forall o, diag_get_sqrt d cplx trafo dt n = Ok o ->
     (cplx || any_lt0 T tneg d n) = false /\
     exists r, o = CDiag T r false trafo dt /\ (forall j, sqrt_ok (d j) -> tmul (r j) (r j) = d j)) /\
  (forall e, diag_get_sqrt d cplx trafo dt n = Refuse e <-> (e = RValueError /\ (cplx || any_lt0 T tneg d n) = true)).
Proof.
  unfold Model.diag_get_sqrt. destruct (cplx || any_lt0 T tneg d n); split.
  - intros o H; discriminate.
  - intros e; split; [intros H; inversion H; auto|intros [-> _]; reflexivity].
  - intros o H. inversion H; subst; clear H. split; [reflexivity|].
    exists (fun i => tsqrt (d i)). split; [reflexivity|]. intros j Hs. exact Hs.
  - intros e; split; [intros H; discriminate|intros [_ H]; discriminate].
Qed.

(* a multiplying draw (from_inverse xor (_trafo >= 2) false) of D with a sampling dtype is the white
   noise multiplied entrywise by the _ldiag of D.get_sqrt(), for every noise stream *)
Lemma diag_draw_through_get_sqrt d cplx trafo dt n inv k xi r c' t' dt' :
  diag_get_sqrt d cplx trafo dt n = Ok (CDiag T r c' t' dt') ->
  dt <> DNone -> xorb inv (Nat.leb 2 trafo) = false ->
  draw (CDiag T d cplx trafo dt) n inv k xi =
  Ok (cmap T (fun x i => tmul (x i) (r i)) (fst (normal dt t1 k xi)), snd (normal dt t1 k xi)).
Proof.
  unfold Model.diag_get_sqrt. destruct (cplx || any_lt0 T tneg d n) eqn:E; [discriminate|].
  intros H Hdt Hx. injection H as Hr _ _ _. subst r.
  destruct dt; [congruence| |]; cbn [Model.draw Model.normal]; rewrite Hx, E, andb_false_r; reflexivity.
Qed.

End S.
