(* C13 -- covariance of the samples: a sample is S(xi), linear in the white-noise blocks xi; its
   covariance as a bilinear form is  Cov(u, v) = sum over all noise coordinates (b, i) of
   <u, S(e_bi)> <S(e_bi), v>  (E[xi xi^T] = identity).  [is_cov] says Cov(u, v) = <u, C v>. *)
From Coq Require Import List Arith Bool Lia Ring Ring_theory.
Import ListNotations.
Require Import NV.C13.Model.

Section Field.
Variable T : Type.
Variables (t0 t1 : T) (tadd tmul : T -> T -> T) (topp tinv tsqrt : T -> T) (tneg tzero : T -> bool).
Hypothesis RT : ring_theory t0 t1 tadd tmul (fun a b => tadd a (topp b)) topp eq.
Add Ring TR13 : RT.

Notation "0" := t0.
Notation "1" := t1.
Infix "+" := tadd.
Infix "*" := tmul.

Notation vec := (vec T).
Notation noise := (noise T).
Notation sum_to := (sum_to T t0 tadd).
Notation dot := (dot T t0 tadd tmul).
Notation draw := (draw T t0 t1 tadd tmul tinv tsqrt tneg tzero).
Notation normal := (normal T t0 tmul).

(* the noise stream that is 1 at coordinate i of block b and 0 elsewhere *)
Definition delta (b i : nat) : noise := fun b' i' => if Nat.eqb b' b && Nat.eqb i' i then 1 else 0.

(* covariance form of a sampler that reads the blocks k .. k+nb-1, each of at most N coordinates *)
Definition cov_form (N k nb n : nat) (S : noise -> vec) (u v : vec) : T :=
  sum_to nb (fun b => sum_to N (fun i => dot n u (S (delta (k + b)%nat i)) * dot n (S (delta (k + b)%nat i)) v)).

Definition is_cov (N k nb n : nat) (S : noise -> vec) (C : vec -> vec) : Prop :=
  forall u v, cov_form N k nb n S u v = dot n u (C v).

(* ---- sums ---- *)
Lemma sum_to_ext n f g : (forall k, k < n -> f k = g k) -> sum_to n f = sum_to n g.
Proof. induction n; intros H; [reflexivity|]. cbn [Model.sum_to]. rewrite IHn, H by (intros; try apply H; lia). reflexivity. Qed.
Lemma sum_to_add n f g : sum_to n (fun k => f k + g k) = sum_to n f + sum_to n g.
Proof. induction n; cbn [Model.sum_to]; [ring|]. rewrite IHn. ring. Qed.
Lemma sum_to_zero n : sum_to n (fun _ => 0) = 0.
Proof. induction n; cbn [Model.sum_to]; [reflexivity|]. rewrite IHn. ring. Qed.
Lemma sum_to_scale n c f : sum_to n (fun k => c * f k) = c * sum_to n f.
Proof. induction n; cbn [Model.sum_to]; [ring|]. rewrite IHn. ring. Qed.
Lemma sum_to_indicator n k f : k < n -> sum_to n (fun j => if Nat.eqb j k then f j else 0) = f k.
Proof.
  induction n; intros H; [lia|]. cbn [Model.sum_to]. destruct (Nat.eq_dec k n) as [->|Hne].
  - rewrite Nat.eqb_refl. rewrite (sum_to_ext n _ (fun _ => 0)), sum_to_zero; [ring|].
    intros j Hj. destruct (Nat.eqb j n) eqn:E; [apply Nat.eqb_eq in E; lia|reflexivity].
  - rewrite IHn by lia. destruct (Nat.eqb n k) eqn:E; [apply Nat.eqb_eq in E; lia|ring].
Qed.
Lemma sum_to_indicator_out n k f : n <= k -> sum_to n (fun j => if Nat.eqb j k then f j else 0) = 0.
Proof.
  intros H. rewrite (sum_to_ext n _ (fun _ => 0)), sum_to_zero; [reflexivity|].
  intros j Hj. destruct (Nat.eqb j k) eqn:E; [apply Nat.eqb_eq in E; lia|reflexivity].
Qed.
Lemma sum_to_split a b f : sum_to (a + b)%nat f = sum_to a f + sum_to b (fun j => f (a + j)%nat).
Proof.
  induction b; cbn [Model.sum_to].
  - rewrite Nat.add_0_r. ring.
  - rewrite Nat.add_succ_r. cbn [Model.sum_to]. rewrite IHb. ring.
Qed.
Lemma dot_comm n x y : dot n x y = dot n y x.
Proof. unfold Model.dot. apply sum_to_ext. intros; ring. Qed.

(* ---- 1. pointwise (diagonal) samplers: scaling, diagonal, their inverses ---------------------- *)
(* S(xi)[j] = w j * xi k j   has covariance diag(w j ^2) *)
Theorem cov_pointwise N k n (w : vec) :
  n <= N -> is_cov N k 1 n (fun xi j => w j * xi k j) (fun v j => (w j * w j) * v j).
Proof.
  intros HN u v. unfold cov_form. cbn [Model.sum_to]. rewrite Nat.add_0_r.
  replace (0 + sum_to N (fun i => dot n u (fun j => w j * delta k i k j) * dot n (fun j => w j * delta k i k j) v))
    with (sum_to N (fun i => if Nat.ltb i n then (u i * w i) * (w i * v i) else 0)).
  - (* sum over i < N of a function supported on i < n *)
    replace N with (n + (N - n))%nat by lia. rewrite sum_to_split.
    rewrite (sum_to_ext (N - n) _ (fun _ => 0)), sum_to_zero.
    + unfold Model.dot. rewrite (sum_to_ext n _ (fun k0 => u k0 * (w k0 * w k0 * v k0))); [ring|].
      intros i Hi. apply Nat.ltb_lt in Hi. rewrite Hi. ring.
    + intros j _. replace (Nat.ltb (n + j)%nat n) with false; [reflexivity|]. symmetry. apply Nat.ltb_ge. lia.
  - rewrite (sum_to_ext N _ (fun i => dot n u (fun j => w j * delta k i k j) * dot n (fun j => w j * delta k i k j) v)); [ring|].
    intros i _. unfold delta. rewrite Nat.eqb_refl. cbn [andb]. unfold Model.dot.
    destruct (Nat.ltb i n) eqn:E.
    + apply Nat.ltb_lt in E.
      rewrite (sum_to_ext n (fun k0 => u k0 * (w k0 * (if Nat.eqb k0 i then 1 else 0))) (fun k0 => if Nat.eqb k0 i then u k0 * w k0 else 0))
        by (intros j _; destruct (Nat.eqb j i); ring).
      rewrite (sum_to_ext n (fun k0 => w k0 * (if Nat.eqb k0 i then 1 else 0) * v k0) (fun k0 => if Nat.eqb k0 i then w k0 * v k0 else 0))
        by (intros j _; destruct (Nat.eqb j i); ring).
      rewrite !sum_to_indicator by assumption. reflexivity.
    + apply Nat.ltb_ge in E.
      rewrite (sum_to_ext n (fun k0 => u k0 * (w k0 * (if Nat.eqb k0 i then 1 else 0))) (fun k0 => if Nat.eqb k0 i then u k0 * w k0 else 0))
        by (intros j _; destruct (Nat.eqb j i); ring).
      rewrite sum_to_indicator_out by assumption. ring.
Qed.

(* ---- 2. linear images: sandwiches, numerical inversion ---------------------------------------- *)
(* L with adjoint Ladj:  <u, L w>_n = <Ladj u, w>_m *)
Theorem cov_linear_image N k nb m n (S : noise -> vec) (C : vec -> vec) (L Ladj : vec -> vec) :
  (forall u w, dot n u (L w) = dot m (Ladj u) w) ->
  is_cov N k nb m S C -> is_cov N k nb n (fun xi => L (S xi)) (fun v => L (C (Ladj v))).
Proof.
  intros Hadj HS u v. unfold cov_form.
  rewrite (sum_to_ext nb _ (fun b => sum_to N (fun i => dot m (Ladj u) (S (delta (k + b)%nat i)) * dot m (S (delta (k + b)%nat i)) (Ladj v)))).
  - fold (cov_form N k nb m S (Ladj u) (Ladj v)). rewrite HS, Hadj. reflexivity.
  - intros b _. apply sum_to_ext. intros i _. rewrite Hadj, (dot_comm n (L _) v), Hadj, (dot_comm m (Ladj v)). reflexivity.
Qed.

(* ---- 3. independent summands: SumOperator, SamplingEnabler right-hand sides -------------------- *)
Definition reads (k nb : nat) (S : noise -> vec) : Prop :=
  forall b i j, (b < k \/ k + nb <= b)%nat -> S (delta b i) j = 0.

Lemma dot_zero_r n u (x : vec) : (forall j, x j = 0) -> dot n u x = 0.
Proof. intros H. unfold Model.dot. rewrite (sum_to_ext n _ (fun _ => 0)), sum_to_zero; [reflexivity|]. intros j _. rewrite H. ring. Qed.
Lemma dot_zero_l n (x : vec) v : (forall j, x j = 0) -> dot n x v = 0.
Proof. intros H. rewrite dot_comm. apply dot_zero_r. exact H. Qed.
Lemma dot_add_r n u (x y : vec) : dot n u (fun j => x j + y j) = dot n u x + dot n u y.
Proof. unfold Model.dot. rewrite <- sum_to_add. apply sum_to_ext. intros; ring. Qed.
Lemma dot_add_l n (x y : vec) v : dot n (fun j => x j + y j) v = dot n x v + dot n y v.
Proof. unfold Model.dot. rewrite <- sum_to_add. apply sum_to_ext. intros; ring. Qed.

Theorem cov_sum N k nb1 nb2 n (S1 S2 : noise -> vec) (C1 C2 : vec -> vec) :
  reads k nb1 S1 -> reads (k + nb1)%nat nb2 S2 ->
  is_cov N k nb1 n S1 C1 -> is_cov N (k + nb1)%nat nb2 n S2 C2 ->
  is_cov N k (nb1 + nb2)%nat n (fun xi j => S1 xi j + S2 xi j) (fun v j => C1 v j + C2 v j).
Proof.
  intros R1 R2 H1 H2 u v. unfold cov_form. rewrite sum_to_split.
  rewrite dot_add_r, <- H1, <- H2. unfold cov_form. f_equal.
  - apply sum_to_ext. intros b Hb. apply sum_to_ext. intros i _.
    rewrite dot_add_r, dot_add_l.
    rewrite (dot_zero_r n u (S2 (delta (k + b)%nat i))) by (intros j; apply R2; lia).
    rewrite (dot_zero_l n (S2 (delta (k + b)%nat i)) v) by (intros j; apply R2; lia). ring.
  - apply sum_to_ext. intros b Hb. apply sum_to_ext. intros i _.
    rewrite dot_add_r, dot_add_l. rewrite Nat.add_assoc.
    rewrite (dot_zero_r n u (S1 (delta (k + nb1 + b)%nat i))) by (intros j; apply R1; lia).
    rewrite (dot_zero_l n (S1 (delta (k + nb1 + b)%nat i)) v) by (intros j; apply R1; lia). ring.
Qed.

(* ---- the model's draw_sample, operator by operator ---------------------------------------------- *)
Definition sqrt_ok (c : T) : Prop := tsqrt c * tsqrt c = c.
Definition inv_ok (c : T) : Prop := c * tinv c = 1.

(* ScalingOperator, real sampling dtype, forward and inverse *)
Theorem scaling_draw c n inv k xi :
  tneg c = false -> (tzero c && inv = false) ->
  draw (CScal T c false DReal) n inv k xi
  = Ok (fun j => (if inv then tinv (tsqrt c) else tsqrt c) * xi k j, vzero T t0, S k).
Proof.
  intros Hn Hz. cbn [Model.draw]. rewrite Hn, Hz. cbn [orb]. reflexivity.
Qed.

Theorem scaling_cov N k n c :
  n <= N -> sqrt_ok c ->
  is_cov N k 1 n (fun xi j => tsqrt c * xi k j) (fun v j => c * v j).
Proof.
  intros HN Hs u v. rewrite (cov_pointwise N k n (fun _ => tsqrt c) HN u v).
  unfold Model.dot. apply sum_to_ext. intros j _. rewrite Hs. reflexivity.
Qed.

Theorem scaling_cov_inverse N k n c :
  n <= N -> sqrt_ok c -> inv_ok (tsqrt c) ->
  is_cov N k 1 n (fun xi j => tinv (tsqrt c) * xi k j) (fun v j => (tinv (tsqrt c) * tinv (tsqrt c)) * v j)
  /\ (tinv (tsqrt c) * tinv (tsqrt c)) * c = 1.
Proof.
  intros HN Hs Hi. split.
  - intros u v. apply (cov_pointwise N k n (fun _ => tinv (tsqrt c)) HN u v).
  - unfold sqrt_ok, inv_ok in *. rewrite <- Hs at 3.
    replace (tinv (tsqrt c) * tinv (tsqrt c) * (tsqrt c * tsqrt c)) with ((tsqrt c * tinv (tsqrt c)) * (tsqrt c * tinv (tsqrt c))) by ring.
    rewrite Hi. ring.
Qed.

(* DiagonalOperator, all four _trafo values: forward draws of trafo 0/1 and inverse draws of trafo 2/3
   multiply by sqrt(ldiag), the others divide *)
Theorem diag_draw d trafo n inv k xi :
  any_lt0 T tneg d n = false -> (any_eq0 T tzero d n && xorb inv (Nat.leb 2 trafo) = false) ->
  exists im,
    draw (CDiag T d false trafo DReal) n inv k xi
    = Ok (fun j => if xorb inv (Nat.leb 2 trafo) then (1 * xi k j) * tinv (tsqrt (d j)) else (1 * xi k j) * tsqrt (d j), im, S k)
    /\ forall j, im j = 0.
Proof.
  intros Hn Hz. cbn [Model.draw Model.normal]. rewrite Hn, Hz. cbn [orb]. unfold Model.cmap, Model.vscale. cbn [fst snd].
  destruct (xorb inv (Nat.leb 2 trafo)); (eexists; split; [reflexivity|intros j; unfold Model.vzero; ring]).
Qed.

Theorem diag_cov N k n (d : vec) :
  n <= N -> (forall j, j < n -> sqrt_ok (d j)) ->
  is_cov N k 1 n (fun xi j => (1 * xi k j) * tsqrt (d j)) (fun v j => d j * v j).
Proof.
  intros HN Hs u v.
  assert (E : cov_form N k 1 n (fun xi j => (1 * xi k j) * tsqrt (d j)) u v
              = cov_form N k 1 n (fun xi j => tsqrt (d j) * xi k j) u v).
  { unfold cov_form. apply sum_to_ext. intros b _. apply sum_to_ext. intros i _.
    f_equal; unfold Model.dot; apply sum_to_ext; intros j _; ring. }
  rewrite E, (cov_pointwise N k n (fun j => tsqrt (d j)) HN u v).
  unfold Model.dot. apply sum_to_ext. intros j Hj. rewrite (Hs j Hj). reflexivity.
Qed.

Theorem diag_cov_inverse N k n (d : vec) :
  n <= N -> (forall j, j < n -> sqrt_ok (d j) /\ inv_ok (tsqrt (d j))) ->
  let w := fun j => tinv (tsqrt (d j)) * tinv (tsqrt (d j)) in
  is_cov N k 1 n (fun xi j => (1 * xi k j) * tinv (tsqrt (d j))) (fun v j => w j * v j)
  /\ (forall j, j < n -> w j * d j = 1).
Proof.
  intros HN Hs w. split.
  - intros u v.
    assert (E : cov_form N k 1 n (fun xi j => (1 * xi k j) * tinv (tsqrt (d j))) u v
                = cov_form N k 1 n (fun xi j => tinv (tsqrt (d j)) * xi k j) u v).
    { unfold cov_form. apply sum_to_ext. intros b _. apply sum_to_ext. intros i _.
      f_equal; unfold Model.dot; apply sum_to_ext; intros j _; ring. }
    rewrite E. apply (cov_pointwise N k n (fun j => tinv (tsqrt (d j))) HN u v).
  - intros j Hj. destruct (Hs j Hj) as (H1 & H2). unfold w, sqrt_ok, inv_ok in *. rewrite <- H1 at 3.
    replace (tinv (tsqrt (d j)) * tinv (tsqrt (d j)) * (tsqrt (d j) * tsqrt (d j)))
      with ((tsqrt (d j) * tinv (tsqrt (d j))) * (tsqrt (d j) * tinv (tsqrt (d j)))) by ring.
    rewrite H2. ring.
Qed.

(* complex sampling dtype: real and imaginary part are drawn from two different noise blocks with the
   same standard deviation, i.e. EACH has the covariance of the operator (NIFTy's convention) *)
Theorem scaling_draw_complex c n inv k xi :
  tneg c = false -> (tzero c && inv = false) ->
  draw (CScal T c false DComplex) n inv k xi
  = Ok (fun j => (if inv then tinv (tsqrt c) else tsqrt c) * xi k j,
        fun j => (if inv then tinv (tsqrt c) else tsqrt c) * xi (S k) j, S (S k)).
Proof. intros Hn Hz. cbn [Model.draw]. rewrite Hn, Hz. cbn [orb]. reflexivity. Qed.

(* SandwichOperator: forward = bun^H applied to the cheese sample, inverse = bun^-1 applied to an inverse cheese sample *)
Theorem sandwich_draw_forward bun cheese n k xi s k' :
  draw cheese (l_m T bun) false k xi = Ok (s, k') ->
  draw (CSand T bun cheese) n false k xi = Ok (cmap T (l_adj T bun) s, k').
Proof. intros H. cbn [Model.draw]. rewrite H. reflexivity. Qed.

Theorem sandwich_draw_inverse bun cheese n k xi binv s k' :
  l_inv T bun = Some binv -> draw cheese (l_m T bun) true k xi = Ok (s, k') ->
  draw (CSand T bun cheese) n true k xi = Ok (cmap T binv s, k').
Proof. intros Hb H. cbn [Model.draw]. rewrite Hb, H. reflexivity. Qed.

Theorem sandwich_refuses_inverse bun cheese n k xi :
  l_inv T bun = None -> draw (CSand T bun cheese) n true k xi = Refuse RNotImplemented.
Proof. intros Hb. cbn [Model.draw]. rewrite Hb. reflexivity. Qed.

(* the sandwich of a covariance:  (B^H S) has covariance B^H C B;  (B^-1 S') has covariance
   B^-1 C' B^-H, which inverts B^H C B when C' inverts C *)
Theorem sandwich_cov N k nb m n S C (B Badj : vec -> vec) :
  (forall u w, dot m (B u) w = dot n u (Badj w)) ->
  is_cov N k nb m S C -> is_cov N k nb n (fun xi => Badj (S xi)) (fun v => Badj (C (B v))).
Proof. intros Hadj. apply cov_linear_image. intros u w. symmetry. apply Hadj. Qed.

Theorem sandwich_inverse_is_inverse (B Badj Binv BinvAdj C Cinv : vec -> vec) v :
  (forall x, BinvAdj (Badj x) = x) -> (forall x, Cinv (C x) = x) -> (forall x, Binv (B x) = x) ->
  Binv (Cinv (BinvAdj (Badj (C (B v))))) = v.
Proof. intros H1 H2 H3. rewrite H1, H2, H3. reflexivity. Qed.

(* SumOperator refuses inverse samples; OperatorAdapter swaps the direction for .inverse *)
Theorem sum_refuses_inverse ops n k xi : draw (CSum T ops) n true k xi = Refuse RNotImplemented.
Proof. reflexivity. Qed.

Theorem adapter_draw o trafo n inv k xi :
  draw (CAdapt T o trafo) n inv k xi = draw o n (if Nat.odd (trafo / 2) then negb inv else inv) k xi.
Proof. cbn [Model.draw]. destruct (Nat.odd (trafo / 2)); reflexivity. Qed.

Theorem inversion_enabler_draw o n inv k xi : draw (CInvEn T o) n inv k xi = draw o n inv k xi.
Proof. reflexivity. Qed.

(* refusals of the leaves: exactly the conditions of the code *)
Theorem scaling_refusal c cplx dt n inv k xi :
  (draw (CScal T c cplx dt) n inv k xi = Refuse RRuntimeError <-> dt = DNone) /\
  (draw (CScal T c cplx dt) n inv k xi = Refuse RValueError <-> (dt <> DNone /\ (cplx || tneg c || (tzero c && inv)) = true)).
Proof.
  cbn [Model.draw]. destruct dt; split; split; intros H; try reflexivity; try discriminate;
    try (destruct (cplx || tneg c || (tzero c && inv)); discriminate);
    try (destruct H as (H1 & H2); try congruence; rewrite H2; reflexivity);
    try (split; [discriminate|]; destruct (cplx || tneg c || (tzero c && inv)); [reflexivity|discriminate]).
Qed.

Theorem diag_refusal d cplx trafo dt n inv k xi :
  (draw (CDiag T d cplx trafo dt) n inv k xi = Refuse RRuntimeError <-> dt = DNone) /\
  (draw (CDiag T d cplx trafo dt) n inv k xi = Refuse RValueError <->
     (dt <> DNone /\ (cplx || any_lt0 T tneg d n || (any_eq0 T tzero d n && xorb inv (Nat.leb 2 trafo))) = true)).
Proof.
  cbn [Model.draw Model.normal].
  destruct dt; split; split; intros H; try reflexivity; try discriminate;
    try (destruct (cplx || any_lt0 T tneg d n || (any_eq0 T tzero d n && xorb inv (Nat.leb 2 trafo))); discriminate);
    try (destruct H as (H1 & H2); try congruence; rewrite H2; reflexivity);
    try (split; [discriminate|]; destruct (cplx || any_lt0 T tneg d n || (any_eq0 T tzero d n && xorb inv (Nat.leb 2 trafo))); [reflexivity|discriminate]).
Qed.

(* SamplingEnabler with a converged solver: x = M^-1 b, b of covariance M, M^-1 self-adjoint *)
Theorem sampling_enabler_cov N k nb n S (M Minv : vec -> vec) :
  (forall u w, dot n u (Minv w) = dot n (Minv u) w) -> (forall x, M (Minv x) = x) ->
  is_cov N k nb n S M -> is_cov N k nb n (fun xi => Minv (S xi)) Minv.
Proof.
  intros Hsa Hinv HS u v.
  rewrite (cov_linear_image N k nb n n S M Minv Minv Hsa HS u v). rewrite Hinv. reflexivity.
Qed.

End Field.
