(* C13 -- the Qc instance of the model used by the correspondence: exact square roots of squares of
   rationals, dense matrices as linear maps, extraction of the matrix T of a sampler by feeding the
   noise basis, comparison predicates (exact, or 1e-8 relative for the numerically inverted cases). *)
From Coq Require Import List Arith ZArith QArith Qcanon Qabs Bool.
Import ListNotations.
Require Import NV.C13.Model.
Local Open Scope nat_scope.

Definition q (a : Z) (b : positive) : Qc := Q2Qc (a # b).
Definition Q0 : Qc := Q2Qc 0.
Definition Q1 : Qc := Q2Qc 1.

(* exact on squares of rationals (the harness only uses such variances) *)
Definition qsqrt (c : Qc) : Qc := Q2Qc (Z.sqrt (Qnum (this c)) # Pos.sqrt (Qden (this c))).
Definition qneg (c : Qc) : bool := (Qnum (this c) <? 0)%Z.
Definition qzero (c : Qc) : bool := (Qnum (this c) =? 0)%Z.

Notation qvec := (vec Qc).
Notation qcop := (cop Qc).
Definition qdraw := draw Qc Q0 Q1 Qcplus Qcmult Qcinv qsqrt qneg qzero.

Definition vec_of (l : list Qc) : qvec := fun k => nth k l Q0.
Definition mklin (rows : list (list Qc)) (inv_rows : option (list (list Qc))) : lin Qc :=
  {| l_m := length rows;
     l_times := mat_apply Qc Q0 Qcplus Qcmult rows;
     l_adj := mat_adj Qc Q0 Qcplus Qcmult rows;
     l_inv := option_map (mat_apply Qc Q0 Qcplus Qcmult) inv_rows |}.
Definition mfun (rows : list (list Qc)) : qvec -> qvec := mat_apply Qc Q0 Qcplus Qcmult rows.

(* embedding of a field on m pixels into a larger one: entry j goes to position pos[j] *)
Definition mkemb (pos : list nat) (x : qvec) : qvec :=
  fun i => fold_right (fun '(j, p) acc => if Nat.eqb p i then Qcplus (x j) acc else acc) Q0 (combine (seq 0 (length pos)) pos).

Definition delta (b i : nat) : noise Qc := fun b' i' => if Nat.eqb b' b && Nat.eqb i' i then Q1 else Q0.

(* the columns of T (real part, imaginary part) for the noise coordinates (b, i), b < nb, i < N *)
Definition tcols (o : qcop) (n : nat) (inv : bool) (nb N : nat) : res (list (list Qc * list Qc)) :=
  fold_right (fun '(b, i) acc =>
                match acc, qdraw o n inv 0 (delta b i) with
                | Ok l, Ok ((re, im), _) => Ok ((map re (seq 0 n), map im (seq 0 n)) :: l)
                | Refuse e, _ => Refuse e
                | _, Refuse e => Refuse e
                end)
             (Ok []) (flat_map (fun b => map (fun i => (b, i)) (seq 0 N)) (seq 0 nb)).

Definition nblocks (o : qcop) (n : nat) (inv : bool) : res nat :=
  match qdraw o n inv 0 (fun _ _ => Q0) with Ok (_, k) => Ok k | Refuse e => Refuse e end.

Definition qclose (x y : Qc) : bool :=
  Qle_bool (Qabs (this x - this y)) ((1 # 100000000) * (1 + Qabs (this y))).

Definition cols_eq (exact : bool) (a b : list (list Qc * list Qc)) : bool :=
  Nat.eqb (length a) (length b) &&
  forallb (fun '((r1, i1), (r2, i2)) =>
             let cmp := if exact then Qc_eq_bool else qclose in
             Nat.eqb (length r1) (length r2) && Nat.eqb (length i1) (length i2) &&
             forallb (fun '(x, y) => cmp x y) (combine r1 r2) && forallb (fun '(x, y) => cmp x y) (combine i1 i2))
          (combine a b).

Definition refusal_eqb (a b : refusal) : bool :=
  match a, b with
  | RValueError, RValueError | RNotImplemented, RNotImplemented | RRuntimeError, RRuntimeError => true
  | _, _ => false
  end.

(* one case: the implementation either raised [impl = inl exception class] or produced the matrix T
   with nb noise blocks (block b has at most N coordinates; missing coordinates are zero columns) *)
Definition case_ok (o : qcop) (n : nat) (inv exact : bool) (N : nat)
                   (impl : refusal + (nat * list (list Qc * list Qc))) : bool :=
  match impl with
  | inl e => match qdraw o n inv 0 (fun _ _ => Q0) with Refuse e' => refusal_eqb e e' | Ok _ => false end
  | inr (nb, cols) =>
      match nblocks o n inv, tcols o n inv nb N with
      | Ok k, Ok l => Nat.eqb k nb && cols_eq exact l cols
      | _, _ => false
      end
  end.

(* ---- ScalingOperator._get_fct / DiagonalOperator.get_sqrt: implementation result vs model ---- *)
Definition qget_fct := get_fct Qc Qcinv qsqrt qneg qzero.
Definition qdiag_get_sqrt := diag_get_sqrt Qc qsqrt qneg.

Definition dtype_eqb (a b : dtype) : bool :=
  match a, b with DNone, DNone | DReal, DReal | DComplex, DComplex => true | _, _ => false end.

(* impl = inl exception class | inr the returned standard deviation *)
Definition getfct_ok (c : Qc) (cplx inv : bool) (impl : refusal + Qc) : bool :=
  match impl, qget_fct c cplx inv with
  | inl e, Refuse e' => refusal_eqb e e'
  | inr s, Ok s' => Qc_eq_bool s s'
  | _, _ => false
  end.

(* impl = inl exception class | inr (_ldiag, _complex, _trafo, _dtype) of the operator returned by get_sqrt() *)
Definition getsqrt_ok (d : list Qc) (cplx : bool) (trafo : nat) (dt : dtype) (n : nat)
                      (impl : refusal + (list Qc * bool * nat * dtype)) : bool :=
  match impl, qdiag_get_sqrt (vec_of d) cplx trafo dt n with
  | inl e, Refuse e' => refusal_eqb e e'
  | inr (l, c, t, dt'), Ok (CDiag _ r c' t' dt'') =>
      Nat.eqb (length l) n && forallb (fun '(i, x) => Qc_eq_bool x (r i)) (combine (seq 0 n) l) &&
      Bool.eqb c c' && Nat.eqb t t' && dtype_eqb dt' dt''
  | _, _ => false
  end.
