(* C13 -- property theorems (statements only; proofs in Proofs.v).
   A sample is S(xi), linear in the white-noise blocks; [is_cov N k nb n S C] says that its covariance
   form  sum_{b,i} <u, S(e_bi)> <S(e_bi), v>  equals <u, C v> for all u, v (fields of n pixels, the
   nb blocks k .. k+nb-1 of at most N coordinates).  [cfield]: commutative ring with Leibniz equality;
   square roots and inverses enter as witnesses (sqrt_ok, inv_ok). *)
From Coq Require Import List Arith Bool ZArith QArith Qcanon Ring_theory.
Import ListNotations.
Require Import NV.C13.Model NV.C13.Exec NV.C13.Proofs NV.C13.ProofsInd NV.C13.ProofsSqrt.
Local Open Scope nat_scope.

Definition cring (T : Type) (t0 t1 : T) (tadd tmul : T -> T -> T) (topp : T -> T) : Prop :=
  ring_theory t0 t1 tadd tmul (fun a b => tadd a (topp b)) topp eq.

(* ---- building blocks of every covariance proof ---- *)
Theorem C13_cov_pointwise :
  forall T t0 t1 tadd tmul topp, cring T t0 t1 tadd tmul topp ->
  forall N k n (w : vec T), n <= N ->
    is_cov T t0 t1 tadd tmul N k 1 n (fun xi j => tmul (w j) (xi k j)) (fun v j => tmul (tmul (w j) (w j)) (v j)).
Proof. exact cov_pointwise. Qed.

Theorem C13_cov_linear_image :
  forall T t0 t1 tadd tmul topp, cring T t0 t1 tadd tmul topp ->
  forall N k nb m n (S : noise T -> vec T) (C L Ladj : vec T -> vec T),
    (forall u w, dot T t0 tadd tmul n u (L w) = dot T t0 tadd tmul m (Ladj u) w) ->
    is_cov T t0 t1 tadd tmul N k nb m S C ->
    is_cov T t0 t1 tadd tmul N k nb n (fun xi => L (S xi)) (fun v => L (C (Ladj v))).
Proof. exact cov_linear_image. Qed.

Theorem C13_cov_sum_of_independent_draws :
  forall T t0 t1 tadd tmul topp, cring T t0 t1 tadd tmul topp ->
  forall N k nb1 nb2 n (S1 S2 : noise T -> vec T) (C1 C2 : vec T -> vec T),
    reads T t0 t1 k nb1 S1 -> reads T t0 t1 (k + nb1) nb2 S2 ->
    is_cov T t0 t1 tadd tmul N k nb1 n S1 C1 -> is_cov T t0 t1 tadd tmul N (k + nb1) nb2 n S2 C2 ->
    is_cov T t0 t1 tadd tmul N k (nb1 + nb2) n (fun xi j => tadd (S1 xi j) (S2 xi j)) (fun v j => tadd (C1 v j) (C2 v j)).
Proof. exact Proofs.cov_sum. Qed.

(* ---- ScalingOperator ---- *)
Theorem C13_scaling_draw :
  forall T t0 t1 tadd tmul tinv tsqrt tneg tzero c n inv k xi,
    tneg c = false -> (tzero c && inv = false) ->
    draw T t0 t1 tadd tmul tinv tsqrt tneg tzero (CScal T c false DReal) n inv k xi
    = Ok (fun j => tmul (if inv then tinv (tsqrt c) else tsqrt c) (xi k j), vzero T t0, S k).
Proof. exact scaling_draw. Qed.

Theorem C13_cov_scaling :
  forall T t0 t1 tadd tmul topp tsqrt, cring T t0 t1 tadd tmul topp ->
  forall N k n c, n <= N -> sqrt_ok T tmul tsqrt c ->
    is_cov T t0 t1 tadd tmul N k 1 n (fun xi j => tmul (tsqrt c) (xi k j)) (fun v j => tmul c (v j)).
Proof. exact scaling_cov. Qed.

Theorem C13_cov_scaling_inverse :
  forall T t0 t1 tadd tmul topp tinv tsqrt, cring T t0 t1 tadd tmul topp ->
  forall N k n c, n <= N -> sqrt_ok T tmul tsqrt c -> inv_ok T t1 tmul tinv (tsqrt c) ->
    is_cov T t0 t1 tadd tmul N k 1 n (fun xi j => tmul (tinv (tsqrt c)) (xi k j))
           (fun v j => tmul (tmul (tinv (tsqrt c)) (tinv (tsqrt c))) (v j))
    /\ tmul (tmul (tinv (tsqrt c)) (tinv (tsqrt c))) c = t1.
Proof. exact scaling_cov_inverse. Qed.

Theorem C13_complex_convention :
  forall T t0 t1 tadd tmul tinv tsqrt tneg tzero c n inv k xi,
    tneg c = false -> (tzero c && inv = false) ->
    draw T t0 t1 tadd tmul tinv tsqrt tneg tzero (CScal T c false DComplex) n inv k xi
    = Ok (fun j => tmul (if inv then tinv (tsqrt c) else tsqrt c) (xi k j),
          fun j => tmul (if inv then tinv (tsqrt c) else tsqrt c) (xi (S k) j), S (S k)).
Proof. exact scaling_draw_complex. Qed.

(* ---- DiagonalOperator, all four _trafo values ---- *)
Theorem C13_diag_draw :
  forall T t0 t1 tadd tmul topp tinv tsqrt tneg tzero, cring T t0 t1 tadd tmul topp ->
  forall d trafo n inv k xi,
    any_lt0 T tneg d n = false -> (any_eq0 T tzero d n && xorb inv (Nat.leb 2 trafo) = false) ->
    exists im,
      draw T t0 t1 tadd tmul tinv tsqrt tneg tzero (CDiag T d false trafo DReal) n inv k xi
      = Ok (fun j => if xorb inv (Nat.leb 2 trafo) then tmul (tmul t1 (xi k j)) (tinv (tsqrt (d j)))
                     else tmul (tmul t1 (xi k j)) (tsqrt (d j)), im, S k)
      /\ forall j, im j = t0.
Proof. exact diag_draw. Qed.

Theorem C13_cov_diagonal :
  forall T t0 t1 tadd tmul topp tsqrt, cring T t0 t1 tadd tmul topp ->
  forall N k n (d : vec T), n <= N -> (forall j, j < n -> sqrt_ok T tmul tsqrt (d j)) ->
    is_cov T t0 t1 tadd tmul N k 1 n (fun xi j => tmul (tmul t1 (xi k j)) (tsqrt (d j))) (fun v j => tmul (d j) (v j)).
Proof. exact diag_cov. Qed.

Theorem C13_cov_diagonal_inverse :
  forall T t0 t1 tadd tmul topp tinv tsqrt, cring T t0 t1 tadd tmul topp ->
  forall N k n (d : vec T), n <= N ->
    (forall j, j < n -> sqrt_ok T tmul tsqrt (d j) /\ inv_ok T t1 tmul tinv (tsqrt (d j))) ->
    let w := fun j => tmul (tinv (tsqrt (d j))) (tinv (tsqrt (d j))) in
    is_cov T t0 t1 tadd tmul N k 1 n (fun xi j => tmul (tmul t1 (xi k j)) (tinv (tsqrt (d j)))) (fun v j => tmul (w j) (v j))
    /\ (forall j, j < n -> tmul (w j) (d j) = t1).
Proof. exact diag_cov_inverse. Qed.

(* ---- SandwichOperator ---- *)
Theorem C13_sandwich_draw_forward :
  forall T t0 t1 tadd tmul tinv tsqrt tneg tzero bun cheese n k xi s k',
    draw T t0 t1 tadd tmul tinv tsqrt tneg tzero cheese (l_m T bun) false k xi = Ok (s, k') ->
    draw T t0 t1 tadd tmul tinv tsqrt tneg tzero (CSand T bun cheese) n false k xi = Ok (cmap T (l_adj T bun) s, k').
Proof. exact sandwich_draw_forward. Qed.

Theorem C13_sandwich_draw_inverse :
  forall T t0 t1 tadd tmul tinv tsqrt tneg tzero bun cheese n k xi binv s k',
    l_inv T bun = Some binv ->
    draw T t0 t1 tadd tmul tinv tsqrt tneg tzero cheese (l_m T bun) true k xi = Ok (s, k') ->
    draw T t0 t1 tadd tmul tinv tsqrt tneg tzero (CSand T bun cheese) n true k xi = Ok (cmap T binv s, k').
Proof. exact sandwich_draw_inverse. Qed.

Theorem C13_cov_sandwich :
  forall T t0 t1 tadd tmul topp, cring T t0 t1 tadd tmul topp ->
  forall N k nb m n S C (B Badj : vec T -> vec T),
    (forall u w, dot T t0 tadd tmul m (B u) w = dot T t0 tadd tmul n u (Badj w)) ->
    is_cov T t0 t1 tadd tmul N k nb m S C ->
    is_cov T t0 t1 tadd tmul N k nb n (fun xi => Badj (S xi)) (fun v => Badj (C (B v))).
Proof. exact sandwich_cov. Qed.

Theorem C13_sandwich_inverse_covariance_inverts :
  forall T (B Badj Binv BinvAdj C Cinv : vec T -> vec T) v,
    (forall x, BinvAdj (Badj x) = x) -> (forall x, Cinv (C x) = x) -> (forall x, Binv (B x) = x) ->
    Binv (Cinv (BinvAdj (Badj (C (B v))))) = v.
Proof. exact sandwich_inverse_is_inverse. Qed.

(* ---- SamplingEnabler with a converged solver ---- *)
Theorem C13_cov_sampling_enabler :
  forall T t0 t1 tadd tmul topp, cring T t0 t1 tadd tmul topp ->
  forall N k nb n S (M Minv : vec T -> vec T),
    (forall u w, dot T t0 tadd tmul n u (Minv w) = dot T t0 tadd tmul n (Minv u) w) -> (forall x, M (Minv x) = x) ->
    is_cov T t0 t1 tadd tmul N k nb n S M -> is_cov T t0 t1 tadd tmul N k nb n (fun xi => Minv (S xi)) Minv.
Proof. exact sampling_enabler_cov. Qed.

(* ---- adapters and refusals ---- *)
Theorem C13_adapter_draw :
  forall T t0 t1 tadd tmul tinv tsqrt tneg tzero o trafo n inv k xi,
    draw T t0 t1 tadd tmul tinv tsqrt tneg tzero (CAdapt T o trafo) n inv k xi
    = draw T t0 t1 tadd tmul tinv tsqrt tneg tzero o n (if Nat.odd (trafo / 2) then negb inv else inv) k xi.
Proof. exact adapter_draw. Qed.

Theorem C13_refuse_scaling :
  forall T t0 t1 tadd tmul tinv tsqrt tneg tzero c cplx dt n inv k xi,
    (draw T t0 t1 tadd tmul tinv tsqrt tneg tzero (CScal T c cplx dt) n inv k xi = Refuse RRuntimeError <-> dt = DNone) /\
    (draw T t0 t1 tadd tmul tinv tsqrt tneg tzero (CScal T c cplx dt) n inv k xi = Refuse RValueError <->
       (dt <> DNone /\ (cplx || tneg c || (tzero c && inv)) = true)).
Proof. exact scaling_refusal. Qed.

Theorem C13_refuse_diagonal :
  forall T t0 t1 tadd tmul tinv tsqrt tneg tzero d cplx trafo dt n inv k xi,
    (draw T t0 t1 tadd tmul tinv tsqrt tneg tzero (CDiag T d cplx trafo dt) n inv k xi = Refuse RRuntimeError <-> dt = DNone) /\
    (draw T t0 t1 tadd tmul tinv tsqrt tneg tzero (CDiag T d cplx trafo dt) n inv k xi = Refuse RValueError <->
       (dt <> DNone /\ (cplx || any_lt0 T tneg d n || (any_eq0 T tzero d n && xorb inv (Nat.leb 2 trafo))) = true)).
Proof. exact diag_refusal. Qed.

Theorem C13_refuse_sum_inverse :
  forall T t0 t1 tadd tmul tinv tsqrt tneg tzero ops n k xi,
    draw T t0 t1 tadd tmul tinv tsqrt tneg tzero (CSum T ops) n true k xi = Refuse RNotImplemented.
Proof. exact sum_refuses_inverse. Qed.

Theorem C13_refuse_sandwich_inverse_without_invertible_bun :
  forall T t0 t1 tadd tmul tinv tsqrt tneg tzero bun cheese n k xi,
    l_inv T bun = None ->
    draw T t0 t1 tadd tmul tinv tsqrt tneg tzero (CSand T bun cheese) n true k xi = Refuse RNotImplemented.
Proof. exact sandwich_refuses_inverse. Qed.

(* ---- ONE theorem for every operator expression -------------------------------------------------
   [covop N o n inv C] (ProofsInd.v) assigns to an expression over scalings, diagonals (any _trafo),
   sandwiches (forward through any bun with an adjoint, inverse through an invertible bun), sums,
   OperatorAdapters and InversionEnablers its covariance operator C (forward) or C^-1 (inverse).
   Whenever it does, draw_sample succeeds for every noise stream, the sample is S(xi) with zero
   imaginary part, reads exactly the nb blocks it consumed, and has covariance <u, C v>. *)
Theorem C13_draw_sound_every_expression :
  forall T t0 t1 tadd tmul topp tinv tsqrt tneg tzero, cring T t0 t1 tadd tmul topp ->
  forall N (o : cop T) n inv C,
    covop T t0 t1 tadd tmul tinv tsqrt tneg tzero N o n inv C ->
    forall k, exists (S I : noise T -> vec T) (nb : nat),
      (forall xi, draw T t0 t1 tadd tmul tinv tsqrt tneg tzero o n inv k xi = Ok (S xi, I xi, k + nb)) /\
      (forall xi j, I xi j = t0) /\ reads T t0 t1 k nb S /\ is_cov T t0 t1 tadd tmul N k nb n S C.
Proof. exact draw_sound. Qed.

(* dense-matrix buns (the executable [mklin] of the correspondence) satisfy the hypotheses of [covop] *)
Theorem C13_matrix_bun_adjoint :
  forall T t0 t1 tadd tmul topp, cring T t0 t1 tadd tmul topp ->
  forall (rows : list (list T)) n u w, Forall (fun r => length r = n) rows ->
    dot T t0 tadd tmul (length rows) (mat_apply T t0 tadd tmul rows u) w = dot T t0 tadd tmul n u (mat_adj T t0 tadd tmul rows w).
Proof. exact matrix_adjoint. Qed.

(* ---- ScalingOperator._get_fct and DiagonalOperator.get_sqrt (ProofsSqrt.v) ---------------------
   No ring laws are needed: the statements hold for every scalar type with the witnesses sqrt_ok / inv_ok. *)
Theorem C13_scaling_draw_is_get_fct :
  forall T t0 t1 tadd tmul tinv tsqrt tneg tzero c cplx dt n inv k xi,
    draw T t0 t1 tadd tmul tinv tsqrt tneg tzero (CScal T c cplx dt) n inv k xi =
    match dt with
    | DNone => Refuse RRuntimeError
    | _ => bind (get_fct T tinv tsqrt tneg tzero c cplx inv) (fun s => Ok (normal T t0 tmul dt s k xi))
    end.
Proof. exact scaling_draw_is_get_fct. Qed.

Theorem C13_get_fct_sound :
  forall T t1 tmul tinv tsqrt tneg tzero c cplx inv,
    (forall s, get_fct T tinv tsqrt tneg tzero c cplx inv = Ok s ->
       (cplx || tneg c || (tzero c && inv)) = false /\
       (sqrt_ok T tmul tsqrt c -> inv = false -> tmul s s = c) /\
       (inv_ok T t1 tmul tinv (tsqrt c) -> inv = true -> tmul (tsqrt c) s = t1)) /\
    (forall e, get_fct T tinv tsqrt tneg tzero c cplx inv = Refuse e <->
       (e = RValueError /\ (cplx || tneg c || (tzero c && inv)) = true)).
Proof. exact get_fct_sound. Qed.

Theorem C13_diag_get_sqrt_sound :
  forall T tmul tsqrt tneg d cplx trafo dt n,
    (forall o, diag_get_sqrt T tsqrt tneg d cplx trafo dt n = Ok o ->
       (cplx || any_lt0 T tneg d n) = false /\
       exists r, o = CDiag T r false trafo dt /\ (forall j, sqrt_ok T tmul tsqrt (d j) -> tmul (r j) (r j) = d j)) /\
    (forall e, diag_get_sqrt T tsqrt tneg d cplx trafo dt n = Refuse e <->
       (e = RValueError /\ (cplx || any_lt0 T tneg d n) = true)).
Proof. exact diag_get_sqrt_sound. Qed.

Theorem C13_diag_draw_through_get_sqrt :
  forall T t0 t1 tadd tmul tinv tsqrt tneg tzero d cplx trafo dt n inv k xi r c' t' dt',
    diag_get_sqrt T tsqrt tneg d cplx trafo dt n = Ok (CDiag T r c' t' dt') ->
    dt <> DNone -> xorb inv (Nat.leb 2 trafo) = false ->
    draw T t0 t1 tadd tmul tinv tsqrt tneg tzero (CDiag T d cplx trafo dt) n inv k xi =
    Ok (cmap T (fun x i => tmul (x i) (r i)) (fst (normal T t0 tmul dt t1 k xi)), snd (normal T t0 tmul dt t1 k xi)).
Proof. exact diag_draw_through_get_sqrt. Qed.

(* ---- non-vacuity ---- *)
Example C13_Qc_is_a_cring : cring Qc Q0 Q1 Qcplus Qcmult Qcopp.
Proof. exact Qcrt. Qed.

(* a concrete expression:  (B^H (4 * 1) B) + diag(1, 4).inverse  on two pixels, forward draw *)
Example C13_covop_example :
  exists C, covop Qc Q0 Q1 Qcplus Qcmult Qcinv qsqrt qneg qzero 2
              (CSum Qc [CSand Qc (mklin [[Q1; q 2 1]; [Q0; Q1]] None) (CScal Qc (q 4 1) false DReal);
                        CAdapt Qc (CDiag Qc (vec_of [Q1; q 4 1]) false 2 DReal) 0]) 2 false C.
Proof.
  eexists. apply cov_sum. apply covs_cons; [discriminate| |apply covs_cons; [discriminate| |apply covs_nil]].
  - apply cov_sand_fwd.
    + intros u w. apply (matrix_adjoint Qc Q0 Q1 Qcplus Qcmult Qcopp Qcrt [[Q1; q 2 1]; [Q0; Q1]] 2 u w). repeat constructor.
    + apply (matrix_zero_pres Qc Q0 Q1 Qcplus Qcmult Qcopp Qcrt).
    + apply cov_scal_fwd; [cbn; auto|reflexivity|apply Qc_is_canon; vm_compute; reflexivity].
  - apply cov_adapt. cbn. apply cov_diag_div; [auto|reflexivity|reflexivity|reflexivity|].
    intros j Hj. destruct j as [|[|j]]; [| |inversion Hj as [|? H1]; inversion H1 as [|? H2]; inversion H2];
      split; apply Qc_is_canon; vm_compute; reflexivity.
Qed.

Example C13_sqrt_witness : sqrt_ok Qc Qcmult qsqrt (q 9 4) /\ inv_ok Qc Q1 Qcmult Qcinv (qsqrt (q 9 4)).
Proof. split; apply Qc_is_canon; vm_compute; reflexivity. Qed.

Example C13_get_sqrt_example :
  getsqrt_ok [q 4 1; Q0; q 1 4] false 2 DComplex 3 (inr ([q 2 1; Q0; q 1 2], false, 2, DComplex)) = true /\
  getsqrt_ok [q 4 1; q (-1) 1] false 0 DReal 2 (inl RValueError) = true /\
  getfct_ok (q 16 1) false true (inr (q 1 4)) = true /\ getfct_ok Q0 false true (inl RValueError) = true.
Proof. vm_compute. repeat split. Qed.
