(* C13 -- executable model of Gaussian sampling from covariance operators (no proofs in this file).

   A sample is a deterministic function of the white-noise blocks that the code requests from
   numpy's Generator (`_rng[-1].normal(mean, std, shape)` inside nifty.cl.random.Random.normal), in
   request order.  [draw o n inv k xi] mirrors `o.draw_sample(from_inverse=inv)` for an operator on a
   field of n pixels, starting at noise block k; it returns the sample (real and imaginary part) and
   the next block index, or the exception class the code raises.

   Mirrored sources (quoted at the definitions):
     nifty/cl/random.py                        Random.normal
     nifty/cl/operators/scaling_operator.py    _get_fct, draw_sample
     nifty/cl/operators/diagonal_operator.py   process_sample, draw_sample
     nifty/cl/operators/sandwich_operator.py   draw_sample
     nifty/cl/operators/sum_operator.py        draw_sample
     nifty/cl/operators/block_diagonal_operator.py  draw_sample
     nifty/cl/operators/operator_adapter.py    draw_sample
     nifty/cl/operators/inversion_enabler.py   draw_sample
     nifty/cl/operators/sampling_enabler.py    special_draw_sample, draw_sample
     nifty/cl/operators/endomorphic_operator.py draw_sample (default: NotImplementedError)

   Scalars: an arbitrary type T with operations WITHOUT laws; [tsqrt] is a square-root witness
   (the theorems assume tsqrt d * tsqrt d = d where it is used); [tneg]/[tzero] decide d < 0 / d = 0. *)
From Coq Require Import List Arith Bool.
Import ListNotations.

Inductive refusal := RValueError | RNotImplemented | RRuntimeError.
Inductive res (A : Type) := Ok (a : A) | Refuse (r : refusal).
Arguments Ok {A} a.
Arguments Refuse {A} r.

(* sampling_dtype: None, a real or a complex floating type *)
Inductive dtype := DNone | DReal | DComplex.

Section Ops.
Variable T : Type.
Variables (t0 t1 : T) (tadd tmul : T -> T -> T) (topp tinv tsqrt : T -> T) (tneg tzero : T -> bool).

Definition vec := nat -> T.
Definition cvec := (vec * vec)%type.              (* real and imaginary part *)
Definition noise := nat -> vec.                   (* block index -> white-noise block *)

Definition vzero : vec := fun _ => t0.
Definition vadd (x y : vec) : vec := fun i => tadd (x i) (y i).
Definition vscale (c : T) (x : vec) : vec := fun i => tmul c (x i).
Definition cadd (x y : cvec) : cvec := (vadd (fst x) (fst y), vadd (snd x) (snd y)).
Definition cmap (f : vec -> vec) (x : cvec) : cvec := (f (fst x), f (snd x)).

Fixpoint sum_to (n : nat) (f : nat -> T) : T :=
  match n with 0 => t0 | S k => tadd (sum_to k f) (f k) end.
Definition dot (n : nat) (x y : vec) : T := sum_to n (fun k => tmul (x k) (y k)).

(* a real linear map between fields (the bun of a sandwich, a preconditioned inverse):
   TIMES, ADJOINT_TIMES and (if the operator advertises it) INVERSE_TIMES *)
Record lin := { l_m : nat; l_times : vec -> vec; l_adj : vec -> vec; l_inv : option (vec -> vec) }.

(* dense matrices (list of rows) as linear maps, for the executable instances *)
Definition mat_apply (rows : list (list T)) (x : vec) : vec :=
  fun o => fold_right (fun '(i, w) acc => tadd (tmul w (x i)) acc) t0
                      (combine (seq 0 (length (nth o rows []))) (nth o rows [])).
Definition mat_adj (rows : list (list T)) (y : vec) : vec :=
  fun i => fold_right (fun '(o, r) acc => tadd (tmul (nth i r t0) (y o)) acc) t0
                      (combine (seq 0 (length rows)) rows).

(* ---- Random.normal(dtype, shape, mean=0, std) ------------------------------------------------
     if complex: x.real = _rng[-1].normal(mean.real, std, shape); x.imag = _rng[-1].normal(mean.imag, std, shape)
     else:       x = _rng[-1].normal(mean, std, shape)
   numpy's normal(0, std) = std * (standard normal block) *)
Definition normal (dt : dtype) (std : T) (k : nat) (xi : noise) : cvec * nat :=
  match dt with
  | DComplex => ((vscale std (xi k), vscale std (xi (S k))), S (S k))
  | _ => ((vscale std (xi k), vzero), S k)
  end.

Inductive cop :=
| CScal (c : T) (cplx : bool) (dt : dtype)                  (* ScalingOperator: _factor (real part), _factor.imag != 0, _dtype *)
| CDiag (d : vec) (cplx : bool) (trafo : nat) (dt : dtype)  (* DiagonalOperator: _ldiag (broadcast), _complex, _trafo, _dtype *)
| CSand (bun : lin) (cheese : cop)                          (* SandwichOperator: _bun, _cheese *)
| CSum (ops : list cop)                                     (* SumOperator: _ops *)
| CNull                                                     (* NullOperator inside a sum *)
| CBlock (ops : list (nat * option cop))                    (* BlockDiagonalOperator: per key (size, _ops[i]) *)
| CAdapt (o : cop) (trafo : nat)                            (* OperatorAdapter: _op, _trafo *)
| CInvEn (o : cop)                                          (* InversionEnabler: _op *)
| CSampEn (op lik prior : cop) (zero : bool) (prior_times : vec -> vec) (solve : vec -> vec)
                                                            (* SamplingEnabler: _op, _likelihood, _prior, _start_from_zero;
                                                               prior_times = self._prior(.), solve = converged CG for _op x = b *)
| CEmb (o : cop) (m : nat) (emb : vec -> vec)               (* a summand of a SumOperator that lives on a sub-MultiDomain
                                                               (m pixels): `res.unite(tmp)` = MultiField.flexible_addsub
                                                               puts its sample at the positions of its keys in the union
                                                               domain, zero elsewhere (emb) *)
| COther.                                                   (* any other endomorphic operator *)

Definition bind {A B} (r : res A) (f : A -> res B) : res B :=
  match r with Ok a => f a | Refuse e => Refuse e end.

Definition any_lt0 (d : vec) (n : nat) : bool := existsb (fun i => tneg (d i)) (seq 0 n).
Definition any_eq0 (d : vec) (n : nat) : bool := existsb (fun i => tzero (d i)) (seq 0 n).

(* place a vector at an offset inside a longer one (MultiField = concatenation of the keys) *)
Definition shift (off : nat) (x : vec) : vec := fun i => if Nat.ltb i off then t0 else x (i - off).
Definition window (off size : nat) (x : vec) : vec := fun i => if Nat.ltb i size then x (i + off) else t0.

Fixpoint draw (o : cop) (n : nat) (inv : bool) (k : nat) (xi : noise) {struct o} : res (cvec * nat) :=
  match o with
  | CScal c cplx dt =>
      (* if self._dtype is None: raise RuntimeError
         _get_fct: if fct.imag != 0 or fct.real < 0 or (fct.real == 0 and from_inverse): raise ValueError
                   return 1./np.sqrt(fct) if from_inverse else np.sqrt(fct)
         from_random(domain, "normal", dtype=self._dtype, std=self._get_fct(from_inverse)) *)
      match dt with
      | DNone => Refuse RRuntimeError
      | _ => if cplx || tneg c || (tzero c && inv) then Refuse RValueError
             else Ok (normal dt (if inv then tinv (tsqrt c) else tsqrt c) k xi)
      end
  | CDiag d cplx trafo dt =>
      (* if self._dtype is None: raise RuntimeError
         res = Field.from_random(domain, "normal", dtype=self._dtype)
         process_sample: from_inverse2 = from_inverse ^ (self._trafo >= 2)
           if self._complex or self._diagmin < 0 or (self._diagmin == 0 and from_inverse2): raise ValueError
           res = samp.val/np.sqrt(self._ldiag) if from_inverse2 else samp.val*np.sqrt(self._ldiag) *)
      match dt with
      | DNone => Refuse RRuntimeError
      | _ =>
          let '(s, k') := normal dt t1 k xi in
          let inv2 := xorb inv (Nat.leb 2 trafo) in
          if cplx || any_lt0 d n || (any_eq0 d n && inv2) then Refuse RValueError
          else let f (x : vec) : vec := fun i => if inv2 then tmul (x i) (tinv (tsqrt (d i))) else tmul (x i) (tsqrt (d i)) in
               Ok (cmap f s, k')
      end
  | CSand bun cheese =>
      (* if from_inverse:
             if self._bun.capability & INVERSE_TIMES:
                 try: s = self._cheese.draw_sample(from_inverse); return self._bun.inverse_times(s)
                 except NotImplementedError: pass
             raise NotImplementedError
         return self._bun.adjoint_times(self._cheese.draw_sample(from_inverse)) *)
      if inv then
        match l_inv bun with
        | Some binv =>
            match draw cheese (l_m bun) true k xi with
            | Ok (s, k') => Ok (cmap binv s, k')
            | Refuse RNotImplemented => Refuse RNotImplemented
            | Refuse e => Refuse e
            end
        | None => Refuse RNotImplemented
        end
      else bind (draw cheese (l_m bun) false k xi) (fun '(s, k') => Ok (cmap (l_adj bun) s, k'))
  | CSum ops =>
      (* if from_inverse: raise NotImplementedError
         for op in self._ops: if isinstance(op, NullOperator): continue
             tmp = op.draw_sample(from_inverse); res = tmp if res is None else res.unite(tmp) *)
      if inv then Refuse RNotImplemented
      else (fix go (l : list cop) (acc : cvec) (k0 : nat) : res (cvec * nat) :=
              match l with
              | [] => Ok (acc, k0)
              | CNull :: r => go r acc k0
              | a :: r => bind (draw a n false k0 xi) (fun '(s, k') => go r (cadd acc s) k')
              end) ops (vzero, vzero) k
  | CNull => Refuse RNotImplemented
  | CBlock ops =>
      (* for op, key in zip(self._ops, keys):
             if op is None: if self._dtype is None or key not in self._dtype: raise RuntimeError ...
             else: a = op.draw_sample(from_inverse)
         (a missing key is never in self._dtype) *)
      (fix go (l : list (nat * option cop)) (off : nat) (acc : cvec) (k0 : nat) : res (cvec * nat) :=
         match l with
         | [] => Ok (acc, k0)
         | (sz, None) :: _ => Refuse RRuntimeError
         | (sz, Some a) :: r =>
             bind (draw a sz inv k0 xi) (fun '(s, k') => go r (off + sz) (cadd acc (cmap (fun x => shift off (window 0 sz x)) s)) k')
         end) ops 0 (vzero, vzero) k
  | CAdapt a trafo =>
      (* if self._trafo & INVERSE_BIT: return self._op.draw_sample(not from_inverse)
         return self._op.draw_sample(from_inverse) *)
      if Nat.odd (trafo / 2) then draw a n (negb inv) k xi else draw a n inv k xi
  | CInvEn a => draw a n inv k xi          (* return self._op.draw_sample(from_inverse) *)
  | CSampEn op lik prior zero prior_times solve =>
      (* try: res = self._op.draw_sample(from_inverse); return self._op(res), res
         except NotImplementedError:
             if not from_inverse: raise ValueError
             if self._start_from_zero: b = self._op.draw_sample()
             else: s = self._prior.draw_sample(from_inverse=True); nj = self._likelihood.draw_sample()
                   b = self._prior(s) + nj
             ... ConjugateGradient ... return b, energy.position *)
      match draw op n inv k xi with
      | Refuse RNotImplemented =>
          if negb inv then Refuse RValueError
          else if zero then bind (draw op n false k xi) (fun '(b, k') => Ok (cmap solve b, k'))
               else bind (draw prior n true k xi) (fun '(s, k1) =>
                    bind (draw lik n false k1 xi) (fun '(nj, k2) =>
                    Ok (cmap solve (cadd (cmap prior_times s) nj), k2)))
      | r => r
      end
  | CEmb a m emb =>
      (* tmp = op.draw_sample(from_inverse); res = tmp if res is None else res.unite(tmp)
         "This MultiField's domain is the union of the input fields' domains. The values are the sum of
          the fields in self and other. If a field is not present, it is assumed to have an uniform value of zero." *)
      bind (draw a m inv k xi) (fun '(s, k') => Ok (cmap emb s, k'))
  | COther => Refuse RNotImplemented      (* EndomorphicOperator.draw_sample: raise NotImplementedError *)
  end.

(* ---- ScalingOperator._get_fct(from_inverse)  (scaling_operator.py) ---------------------------
     fct = self._factor
     if (fct.imag != 0. or fct.real < 0. or (fct.real == 0. and from_inverse)):
         raise ValueError("operator not positive definite")
     return 1./np.sqrt(fct) if from_inverse else np.sqrt(fct) *)
Definition get_fct (c : T) (cplx inv : bool) : res T :=
  if cplx || tneg c || (tzero c && inv) then Refuse RValueError
  else Ok (if inv then tinv (tsqrt c) else tsqrt c).

(* ---- DiagonalOperator.get_sqrt()  (diagonal_operator.py) -------------------------------------
     if self._complex or self._diagmin < 0.:
         raise ValueError("get_sqrt() works only for positive definite operators.")
     return self._from_ldiag((), np.sqrt(self._ldiag), self._dtype, self._trafo)
   (_from_ldiag keeps _dtype and _trafo; _fill_rest recomputes _complex from the dtype of the new
    _ldiag, which is real here; NO zero-entry guard: a semi-definite diagonal has a square root) *)
Definition diag_get_sqrt (d : vec) (cplx : bool) (trafo : nat) (dt : dtype) (n : nat) : res cop :=
  if cplx || any_lt0 d n then Refuse RValueError
  else Ok (CDiag (fun i => tsqrt (d i)) false trafo dt).

End Ops.
