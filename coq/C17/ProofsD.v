(* C17 -- progress at negative curvature, trust-region outer loop, refutation witnesses. *)
From Coq Require Import List ZArith QArith Qcanon Bool Arith Lia.
Import ListNotations.
Require Import NV.C15.Model NV.C15.ProofsA NV.C15.ProofsB NV.C15.ProofsC.
Require Import NV.C17.Model NV.C17.ProofsA NV.C17.ProofsB.
Open Scope Qc_scope.

Lemma cg_maxiter_pos : forall n old eps tiny ad rn, (1 <= n)%nat -> (1 <= maxiter n (cg_cfg old eps tiny ad rn))%nat.
Proof. intros. unfold maxiter, miniter, maxiter_fallback, cg_cfg. cbn [maxiter_o miniter_o]. lia. Qed.

Section Prog.
Variable n : nat.
Variable f : vec -> Qc.
Variable grad : vec -> vec.
Variable hessp : vec -> vec -> vec.
Variable sqrtq : Qc -> Qc.
Variables eps tiny : Qc.
Variable c : ncfg.

Notation cgo := (cg_c15 n eps tiny).
Notation eager_iter := (eager_iter n f grad hessp sqrtq cgo c).

(* At a point where the curvature along the (non-zero) gradient is negative:
   - the CG direction is t*g with t = g.g/|g.Hg| > 0, i.e. the trial points are x - s*t*g;
   - the iteration's line search is exactly "first acceptable of the nine trials";
   - if a trial is acceptable the iteration moves there and either continues or reports convergence
     (status 0) -- it never aborts (-1); it aborts only if none of the nine trials is acceptable. *)
Theorem negcurv_progress : forall s, (1 <= n)%nat ->
  let H := hessp (npos s) in
  let g := ng s in
  (forall a x y i, (i < n)%nat -> vget (H (axpy n a x y)) i = a * vget (H x) i + vget (H y) i) ->
  (forall x y, dot n x (H y) = dot n (H x) y) ->
  let s0 := init_st n H g None in
  let curv := dot n (r s0) (H (r s0)) in
  gam s0 <> 0 -> curv < 0 ->
  let t := gam s0 / - curv in
  let nat_g := axpy n (- t) (r s0) (vzero n) in
  0 < t /\
  (forall i, (i < n)%nat -> vget nat_g i = t * vget g i) /\
  match first_ok n f (npos s) (nen s) 0 (trials n hessp c (npos s) g nat_g) with
  | None => eager_iter s = (s, Some (NDone (npos s) (-1) (S (nit s)) (nen s)))
  | Some (np, ne, gs, dd, idx) =>
      ne <= nen s /\ In (gs, dd) (trials n hessp c (npos s) g nat_g) /\ np = axpy n (- gs) dd (npos s) /\
      exists o, eager_iter s = ({| npos := np; nen := ne; ng := grad np; nold := Some (nen s); nit := S (nit s) |}, o) /\
                (o = None \/ o = Some (NDone np 0 (S (nit s)) ne))
  end.
Proof.
  intros s Hn H g Hlin Hsym s0 curv Hg Hc t nat_g.
  assert (Hfs := first_step_descent n H g (cg_cfg false eps tiny (eager_cg_absdelta c s) (cg_resnorm n sqrtq g))
                   Hlin Hsym eq_refl None ltac:(discriminate) eq_refl
                   (cg_maxiter_pos n false eps tiny _ _ Hn) Hg Hc).
  cbv zeta in Hfs. destruct Hfs as (Hrun & Ht & _).
  split; [exact Ht|]. split.
  { intros i Hi. unfold nat_g, axpy. rewrite vget_vmk by assumption.
    unfold s0, init_st; cbn [r]. unfold vneg, vzero. rewrite !vget_vmk by assumption. ring. }
  pose proof (ls_eager_first n f hessp c (npos s) g (nen s) nat_g) as HLS.
  remember (eager_iter s) as ei eqn:HE.
  unfold Model.eager_iter, cg_c15, cg_c15_gen in HE. fold H in HE. fold g in HE.
  assert (Hrun' : run_eager n H g (cg_cfg false eps tiny (eager_cg_absdelta c s) (cg_resnorm n sqrtq g)) (@None vec)
                  = Done nat_g 0 1) by exact Hrun.
  rewrite Hrun', HLS in HE.
  destruct (first_ok n f (npos s) (nen s) 0 (trials n hessp c (npos s) g nat_g)) as [[[[[np ne] gs] dd] idx]|] eqn:EF.
  - destruct (first_ok_some n f _ _ _ _ _ _ _ _ _ EF) as (Hin & Hnp & Hne & Hle).
    split; [exact Hle|]. split; [exact Hin|]. split; [exact Hnp|]. subst ei.
    destruct (absdelta_hit c (nen s - ne) && _); [eexists; split; [reflexivity | right; reflexivity]|].
    destruct (Qcleb (gs * norm1 n dd) (xtol c) && _); [eexists; split; [reflexivity | right; reflexivity]|].
    eexists; split; [reflexivity | left; reflexivity].
  - exact HE.
Qed.
End Prog.

(* ---------------- trust region: an accepted step has positive actual reduction ---------------------- *)
Lemma quot_gt_pos : forall a p y, quot_gt a p y = true -> 0 <= p -> 0 <= y -> 0 < a.
Proof.
  intros a p y H Hp Hy. unfold quot_gt in H. destruct (Qceqb p 0) eqn:E.
  - now apply Qcltb_true.
  - apply Qcltb_true in H.
    assert (Hp' : 0 < p).
    { destruct (Qcle_lt_or_eq _ _ Hp) as [|E']; auto. symmetry in E'. apply Qceqb_true in E'. congruence. }
    assert (Hq : 0 < a / p) by (eapply Qcle_lt_trans; eauto).
    assert (Hne : p <> 0) by (intro E'; rewrite E' in Hp'; discriminate Hp').
    replace a with (a / p * p) by (field; exact Hne).
    apply Qcmul_pos; assumption.
Qed.

Section TR.
Variable n : nat.
Variable f : vec -> Qc.
Variable grad : vec -> vec.
Variable sub : vec -> Qc -> vec -> Qc -> vec * Qc * bool.
Variable c : tcfg.
Hypothesis Heta : 0 <= eta c.
(* Steihaug property, ASSUMED here (not proved): the model value of the proposed step is not above the
   current value *)
Hypothesis Hsub : forall x fk g tr, snd (fst (sub x fk g tr)) <= fk.

Definition tinv (x0 : vec) (s : tst) : Prop := tf s = f (tx s) /\ tf s <= f x0.

Lemma trust_body_inv : forall x0 s, tinv x0 s -> tinv x0 (trust_body n f grad sub c s).
Proof.
  intros x0 s [He Hle]. unfold trust_body.
  pose proof (Hsub (tx s) (tf s) (tg s) (ttr s)) as Hp.
  destruct (sub (tx s) (tf s) (tg s) (ttr s)) as [[step pf] hits]. cbn [fst snd] in Hp.
  destruct (quot_gt (tf s - f (axpy n 1 step (tx s))) (tf s - pf) (eta c)) eqn:EA; unfold tinv; cbn [tf tx].
  - split; [reflexivity|].
    assert (H0 : 0 <= tf s - pf).
    { unfold Qcminus. apply Qcle_minus_iff in Hp. exact Hp. }
    pose proof (quot_gt_pos _ _ _ EA H0 Heta) as Hact.
    eapply Qcle_trans; [|exact Hle]. apply Qclt_le_weak.
    apply Qclt_minus_iff. exact Hact.
  - split; assumption.
Qed.

Theorem trust_never_uphill : forall x0 tr0 fuel s,
  trust_loop n f grad sub c fuel (trust_init n f grad c x0 tr0) = Some s -> tf s = f (tx s) /\ tf s <= f x0.
Proof.
  intros x0 tr0 fuel.
  assert (forall s0 s, tinv x0 s0 -> trust_loop n f grad sub c fuel s0 = Some s -> tinv x0 s) as L.
  { induction fuel; intros s0 s Hs H; cbn [trust_loop] in H.
    - destruct (negb (tconv s0) && Z.eqb (tstatus s0) 0); [discriminate | now injection H as <-].
    - destruct (negb (tconv s0) && Z.eqb (tstatus s0) 0); [|now injection H as <-].
      eapply IHfuel; [|exact H]. now apply trust_body_inv. }
  intros s H. eapply L; [|exact H]. split; [reflexivity | apply Qcle_refl].
Qed.
End TR.

(* ---------------- refutation witnesses (unrepaired lines) ------------------------------------------- *)
(* f(x) = x^4 - x^2 (n = 1): a = 4, b = -2 *)
Definition wf := poly_f 1 (qv [4%Q]) (qv [(-2)%Q]) (qv [0%Q]) (qc 0%Q).
Definition wg := poly_grad 1 (qv [4%Q]) (qv [(-2)%Q]) (qv [0%Q]) (qc 0%Q).
Definition wh := poly_hessp 1 (qv [4%Q]) (qv [(-2)%Q]) (qc 0%Q).
Definition wcfg (old : bool) (ad : option Q) : ncfg :=
  {| nminiter := 0; nmaxiter := 1; erf := Some (qc (1 # 10)%Q); nabsdelta := qo ad; xtol := qc (1 # 100000)%Q;
     old_fval0 := None; old_mincond := old; old_reset := old |}.

(* unrepaired min_cond: accepted at the second trial with a large absdelta -- eager reports
   convergence (0), compiled reports the iteration limit (1) *)
Lemma unrepaired_mincond_differs :
  exists x fv, run_newton_eager 1 wf wg wh sqrt_approx (cg_c15 1 0 0) (wcfg true (Some 10%Q)) (qv [(1 # 2)%Q]) = NDone x 0 1 fv /\
               run_newton_static 1 wf wg wh sqrt_approx (cg_c15 1 0 0) (wcfg true (Some 10%Q)) 5 (qv [(1 # 2)%Q]) = NDone x 1 1 fv.
Proof. eexists. eexists. split; vm_compute; reflexivity. Qed.

(* the state before the C15 repairs (section 7, F6): at a start with negative curvature the eager
   minimiser aborts (-1), the compiled one reports convergence (0); neither moves *)
Lemma unrepaired_negcurv_stuck :
  exists fv, run_newton_eager 1 wf wg wh sqrt_approx (cg_c15_gen true 1 0 0) (wcfg true None) (qv [(1 # 10)%Q]) = NDone (qv [(1 # 10)%Q]) (-1) 1 fv /\
             run_newton_static 1 wf wg wh sqrt_approx (cg_c15_gen true 1 0 0) (wcfg true None) 5 (qv [(1 # 10)%Q]) = NDone (qv [(1 # 10)%Q]) 0 1 fv.
Proof. eexists. split; vm_compute; reflexivity. Qed.

(* with the repairs both move downhill from that start and agree *)
Lemma repaired_negcurv_moves :
  exists x fv, run_newton_eager 1 wf wg wh sqrt_approx (cg_c15 1 0 0) (wcfg false None) (qv [(1 # 10)%Q]) = NDone x 1 1 fv /\
               run_newton_static 1 wf wg wh sqrt_approx (cg_c15 1 0 0) (wcfg false None) 5 (qv [(1 # 10)%Q]) = NDone x 1 1 fv /\
               fv < wf (qv [(1 # 10)%Q]).
Proof. eexists. eexists. split; [vm_compute; reflexivity|]. split; vm_compute; reflexivity. Qed.
