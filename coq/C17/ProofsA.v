(* C17 -- never uphill: control-flow invariants of the line searches and the Newton loops. *)
From Coq Require Import List ZArith QArith Qcanon Bool Arith Lia.
Import ListNotations.
Require Import NV.C15.Model NV.C15.ProofsA NV.C17.Model.
Open Scope Qc_scope.

Section NU.
Variable n : nat.
Variable f : vec -> Qc.
Variable grad : vec -> vec.
Variable hessp : vec -> vec -> vec.
Variable sqrtq : Qc -> Qc.
Variable cg : bool -> (vec -> vec) -> vec -> option Qc -> Qc -> outcome.
Variable c : ncfg.

Notation ls_eager := (ls_eager n f hessp c).
Notation eager_iter := (eager_iter n f grad hessp sqrtq cg c).
Notation eager_nloop := (eager_nloop n f grad hessp sqrtq cg c).
Notation ls_step := (ls_step n f hessp c).
Notation ls_loop := (ls_loop n f hessp c).
Notation static_iter := (static_iter n f grad hessp sqrtq cg c).
Notation static_nloop := (static_nloop n f grad hessp sqrtq cg c).

(* the eager line search only returns a point whose energy was evaluated and found <= the current one *)
Lemma ls_eager_sound : forall fuel idx pos g e gs dd np ne gs' dd' idx',
  ls_eager fuel idx pos g e gs dd = Some (np, ne, gs', dd', idx') -> ne = f np /\ ne <= e.
Proof.
  induction fuel; intros idx pos g e gs dd np ne gs' dd' idx' H; cbn [Model.ls_eager] in H; [discriminate|].
  destruct (Qcleb (f (axpy n (- gs) dd pos)) e) eqn:E.
  - injection H as <- <- _ _ _. split; [reflexivity | now apply Qcleb_true].
  - destruct (Nat.eqb idx 5); eapply IHfuel; eauto.
Qed.

Definition ninv (x0 : vec) (s : nst) : Prop := nen s = f (npos s) /\ f (npos s) <= f x0.

Lemma eager_iter_inv : forall x0 s, ninv x0 s ->
  match eager_iter s with
  | (s', None) => ninv x0 s' /\ nit s' = S (nit s)
  | (_, Some (NDone x _ _ fv)) => fv = f x /\ f x <= f x0
  | _ => True
  end.
Proof.
  intros x0 s [He Hle]. unfold Model.eager_iter.
  destruct (cg false (hessp (npos s)) (ng s) _ _) as [|nat_g info k|]; [exact I | | exact I].
  destruct (ls_eager 9 0 (npos s) (ng s) (nen s) 1 nat_g) as [[[[[np ne] gs] dd] idx]|] eqn:EL.
  - destruct (ls_eager_sound _ _ _ _ _ _ _ _ _ _ _ _ EL) as [Hne Hdec].
    assert (Hnew : f np <= f x0).
    { rewrite <- Hne. eapply Qcle_trans; [exact Hdec|]. rewrite He. exact Hle. }
    destruct (absdelta_hit c (nen s - ne) && _); [split; auto|].
    destruct (Qcleb (gs * norm1 n dd) (xtol c) && _); [split; auto|].
    split; [split; cbn [npos nen]; auto | reflexivity].
  - split; auto.
Qed.

Lemma eager_nloop_inv : forall x0 k s x st nit fv, ninv x0 s ->
  eager_nloop k s = NDone x st nit fv -> fv = f x /\ f x <= f x0.
Proof.
  induction k; intros s x st nit fv HI H; cbn [Model.eager_nloop] in H.
  - injection H as <- _ _ <-. exact HI.
  - pose proof (eager_iter_inv x0 s HI) as HB.
    destruct (eager_iter s) as [s' [o|]].
    + subst o. exact HB.
    + destruct HB as [HI' _]. eapply IHk; eauto.
Qed.

Theorem newton_eager_never_uphill : forall x0 x st nit fv,
  run_newton_eager n f grad hessp sqrtq cg c x0 = NDone x st nit fv -> fv = f x /\ f x <= f x0.
Proof.
  intros x0 x st nit fv H. unfold run_newton_eager in H.
  eapply eager_nloop_inv; [|exact H]. split; [reflexivity | apply Qcle_refl].
Qed.

(* compiled line search: a state with status 0 carries an evaluated point with energy <= the start energy *)
Definition lsinv (e : Qc) (v : lsst) : Prop := lstatus v = 0%Z -> len v = f (lpos v) /\ len v <= e.

Lemma ls_step_inv : forall pos g e v, Z.ltb (lstatus v) (-1) = true -> lsinv e (ls_step pos g e v).
Proof.
  intros pos g e v Hrun. unfold lsinv, Model.ls_step. cbn [lstatus len lpos].
  destruct (Qcleb (f (axpy n (- lgs v) (ldd v) pos)) e) eqn:E.
  - intros _. split; [reflexivity | now apply Qcleb_true].
  - rewrite Hrun, andb_true_r. apply Z.ltb_lt in Hrun.
    destruct (Nat.eqb (lit v) 8); intro H0; [discriminate | lia].
Qed.

Lemma ls_loop_inv : forall fuel pos g e v ret, lsinv e v ->
  ls_loop fuel pos g e v = Some ret -> lsinv e ret.
Proof.
  induction fuel; intros pos g e v ret Hv H; cbn [Model.ls_loop] in H.
  - destruct (Z.ltb (lstatus v) (-1)); [discriminate | now injection H as <-].
  - destruct (Z.ltb (lstatus v) (-1)) eqn:E; [|now injection H as <-].
    eapply IHfuel; [|exact H]. now apply ls_step_inv.
Qed.

Definition zinv (x0 : vec) (v : zst) : Prop := zen v = f (zpos v) /\ f (zpos v) <= f x0.

Lemma static_iter_inv : forall x0 v, zinv x0 v -> zinv x0 (static_iter v).
Proof.
  intros x0 v [He Hle]. unfold Model.static_iter.
  destruct (cg true (hessp (zpos v)) (zg v) _ _) as [|nat_g info k|]; [split; auto | | split; auto].
  destruct (ls_loop 10 (zpos v) (zg v) (zen v) (ls_init (zpos v) (zg v) nat_g)) as [ret|] eqn:EL; [|split; auto].
  assert (Hret : lsinv (zen v) ret).
  { eapply ls_loop_inv; [|exact EL]. unfold lsinv, ls_init; cbn. discriminate. }
  destruct (Z.eqb (lstatus ret) 0) eqn:E0; cbn [negb].
  - apply Z.eqb_eq in E0. destruct (Hret E0) as [Hlen Hdec].
    destruct (Z.ltb (zstatus v) (-1)); unfold zinv; cbn [zen zpos]; [|split; auto].
    split; [exact Hlen|]. rewrite <- Hlen. eapply Qcle_trans; [exact Hdec|]. rewrite He. exact Hle.
  - change (Z.ltb (-1) (-1)) with false. unfold zinv; cbn [zen zpos]. split; auto.
Qed.

Lemma static_nloop_inv : forall x0 fuel v w, zinv x0 v -> static_nloop fuel v = Some w -> zinv x0 w.
Proof.
  induction fuel; intros v w Hv H; cbn [Model.static_nloop] in H.
  - destruct (Z.ltb (zstatus v) (-1)); [discriminate | now injection H as <-].
  - destruct (Z.ltb (zstatus v) (-1)); [|now injection H as <-].
    eapply IHfuel; [|exact H]. now apply static_iter_inv.
Qed.

Theorem newton_static_never_uphill : forall fuel x0 x st nit fv,
  run_newton_static n f grad hessp sqrtq cg c fuel x0 = NDone x st nit fv -> fv = f x /\ f x <= f x0.
Proof.
  intros fuel x0 x st nit fv H. unfold run_newton_static in H.
  destruct (static_nloop fuel (sinit f grad c x0)) as [w|] eqn:E; [|discriminate].
  assert (Hw : zinv x0 w).
  { eapply static_nloop_inv; [|exact E]. split; [reflexivity | apply Qcle_refl]. }
  destruct (zraised w); [discriminate|]. destruct (zoof w); [discriminate|].
  injection H as <- _ _ <-. exact Hw.
Qed.
End NU.
