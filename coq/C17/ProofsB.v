(* C17 -- line search: first acceptable trial; eager = compiled (control flow). *)
From Coq Require Import List ZArith QArith Qcanon Bool Arith Lia.
Import ListNotations.
Require Import NV.C15.Model NV.C15.ProofsA NV.C17.Model.
Open Scope Qc_scope.

Section LS.
Variable n : nat.
Variable f : vec -> Qc.
Variable grad : vec -> vec.
Variable hessp : vec -> vec -> vec.
Variable sqrtq : Qc -> Qc.
Variable cg : bool -> (vec -> vec) -> vec -> option Qc -> Qc -> outcome.
Variable c : ncfg.

Notation ls_eager := (ls_eager n f hessp c).
Notation ls_step := (ls_step n f hessp c).
Notation ls_loop := (ls_loop n f hessp c).
Notation reset_dir := (reset_dir n hessp c).

(* the nine trial (step length, direction) pairs of one Newton iteration *)
Definition trials (pos g dd : vec) : list (Qc * vec) :=
  let rd := reset_dir pos g in
  [(1, dd); (1 / two, dd); (1 / two / two, dd); (1 / two / two / two, dd);
   (1 / two / two / two / two, dd); (1 / two / two / two / two / two, dd);
   (1, rd); (1 / two, rd); (1 / two / two, rd)].

Fixpoint first_ok (pos : vec) (e : Qc) (idx : nat) (l : list (Qc * vec)) : option (vec * Qc * Qc * vec * nat) :=
  match l with
  | [] => None
  | (gs, dd) :: t =>
      let np := axpy n (- gs) dd pos in
      if Qcleb (f np) e then Some (np, f np, gs, dd, idx) else first_ok pos e (S idx) t
  end.

Lemma ls_eager_first : forall pos g e dd,
  ls_eager 9 0 pos g e 1 dd = first_ok pos e 0 (trials pos g dd).
Proof.
  intros. unfold trials. cbn [Model.ls_eager first_ok Nat.eqb].
  repeat (match goal with |- context [Qcleb ?a ?b] => destruct (Qcleb a b) end; [reflexivity|]).
  reflexivity.
Qed.

Lemma first_ok_none : forall pos e l idx, first_ok pos e idx l = None ->
  forall gs dd, In (gs, dd) l -> Qcleb (f (axpy n (- gs) dd pos)) e = false.
Proof.
  induction l as [|[gs0 dd0] t IH]; intros idx H gs dd Hin; [contradiction|].
  cbn [first_ok] in H. destruct (Qcleb (f (axpy n (- gs0) dd0 pos)) e) eqn:E; [discriminate|].
  destruct Hin as [Heq|Hin]; [injection Heq as <- <-; exact E | eapply IH; eauto].
Qed.

Lemma first_ok_some : forall pos e l idx np ne gs dd k, first_ok pos e idx l = Some (np, ne, gs, dd, k) ->
  In (gs, dd) l /\ np = axpy n (- gs) dd pos /\ ne = f np /\ ne <= e.
Proof.
  induction l as [|[gs0 dd0] t IH]; intros idx np ne gs dd k H; [discriminate|].
  cbn [first_ok] in H. destruct (Qcleb (f (axpy n (- gs0) dd0 pos)) e) eqn:E.
  - injection H as <- <- <- <- _. repeat split; [left; reflexivity | now apply Qcleb_true].
  - destruct (IH _ _ _ _ _ _ H) as (Hin & H1 & H2 & H3). repeat split; auto. right; exact Hin.
Qed.

(* compiled line search = eager line search *)
Lemma ls_step_acc : forall pos g e v, lstatus v = (-2)%Z ->
  Qcleb (f (axpy n (- lgs v) (ldd v) pos)) e = true ->
  ls_step pos g e v = {| lstatus := 0%Z; lit := S (lit v); lpos := axpy n (- lgs v) (ldd v) pos;
                         len := f (axpy n (- lgs v) (ldd v) pos); ldd := ldd v; lgs := lgs v |}.
Proof.
  intros pos g e v Hs Ha. unfold Model.ls_step. rewrite Ha.
  change (Z.ltb 0 (-1)) with false. rewrite !andb_false_r. reflexivity.
Qed.

Lemma ls_step_rej : forall pos g e v, lstatus v = (-2)%Z ->
  Qcleb (f (axpy n (- lgs v) (ldd v) pos)) e = false ->
  ls_step pos g e v = {| lstatus := if Nat.eqb (lit v) 8 then (-1)%Z else (-2)%Z; lit := S (lit v);
                         lpos := axpy n (- lgs v) (ldd v) pos; len := f (axpy n (- lgs v) (ldd v) pos);
                         ldd := if Nat.eqb (lit v) 5 then reset_dir pos g else ldd v;
                         lgs := if Nat.eqb (lit v) 5 then 1 else lgs v / two |}.
Proof.
  intros pos g e v Hs Ha. unfold Model.ls_step. rewrite Ha, Hs.
  change (Z.ltb (-2) (-1)) with true. rewrite !andb_true_r. reflexivity.
Qed.

Lemma ls_loop_run : forall F pos g e v, lstatus v = (-2)%Z ->
  ls_loop (S F) pos g e v = ls_loop F pos g e (ls_step pos g e v).
Proof. intros. cbn [Model.ls_loop]. rewrite H. reflexivity. Qed.

Lemma ls_loop_stop : forall F pos g e v, Z.ltb (lstatus v) (-1) = false -> ls_loop F pos g e v = Some v.
Proof. intros. destruct F; cbn [Model.ls_loop]; rewrite H; reflexivity. Qed.

Lemma ls_sim : forall pos g e k idx gs dd lp le F, (S k + idx = 9)%nat -> (S k <= F)%nat ->
  let v := {| lstatus := (-2)%Z; lit := idx; lpos := lp; len := le; ldd := dd; lgs := gs |} in
  match ls_eager (S k) idx pos g e gs dd with
  | Some (np, ne, gs', d', idx') =>
      ls_loop F pos g e v = Some {| lstatus := 0%Z; lit := S idx'; lpos := np; len := ne; ldd := d'; lgs := gs' |}
  | None => exists ret, ls_loop F pos g e v = Some ret /\ lstatus ret = (-1)%Z
  end.
Proof.
  intros pos g e. induction k as [|k IH]; intros idx gs dd lp le F Hk HF v;
    (destruct F as [|F]; [lia|]); rewrite (ls_loop_run F pos g e v eq_refl); cbn [Model.ls_eager];
    destruct (Qcleb (f (axpy n (- gs) dd pos)) e) eqn:EA.
  - rewrite (ls_step_acc pos g e v eq_refl EA). apply ls_loop_stop. reflexivity.
  - rewrite (ls_step_rej pos g e v eq_refl EA). unfold v; cbn [lit ldd lgs].
    assert (idx = 8)%nat by lia. subst idx. cbn [Nat.eqb].
    eexists. split; [apply ls_loop_stop; reflexivity | reflexivity].
  - rewrite (ls_step_acc pos g e v eq_refl EA). apply ls_loop_stop. reflexivity.
  - rewrite (ls_step_rej pos g e v eq_refl EA). unfold v; cbn [lit ldd lgs].
    assert (H8 : Nat.eqb idx 8 = false) by (apply Nat.eqb_neq; lia). rewrite H8.
    destruct (Nat.eqb idx 5); apply IH; lia.
Qed.

(* both line searches evaluate the energy at the same sequence of trial points *)
Lemma ls_trace_sim : forall pos g e k idx gs dd lp le F, (S k + idx = 9)%nat -> (S k <= F)%nat ->
  ls_loop_trace n f hessp c F pos g e {| lstatus := (-2)%Z; lit := idx; lpos := lp; len := le; ldd := dd; lgs := gs |}
  = ls_eager_trace n f hessp c (S k) idx pos g e gs dd.
Proof.
  intros pos g e. induction k as [|k IH]; intros idx gs dd lp le F Hk HF;
    (destruct F as [|F]; [lia|]); cbn [Model.ls_loop_trace Model.ls_eager_trace lstatus];
    change (Z.ltb (-2) (-1)) with true; cbv iota;
    set (v := {| lstatus := (-2)%Z; lit := idx; lpos := lp; len := le; ldd := dd; lgs := gs |});
    destruct (Qcleb (f (axpy n (- gs) dd pos)) e) eqn:EA.
  - rewrite (ls_step_acc pos g e v eq_refl EA). cbn [lpos]. f_equal.
    destruct F; cbn [Model.ls_loop_trace lstatus]; reflexivity.
  - rewrite (ls_step_rej pos g e v eq_refl EA). unfold v; cbn [lit ldd lgs lpos]. f_equal.
    assert (idx = 8)%nat by lia. subst idx. cbn [Nat.eqb].
    destruct F; cbn [Model.ls_loop_trace Model.ls_eager_trace lstatus]; reflexivity.
  - rewrite (ls_step_acc pos g e v eq_refl EA). cbn [lpos]. f_equal.
    destruct F; cbn [Model.ls_loop_trace lstatus]; reflexivity.
  - rewrite (ls_step_rej pos g e v eq_refl EA). unfold v; cbn [lit ldd lgs lpos]. f_equal.
    assert (H8 : Nat.eqb idx 8 = false) by (apply Nat.eqb_neq; lia). rewrite H8.
    destruct (Nat.eqb idx 5); apply IH; lia.
Qed.

Lemma ls_trace_eq : forall pos g e dd,
  ls_loop_trace n f hessp c 10 pos g e (ls_init pos g dd) = ls_eager_trace n f hessp c 9 0 pos g e 1 dd.
Proof. intros. unfold ls_init. apply (ls_trace_sim pos g e 8 0); lia. Qed.

(* ... namely x - s*dd for s = 1, 1/2, 1/4, 1/8, 1/16, 1/32 and then x - s*rd for s = 1, 1/2, 1/4 (rd the reset
   direction), cut after the first acceptable one *)
Fixpoint upto_first_ok (pos : vec) (e : Qc) (l : list (Qc * vec)) : list vec :=
  match l with
  | [] => []
  | (gs, dd) :: t => let np := axpy n (- gs) dd pos in np :: (if Qcleb (f np) e then [] else upto_first_ok pos e t)
  end.

Lemma ls_eager_trace_trials : forall pos g e dd,
  ls_eager_trace n f hessp c 9 0 pos g e 1 dd = upto_first_ok pos e (trials pos g dd).
Proof.
  intros. unfold trials. cbn [Model.ls_eager_trace upto_first_ok Nat.eqb].
  repeat (match goal with |- context [Qcleb ?a ?b] => destruct (Qcleb a b) end; [reflexivity|]).
  reflexivity.
Qed.

Lemma ls_static_eq : forall pos g e dd,
  match ls_eager 9 0 pos g e 1 dd with
  | Some (np, ne, gs', d', idx') =>
      ls_loop 10 pos g e (ls_init pos g dd) = Some {| lstatus := 0%Z; lit := S idx'; lpos := np; len := ne; ldd := d'; lgs := gs' |}
  | None => exists ret, ls_loop 10 pos g e (ls_init pos g dd) = Some ret /\ lstatus ret = (-1)%Z
  end.
Proof. intros. unfold ls_init. apply (ls_sim pos g e 8 0); lia. Qed.
End LS.
