(* C17 -- property theorems only.  Model: NV.C17.Model (optimize.py `_newton_cg`, `_static_newton_cg`,
   `_line_search_successive_halving`, outer loop of `_trust_ncg`) with fixes/C17-1.patch and
   fixes/C17-2.patch applied (old_mincond = old_reset = false), CG through NV.C15.Model. *)
From Coq Require Import List ZArith QArith Qcanon Bool Arith Lia.
Import ListNotations.
Require Import NV.C15.Model NV.C17.Model NV.C17.ProofsA NV.C17.ProofsB NV.C17.ProofsC NV.C17.ProofsD.
Open Scope Qc_scope.

(* Never uphill, eager Newton-CG: for EVERY objective oracle f, gradient and Hessian-vector oracle,
   EVERY conjugate-gradient oracle (whatever direction it returns, also a wrong one), every
   configuration and every iteration limit, the returned energy is the objective at the returned
   point and is not above the start.  Pure control-flow invariant (a step is accepted only if
   f(new) <= f(current)); holds with and without the repairs. *)
Theorem C17_never_uphill_newton :
  forall n f grad hessp sqrtq cg c x0 x st nit fv,
    run_newton_eager n f grad hessp sqrtq cg c x0 = NDone x st nit fv -> fv = f x /\ f x <= f x0.
Proof. exact newton_eager_never_uphill. Qed.

(* ... and the compiled one with its while_loop line search. *)
Theorem C17_never_uphill_static_newton :
  forall n f grad hessp sqrtq cg c fuel x0 x st nit fv,
    run_newton_static n f grad hessp sqrtq cg c fuel x0 = NDone x st nit fv -> fv = f x /\ f x <= f x0.
Proof. exact newton_static_never_uphill. Qed.

(* Trust region (partial): for every objective and every sub-problem oracle whose predicted value is not
   above the current value (Steihaug property -- ASSUMED, `_cg_steihaug_subproblem` is not modelled) and
   0 <= eta, every state the outer loop stops in has energy = f(x) <= f(start): a step is accepted only
   if rho = actual/pred > eta, hence actual reduction > 0 (IEEE division by zero made explicit). *)
Theorem C17_never_uphill_trust_partial :
  forall n f grad sub c, 0 <= eta c ->
    (forall x fk g tr, snd (fst (sub x fk g tr)) <= fk) ->
    forall x0 tr0 fuel s,
      trust_loop n f grad sub c fuel (trust_init n f grad c x0 tr0) = Some s -> tf s = f (tx s) /\ tf s <= f x0.
Proof. exact trust_never_uphill. Qed.

(* The line search of one Newton iteration returns the FIRST of the nine trial points
   x - s*dd (s = 1, 1/2, .., 1/32 along the CG direction, then s = 1, 1/2, 1/4 along the reset direction)
   whose energy is <= the current one, and aborts only if none is. *)
Theorem C17_line_search_first_acceptable :
  forall n f hessp c pos g e dd,
    ls_eager n f hessp c 9 0 pos g e 1 dd = first_ok n f pos e 0 (trials n hessp c pos g dd).
Proof. exact ls_eager_first. Qed.

(* The compiled line search (while_loop with status bookkeeping) computes the same. *)
Theorem C17_line_search_equiv :
  forall n f hessp c pos g e dd,
    match ls_eager n f hessp c 9 0 pos g e 1 dd with
    | Some (np, ne, gs', d', idx') =>
        ls_loop n f hessp c 10 pos g e (ls_init pos g dd)
        = Some {| lstatus := 0%Z; lit := S idx'; lpos := np; len := ne; ldd := d'; lgs := gs' |}
    | None => exists ret, ls_loop n f hessp c 10 pos g e (ls_init pos g dd) = Some ret /\ lstatus ret = (-1)%Z
    end.
Proof. exact ls_static_eq. Qed.

(* The exact sequence of trial step lengths (pure control flow): both line searches evaluate the energy at
   x - s*dd for s = 1, 1/2, 1/4, 1/8, 1/16, 1/32 and then at x - s*rd (rd the reset direction) for s = 1, 1/2, 1/4,
   stopping after the first point that does not raise the energy -- the compiled loop visits the same points. *)
Theorem C17_trial_sequence :
  forall n f hessp c pos g e dd,
    ls_eager_trace n f hessp c 9 0 pos g e 1 dd = upto_first_ok n f pos e (trials n hessp c pos g dd) /\
    ls_loop_trace n f hessp c 10 pos g e (ls_init pos g dd) = ls_eager_trace n f hessp c 9 0 pos g e 1 dd.
Proof. intros. split; [apply ls_eager_trace_trials | apply ls_trace_eq]. Qed.

(* Progress at negative curvature (with the C15 model as CG): at a point with non-zero gradient g and
   g.Hg < 0 the CG direction is t*g, t = g.g/|g.Hg| > 0, so the trial points are x - s*t*g; if one of
   the nine trials does not raise the energy the iteration moves to the first such point and continues
   or reports convergence -- it aborts (status -1) only if none does. *)
Theorem C17_negcurv_progress :
  forall n f grad hessp sqrtq eps tiny c s, (1 <= n)%nat ->
    let H := hessp (npos s) in
    let g := ng s in
    (forall a x y i, (i < n)%nat -> vget (H (axpy n a x y)) i = a * vget (H x) i + vget (H y) i) ->
    (forall x y, dot n x (H y) = dot n (H x) y) ->
    let s0 := init_st n H g None in
    let curv := dot n (r s0) (H (r s0)) in
    gam s0 <> 0 -> curv < 0 ->
    let t := gam s0 / - curv in
    let nat_g := axpy n (- t) (r s0) (vzero n) in
    0 < t /\
    (forall i, (i < n)%nat -> vget nat_g i = t * vget g i) /\
    match first_ok n f (npos s) (nen s) 0 (trials n hessp c (npos s) g nat_g) with
    | None => eager_iter n f grad hessp sqrtq (cg_c15 n eps tiny) c s
              = (s, Some (NDone (npos s) (-1) (S (nit s)) (nen s)))
    | Some (np, ne, gs, dd, idx) =>
        ne <= nen s /\ In (gs, dd) (trials n hessp c (npos s) g nat_g) /\ np = axpy n (- gs) dd (npos s) /\
        exists o, eager_iter n f grad hessp sqrtq (cg_c15 n eps tiny) c s
                  = ({| npos := np; nen := ne; ng := grad np; nold := Some (nen s); nit := S (nit s) |}, o) /\
                  (o = None \/ o = Some (NDone np 0 (S (nit s)) ne))
    end.
Proof. exact negcurv_progress. Qed.

(* Eager = compiled Newton-CG (partial): same point, status, iteration count and energy for every
   objective and every configuration incl. maxiter = 0 -- GIVEN a CG oracle that answers alike for
   both variants and independently of the absdelta argument (C15_equiv covers the variant; the
   absdelta independence is assumed: eager passes None / uses `old_fval` truthiness, compiled passes 0.0). *)
Theorem C17_equiv_partial :
  forall n f grad hessp sqrtq cg c,
    old_mincond c = false ->
    (forall mat j a a' rn, cg false mat j a rn = cg true mat j a' rn) ->
    forall x0 fuel, (nmaxiter c <= fuel)%nat ->
      run_newton_static n f grad hessp sqrtq cg c fuel x0 = run_newton_eager n f grad hessp sqrtq cg c x0.
Proof. exact newton_equiv. Qed.

(* ---- refutations ---------------------------------------------------------------------------------- *)
(* unrepaired `min_cond` of _static_newton_cg (fixes/C17-1.patch): f = x^4 - x^2, x0 = 1/2, absdelta = 10,
   maxiter = 1: step accepted at the second trial; eager status 0, compiled status 1 *)
Theorem C17_unrepaired_mincond_refuted :
  exists x fv,
    run_newton_eager 1 wf wg wh sqrt_approx (cg_c15 1 0 0) (wcfg true (Some 10%Q)) (qv [(1 # 2)%Q]) = NDone x 0 1 fv /\
    run_newton_static 1 wf wg wh sqrt_approx (cg_c15 1 0 0) (wcfg true (Some 10%Q)) 5 (qv [(1 # 2)%Q]) = NDone x 1 1 fv.
Proof. exact unrepaired_mincond_differs. Qed.

(* before the C15 repairs (DESIGN section 7, F6): start with negative curvature, eager aborts (-1),
   compiled reports convergence (0), neither moves *)
Theorem C17_unrepaired_negcurv_refuted :
  exists fv,
    run_newton_eager 1 wf wg wh sqrt_approx (cg_c15_gen true 1 0 0) (wcfg true None) (qv [(1 # 10)%Q]) = NDone (qv [(1 # 10)%Q]) (-1) 1 fv /\
    run_newton_static 1 wf wg wh sqrt_approx (cg_c15_gen true 1 0 0) (wcfg true None) 5 (qv [(1 # 10)%Q]) = NDone (qv [(1 # 10)%Q]) 0 1 fv.
Proof. exact unrepaired_negcurv_stuck. Qed.

(* non-vacuity / the repaired behaviour on the same start: both move downhill and agree *)
Example C17_repaired_negcurv_moves :
  exists x fv,
    run_newton_eager 1 wf wg wh sqrt_approx (cg_c15 1 0 0) (wcfg false None) (qv [(1 # 10)%Q]) = NDone x 1 1 fv /\
    run_newton_static 1 wf wg wh sqrt_approx (cg_c15 1 0 0) (wcfg false None) 5 (qv [(1 # 10)%Q]) = NDone x 1 1 fv /\
    fv < wf (qv [(1 # 10)%Q]).
Proof. exact repaired_negcurv_moves. Qed.
