(* C17 -- eager Newton-CG = compiled Newton-CG (control flow), given a CG oracle that answers alike. *)
From Coq Require Import List ZArith QArith Qcanon Bool Arith Lia.
Import ListNotations.
Require Import NV.C15.Model NV.C15.ProofsA NV.C17.Model NV.C17.ProofsB.
Open Scope Qc_scope.

Definition zresult (w : zst) : nresult :=
  if zraised w then NRaised else if zoof w then NOutOfFuel else NDone (zpos w) (zstatus w) (zit w) (zen w).

Section Eq.
Variable n : nat.
Variable f : vec -> Qc.
Variable grad : vec -> vec.
Variable hessp : vec -> vec -> vec.
Variable sqrtq : Qc -> Qc.
Variable cg : bool -> (vec -> vec) -> vec -> option Qc -> Qc -> outcome.
Variable c : ncfg.
Hypothesis Hmc : old_mincond c = false.
(* the CG oracle returns the same for both variants and does not depend on the absdelta argument
   (eager passes None / erf*(old-energy) only if old_fval is truthy, compiled always a number) *)
Hypothesis Hcg : forall mat j a a' rn, cg false mat j a rn = cg true mat j a' rn.

Notation eager_iter := (eager_iter n f grad hessp sqrtq cg c).
Notation eager_nloop := (eager_nloop n f grad hessp sqrtq cg c).
Notation static_iter := (static_iter n f grad hessp sqrtq cg c).
Notation static_nloop := (static_nloop n f grad hessp sqrtq cg c).

Definition zsync (s : nst) (v : zst) : Prop :=
  zpos v = npos s /\ zen v = nen s /\ zg v = ng s /\ zold v = nold s /\ zit v = nit s /\
  zstatus v = (-2)%Z /\ zraised v = false /\ zoof v = false.

Ltac zfin :=
  repeat first
    [ rewrite Zof_nat_ltb | rewrite Zof_nat_eqb | rewrite andb_false_r | rewrite andb_true_r
    | progress change (Z.eqb 0 0) with true | progress change (Z.eqb (-1) 0) with false
    | progress change (Z.ltb (-2) (-1)) with true | progress change (Z.ltb (-1) (-1)) with false
    | progress change (Z.ltb 0 (-1)) with false | progress change (Z.eqb (-2) (-1)) with false
    | progress change (Z.eqb (-1) (-1)) with true | progress change (Z.eqb 0 (-1)) with false
    | progress cbn [andb orb negb lstatus lit lpos len ldd lgs zpos zen zold zg zit zstatus zraised zoof
                    npos nen ng nold nit] ].

Lemma niter_sim : forall s v, zsync s v ->
  match eager_iter s with
  | (_, Some o) => Z.ltb (zstatus (static_iter v)) (-1) = false /\ zresult (static_iter v) = o
  | (s', None) =>
      nit s' = S (nit s) /\
      if Nat.eqb (S (nit s)) (nmaxiter c)
      then Z.ltb (zstatus (static_iter v)) (-1) = false /\
           zresult (static_iter v) = NDone (npos s') (Z.of_nat (nit s')) (nit s') (nen s')
      else zsync s' (static_iter v)
  end.
Proof.
  intros s v (Hp & He & Hg & Ho & Hi & Hs & Hr & Hf).
  unfold Model.eager_iter, Model.static_iter, zresult.
  rewrite Hp, He, Hg, Hi, Hs, Hmc.
  rewrite (Hcg (hessp (npos s)) (ng s) (eager_cg_absdelta c s) (Some (static_cg_absdelta c v))).
  destruct (cg true (hessp (npos s)) (ng s) (Some (static_cg_absdelta c v)) (cg_resnorm n sqrtq (ng s))) as [|nat_g info k|];
    [zfin; auto | | zfin; auto].
  pose proof (ls_static_eq n f hessp c (npos s) (ng s) (nen s) nat_g) as HL.
  destruct (ls_eager n f hessp c 9 0 (npos s) (ng s) (nen s) 1 nat_g) as [[[[[np ne] gs] dd] idx]|].
  - rewrite HL. zfin.
    change (Nat.leb (S idx) 2) with (Nat.ltb idx 2).
    destruct (absdelta_hit c (nen s - ne) && (Nat.ltb idx 2 && Nat.ltb (nminiter c) (S (nit s)))) eqn:EA.
    { zfin. match goal with |- context [if ?b then 0%Z else 0%Z] => replace (if b then 0%Z else 0%Z) with 0%Z by (destruct b; reflexivity) end.
      zfin. auto. }
    destruct (Qcleb (gs * norm1 n dd) (xtol c) && Nat.ltb (nminiter c) (S (nit s))) eqn:ED.
    { zfin. auto. }
    zfin. split; [reflexivity|].
    destruct (Nat.eqb (S (nit s)) (nmaxiter c)); zfin; [auto|].
    unfold zsync; zfin. repeat split; auto.
  - destruct HL as (ret & HL & Hst). rewrite HL, Hst. zfin.
    unfold absdelta_hit. destruct (nabsdelta c); zfin; auto.
Qed.

Lemma nloop_sim : forall k s v, zsync s v -> (nit s + k = nmaxiter c)%nat -> (1 <= k)%nat ->
  forall fuel, (k <= fuel)%nat ->
  option_map zresult (static_nloop fuel v) = Some (eager_nloop k s).
Proof.
  induction k as [|k IH]; intros s v Hs Hk H1 fuel Hf; [lia|].
  destruct fuel as [|fu]; [lia|].
  pose proof (niter_sim s v Hs) as Hstep.
  destruct Hs as (Hp & He & Hg & Ho & Hi & Hst & Hr & Hf0).
  cbn [Model.static_nloop Model.eager_nloop]. rewrite Hst. change (Z.ltb (-2) (-1)) with true. cbv iota.
  destruct (eager_iter s) as [s' [o|]].
  - destruct Hstep as [Hnr Hres].
    destruct fu; cbn [Model.static_nloop]; rewrite Hnr; cbn [option_map]; now rewrite Hres.
  - destruct Hstep as [Hit Hstep].
    destruct (Nat.eqb_spec (S (nit s)) (nmaxiter c)) as [E|E].
    + destruct Hstep as [Hnr Hres].
      assert (k = 0)%nat by lia. subst k. cbn [Model.eager_nloop].
      destruct fu; cbn [Model.static_nloop]; rewrite Hnr; cbn [option_map]; now rewrite Hres.
    + apply IH; auto; lia.
Qed.

Theorem newton_equiv : forall x0 fuel, (nmaxiter c <= fuel)%nat ->
  run_newton_static n f grad hessp sqrtq cg c fuel x0 = run_newton_eager n f grad hessp sqrtq cg c x0.
Proof.
  intros x0 fuel Hf. unfold run_newton_static, run_newton_eager.
  destruct (nmaxiter c) as [|m] eqn:Em.
  - (* maxiter = 0: both return the start with status 0 *)
    assert (Hs : zstatus (sinit f grad c x0) = 0%Z) by (unfold sinit; cbn [zstatus]; rewrite Em; reflexivity).
    assert (HL : static_nloop fuel (sinit f grad c x0) = Some (sinit f grad c x0)).
    { destruct fuel; cbn [Model.static_nloop]; rewrite Hs; reflexivity. }
    rewrite HL. cbn [Model.eager_nloop]. unfold sinit, ninit; cbn. rewrite Em. reflexivity.
  - assert (Hs : zsync (ninit f grad c x0) (sinit f grad c x0)).
    { unfold zsync, sinit, ninit; cbn. rewrite Em. repeat split; reflexivity. }
    pose proof (nloop_sim (S m) _ _ Hs ltac:(cbn; lia) ltac:(lia) fuel Hf) as HL.
    destruct (static_nloop fuel (sinit f grad c x0)) as [w|]; cbn [option_map] in HL; [|discriminate].
    injection HL as HL. exact HL.
Qed.
End Eq.
