(* C17 -- executable model of nifty/re/optimize.py `_newton_cg` (eager), `_static_newton_cg` +
   `_line_search_successive_halving` (compiled) and of the outer iteration of `_trust_ncg`, over exact
   rationals.  The objective enters through the oracles f, grad, hessp; the conjugate-gradient solver
   through the oracle `cg` (instantiated with the C15 model `run_eager`/`run_static` for running).

   The model mirrors the code WITH the proposed repairs fixes/C17-1.patch (`_static_newton_cg`:
   `min_cond` counts trial steps like `_newton_cg`) and fixes/C17-2.patch (reset direction
   `gam/abs(curv)*g`); the unrepaired lines are selected by the flags old_mincond / old_reset.

   NO proofs in this file.  Not modelled: NaN handling (`energy is NaN`), `time_threshold`, logging,
   nfev/njev/nhev counters, `custom_gradnorm`, `norm_ord` other than 1 for the descent norm. *)
From Coq Require Import List ZArith QArith Qcanon Qround Bool Arith.
Import ListNotations.
Require Import NV.C15.Model.
Open Scope Qc_scope.

Definition Qcmin (a b : Qc) : Qc := if Qcltb b a then b else a.
Definition hundred : Qc := Q2Qc 100.
Definition two : Qc := Q2Qc 2.

Record ncfg := {
  nminiter : nat; nmaxiter : nat;
  erf : option Qc;               (* energy_reduction_factor *)
  nabsdelta : option Qc;
  xtol : Qc;                     (* already multiplied by size(x0) *)
  old_fval0 : option Qc;
  old_mincond : bool;            (* true = unrepaired `ret_ls["iteration"] < 2` (C17-1.patch) *)
  old_reset : bool               (* true = unrepaired reset direction `gam / curv * g` (C17-2.patch) *)
}.

Inductive nresult :=
| NRaised                                             (* ValueError("conjugate gradient failed") *)
| NDone (x : vec) (status : Z) (nit : nat) (fval : Qc)
| NOutOfFuel.

Section Newton.
Variable n : nat.
Variable f : vec -> Qc.
Variable grad : vec -> vec.
Variable hessp : vec -> vec -> vec.
Variable sqrtq : Qc -> Qc.
(* cg static? mat j absdelta resnorm  (norm_ord = 1, _raise_nonposdef = False, other arguments default) *)
Variable cg : bool -> (vec -> vec) -> vec -> option Qc -> Qc -> outcome.
Variable c : ncfg.

(*  mag_g = jft_norm(g, ord=1);  cg_resnorm = jnp.minimum(0.5, jnp.sqrt(mag_g)) * mag_g  *)
Definition cg_resnorm (g : vec) : Qc :=
  let mag_g := norm1 n g in Qcmin half (sqrtq mag_g) * mag_g.

(*  gam = vdot(g, g); curv = vdot(g, hessp(pos, g)); dd = gam / curv * g   [repaired: gam / abs(curv) * g] *)
Definition reset_dir (pos g : vec) : vec :=
  let gam := dot n g g in
  let curv := dot n g (hessp pos g) in
  vscale n (gam / (if old_reset c then curv else Qcabs curv)) g.

(* ---------------- _newton_cg: `for naive_ls_it in range(9)` ; idx = naive_ls_it, fuel = 9 - idx ---- *)
Fixpoint ls_eager (fuel idx : nat) (pos g : vec) (energy gs : Qc) (dd : vec)
  : option (vec * Qc * Qc * vec * nat) :=
  match fuel with
  | O => None                                                    (* for ... else: status = -1; break *)
  | S k =>
    let new_pos := axpy n (- gs) dd pos in                       (* new_pos = pos - grad_scaling * dd *)
    let new_energy := f new_pos in
    if Qcleb new_energy energy                                   (* if new_energy <= energy: break *)
    then Some (new_pos, new_energy, gs, dd, idx)
    else if Nat.eqb idx 5                                        (* grad_scaling /= 2; if naive_ls_it == 5: reset *)
    then ls_eager k (S idx) pos g energy 1 (reset_dir pos g)
    else ls_eager k (S idx) pos g energy (gs / two) dd
  end.

Record nst := { npos : vec; nen : Qc; ng : vec; nold : option Qc; nit : nat }.

(*  if old_fval and energy_reduction_factor: cg_absdelta = energy_reduction_factor * (old_fval - energy)
    else: cg_absdelta = None if absdelta is None else absdelta / 100.0                               *)
Definition eager_cg_absdelta (s : nst) : option Qc :=
  match nold s, erf c with
  | Some o, Some e =>
      if negb (Qceqb o 0) && negb (Qceqb e 0) then Some (e * (o - nen s))
      else option_map (fun a => a / hundred) (nabsdelta c)
  | _, _ => option_map (fun a => a / hundred) (nabsdelta c)
  end.

Definition absdelta_hit (ediff : Qc) : bool :=
  match nabsdelta c with Some a => Qcleb 0 ediff && Qcltb ediff a | None => false end.

Definition eager_iter (s : nst) : nst * option nresult :=
  let i := S (nit s) in
  match cg false (hessp (npos s)) (ng s) (eager_cg_absdelta s) (cg_resnorm (ng s)) with
  | Done nat_g _ _ =>
    match ls_eager 9 0 (npos s) (ng s) (nen s) 1 nat_g with
    | None => (s, Some (NDone (npos s) (-1) i (nen s)))           (* Energy would increase; aborting *)
    | Some (new_pos, new_energy, gs, dd, idx) =>
      let ediff := nen s - new_energy in                          (* energy_diff = energy - new_energy *)
      let s' := {| npos := new_pos; nen := new_energy; ng := grad new_pos; nold := Some (nen s); nit := i |} in
      let descent_norm := gs * norm1 n dd in                      (* grad_scaling * gradnorm(dd) *)
      let min_cond := Nat.ltb idx 2 && Nat.ltb (nminiter c) i in  (* naive_ls_it < 2 and i > miniter *)
      if absdelta_hit ediff && min_cond then (s', Some (NDone new_pos 0 i new_energy))
      else if Qcleb descent_norm (xtol c) && Nat.ltb (nminiter c) i then (s', Some (NDone new_pos 0 i new_energy))
      else (s', None)
    end
  | _ => (s, Some NRaised)                                        (* info < 0: conjugate gradient failed *)
  end.

(* for i in range(1, maxiter + 1) ... else: status = i *)
Fixpoint eager_nloop (fuel : nat) (s : nst) : nresult :=
  match fuel with
  | O => NDone (npos s) (Z.of_nat (nit s)) (nit s) (nen s)
  | S k => match eager_iter s with
           | (_, Some o) => o
           | (s', None) => eager_nloop k s'
           end
  end.

Definition ninit (x0 : vec) : nst :=
  {| npos := x0; nen := f x0; ng := grad x0; nold := old_fval0 c; nit := 0 |}.
Definition run_newton_eager (x0 : vec) : nresult := eager_nloop (nmaxiter c) (ninit x0).

(* ---------------- _line_search_successive_halving: line_search_single_step ------------------------- *)
Record lsst := { lstatus : Z; lit : nat; lpos : vec; len : Qc; ldd : vec; lgs : Qc }.

Definition ls_step (pos g : vec) (start_energy : Qc) (v : lsst) : lsst :=
  let i := lit v in
  let new_pos := axpy n (- lgs v) (ldd v) pos in
  let new_energy := f new_pos in
  let status1 := if Qcleb new_energy start_energy then 0%Z else lstatus v in   (* where(new_energy <= start_energy, 0, status) *)
  let gs1 := if Z.ltb status1 (-1) then lgs v / two else lgs v in               (* where(status < -1, grad_scaling / 2, ...) *)
  let do_reset := Nat.eqb i 5 && Z.ltb status1 (-1) in
  let gs2 := if do_reset then 1 else gs1 in
  let dd' := if do_reset then reset_dir pos g else ldd v in
  let do_abort := Nat.eqb i 8 && Z.ltb status1 (-1) in
  let status2 := if do_abort then (-1)%Z else status1 in
  {| lstatus := status2; lit := S i; lpos := new_pos; len := new_energy; ldd := dd'; lgs := gs2 |}.

Fixpoint ls_loop (fuel : nat) (pos g : vec) (start_energy : Qc) (v : lsst) : option lsst :=
  if Z.ltb (lstatus v) (-1) then
    match fuel with O => None | S k => ls_loop k pos g start_energy (ls_step pos g start_energy v) end
  else Some v.

(* the sequence of trial points whose energy is evaluated (observable through fun_and_grad) *)
Fixpoint ls_eager_trace (fuel idx : nat) (pos g : vec) (energy gs : Qc) (dd : vec) : list vec :=
  match fuel with
  | O => []
  | S k =>
    let new_pos := axpy n (- gs) dd pos in
    new_pos ::
    (if Qcleb (f new_pos) energy then []
     else if Nat.eqb idx 5 then ls_eager_trace k (S idx) pos g energy 1 (reset_dir pos g)
     else ls_eager_trace k (S idx) pos g energy (gs / two) dd)
  end.

Fixpoint ls_loop_trace (fuel : nat) (pos g : vec) (start_energy : Qc) (v : lsst) : list vec :=
  if Z.ltb (lstatus v) (-1) then
    match fuel with
    | O => []
    | S k => let v' := ls_step pos g start_energy v in lpos v' :: ls_loop_trace k pos g start_energy v'
    end
  else [].

Definition ls_init (pos g nat_g : vec) : lsst :=
  {| lstatus := (-2)%Z; lit := 0; lpos := pos; len := 0; ldd := nat_g; lgs := 1 |}.

(* ---------------- _static_newton_cg: single_newton_cg_step ----------------------------------------- *)
Record zst := { zpos : vec; zen : Qc; zold : option Qc (* None = inf *); zg : vec; zit : nat; zstatus : Z;
                zraised : bool; zoof : bool }.

Definition static_cg_absdelta (v : zst) : Qc :=
  let a0 := match nabsdelta c with None => 0 | Some a => a / hundred end in   (* 0.0 if absdelta is None else absdelta / 100 *)
  match erf c with
  | Some e => match zold v with Some o => e * (o - zen v) | None => a0 end    (* where(~isinf(old_energy), erf*(old-energy), .) *)
  | None => a0
  end.

Definition static_iter (v : zst) : zst :=
  let i := S (zit v) in
  match cg true (hessp (zpos v)) (zg v) (Some (static_cg_absdelta v)) (cg_resnorm (zg v)) with
  | Done nat_g _ _ =>
    match ls_loop 10 (zpos v) (zg v) (zen v) (ls_init (zpos v) (zg v) nat_g) with
    | None => {| zpos := zpos v; zen := zen v; zold := zold v; zg := zg v; zit := i; zstatus := (-1)%Z; zraised := false; zoof := true |}
    | Some ret =>
      let status1 := if negb (Z.eqb (lstatus ret) 0) then (-1)%Z else zstatus v in       (* where(ret_ls["status"] != 0, -1, status) *)
      let ok := Z.ltb status1 (-1) in
      let old' := if ok then Some (zen v) else zold v in
      let en' := if ok then len ret else zen v in
      let ediff := if ok then zen v - en' else 0 in
      let pos' := if ok then lpos ret else zpos v in
      let g' := if ok then grad (lpos ret) else zg v in
      let gs := if ok then lgs ret else 0 in
      let descent_norm := gs * norm1 n (ldd ret) in
      let min_cond := (if old_mincond c then Nat.ltb (lit ret) 2 else Nat.leb (lit ret) 2)
                      && Nat.ltb (nminiter c) i in
      let status2 := if absdelta_hit ediff && min_cond && negb (Z.eqb status1 (-1)) then 0%Z else status1 in
      let status3 := if Qcleb descent_norm (xtol c) && Nat.ltb (nminiter c) i && negb (Z.eqb status2 (-1))
                     then 0%Z else status2 in
      let status4 := if Nat.eqb i (nmaxiter c) && Z.ltb status3 (-1) then Z.of_nat i else status3 in
      {| zpos := pos'; zen := en'; zold := old'; zg := g'; zit := i; zstatus := status4; zraised := false; zoof := false |}
    end
  | _ => {| zpos := zpos v; zen := zen v; zold := zold v; zg := zg v; zit := i; zstatus := (-1)%Z; zraised := true; zoof := false |}
  end.

Fixpoint static_nloop (fuel : nat) (v : zst) : option zst :=
  if Z.ltb (zstatus v) (-1) then
    match fuel with O => None | S k => static_nloop k (static_iter v) end
  else Some v.

(* "status": jnp.where(maxiter == 0, 0, -2) ;  "old_energy": old_fval if old_fval is not None else jnp.inf *)
(* trial points of the FIRST Newton iteration, eager resp. compiled *)
Definition first_trials_eager (x0 : vec) : list vec :=
  let s := ninit x0 in
  match cg false (hessp x0) (ng s) (eager_cg_absdelta s) (cg_resnorm (ng s)) with
  | Done nat_g _ _ => ls_eager_trace 9 0 x0 (ng s) (nen s) 1 nat_g
  | _ => []
  end.

Definition sinit (x0 : vec) : zst :=
  {| zpos := x0; zen := f x0; zold := old_fval0 c; zg := grad x0; zit := 0;
     zstatus := if Nat.eqb (nmaxiter c) 0 then 0%Z else (-2)%Z; zraised := false; zoof := false |}.

Definition first_trials_static (x0 : vec) : list vec :=
  let v := sinit x0 in
  match cg true (hessp x0) (zg v) (Some (static_cg_absdelta v)) (cg_resnorm (zg v)) with
  | Done nat_g _ _ => ls_loop_trace 10 x0 (zg v) (zen v) (ls_init x0 (zg v) nat_g)
  | _ => []
  end.

Definition run_newton_static (fuel : nat) (x0 : vec) : nresult :=
  match static_nloop fuel (sinit x0) with
  | None => NOutOfFuel
  | Some v => if zraised v then NRaised else if zoof v then NOutOfFuel
              else NDone (zpos v) (zstatus v) (zit v) (zen v)
  end.
End Newton.

(* ---------------- _trust_ncg: outer iteration with the sub-problem as an oracle -------------------- *)
(* sub pos f_k g_k trust_radius = (step, pred_f, hits_boundary).  IEEE division by zero is made explicit:
   rho = actual/pred;  `rho > eta`, `rho < 0.25`, `rho > 0.75` for pred = 0 follow a/0 = +-inf, 0/0 = nan. *)
Record tcfg := { tmaxiter : nat; eta : Qc; tgtol : Qc; tabsdelta : option Qc; max_tr : Qc; teps : Qc }.
Record tst := { tx : vec; tf : Qc; tg : vec; tgmag : Qc; tnit : nat; ttr : Qc; tstatus : Z; tconv : bool }.

Section Trust.
Variable n : nat.
Variable f : vec -> Qc.
Variable grad : vec -> vec.
Variable sub : vec -> Qc -> vec -> Qc -> vec * Qc * bool.
Variable c : tcfg.

Definition quarter : Qc := Q2Qc (1 # 4).
Definition three_quarters : Qc := Q2Qc (3 # 4).

(* x > y for the IEEE quotient x = a / p *)
Definition quot_gt (a p y : Qc) : bool :=
  if Qceqb p 0 then Qcltb 0 a (* +inf > y; -inf, nan: false *) else Qcltb y (a / p).
Definition quot_lt (a p y : Qc) : bool :=
  if Qceqb p 0 then Qcltb a 0 else Qcltb (a / p) y.

Definition trust_body (s : tst) : tst :=
  let i := S (tnit s) in
  let '(step, pred_f, hits) := sub (tx s) (tf s) (tg s) (ttr s) in
  let x1 := axpy n 1 step (tx s) in                               (* x_kp1 = x_k + step *)
  let f1 := f x1 in
  let g1 := grad x1 in
  let actual := tf s - f1 in                                      (* actual_reduction *)
  let pred := tf s - pred_f in                                    (* pred_reduction *)
  let tr1 := if quot_lt actual pred quarter then ttr s * quarter else ttr s in
  let tr2 := if quot_gt actual pred three_quarters && hits then Qcmin (two * ttr s) (max_tr c) else tr1 in
  let acc := quot_gt actual pred (eta c) in                       (* rho > eta *)
  let f2 := if acc then f1 else tf s in
  let x2 := if acc then x1 else tx s in
  let g2 := if acc then g1 else tg s in
  let gm2 := if acc then norm1 n g1 else tgmag s in
  let energy_eps := teps c * Qcabs f2 in
  let conv0 := Qcleb actual energy_eps && Qcltb (- energy_eps) actual in
  let conv1 := conv0 || Qcltb gm2 (tgtol c) in
  let conv2 := match tabsdelta c with
               | Some a => if Qceqb a 0 then conv1 else conv1 || (acc && Qcltb 0 actual && Qcltb actual a)
               | None => conv1 end in
  let st1 := if conv2 then 0%Z else tstatus s in
  let st2 := if Nat.leb (tmaxiter c) i then 1%Z else st1 in
  let st3 := if Qcleb pred 0 then 2%Z else st2 in
  {| tx := x2; tf := f2; tg := g2; tgmag := gm2; tnit := i; ttr := tr2; tstatus := st3; tconv := conv2 |}.

(* while not converged and status == 0 *)
Fixpoint trust_loop (fuel : nat) (s : tst) : option tst :=
  if negb (tconv s) && Z.eqb (tstatus s) 0 then
    match fuel with O => None | S k => trust_loop k (trust_body s) end
  else Some s.

Definition trust_init (x0 : vec) (tr0 : Qc) : tst :=
  {| tx := x0; tf := f x0; tg := grad x0; tgmag := norm1 n (grad x0); tnit := 0; ttr := tr0;
     tstatus := if Nat.eqb (tmaxiter c) 0 then 1%Z else 0%Z; tconv := false |}.
End Trust.

(* ---------------- concrete instances used by the correspondence check ------------------------------ *)
(* sqrt by Heron steps rounded down to multiples of 2^-100 (only used where mag_g < 1/4) *)
Definition qround (x : Qc) : Qc := Q2Qc (Qfloor (this x * inject_Z (2 ^ 100)) # (2 ^ 100)).
Fixpoint heron (k : nat) (m s : Qc) : Qc :=
  match k with O => s | S k' => heron k' m (qround ((s + m / s) / two)) end.
Definition sqrt_approx (m : Qc) : Qc := if Qcleb m 0 then 0 else heron 70 m (Qcmax m 1).

(* f(x) = sum_i (a_i x_i^4/4 + b_i x_i^2/2 + c_i x_i) + k (x_1 - x_0^2)^2 *)
Section Poly.
Variable n : nat.
Variables pa pb pc : vec.
Variable pk : Qc.
Definition quarterq : Qc := Q2Qc (1 # 4).
Definition poly_u (x : vec) : Qc := vget x 1 - vget x 0 * vget x 0.
Definition poly_f (x : vec) : Qc :=
  sumn n (fun i => vget pa i * (vget x i * vget x i * vget x i * vget x i) * quarterq
                   + vget pb i * (vget x i * vget x i) * half + vget pc i * vget x i)
  + pk * (poly_u x * poly_u x).
Definition poly_grad (x : vec) : vec :=
  vmk n (fun i => vget pa i * (vget x i * vget x i * vget x i) + vget pb i * vget x i + vget pc i
                  + (if Nat.eqb i 0 then - (Q2Qc 4 * pk * vget x 0 * poly_u x) else 0)
                  + (if Nat.eqb i 1 then two * pk * poly_u x else 0)).
Definition poly_hessp (x v : vec) : vec :=
  vmk n (fun i => (Q2Qc 3 * vget pa i * (vget x i * vget x i) + vget pb i) * vget v i
                  + (if Nat.eqb i 0 then (- (Q2Qc 4 * pk * poly_u x) + Q2Qc 8 * pk * (vget x 0 * vget x 0)) * vget v 0
                                          - Q2Qc 4 * pk * vget x 0 * vget v 1 else 0)
                  + (if Nat.eqb i 1 then - (Q2Qc 4 * pk * vget x 0 * vget v 0) + two * pk * vget v 1 else 0)).
End Poly.

(* the CG oracle instantiated with the C15 model (kwargs of the Newton minimisers: norm_ord = 1,
   _raise_nonposdef = False, miniter/maxiter default, tol/atol unused because resnorm is given) *)
Definition cg_cfg (old : bool) (eps tiny : Qc) (ad : option Qc) (rn : Qc) : cfg :=
  {| absdelta := ad; resnorm := Some rn; ord2 := false; tol := 0; atol := 0;
     miniter_o := None; maxiter_o := None; raise_npd := false; nreset := 20;
     eps := eps; tiny := tiny; old_fallback := old; old_guards := old |}.
Definition cg_c15_gen (old : bool) (n : nat) (eps tiny : Qc) (static : bool) (mat : vec -> vec) (j : vec)
                  (ad : option Qc) (rn : Qc) : outcome :=
  if static then run_static n mat j (cg_cfg old eps tiny ad rn) (20 * n + 210) None
  else run_eager n mat j (cg_cfg old eps tiny ad rn) None.
Definition cg_c15 := cg_c15_gen false.

Definition nresult_matches (n : nat) (tolx tolf : Qc) (o : nresult) (raised : bool) (x : vec) (status : Z) (nit : nat) (fv : Qc) : bool :=
  match o with
  | NRaised => raised
  | NDone mx ms mn mf => negb raised && Z.eqb ms status && Nat.eqb mn nit && vclose n tolx mx x
                         && Qcleb (Qcabs (mf - fv)) tolf
  | NOutOfFuel => false
  end.

Definition mkncfg (mi mx : nat) (erf_ ad : option Q) (xt : Q) (ofv : option Q) : ncfg :=
  {| nminiter := mi; nmaxiter := mx; erf := qo erf_; nabsdelta := qo ad; xtol := qc xt; old_fval0 := qo ofv;
     old_mincond := false; old_reset := false |}.

(* one correspondence case for the Newton minimisers on a polynomial objective *)
Definition chk_newton (n : nat) (a b c_ : list Q) (k : Q) (x0 : list Q) (cf : ncfg) (eps tiny tolx tolf : Q)
                      (re : bool) (xe : list Q) (se : Z) (ne : nat) (fe : Q)
                      (rs : bool) (xs : list Q) (ss : Z) (ns : nat) (fs : Q) : bool :=
  let f := poly_f n (qv a) (qv b) (qv c_) (qc k) in
  let g := poly_grad n (qv a) (qv b) (qv c_) (qc k) in
  let h := poly_hessp n (qv a) (qv b) (qc k) in
  let cg := cg_c15 n (qc eps) (qc tiny) in
  nresult_matches n (qc tolx) (qc tolf) (run_newton_eager n f g h sqrt_approx cg cf (qv x0)) re (qv xe) se ne (qc fe) &&
  nresult_matches n (qc tolx) (qc tolf) (run_newton_static n f g h sqrt_approx cg cf (nmaxiter cf + 2) (qv x0)) rs (qv xs) ss ns (qc fs).

(* the logged sequences of trial points of the first iteration (eager, compiled) against the model *)
Fixpoint vlist_close (n : nat) (tolx : Qc) (a b : list vec) : bool :=
  match a, b with
  | [], [] => true
  | x :: a', y :: b' => vclose n tolx x y && vlist_close n tolx a' b'
  | _, _ => false
  end.
Definition chk_trials (n : nat) (a b c_ : list Q) (k : Q) (x0 : list Q) (cf : ncfg) (eps tiny tolx : Q)
                      (te ts : list (list Q)) : bool :=
  let f := poly_f n (qv a) (qv b) (qv c_) (qc k) in
  let g := poly_grad n (qv a) (qv b) (qv c_) (qc k) in
  let h := poly_hessp n (qv a) (qv b) (qc k) in
  let cg := cg_c15 n (qc eps) (qc tiny) in
  vlist_close n (qc tolx) (first_trials_eager n f g h sqrt_approx cg cf (qv x0)) (qm te) &&
  vlist_close n (qc tolx) (first_trials_static n f g h sqrt_approx cg cf (qv x0)) (qm ts).
