(* C06 -- Field arithmetic and contractions follow array semantics with volumes.
   Executable model, no proofs.

   Mirrors nifty/cl/field.py (weight, _contraction_helper/sum/prod, integrate, mean, var, vdot,
   _binary_op), nifty/cl/domain_tuple.py (scalar_weight, total_volume), utilities.parse_spaces and
   the MultiField combinators (s_vdot, _binary_op, flexible_addsub/unite, union).

   Numbers: exact.  Scalars (volumes, counts) are rationals Qc; field values are Gaussian rationals
   C = Qc * Qc (real and integer fields are the values with imaginary part 0, which every operation
   here preserves).  Data types / float rounding are outside the model (the correspondence uses
   dyadic volumes and small integer data so that float64 is exact, or a 2^-40 relative tolerance).

   Arrays: a field on a domain tuple with k sub-domains is a k-level nested list [tens k], ONE level
   per sub-domain (the pixels of a sub-domain in row-major order).  A multi-axis sub-domain
   (RGSpace((2,3))) is one level of 6 entries: contracting all axes of a sub-domain is contracting
   that level; the harness reshapes with NumPy.  Contractions are modelled "keepdims": a contracted
   level becomes a singleton list (the harness inserts the unit axes). *)
From Coq Require Import QArith Qabs Qcanon ZArith List Bool Arith.
Import ListNotations.
Local Open Scope Qc_scope.

(* ---------- values ---------- *)
Definition C : Type := (Qc * Qc)%type.
Definition c0 : C := (0, 0).
Definition c1 : C := (1, 0).
Definition cre (q : Qc) : C := (q, 0).
Definition cadd (a b : C) : C := (fst a + fst b, snd a + snd b).
Definition csub (a b : C) : C := (fst a - fst b, snd a - snd b).
Definition cmul (a b : C) : C := (fst a * fst b - snd a * snd b, fst a * snd b + snd a * fst b).
Definition cconj (a : C) : C := (fst a, - snd a).
Definition cscale (q : Qc) (a : C) : C := (q * fst a, q * snd a).
Definition cabs2 (a : C) : C := (fst a * fst a + snd a * snd a, 0).      (* |a|^2, real *)

Definition qpow (q : Qc) (p : Z) : Qc :=
  match p with
  | Z0 => 1
  | Zpos n => Qcpower q (Pos.to_nat n)
  | Zneg n => Qcpower (/ q) (Pos.to_nat n)
  end.

(* ---------- nested arrays ---------- *)
Fixpoint tens (k : nat) : Type := match k with O => C | S k' => list (tens k') end.

Fixpoint map2 {A B D : Type} (f : A -> B -> D) (l1 : list A) (l2 : list B) : list D :=
  match l1, l2 with
  | a :: r, b :: s => f a b :: map2 f r s
  | _, _ => []
  end.

(* zip that keeps the longer tail: [] is a unit.  Equal to element-wise f on equal shapes (the only
   case that occurs, Proofs.shaped); makes sums over an axis a plain fold with unit [] *)
Fixpoint padzip {A : Type} (f : A -> A -> A) (l1 l2 : list A) : list A :=
  match l1, l2 with
  | [], l => l
  | l, [] => l
  | a :: r, b :: s => f a b :: padzip f r s
  end.

Fixpoint tmap (k : nat) (f : C -> C) : tens k -> tens k :=
  match k return tens k -> tens k with
  | O => fun t => f t
  | S k' => fun t => map (tmap k' f) t
  end.

(* element-wise binary operation of two arrays of the same shape *)
Fixpoint tzip (k : nat) (f : C -> C -> C) : tens k -> tens k -> tens k :=
  match k return tens k -> tens k -> tens k with
  | O => fun a b => f a b
  | S k' => fun a b => map2 (tzip k' f) a b
  end.

Fixpoint tpz (k : nat) (f : C -> C -> C) : tens k -> tens k -> tens k :=
  match k return tens k -> tens k -> tens k with
  | O => fun a b => f a b
  | S k' => fun a b => padzip (tpz k' f) a b
  end.

Definition tunit (k : nat) (e : C) : tens k :=
  match k return tens k with O => e | S _ => [] end.

(* reduce a list of equally shaped arrays element-wise (np.add.reduce / np.multiply.reduce along
   one axis) *)
Definition treduce (k : nat) (f : C -> C -> C) (e : C) (l : list (tens k)) : tens k :=
  fold_right (tpz k f) (tunit k e) l.

Definition tscale (k : nat) (q : Qc) : tens k -> tens k := tmap k (cscale q).

(* ndarray.sum/prod(axis=axes of the sub-domains whose mask bit is set), keepdims *)
Fixpoint contract (k : nat) (f : C -> C -> C) (e : C) (mask : list bool) : tens k -> tens k :=
  match k return tens k -> tens k with
  | O => fun t => t
  | S k' => fun t =>
      let t' := map (contract k' f e (tl mask)) t in
      if hd false mask then [treduce k' f e t'] else t'
  end.

(* aout *= wgt.reshape(new_shape): multiply along level i with the weight vector ws (broadcast over
   all other levels) *)
Fixpoint tweight (k i : nat) (ws : list Qc) : tens k -> tens k :=
  match k return tens k -> tens k with
  | O => fun t => t
  | S k' => fun t =>
      match i with
      | O => map2 (fun w x => tscale k' w x) ws t
      | S i' => map (tweight k' i' ws) t
      end
  end.

(* np.broadcast_to(m (keepdims shape), shape of t): used for  x - mean  in var *)
Fixpoint tbcast (k : nat) (f : C -> C -> C) : tens k -> tens k -> tens k :=
  match k return tens k -> tens k -> tens k with
  | O => fun t m => f t m
  | S k' => fun t m =>
      match m with
      | [m0] => map (fun x => tbcast k' f x m0) t           (* singleton level: broadcast *)
      | _ => map2 (tbcast k' f) t m
      end
  end.

(* ---------- domains ---------- *)
Inductive volk :=
| Uniform (w : Qc)            (* scalar_dvol = w  (RGSpace, HPSpace, LMSpace) *)
| PerPixel (ws : list Qc)     (* scalar_dvol = None, dvol = array  (DOFSpace, GLSpace, PowerSpace) *)
| NoVol.                      (* UnstructuredDomain: no dvol / scalar_dvol / total_volume attribute *)
Record space := mkSp { sn : nat; svol : volk }.
Definition domain := list space.

Fixpoint qsum (l : list Qc) : Qc := match l with [] => 0 | x :: r => x + qsum r end.
Definition nQ (n : nat) : Qc := Q2Qc (inject_Z (Z.of_nat n)).

(* utilities.parse_spaces:  None -> all;  out of range / repeated -> ValueError (None here) *)
Fixpoint nodupb (l : list nat) : bool :=
  match l with [] => true | x :: r => negb (existsb (Nat.eqb x) r) && nodupb r end.
Definition parse_spaces (sp : option (list nat)) (n : nat) : option (list nat) :=
  match sp with
  | None => Some (seq 0 n)
  | Some l => if forallb (fun i => i <? n) l && nodupb l then Some l else None
  end.
Definition mask_of (spaces : list nat) (n : nat) : list bool :=
  map (fun i => existsb (Nat.eqb i) spaces) (seq 0 n).

(* DomainTuple.scalar_weight (domain_tuple.py:141-149):
     res = 1.;  for i in spaces: tmp = self._dom[i].scalar_dvol
                                 if tmp is None: return None
                                 res *= tmp *)
Inductive wres := WErr | WNone | WSome (w : Qc).
Fixpoint scalar_weight_loop (dom : domain) (spaces : list nat) (res : Qc) : wres :=
  match spaces with
  | [] => WSome res
  | i :: r =>
      match nth_error dom i with
      | Some s => match svol s with
                  | Uniform w => scalar_weight_loop dom r (res * w)
                  | PerPixel _ => WNone
                  | NoVol => WErr            (* AttributeError *)
                  end
      | None => WErr
      end
  end.
Definition all_spaces (sp : option (list nat)) (n : nat) : list nat :=
  match sp with None => seq 0 n | Some l => l end.
Definition scalar_weight (dom : domain) (sp : option (list nat)) : wres :=
  scalar_weight_loop dom (all_spaces sp (length dom)) 1.

(* StructuredDomain.total_volume:  size * dvol if scalar else sum(dvol) *)
Definition space_volume (s : space) : option Qc :=
  match svol s with
  | Uniform w => Some (nQ (sn s) * w)
  | PerPixel ws => Some (qsum ws)
  | NoVol => None
  end.
Fixpoint total_volume_loop (dom : domain) (spaces : list nat) (res : Qc) : option Qc :=
  match spaces with
  | [] => Some res
  | i :: r => match nth_error dom i with
              | Some s => match space_volume s with
                          | Some v => total_volume_loop dom r (res * v)
                          | None => None end
              | None => None
              end
  end.
Definition total_volume (dom : domain) (sp : option (list nat)) : option Qc :=
  total_volume_loop dom (all_spaces sp (length dom)) 1.

(* Field.weight (field.py:302-322):
     aout = self.val.copy();  spaces = parse_spaces(spaces, len(domain));  fct = 1.
     for ind in spaces:
         wgt = self._domain[ind].dvol
         if np.isscalar(wgt): fct *= wgt
         else: ... aout *= wgt.reshape(new_shape)**power
     fct = fct**power
     if fct != 1.: aout *= fct *)
Fixpoint weight_loop (k : nat) (p : Z) (dom : domain) (spaces : list nat) (fct : Qc) (t : tens k)
  : option (Qc * tens k) :=
  match spaces with
  | [] => Some (fct, t)
  | i :: r =>
      match nth_error dom i with
      | Some s => match svol s with
                  | Uniform w => weight_loop k p dom r (fct * w) t
                  | PerPixel ws => weight_loop k p dom r fct (tweight k i (map (fun w => qpow w p) ws) t)
                  | NoVol => None
                  end
      | None => None
      end
  end.
Definition weight (k : nat) (p : Z) (dom : domain) (sp : option (list nat)) (t : tens k) : option (tens k) :=
  match parse_spaces sp (length dom) with
  | Some spaces =>
      match weight_loop k p dom spaces 1 t with
      | Some (fct, t') => let f := qpow fct p in
                          Some (if Qc_eq_bool f 1 then t' else tscale k f t')
      | None => None
      end
  | None => None
  end.

(* _contraction_helper('sum' / 'prod', spaces) *)
Definition csum (k : nat) (dom : domain) (sp : option (list nat)) (t : tens k) : option (tens k) :=
  match parse_spaces sp (length dom) with
  | Some spaces => Some (contract k cadd c0 (mask_of spaces (length dom)) t)
  | None => None
  end.
Definition cprod (k : nat) (dom : domain) (sp : option (list nat)) (t : tens k) : option (tens k) :=
  match parse_spaces sp (length dom) with
  | Some spaces => Some (contract k cmul c1 (mask_of spaces (length dom)) t)
  | None => None
  end.

(* Field.integrate (field.py:516-522):
     swgt = self.scalar_weight(spaces)
     if swgt is not None: res = self.sum(spaces); res = res*swgt; return res
     tmp = self.weight(1, spaces=spaces);  return tmp.sum(spaces) *)
Definition integrate (k : nat) (dom : domain) (sp : option (list nat)) (t : tens k) : option (tens k) :=
  match scalar_weight dom sp with
  | WErr => None
  | WSome w => match csum k dom sp t with Some r => Some (tscale k w r) | None => None end
  | WNone => match weight k 1 dom sp t with Some t' => csum k dom sp t' | None => None end
  end.

(* number of pixels contracted: what ndarray.mean divides by *)
Fixpoint count_loop (dom : domain) (spaces : list nat) (res : Qc) : Qc :=
  match spaces with
  | [] => res
  | i :: r => match nth_error dom i with Some s => count_loop dom r (res * nQ (sn s)) | None => count_loop dom r res end
  end.

(* Field.mean (field.py:630-635):
     if self.scalar_weight(spaces) is not None: return self._contraction_helper('mean', spaces)
     tmp = self.weight(1, spaces);  return tmp.sum(spaces)*(1./tmp.total_volume(spaces))
   ndarray.mean(axis) = add.reduce(axis) / number of reduced entries *)
Definition mean (k : nat) (dom : domain) (sp : option (list nat)) (t : tens k) : option (tens k) :=
  match scalar_weight dom sp with
  | WErr => None
  | WSome _ =>
      match parse_spaces sp (length dom) with
      | Some spaces => Some (tscale k (/ count_loop dom spaces 1) (contract k cadd c0 (mask_of spaces (length dom)) t))
      | None => None
      end
  | WNone =>
      match weight k 1 dom sp t with
      | Some t' => match csum k dom sp t', total_volume dom sp with
                   | Some r, Some v => Some (tscale k (1 / v) r)
                   | _, _ => None end
      | None => None
      end
  end.

(* Field.var (field.py:665-676):
     if self.scalar_weight(spaces) is not None: return self._contraction_helper('var', spaces)
     m1 = self.mean(spaces); m1 = ContractionOperator(domain, spaces).adjoint_times(m1)   [broadcast]
     sq = abs(self-m1)**2  (complex)  |  (self-m1)**2  (real);   return sq.mean(spaces)
   ndarray.var(axis) = mean(abs(x - x.mean(axis, keepdims))**2, axis) *)
Definition var (k : nat) (dom : domain) (sp : option (list nat)) (t : tens k) : option (tens k) :=
  match mean k dom sp t with
  | Some m => mean k dom sp (tmap k cabs2 (tbcast k csub t m))
  | None => None
  end.

(* Field.vdot (field.py:359-372): domains must be the same object;
     all sub-domains: AnyArray.vdot = sum(conj(a)*b);  else (self.conjugate()*x).sum(spaces) *)
Definition space_eqb (a b : space) : bool :=
  (sn a =? sn b)%nat &&
  match svol a, svol b with
  | Uniform x, Uniform y => Qc_eq_bool x y
  | PerPixel x, PerPixel y => (length x =? length y)%nat && forallb (fun p => Qc_eq_bool (fst p) (snd p)) (combine x y)
  | NoVol, NoVol => true
  | _, _ => false
  end.
Fixpoint dom_eqb (a b : domain) : bool :=
  match a, b with
  | [], [] => true
  | x :: r, y :: s => space_eqb x y && dom_eqb r s
  | _, _ => false
  end.
Definition vdot (k : nat) (dom dom2 : domain) (sp : option (list nat)) (a b : tens k) : option (tens k) :=
  if dom_eqb dom dom2 then csum k dom sp (tzip k cmul (tmap k cconj a) b) else None.

(* Field._binary_op (field.py:755-763): Field operand: same domain object, element-wise;
   scalar operand: broadcast *)
Definition binop (k : nat) (f : C -> C -> C) (dom dom2 : domain) (a b : tens k) : option (tens k) :=
  if dom_eqb dom dom2 then Some (tzip k f a b) else None.
Definition binop_scalar (k : nat) (f : C -> C -> C) (a : tens k) (c : C) : tens k :=
  tmap k (fun x => f x c) a.

(* ---------- MultiField (multi_field.py) : list of (key, field), keys sorted ---------- *)
Record mfent := mkEnt { ekey : nat; erank : nat; edom : domain; eval_ : tens erank }.
Definition mfield := list mfent.

(* sum over every entry *)
Fixpoint tsum_all (k : nat) : tens k -> C :=
  match k return tens k -> C with
  | O => fun t => t
  | S k' => fun t => fold_right (fun x acc => cadd (tsum_all k' x) acc) c0 t
  end.

Fixpoint mdom_eqb (a b : mfield) : bool :=
  match a, b with
  | [], [] => true
  | x :: r, y :: s => (ekey x =? ekey y)%nat && (erank x =? erank y)%nat && dom_eqb (edom x) (edom y) && mdom_eqb r s
  | _, _ => false
  end.

Definition cast_rank (k k' : nat) (t : tens k) : option (tens k') :=
  match Nat.eq_dec k k' with
  | left e => Some (eq_rect k tens t k' e)
  | right _ => None
  end.

(* s_vdot: check_object_identity(domains); result += v1.s_vdot(v2) *)
Fixpoint ms_vdot_loop (a b : mfield) (acc : C) : option C :=
  match a, b with
  | [], [] => Some acc
  | x :: r, y :: s =>
      match cast_rank (erank y) (erank x) (eval_ y) with
      | Some vy => ms_vdot_loop r s (cadd acc (tsum_all (erank x) (tzip (erank x) cmul (tmap (erank x) cconj (eval_ x)) vy)))
      | None => None
      end
  | _, _ => None
  end.
Definition ms_vdot (a b : mfield) : option C :=
  if mdom_eqb a b then ms_vdot_loop a b c0 else None.

(* MultiField._binary_op (multi_field.py:403-411): check_object_identity(self._domain, other._domain);
   val = tuple(f(v1, v2) for v1, v2 in zip(self._val, other._val)) *)
Fixpoint mbinop_loop (f : C -> C -> C) (a b : mfield) : option mfield :=
  match a, b with
  | [], [] => Some []
  | x :: r, y :: s =>
      match cast_rank (erank y) (erank x) (eval_ y), mbinop_loop f r s with
      | Some vy, Some m => Some (mkEnt (ekey x) (erank x) (edom x) (tzip (erank x) f (eval_ x) vy) :: m)
      | _, _ => None
      end
  | _, _ => None
  end.
Definition mbinop (f : C -> C -> C) (a b : mfield) : option mfield :=
  if mdom_eqb a b then mbinop_loop f a b else None.

(* flexible_addsub(other, neg: bool) (multi_field.py:362-376): union of the keys; a key present in
   both: self[key] -/+ other[key]; only in other: -/+ other[key]; only in self: unchanged.
   (from_dict sorts by key; inputs are sorted, so this is a merge) *)
Fixpoint addsub_merge (fuel : nat) (neg : bool) (a b : mfield) : option mfield :=
  match fuel with
  | O => None
  | S fuel' =>
      match a, b with
      | [], [] => Some []
      | x :: r, [] => match addsub_merge fuel' neg r [] with Some m => Some (x :: m) | None => None end
      | [], y :: s =>
          match addsub_merge fuel' neg [] s with
          | Some m => Some (mkEnt (ekey y) (erank y) (edom y)
                              (if neg then tmap (erank y) (fun v => csub c0 v) (eval_ y) else eval_ y) :: m)
          | None => None end
      | x :: r, y :: s =>
          if (ekey x <? ekey y)%nat then
            match addsub_merge fuel' neg r b with Some m => Some (x :: m) | None => None end
          else if (ekey y <? ekey x)%nat then
            match addsub_merge fuel' neg a s with
            | Some m => Some (mkEnt (ekey y) (erank y) (edom y)
                                (if neg then tmap (erank y) (fun v => csub c0 v) (eval_ y) else eval_ y) :: m)
            | None => None end
          else
            (* same key: Field._binary_op -> domains must agree *)
            if dom_eqb (edom x) (edom y) then
              match cast_rank (erank y) (erank x) (eval_ y), addsub_merge fuel' neg r s with
              | Some vy, Some m =>
                  Some (mkEnt (ekey x) (erank x) (edom x)
                          (tzip (erank x) (if neg then csub else cadd) (eval_ x) vy) :: m)
              | _, _ => None
              end
            else None
      end
  end.
Definition flexible_addsub (neg : bool) (a b : mfield) : option mfield :=
  addsub_merge (S (length a + length b)) neg a b.

(* ---------- comparison with the implementation ---------- *)
Definition Qabs_le (x y eps : Qc) : bool := Qle_bool (Qabs (this x - this y)) (this eps).
Definition cclose (eps : Qc) (a b : C) : bool := Qabs_le (fst a) (fst b) eps && Qabs_le (snd a) (snd b) eps.
Fixpoint list_all2 {A : Type} (e : A -> A -> bool) (x y : list A) : bool :=
  match x, y with
  | [], [] => true
  | a :: r, b :: s => e a b && list_all2 e r s
  | _, _ => false
  end.
Fixpoint tclose (k : nat) (eps : Qc) : tens k -> tens k -> bool :=
  match k return tens k -> tens k -> bool with
  | O => fun a b => cclose eps a b
  | S k' => fun a b => list_all2 (tclose k' eps) a b
  end.
(* model result vs implementation: Some x = the array returned; None = an exception was raised *)
Definition same (k : nat) (eps : Qc) (m i : option (tens k)) : bool :=
  match m, i with
  | Some a, Some b => tclose k eps a b
  | None, None => true
  | _, _ => false
  end.
Fixpoint mclose (eps : Qc) (a b : mfield) : bool :=
  match a, b with
  | [], [] => true
  | x :: r, y :: s =>
      (ekey x =? ekey y)%nat &&
      match cast_rank (erank y) (erank x) (eval_ y) with
      | Some vy => tclose (erank x) eps (eval_ x) vy
      | None => false end && mclose eps r s
  | _, _ => false
  end.

(* ---------- round-6 extension: MultiField.s_sum and MultiField (op) scalar ---------- *)
(* MultiField.s_sum (multi_field.py:236-244):
     return utilities.my_sum(map(lambda v: v.s_sum(), self._val))
   utilities.my_sum = reduce(lambda x, y: x+y, iterable): a LEFT fold starting from the first entry;
   Field.s_sum = self.sum().val = the sum over every pixel of every sub-domain = [tsum_all].
   [ms_sum_loop] is the left fold with the accumulator; an empty MultiField makes reduce() raise
   TypeError (None here). *)
Fixpoint ms_sum_loop (a : mfield) (acc : C) : C :=
  match a with
  | [] => acc
  | x :: r => ms_sum_loop r (cadd acc (tsum_all (erank x) (eval_ x)))
  end.
Definition ms_sum (a : mfield) : option C :=
  match a with
  | [] => None
  | x :: r => Some (ms_sum_loop r (tsum_all (erank x) (eval_ x)))
  end.

(* MultiField._binary_op, scalar branch (multi_field.py:403-411):
     else: val = tuple(f(v1, other) for v1 in self._val);  return MultiField(self._domain, val)
   with Field._binary_op's scalar branch = broadcast ([binop_scalar]). *)
Definition mbinop_scalar (f : C -> C -> C) (a : mfield) (c : C) : mfield :=
  map (fun x => mkEnt (ekey x) (erank x) (edom x) (binop_scalar (erank x) f (eval_ x) c)) a.

(* the plain (order-free) total: sum over the entries of the sums over their pixels *)
Fixpoint mtotal (a : mfield) : C :=
  match a with
  | [] => c0
  | x :: r => cadd (tsum_all (erank x) (eval_ x)) (mtotal r)
  end.
