(* C06 -- lemmas. *)
From Coq Require Import QArith Qabs Qcanon ZArith List Bool Arith Lia.
Import ListNotations.
Require Import NV.C06.Model.
Local Open Scope Qc_scope.

(* ---------- Gaussian rationals ---------- *)
Lemma C_eq : forall a b : C, fst a = fst b -> snd a = snd b -> a = b.
Proof. intros [a1 a2] [b1 b2]; simpl; intros; subst; auto. Qed.

Ltac csolve := intros; apply C_eq; unfold cadd, csub, cmul, cconj, cscale, cabs2, c0, c1, cre; simpl; ring.

Lemma cadd_comm : forall a b, cadd a b = cadd b a. Proof. csolve. Qed.
Lemma cadd_assoc : forall a b c, cadd a (cadd b c) = cadd (cadd a b) c. Proof. csolve. Qed.
Lemma cadd_0_l : forall a, cadd c0 a = a. Proof. csolve. Qed.
Lemma cadd_0_r : forall a, cadd a c0 = a. Proof. csolve. Qed.
Lemma cscale_add : forall q a b, cscale q (cadd a b) = cadd (cscale q a) (cscale q b). Proof. csolve. Qed.
Lemma cscale_0 : forall q, cscale q c0 = c0. Proof. csolve. Qed.
Lemma cscale_1 : forall a, cscale 1 a = a. Proof. csolve. Qed.
Lemma cscale_cscale : forall p q a, cscale p (cscale q a) = cscale (p * q) a. Proof. csolve. Qed.
Lemma cscale_comm : forall p q a, cscale p (cscale q a) = cscale q (cscale p a). Proof. csolve. Qed.
Lemma cmul_comm : forall a b, cmul a b = cmul b a. Proof. csolve. Qed.
Lemma cmul_add_r : forall a b c, cmul a (cadd b c) = cadd (cmul a b) (cmul a c). Proof. csolve. Qed.
Lemma cmul_add_l : forall a b c, cmul (cadd a b) c = cadd (cmul a c) (cmul b c). Proof. csolve. Qed.
Lemma cmul_assoc : forall a b c, cmul a (cmul b c) = cmul (cmul a b) c. Proof. csolve. Qed.
Lemma cconj_add : forall a b, cconj (cadd a b) = cadd (cconj a) (cconj b). Proof. csolve. Qed.
Lemma cconj_mul : forall a b, cconj (cmul a b) = cmul (cconj a) (cconj b). Proof. csolve. Qed.
Lemma cconj_invol : forall a, cconj (cconj a) = a. Proof. csolve. Qed.
Lemma cmul_0_l : forall a, cmul c0 a = c0. Proof. csolve. Qed.
Lemma cmul_0_r : forall a, cmul a c0 = c0. Proof. csolve. Qed.
Lemma cmul_cscale_l : forall q a b, cmul (cscale q a) b = cscale q (cmul a b). Proof. csolve. Qed.
Lemma cmul_cscale_r : forall q a b, cmul a (cscale q b) = cscale q (cmul a b). Proof. csolve. Qed.
Lemma cconj_cscale : forall q a, cconj (cscale q a) = cscale q (cconj a). Proof. csolve. Qed.

(* ---------- lists ---------- *)
Lemma map2_map_r : forall (A B B' D : Type) (f : A -> B' -> D) (g : B -> B') l1 l2,
  map2 f l1 (map g l2) = map2 (fun a b => f a (g b)) l1 l2.
Proof. induction l1; destruct l2; simpl; auto. intros. f_equal. auto. Qed.

Lemma map_map2 : forall (A B D E : Type) (f : A -> B -> D) (g : D -> E) l1 l2,
  map g (map2 f l1 l2) = map2 (fun a b => g (f a b)) l1 l2.
Proof. induction l1; destruct l2; simpl; auto. intros. f_equal. auto. Qed.

Lemma map2_ext : forall (A B D : Type) (f g : A -> B -> D) l1 l2,
  (forall a b, In b l2 -> f a b = g a b) -> map2 f l1 l2 = map2 g l1 l2.
Proof.
  induction l1; destruct l2; simpl; auto. intros. f_equal.
  - apply H. auto.
  - apply IHl1. intros. apply H. auto.
Qed.

Lemma map2_repeat : forall (A B D : Type) (f : A -> B -> D) w n l,
  length l = n -> map2 f (repeat w n) l = map (f w) l.
Proof. induction n; destruct l; simpl; intros; try discriminate; auto. f_equal. apply IHn. lia. Qed.

(* ---------- scaling is linear w.r.t. everything ---------- *)
Lemma tmap_tmap : forall k f g t, tmap k f (tmap k g t) = tmap k (fun x => f (g x)) t.
Proof.
  induction k; simpl; intros; auto. rewrite map_map. apply map_ext. auto.
Qed.

Lemma tmap_ext : forall k f g t, (forall x, f x = g x) -> tmap k f t = tmap k g t.
Proof. induction k; simpl; intros; auto. apply map_ext. auto. Qed.

Lemma tmap_id : forall k f t, (forall x, f x = x) -> tmap k f t = t.
Proof.
  induction k; simpl; intros; auto. rewrite <- (map_id t) at 2. apply map_ext. auto.
Qed.

Lemma tscale_1 : forall k t, tscale k 1 t = t.
Proof. intros. apply tmap_id. apply cscale_1. Qed.

Lemma tscale_tscale : forall k p q t, tscale k p (tscale k q t) = tscale k (p * q) t.
Proof. intros. unfold tscale. rewrite tmap_tmap. apply tmap_ext. intros. apply cscale_cscale. Qed.

Lemma tscale_comm : forall k p q t, tscale k p (tscale k q t) = tscale k q (tscale k p t).
Proof. intros. rewrite !tscale_tscale. f_equal. ring. Qed.

Lemma padzip_map : forall (A : Type) (f : A -> A -> A) (g : A -> A) l1 l2,
  (forall a b, g (f a b) = f (g a) (g b)) ->
  map g (padzip f l1 l2) = padzip f (map g l1) (map g l2).
Proof.
  induction l1; destruct l2; simpl; intros; auto. f_equal; auto.
Qed.

Lemma tscale_tpz_add : forall k q a b,
  tscale k q (tpz k cadd a b) = tpz k cadd (tscale k q a) (tscale k q b).
Proof.
  induction k; simpl; intros.
  - apply cscale_add.
  - unfold tscale in *. simpl. apply padzip_map. intros. apply IHk.
Qed.

Lemma tscale_tunit0 : forall k q, tscale k q (tunit k c0) = tunit k c0.
Proof. destruct k; simpl; intros; auto. apply cscale_0. Qed.

Lemma tscale_treduce : forall k q l,
  tscale k q (treduce k cadd c0 l) = treduce k cadd c0 (map (tscale k q) l).
Proof.
  induction l; simpl.
  - apply tscale_tunit0.
  - unfold treduce in *. simpl. rewrite tscale_tpz_add. f_equal. auto.
Qed.

Lemma tscale_S : forall k q (t : tens (S k)), tscale (S k) q t = map (tscale k q) t.
Proof. reflexivity. Qed.

(* L1: summation over sub-domains commutes with scaling *)
Lemma contract_tscale : forall k mask q t,
  contract k cadd c0 mask (tscale k q t) = tscale k q (contract k cadd c0 mask t).
Proof.
  induction k; intros; auto.
  cbn [contract]. rewrite tscale_S. rewrite map_map.
  rewrite (map_ext _ (fun x => tscale k q (contract k cadd c0 (tl mask) x))) by (intros; apply IHk).
  rewrite <- map_map.
  destruct (hd false mask).
  - rewrite tscale_S. cbn [map]. f_equal. symmetry. apply tscale_treduce.
  - rewrite tscale_S. reflexivity.
Qed.

(* ---------- weights along one level ---------- *)
Lemma tweight_tscale : forall k i ws q t,
  tweight k i ws (tscale k q t) = tscale k q (tweight k i ws t).
Proof.
  induction k; intros; auto.
  destruct i; cbn [tweight]; rewrite !tscale_S.
  - rewrite map2_map_r, map_map2. apply map2_ext. intros. apply tscale_comm.
  - rewrite !map_map. apply map_ext. intros. apply IHk.
Qed.

(* per-level pending weights *)
Definition fam := list (option (list Qc)).
Fixpoint wapply (k : nat) (fm : fam) : tens k -> tens k :=
  match k return tens k -> tens k with
  | O => fun t => t
  | S k' => fun t =>
      let t' := map (wapply k' (tl fm)) t in
      match hd None fm with
      | Some ws => map2 (fun w x => tscale k' w x) ws t'
      | None => t'
      end
  end.
Fixpoint setf (fm : fam) (i : nat) (ws : list Qc) : fam :=
  match i with
  | O => Some ws :: tl fm
  | S i' => hd None fm :: setf (tl fm) i' ws
  end.
Fixpoint getf (fm : fam) (i : nat) : option (list Qc) :=
  match i with O => hd None fm | S i' => getf (tl fm) i' end.

Lemma getf_nil : forall i, getf [] i = None.
Proof. induction i; simpl; auto. Qed.

Lemma getf_setf_eq : forall i fm ws, getf (setf fm i ws) i = Some ws.
Proof. induction i; simpl; intros; auto. Qed.

Lemma getf_setf_neq : forall i j fm ws, i <> j -> getf (setf fm i ws) j = getf fm j.
Proof.
  induction i; destruct j; simpl; intros; try congruence; auto.
Qed.

Lemma wapply_ext : forall k f1 f2 t, (forall i, getf f1 i = getf f2 i) -> wapply k f1 t = wapply k f2 t.
Proof.
  induction k; intros; auto. cbn [wapply].
  assert (hd None f1 = hd None f2) as E by (apply (H 0%nat)). rewrite E.
  rewrite (map_ext (wapply k (tl f1)) (wapply k (tl f2))); auto.
  intros. apply IHk. intros i. apply (H (S i)).
Qed.

Lemma wapply_nil : forall k t, wapply k [] t = t.
Proof.
  induction k; intros; auto. cbn [wapply]. simpl.
  rewrite <- (map_id t) at 2. apply map_ext. auto.
Qed.

(* A1: multiplying along level i = recording the weights for level i *)
Lemma tweight_wapply : forall k i ws fm t, getf fm i = None ->
  tweight k i ws (wapply k fm t) = wapply k (setf fm i ws) t.
Proof.
  induction k; intros; auto.
  destruct i.
  - simpl in H. cbn [tweight wapply setf hd tl]. rewrite H. reflexivity.
  - cbn [tweight wapply setf hd tl]. simpl in H.
    rewrite (map_ext (wapply k (setf (tl fm) i ws)) (fun x => tweight k i ws (wapply k (tl fm) x)))
      by (intros; symmetry; apply IHk; auto).
    rewrite <- (map_map (wapply k (tl fm)) (tweight k i ws)).
    destruct (hd None fm) as [vs |]; auto.
    generalize (map (wapply k (tl fm)) t). intros u.
    rewrite map_map2, map2_map_r. apply map2_ext. intros. apply tweight_tscale.
Qed.

(* ---------- specification: iterated weighted sums ---------- *)
Inductive lvl :=
| LKeep                       (* sub-domain not contracted *)
| LUni (u : Qc) (n : nat)     (* contracted, uniform pixel volume u, n pixels *)
| LPix (ws : list Qc).        (* contracted, pixel volumes ws *)

Definition lvl_vols (l : lvl) : list Qc :=
  match l with LKeep => [] | LUni u n => repeat u n | LPix ws => ws end.

(* integral over the contracted sub-domains: for the outermost sub-domain, the sum over its pixels
   i of  volume_i * (integral of the slice at i over the remaining sub-domains) *)
Fixpoint wint (k : nat) (lv : list lvl) : tens k -> tens k :=
  match k return tens k -> tens k with
  | O => fun t => t
  | S k' => fun t =>
      let t' := map (wint k' (tl lv)) t in
      match hd LKeep lv with
      | LKeep => t'
      | l => [treduce k' cadd c0 (map2 (fun w x => tscale k' w x) (lvl_vols l) t')]
      end
  end.

Definition lv_mask (lv : list lvl) : list bool := map (fun l => match l with LKeep => false | _ => true end) lv.
Definition lv_fam (lv : list lvl) : fam := map (fun l => match l with LPix ws => Some ws | _ => None end) lv.
Fixpoint lv_scal (lv : list lvl) : Qc :=
  match lv with [] => 1 | LUni u _ :: r => u * lv_scal r | _ :: r => lv_scal r end.

Fixpoint shaped (k : nat) (sh : list nat) : tens k -> Prop :=
  match k return tens k -> Prop with
  | O => fun _ => True
  | S k' => fun t => length t = hd 0%nat sh /\ Forall (shaped k' (tl sh)) t
  end.

(* the levels descriptor fits the shape: a uniform level has as many pixels as it says *)
Fixpoint lv_ok (lv : list lvl) (sh : list nat) : Prop :=
  match lv with
  | [] => True
  | l :: r => match l with LUni _ n => n = hd 0%nat sh | _ => True end /\ lv_ok r (tl sh)
  end.

Lemma hd_lv_mask : forall lv, hd false (lv_mask lv) = match hd LKeep lv with LKeep => false | _ => true end.
Proof. destruct lv; simpl; auto. Qed.
Lemma tl_lv_mask : forall lv, tl (lv_mask lv) = lv_mask (tl lv).
Proof. destruct lv; simpl; auto. Qed.
Lemma hd_lv_fam : forall lv, hd None (lv_fam lv) = match hd LKeep lv with LPix ws => Some ws | _ => None end.
Proof. destruct lv; simpl; auto. Qed.
Lemma tl_lv_fam : forall lv, tl (lv_fam lv) = lv_fam (tl lv).
Proof. destruct lv; simpl; auto. Qed.

Lemma lv_scal_split : forall lv,
  lv_scal lv = match hd LKeep lv with LUni u _ => u | _ => 1 end * lv_scal (tl lv).
Proof. destruct lv as [| [| u n | ws] r]; simpl; ring. Qed.

Lemma lv_ok_tl : forall lv sh, lv_ok lv sh -> lv_ok (tl lv) (tl sh).
Proof. destruct lv; simpl; intros; auto. tauto. Qed.

(* B: summing the weighted array over the contracted levels and multiplying with the product of
   the uniform volumes is the iterated weighted sum *)
Lemma contract_wapply : forall k lv sh t, length lv = k -> shaped k sh t -> lv_ok lv sh ->
  tscale k (lv_scal lv) (contract k cadd c0 (lv_mask lv) (wapply k (lv_fam lv) t)) = wint k lv t.
Proof.
  induction k; intros lv sh t Hlen Hs Hl.
  - destruct lv; [| discriminate]. simpl. apply cscale_1.
  - destruct lv as [| l r]; [discriminate |]. simpl in Hlen. injection Hlen as Hlen.
    destruct Hs as [Hn Hf]. rewrite Forall_forall in Hf.
    destruct Hl as [Hl0 Hlr].
    assert (forall x, In x t ->
              tscale k (lv_scal r) (contract k cadd c0 (lv_mask r) (wapply k (lv_fam r) x)) = wint k r x) as IH.
    { intros. apply (IHk r (tl sh)); auto. }
    cbn [wint wapply contract]. rewrite hd_lv_mask, tl_lv_mask, hd_lv_fam, tl_lv_fam.
    cbn [hd tl]. rewrite tscale_S.
    destruct l as [| u n | ws]; cbn [lv_scal lvl_vols].
    + rewrite !map_map. apply map_ext_in. intros. apply IH. auto.
    + cbn [map]. f_equal. rewrite tscale_treduce. f_equal.
      simpl in Hl0. rewrite map2_repeat by (rewrite map_length; lia).
      rewrite !map_map. apply map_ext_in. intros x Hx.
      rewrite <- (IH x Hx). rewrite tscale_tscale. reflexivity.
    + cbn [map]. f_equal. rewrite tscale_treduce. f_equal.
      rewrite map_map. rewrite map2_map_r. rewrite map_map2. rewrite map2_map_r.
      apply map2_ext. intros w x Hx.
      rewrite contract_tscale. rewrite tscale_comm. f_equal. apply IH. auto.
Qed.
