(* C06 -- lemmas. *)
From Coq Require Import QArith Qabs Qcanon ZArith List Bool Arith Lia.
Import ListNotations.
Require Import NV.C06.Model.
Local Open Scope Qc_scope.

(* ---------- Gaussian rationals ---------- *)
Lemma C_eq : forall a b : C, fst a = fst b -> snd a = snd b -> a = b.
Proof. intros [a1 a2] [b1 b2]; simpl; intros; subst; auto. Qed.

Ltac csolve := intros; apply C_eq; unfold cadd, csub, cmul, cconj, cscale, cabs2, c0, c1, cre; simpl; ring.

Lemma cadd_comm : forall a b, cadd a b = cadd b a. Proof. csolve. Qed.
Lemma cadd_assoc : forall a b c, cadd a (cadd b c) = cadd (cadd a b) c. Proof. csolve. Qed.
Lemma cadd_0_l : forall a, cadd c0 a = a. Proof. csolve. Qed.
Lemma cadd_0_r : forall a, cadd a c0 = a. Proof. csolve. Qed.
Lemma cscale_add : forall q a b, cscale q (cadd a b) = cadd (cscale q a) (cscale q b). Proof. csolve. Qed.
Lemma cscale_0 : forall q, cscale q c0 = c0. Proof. csolve. Qed.
Lemma cscale_1 : forall a, cscale 1 a = a. Proof. csolve. Qed.
Lemma cscale_cscale : forall p q a, cscale p (cscale q a) = cscale (p * q) a. Proof. csolve. Qed.
Lemma cscale_comm : forall p q a, cscale p (cscale q a) = cscale q (cscale p a). Proof. csolve. Qed.
Lemma cmul_comm : forall a b, cmul a b = cmul b a. Proof. csolve. Qed.
Lemma cmul_add_r : forall a b c, cmul a (cadd b c) = cadd (cmul a b) (cmul a c). Proof. csolve. Qed.
Lemma cmul_add_l : forall a b c, cmul (cadd a b) c = cadd (cmul a c) (cmul b c). Proof. csolve. Qed.
Lemma cmul_assoc : forall a b c, cmul a (cmul b c) = cmul (cmul a b) c. Proof. csolve. Qed.
Lemma cconj_add : forall a b, cconj (cadd a b) = cadd (cconj a) (cconj b). Proof. csolve. Qed.
Lemma cconj_mul : forall a b, cconj (cmul a b) = cmul (cconj a) (cconj b). Proof. csolve. Qed.
Lemma cconj_invol : forall a, cconj (cconj a) = a. Proof. csolve. Qed.
Lemma cmul_0_l : forall a, cmul c0 a = c0. Proof. csolve. Qed.
Lemma cmul_0_r : forall a, cmul a c0 = c0. Proof. csolve. Qed.
Lemma cmul_cscale_l : forall q a b, cmul (cscale q a) b = cscale q (cmul a b). Proof. csolve. Qed.
Lemma cmul_cscale_r : forall q a b, cmul a (cscale q b) = cscale q (cmul a b). Proof. csolve. Qed.
Lemma cconj_cscale : forall q a, cconj (cscale q a) = cscale q (cconj a). Proof. csolve. Qed.

(* ---------- lists ---------- *)
Lemma map2_map_r : forall (A B B' D : Type) (f : A -> B' -> D) (g : B -> B') l1 l2,
  map2 f l1 (map g l2) = map2 (fun a b => f a (g b)) l1 l2.
Proof. induction l1; destruct l2; simpl; auto. intros. f_equal. auto. Qed.

Lemma map_map2 : forall (A B D E : Type) (f : A -> B -> D) (g : D -> E) l1 l2,
  map g (map2 f l1 l2) = map2 (fun a b => g (f a b)) l1 l2.
Proof. induction l1; destruct l2; simpl; auto. intros. f_equal. auto. Qed.

Lemma map2_ext : forall (A B D : Type) (f g : A -> B -> D) l1 l2,
  (forall a b, In b l2 -> f a b = g a b) -> map2 f l1 l2 = map2 g l1 l2.
Proof.
  induction l1; destruct l2; simpl; auto. intros. f_equal.
  - apply H. auto.
  - apply IHl1. intros. apply H. auto.
Qed.

Lemma map2_repeat : forall (A B D : Type) (f : A -> B -> D) w n l,
  length l = n -> map2 f (repeat w n) l = map (f w) l.
Proof. induction n; destruct l; simpl; intros; try discriminate; auto. f_equal. apply IHn. lia. Qed.

(* ---------- scaling is linear w.r.t. everything ---------- *)
Lemma tmap_tmap : forall k f g t, tmap k f (tmap k g t) = tmap k (fun x => f (g x)) t.
Proof.
  induction k; simpl; intros; auto. rewrite map_map. apply map_ext. auto.
Qed.

Lemma tmap_ext : forall k f g t, (forall x, f x = g x) -> tmap k f t = tmap k g t.
Proof. induction k; simpl; intros; auto. apply map_ext. auto. Qed.

Lemma tmap_id : forall k f t, (forall x, f x = x) -> tmap k f t = t.
Proof.
  induction k; simpl; intros; auto. rewrite <- (map_id t) at 2. apply map_ext. auto.
Qed.

Lemma tscale_1 : forall k t, tscale k 1 t = t.
Proof. intros. apply tmap_id. apply cscale_1. Qed.

Lemma tscale_tscale : forall k p q t, tscale k p (tscale k q t) = tscale k (p * q) t.
Proof. intros. unfold tscale. rewrite tmap_tmap. apply tmap_ext. intros. apply cscale_cscale. Qed.

Lemma tscale_comm : forall k p q t, tscale k p (tscale k q t) = tscale k q (tscale k p t).
Proof. intros. rewrite !tscale_tscale. f_equal. ring. Qed.

Lemma padzip_map : forall (A : Type) (f : A -> A -> A) (g : A -> A) l1 l2,
  (forall a b, g (f a b) = f (g a) (g b)) ->
  map g (padzip f l1 l2) = padzip f (map g l1) (map g l2).
Proof.
  induction l1; destruct l2; simpl; intros; auto. f_equal; auto.
Qed.

Lemma tscale_tpz_add : forall k q a b,
  tscale k q (tpz k cadd a b) = tpz k cadd (tscale k q a) (tscale k q b).
Proof.
  induction k; simpl; intros.
  - apply cscale_add.
  - unfold tscale in *. simpl. apply padzip_map. intros. apply IHk.
Qed.

Lemma tscale_tunit0 : forall k q, tscale k q (tunit k c0) = tunit k c0.
Proof. destruct k; simpl; intros; auto. apply cscale_0. Qed.

Lemma tscale_treduce : forall k q l,
  tscale k q (treduce k cadd c0 l) = treduce k cadd c0 (map (tscale k q) l).
Proof.
  induction l; simpl.
  - apply tscale_tunit0.
  - unfold treduce in *. simpl. rewrite tscale_tpz_add. f_equal. auto.
Qed.

Lemma tscale_S : forall k q (t : tens (S k)), tscale (S k) q t = map (tscale k q) t.
Proof. reflexivity. Qed.

(* L1: summation over sub-domains commutes with scaling *)
Lemma contract_tscale : forall k mask q t,
  contract k cadd c0 mask (tscale k q t) = tscale k q (contract k cadd c0 mask t).
Proof.
  induction k; intros; auto.
  cbn [contract]. rewrite tscale_S. rewrite map_map.
  rewrite (map_ext _ (fun x => tscale k q (contract k cadd c0 (tl mask) x))) by (intros; apply IHk).
  rewrite <- map_map.
  destruct (hd false mask).
  - rewrite tscale_S. cbn [map]. f_equal. symmetry. apply tscale_treduce.
  - rewrite tscale_S. reflexivity.
Qed.

(* ---------- weights along one level ---------- *)
Lemma tweight_tscale : forall k i ws q t,
  tweight k i ws (tscale k q t) = tscale k q (tweight k i ws t).
Proof.
  induction k; intros; auto.
  destruct i; cbn [tweight]; rewrite !tscale_S.
  - rewrite map2_map_r, map_map2. apply map2_ext. intros. apply tscale_comm.
  - rewrite !map_map. apply map_ext. intros. apply IHk.
Qed.

(* per-level pending weights *)
Definition fam := list (option (list Qc)).
Fixpoint wapply (k : nat) (fm : fam) : tens k -> tens k :=
  match k return tens k -> tens k with
  | O => fun t => t
  | S k' => fun t =>
      let t' := map (wapply k' (tl fm)) t in
      match hd None fm with
      | Some ws => map2 (fun w x => tscale k' w x) ws t'
      | None => t'
      end
  end.
Fixpoint setf (fm : fam) (i : nat) (ws : list Qc) : fam :=
  match i with
  | O => Some ws :: tl fm
  | S i' => hd None fm :: setf (tl fm) i' ws
  end.
Fixpoint getf (fm : fam) (i : nat) : option (list Qc) :=
  match i with O => hd None fm | S i' => getf (tl fm) i' end.

Lemma getf_nil : forall i, getf [] i = None.
Proof. induction i; simpl; auto. Qed.

Lemma getf_setf_eq : forall i fm ws, getf (setf fm i ws) i = Some ws.
Proof. induction i; simpl; intros; auto. Qed.

Lemma getf_setf_neq : forall i j fm ws, i <> j -> getf (setf fm i ws) j = getf fm j.
Proof.
  induction i; destruct j; simpl; intros; try congruence; auto.
Qed.

Lemma wapply_ext : forall k f1 f2 t, (forall i, getf f1 i = getf f2 i) -> wapply k f1 t = wapply k f2 t.
Proof.
  induction k; intros; auto. cbn [wapply].
  assert (hd None f1 = hd None f2) as E by (apply (H 0%nat)). rewrite E.
  rewrite (map_ext (wapply k (tl f1)) (wapply k (tl f2))); auto.
  intros. apply IHk. intros i. apply (H (S i)).
Qed.

Lemma wapply_nil : forall k t, wapply k [] t = t.
Proof.
  induction k; intros; auto. cbn [wapply]. simpl.
  rewrite <- (map_id t) at 2. apply map_ext. auto.
Qed.

(* A1: multiplying along level i = recording the weights for level i *)
Lemma tweight_wapply : forall k i ws fm t, getf fm i = None ->
  tweight k i ws (wapply k fm t) = wapply k (setf fm i ws) t.
Proof.
  induction k; intros; auto.
  destruct i.
  - simpl in H. cbn [tweight wapply setf hd tl]. rewrite H. reflexivity.
  - cbn [tweight wapply setf hd tl]. simpl in H.
    rewrite (map_ext (wapply k (setf (tl fm) i ws)) (fun x => tweight k i ws (wapply k (tl fm) x)))
      by (intros; symmetry; apply IHk; auto).
    rewrite <- (map_map (wapply k (tl fm)) (tweight k i ws)).
    destruct (hd None fm) as [vs |]; auto.
    generalize (map (wapply k (tl fm)) t). intros u.
    rewrite map_map2, map2_map_r. apply map2_ext. intros. apply tweight_tscale.
Qed.

(* ---------- specification: iterated weighted sums ---------- *)
Inductive lvl :=
| LKeep                       (* sub-domain not contracted *)
| LUni (u : Qc) (n : nat)     (* contracted, uniform pixel volume u, n pixels *)
| LPix (ws : list Qc).        (* contracted, pixel volumes ws *)

Definition lvl_vols (l : lvl) : list Qc :=
  match l with LKeep => [] | LUni u n => repeat u n | LPix ws => ws end.

(* integral over the contracted sub-domains: for the outermost sub-domain, the sum over its pixels
   i of  volume_i * (integral of the slice at i over the remaining sub-domains) *)
Fixpoint wint (k : nat) (lv : list lvl) : tens k -> tens k :=
  match k return tens k -> tens k with
  | O => fun t => t
  | S k' => fun t =>
      let t' := map (wint k' (tl lv)) t in
      match hd LKeep lv with
      | LKeep => t'
      | l => [treduce k' cadd c0 (map2 (fun w x => tscale k' w x) (lvl_vols l) t')]
      end
  end.

Definition lv_mask (lv : list lvl) : list bool := map (fun l => match l with LKeep => false | _ => true end) lv.
Definition lv_fam (lv : list lvl) : fam := map (fun l => match l with LPix ws => Some ws | _ => None end) lv.
Fixpoint lv_scal (lv : list lvl) : Qc :=
  match lv with [] => 1 | LUni u _ :: r => u * lv_scal r | _ :: r => lv_scal r end.

Fixpoint shaped (k : nat) (sh : list nat) : tens k -> Prop :=
  match k return tens k -> Prop with
  | O => fun _ => True
  | S k' => fun t => length t = hd 0%nat sh /\ Forall (shaped k' (tl sh)) t
  end.

(* the levels descriptor fits the shape: a uniform level has as many pixels as it says *)
Fixpoint lv_ok (lv : list lvl) (sh : list nat) : Prop :=
  match lv with
  | [] => True
  | l :: r => match l with LUni _ n => n = hd 0%nat sh | _ => True end /\ lv_ok r (tl sh)
  end.

Lemma hd_lv_mask : forall lv, hd false (lv_mask lv) = match hd LKeep lv with LKeep => false | _ => true end.
Proof. destruct lv; simpl; auto. Qed.
Lemma tl_lv_mask : forall lv, tl (lv_mask lv) = lv_mask (tl lv).
Proof. destruct lv; simpl; auto. Qed.
Lemma hd_lv_fam : forall lv, hd None (lv_fam lv) = match hd LKeep lv with LPix ws => Some ws | _ => None end.
Proof. destruct lv; simpl; auto. Qed.
Lemma tl_lv_fam : forall lv, tl (lv_fam lv) = lv_fam (tl lv).
Proof. destruct lv; simpl; auto. Qed.

Lemma lv_scal_split : forall lv,
  lv_scal lv = match hd LKeep lv with LUni u _ => u | _ => 1 end * lv_scal (tl lv).
Proof. destruct lv as [| [| u n | ws] r]; simpl; ring. Qed.

Lemma lv_ok_tl : forall lv sh, lv_ok lv sh -> lv_ok (tl lv) (tl sh).
Proof. destruct lv; simpl; intros; auto. tauto. Qed.

(* B: summing the weighted array over the contracted levels and multiplying with the product of
   the uniform volumes is the iterated weighted sum *)
Lemma contract_wapply : forall k lv sh t, length lv = k -> shaped k sh t -> lv_ok lv sh ->
  tscale k (lv_scal lv) (contract k cadd c0 (lv_mask lv) (wapply k (lv_fam lv) t)) = wint k lv t.
Proof.
  induction k; intros lv sh t Hlen Hs Hl.
  - destruct lv; [| discriminate]. simpl. apply cscale_1.
  - destruct lv as [| l r]; [discriminate |]. simpl in Hlen. injection Hlen as Hlen.
    destruct Hs as [Hn Hf]. rewrite Forall_forall in Hf.
    destruct Hl as [Hl0 Hlr].
    assert (forall x, In x t ->
              tscale k (lv_scal r) (contract k cadd c0 (lv_mask r) (wapply k (lv_fam r) x)) = wint k r x) as IH.
    { intros. apply (IHk r (tl sh)); auto. }
    cbn [wint wapply contract]. rewrite hd_lv_mask, tl_lv_mask, hd_lv_fam, tl_lv_fam.
    cbn [hd tl]. rewrite tscale_S.
    destruct l as [| u n | ws]; cbn [lv_scal lvl_vols].
    + rewrite !map_map. apply map_ext_in. intros. apply IH. auto.
    + cbn [map]. f_equal. rewrite tscale_treduce. f_equal.
      simpl in Hl0. rewrite map2_repeat by (rewrite map_length, Hl0; exact Hn).
      rewrite !map_map. apply map_ext_in. intros x Hx.
      rewrite <- (IH x Hx). rewrite tscale_tscale. reflexivity.
    + cbn [map]. f_equal. rewrite tscale_treduce. f_equal.
      rewrite map_map. rewrite map2_map_r. rewrite map_map2. rewrite map2_map_r.
      apply map2_ext. intros w x Hx.
      rewrite contract_tscale. rewrite tscale_comm. f_equal. apply IH. auto.
Qed.

(* ---------- from the loops of the code to the levels descriptor ---------- *)
Definition has_vol (dom : domain) (i : nat) : Prop :=
  exists s, nth_error dom i = Some s /\ svol s <> NoVol.

Definition uvol (dom : domain) (i : nat) : Qc :=
  match nth_error dom i with
  | Some s => match svol s with Uniform w => w | _ => 1 end
  | None => 1
  end.
Fixpoint uprod (dom : domain) (spaces : list nat) : Qc :=
  match spaces with [] => 1 | i :: r => uvol dom i * uprod dom r end.

Definition pix (dom : domain) (spaces : list nat) (j : nat) : option (list Qc) :=
  if existsb (Nat.eqb j) spaces then
    match nth_error dom j with
    | Some s => match svol s with PerPixel ws => Some ws | _ => None end
    | None => None
    end
  else None.

Definition lvl_of (dom : domain) (spaces : list nat) (i : nat) : lvl :=
  if existsb (Nat.eqb i) spaces then
    match nth_error dom i with
    | Some s => match svol s with
                | Uniform w => LUni w (sn s)
                | PerPixel ws => LPix ws
                | NoVol => LKeep
                end
    | None => LKeep
    end
  else LKeep.
Definition lvls (dom : domain) (spaces : list nat) (k : nat) : list lvl := map (lvl_of dom spaces) (seq 0 k).

Lemma qpow_1 : forall w, qpow w 1 = w.
Proof. intros. unfold qpow. simpl. ring. Qed.

Lemma existsb_eqb_in : forall j l, existsb (Nat.eqb j) l = true <-> In j l.
Proof.
  intros. rewrite existsb_exists. split.
  - intros (x & Hx & E). apply Nat.eqb_eq in E. subst. auto.
  - intros. exists j. split; auto. apply Nat.eqb_refl.
Qed.

Lemma existsb_eqb_notin : forall j l, ~ In j l -> existsb (Nat.eqb j) l = false.
Proof.
  intros. destruct (existsb (Nat.eqb j) l) eqn:E; auto. apply existsb_eqb_in in E. tauto.
Qed.

Lemma pix_cons_other : forall dom i r j, j <> i -> pix dom (i :: r) j = pix dom r j.
Proof.
  intros. unfold pix. simpl. destruct (Nat.eqb_spec j i); [congruence | reflexivity].
Qed.

Lemma pix_notin : forall dom l j, ~ In j l -> pix dom l j = None.
Proof. intros. unfold pix. rewrite existsb_eqb_notin; auto. Qed.

(* the loop of Field.weight (power 1): scalar volumes are collected in fct, pixel volumes are
   multiplied into the array, level by level *)
Lemma weight_loop_spec : forall k dom spaces,
  NoDup spaces -> (forall i, In i spaces -> has_vol dom i) ->
  forall fct fm t, (forall i, In i spaces -> getf fm i = None) ->
  exists fm', weight_loop k 1 dom spaces fct (wapply k fm t) = Some (fct * uprod dom spaces, wapply k fm' t) /\
              forall j, getf fm' j = match pix dom spaces j with Some ws => Some ws | None => getf fm j end.
Proof.
  induction spaces as [| i r IH]; intros ND HV fct fm t HF.
  - exists fm. simpl. split; [f_equal; f_equal; ring | auto].
  - inversion ND as [| ? ? Hni NDr]. subst.
    destruct (HV i (or_introl eq_refl)) as (s & Hs & Hnv).
    assert (forall i0, In i0 r -> has_vol dom i0) as HVr by (intros; apply HV; right; auto).
    cbn [weight_loop uprod]. rewrite Hs. unfold uvol. rewrite Hs.
    destruct (svol s) as [w | ws |] eqn:Ev; [| | congruence].
    + destruct (IH NDr HVr (fct * w) fm t) as (fm' & E & G).
      { intros. apply HF. right. auto. }
      exists fm'. split.
      * rewrite E. f_equal. f_equal. ring.
      * intros j. rewrite G. destruct (Nat.eq_dec j i).
        -- subst j. rewrite (pix_notin dom r i Hni). unfold pix. simpl. rewrite Nat.eqb_refl. simpl.
           rewrite Hs, Ev. reflexivity.
        -- rewrite pix_cons_other; auto.
    + rewrite (map_ext (fun w => qpow w 1) (fun w => w)) by (intros; apply qpow_1). rewrite map_id.
      rewrite tweight_wapply by (apply HF; left; auto).
      destruct (IH NDr HVr fct (setf fm i ws) t) as (fm' & E & G).
      { intros i0 Hi0. rewrite getf_setf_neq. apply HF. right. auto. intro. subst. tauto. }
      exists fm'. split.
      * rewrite E. f_equal. f_equal. ring.
      * intros j. rewrite G. destruct (Nat.eq_dec j i).
        -- subst j. rewrite (pix_notin dom r i Hni). rewrite getf_setf_eq.
           unfold pix. simpl. rewrite Nat.eqb_refl. simpl. rewrite Hs, Ev. reflexivity.
        -- rewrite pix_cons_other; auto. rewrite getf_setf_neq; auto.
Qed.

Definition all_uniform (dom : domain) (spaces : list nat) : Prop :=
  forall i, In i spaces -> exists s w, nth_error dom i = Some s /\ svol s = Uniform w.

(* DomainTuple.scalar_weight *)
Lemma scalar_weight_loop_uniform : forall dom spaces res,
  all_uniform dom spaces -> scalar_weight_loop dom spaces res = WSome (res * uprod dom spaces).
Proof.
  induction spaces; intros; simpl.
  - f_equal. ring.
  - destruct (H a (or_introl eq_refl)) as (s & w & Hs & Ev). unfold uvol. rewrite Hs, Ev.
    rewrite IHspaces. f_equal. ring. intros i Hi. apply H. right. auto.
Qed.

Lemma scalar_weight_loop_cases : forall dom spaces res,
  (forall i, In i spaces -> has_vol dom i) ->
  (scalar_weight_loop dom spaces res = WNone /\ ~ all_uniform dom spaces) \/
  (scalar_weight_loop dom spaces res = WSome (res * uprod dom spaces) /\ all_uniform dom spaces).
Proof.
  induction spaces; intros res HV.
  - right. split. simpl. f_equal. ring. intros i [].
  - destruct (HV a (or_introl eq_refl)) as (s & Hs & Hnv). simpl. rewrite Hs.
    destruct (svol s) as [w | ws |] eqn:Ev; [| | congruence].
    + destruct (IHspaces (res * w)) as [[E N] | [E U]].
      * intros. apply HV. right. auto.
      * left. split; auto. intro U. apply N. intros i Hi. apply U. right. auto.
      * right. split.
        -- rewrite E. unfold uvol. rewrite Hs, Ev. f_equal. ring.
        -- intros i [Hi | Hi]; [subst; eauto | auto].
    + left. split; auto. intro U. destruct (U a (or_introl eq_refl)) as (s' & w & Hs' & Ev'). congruence.
Qed.

(* parse_spaces *)
Lemma nodupb_NoDup : forall l, nodupb l = true -> NoDup l.
Proof.
  induction l; simpl; intros. constructor.
  apply andb_prop in H. destruct H as [H1 H2]. constructor; auto.
  intro. apply existsb_eqb_in in H. rewrite H in H1. discriminate.
Qed.

Lemma parse_spaces_ok : forall sp n spaces, parse_spaces sp n = Some spaces ->
  NoDup spaces /\ (forall i, In i spaces -> (i < n)%nat) /\ all_spaces sp n = spaces.
Proof.
  intros. destruct sp as [l |]; simpl in *.
  - destruct (forallb (fun i => (i <? n)%nat) l) eqn:E1; [| discriminate].
    destruct (nodupb l) eqn:E2; [| discriminate]. inversion H. subst.
    split; [apply nodupb_NoDup; auto |]. split; auto.
    intros. rewrite forallb_forall in E1. apply Nat.ltb_lt. auto.
  - inversion H. subst. split; [apply seq_NoDup |]. split; auto.
    intros. apply in_seq in H0. lia.
Qed.

(* products over the levels vs products over the list of sub-domain indices *)
Lemma lv_scal_notin : forall dom spaces a n, (forall i, In i spaces -> (i < a)%nat) ->
  lv_scal (map (lvl_of dom spaces) (seq a n)) = 1.
Proof.
  intros. revert a H. induction n; intros; simpl; auto.
  unfold lvl_of at 1. rewrite existsb_eqb_notin.
  - apply IHn. intros. apply H in H0. lia.
  - intro. apply H in H0. lia.
Qed.

Lemma lvl_of_cons_other : forall dom i r j, j <> i -> lvl_of dom (i :: r) j = lvl_of dom r j.
Proof.
  intros. unfold lvl_of. simpl. destruct (Nat.eqb_spec j i); [congruence | reflexivity].
Qed.

Definition inr (a n i : nat) : bool := ((a <=? i)%nat && (i <? a + n)%nat).
Lemma inr_0 : forall a i, inr a 0 i = false.
Proof.
  intros. unfold inr. destruct (Nat.leb_spec a i); auto. simpl. apply Nat.ltb_ge. lia.
Qed.
Lemma inr_here : forall i n, inr i (S n) i = true.
Proof. intros. unfold inr. apply andb_true_iff. split; [apply Nat.leb_le | apply Nat.ltb_lt]; lia. Qed.
Lemma inr_past : forall i n, inr (S i) n i = false.
Proof. intros. unfold inr. apply andb_false_iff. left. apply Nat.leb_gt. lia. Qed.
Lemma inr_step : forall a n i, a <> i -> inr a (S n) i = inr (S a) n i.
Proof.
  intros. unfold inr.
  destruct (Nat.leb_spec a i); destruct (Nat.leb_spec (S a) i); try lia; cbn [andb]; auto.
  destruct (Nat.ltb_spec i (a + S n)); destruct (Nat.ltb_spec i (S a + n)); auto; lia.
Qed.

Lemma lv_scal_cons : forall dom i r a n, ~ In i r -> has_vol dom i ->
  lv_scal (map (lvl_of dom (i :: r)) (seq a n)) =
  (if inr a n i then uvol dom i else 1) * lv_scal (map (lvl_of dom r) (seq a n)).
Proof.
  intros dom i r a n Hni (s & Hs & Hnv). revert a. induction n; intros a.
  - rewrite inr_0. cbn [seq map lv_scal]. ring.
  - cbn [seq map].
    rewrite (lv_scal_split (lvl_of dom (i :: r) a :: _)), (lv_scal_split (lvl_of dom r a :: _)).
    cbn [hd tl]. rewrite IHn.
    destruct (Nat.eq_dec a i).
    + subst a.
      assert (lvl_of dom (i :: r) i =
              match svol s with Uniform w => LUni w (sn s) | PerPixel ws => LPix ws | NoVol => LKeep end) as E1.
      { unfold lvl_of. cbn [existsb]. rewrite Nat.eqb_refl. cbn [orb]. rewrite Hs. reflexivity. }
      assert (lvl_of dom r i = LKeep) as E2 by (unfold lvl_of; rewrite existsb_eqb_notin; auto).
      rewrite E1, E2, inr_here, inr_past. unfold uvol. rewrite Hs.
      destruct (svol s); try congruence; ring.
    + rewrite (lvl_of_cons_other dom i r a n0). rewrite (inr_step a n i n0).
      destruct (lvl_of dom r a); ring.
Qed.

Lemma lv_scal_lvls : forall dom spaces k,
  NoDup spaces -> (forall i, In i spaces -> (i < k)%nat) -> (forall i, In i spaces -> has_vol dom i) ->
  lv_scal (lvls dom spaces k) = uprod dom spaces.
Proof.
  unfold lvls. induction spaces as [| i r IH]; intros k ND HR HV.
  - simpl. apply lv_scal_notin. intros i [].
  - inversion ND. subst. rewrite lv_scal_cons; auto.
    + assert (i < k)%nat by (apply HR; left; auto).
      replace (inr 0 k i) with true
        by (symmetry; unfold inr; apply andb_true_iff; split; [apply Nat.leb_le | apply Nat.ltb_lt]; lia).
      cbn [uprod]. f_equal. apply IH; auto.
      * intros. apply HR. right. auto.
      * intros. apply HV. right. auto.
    + apply HV. left. auto.
Qed.

Lemma lv_mask_lvls : forall dom spaces k,
  (forall i, In i spaces -> (i < k)%nat) -> (forall i, In i spaces -> has_vol dom i) ->
  lv_mask (lvls dom spaces k) = mask_of spaces k.
Proof.
  intros. unfold lv_mask, lvls, mask_of. rewrite map_map. apply map_ext_in. intros j Hj.
  unfold lvl_of. destruct (existsb (Nat.eqb j) spaces) eqn:E; auto.
  apply existsb_eqb_in in E. destruct (H0 j E) as (s & Hs & Hnv). rewrite Hs.
  destruct (svol s); auto; congruence.
Qed.

Lemma getf_map_seq : forall (f : nat -> option (list Qc)) n a j,
  getf (map f (seq a n)) j = if (j <? n)%nat then f (a + j)%nat else None.
Proof.
  induction n; intros; simpl.
  - apply getf_nil.
  - destruct j; simpl.
    + f_equal. lia.
    + rewrite IHn. replace (S a + j)%nat with (a + S j)%nat by lia.
      destruct (Nat.ltb_spec j n); destruct (Nat.ltb_spec (S j) (S n)); auto; lia.
Qed.

Lemma lv_fam_lvls : forall dom spaces k j,
  (forall i, In i spaces -> (i < k)%nat) ->
  getf (lv_fam (lvls dom spaces k)) j = pix dom spaces j.
Proof.
  intros. unfold lv_fam, lvls. rewrite map_map. rewrite getf_map_seq. simpl.
  unfold lvl_of, pix. destruct (Nat.ltb_spec j k).
  - destruct (existsb (Nat.eqb j) spaces); auto.
    destruct (nth_error dom j); auto. destruct (svol s); auto.
  - rewrite existsb_eqb_notin; auto. intro. apply H in H1. lia.
Qed.

Lemma lv_ok_lvls_gen : forall dom spaces n a sh,
  (forall j s, nth_error dom (a + j) = Some s -> (j < n)%nat -> nth j sh 0%nat = sn s) ->
  lv_ok (map (lvl_of dom spaces) (seq a n)) sh.
Proof.
  induction n; intros; simpl; auto. split.
  - unfold lvl_of. destruct (existsb (Nat.eqb a) spaces); auto.
    destruct (nth_error dom a) eqn:E; auto. destruct (svol s) eqn:Ev; auto.
    rewrite <- (H 0%nat s); try lia. destruct sh; auto. rewrite Nat.add_0_r. auto.
  - apply IHn. intros. replace (S a + j)%nat with (a + S j)%nat in H0 by lia.
    apply H in H0; try lia. destruct sh; simpl in *; auto. destruct j; auto.
Qed.

Lemma lv_ok_lvls : forall dom spaces k, length dom = k -> lv_ok (lvls dom spaces k) (map sn dom).
Proof.
  intros. unfold lvls. apply lv_ok_lvls_gen. intros. simpl in H0.
  rewrite (nth_indep _ 0%nat (sn s)).
  - change (sn s) with (sn s) at 2. apply nth_error_nth. rewrite nth_error_map. rewrite H0. reflexivity.
  - rewrite map_length. lia.
Qed.

Lemma Qc_eq_bool_true : forall a b, Qc_eq_bool a b = true -> a = b.
Proof. intros. apply Qc_eq_bool_correct. auto. Qed.

(* ---------- Field.integrate, both code paths ---------- *)
Theorem integrate_spec : forall k dom sp spaces t,
  length dom = k -> parse_spaces sp k = Some spaces ->
  (forall i, In i spaces -> has_vol dom i) ->
  shaped k (map sn dom) t ->
  integrate k dom sp t = Some (wint k (lvls dom spaces k) t).
Proof.
  intros k dom sp spaces t Hk Hp HV Hs.
  destruct (parse_spaces_ok _ _ _ Hp) as (ND & HR & HA).
  assert (length (lvls dom spaces k) = k) as Hlen by (unfold lvls; rewrite map_length, seq_length; auto).
  pose proof (contract_wapply k (lvls dom spaces k) (map sn dom) t Hlen Hs (lv_ok_lvls dom spaces k Hk)) as B.
  rewrite lv_scal_lvls in B; auto. rewrite lv_mask_lvls in B; auto.
  unfold integrate, scalar_weight. rewrite Hk, HA.
  destruct (scalar_weight_loop_cases dom spaces 1 HV) as [[E N] | [E U]]; rewrite E.
  - (* slow path: weight, then sum *)
    unfold weight. rewrite Hk, Hp.
    destruct (weight_loop_spec k dom spaces ND HV 1 [] t) as (fm' & EW & G).
    { intros. apply getf_nil. }
    rewrite wapply_nil in EW. rewrite EW. rewrite qpow_1.
    unfold csum. rewrite Hk, Hp. f_equal. rewrite <- B.
    assert (wapply k fm' t = wapply k (lv_fam (lvls dom spaces k)) t) as EF.
    { apply wapply_ext. intros j. rewrite G, getf_nil, lv_fam_lvls; auto. destruct (pix dom spaces j); auto. }
    destruct (Qc_eq_bool (1 * uprod dom spaces) 1) eqn:Q.
    + apply Qc_eq_bool_true in Q. replace (uprod dom spaces) with 1 by (rewrite <- Q; ring).
      rewrite tscale_1. rewrite EF. reflexivity.
    + rewrite contract_tscale. rewrite EF. f_equal. ring.
  - (* fast path: sum, then multiply with the scalar volume *)
    unfold csum. rewrite Hk, Hp. f_equal. rewrite <- B.
    replace (1 * uprod dom spaces) with (uprod dom spaces) by ring. f_equal. f_equal.
    rewrite <- (wapply_nil k t) at 1. apply wapply_ext. intros j.
    rewrite getf_nil, lv_fam_lvls; auto. unfold pix.
    destruct (existsb (Nat.eqb j) spaces) eqn:Ej; auto.
    apply existsb_eqb_in in Ej. destruct (U j Ej) as (s & w & Hs' & Ev). rewrite Hs', Ev. reflexivity.
Qed.

(* ---------- Field.mean = integrate / total volume, both code paths ---------- *)
Fixpoint cnt (dom : domain) (spaces : list nat) : Qc :=
  match spaces with
  | [] => 1
  | i :: r => match nth_error dom i with Some s => nQ (sn s) | None => 1 end * cnt dom r
  end.

Lemma count_loop_cnt : forall dom spaces res, count_loop dom spaces res = res * cnt dom spaces.
Proof.
  induction spaces; intros; simpl. ring.
  destruct (nth_error dom a); rewrite IHspaces; ring.
Qed.

Lemma total_volume_loop_uniform : forall dom spaces res, all_uniform dom spaces ->
  total_volume_loop dom spaces res = Some (res * (cnt dom spaces * uprod dom spaces)).
Proof.
  induction spaces; intros; simpl.
  - f_equal. ring.
  - destruct (H a (or_introl eq_refl)) as (s & w & Hs & Ev). unfold uvol, space_volume. rewrite Hs, Ev.
    rewrite IHspaces. f_equal. ring. intros i Hi. apply H. right. auto.
Qed.

Theorem mean_spec : forall k dom sp spaces t r v,
  length dom = k -> parse_spaces sp k = Some spaces ->
  (forall i, In i spaces -> has_vol dom i) ->
  integrate k dom sp t = Some r -> total_volume dom sp = Some v -> v <> 0 ->
  mean k dom sp t = Some (tscale k (1 / v) r).
Proof.
  intros k dom sp spaces t r v Hk Hp HV HI HT Hv.
  destruct (parse_spaces_ok _ _ _ Hp) as (ND & HR & HA).
  unfold integrate, mean in *. unfold scalar_weight in *. rewrite Hk, HA in *.
  destruct (scalar_weight_loop_cases dom spaces 1 HV) as [[E N] | [E U]]; rewrite E in *.
  - destruct (weight k 1 dom sp t) as [t' |]; [| discriminate].
    rewrite HI, HT. reflexivity.
  - unfold csum in HI. rewrite Hk, Hp in *. inversion HI. subst r. clear HI.
    unfold total_volume in HT. rewrite Hk, HA in HT. rewrite total_volume_loop_uniform in HT; auto.
    inversion HT. subst v. clear HT.
    rewrite count_loop_cnt. rewrite tscale_tscale. f_equal. f_equal.
    assert (cnt dom spaces <> 0) by (intro Z; apply Hv; rewrite Z; ring).
    assert (uprod dom spaces <> 0) by (intro Z; apply Hv; rewrite Z; ring).
    field. repeat split; auto.
Qed.

(* ---------- linearity of contractions; vdot is sesquilinear ---------- *)
Section Additive.
Variable g : C -> C.
Hypothesis g_add : forall a b, g (cadd a b) = cadd (g a) (g b).
Hypothesis g_0 : g c0 = c0.

Lemma tmap_tpz_add : forall k a b, tmap k g (tpz k cadd a b) = tpz k cadd (tmap k g a) (tmap k g b).
Proof.
  induction k; simpl; intros; auto. apply padzip_map. intros. apply IHk.
Qed.

Lemma tmap_treduce : forall k l, tmap k g (treduce k cadd c0 l) = treduce k cadd c0 (map (tmap k g) l).
Proof.
  induction l; simpl.
  - destruct k; simpl; auto.
  - unfold treduce in *. simpl. rewrite tmap_tpz_add. f_equal. auto.
Qed.

Lemma contract_tmap : forall k mask t,
  contract k cadd c0 mask (tmap k g t) = tmap k g (contract k cadd c0 mask t).
Proof.
  induction k; intros; auto.
  cbn [contract tmap]. rewrite map_map.
  rewrite (map_ext _ (fun x => tmap k g (contract k cadd c0 (tl mask) x))) by (intros; apply IHk).
  rewrite <- map_map.
  destruct (hd false mask).
  - cbn [map]. f_equal. symmetry. apply tmap_treduce.
  - reflexivity.
Qed.
End Additive.

Lemma padzip_comm : forall (A : Type) (f : A -> A -> A) l1 l2,
  (forall a b, f a b = f b a) -> padzip f l1 l2 = padzip f l2 l1.
Proof. induction l1; destruct l2; simpl; intros; auto. f_equal; auto. Qed.

Lemma padzip_assoc : forall (A : Type) (f : A -> A -> A) l1 l2 l3,
  (forall a b c, f a (f b c) = f (f a b) c) -> padzip f l1 (padzip f l2 l3) = padzip f (padzip f l1 l2) l3.
Proof.
  induction l1; destruct l2; destruct l3; simpl; intros; auto. f_equal; auto.
Qed.

Lemma padzip_nil_r : forall (A : Type) (f : A -> A -> A) l, padzip f l [] = l.
Proof. destruct l; auto. Qed.

Lemma tpz_add_comm : forall k a b, tpz k cadd a b = tpz k cadd b a.
Proof. induction k; simpl; intros. apply cadd_comm. apply padzip_comm. auto. Qed.

Lemma tpz_add_assoc : forall k a b c, tpz k cadd a (tpz k cadd b c) = tpz k cadd (tpz k cadd a b) c.
Proof. induction k; simpl; intros. apply cadd_assoc. apply padzip_assoc. auto. Qed.

Lemma tpz_unit_l : forall k a, tpz k cadd (tunit k c0) a = a.
Proof. destruct k; simpl; intros; auto. apply cadd_0_l. Qed.

Lemma tpz_unit_r : forall k a, tpz k cadd a (tunit k c0) = a.
Proof. intros. rewrite tpz_add_comm. apply tpz_unit_l. Qed.

Lemma treduce_padzip : forall k X Y,
  treduce k cadd c0 (padzip (tpz k cadd) X Y) = tpz k cadd (treduce k cadd c0 X) (treduce k cadd c0 Y).
Proof.
  unfold treduce. induction X; destruct Y; simpl; intros.
  - symmetry. apply tpz_unit_l.
  - symmetry. apply tpz_unit_l.
  - symmetry. apply tpz_unit_r.
  - rewrite IHX.
    set (TX := fold_right (tpz k cadd) (tunit k c0) X). set (TY := fold_right (tpz k cadd) (tunit k c0) Y).
    rewrite <- !tpz_add_assoc. f_equal. rewrite !tpz_add_assoc. f_equal. apply tpz_add_comm.
Qed.

Lemma contract_tpz_add : forall k mask x y,
  contract k cadd c0 mask (tpz k cadd x y) = tpz k cadd (contract k cadd c0 mask x) (contract k cadd c0 mask y).
Proof.
  induction k; intros; auto.
  cbn [contract tpz].
  rewrite (padzip_map _ (tpz k cadd) (contract k cadd c0 (tl mask))) by (intros; apply IHk).
  destruct (hd false mask); auto.
  cbn [padzip]. f_equal. apply treduce_padzip.
Qed.

Lemma map2_padzip_l : forall (A B : Type) (f : A -> A -> A) (f' : B -> B -> B) (g : A -> A -> B) l1 l2 l3,
  (forall a b c, g (f a b) c = f' (g a c) (g b c)) ->
  map2 g (padzip f l1 l2) l3 = padzip f' (map2 g l1 l3) (map2 g l2 l3).
Proof.
  induction l1; intros l2 l3 H.
  - reflexivity.
  - destruct l2.
    + cbn [padzip]. change (map2 g [] l3) with (@nil B). rewrite padzip_nil_r. reflexivity.
    + destruct l3; simpl; auto. f_equal; auto.
Qed.

Lemma map2_padzip_r : forall (A B : Type) (f : A -> A -> A) (f' : B -> B -> B) (g : A -> A -> B) l1 l2 l3,
  (forall a b c, g c (f a b) = f' (g c a) (g c b)) ->
  map2 g l3 (padzip f l1 l2) = padzip f' (map2 g l3 l1) (map2 g l3 l2).
Proof.
  induction l1; intros l2 l3 H.
  - cbn [padzip]. destruct l3; reflexivity.
  - destruct l2.
    + cbn [padzip]. destruct l3; simpl; auto. 
    + destruct l3; simpl; auto. f_equal; auto.
Qed.

Lemma tzip_mul_add_l : forall k a a' b,
  tzip k cmul (tpz k cadd a a') b = tpz k cadd (tzip k cmul a b) (tzip k cmul a' b).
Proof.
  induction k; simpl; intros. apply cmul_add_l. apply map2_padzip_l. intros. apply IHk.
Qed.

Lemma tzip_mul_add_r : forall k a b b',
  tzip k cmul a (tpz k cadd b b') = tpz k cadd (tzip k cmul a b) (tzip k cmul a b').
Proof.
  induction k; simpl; intros. apply cmul_add_r. apply map2_padzip_r. intros. apply IHk.
Qed.

Lemma map2_map_l : forall (A A' B D : Type) (f : A' -> B -> D) (g : A -> A') l1 l2,
  map2 f (map g l1) l2 = map2 (fun a b => f (g a) b) l1 l2.
Proof. induction l1; destruct l2; simpl; auto. intros. f_equal. auto. Qed.

Lemma map2_ext_all : forall (A B D : Type) (f g : A -> B -> D) l1 l2,
  (forall a b, f a b = g a b) -> map2 f l1 l2 = map2 g l1 l2.
Proof. intros. apply map2_ext. auto. Qed.

Lemma tzip_mul_tmap_l : forall k c a b,
  tzip k cmul (tmap k (cmul c) a) b = tmap k (cmul c) (tzip k cmul a b).
Proof.
  induction k; simpl; intros.
  - symmetry. apply cmul_assoc.
  - rewrite map2_map_l, map_map2. apply map2_ext_all. intros. apply IHk.
Qed.

Lemma tzip_mul_tmap_r : forall k c a b,
  tzip k cmul a (tmap k (cmul c) b) = tmap k (cmul c) (tzip k cmul a b).
Proof.
  induction k; simpl; intros.
  - rewrite !cmul_assoc. f_equal. apply cmul_comm.
  - rewrite map2_map_r, map_map2. apply map2_ext_all. intros. apply IHk.
Qed.

Definition vd (k : nat) (mask : list bool) (a b : tens k) : tens k :=
  contract k cadd c0 mask (tzip k cmul (tmap k cconj a) b).

Lemma cmul_additive : forall c a b, cmul c (cadd a b) = cadd (cmul c a) (cmul c b).
Proof. intros. apply cmul_add_r. Qed.

Lemma vd_linear_r : forall k mask c a b b',
  vd k mask a (tpz k cadd b (tmap k (cmul c) b')) =
  tpz k cadd (vd k mask a b) (tmap k (cmul c) (vd k mask a b')).
Proof.
  intros. unfold vd. rewrite tzip_mul_add_r, contract_tpz_add. f_equal.
  rewrite tzip_mul_tmap_r. apply contract_tmap.
  - apply cmul_additive.
  - apply cmul_0_r.
Qed.

Lemma vd_conj_linear_l : forall k mask c a a' b,
  vd k mask (tpz k cadd a (tmap k (cmul c) a')) b =
  tpz k cadd (vd k mask a b) (tmap k (cmul (cconj c)) (vd k mask a' b)).
Proof.
  intros. unfold vd.
  rewrite (tmap_tpz_add cconj cconj_add).
  rewrite tzip_mul_add_l, contract_tpz_add. f_equal.
  rewrite tmap_tmap.
  rewrite (tmap_ext k (fun x => cconj (cmul c x)) (fun x => cmul (cconj c) (cconj x))) by (intros; apply cconj_mul).
  rewrite <- (tmap_tmap k (cmul (cconj c)) cconj).
  rewrite tzip_mul_tmap_l. apply contract_tmap.
  - apply cmul_additive.
  - apply cmul_0_r.
Qed.

(* ---------- domain identity ---------- *)
Lemma Qc_eq_bool_refl : forall a, Qc_eq_bool a a = true.
Proof. intros. unfold Qc_eq_bool. destruct (Qc_eq_dec a a); auto; congruence. Qed.

Lemma forallb_combine_eq : forall x y : list Qc, length x = length y ->
  forallb (fun p => Qc_eq_bool (fst p) (snd p)) (combine x y) = true -> x = y.
Proof.
  induction x; destruct y; simpl; intros; try discriminate; auto.
  apply andb_prop in H0. destruct H0. f_equal.
  - apply Qc_eq_bool_true. auto.
  - apply IHx; auto.
Qed.

Lemma forallb_combine_refl : forall x : list Qc, forallb (fun p => Qc_eq_bool (fst p) (snd p)) (combine x x) = true.
Proof. induction x; simpl; auto. rewrite Qc_eq_bool_refl. auto. Qed.

Lemma space_eqb_iff : forall a b, space_eqb a b = true <-> a = b.
Proof.
  intros [n1 v1] [n2 v2]. unfold space_eqb. simpl. split.
  - intros H. apply andb_prop in H. destruct H as [H1 H2]. apply Nat.eqb_eq in H1. subst.
    destruct v1, v2; try discriminate; auto.
    + apply Qc_eq_bool_true in H2. subst. auto.
    + apply andb_prop in H2. destruct H2 as [H2 H3]. apply Nat.eqb_eq in H2.
      rewrite (forallb_combine_eq ws ws0); auto.
  - intros H. inversion H. subst. rewrite Nat.eqb_refl. simpl. destruct v2; auto.
    + apply Qc_eq_bool_refl.
    + rewrite Nat.eqb_refl. simpl. apply forallb_combine_refl.
Qed.

Lemma dom_eqb_iff : forall a b, dom_eqb a b = true <-> a = b.
Proof.
  induction a; destruct b; simpl; split; intros; try discriminate; auto.
  - apply andb_prop in H. destruct H. f_equal. apply space_eqb_iff; auto. apply IHa; auto.
  - inversion H. subst. apply andb_true_iff. split. apply space_eqb_iff; auto. apply IHa; auto.
Qed.

Lemma binop_defined_iff : forall k f d1 d2 a b,
  (exists r, binop k f d1 d2 a b = Some r) <-> d1 = d2.
Proof.
  intros. unfold binop. destruct (dom_eqb d1 d2) eqn:E.
  - split; intros. apply dom_eqb_iff; auto. eauto.
  - split; intros. destruct H; discriminate. apply dom_eqb_iff in H. congruence.
Qed.

Lemma vdot_rejects_mismatch : forall k d1 d2 sp a b, d1 <> d2 -> vdot k d1 d2 sp a b = None.
Proof.
  intros. unfold vdot. destruct (dom_eqb d1 d2) eqn:E; auto. apply dom_eqb_iff in E. congruence.
Qed.

Lemma vdot_is_vd : forall k dom sp spaces a b, parse_spaces sp (length dom) = Some spaces ->
  vdot k dom dom sp a b = Some (vd k (mask_of spaces (length dom)) a b).
Proof.
  intros. unfold vdot, csum. rewrite (proj2 (dom_eqb_iff dom dom) eq_refl). rewrite H. reflexivity.
Qed.

Lemma binop_pointwise : forall k f dom a b, binop k f dom dom a b = Some (tzip k f a b).
Proof. intros. unfold binop. rewrite (proj2 (dom_eqb_iff dom dom) eq_refl). reflexivity. Qed.

Lemma var_is_mean_square_deviation : forall k dom sp (t m : tens k),
  mean k dom sp t = Some m ->
  var k dom sp t = mean k dom sp (tmap k cabs2 (tbcast k csub t m)).
Proof. intros. unfold var. rewrite H. reflexivity. Qed.

Lemma sum_linear : forall k mask q (x y : tens k),
  contract k cadd c0 mask (tpz k cadd x (tscale k q y)) =
  tpz k cadd (contract k cadd c0 mask x) (tscale k q (contract k cadd c0 mask y)).
Proof. intros. rewrite contract_tpz_add, contract_tscale. reflexivity. Qed.
