(* C06 -- lemmas for the round-6 extension: MultiField.s_sum and MultiField * scalar. *)
From Coq Require Import QArith Qabs Qcanon ZArith List Bool Arith Lia.
Import ListNotations.
Require Import NV.C06.Model NV.C06.Proofs.
Local Open Scope Qc_scope.

Lemma ms_sum_loop_total : forall a acc, ms_sum_loop a acc = cadd acc (mtotal a).
Proof.
  induction a as [| x r IH]; intros acc; simpl.
  - now rewrite cadd_0_r.
  - rewrite IH. now rewrite cadd_assoc.
Qed.

(* the left fold of my_sum computes the order-free total *)
Lemma ms_sum_total : forall a, a <> [] -> ms_sum a = Some (mtotal a).
Proof.
  intros [| x r] H; [congruence |]. simpl. now rewrite ms_sum_loop_total.
Qed.

Lemma ms_sum_defined_iff : forall a, (exists v, ms_sum a = Some v) <-> a <> [].
Proof.
  intros a; split.
  - intros [v H] ->. discriminate.
  - intros H. eexists. now apply ms_sum_total.
Qed.

Lemma mtotal_app : forall a b, mtotal (a ++ b) = cadd (mtotal a) (mtotal b).
Proof.
  induction a as [| x r IH]; intros b; simpl.
  - now rewrite cadd_0_l.
  - rewrite IH. now rewrite cadd_assoc.
Qed.

(* s_sum over a MultiField whose key set is split in two = sum of the two s_sums *)
Lemma ms_sum_app : forall a b va vb,
  ms_sum a = Some va -> ms_sum b = Some vb -> ms_sum (a ++ b) = Some (cadd va vb).
Proof.
  intros a b va vb Ha Hb.
  assert (Na : a <> []) by (apply ms_sum_defined_iff; eauto).
  assert (Nb : b <> []) by (apply ms_sum_defined_iff; eauto).
  rewrite (ms_sum_total a Na) in Ha. rewrite (ms_sum_total b Nb) in Hb.
  inversion Ha; inversion Hb; subst.
  rewrite ms_sum_total.
  - now rewrite mtotal_app.
  - destruct a; [congruence | discriminate].
Qed.

Lemma tsum_all_cmul : forall k c (t : tens k),
  tsum_all k (tmap k (fun x => cmul x c) t) = cmul (tsum_all k t) c.
Proof.
  induction k as [| k IH]; intros c t; simpl.
  - reflexivity.
  - induction t as [| x r IHr]; simpl.
    + now rewrite cmul_0_l.
    + rewrite IHr, IH. now rewrite cmul_add_l.
Qed.

Lemma mtotal_scalar_mul : forall a c, mtotal (mbinop_scalar cmul a c) = cmul (mtotal a) c.
Proof.
  induction a as [| x r IH]; intros c; simpl.
  - now rewrite cmul_0_l.
  - unfold binop_scalar. rewrite tsum_all_cmul, IH. now rewrite cmul_add_l.
Qed.

(* s_sum is homogeneous: (mf * c).s_sum() = mf.s_sum() * c for every complex scalar c *)
Lemma ms_sum_scalar_mul : forall a c v,
  ms_sum a = Some v -> ms_sum (mbinop_scalar cmul a c) = Some (cmul v c).
Proof.
  intros a c v H.
  assert (Na : a <> []) by (apply ms_sum_defined_iff; eauto).
  rewrite (ms_sum_total a Na) in H. inversion H; subst.
  rewrite ms_sum_total.
  - now rewrite mtotal_scalar_mul.
  - destruct a; [congruence | discriminate].
Qed.

