(* C06 -- property theorems only.  Each is closed by [exact] of a lemma from Proofs.v.

   Model: coq/C06/Model.v (exact arithmetic over Qc / Gaussian rationals, one nesting level per
   sub-domain, contractions keepdims).  Field.weight's dtype handling is as in fixes/C06-1.patch
   (integer data are promoted; the model has no dtypes). *)
From Coq Require Import QArith Qcanon ZArith List Bool Arith.
Import ListNotations.
Require Import NV.C06.Model NV.C06.Proofs NV.C06.Proofs2.
Local Open Scope Qc_scope.

(* Field.integrate, BOTH code paths (scalar-volume shortcut `sum(spaces) * swgt`, and
   `weight(1, spaces).sum(spaces)` with its loop over sub-domains in the order given, scalar
   volumes collected in `fct`, pixel volumes multiplied into the array level by level):
   for every domain tuple, every valid `spaces` argument (None or any duplicate-free list in any
   order), every array of the domain's shape, the result is the iterated weighted sum [wint]:
   for each contracted sub-domain the sum over its pixels i of  volume_i * (the integral of slice i
   over the remaining contracted sub-domains); uniform volumes enter as `repeat w n`. *)
Theorem C06_integrate :
  forall (k : nat) (dom : domain) (sp : option (list nat)) (spaces : list nat) (t : tens k),
    length dom = k -> parse_spaces sp k = Some spaces ->
    (forall i, In i spaces -> has_vol dom i) ->
    shaped k (map sn dom) t ->
    integrate k dom sp t = Some (wint k (lvls dom spaces k) t).
Proof. exact integrate_spec. Qed.

(* Field.mean = integrate / total volume on both code paths (ndarray.mean shortcut when all
   contracted volumes are uniform; weight + sum + 1/total_volume otherwise). *)
Theorem C06_mean :
  forall (k : nat) (dom : domain) (sp : option (list nat)) (spaces : list nat) (t r : tens k) (v : Qc),
    length dom = k -> parse_spaces sp k = Some spaces ->
    (forall i, In i spaces -> has_vol dom i) ->
    integrate k dom sp t = Some r -> total_volume dom sp = Some v -> v <> 0 ->
    mean k dom sp t = Some (tscale k (1 / v) r).
Proof. exact mean_spec. Qed.

(* Field.var is the mean of |f - mean|^2 (mean broadcast back), real and complex, on both paths of
   mean.  (Definitional in the model: ndarray.var is modelled by exactly this formula; the
   correspondence ties it to np.var.) *)
Theorem C06_var :
  forall (k : nat) (dom : domain) (sp : option (list nat)) (t m : tens k),
    mean k dom sp t = Some m ->
    var k dom sp t = mean k dom sp (tmap k cabs2 (tbcast k csub t m)).
Proof. exact var_is_mean_square_deviation. Qed.

(* The weighting loop of Field.weight(1, spaces): scalar volumes end up in one factor, pixel
   volumes are applied along their own level; independent of the order of `spaces`. *)
Theorem C06_weight_loop :
  forall (k : nat) (dom : domain) (spaces : list nat),
    NoDup spaces -> (forall i, In i spaces -> has_vol dom i) ->
    forall (fct : Qc) (fm : fam) (t : tens k), (forall i, In i spaces -> getf fm i = None) ->
    exists fm', weight_loop k 1 dom spaces fct (wapply k fm t) = Some (fct * uprod dom spaces, wapply k fm' t) /\
                forall j, getf fm' j = match pix dom spaces j with Some ws => Some ws | None => getf fm j end.
Proof. exact weight_loop_spec. Qed.

(* Summation over sub-domains (the axis bookkeeping of _contraction_helper) is linear. *)
Theorem C06_sum_linear :
  forall (k : nat) (mask : list bool) (q : Qc) (x y : tens k),
    contract k cadd c0 mask (tpz k cadd x (tscale k q y)) =
    tpz k cadd (contract k cadd c0 mask x) (tscale k q (contract k cadd c0 mask y)).
Proof. exact sum_linear. Qed.

(* vdot (full or partial: `spaces` arbitrary) is conjugate-linear in the first and linear in the
   second argument, for complex scalars c. *)
Theorem C06_vdot_is_sum_conj_times :
  forall (k : nat) (dom : domain) (sp : option (list nat)) (spaces : list nat) (a b : tens k),
    parse_spaces sp (length dom) = Some spaces ->
    vdot k dom dom sp a b = Some (vd k (mask_of spaces (length dom)) a b).
Proof. exact vdot_is_vd. Qed.

Theorem C06_vdot_linear_second :
  forall (k : nat) (mask : list bool) (c : C) (a b b' : tens k),
    vd k mask a (tpz k cadd b (tmap k (cmul c) b')) =
    tpz k cadd (vd k mask a b) (tmap k (cmul c) (vd k mask a b')).
Proof. exact vd_linear_r. Qed.

Theorem C06_vdot_conjugate_linear_first :
  forall (k : nat) (mask : list bool) (c : C) (a a' b : tens k),
    vd k mask (tpz k cadd a (tmap k (cmul c) a')) b =
    tpz k cadd (vd k mask a b) (tmap k (cmul (cconj c)) (vd k mask a' b)).
Proof. exact vd_conj_linear_l. Qed.

(* Operands on different domains are rejected, operands on the same domain are combined
   pixel by pixel. *)
Theorem C06_domain_mismatch :
  forall (k : nat) (f : C -> C -> C) (d1 d2 : domain) (a b : tens k),
    (exists r, binop k f d1 d2 a b = Some r) <-> d1 = d2.
Proof. exact binop_defined_iff. Qed.

Theorem C06_vdot_domain_mismatch :
  forall (k : nat) (d1 d2 : domain) (sp : option (list nat)) (a b : tens k),
    d1 <> d2 -> vdot k d1 d2 sp a b = None.
Proof. exact vdot_rejects_mismatch. Qed.

Theorem C06_pointwise :
  forall (k : nat) (f : C -> C -> C) (dom : domain) (a b : tens k),
    binop k f dom dom a b = Some (tzip k f a b).
Proof. exact binop_pointwise. Qed.

(* ---- round-6 extension: MultiField.s_sum (my_sum = left fold over the entries of Field.s_sum) and
   MultiField * scalar (the scalar branch of MultiField._binary_op) ---- *)

(* For every MultiField with at least one entry (any number of entries, any ranks/shapes/values),
   the left fold of utilities.my_sum returns the plain total: the sum over the entries of the sum
   over all their pixels; it is defined (reduce() does not raise) iff there is an entry. *)
Theorem C06_mf_s_sum_is_total :
  forall a : mfield, a <> [] -> ms_sum a = Some (mtotal a).
Proof. exact ms_sum_total. Qed.

Theorem C06_mf_s_sum_defined_iff :
  forall a : mfield, (exists v, ms_sum a = Some v) <-> a <> [].
Proof. exact ms_sum_defined_iff. Qed.

(* s_sum over a MultiField whose entries are split into two MultiFields is the sum of both. *)
Theorem C06_mf_s_sum_additive :
  forall (a b : mfield) (va vb : C),
    ms_sum a = Some va -> ms_sum b = Some vb -> ms_sum (a ++ b) = Some (cadd va vb).
Proof. exact ms_sum_app. Qed.

(* s_sum is homogeneous w.r.t. the scalar branch of MultiField._binary_op('__mul__'):
   (mf * c).s_sum() = mf.s_sum() * c for every complex scalar c. *)
Theorem C06_mf_s_sum_scalar_mul :
  forall (a : mfield) (c v : C),
    ms_sum a = Some v -> ms_sum (mbinop_scalar cmul a c) = Some (cmul v c).
Proof. exact ms_sum_scalar_mul. Qed.

(* Non-vacuity of the above: {0: [1,2] on RG(2), 1: [3] on a 1-pixel space}: s_sum = 6; times 2: 12 *)
Example C06_mf_s_sum_example :
  let zz := fun n : Z => (Q2Qc (inject_Z n), Q2Qc 0) : C in
  let d1 := [mkSp 2%nat (Uniform (Q2Qc 1))] in
  let d2 := [mkSp 1%nat (Uniform (Q2Qc 1))] in
  let a : mfield := [mkEnt 0%nat 1%nat d1 [zz 1%Z; zz 2%Z]; mkEnt 1%nat 1%nat d2 [zz 3%Z]] in
  ms_sum a = Some (zz 6%Z) /\ ms_sum (mbinop_scalar cmul a (zz 2%Z)) = Some (zz 12%Z).
Proof. cbv zeta. split; vm_compute; reflexivity. Qed.

(* Non-vacuity: RGSpace(2, distances 1/2) x DOFSpace([1/2, 2, 1]) with data [[1,2,3],[4,5,6]]:
   the hypotheses of C06_integrate hold; the full integral is 1/2*(1/2*1+2*2+1*3 + 1/2*4+2*5+1*6)
   = 51/4, the integral over the DOF space alone is [15/2, 18], the mean over both is
   (51/4)/(2*1/2*7/2) = 51/14. *)
Example C06_hyps_satisfiable :
  let qq := fun n d => Q2Qc (n # d) in
  let dom := [mkSp 2%nat (Uniform (qq 1%Z 2%positive)); mkSp 3%nat (PerPixel [qq 1%Z 2%positive; qq 2%Z 1%positive; qq 1%Z 1%positive])] in
  let zz := fun n : Z => (Q2Qc (inject_Z n), Q2Qc 0) : C in
  let t : tens 2%nat := [[zz 1%Z; zz 2%Z; zz 3%Z]; [zz 4%Z; zz 5%Z; zz 6%Z]] in
  length dom = 2%nat /\ parse_spaces None 2%nat = Some [0%nat; 1%nat] /\
  (forall i, In i [0%nat; 1%nat] -> has_vol dom i) /\ shaped 2%nat (map sn dom) t /\
  same 2%nat (Q2Qc 0) (integrate 2%nat dom None t) (Some [[(qq 51%Z 4%positive, Q2Qc 0)]]) = true /\
  same 2%nat (Q2Qc 0) (integrate 2%nat dom (Some [1%nat]) t)
       (Some [[(qq 15%Z 2%positive, Q2Qc 0)]; [(qq 18%Z 1%positive, Q2Qc 0)]]) = true /\
  same 2%nat (Q2Qc 0) (mean 2%nat dom None t) (Some [[(qq 51%Z 14%positive, Q2Qc 0)]]) = true.
Proof.
  cbv zeta. split; [reflexivity |]. split; [reflexivity |]. split.
  { intros i [H | [H | []]]; subst; simpl; eexists; (split; [reflexivity | discriminate]). }
  split. { simpl. repeat constructor. }
  split; [vm_compute; reflexivity |]. split; vm_compute; reflexivity.
Qed.
