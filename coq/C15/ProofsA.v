(* C15 -- basic vector / rational lemmas and the eager = static simulation (pure control flow). *)
From Coq Require Import List ZArith QArith Qcanon Bool Arith Lia.
Import ListNotations.
Require Import NV.C15.Model.
Open Scope Qc_scope.

(* ------------------------------------------------------------------ vectors *)
Lemma vmk_length : forall n f, length (vmk n f) = n.
Proof. intros; unfold vmk; now rewrite map_length, seq_length. Qed.

Lemma vget_vmk : forall n f i, (i < n)%nat -> vget (vmk n f) i = f i.
Proof.
  intros n f i H. unfold vget, vmk.
  rewrite nth_indep with (d' := f 0%nat) by (now rewrite map_length, seq_length).
  rewrite map_nth, seq_nth; auto.
Qed.

Lemma vmk_ext : forall n f g, (forall i, (i < n)%nat -> f i = g i) -> vmk n f = vmk n g.
Proof.
  intros n f g H. unfold vmk. apply map_ext_in. intros a Ha. apply in_seq in Ha. apply H; lia.
Qed.

Lemma vmk_id : forall n x, length x = n -> vmk n (fun i => vget x i) = x.
Proof.
  intros n x H. apply nth_ext with (d := 0) (d' := 0).
  - now rewrite vmk_length.
  - intros i Hi. rewrite vmk_length in Hi. fold (vget (vmk n (fun i0 => vget x i0)) i).
    now rewrite vget_vmk.
Qed.

Lemma sumn_ext : forall n f g, (forall i, (i < n)%nat -> f i = g i) -> sumn n f = sumn n g.
Proof.
  induction n; intros f g H; simpl; auto.
  rewrite (IHn f g), H; auto.
Qed.

Lemma sumn_add : forall n f g, sumn n (fun i => f i + g i) = sumn n f + sumn n g.
Proof. induction n; intros; simpl; [ring | rewrite IHn; ring]. Qed.

Lemma sumn_scale : forall n a f, sumn n (fun i => a * f i) = a * sumn n f.
Proof. induction n; intros; simpl; [ring | rewrite IHn; ring]. Qed.

Lemma sumn_zero : forall n, sumn n (fun _ => 0) = 0.
Proof. induction n; simpl; [reflexivity | rewrite IHn; ring]. Qed.

Lemma sumn_swap : forall n m (f : nat -> nat -> Qc),
  sumn n (fun i => sumn m (fun k => f i k)) = sumn m (fun k => sumn n (fun i => f i k)).
Proof.
  induction n; intros m f; simpl.
  - now rewrite sumn_zero.
  - rewrite IHn, <- sumn_add. reflexivity.
Qed.

Lemma dot_ext_l : forall n x x' y, (forall i, (i < n)%nat -> vget x i = vget x' i) -> dot n x y = dot n x' y.
Proof. intros. unfold dot. apply sumn_ext. intros i Hi. now rewrite H. Qed.

Lemma dot_sym : forall n x y, dot n x y = dot n y x.
Proof. intros. unfold dot. apply sumn_ext. intros; ring. Qed.

Lemma dot_ext_r : forall n x y y', (forall i, (i < n)%nat -> vget y i = vget y' i) -> dot n x y = dot n x y'.
Proof. intros. rewrite (dot_sym n x y), (dot_sym n x y'). now apply dot_ext_l. Qed.

Lemma dot_axpy_l : forall n a x y z, dot n (axpy n a x y) z = a * dot n x z + dot n y z.
Proof.
  intros. unfold dot, axpy. rewrite <- sumn_scale, <- sumn_add. apply sumn_ext.
  intros i Hi. rewrite vget_vmk by assumption. ring.
Qed.

Lemma dot_axpy_r : forall n a x y z, dot n z (axpy n a x y) = a * dot n z x + dot n z y.
Proof. intros. rewrite dot_sym, dot_axpy_l, (dot_sym n x z), (dot_sym n y z). reflexivity. Qed.

Lemma dot_vsub_l : forall n x y z, dot n (vsub n x y) z = dot n x z - dot n y z.
Proof.
  intros. unfold dot, vsub. unfold Qcminus. rewrite <- (Qcmult_1_l (sumn n (fun i => vget y i * vget z i))) at 1.
  replace (- (1 * sumn n (fun i => vget y i * vget z i))) with ((-(1)) * sumn n (fun i => vget y i * vget z i)) by ring.
  rewrite <- sumn_scale, <- sumn_add. apply sumn_ext.
  intros i Hi. rewrite vget_vmk by assumption. ring.
Qed.

Lemma dot_vscale_l : forall n a x z, dot n (vscale n a x) z = a * dot n x z.
Proof.
  intros. unfold dot, vscale. rewrite <- sumn_scale. apply sumn_ext.
  intros i Hi. rewrite vget_vmk by assumption. ring.
Qed.

Lemma axpy_length : forall n a x y, length (axpy n a x y) = n.
Proof. intros; apply vmk_length. Qed.

Lemma axpy_zero : forall n a x y, a = 0 -> length y = n -> axpy n (- a) x y = y.
Proof.
  intros n a x y -> H. unfold axpy. etransitivity; [|exact (vmk_id n y H)].
  apply vmk_ext. intros; ring.
Qed.

(* ------------------------------------------------------------------ comparisons *)
Lemma Qcleb_eq_lt : forall a b, Qcleb a b = Qceqb a b || Qcltb a b.
Proof. intros. unfold Qcleb, Qceqb, Qcltb. destruct (a ?= b); reflexivity. Qed.

Lemma Qceqb_true : forall a b, Qceqb a b = true <-> a = b.
Proof. intros. unfold Qceqb. rewrite Qceq_alt. destruct (a ?= b); split; congruence. Qed.

Lemma Qcltb_true : forall a b, Qcltb a b = true <-> a < b.
Proof. intros. unfold Qcltb. rewrite Qclt_alt. destruct (a ?= b); split; congruence. Qed.

Lemma Qcleb_true : forall a b, Qcleb a b = true <-> a <= b.
Proof. intros. unfold Qcleb. rewrite Qcle_alt. destruct (a ?= b); split; congruence. Qed.

Lemma Qcltb_false : forall a b, Qcltb a b = false <-> b <= a.
Proof.
  intros. split; intro H.
  - apply Qcnot_lt_le. intro H1. apply Qcltb_true in H1. congruence.
  - destruct (Qcltb a b) eqn:E; auto. apply Qcltb_true in E. exfalso. eapply Qcle_not_lt; eauto.
Qed.

Lemma Zof_nat_ltb : forall i, Z.ltb (Z.of_nat i) (-1) = false.
Proof. intros. apply Z.ltb_ge. lia. Qed.
Lemma Zof_nat_eqb : forall i, Z.eqb (Z.of_nat i) (-1) = false.
Proof. intros. apply Z.eqb_neq. lia. Qed.

Ltac same_if :=
  repeat match goal with
  | |- context [if ?b then ?x else ?x] => replace (if b then x else x) with x by (destruct b; reflexivity)
  end.
Ltac fin :=
  repeat first
    [ rewrite Zof_nat_ltb | rewrite Zof_nat_eqb | rewrite andb_false_r | rewrite andb_true_r
    | progress cbn [andb orb negb Z.eqb Z.ltb Z.compare Pos.compare Pos.compare_cont Pos.eqb
                    it pos spos sinfo sit sr sd sgam sen r d gam en] ].

(* ------------------------------------------------------------------ eager = static *)
Definition result_of (v : sst) : outcome :=
  if Z.eqb (sinfo v) (-1) then Raised else Done (spos v) (sinfo v) (sit v).

Section Sim.
Variable n : nat.
Variable mat : vec -> vec.
Variable j : vec.
Variable c : cfg.
Hypothesis Hnf : old_fallback c = false.
Hypothesis Hng : old_guards c = false.

Definition sync (s : st) (v : sst) : Prop :=
  spos v = pos s /\ sr v = r s /\ sd v = d s /\ sgam v = gam s /\ sen v = en s /\ sit v = it s /\
  sinfo v = (-2)%Z /\ length (pos s) = n.

Notation body := (eager_body n mat j c).
Notation sstep := (static_step n mat j c).
Notation mxi := (maxiter n c).

(* One iteration: either the eager body stops with outcome o and the static step ends in a state
   that is no longer running and reports o; or both continue in synchronised states -- unless the
   iteration limit is reached, in which case the static step reports (pos', i, i). *)
Lemma step_sim : forall s v, sync s v ->
  match body s with
  | (_, Some o) => Z.ltb (sinfo (sstep v)) (-1) = false /\ result_of (sstep v) = o
  | (s', None) =>
      it s' = S (it s) /\
      if Nat.leb mxi (S (it s))
      then Z.ltb (sinfo (sstep v)) (-1) = false /\
           result_of (sstep v) = Done (pos s') (Z.of_nat (it s')) (it s')
      else sync s' (sstep v)
  end.
Proof.
  intros s v (Hp & Hr & Hd & Hg & He & Hi & Hinfo & Hlen).
  unfold eager_body, static_step, fallback_eager, fallback_static, guard, guard_e, result_of.
  rewrite Hp, Hr, Hd, Hg, He, Hi, Hinfo, Hnf, Hng.
  set (i := S (it s)).
  set (q := mat (d s)).
  set (curv := dot n (d s) q).
  rewrite (Qcleb_eq_lt curv 0).
  assert (Hi1 : Nat.leb i 1 = negb (Nat.ltb 1 i)).
  { destruct (Nat.leb_spec i 1); destruct (Nat.ltb_spec 1 i); try reflexivity; lia. }
  rewrite Hi1.
  destruct (Qceqb curv 0) eqn:E0.
  { apply Qceqb_true in E0.
    assert (Hlt : Qcltb curv 0 = false) by (rewrite E0; reflexivity).
    rewrite Hlt.
    destruct (thr n j c) as [t|]; destruct (absdelta c) as [ad|]; destruct (raise_npd c); fin;
      rewrite ?(axpy_zero n 0 (d s) (pos s) eq_refl Hlen); same_if; fin; same_if; fin; auto. }
  destruct (Qcltb curv 0) eqn:E1.
  { destruct (thr n j c) as [t|]; destruct (absdelta c) as [ad|]; destruct (raise_npd c); fin;
      rewrite ?(axpy_zero n 0 (d s) (pos s) eq_refl Hlen); destruct (Nat.ltb 1 i); fin; same_if; fin; same_if; fin; auto. }
  fin.
  set (alpha := gam s / curv).
  set (pos' := axpy n (- alpha) (d s) (pos s)).
  set (r' := if Nat.eqb (i mod nreset c) 0 then vsub n (mat pos') j else axpy n (- alpha) q (r s)).
  set (gamma := dot n r' r').
  set (e' := energy n r' j pos').
  assert (Hlen' : length pos' = n) by apply axpy_length.
  clearbody e' gamma r' pos' alpha.
  destruct (Qcleb 0 gamma && Qcleb gamma (tiny c)) eqn:ET.
  { destruct (thr n j c) as [t|]; destruct (absdelta c) as [ad|]; fin; same_if; fin; same_if; fin; auto. }
  assert (Hend : forall dd,
    it {| pos := pos'; r := r'; d := dd; gam := gamma; en := e'; it := i |} = S (it s) /\
    (if (mxi <=? i)%nat
     then (Z.of_nat i <? -1)%Z = false /\
          (if (Z.of_nat i =? -1)%Z then Raised else Done pos' (Z.of_nat i) i) = Done pos' (Z.of_nat i) i
     else sync {| pos := pos'; r := r'; d := dd; gam := gamma; en := e'; it := i |}
               {| spos := pos'; sr := r'; sd := dd; sgam := gamma; sen := e'; sit := i; sinfo := -2 |})).
  { intros. split; [reflexivity|]. destruct (mxi <=? i)%nat.
    - rewrite Zof_nat_ltb, Zof_nat_eqb. auto.
    - unfold sync; cbn. repeat split; auto. }
  destruct (thr n j c) as [t|]; destruct (absdelta c) as [ad|]; fin.
  - destruct (norm_lt n c r' t && (miniter n c <=? i)%nat) eqn:EN; [fin; same_if; fin; auto|].
    destruct (Qcltb (en s - e') (- (eps c * Qcabs e'))) eqn:EE; [destruct (raise_npd c); fin; same_if; fin; auto|].
    destruct (Qcltb (en s - e') ad && (miniter n c <=? i)%nat) eqn:EA; [fin; same_if; fin; auto|].
    fin. specialize (Hend (axpy n (Qcmax 0 (gamma / gam s)) (d s) r')).
    destruct (mxi <=? i)%nat; fin; exact Hend.
  - destruct (norm_lt n c r' t && (miniter n c <=? i)%nat) eqn:EN; [fin; same_if; fin; auto|].
    destruct (Qcltb (en s - e') (- (eps c * Qcabs e'))) eqn:EE; [destruct (raise_npd c); fin; same_if; fin; auto|].
    fin. specialize (Hend (axpy n (Qcmax 0 (gamma / gam s)) (d s) r')).
    destruct (mxi <=? i)%nat; fin; exact Hend.
  - destruct (Qcltb (en s - e') (- (eps c * Qcabs e'))) eqn:EE; [destruct (raise_npd c); fin; same_if; fin; auto|].
    destruct (Qcltb (en s - e') ad && (miniter n c <=? i)%nat) eqn:EA; [fin; same_if; fin; auto|].
    fin. specialize (Hend (axpy n (Qcmax 0 (gamma / gam s)) (d s) r')).
    destruct (mxi <=? i)%nat; fin; exact Hend.
  - destruct (Qcltb (en s - e') (- (eps c * Qcabs e'))) eqn:EE; [destruct (raise_npd c); fin; same_if; fin; auto|].
    fin. specialize (Hend (axpy n (Qcmax 0 (gamma / gam s)) (d s) r')).
    destruct (mxi <=? i)%nat; fin; exact Hend.
Qed.

Lemma loop_sim : forall k s v, sync s v -> (it s + k = mxi)%nat -> (1 <= k)%nat ->
  forall fuel, (k <= fuel)%nat ->
  option_map result_of (static_loop n mat j c fuel v) = Some (eager_loop n mat j c k s).
Proof.
  induction k as [|k IH]; intros s v Hs Hk H1 fuel Hf; [lia|].
  destruct fuel as [|f]; [lia|].
  pose proof (step_sim s v Hs) as Hstep.
  destruct Hs as (Hp & Hr & Hd & Hg & He & Hi & Hinfo & Hlen).
  cbn [static_loop eager_loop]. rewrite Hinfo. change (-2 <? -1)%Z with true. cbv iota.
  destruct (body s) as [s' [o|]].
  - destruct Hstep as [Hnr Hres].
    destruct f; cbn [static_loop]; rewrite Hnr; cbn [option_map]; now rewrite Hres.
  - destruct Hstep as [Hit Hstep].
    destruct (Nat.leb_spec mxi (S (it s))).
    + destruct Hstep as [Hnr Hres].
      assert (k = 0)%nat by lia. subst k. cbn [eager_loop].
      destruct f; cbn [static_loop]; rewrite Hnr; cbn [option_map]; now rewrite Hres.
    + apply IH; auto; lia.
Qed.

Theorem equiv : forall x0 fuel,
  (1 <= mxi)%nat -> (mxi <= fuel)%nat ->
  (forall x, x0 = Some x -> length x = n) ->
  run_static n mat j c fuel x0 = run_eager n mat j c x0.
Proof.
  intros x0 fuel H1 Hf Hx. unfold run_static, run_eager.
  destruct (Qceqb (gam (init_st n mat j x0)) 0) eqn:E.
  - assert (Hi : sinfo (init_sst n mat j x0) = 0%Z) by (unfold init_sst; cbn [sinfo]; now rewrite E).
    assert (Hl : static_loop n mat j c fuel (init_sst n mat j x0) = Some (init_sst n mat j x0)).
    { destruct fuel; cbn [static_loop]; rewrite Hi; reflexivity. }
    rewrite Hl, Hi. reflexivity.
  - assert (Hs : sync (init_st n mat j x0) (init_sst n mat j x0)).
    { unfold sync, init_sst; cbn [spos sr sd sgam sen sit sinfo]. rewrite E.
      do 5 (split; [reflexivity|]). split; [destruct x0; reflexivity|]. split; [reflexivity|].
      destruct x0 as [x|]; cbn [init_st pos]; [now apply Hx | apply vmk_length]. }
    assert (H0 : it (init_st n mat j x0) = 0%nat) by (destruct x0; reflexivity).
    pose proof (loop_sim mxi _ _ Hs ltac:(rewrite H0; reflexivity) H1 fuel Hf) as HL.
    destruct (static_loop n mat j c fuel (init_sst n mat j x0)) as [v|]; cbn [option_map] in HL; [|discriminate].
    injection HL as HL. rewrite <- HL. reflexivity.
Qed.
End Sim.
