(* C15 -- property theorems only.  Model: NV.C15.Model (the code with fixes/C15-1.patch and
   fixes/C15-2.patch applied when old_fallback = old_guards = false; the unrepaired lines when the
   flags are true).  Exact rational arithmetic, real systems, `time_threshold` excluded. *)
From Coq Require Import List ZArith QArith Qcanon Bool Arith Lia.
Import ListNotations.
Require Import NV.C15.Model NV.C15.ProofsA NV.C15.ProofsB NV.C15.ProofsC.
Open Scope Qc_scope.

(* Eager and compiled variant agree: for EVERY operator `mat` (no symmetry, linearity or
   definiteness needed -- pure control flow), right-hand side, stopping configuration
   (absdelta/resnorm/tol/atol/norm_ord/miniter/maxiter/N_RESET/eps/tiny, failure reporting on or
   off, with or without x0) with at least one iteration allowed, `_static_cg` returns the same
   point, the same info and the same iteration count as `_cg`; a raised ValueError corresponds to
   info = -1.  This includes convergence in the very iteration that reaches maxiter, the
   gamma <= tiny exit, the non-positive-curvature exits and the energy-increase exit. *)
Theorem C15_equiv :
  forall (n : nat) (mat : vec -> vec) (j : vec) (c : cfg),
    old_fallback c = false -> old_guards c = false ->
    forall (x0 : option vec) (fuel : nat),
      (1 <= maxiter n c)%nat -> (maxiter n c <= fuel)%nat ->
      (forall x, x0 = Some x -> length x = n) ->
      run_static n mat j c fuel x0 = run_eager n mat j c x0.
Proof. exact equiv. Qed.

(* The fuel of the while_loop model is never exhausted. *)
Theorem C15_static_terminates :
  forall n mat j c x0 fuel,
    old_fallback c = false -> old_guards c = false ->
    (1 <= maxiter n c)%nat -> (maxiter n c <= fuel)%nat ->
    (forall x, x0 = Some x -> length x = n) ->
    run_static n mat j c fuel x0 <> OutOfFuel.
Proof. exact static_no_oof. Qed.

(* Never uphill: for every linear symmetric operator (positive definite or not), every right-hand
   side, start and stopping configuration (including maxiter = 0 and failure reporting off), a
   point returned by `_cg` has quadratic energy E(x) = x.Mx/2 - x.j not above that of the start. *)
Theorem C15_never_uphill :
  forall (n : nat) (mat : vec -> vec) (j : vec) (c : cfg),
    (forall a x y i, (i < n)%nat -> vget (mat (axpy n a x y)) i = a * vget (mat x) i + vget (mat y) i) ->
    (forall x y, dot n x (mat y) = dot n (mat x) y) ->
    old_fallback c = false ->
    forall x0 x info nit,
      (forall y, x0 = Some y -> length y = n) ->
      run_eager n mat j c x0 = Done x info nit -> Qe n mat j x <= Qe n mat j (start n x0).
Proof. exact never_uphill. Qed.

(* ... and the same for `_static_cg`. *)
Theorem C15_never_uphill_static :
  forall n mat j c,
    (forall a x y i, (i < n)%nat -> vget (mat (axpy n a x y)) i = a * vget (mat x) i + vget (mat y) i) ->
    (forall x y, dot n x (mat y) = dot n (mat x) y) ->
    old_fallback c = false -> old_guards c = false ->
    forall x0 fuel x info nit,
      (1 <= maxiter n c)%nat -> (maxiter n c <= fuel)%nat ->
      (forall y, x0 = Some y -> length y = n) ->
      run_static n mat j c fuel x0 = Done x info nit -> Qe n mat j x <= Qe n mat j (start n x0).
Proof. exact never_uphill_static. Qed.

(* Negative curvature along the very first direction, failure not requested: the result is the
   steepest-descent point start - t r0 with t = gamma0/|curv| > 0, reported as converged after one
   iteration, and its energy is STRICTLY below the start. *)
Theorem C15_first_step_descent :
  forall n mat j c,
    (forall a x y i, (i < n)%nat -> vget (mat (axpy n a x y)) i = a * vget (mat x) i + vget (mat y) i) ->
    (forall x y, dot n x (mat y) = dot n (mat x) y) ->
    old_fallback c = false ->
    forall x0,
      (forall y, x0 = Some y -> length y = n) ->
      raise_npd c = false -> (1 <= maxiter n c)%nat ->
      let s0 := init_st n mat j x0 in
      let curv := dot n (r s0) (mat (r s0)) in
      gam s0 <> 0 -> curv < 0 ->
      run_eager n mat j c x0 = Done (axpy n (- (gam s0 / - curv)) (r s0) (start n x0)) 0 1 /\
      0 < gam s0 / - curv /\
      Qe n mat j (axpy n (- (gam s0 / - curv)) (r s0) (start n x0)) < Qe n mat j (start n x0).
Proof. exact first_step_descent. Qed.

(* Success means criterion: with failure reporting on and at least one iteration allowed, info = 0
   implies: the start already had zero residual, or gamma <= tiny, or |M x - j| < resnorm with
   nit >= miniter, or the last step lowered the energy by less than absdelta with nit >= miniter --
   stated for the TRUE residual M x - j of the returned x and the true energies. *)
Theorem C15_success_means_criterion :
  forall n mat j c,
    (forall a x y i, (i < n)%nat -> vget (mat (axpy n a x y)) i = a * vget (mat x) i + vget (mat y) i) ->
    (forall x y, dot n x (mat y) = dot n (mat x) y) ->
    old_fallback c = false ->
    forall x0 x nit,
      (forall y, x0 = Some y -> length y = n) ->
      raise_npd c = true -> (1 <= maxiter n c)%nat ->
      run_eager n mat j c x0 = Done x 0 nit ->
      (nit = 0%nat /\ x = start n x0 /\ exists rr, resid n mat j rr x /\ dot n rr rr = 0) \/
      criterion n mat j c x0 x nit.
Proof. exact success_means_criterion. Qed.

(* Failure is reported when asked for: a first direction of non-positive curvature raises. *)
Theorem C15_nonposdef_reported :
  forall n mat j c x0,
    raise_npd c = true -> (1 <= maxiter n c)%nat ->
    let s0 := init_st n mat j x0 in
    gam s0 <> 0 -> dot n (r s0) (mat (r s0)) <= 0 ->
    run_eager n mat j c x0 = Raised.
Proof. exact nonposdef_reported. Qed.

(* ... and in any later iteration (one pass of the loop body). *)
Theorem C15_nonposdef_reported_any_iteration :
  forall n mat j c s, raise_npd c = true -> dot n (d s) (mat (d s)) <= 0 ->
    snd (eager_body n mat j c s) = Some Raised.
Proof. exact body_raises. Qed.

(* The hypotheses on `mat` are exactly "symmetric matrix": *)
Theorem C15_symmetric_matrix_is_linear :
  forall n M a x y i, (i < n)%nat ->
    vget (matvec n M (axpy n a x y)) i = a * vget (matvec n M x) i + vget (matvec n M y) i.
Proof. exact matvec_lin. Qed.
Theorem C15_symmetric_matrix_is_selfadjoint :
  forall n M, (forall i k, (i < n)%nat -> (k < n)%nat -> vget (nth i M []) k = vget (nth k M []) i) ->
    forall x y, dot n x (matvec n M y) = dot n (matvec n M x) y.
Proof. exact matvec_sym. Qed.

(* ---- refutations: what the unrepaired lines do (kept reachable through the cfg flags) ---------- *)
Theorem C15_unrepaired_fallback_uphill_refuted :
  exists x, run_eager 2 (matvec 2 Mneg) j11 (wcfg true true 9 false) None = Done x 0 1 /\
            quad_energy 2 Mneg j11 (vzero 2) < quad_energy 2 Mneg j11 x.
Proof. exact unrepaired_fallback_uphill. Qed.

Theorem C15_unrepaired_equiv_refuted :
  run_static 2 (matvec 2 Mneg) j11 (wcfg true true 9 false) 50 None <>
  run_eager 2 (matvec 2 Mneg) j11 (wcfg true true 9 false) None /\
  exists x, run_eager 2 (matvec 2 Mpd) j11 (wcfg true true 2 true) None = Done x 0 2 /\
            run_static 2 (matvec 2 Mpd) j11 (wcfg true true 2 true) 50 None = Done x 2 2.
Proof. exact (conj unrepaired_static_differs_fallback unrepaired_static_differs_at_limit). Qed.

(* open finding C15-F3 (also with the repairs): maxiter = 0 -- `_cg` returns the unsolved start as
   converged, `_static_cg` iterates once and reports non-convergence.  C15_equiv and
   C15_success_means_criterion therefore require 1 <= maxiter. *)
Theorem C15_maxiter0_refuted :
  run_eager 2 (matvec 2 Mpd) j11 (wcfg false false 0 true) None = Done (vzero 2) 0 0 /\
  dot 2 j11 j11 <> 0 /\
  exists x, run_static 2 (matvec 2 Mpd) j11 (wcfg false false 0 true) 50 None = Done x 1 1.
Proof. exact maxiter0_disagree. Qed.

(* non-vacuity: the hypotheses of the positive theorems are met by a concrete indefinite system *)
Example C15_hyps_satisfiable :
  old_fallback (wcfg false false 9 false) = false /\ old_guards (wcfg false false 9 false) = false /\
  (1 <= maxiter 2 (wcfg false false 9 false))%nat /\
  run_static 2 (matvec 2 Mneg) j11 (wcfg false false 9 false) 50 None = Done (qv [2 # 3; 2 # 3]%Q) 0 1 /\
  run_eager 2 (matvec 2 Mneg) j11 (wcfg false false 9 false) None = Done (qv [2 # 3; 2 # 3]%Q) 0 1.
Proof. repeat split; vm_compute; try reflexivity; lia. Qed.
