(* C15 -- executable model of nifty/re/conjugate_gradient.py `_cg` (eager Python loop) and
   `_static_cg` (jax.lax.while_loop body with `jnp.where` bookkeeping), over exact rationals (Qc).

   The model mirrors the code WITH the proposed repairs fixes/C15-1.patch (steepest-descent
   fallback `pos - previous_gamma/(-curv)*d` in both variants) and fixes/C15-2.patch (`_static_cg`:
   the first verdict reached inside an iteration is final: `info < -1` guards).  The three lines
   where the unrepaired tree differs are kept as the alternative branches selected by the flags
   [old_fallback] / [old_guards] of [cfg], so that the `..._refuted` witnesses in Props.v and the
   corpus cases are statements about the very same step functions.

   NO proofs in this file.

   Vectors are lists read through [nth _ _ 0] at the indices 0..n-1 (n = size of j); every vector
   operation returns a list of length n.  A pytree is modelled by its flattened leaves.
   Real (not complex) systems only.  `time_threshold` and the logging (`name`) are not modelled. *)
From Coq Require Import List ZArith QArith Qcanon Bool Arith.
Import ListNotations.
Open Scope Qc_scope.

Definition vec := list Qc.
Definition vget (x : vec) (i : nat) : Qc := nth i x 0.
Definition vmk (n : nat) (f : nat -> Qc) : vec := map f (seq 0 n).
Fixpoint sumn (n : nat) (f : nat -> Qc) : Qc :=
  match n with O => 0 | S k => sumn k f + f k end.

Definition Qcltb (a b : Qc) : bool := match a ?= b with Lt => true | _ => false end.
Definition Qcleb (a b : Qc) : bool := match a ?= b with Gt => false | _ => true end.
Definition Qceqb (a b : Qc) : bool := match a ?= b with Eq => true | _ => false end.
Definition Qcmax (a b : Qc) : Qc := if Qcltb a b then b else a.
Definition Qcabs (a : Qc) : Qc := if Qcltb a 0 then - a else a.
Definition half : Qc := Q2Qc (1 # 2).

Section Ops.
Variable n : nat.
Definition dot (x y : vec) : Qc := sumn n (fun i => vget x i * vget y i).          (* vdot, real *)
Definition axpy (a : Qc) (x y : vec) : vec := vmk n (fun i => a * vget x i + vget y i).   (* a*x + y *)
Definition vsub (x y : vec) : vec := vmk n (fun i => vget x i - vget y i).
Definition vscale (a : Qc) (x : vec) : vec := vmk n (fun i => a * vget x i).
Definition vneg (x : vec) : vec := vmk n (fun i => - vget x i).
Definition vzero : vec := vmk n (fun _ => 0).
Definition norm1 (x : vec) : Qc := sumn n (fun i => Qcabs (vget x i)).
(* energy = vdot((r - j) / 2, pos) *)
Definition energy (r j pos : vec) : Qc := dot (vscale half (vsub r j)) pos.
End Ops.

(* Keyword arguments of _cg/_static_cg.  [ord2]: norm_ord = 2 (the default) instead of 1.
   eps = 6*finfo.eps, tiny = 6*finfo.tiny are passed as exact rationals. *)
Record cfg := {
  absdelta : option Qc; resnorm : option Qc; ord2 : bool; tol : Qc; atol : Qc;
  miniter_o : option nat; maxiter_o : option nat; raise_npd : bool;
  nreset : nat; eps : Qc; tiny : Qc;
  old_fallback : bool;     (* true = the unrepaired fallback lines (see C15-1.patch) *)
  old_guards : bool        (* true = the unrepaired `info != -1` guards of _static_cg (C15-2.patch) *)
}.

Record st := { pos : vec; r : vec; d : vec; gam : Qc; en : Qc; it : nat }.
Inductive outcome :=
| Raised                                   (* ValueError (eager)  ==  info = -1 (static) *)
| Done (x : vec) (info : Z) (nit : nat)
| OutOfFuel.                               (* artefact of the fuelled while_loop; proved unreachable *)

Section CG.
Variable n : nat.               (* size(j) *)
Variable mat : vec -> vec.
Variable j : vec.
Variable c : cfg.

(*  maxiter_fallback = 20 * size(j)
    miniter = min((6, maxiter if maxiter is not None else maxiter_fallback)) if miniter is None else miniter
    maxiter = max((min((200, maxiter_fallback)), miniter)) if maxiter is None else maxiter          *)
Definition maxiter_fallback : nat := 20 * n.
Definition miniter : nat :=
  match miniter_o c with
  | Some m => m
  | None => Nat.min 6 (match maxiter_o c with Some m => m | None => maxiter_fallback end)
  end.
Definition maxiter : nat :=
  match maxiter_o c with
  | Some m => m
  | None => Nat.max (Nat.min 200 maxiter_fallback) miniter
  end.

(*  if absdelta is None and resnorm is None: resnorm = jnp.maximum(tol * jft_norm(j, ord=norm_ord), atol)
    The threshold is kept as it is for norm_ord = 1 and SQUARED for norm_ord = 2, so that
    `norm(r) < resnorm` stays rational:  sqrt(g) < t  <->  0 < t /\ g < t*t.                          *)
Definition thr : option Qc :=
  match resnorm c with
  | Some rn => Some (if ord2 c then (if Qcltb 0 rn then rn * rn else 0) else rn)
  | None =>
    match absdelta c with
    | Some _ => None
    | None => Some (if ord2 c then Qcmax (tol c * tol c * dot n j j) (if Qcltb 0 (atol c) then atol c * atol c else 0)
                    else Qcmax (tol c * norm1 n j) (atol c))
    end
  end.
(* norm < resnorm *)
Definition norm_lt (rr : vec) (t : Qc) : bool :=
  if ord2 c then Qcltb 0 t && Qcltb (dot n rr rr) t else Qcltb (norm1 n rr) t.

(*  x0 None:  pos = zeros_like(j); r = -j; d = r; energy = 0.0
    else:     pos = x0; r = mat(pos) - j; d = r; energy = vdot((r - j) / 2, pos)
    previous_gamma = vdot(r, r)                                                                      *)
Definition init_st (x0 : option vec) : st :=
  match x0 with
  | None => let r0 := vneg n j in
            {| pos := vzero n; r := r0; d := r0; gam := dot n r0 r0; en := 0; it := 0 |}
  | Some x => let r0 := vsub n (mat x) j in
              {| pos := x; r := r0; d := r0; gam := dot n r0 r0; en := energy n r0 j x; it := 0 |}
  end.

(* the fallback point.  repaired:  pos - previous_gamma / (-curv) * d
                        eager, unrepaired:   previous_gamma  / (-curv) * (-j)
                        static, unrepaired:  previous_energy / (-curv) * (-j)                        *)
Definition fallback_eager (s : st) (curv : Qc) : vec :=
  if old_fallback c then vscale n (gam s / (- curv)) (vneg n j)
  else axpy n (- (gam s / (- curv))) (d s) (pos s).
Definition fallback_static (posv dv : vec) (g e curv : Qc) : vec :=
  if old_fallback c then vscale n (e / (- curv)) (vneg n j)
  else axpy n (- (g / (- curv))) dv posv.

(* ---------------- _cg: body of `for i in range(1, maxiter + 1)`; None = next iteration ------------- *)
Definition eager_body (s : st) : st * option outcome :=
  let i := S (it s) in
  let q := mat (d s) in                                        (* q = mat(d) *)
  let curv := dot n (d s) q in                                 (* curv = vdot(d, q) *)
  if Qceqb curv 0 then                                         (* if curv == 0.0: raise | info = 0; break *)
    (s, Some (if raise_npd c then Raised else Done (pos s) 0 i))
  else if Qcltb curv 0 then                                    (* elif curv < 0.0: *)
    if raise_npd c then (s, Some Raised)
    else if Nat.ltb 1 i then (s, Some (Done (pos s) 0 i))      (*   if i > 1: info = 0; break *)
    else (s, Some (Done (fallback_eager s curv) 0 i))          (*   else: pos = ...; info = 0; break *)
  else
  let alpha := gam s / curv in                                 (* alpha = previous_gamma / curv *)
  let pos' := axpy n (- alpha) (d s) (pos s) in                (* pos = pos - alpha * d *)
  let r' := if Nat.eqb (i mod nreset c) 0                      (* if i % N_RESET == 0: r = mat(pos) - j *)
            then vsub n (mat pos') j
            else axpy n (- alpha) q (r s) in                   (* else: r = r - q * alpha *)
  let gamma := dot n r' r' in
  if Qcleb 0 gamma && Qcleb gamma (tiny c) then                (* gamma >= 0 and gamma <= tiny: info = 0 *)
    (s, Some (Done pos' 0 i))
  else
  if (match thr with                                           (* norm < resnorm and i >= miniter *)
      | Some t => norm_lt r' t && Nat.leb miniter i | None => false end)
  then (s, Some (Done pos' 0 i))
  else
  let e' := energy n r' j pos' in                              (* new_energy *)
  let ediff := en s - e' in                                    (* energy_diff = energy - new_energy *)
  if Qcltb ediff (- (eps c * Qcabs e')) then                   (* energy_diff < -eps*|new_energy| *)
    (s, Some (if raise_npd c then Raised else Done pos' (Z.of_nat i) i))
  else
  if (match absdelta c with                                    (* energy_diff < absdelta and i >= miniter *)
      | Some ad => Qcltb ediff ad && Nat.leb miniter i | None => false end)
  then (s, Some (Done pos' 0 i))
  else
  ({| pos := pos'; r := r';
      d := axpy n (Qcmax 0 (gamma / gam s)) (d s) r';           (* d = d * max(0, gamma/previous_gamma) + r *)
      gam := gamma; en := e'; it := i |}, None).

(* loop exhausted without `break`:  info = i if info == -1 ;  nit = i  (i = 0 when maxiter = 0) *)
Fixpoint eager_loop (fuel : nat) (s : st) : outcome :=
  match fuel with
  | O => Done (pos s) (Z.of_nat (it s)) (it s)
  | S f => match eager_body s with
           | (_, Some o) => o
           | (s', None) => eager_loop f s'
           end
  end.

(* if previous_gamma == 0: return CGResults(x=pos, info=0, nit=0) *)
Definition run_eager (x0 : option vec) : outcome :=
  let s := init_st x0 in
  if Qceqb (gam s) 0 then Done (pos s) 0 0 else eager_loop maxiter s.

(* ---------------- _static_cg: cg_single_step; info < -1 <-> still running --------------------------- *)
Record sst := { spos : vec; sr : vec; sd : vec; sgam : Qc; sen : Qc; sit : nat; sinfo : Z }.

(* the guard of the three last updates of info: repaired `info < -1`, unrepaired `info != -1`
   (resp. no guard at all for the energy-increase update) *)
Definition guard (info : Z) : bool := if old_guards c then negb (Z.eqb info (-1)) else Z.ltb info (-1).
Definition guard_e (info : Z) : bool := if old_guards c then true else Z.ltb info (-1).

Definition static_step (v : sst) : sst :=
  let i := S (sit v) in
  let q := mat (sd v) in
  let curv := dot n (sd v) q in
  let alpha0 := sgam v / curv in                                               (* alpha = previous_gamma / curv *)
  let npd := Qcleb curv 0 in
  let info1 := if npd then (if raise_npd c then (-1)%Z else 0%Z) else sinfo v in (* where(curv <= 0, where(raise, -1, 0), info) *)
  let alpha := if npd && negb (raise_npd c) then 0 else alpha0 in              (* where(curv <= 0 & not raise, 0.0, alpha) *)
  let pos1 := axpy n (- alpha) (sd v) (spos v) in                              (* pos = pos - alpha * d *)
  let pos2 := if Qcltb curv 0 && negb (raise_npd c) && Nat.leb i 1             (* where(curv<0 & not raise & i<=1, ..., pos) *)
              then fallback_static pos1 (sd v) (sgam v) (sen v) curv
              else pos1 in
  let r' := if Nat.eqb (i mod nreset c) 0 && Z.ltb info1 (-1)                  (* cond((i % N_RESET == 0) & (info < -1), ...) *)
            then vsub n (mat pos2) j
            else axpy n (- alpha) q (sr v) in
  let gamma := dot n r' r' in
  let info2 := if Qcleb 0 gamma && Qcleb gamma (tiny c) && negb (Z.eqb info1 (-1))
               then 0%Z else info1 in
  let info3 := match thr with
               | Some t => if norm_lt r' t && Nat.leb miniter i && negb (Z.eqb info2 (-1)) then 0%Z else info2
               | None => info2
               end in
  let e' := energy n r' j pos2 in
  let ediff := sen v - e' in
  let info4 := if Qcltb ediff (- (eps c * Qcabs e')) && guard_e info3
               then (if raise_npd c then (-1)%Z else Z.of_nat i) else info3 in
  let info5 := match absdelta c with
               | Some ad => if Qcltb ediff ad && Nat.leb miniter i && guard info4 then 0%Z else info4
               | None => info4
               end in
  let info6 := if Nat.leb maxiter i && guard info5 then Z.of_nat i else info5 in (* where((i >= maxiter) & guard, i, info) *)
  {| spos := pos2; sr := r';
     sd := axpy n (Qcmax 0 (gamma / sgam v)) (sd v) r';
     sgam := gamma; sen := e'; sit := i; sinfo := info6 |}.

(* while_loop(lambda v: v["info"] < -1, cg_single_step, val) *)
Fixpoint static_loop (fuel : nat) (v : sst) : option sst :=
  if Z.ltb (sinfo v) (-1) then
    match fuel with
    | O => None
    | S f => static_loop f (static_step v)
    end
  else Some v.

(* val["info"] = where(gamma == 0.0, 0, -2) *)
Definition init_sst (x0 : option vec) : sst :=
  let s := init_st x0 in
  {| spos := pos s; sr := r s; sd := d s; sgam := gam s; sen := en s; sit := 0;
     sinfo := if Qceqb (gam s) 0 then 0%Z else (-2)%Z |}.

Definition run_static (fuel : nat) (x0 : option vec) : outcome :=
  match static_loop fuel (init_sst x0) with
  | None => OutOfFuel
  | Some v => if Z.eqb (sinfo v) (-1) then Raised else Done (spos v) (sinfo v) (sit v)
  end.
End CG.

(* ---------------- helpers used by the correspondence check (harness/props/c15.py) ------------------ *)
Definition matvec (n : nat) (M : list vec) (x : vec) : vec :=
  vmk n (fun i => dot n (nth i M []) x).

Definition vclose (n : nat) (tolx : Qc) (x y : vec) : bool :=
  forallb (fun i => Qcleb (Qcabs (vget x i - vget y i)) tolx) (seq 0 n).

(* outcome of the model vs what the implementation returned: failure flag, info, nit exactly; x within tolx
   (x is not compared when a failure is reported) *)
Definition outcome_matches (n : nat) (tolx : Qc) (o : outcome) (failed : bool) (x : vec) (info : Z) (nit : nat) : bool :=
  match o with
  | Raised => failed
  | Done mx minfo mnit => negb failed && Z.eqb minfo info && Nat.eqb mnit nit && vclose n tolx mx x
  | OutOfFuel => false
  end.

Definition qc (a : Q) : Qc := Q2Qc a.
Definition qv (l : list Q) : vec := map Q2Qc l.
Definition qm (l : list (list Q)) : list vec := map qv l.
Definition qo (o : option Q) : option Qc := option_map Q2Qc o.
(* one correspondence case: both variants of the model against what the two implementations returned *)
Definition mkcfg (ad rn : option Q) (o2 : bool) (tl atl : Q) (mi mx : option nat) (raise : bool)
                 (ep tn : Q) (nres : nat) : cfg :=
  {| absdelta := qo ad; resnorm := qo rn; ord2 := o2; tol := qc tl; atol := qc atl;
     miniter_o := mi; maxiter_o := mx; raise_npd := raise; nreset := nres; eps := qc ep; tiny := qc tn;
     old_fallback := false; old_guards := false |}.
Definition chk (n : nat) (M : list (list Q)) (j : list Q) (x0 : option (list Q)) (c : cfg) (tolx : Q) (fuel : nat)
               (fe : bool) (xe : list Q) (ie : Z) (ne : nat)
               (fs : bool) (xs : list Q) (is_ : Z) (ns : nat) : bool :=
  let mat := matvec n (qm M) in
  outcome_matches n (qc tolx) (run_eager n mat (qv j) c (option_map qv x0)) fe (qv xe) ie ne &&
  outcome_matches n (qc tolx) (run_static n mat (qv j) c fuel (option_map qv x0)) fs (qv xs) is_ ns.

Definition quad_energy (n : nat) (M : list vec) (j x : vec) : Qc :=
  half * dot n x (matvec n M x) - dot n x j.
