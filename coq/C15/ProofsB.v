(* C15 -- exact-arithmetic invariants of the CG recurrences: the quadratic energy never increases. *)
From Coq Require Import List ZArith QArith Qcanon Bool Arith Lia Lqa.
Import ListNotations.
Require Import NV.C15.Model NV.C15.ProofsA.
Open Scope Qc_scope.
Ltac qc2q := repeat (progress (unfold Qcle, Qclt, Qcminus, Qcdiv, Qcmult, Qcplus, Qcopp, Qcinv, Q2Qc; cbn [this])); rewrite ?Qred_correct.
Lemma half_eq : half = / (1 + 1).
Proof. apply Qc_is_canon. reflexivity. Qed.
Lemma two_neq0 : (1 + 1 : Qc) <> 0.
Proof. intro H. discriminate H. Qed.
Lemma Qcsq_nonneg : forall a : Qc, 0 <= a * a.
Proof. intros a. qc2q. nra. Qed.
Lemma Qcadd_nonneg : forall a b : Qc, 0 <= a -> 0 <= b -> 0 <= a + b.
Proof. intros a b. qc2q. lra. Qed.
Lemma Qcmul_nonneg : forall a b : Qc, 0 <= a -> 0 <= b -> 0 <= a * b.
Proof. intros a b. qc2q. nra. Qed.
Lemma Qcinv_pos : forall a : Qc, 0 < a -> 0 < / a.
Proof. intros a. qc2q. apply Qinv_lt_0_compat. Qed.
Lemma Qcle_sub : forall a b e : Qc, b = a - e -> 0 <= e -> b <= a.
Proof. intros a b e ->. qc2q. lra. Qed.
Lemma Qclt_sub : forall a b e : Qc, b = a - e -> 0 < e -> b < a.
Proof. intros a b e ->. qc2q. lra. Qed.
Lemma Qcopp_pos : forall a : Qc, a < 0 -> 0 < - a.
Proof. intros a. qc2q. lra. Qed.
Lemma Qcmul_pos : forall a b : Qc, 0 < a -> 0 < b -> 0 < a * b.
Proof. intros a b. qc2q. nra. Qed.

Lemma sumn_sub : forall n f g, sumn n (fun i => f i - g i) = sumn n f - sumn n g.
Proof. induction n; intros; simpl; [ring | rewrite IHn; ring]. Qed.

Lemma sumn_nonneg : forall n f, (forall i, 0 <= f i) -> 0 <= sumn n f.
Proof. induction n; intros; simpl; [apply Qcle_refl | apply Qcadd_nonneg; auto]. Qed.

Lemma dot_self_nonneg : forall n x, 0 <= dot n x x.
Proof. intros. unfold dot. apply sumn_nonneg. intros; apply Qcsq_nonneg. Qed.

Lemma half_nonneg : 0 <= half.
Proof. unfold Qcle. cbn. discriminate. Qed.

Lemma Qc_pos_of : forall a : Qc, Qceqb a 0 = false -> Qcltb a 0 = false -> 0 < a.
Proof.
  intros a H0 H1. apply Qcltb_false in H1. destruct (Qcle_lt_or_eq _ _ H1) as [H|H]; auto.
  exfalso. symmetry in H. apply Qceqb_true in H. congruence.
Qed.

Section Alg.
Variable n : nat.
Variable mat : vec -> vec.
Variable j : vec.
Variable c : cfg.
Hypothesis mat_lin : forall a x y i, (i < n)%nat ->
  vget (mat (axpy n a x y)) i = a * vget (mat x) i + vget (mat y) i.
Hypothesis mat_sym : forall x y, dot n x (mat y) = dot n (mat x) y.
Hypothesis Hnf : old_fallback c = false.

(* the quadratic energy  E(x) = 1/2 x.Mx - x.j *)
Definition Qe (x : vec) : Qc := half * dot n x (mat x) - dot n x j.
(* rr is (index-wise) the residual M x - j *)
Definition resid (rr x : vec) : Prop := forall i, (i < n)%nat -> vget rr i = vget (mat x) i - vget j i.

Lemma dot_resid : forall z rr x, resid rr x -> dot n z rr = dot n z (mat x) - dot n z j.
Proof.
  intros z rr x H. unfold dot. rewrite <- sumn_sub. apply sumn_ext. intros i Hi. rewrite (H i Hi). ring.
Qed.

Lemma mat_axpy_dot : forall z a x y, dot n z (mat (axpy n a x y)) = a * dot n z (mat x) + dot n z (mat y).
Proof.
  intros. rewrite <- dot_axpy_r. apply dot_ext_r. intros i Hi.
  unfold axpy at 2. rewrite vget_vmk by assumption. now apply mat_lin.
Qed.

Lemma quad_step : forall x dd t rr, resid rr x ->
  Qe (axpy n (- t) dd x) = Qe x - t * dot n dd rr + half * (t * t) * dot n dd (mat dd).
Proof.
  intros x dd t rr H. unfold Qe.
  rewrite mat_axpy_dot, !dot_axpy_l, (dot_resid dd rr x H).
  rewrite (mat_sym x dd), (dot_sym n (mat x) dd).
  rewrite half_eq. field. apply two_neq0.
Qed.

Lemma energy_Qe : forall rr x, resid rr x -> energy n rr j x = Qe x.
Proof.
  intros rr x H. unfold energy, Qe.
  rewrite dot_vscale_l, dot_vsub_l, (dot_sym n rr x), (dot_resid x rr x H), (dot_sym n j x).
  rewrite half_eq. field. apply two_neq0.
Qed.

Lemma mat_zero : forall i, (i < n)%nat -> vget (mat (vzero n)) i = 0.
Proof.
  intros i Hi.
  assert (E : axpy n (- (1)) (vzero n) (vzero n) = vzero n).
  { unfold axpy, vzero. apply vmk_ext. intros k Hk. rewrite vget_vmk by assumption. ring. }
  pose proof (mat_lin (- (1)) (vzero n) (vzero n) i Hi) as H. rewrite E in H.
  assert (forall a : Qc, a = - (1) * a + a -> a = 0) as L.
  { intros a Ha. ring_simplify in Ha. auto. }
  apply L in H. exact H.
Qed.

Record Inv (s : st) : Prop := {
  inv_len : length (pos s) = n;
  inv_res : resid (r s) (pos s);
  inv_dr : dot n (d s) (r s) = gam s;
  inv_gam : gam s = dot n (r s) (r s);
  inv_en : en s = Qe (pos s) }.

Lemma fallback_decreases : forall s curv, Inv s -> curv = dot n (d s) (mat (d s)) -> curv < 0 ->
  Qe (axpy n (- (gam s / - curv)) (d s) (pos s)) =
  Qe (pos s) - (1 + half) * ((gam s * gam s) * / (- curv)).
Proof.
  intros s curv I Hc Hneg.
  rewrite (quad_step (pos s) (d s) (gam s / - curv) (r s) (inv_res s I)), (inv_dr s I), <- Hc.
  assert (curv <> 0) by (intro E; rewrite E in Hneg; discriminate Hneg).
  assert (- curv <> 0) by (intro E; apply H; rewrite <- (Qcopp_involutive curv), E; reflexivity).
  rewrite half_eq. field. repeat split; auto using two_neq0.
Qed.

Lemma regular_decreases : forall s curv, Inv s -> curv = dot n (d s) (mat (d s)) -> 0 < curv ->
  Qe (axpy n (- (gam s / curv)) (d s) (pos s)) =
  Qe (pos s) - half * ((gam s * gam s) * / curv).
Proof.
  intros s curv I Hc Hpos.
  rewrite (quad_step (pos s) (d s) (gam s / curv) (r s) (inv_res s I)), (inv_dr s I), <- Hc.
  assert (curv <> 0) by (intro E; rewrite E in Hpos; discriminate Hpos).
  rewrite half_eq. field. repeat split; auto using two_neq0.
Qed.

Lemma gam_sq_nonneg : forall s a, Inv s -> 0 < a -> 0 <= (gam s * gam s) * / a.
Proof.
  intros s a I Ha. apply Qcmul_nonneg; [apply Qcsq_nonneg | apply Qclt_le_weak, Qcinv_pos, Ha].
Qed.

Lemma one_half_nonneg : 0 <= 1 + half.
Proof. unfold Qcle. cbn. discriminate. Qed.

Lemma body_inv : forall s, Inv s ->
  match eager_body n mat j c s with
  | (s', None) => Inv s' /\ Qe (pos s') <= Qe (pos s) /\ it s' = S (it s)
  | (_, Some (Done x _ _)) => Qe x <= Qe (pos s)
  | _ => True
  end.
Proof.
  intros s HI. unfold eager_body, fallback_eager. rewrite Hnf.
  set (q := mat (d s)). set (curv := dot n (d s) q).
  destruct (Qceqb curv 0) eqn:E0.
  { destruct (raise_npd c); [exact Logic.I | apply Qcle_refl]. }
  destruct (Qcltb curv 0) eqn:E1.
  { destruct (raise_npd c); [exact Logic.I|]. destruct (Nat.ltb 1 (S (it s))); [apply Qcle_refl|].
    apply Qcltb_true in E1.
    eapply Qcle_sub; [apply (fallback_decreases s curv HI eq_refl E1)|].
    apply Qcmul_nonneg; [apply one_half_nonneg | apply gam_sq_nonneg; auto using Qcopp_pos]. }
  assert (Hpos : 0 < curv) by (apply Qc_pos_of; auto).
  assert (Hne : curv <> 0) by (intro E; rewrite E in Hpos; discriminate Hpos).
  set (alpha := gam s / curv).
  set (pos' := axpy n (- alpha) (d s) (pos s)).
  set (r' := if Nat.eqb (S (it s) mod nreset c) 0 then vsub n (mat pos') j else axpy n (- alpha) q (r s)).
  set (gamma := dot n r' r').
  set (e' := energy n r' j pos').
  assert (Hdec : Qe pos' <= Qe (pos s)).
  { eapply Qcle_sub; [apply (regular_decreases s curv HI eq_refl Hpos)|].
    apply Qcmul_nonneg; [apply half_nonneg | apply gam_sq_nonneg; auto]. }
  destruct (Qcleb 0 gamma && Qcleb gamma (tiny c)); [exact Hdec|].
  destruct (match thr n j c with Some t => norm_lt n c r' t && Nat.leb (miniter n c) (S (it s)) | None => false end); [exact Hdec|].
  destruct (Qcltb (en s - e') (- (eps c * Qcabs e'))); [destruct (raise_npd c); [exact Logic.I | exact Hdec]|].
  destruct (match absdelta c with Some ad => Qcltb (en s - e') ad && Nat.leb (miniter n c) (S (it s)) | None => false end); [exact Hdec|].
  assert (Hres : resid r' pos').
  { unfold r'. destruct (Nat.eqb (S (it s) mod nreset c) 0).
    - intros i Hi. unfold vsub. rewrite vget_vmk by auto. reflexivity.
    - intros i Hi. unfold pos'. rewrite mat_lin by auto. unfold axpy. rewrite vget_vmk by auto.
      rewrite (inv_res s HI i Hi). unfold q. ring. }
  assert (Hz : dot n (d s) r' = 0).
  { rewrite (dot_resid (d s) r' pos' Hres). unfold pos'. rewrite mat_axpy_dot.
    pose proof (dot_resid (d s) (r s) (pos s) (inv_res s HI)) as Hd. rewrite (inv_dr s HI) in Hd.
    change (dot n (d s) (mat (d s))) with curv.
    replace (dot n (d s) (mat (pos s))) with (gam s + dot n (d s) j) by (rewrite Hd; ring).
    unfold alpha. field. exact Hne. }
  split; [|split; [exact Hdec | reflexivity]].
  constructor; cbn [pos r d gam en].
  - apply axpy_length.
  - exact Hres.
  - rewrite dot_axpy_l, Hz. unfold gamma. ring.
  - reflexivity.
  - apply energy_Qe. exact Hres.
Qed.

Lemma loop_monotone : forall k s x info nit, Inv s ->
  eager_loop n mat j c k s = Done x info nit -> Qe x <= Qe (pos s).
Proof.
  induction k; intros s x info nit HI H; cbn [eager_loop] in H.
  - injection H as <- _ _. apply Qcle_refl.
  - pose proof (body_inv s HI) as HB.
    destruct (eager_body n mat j c s) as [s' [o|]].
    + subst o. exact HB.
    + destruct HB as (HI' & Hle & _). eapply Qcle_trans; [eapply IHk; eauto | exact Hle].
Qed.

Definition start (x0 : option vec) : vec := match x0 with Some x => x | None => vzero n end.

Lemma init_inv : forall x0, (forall x, x0 = Some x -> length x = n) -> Inv (init_st n mat j x0) /\ pos (init_st n mat j x0) = start x0.
Proof.
  intros [x|] Hx; cbn [init_st start]; (split; [|reflexivity]).
  - assert (Hres : resid (vsub n (mat x) j) x).
    { intros i Hi. unfold vsub. rewrite vget_vmk by auto. reflexivity. }
    constructor; cbn [pos r d gam en]; auto. apply energy_Qe; auto.
  - assert (Hres : resid (vneg n j) (vzero n)).
    { intros i Hi. unfold vneg. rewrite vget_vmk, mat_zero by auto. ring. }
    constructor; cbn [pos r d gam en]; auto.
    + apply vmk_length.
    + unfold Qe. assert (forall z, dot n (vzero n) z = 0) as Z0.
      { intros z. unfold dot, vzero. etransitivity; [|apply (sumn_zero n)]. apply sumn_ext. intros i Hi. rewrite vget_vmk by auto. ring. }
      rewrite !Z0. ring.
Qed.

(* never uphill: whatever the stopping configuration, a returned point has quadratic energy
   not above the start *)
Theorem never_uphill : forall x0 x info nit,
  (forall y, x0 = Some y -> length y = n) ->
  run_eager n mat j c x0 = Done x info nit -> Qe x <= Qe (start x0).
Proof.
  intros x0 x info nit Hx H. destruct (init_inv x0 Hx) as [HI Hp].
  unfold run_eager in H. rewrite <- Hp.
  destruct (Qceqb (gam (init_st n mat j x0)) 0).
  - injection H as <- _ _. apply Qcle_refl.
  - eapply loop_monotone; eauto.
Qed.
End Alg.
