(* C15 -- theorems about whole runs: steepest-descent fallback, success means criterion,
   failure reporting, the matrix instance of the hypotheses, refutation witnesses. *)
From Coq Require Import List ZArith QArith Qcanon Bool Arith Lia Lqa.
Import ListNotations.
Require Import NV.C15.Model NV.C15.ProofsA NV.C15.ProofsB.
Open Scope Qc_scope.

Lemma Qc_pos_of_nonneg_neq : forall a : Qc, 0 <= a -> a <> 0 -> 0 < a.
Proof. intros a H H0. destruct (Qcle_lt_or_eq _ _ H) as [|E]; auto. exfalso; auto. Qed.

Lemma Qcltb_irrefl_false : forall a b : Qc, a < b -> Qceqb a b = false.
Proof.
  intros a b H. destruct (Qceqb a b) eqn:E; auto. apply Qceqb_true in E. subst.
  exfalso. eapply Qcle_not_lt; [apply Qcle_refl | exact H].
Qed.

Section Runs.
Variable n : nat.
Variable mat : vec -> vec.
Variable j : vec.
Variable c : cfg.
Hypothesis mat_lin : forall a x y i, (i < n)%nat ->
  vget (mat (axpy n a x y)) i = a * vget (mat x) i + vget (mat y) i.
Hypothesis mat_sym : forall x y, dot n x (mat y) = dot n (mat x) y.
Hypothesis Hnf : old_fallback c = false.

Notation Qe := (Qe n mat j).
Notation resid := (resid n mat j).
Notation Inv := (Inv n mat j).
Notation start := (start n).

(* negative curvature along the very first direction, failure not requested: one steepest-descent
   step x0 - t r0 with t = gamma0/|curv| > 0, reported as converged, strictly lower energy *)
Theorem first_step_descent : forall x0,
  (forall y, x0 = Some y -> length y = n) ->
  raise_npd c = false -> (1 <= maxiter n c)%nat ->
  let s0 := init_st n mat j x0 in
  let curv := dot n (r s0) (mat (r s0)) in
  gam s0 <> 0 -> curv < 0 ->
  run_eager n mat j c x0 = Done (axpy n (- (gam s0 / - curv)) (r s0) (start x0)) 0 1 /\
  0 < gam s0 / - curv /\
  Qe (axpy n (- (gam s0 / - curv)) (r s0) (start x0)) < Qe (start x0).
Proof.
  intros x0 Hx Hr Hm s0 curv Hg Hc.
  destruct (init_inv n mat j mat_lin x0 Hx) as [HI Hp]. fold s0 in HI, Hp.
  assert (Hd : d s0 = r s0) by (unfold s0; destruct x0; reflexivity).
  assert (Hit : it s0 = 0%nat) by (unfold s0; destruct x0; reflexivity).
  assert (Hgpos : 0 < gam s0).
  { apply Qc_pos_of_nonneg_neq; auto. rewrite (inv_gam _ _ _ _ HI). apply dot_self_nonneg. }
  assert (Hnc : 0 < - curv) by (apply Qcopp_pos; exact Hc).
  split; [|split].
  - unfold run_eager. fold s0.
    assert (E : Qceqb (gam s0) 0 = false).
    { destruct (Qceqb (gam s0) 0) eqn:E; auto. apply Qceqb_true in E. contradiction. }
    rewrite E. destruct (maxiter n c) as [|m]; [lia|]. cbn [eager_loop].
    unfold eager_body, fallback_eager. rewrite Hnf, Hd, Hit, Hr, Hp. fold curv.
    rewrite (Qcltb_irrefl_false _ _ Hc). apply Qcltb_true in Hc. rewrite Hc. reflexivity.
  - unfold Qcdiv. apply Qcmul_pos; [exact Hgpos | apply Qcinv_pos; exact Hnc].
  - rewrite <- Hp, <- Hd.
    eapply Qclt_sub.
    + apply (fallback_decreases n mat j mat_lin mat_sym s0 curv HI); [rewrite Hd; reflexivity | exact Hc].
    + apply Qcmul_pos; [|apply Qcmul_pos; [apply Qcmul_pos; exact Hgpos | apply Qcinv_pos; exact Hnc]].
      unfold Qclt. cbn. reflexivity.
Qed.

(* states the eager loop passes through *)
Inductive reach (x0 : option vec) : st -> Prop :=
| reach0 : reach x0 (init_st n mat j x0)
| reachS : forall s s', reach x0 s -> eager_body n mat j c s = (s', None) -> reach x0 s'.

(* the criterion that justified info = 0 at iteration nit, in terms of the true residual of x *)
Definition criterion (x0 : option vec) (x : vec) (nit : nat) : Prop :=
  exists rr, resid rr x /\
   ( dot n rr rr <= tiny c
   \/ (exists t, thr n j c = Some t /\ norm_lt n c rr t = true /\ (miniter n c <= nit)%nat)
   \/ (exists ad s, absdelta c = Some ad /\ reach x0 s /\ S (it s) = nit /\
                    Qe (pos s) - Qe x < ad /\ (miniter n c <= nit)%nat)).

Lemma body_success : forall x0 s x nit s', Inv s -> reach x0 s -> raise_npd c = true ->
  eager_body n mat j c s = (s', Some (Done x 0 nit)) -> criterion x0 x nit.
Proof.
  intros x0 s x nit s' HI HR Hraise. unfold eager_body, fallback_eager. rewrite Hnf, Hraise.
  set (q := mat (d s)). set (curv := dot n (d s) q).
  destruct (Qceqb curv 0) eqn:E0; [discriminate|].
  destruct (Qcltb curv 0) eqn:E1; [discriminate|].
  assert (Hpos : 0 < curv) by (apply Qc_pos_of; auto).
  assert (Hne : curv <> 0) by (intro E; rewrite E in Hpos; discriminate Hpos).
  set (alpha := gam s / curv).
  set (pos' := axpy n (- alpha) (d s) (pos s)).
  set (r' := if Nat.eqb (S (it s) mod nreset c) 0 then vsub n (mat pos') j else axpy n (- alpha) q (r s)).
  set (gamma := dot n r' r').
  set (e' := energy n r' j pos').
  assert (Hres : resid r' pos').
  { unfold r'. destruct (Nat.eqb (S (it s) mod nreset c) 0).
    - intros i Hi. unfold vsub. rewrite vget_vmk by auto. reflexivity.
    - intros i Hi. unfold pos'. rewrite mat_lin by auto. unfold axpy. rewrite vget_vmk by auto.
      rewrite (inv_res _ _ _ _ HI i Hi). unfold q. ring. }
  destruct (Qcleb 0 gamma && Qcleb gamma (tiny c)) eqn:ET.
  { intro H. injection H as _ <- <-. exists r'. split; [exact Hres|]. left.
    apply andb_true_iff in ET. destruct ET as [_ ET]. apply Qcleb_true in ET. exact ET. }
  destruct (thr n j c) as [t|] eqn:Et.
  - destruct (norm_lt n c r' t && Nat.leb (miniter n c) (S (it s))) eqn:EN.
    { intro H. injection H as _ <- <-. exists r'. split; [exact Hres|]. right; left.
      apply andb_true_iff in EN. destruct EN as [EN1 EN2]. apply Nat.leb_le in EN2.
      exists t. auto. }
    destruct (Qcltb (en s - e') (- (eps c * Qcabs e'))); [discriminate|].
    destruct (absdelta c) as [ad|] eqn:Ead; [|discriminate].
    destruct (Qcltb (en s - e') ad && Nat.leb (miniter n c) (S (it s))) eqn:EA; [|discriminate].
    intro H. injection H as _ <- <-. exists r'. split; [exact Hres|]. right; right.
    apply andb_true_iff in EA. destruct EA as [EA1 EA2]. apply Nat.leb_le in EA2. apply Qcltb_true in EA1.
    exists ad, s. split; [exact Ead|]. split; [exact HR|]. split; [reflexivity|]. split; [|exact EA2].
    rewrite <- (inv_en _ _ _ _ HI). unfold e' in EA1. rewrite (energy_Qe n mat j r' pos' Hres) in EA1. exact EA1.
  - destruct (Qcltb (en s - e') (- (eps c * Qcabs e'))); [discriminate|].
    destruct (absdelta c) as [ad|] eqn:Ead; [|discriminate].
    destruct (Qcltb (en s - e') ad && Nat.leb (miniter n c) (S (it s))) eqn:EA; [|discriminate].
    intro H. injection H as _ <- <-. exists r'. split; [exact Hres|]. right; right.
    apply andb_true_iff in EA. destruct EA as [EA1 EA2]. apply Nat.leb_le in EA2. apply Qcltb_true in EA1.
    exists ad, s. split; [exact Ead|]. split; [exact HR|]. split; [reflexivity|]. split; [|exact EA2].
    rewrite <- (inv_en _ _ _ _ HI). unfold e' in EA1. rewrite (energy_Qe n mat j r' pos' Hres) in EA1. exact EA1.
Qed.

Lemma loop_success : forall x0 k s x nit, Inv s -> reach x0 s -> raise_npd c = true ->
  (1 <= it s + k)%nat ->
  eager_loop n mat j c k s = Done x 0 nit -> criterion x0 x nit.
Proof.
  induction k; intros s x nit HI HR Hraise Hk H; cbn [eager_loop] in H.
  - injection H as _ H _. lia.
  - pose proof (body_inv n mat j c mat_lin mat_sym Hnf s HI) as HB.
    destruct (eager_body n mat j c s) as [s' [o|]] eqn:EB.
    + subst o. eapply body_success; eauto.
    + destruct HB as (HI' & _ & Hit). eapply IHk; eauto; [eapply reachS; eauto | lia].
Qed.

(* success means criterion: with failure reporting on (so that info = 0 cannot stem from a
   non-positive-curvature stop) and at least one iteration allowed, info = 0 implies that x is the
   start with zero residual, or the residual / energy criterion holds for the TRUE residual M x - j *)
Theorem success_means_criterion : forall x0 x nit,
  (forall y, x0 = Some y -> length y = n) ->
  raise_npd c = true -> (1 <= maxiter n c)%nat ->
  run_eager n mat j c x0 = Done x 0 nit ->
  (nit = 0%nat /\ x = start x0 /\ exists rr, resid rr x /\ dot n rr rr = 0) \/ criterion x0 x nit.
Proof.
  intros x0 x nit Hx Hraise Hm H. destruct (init_inv n mat j mat_lin x0 Hx) as [HI Hp].
  unfold run_eager in H.
  destruct (Qceqb (gam (init_st n mat j x0)) 0) eqn:E.
  - left. injection H as <- <-. split; [reflexivity|]. split; [exact Hp|].
    exists (r (init_st n mat j x0)). split; [apply (inv_res _ _ _ _ HI)|].
    apply Qceqb_true in E. rewrite <- (inv_gam _ _ _ _ HI). exact E.
  - right. eapply loop_success; eauto; [apply reach0 | lia].
Qed.

(* failure reporting: a non-positive curvature raises when asked to *)
Lemma body_raises : forall s, raise_npd c = true -> dot n (d s) (mat (d s)) <= 0 ->
  snd (eager_body n mat j c s) = Some Raised.
Proof.
  intros s Hr Hc. unfold eager_body. rewrite Hr.
  destruct (Qceqb (dot n (d s) (mat (d s))) 0) eqn:E0; [reflexivity|].
  destruct (Qcltb (dot n (d s) (mat (d s))) 0) eqn:E1; [reflexivity|].
  exfalso. pose proof (Qc_pos_of _ E0 E1). eapply Qcle_not_lt; eauto.
Qed.

Theorem nonposdef_reported : forall x0,
  raise_npd c = true -> (1 <= maxiter n c)%nat ->
  let s0 := init_st n mat j x0 in
  gam s0 <> 0 -> dot n (r s0) (mat (r s0)) <= 0 ->
  run_eager n mat j c x0 = Raised.
Proof.
  intros x0 Hr Hm s0 Hg Hc. unfold run_eager. fold s0.
  assert (E : Qceqb (gam s0) 0 = false).
  { destruct (Qceqb (gam s0) 0) eqn:E; auto. apply Qceqb_true in E. contradiction. }
  rewrite E. destruct (maxiter n c) as [|m]; [lia|]. cbn [eager_loop].
  assert (Hd : d s0 = r s0) by (unfold s0; destruct x0; reflexivity).
  pose proof (body_raises s0 Hr) as HB. rewrite Hd in HB. specialize (HB Hc).
  destruct (eager_body n mat j c s0) as [s' o]. cbn [snd] in HB. now rewrite HB.
Qed.
End Runs.

(* the eager loop never produces the out-of-fuel marker (it only belongs to the while_loop model) *)
Lemma eager_body_no_oof : forall n mat j c s s', eager_body n mat j c s <> (s', Some OutOfFuel).
Proof.
  intros. unfold eager_body.
  repeat match goal with
  | |- context [if ?b then _ else _] => destruct b
  end; discriminate.
Qed.

Lemma eager_loop_no_oof : forall n mat j c k s, eager_loop n mat j c k s <> OutOfFuel.
Proof.
  induction k; intros s; cbn [eager_loop]; [discriminate|].
  destruct (eager_body n mat j c s) as [s' [o|]] eqn:E; [|apply IHk].
  intro; subst. eapply eager_body_no_oof; eauto.
Qed.

Lemma run_eager_no_oof : forall n mat j c x0, run_eager n mat j c x0 <> OutOfFuel.
Proof.
  intros. unfold run_eager. destruct (Qceqb _ _); [discriminate | apply eager_loop_no_oof].
Qed.

(* ---------------- the hypotheses on mat hold for every symmetric matrix ---------------------------- *)
Lemma matvec_lin : forall n M a x y i, (i < n)%nat ->
  vget (matvec n M (axpy n a x y)) i = a * vget (matvec n M x) i + vget (matvec n M y) i.
Proof.
  intros. unfold matvec. rewrite !vget_vmk by assumption. apply dot_axpy_r.
Qed.

Lemma matvec_sym : forall n M,
  (forall i k, (i < n)%nat -> (k < n)%nat -> vget (nth i M []) k = vget (nth k M []) i) ->
  forall x y, dot n x (matvec n M y) = dot n (matvec n M x) y.
Proof.
  intros n M HS x y.
  transitivity (sumn n (fun i => sumn n (fun k => vget x i * (vget (nth i M []) k * vget y k)))).
  - unfold dot at 1. apply sumn_ext. intros i Hi. unfold matvec. rewrite vget_vmk by assumption.
    unfold dot. now rewrite sumn_scale.
  - rewrite sumn_swap. unfold dot at 1. apply sumn_ext. intros k Hk. unfold matvec. rewrite vget_vmk by assumption.
    unfold dot. rewrite Qcmult_comm, <- sumn_scale. apply sumn_ext. intros i Hi.
    rewrite (HS i k Hi Hk). unfold vec. ring.
Qed.

(* ---------------- corollaries for the compiled variant ------------------------------------------- *)
Lemma static_no_oof : forall n mat j c x0 fuel,
  old_fallback c = false -> old_guards c = false ->
  (1 <= maxiter n c)%nat -> (maxiter n c <= fuel)%nat ->
  (forall x, x0 = Some x -> length x = n) ->
  run_static n mat j c fuel x0 <> OutOfFuel.
Proof. intros. rewrite equiv by assumption. apply run_eager_no_oof. Qed.

Lemma never_uphill_static : forall n mat j c,
  (forall a x y i, (i < n)%nat -> vget (mat (axpy n a x y)) i = a * vget (mat x) i + vget (mat y) i) ->
  (forall x y, dot n x (mat y) = dot n (mat x) y) ->
  old_fallback c = false -> old_guards c = false ->
  forall x0 fuel x info nit,
  (1 <= maxiter n c)%nat -> (maxiter n c <= fuel)%nat ->
  (forall y, x0 = Some y -> length y = n) ->
  run_static n mat j c fuel x0 = Done x info nit -> Qe n mat j x <= Qe n mat j (start n x0).
Proof.
  intros n mat j c Hl Hs Hf Hg x0 fuel x info nit H1 H2 Hx H.
  rewrite equiv in H by assumption. eapply never_uphill; eauto.
Qed.

(* ---------------- refutation witnesses ------------------------------------------------------------- *)
Definition wcfg (oldf oldg : bool) (mx : nat) (raise : bool) : cfg :=
  {| absdelta := None; resnorm := Some (qc (1 # 10000000000)); ord2 := false; tol := 0; atol := 0;
     miniter_o := Some 0%nat; maxiter_o := Some mx; raise_npd := raise; nreset := 20;
     eps := 0; tiny := 0; old_fallback := oldf; old_guards := oldg |}.
Definition Mpd : list vec := qm [[2; 0]; [0; 5]]%Q.
Definition Mneg : list vec := qm [[-1; 0]; [0; -2]]%Q.
Definition j11 : vec := qv [1; 1]%Q.

(* the unrepaired fallback of _cg goes uphill: M = diag(-1,-2), j = (1,1): E = +2/3 > 0 = E(start) *)
Lemma unrepaired_fallback_uphill :
  exists x, run_eager 2 (matvec 2 Mneg) j11 (wcfg true true 9 false) None = Done x 0 1 /\
            quad_energy 2 Mneg j11 (vzero 2) < quad_energy 2 Mneg j11 x.
Proof. eexists. split; [vm_compute; reflexivity | vm_compute; reflexivity]. Qed.

(* unrepaired _static_cg: different point than _cg at negative curvature ... *)
Lemma unrepaired_static_differs_fallback :
  run_static 2 (matvec 2 Mneg) j11 (wcfg true true 9 false) 50 None <>
  run_eager 2 (matvec 2 Mneg) j11 (wcfg true true 9 false) None.
Proof. vm_compute. discriminate. Qed.

(* ... and convergence exactly at the iteration limit is reported as non-convergence (info = 2) *)
Lemma unrepaired_static_differs_at_limit :
  exists x, run_eager 2 (matvec 2 Mpd) j11 (wcfg true true 2 true) None = Done x 0 2 /\
            run_static 2 (matvec 2 Mpd) j11 (wcfg true true 2 true) 50 None = Done x 2 2.
Proof. eexists. split; vm_compute; reflexivity. Qed.

(* open finding, present with and without the repairs: maxiter = 0.  _cg returns the unsolved start
   as a success (info 0), _static_cg performs one iteration and reports info 1 *)
Lemma maxiter0_disagree :
  run_eager 2 (matvec 2 Mpd) j11 (wcfg false false 0 true) None = Done (vzero 2) 0 0 /\
  dot 2 j11 j11 <> 0 /\
  exists x, run_static 2 (matvec 2 Mpd) j11 (wcfg false false 0 true) 50 None = Done x 1 1.
Proof. split; [vm_compute; reflexivity|]. split; [vm_compute; discriminate|]. eexists. vm_compute. reflexivity. Qed.
