(* C12 -- property theorems only (each closed by [exact] of a lemma of Proofs.v / ProofsCat.v).
   Per-pixel statements are about the definitions GENERATED from nifty/re/likelihood_impl.py
   (Gen_Lh.v): E energy, M metric, L left square root, t transformation; pixel-wise L is
   multiplication by a real number, so its adjoint R = L^dagger is L itself (second conjunct of each
   factor theorem: <L v, w> = <v, L w>).
   factor   : M = L o R, R = L^dagger
   pullback : L = (dt)^dagger exactly (Gaussian, Student-t, Poisson)
   nll      : E = - ln p(d | x) + c
   fisher   : M = expectation of the Hessian over the data (named moment hypotheses)
   expected_pullback : variable-covariance Gaussian, data-averaged pull-back = M (local approximation)
   Categorical: row-wise hand model (Model.v), for rows of ANY length. *)
From Coq Require Import Reals Lra List QArith.
From Coquelicot Require Import Coquelicot.
Require Import NV.Base.RealExpr NV.C12.Model NV.C12.Gen_Lh NV.C12.Proofs NV.C12.ProofsCat NV.C12.ProofsPoisson NV.Base.LhCombinators.
Import ListNotations.
Open Scope R_scope.


(* Gaussian (noise_cov_inv = noise_std_inv^2 is the constructor's contract for diagonal noise) *)
Theorem C12_gauss_factor :
  forall cov_inv std_inv v w,
  cov_inv = std_inv ^ 2 ->
  gauss_L std_inv (gauss_L std_inv v) = gauss_M cov_inv v /\
  gauss_L std_inv v * w = v * gauss_L std_inv w.
Proof. exact gauss_factor. Qed.
Theorem C12_gauss_pullback :
  forall std_inv x v,
  is_derive (gauss_t std_inv) x std_inv /\ gauss_L std_inv v = std_inv * v.
Proof. exact gauss_pullback. Qed.
Theorem C12_gauss_nll :
  forall cov_inv d x,
  0 < cov_inv ->
  gauss_E cov_inv d x = - ln (gauss_pdf cov_inv d x) + ln (sqrt (cov_inv / (2 * PI))).
Proof. exact gauss_nll. Qed.
Theorem C12_gauss_fisher :
  forall cov_inv d x,
  is_derive (fun y => gauss_E cov_inv d y) x (cov_inv * (x - d)) /\
  is_derive (fun y => cov_inv * (y - d)) x (gauss_M cov_inv 1).
Proof. exact gauss_fisher. Qed.

(* Student-t (Fisher constant (dof+1)/(dof+3): literature, verified numerically by the oracle) *)
Theorem C12_studentt_factor :
  forall cov_inv std_inv dof v w,
  0 < dof -> cov_inv = std_inv ^ 2 ->
  studentt_L std_inv dof (studentt_L std_inv dof v) = studentt_M cov_inv dof v /\
  studentt_L std_inv dof v * w = v * studentt_L std_inv dof w.
Proof. exact studentt_factor. Qed.
Theorem C12_studentt_pullback :
  forall std_inv dof x v,
  is_derive (studentt_t std_inv dof) x (std_inv * sqrt ((dof + 1) / (dof + 3))) /\
  studentt_L std_inv dof v = (std_inv * sqrt ((dof + 1) / (dof + 3))) * v.
Proof. exact studentt_pullback. Qed.
Theorem C12_studentt_nll :
  forall std_inv dof d x,
  0 < dof ->
  studentt_E std_inv dof d x = - ln (studentt_kernel dof (std_inv * (d - x))).
Proof. exact studentt_nll. Qed.

(* Poisson *)
Theorem C12_poisson_factor :
  forall x v w,
  0 < x ->
  poisson_L x (poisson_L x v) = poisson_M x v /\ poisson_L x v * w = v * poisson_L x w.
Proof. exact poisson_factor. Qed.
Theorem C12_poisson_pullback :
  forall x v,
  0 < x ->
  is_derive poisson_t x (/ sqrt x) /\ poisson_L x v = / sqrt x * v.
Proof. exact poisson_pullback. Qed.
Theorem C12_poisson_nll :
  forall (d : nat) x,
  0 < x ->
  poisson_E (INR d) x = - ln (poisson_pmf d x) - ln (INR (fact d)).
Proof. exact poisson_nll. Qed.
Theorem C12_poisson_gradient :
  forall d x,
  0 < x ->
  is_derive (fun y => poisson_E d y) x (1 - d / x) /\ is_derive (fun y => 1 - d / y) x (poisson_hess d x).
Proof. exact poisson_derivs. Qed.
Theorem C12_poisson_fisher :
  forall Ex x,
  expectation Ex -> 0 < x -> Ex (fun d => d) = x ->
  Ex (fun d => poisson_hess d x) = poisson_M x 1.
Proof. exact poisson_fisher. Qed.

(* variable-covariance Gaussian, parametrised by (mean m, std_inv s); real data *)
Theorem C12_vcg_real_factor :
  forall s v0 v1 w0 w1,
  s <> 0 ->
  vcg_real_L0 s (vcg_real_L0 s v0) = vcg_real_M0 s v0 /\
  vcg_real_L1 s (vcg_real_L1 s v1) = vcg_real_M1 s v1 /\
  vcg_real_L0 s v0 * w0 + vcg_real_L1 s v1 * w1 = v0 * vcg_real_L0 s w0 + v1 * vcg_real_L1 s w1.
Proof. exact vcg_real_factor. Qed.
Theorem C12_vcg_real_nll :
  forall d m s,
  0 < s ->
  vcg_real_E d m s = - ln (vcg_real_pdf d m s) + ln (sqrt (/ (2 * PI))).
Proof. exact vcg_real_nll. Qed.
Theorem C12_vcg_real_gradient :
  forall d m s,
  0 < s ->
  is_derive (fun y => vcg_real_E d y s) m (- (d - m) * s ^ 2) /\
  is_derive (fun z => vcg_real_E d m z) s ((d - m) ^ 2 * s - / s) /\
  is_derive (fun y => - (d - y) * s ^ 2) m (vcg_real_H_mm (d - m) s) /\
  is_derive (fun z => - (d - m) * z ^ 2) s (vcg_real_H_ms (d - m) s) /\
  is_derive (fun z => (d - m) ^ 2 * z - / z) s (vcg_real_H_ss (d - m) s).
Proof. exact vcg_real_derivs. Qed.
Theorem C12_vcg_real_fisher :
  forall Ex m s,
  expectation Ex -> 0 < s ->
  Ex (fun d => d) = m -> Ex (fun d => d ^ 2) = m ^ 2 + / s ^ 2 ->
  Ex (fun d => vcg_real_H_mm (d - m) s) = vcg_real_M0 s 1 /\
  Ex (fun d => vcg_real_H_ms (d - m) s) = 0 /\
  Ex (fun d => vcg_real_H_ss (d - m) s) = vcg_real_M1 s 1.
Proof. exact vcg_real_fisher. Qed.
Theorem C12_vcg_real_jacobian :
  forall d m s,
  0 < s ->
  is_derive (fun y => vcg_real_t0 d y s) m s /\
  is_derive (fun z => vcg_real_t0 d m z) s (m - d) /\
  is_derive vcg_real_t1 s (/ s).
Proof. exact vcg_real_jac. Qed.
Theorem C12_vcg_real_expected_pullback :
  forall Ex m s,
  expectation Ex -> 0 < s ->
  Ex (fun d => d) = m -> Ex (fun d => d ^ 2) = m ^ 2 + / s ^ 2 ->
  Ex (fun d => Derive (fun y => vcg_real_t0 d y s) m ^ 2) = vcg_real_M0 s 1 /\
  Ex (fun d => Derive (fun y => vcg_real_t0 d y s) m * Derive (fun z => vcg_real_t0 d m z) s) = 0 /\
  Ex (fun d => Derive (fun z => vcg_real_t0 d m z) s ^ 2 + Derive vcg_real_t1 s ^ 2) = vcg_real_M1 s 1.
Proof. exact vcg_real_expected_pullback. Qed.

(* complex data (re, im); the expected pull-back holds for the tree with fixes/C11-1.patch *)
Theorem C12_vcg_cplx_factor :
  forall s va vb v1,
  s <> 0 ->
  vcg_cplx_L0 s (vcg_cplx_L0 s va) = vcg_cplx_M0 s va /\
  vcg_cplx_L0im s (vcg_cplx_L0im s vb) = vcg_cplx_M0im s vb /\
  vcg_cplx_L1 s (vcg_cplx_L1 s v1) = vcg_cplx_M1 s v1.
Proof. exact vcg_cplx_factor. Qed.
Theorem C12_vcg_cplx_nll :
  forall da db ma mb s,
  0 < s ->
  vcg_cplx_E da db ma mb s = - ln (vcg_cplx_pdf da db ma mb s) + ln (/ (2 * PI)).
Proof. exact vcg_cplx_nll. Qed.
Theorem C12_vcg_cplx_gradient :
  forall da db ma mb s,
  0 < s ->
  is_derive (fun z => vcg_cplx_E da db ma mb z) s (((da - ma) ^ 2 + (db - mb) ^ 2) * s - 2 / s) /\
  is_derive (fun z => ((da - ma) ^ 2 + (db - mb) ^ 2) * z - 2 / z) s (vcg_cplx_H_ss (da - ma) (db - mb) s) /\
  is_derive (fun y => vcg_cplx_E da db y mb s) ma (- (da - ma) * s ^ 2) /\
  is_derive (fun y => - (da - y) * s ^ 2) ma (s ^ 2).
Proof. exact vcg_cplx_derivs. Qed.
Theorem C12_vcg_cplx_fisher :
  forall Exa Exb ma mb s,
  expectation Exa -> expectation Exb -> 0 < s ->
  Exa (fun d => d) = ma -> Exa (fun d => d ^ 2) = ma ^ 2 + / s ^ 2 ->
  Exb (fun d => d) = mb -> Exb (fun d => d ^ 2) = mb ^ 2 + / s ^ 2 ->
  Exa (fun da => (da - ma) ^ 2) + Exb (fun db => (db - mb) ^ 2) + 2 / s ^ 2 = vcg_cplx_M1 s 1 /\
  s ^ 2 = vcg_cplx_M0 s 1.
Proof. exact vcg_cplx_fisher. Qed.
Theorem C12_vcg_cplx_expected_pullback :
  forall Exa Exb ma mb s,
  expectation Exa -> expectation Exb -> 0 < s ->
  Exa (fun d => d) = ma -> Exa (fun d => d ^ 2) = ma ^ 2 + / s ^ 2 ->
  Exb (fun d => d) = mb -> Exb (fun d => d ^ 2) = mb ^ 2 + / s ^ 2 ->
  Exa (fun da => Derive (fun z => vcg_cplx_t0 da ma z) s ^ 2)
    + Exb (fun db => Derive (fun z => vcg_cplx_t0im db mb z) s ^ 2)
    + Derive vcg_cplx_t1 s ^ 2 = vcg_cplx_M1 s 1 /\
  Exa (fun da => Derive (fun y => vcg_cplx_t0 da y s) ma ^ 2) = vcg_cplx_M0 s 1.
Proof. exact vcg_cplx_expected_pullback. Qed.

(* variable-covariance Student-t (no transformation is coded; Fisher constants: literature + oracle) *)
Theorem C12_vcstudentt_factor_partial :
  forall dof sg v0 v1 w0 w1,
  0 < dof -> sg <> 0 ->
  vcst_L0 dof sg (vcst_L0 dof sg v0) = vcst_M0 dof sg v0 /\
  vcst_L1 dof sg (vcst_L1 dof sg v1) = vcst_M1 dof sg v1 /\
  vcst_L0 dof sg v0 * w0 + vcst_L1 dof sg v1 * w1 = v0 * vcst_L0 dof sg w0 + v1 * vcst_L1 dof sg w1.
Proof. exact vcst_factor. Qed.
Theorem C12_vcstudentt_nll :
  forall dof d m sg,
  0 < dof -> 0 < sg ->
  vcst_E dof d m sg = - ln (studentt_kernel dof ((d - m) / sg) / sg).
Proof. exact vcst_nll. Qed.

(* Categorical, one row (any number of categories): L (L^T w) = M w for normalised rows, R = L^T, M symmetric, <M v, v> = Var_p(v) *)
Theorem C12_categorical_factor :
  forall s w,
  length s = length w -> rdot s s = 1 ->
  rcat_lsm_row s (rcat_rsm_row s w) = rcat_metric_row (rsq s) w.
Proof. exact cat_factor. Qed.
Theorem C12_categorical_adjoint :
  forall s v w,
  length s = length v -> length s = length w ->
  rdot (rcat_lsm_row s v) w = rdot v (rcat_rsm_row s w).
Proof. exact cat_adjoint. Qed.
Theorem C12_categorical_metric_symmetric :
  forall p v w,
  length p = length v -> length p = length w ->
  rdot (rcat_metric_row p v) w = rdot v (rcat_metric_row p w).
Proof. exact cat_metric_symmetric. Qed.
Theorem C12_categorical_metric_is_variance :
  forall p v,
  length p = length v ->
  rdot (rcat_metric_row p v) v = trip p v v - rdot p v ^ 2.
Proof. exact cat_metric_quadratic. Qed.
Theorem C12_categorical_batchsum_refuted :
  qclose 0 (qcat_metric_batchsum wit_p wit_v) (qcat_metric wit_p wit_v) = false /\
  qclose 0 (qcat_metric wit_p wit_v) [[1#4; -1#4]; [1#4; -1#4]] = true.
Proof. exact batchsum_refuted. Qed.

(* ---- operator-level composition rules, for ALL spaces, maps and pairings (Base/LhCombinators.v) ----
   [factored K ipV ipW M L R] := (forall v, M v = L (R v)) /\ (forall w v, ipV (L w) v = ipW w (R v)),
   i.e. M = L o R and R = L^dagger. *)
Theorem C12_amend :
  forall (K V W X : Type) (ipV : V -> V -> K) (ipW : W -> W -> K) (ipX : X -> X -> K)
         (M : V -> V) (L : W -> V) (R : V -> W) (J : X -> V) (Jt : V -> X),
    (forall (v : V) (x : X), ipX (Jt v) x = ipV v (J x)) ->
    factored K ipV ipW M L R ->
    factored K ipX ipW (amend_M V X M J Jt) (amend_L V W X L Jt) (amend_R V W X R J) /\
    (forall x y : X, ipX (amend_M V X M J Jt x) y = ipV (M (J x)) (J y)).
Proof. exact amend_rules. Qed.

Theorem C12_sum :
  forall (K : Type) (kadd : K -> K -> K) (V W1 W2 : Type) (vadd : V -> V -> V) (ipV : V -> V -> K)
         (ipW1 : W1 -> W1 -> K) (ipW2 : W2 -> W2 -> K),
    (forall a b v : V, ipV (vadd a b) v = kadd (ipV a v) (ipV b v)) ->
    forall (M1 : V -> V) (L1 : W1 -> V) (R1 : V -> W1) (M2 : V -> V) (L2 : W2 -> V) (R2 : V -> W2),
    factored K ipV ipW1 M1 L1 R1 -> factored K ipV ipW2 M2 L2 R2 ->
    factored K ipV (ipW12 K kadd W1 W2 ipW1 ipW2) (sum_M V vadd M1 M2) (sum_L V W1 W2 vadd L1 L2) (sum_R V W1 W2 R1 R2).
Proof. exact sum_factored. Qed.

(* freezing = amend with J = insertion of zero tangents for the frozen inputs, J^dagger = removal of the
   frozen outputs: the frozen metric is the principal sub-block rem o M o ins, L keeps the liquid rows *)
Theorem C12_freeze :
  forall (K V W V1 : Type) (ipV : V -> V -> K) (ipW : W -> W -> K) (ip1 : V1 -> V1 -> K)
         (M : V -> V) (L : W -> V) (R : V -> W) (ins : V1 -> V) (rem : V -> V1),
    (forall (v : V) (x : V1), ip1 (rem v) x = ipV v (ins x)) ->
    factored K ipV ipW M L R ->
    factored K ip1 ipW (fun x => rem (M (ins x))) (fun w => rem (L w)) (fun x => R (ins x)).
Proof. exact freeze_factored. Qed.

(* the generated Poisson pixel is an instance, so the rules above apply to it (non-vacuity) *)
Example C12_poisson_instance :
  forall x, 0 < x -> factored R Rmult Rmult (poisson_M x) (poisson_L x) (poisson_L x).
Proof. exact poisson_instance. Qed.

(* Poisson Fisher information as a convergent series over the data (replaces the hypothesis E[d] = x):
   total mass 1, zero-mean score, sum_d Poisson(d|x) Hessian(d, x) = M(x) 1 *)
Theorem C12_poisson_fisher_series :
  forall x, 0 < x ->
    is_series (fun d : nat => poisson_pmf d x) 1 /\
    is_series (fun d : nat => poisson_pmf d x * (1 - INR d / x)) 0 /\
    is_series (fun d : nat => poisson_pmf d x * poisson_hess (INR d) x) (poisson_M x 1).
Proof. exact poisson_fisher_series. Qed.

(* non-vacuity of the moment hypotheses *)
Example C12_expectation_satisfiable :
  forall m v, 0 <= v ->
  exists Ex, expectation Ex /\ Ex (fun d => d) = m /\ Ex (fun d => d ^ 2) = m ^ 2 + v.
Proof. exact expectation_satisfiable. Qed.
