(* C12 -- the categorical likelihood, one row of K categories, over R (lists of any length). *)
From Coq Require Import Reals Lra Lia List QArith.
Require Import NV.C12.Model.
Import ListNotations.
Open Scope R_scope.

Fixpoint trip (a b c : list R) : R :=
  match a, b, c with
  | x :: a', y :: b', z :: c' => x * y * z + trip a' b' c'
  | _, _, _ => 0
  end.

Lemma rdot_comm a b : rdot a b = rdot b a.
Proof.
  unfold rdot. revert b. induction a as [|x a IH]; intros [|y b]; simpl; auto. rewrite IH. ring.
Qed.

(* sum_j s_j (s_j w_j - s_j c) = sum_j s_j^2 w_j - c sum_j s_j^2 *)
Lemma dot_rsm s w c : length s = length w ->
  rdot s (zipw (fun si wi => si * wi - si * c) s w) = rdot (rsq s) w - c * rdot s s.
Proof.
  unfold rdot, rsq. revert w. induction s as [|a s IH]; intros [|b w] H; simpl in *; try discriminate; try ring.
  injection H as H. rewrite (IH w H). ring.
Qed.

Lemma zip_lsm_0 s u : zipw (fun si ui => si * (ui - si * 0)) s u = zipw Rmult s u.
Proof.
  revert u. induction s as [|a s IH]; intros [|b u]; simpl; auto. rewrite IH. f_equal. ring.
Qed.

Lemma zip_mul_rsm s w c :
  zipw Rmult s (zipw (fun si wi => si * wi - si * c) s w) = zipw (fun pi wi => pi * wi - pi * c) (rsq s) w.
Proof.
  unfold rsq. revert w. induction s as [|a s IH]; intros [|b w]; simpl; auto. rewrite IH. f_equal. ring.
Qed.

(* L (L^T w) = M w  for a normalised row (sum_j s_j^2 = 1) *)
Lemma cat_factor s w : length s = length w -> rdot s s = 1 ->
  rcat_lsm_row s (rcat_rsm_row s w) = rcat_metric_row (rsq s) w.
Proof.
  intros Hl Hn. unfold rcat_lsm_row, rcat_rsm_row, rcat_metric_row, cat_lsm_row, cat_rsm_row, cat_metric_row.
  cbv zeta. fold (rsq s). change (@dot R 0 Rplus Rmult) with rdot.
  rewrite (dot_rsm s w (rdot (rsq s) w) Hl), Hn.
  replace (rdot (rsq s) w - rdot (rsq s) w * 1) with 0 by ring.
  rewrite zip_lsm_0. apply zip_mul_rsm.
Qed.

Lemma dot_lsm s v w c : length s = length v -> length s = length w ->
  rdot (zipw (fun si vi => si * (vi - si * c)) s v) w = trip s v w - c * rdot (rsq s) w.
Proof.
  unfold rdot, rsq. revert v w. induction s as [|a s IH]; intros [|b v] [|d w] H1 H2; simpl in *; try discriminate; try ring.
  injection H1 as H1. injection H2 as H2. rewrite (IH v w H1 H2). ring.
Qed.

Lemma dot_rsm_v s v w c : length s = length v -> length s = length w ->
  rdot v (zipw (fun si wi => si * wi - si * c) s w) = trip s v w - c * rdot s v.
Proof.
  unfold rdot. revert v w. induction s as [|a s IH]; intros [|b v] [|d w] H1 H2; simpl in *; try discriminate; try ring.
  injection H1 as H1. injection H2 as H2. rewrite (IH v w H1 H2). ring.
Qed.

(* R = L^T:  <L v, w> = <v, R w> *)
Lemma cat_adjoint s v w : length s = length v -> length s = length w ->
  rdot (rcat_lsm_row s v) w = rdot v (rcat_rsm_row s w).
Proof.
  intros H1 H2. unfold rcat_lsm_row, rcat_rsm_row, cat_lsm_row, cat_rsm_row. cbv zeta. fold (rsq s). change (@dot R 0 Rplus Rmult) with rdot.
  rewrite (dot_lsm s v w _ H1 H2), (dot_rsm_v s v w _ H1 H2). ring.
Qed.

(* the metric is (D - p p^T) v, symmetric:  <M v, w> = <v, M w> *)
Lemma dot_metric p v w c : length p = length v -> length p = length w ->
  rdot (zipw (fun pi vi => pi * vi - pi * c) p v) w = trip p v w - c * rdot p w.
Proof.
  unfold rdot. revert v w. induction p as [|a p IH]; intros [|b v] [|d w] H1 H2; simpl in *; try discriminate; try ring.
  injection H1 as H1. injection H2 as H2. rewrite (IH v w H1 H2). ring.
Qed.

Lemma trip_swap p v w : trip p v w = trip p w v.
Proof. revert v w. induction p as [|a p IH]; intros [|b v] [|d w]; simpl; auto. rewrite IH. ring. Qed.

Lemma cat_metric_symmetric p v w : length p = length v -> length p = length w ->
  rdot (rcat_metric_row p v) w = rdot v (rcat_metric_row p w).
Proof.
  intros H1 H2. unfold rcat_metric_row, cat_metric_row. cbv zeta. change (@dot R 0 Rplus Rmult) with rdot.
  rewrite (rdot_comm v), (dot_metric p v w _ H1 H2), (dot_metric p w v _ H2 H1), (trip_swap p v w). ring.
Qed.

(* the metric annihilates the constant direction (softmax is invariant under common shifts) and is
   positive semi-definite: <M v, v> = sum p v^2 - (sum p v)^2 is a variance *)
Lemma cat_metric_quadratic p v : length p = length v ->
  rdot (rcat_metric_row p v) v = trip p v v - rdot p v ^ 2.
Proof.
  intros H. unfold rcat_metric_row, cat_metric_row. cbv zeta. change (@dot R 0 Rplus Rmult) with rdot.
  rewrite (dot_metric p v v _ H H). ring.
Qed.

(* ---------- the unpatched batch-summed normalisation is NOT the per-row metric ----------------- *)
Open Scope Q_scope.
Definition wit_p : list (list Q) := [[1#2; 1#2]; [1#2; 1#2]].
Definition wit_v : list (list Q) := [[1; 0]; [1; 0]].
Lemma batchsum_refuted :
  qclose 0 (qcat_metric_batchsum wit_p wit_v) (qcat_metric wit_p wit_v) = false /\
  qclose 0 (qcat_metric wit_p wit_v) [[1#4; -1#4]; [1#4; -1#4]] = true.
Proof. split; vm_compute; reflexivity. Qed.
