(* C12 -- the Poisson Fisher information as a convergent series over the data (no moment hypothesis). *)
From Coq Require Import Reals Lra Lia.
From Coquelicot Require Import Coquelicot.
Require Import NV.Base.RealExpr NV.Base.PoissonSeries NV.C12.Model NV.C12.Gen_Lh NV.C12.Proofs.
Open Scope R_scope.

Lemma poisson_fisher_series x : 0 < x ->
  is_series (fun d : nat => poisson_pmf d x) 1 /\
  is_series (fun d : nat => poisson_pmf d x * (1 - INR d / x)) 0 /\
  is_series (fun d : nat => poisson_pmf d x * poisson_hess (INR d) x) (poisson_M x 1).
Proof.
  intros Hx. split; [|split].
  - apply is_series_ext_R with (2 := pois_total x). intros d. reflexivity.
  - assert (E : (- / x) * x + 1 = 0) by (field; lra). apply (is_series_lim_eq _ _ _ E).
    apply is_series_ext_R with (2 := pois_affine x (- / x) 1).
    intros d. pose proof (fact_pos d). unfold poisson_pmf, pois. field; split; lra.
  - assert (E : (/ x ^ 2) * x + 0 = poisson_M x 1) by (unfold poisson_M; field; lra). apply (is_series_lim_eq _ _ _ E).
    apply is_series_ext_R with (2 := pois_affine x (/ x ^ 2) 0).
    intros d. pose proof (fact_pos d). unfold poisson_pmf, pois, poisson_hess. field; split; lra.
Qed.

Require Import NV.Base.LhCombinators.
Lemma poisson_instance x : 0 < x -> factored R Rmult Rmult (poisson_M x) (poisson_L x) (poisson_L x).
Proof.
  intros Hx. split.
  - intros v. destruct (poisson_factor x v v Hx) as [H _]. symmetry; exact H.
  - intros w v. destruct (poisson_factor x w v Hx) as [_ H]. exact H.
Qed.
