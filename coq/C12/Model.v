(* C12 -- hand-written part of the model (no proofs).
   Per-pixel energy / metric / left-sqrt-metric / transformation of Gaussian, StudentT, Poissonian,
   VariableCovarianceGaussian (real, complex) and VariableCovarianceStudentT are GENERATED from
   nifty/re/likelihood_impl.py (Gen_Lh.v).  Hand-written here:
   (1) the row-wise formulas of Categorical.metric / left_sqrt_metric (not expressible per pixel),
       polymorphic in the arithmetic so that the SAME definitions are evaluated over Q inside coqc
       against the implementation (correspondence) and reasoned about over R (theorems);
   (2) the documented densities and explicit derivative formulas used in the statements;
   (3) the abstract expectation functional for the moment hypotheses. *)
From Coq Require Import Reals List QArith Qabs.
From Coquelicot Require Import Coquelicot.
Import ListNotations.

(* ---- (1) Categorical, one row of K categories ---------------------------------------------------
   nifty/re/likelihood_impl.py (with fixes/C12-1.patch: the normalisation term is kept per row)
     def metric(self, primals, tangents):
         preds = tree_map(partial(softmax, axis=self.axis), primals)
         norm_term = tree_map(partial(jnp.sum, axis=self.axis, keepdims=True), preds * tangents)
         return preds * tangents - preds * norm_term
     def left_sqrt_metric(self, primals, tangents):
         sqrtp = tree_map(partial(softmax, axis=self.axis), primals) ** 0.5
         norm_term = tree_map(partial(jnp.sum, axis=self.axis, keepdims=True), sqrtp * tangents)
         return sqrtp * (tangents - sqrtp * norm_term)
   The softmax / square root are inputs of the model (p resp. s, with s_i^2 = p_i, sum p = 1 as
   hypotheses of the theorems; computed by JAX in the correspondence). *)
Section Cat.
Variable A : Type.
Variables (zero : A) (add mul sub : A -> A -> A).

Fixpoint zipw (f : A -> A -> A) (a b : list A) : list A :=
  match a, b with
  | x :: a', y :: b' => f x y :: zipw f a' b'
  | _, _ => []
  end.

(* jnp.sum(a * b, axis) of one row *)
Fixpoint dot (a b : list A) : A :=
  match a, b with
  | x :: a', y :: b' => add (mul x y) (dot a' b')
  | _, _ => zero
  end.

(* preds * tangents - preds * norm_term *)
Definition cat_metric_row (p v : list A) : list A :=
  let n := dot p v in zipw (fun pi vi => sub (mul pi vi) (mul pi n)) p v.

(* sqrtp * (tangents - sqrtp * norm_term) *)
Definition cat_lsm_row (s v : list A) : list A :=
  let n := dot s v in zipw (fun si vi => mul si (sub vi (mul si n))) s v.

(* the transpose of cat_lsm_row s (what jax.linear_transpose of the left square root computes on
   full-shape tangents): s * w - s * sum(s*s*w) *)
Definition cat_rsm_row (s w : list A) : list A :=
  let n := dot (zipw mul s s) w in zipw (fun si wi => sub (mul si wi) (mul si n)) s w.

(* batched data: every row separately *)
Definition cat_metric (p v : list (list A)) : list (list A) := map (fun pv => cat_metric_row (fst pv) (snd pv)) (combine p v).
Definition cat_lsm (s v : list (list A)) : list (list A) := map (fun sv => cat_lsm_row (fst sv) (snd sv)) (combine s v).

(* the batch-summed normalisation of the unpatched code (sum over the whole tree), kept for the
   refutation: preds * tangents - preds * sum(norm_term) *)
Definition cat_metric_batchsum (p v : list (list A)) : list (list A) :=
  let n := fold_right add zero (map (fun pv => dot (fst pv) (snd pv)) (combine p v)) in
  map (fun pv => zipw (fun pi vi => sub (mul pi vi) (mul pi n)) (fst pv) (snd pv)) (combine p v).
End Cat.

Arguments zipw {A}. Arguments dot {A}. Arguments cat_metric_row {A}. Arguments cat_lsm_row {A}.
Arguments cat_rsm_row {A}. Arguments cat_metric {A}. Arguments cat_lsm {A}. Arguments cat_metric_batchsum {A}.

(* instances: Q for the evaluation inside coqc, R for the theorems *)
Definition qdot := dot 0%Q Qplus Qmult.
Definition qcat_metric := cat_metric 0%Q Qplus Qmult Qminus.
Definition qcat_lsm := cat_lsm 0%Q Qplus Qmult Qminus.
Definition qcat_metric_batchsum := cat_metric_batchsum 0%Q Qplus Qmult Qminus.
Definition qcat_rsm_row := cat_rsm_row 0%Q Qplus Qmult Qminus.

(* |a - b| <= tol entrywise, same shape *)
Fixpoint qclose_row (tol : Q) (a b : list Q) : bool :=
  match a, b with
  | [], [] => true
  | x :: a', y :: b' => Qle_bool (Qabs (x - y)) tol && qclose_row tol a' b'
  | _, _ => false
  end.
Fixpoint qclose (tol : Q) (a b : list (list Q)) : bool :=
  match a, b with
  | [], [] => true
  | x :: a', y :: b' => qclose_row tol x y && qclose tol a' b'
  | _, _ => false
  end.

Open Scope R_scope.
Definition rdot := dot 0 Rplus Rmult.
Definition rcat_metric_row := cat_metric_row 0 Rplus Rmult Rminus.
Definition rcat_lsm_row := cat_lsm_row 0 Rplus Rmult Rminus.
Definition rcat_rsm_row := cat_rsm_row 0 Rplus Rmult Rminus.
Definition rsq (s : list R) : list R := zipw Rmult s s.

(* ---- (2) documented densities, explicit derivatives ------------------------------------------------ *)
Definition gauss_pdf (icov d x : R) : R := sqrt (icov / (2 * PI)) * exp (- (icov * (d - x) ^ 2 / 2)).
Definition poisson_pmf (d : nat) (x : R) : R := x ^ d * exp (- x) / INR (fact d).
Definition studentt_kernel (dof u : R) : R := Rpower (1 + u ^ 2 / dof) (- ((dof + 1) / 2)).
(* data d ~ N(m, 1/s^2) (real), complex: re and im independent N(., 1/s^2) *)
Definition vcg_real_pdf (d m s : R) : R := sqrt (s ^ 2 / (2 * PI)) * exp (- (s ^ 2 * (d - m) ^ 2 / 2)).
Definition vcg_cplx_pdf (da db ma mb s : R) : R := (s ^ 2 / (2 * PI)) * exp (- (s ^ 2 * ((da - ma) ^ 2 + (db - mb) ^ 2) / 2)).
Definition poisson_hess (d x : R) : R := d / x ^ 2.
(* Hessian of the real variable-covariance energy in (m, s); u = d - m *)
Definition vcg_real_H_mm (u s : R) : R := s ^ 2.
Definition vcg_real_H_ms (u s : R) : R := - 2 * u * s.
Definition vcg_real_H_ss (u s : R) : R := u ^ 2 + / s ^ 2.
Definition vcg_cplx_H_ss (ua ub s : R) : R := ua ^ 2 + ub ^ 2 + 2 / s ^ 2.

(* ---- (3) expectation over the data ----------------------------------------------------------------- *)
Record expectation (Ex : (R -> R) -> R) : Prop := {
  ex_quad : forall a b c, Ex (fun d => a * d ^ 2 + b * d + c) = a * Ex (fun d => d ^ 2) + b * Ex (fun d => d) + c;
  ex_ext : forall f g, (forall d, f d = g d) -> Ex f = Ex g
}.
