(* C12 -- lemmas about the GENERATED per-pixel likelihood formulas (Gen_Lh.v). *)
From Coq Require Import Reals Lra Lia.
From Coquelicot Require Import Coquelicot.
Require Import NV.Base.RealExpr NV.C12.Model NV.C12.Gen_Lh.
Open Scope R_scope.

Lemma sqrt_sq x : 0 <= x -> sqrt x * sqrt x = x.
Proof. intros. apply sqrt_sqrt; auto. Qed.

Lemma ln_pow_nat x (d : nat) : 0 < x -> ln (x ^ d) = INR d * ln x.
Proof.
  intros Hx. induction d. simpl. rewrite ln_1; ring.
  rewrite S_INR. simpl. rewrite ln_mult; auto. rewrite IHd. ring. apply pow_lt; auto.
Qed.

Lemma ratio_pos dof : 0 < dof -> 0 < (dof + 1) / (dof + 3).
Proof. intros. apply Rdiv_lt_0_compat; lra. Qed.

(* ---------- Gaussian ------------------------------------------------------------------------ *)
(* M = L o R with R = L^dagger: pixel-wise L is multiplication by the real number std_inv, which is
   its own adjoint. *)
Lemma gauss_factor cov_inv std_inv v w : cov_inv = std_inv ^ 2 ->
  gauss_L std_inv (gauss_L std_inv v) = gauss_M cov_inv v /\
  gauss_L std_inv v * w = v * gauss_L std_inv w.
Proof. intros ->. unfold gauss_L, gauss_M. split; ring. Qed.

Lemma gauss_pullback std_inv x v :
  is_derive (gauss_t std_inv) x std_inv /\ gauss_L std_inv v = std_inv * v.
Proof. unfold gauss_t, gauss_L. split; [auto_derive; auto; ring|reflexivity]. Qed.

Lemma gauss_nll cov_inv d x : 0 < cov_inv ->
  gauss_E cov_inv d x = - ln (gauss_pdf cov_inv d x) + ln (sqrt (cov_inv / (2 * PI))).
Proof.
  intros Hi. unfold gauss_E, gauss_pdf.
  assert (0 < sqrt (cov_inv / (2 * PI))).
  { apply sqrt_lt_R0. apply Rdiv_lt_0_compat; auto. pose proof PI_RGT_0. lra. }
  rewrite ln_mult; auto; [|apply exp_pos]. rewrite ln_exp. field.
Qed.

(* gradient, and the (data independent) Hessian = metric applied to 1 = Fisher information *)
Lemma gauss_fisher cov_inv d x :
  is_derive (fun y => gauss_E cov_inv d y) x (cov_inv * (x - d)) /\
  is_derive (fun y => cov_inv * (y - d)) x (gauss_M cov_inv 1).
Proof. unfold gauss_E, gauss_M. split; auto_derive; auto; field. Qed.

(* ---------- Student-t ---------------------------------------------------------------------- *)
Lemma studentt_factor cov_inv std_inv dof v w : 0 < dof -> cov_inv = std_inv ^ 2 ->
  studentt_L std_inv dof (studentt_L std_inv dof v) = studentt_M cov_inv dof v /\
  studentt_L std_inv dof v * w = v * studentt_L std_inv dof w.
Proof.
  intros Hd ->. unfold studentt_L, studentt_M. pose proof (ratio_pos dof Hd).
  split; [|ring].
  replace (std_inv * (sqrt ((dof + 1) / (dof + 3)) * (std_inv * (sqrt ((dof + 1) / (dof + 3)) * v))))
    with (std_inv ^ 2 * ((sqrt ((dof + 1) / (dof + 3)) * sqrt ((dof + 1) / (dof + 3))) * v)) by ring.
  rewrite sqrt_sq by lra. reflexivity.
Qed.

Lemma studentt_pullback std_inv dof x v :
  is_derive (studentt_t std_inv dof) x (std_inv * sqrt ((dof + 1) / (dof + 3))) /\
  studentt_L std_inv dof v = (std_inv * sqrt ((dof + 1) / (dof + 3))) * v.
Proof. unfold studentt_t, studentt_L. split; [auto_derive; auto; ring|ring]. Qed.

Lemma studentt_nll std_inv dof d x : 0 < dof ->
  studentt_E std_inv dof d x = - ln (studentt_kernel dof (std_inv * (d - x))).
Proof.
  intros. unfold studentt_E, studentt_kernel, Rpower. rewrite ln_exp.
  replace ((std_inv * (d - x)) ^ 2) with (std_inv * (d - x) * (std_inv * (d - x))) by ring. field.
Qed.

(* ---------- Poisson ------------------------------------------------------------------------- *)
Lemma poisson_factor x v w : 0 < x ->
  poisson_L x (poisson_L x v) = poisson_M x v /\ poisson_L x v * w = v * poisson_L x w.
Proof.
  intros Hx. unfold poisson_L, poisson_M. assert (0 < sqrt x) by (apply sqrt_lt_R0; auto).
  split; [|field; lra].
  replace (v / sqrt x / sqrt x) with (v / (sqrt x * sqrt x)) by (field; lra). rewrite sqrt_sq by lra. reflexivity.
Qed.

Lemma poisson_pullback x v : 0 < x ->
  is_derive poisson_t x (/ sqrt x) /\ poisson_L x v = / sqrt x * v.
Proof.
  intros Hx. assert (0 < sqrt x) by (apply sqrt_lt_R0; auto). unfold poisson_t, poisson_L. split.
  - auto_derive. lra. field; lra.
  - field; lra.
Qed.

Lemma poisson_nll (d : nat) x : 0 < x ->
  poisson_E (INR d) x = - ln (poisson_pmf d x) - ln (INR (fact d)).
Proof.
  intros Hx. unfold poisson_E, poisson_pmf.
  assert (0 < x ^ d) by (apply pow_lt; auto).
  assert (0 < INR (fact d)) by (apply lt_0_INR, lt_O_fact).
  unfold Rdiv. rewrite ln_mult; [|apply Rmult_lt_0_compat; auto; apply exp_pos|apply Rinv_0_lt_compat; auto].
  rewrite ln_mult; auto; [|apply exp_pos]. rewrite ln_exp, ln_Rinv; auto.
  rewrite ln_pow_nat by auto. ring.
Qed.

Lemma poisson_derivs d x : 0 < x ->
  is_derive (fun y => poisson_E d y) x (1 - d / x) /\ is_derive (fun y => 1 - d / y) x (poisson_hess d x).
Proof. intros. unfold poisson_E, poisson_hess. split; auto_derive; try lra; field; lra. Qed.

Lemma poisson_fisher Ex x : expectation Ex -> 0 < x -> Ex (fun d => d) = x ->
  Ex (fun d => poisson_hess d x) = poisson_M x 1.
Proof.
  intros HE Hx Hm. unfold poisson_M.
  rewrite (ex_ext _ HE _ (fun d => 0 * d ^ 2 + / x ^ 2 * d + 0)).
  rewrite (ex_quad _ HE), Hm. field; lra.
  intros d. unfold poisson_hess. field; lra.
Qed.

(* ---------- variable-covariance Gaussian, real ------------------------------------------------ *)
Lemma vcg_real_factor s v0 v1 w0 w1 : s <> 0 ->
  vcg_real_L0 s (vcg_real_L0 s v0) = vcg_real_M0 s v0 /\
  vcg_real_L1 s (vcg_real_L1 s v1) = vcg_real_M1 s v1 /\
  vcg_real_L0 s v0 * w0 + vcg_real_L1 s v1 * w1 = v0 * vcg_real_L0 s w0 + v1 * vcg_real_L1 s w1.
Proof.
  intros Hs. unfold vcg_real_L0, vcg_real_L1, vcg_real_M0, vcg_real_M1.
  assert (H2 : sqrt 2 * sqrt 2 = 2) by (apply sqrt_sq; lra).
  split; [ring|]. split; [|field; auto].
  replace (sqrt 2 ^ 1 * (sqrt 2 ^ 1 * v1 / s) / s) with ((sqrt 2 * sqrt 2) * v1 / s ^ 2) by (field; auto).
  rewrite H2. reflexivity.
Qed.

Lemma vcg_real_nll d m s : 0 < s ->
  vcg_real_E d m s = - ln (vcg_real_pdf d m s) + ln (sqrt (/ (2 * PI))).
Proof.
  intros Hs. unfold vcg_real_E, vcg_real_pdf. pose proof PI_RGT_0.
  assert (0 < / (2 * PI)) by (apply Rinv_0_lt_compat; lra).
  assert (0 < s ^ 2) by (apply pow_lt; auto).
  unfold Rdiv. rewrite sqrt_mult by lra.
  replace (sqrt (s ^ 2)) with s. 2:{ replace (s ^ 2) with (Rsqr s) by (unfold Rsqr; ring). rewrite sqrt_Rsqr; lra. }
  rewrite !ln_mult; try apply exp_pos; auto; try (apply sqrt_lt_R0; auto).
  2:{ apply Rmult_lt_0_compat; auto. apply sqrt_lt_R0; auto. }
  rewrite ln_exp. field.
Qed.

(* first and second partial derivatives of the energy in (m, s), u = d - m *)
Lemma vcg_real_derivs d m s : 0 < s ->
  is_derive (fun y => vcg_real_E d y s) m (- (d - m) * s ^ 2) /\
  is_derive (fun z => vcg_real_E d m z) s ((d - m) ^ 2 * s - / s) /\
  is_derive (fun y => - (d - y) * s ^ 2) m (vcg_real_H_mm (d - m) s) /\
  is_derive (fun z => - (d - m) * z ^ 2) s (vcg_real_H_ms (d - m) s) /\
  is_derive (fun z => (d - m) ^ 2 * z - / z) s (vcg_real_H_ss (d - m) s).
Proof.
  intros Hs. unfold vcg_real_E, vcg_real_H_mm, vcg_real_H_ms, vcg_real_H_ss.
  split; [|split; [|split; [|split]]].
  - auto_derive; auto. field.
  - auto_derive. lra. field; lra.
  - auto_derive; auto. field.
  - auto_derive; auto. field.
  - auto_derive. lra. field; lra.
Qed.

(* Fisher information: expectation of the Hessian over data with mean m and variance 1/s^2 *)
Lemma vcg_real_fisher Ex m s : expectation Ex -> 0 < s ->
  Ex (fun d => d) = m -> Ex (fun d => d ^ 2) = m ^ 2 + / s ^ 2 ->
  Ex (fun d => vcg_real_H_mm (d - m) s) = vcg_real_M0 s 1 /\
  Ex (fun d => vcg_real_H_ms (d - m) s) = 0 /\
  Ex (fun d => vcg_real_H_ss (d - m) s) = vcg_real_M1 s 1.
Proof.
  intros HE Hs Hm Hv. unfold vcg_real_H_mm, vcg_real_H_ms, vcg_real_H_ss, vcg_real_M0, vcg_real_M1.
  split; [|split].
  - rewrite (ex_ext _ HE _ (fun d => 0 * d ^ 2 + 0 * d + s ^ 2)) by (intros; ring). rewrite (ex_quad _ HE). ring.
  - rewrite (ex_ext _ HE _ (fun d => 0 * d ^ 2 + (- 2 * s) * d + 2 * m * s)) by (intros; ring).
    rewrite (ex_quad _ HE), Hm. ring.
  - rewrite (ex_ext _ HE _ (fun d => 1 * d ^ 2 + (- 2 * m) * d + (m ^ 2 + / s ^ 2))) by (intros; ring).
    rewrite (ex_quad _ HE), Hm, Hv. field; lra.
Qed.

(* Jacobian of the transformation and its data-averaged pull-back = metric *)
Lemma vcg_real_jac d m s : 0 < s ->
  is_derive (fun y => vcg_real_t0 d y s) m s /\
  is_derive (fun z => vcg_real_t0 d m z) s (m - d) /\
  is_derive vcg_real_t1 s (/ s).
Proof.
  intros Hs. unfold vcg_real_t0, vcg_real_t1. split; [|split].
  - auto_derive; auto. ring.
  - auto_derive; auto. ring.
  - auto_derive. lra. field; lra.
Qed.

Lemma vcg_real_expected_pullback Ex m s : expectation Ex -> 0 < s ->
  Ex (fun d => d) = m -> Ex (fun d => d ^ 2) = m ^ 2 + / s ^ 2 ->
  Ex (fun d => Derive (fun y => vcg_real_t0 d y s) m ^ 2) = vcg_real_M0 s 1 /\
  Ex (fun d => Derive (fun y => vcg_real_t0 d y s) m * Derive (fun z => vcg_real_t0 d m z) s) = 0 /\
  Ex (fun d => Derive (fun z => vcg_real_t0 d m z) s ^ 2 + Derive vcg_real_t1 s ^ 2) = vcg_real_M1 s 1.
Proof.
  intros HE Hs Hm Hv.
  assert (D1 : forall d, Derive (fun y => vcg_real_t0 d y s) m = s).
  { intros d. apply is_derive_unique. apply (vcg_real_jac d m s Hs). }
  assert (D2 : forall d, Derive (fun z => vcg_real_t0 d m z) s = m - d).
  { intros d. apply is_derive_unique. apply (vcg_real_jac d m s Hs). }
  assert (D3 : Derive vcg_real_t1 s = / s).
  { apply is_derive_unique. apply (vcg_real_jac 0 m s Hs). }
  unfold vcg_real_M0, vcg_real_M1. split; [|split].
  - rewrite (ex_ext _ HE _ (fun d => 0 * d ^ 2 + 0 * d + s ^ 2)). rewrite (ex_quad _ HE). ring.
    intros d. rewrite D1. ring.
  - rewrite (ex_ext _ HE _ (fun d => 0 * d ^ 2 + (- s) * d + s * m)). rewrite (ex_quad _ HE), Hm. ring.
    intros d. rewrite D1, D2. ring.
  - rewrite (ex_ext _ HE _ (fun d => 1 * d ^ 2 + (- 2 * m) * d + (m ^ 2 + / s ^ 2))).
    rewrite (ex_quad _ HE), Hm, Hv. field; lra.
    intros d. rewrite D2, D3. field; lra.
Qed.

(* ---------- variable-covariance Gaussian, complex --------------------------------------------- *)
Lemma vcg_cplx_factor s va vb v1 : s <> 0 ->
  vcg_cplx_L0 s (vcg_cplx_L0 s va) = vcg_cplx_M0 s va /\
  vcg_cplx_L0im s (vcg_cplx_L0im s vb) = vcg_cplx_M0im s vb /\
  vcg_cplx_L1 s (vcg_cplx_L1 s v1) = vcg_cplx_M1 s v1.
Proof.
  intros Hs. unfold vcg_cplx_L0, vcg_cplx_L0im, vcg_cplx_L1, vcg_cplx_M0, vcg_cplx_M0im, vcg_cplx_M1.
  assert (H2 : sqrt 2 * sqrt 2 = 2) by (apply sqrt_sq; lra).
  split; [ring|]. split; [ring|].
  replace (sqrt 2 ^ 2 * (sqrt 2 ^ 2 * v1 / s) / s) with ((sqrt 2 * sqrt 2) * (sqrt 2 * sqrt 2) * v1 / s ^ 2) by (field; auto).
  rewrite H2. field; auto.
Qed.

Lemma vcg_cplx_nll da db ma mb s : 0 < s ->
  vcg_cplx_E da db ma mb s = - ln (vcg_cplx_pdf da db ma mb s) + ln (/ (2 * PI)).
Proof.
  intros Hs. unfold vcg_cplx_E, vcg_cplx_pdf. pose proof PI_RGT_0.
  assert (0 < / (2 * PI)) by (apply Rinv_0_lt_compat; lra).
  assert (0 < s ^ 2) by (apply pow_lt; auto).
  unfold Rdiv. rewrite !ln_mult; try apply exp_pos; auto.
  2:{ apply Rmult_lt_0_compat; auto. }
  rewrite ln_exp. replace (ln (s ^ 2)) with (2 * ln s). field.
  replace (s ^ 2) with (s * s) by ring. rewrite ln_mult; auto. ring.
Qed.

Lemma vcg_cplx_derivs da db ma mb s : 0 < s ->
  is_derive (fun z => vcg_cplx_E da db ma mb z) s (((da - ma) ^ 2 + (db - mb) ^ 2) * s - 2 / s) /\
  is_derive (fun z => ((da - ma) ^ 2 + (db - mb) ^ 2) * z - 2 / z) s (vcg_cplx_H_ss (da - ma) (db - mb) s) /\
  is_derive (fun y => vcg_cplx_E da db y mb s) ma (- (da - ma) * s ^ 2) /\
  is_derive (fun y => - (da - y) * s ^ 2) ma (s ^ 2).
Proof.
  intros Hs. unfold vcg_cplx_E, vcg_cplx_H_ss. split; [|split; [|split]].
  - auto_derive. lra. field; lra.
  - auto_derive. lra. field; lra.
  - auto_derive; auto. field.
  - auto_derive; auto. field.
Qed.

(* data components a, b: independent, mean (ma, mb), variance 1/s^2 each *)
Lemma vcg_cplx_fisher Exa Exb ma mb s : expectation Exa -> expectation Exb -> 0 < s ->
  Exa (fun d => d) = ma -> Exa (fun d => d ^ 2) = ma ^ 2 + / s ^ 2 ->
  Exb (fun d => d) = mb -> Exb (fun d => d ^ 2) = mb ^ 2 + / s ^ 2 ->
  Exa (fun da => (da - ma) ^ 2) + Exb (fun db => (db - mb) ^ 2) + 2 / s ^ 2 = vcg_cplx_M1 s 1 /\
  s ^ 2 = vcg_cplx_M0 s 1.
Proof.
  intros HA HB Hs Ha Hva Hb Hvb. unfold vcg_cplx_M1, vcg_cplx_M0. split; [|ring].
  rewrite (ex_ext _ HA _ (fun d => 1 * d ^ 2 + (- 2 * ma) * d + ma ^ 2)) by (intros; ring).
  rewrite (ex_ext _ HB _ (fun d => 1 * d ^ 2 + (- 2 * mb) * d + mb ^ 2)) by (intros; ring).
  rewrite (ex_quad _ HA), (ex_quad _ HB), Ha, Hva, Hb, Hvb. field; lra.
Qed.

Lemma vcg_cplx_jac d m s : 0 < s ->
  is_derive (fun y => vcg_cplx_t0 d y s) m s /\ is_derive (fun z => vcg_cplx_t0 d m z) s (m - d) /\
  is_derive (fun y => vcg_cplx_t0im d y s) m s /\ is_derive (fun z => vcg_cplx_t0im d m z) s (m - d) /\
  is_derive vcg_cplx_t1 s (sqrt 2 / s).
Proof.
  intros Hs. unfold vcg_cplx_t0, vcg_cplx_t0im, vcg_cplx_t1. split; [|split; [|split; [|split]]].
  - auto_derive; auto. ring.
  - auto_derive; auto. ring.
  - auto_derive; auto. ring.
  - auto_derive; auto. ring.
  - auto_derive. lra. field; lra.
Qed.

Lemma vcg_cplx_expected_pullback Exa Exb ma mb s : expectation Exa -> expectation Exb -> 0 < s ->
  Exa (fun d => d) = ma -> Exa (fun d => d ^ 2) = ma ^ 2 + / s ^ 2 ->
  Exb (fun d => d) = mb -> Exb (fun d => d ^ 2) = mb ^ 2 + / s ^ 2 ->
  Exa (fun da => Derive (fun z => vcg_cplx_t0 da ma z) s ^ 2)
    + Exb (fun db => Derive (fun z => vcg_cplx_t0im db mb z) s ^ 2)
    + Derive vcg_cplx_t1 s ^ 2 = vcg_cplx_M1 s 1 /\
  Exa (fun da => Derive (fun y => vcg_cplx_t0 da y s) ma ^ 2) = vcg_cplx_M0 s 1.
Proof.
  intros HA HB Hs Ha Hva Hb Hvb.
  assert (D1 : forall d m, Derive (fun y => vcg_cplx_t0 d y s) m = s).
  { intros d m. apply is_derive_unique. apply (vcg_cplx_jac d m s Hs). }
  assert (D2 : forall d m, Derive (fun z => vcg_cplx_t0 d m z) s = m - d).
  { intros d m. apply is_derive_unique. apply (vcg_cplx_jac d m s Hs). }
  assert (D2b : forall d m, Derive (fun z => vcg_cplx_t0im d m z) s = m - d).
  { intros d m. apply is_derive_unique. apply (vcg_cplx_jac d m s Hs). }
  assert (D3 : Derive vcg_cplx_t1 s = sqrt 2 / s).
  { apply is_derive_unique. apply (vcg_cplx_jac 0 0 s Hs). }
  assert (H2 : sqrt 2 * sqrt 2 = 2) by (apply sqrt_sq; lra).
  unfold vcg_cplx_M1, vcg_cplx_M0. split.
  - rewrite (ex_ext _ HA _ (fun d => 1 * d ^ 2 + (- 2 * ma) * d + ma ^ 2)) by (intros d; rewrite D2; ring).
    rewrite (ex_ext _ HB _ (fun d => 1 * d ^ 2 + (- 2 * mb) * d + mb ^ 2)) by (intros d; rewrite D2b; ring).
    rewrite (ex_quad _ HA), (ex_quad _ HB), Ha, Hva, Hb, Hvb, D3.
    replace ((sqrt 2 / s) ^ 2) with ((sqrt 2 * sqrt 2) / s ^ 2) by (field; lra). rewrite H2. field; lra.
  - rewrite (ex_ext _ HA _ (fun d => 0 * d ^ 2 + 0 * d + s ^ 2)) by (intros d; rewrite D1; ring).
    rewrite (ex_quad _ HA). ring.
Qed.

(* ---------- variable-covariance Student-t ------------------------------------------------------ *)
Lemma vcst_factor dof sg v0 v1 w0 w1 : 0 < dof -> sg <> 0 ->
  vcst_L0 dof sg (vcst_L0 dof sg v0) = vcst_M0 dof sg v0 /\
  vcst_L1 dof sg (vcst_L1 dof sg v1) = vcst_M1 dof sg v1 /\
  vcst_L0 dof sg v0 * w0 + vcst_L1 dof sg v1 * w1 = v0 * vcst_L0 dof sg w0 + v1 * vcst_L1 dof sg w1.
Proof.
  intros Hd Hs. unfold vcst_L0, vcst_L1, vcst_M0, vcst_M1.
  assert (0 < sg ^ 2). { replace (sg ^ 2) with (sg * sg) by ring. destruct (Rtotal_order sg 0) as [|[|]]; [|lra|]; nra. }
  assert (0 < (dof + 1) / (dof + 3) / sg ^ 2) by (apply Rdiv_lt_0_compat; auto; apply ratio_pos; auto).
  assert (0 < 2 * dof / (dof + 3) / sg ^ 2) by (apply Rdiv_lt_0_compat; auto; apply Rdiv_lt_0_compat; lra).
  split; [|split; [|ring]].
  - replace (sqrt ((dof + 1) / (dof + 3) / sg ^ 2) * (sqrt ((dof + 1) / (dof + 3) / sg ^ 2) * v0))
      with (sqrt ((dof + 1) / (dof + 3) / sg ^ 2) * sqrt ((dof + 1) / (dof + 3) / sg ^ 2) * v0) by ring.
    rewrite sqrt_sq by lra. field. split; lra.
  - replace (sqrt (2 * dof / (dof + 3) / sg ^ 2) * (sqrt (2 * dof / (dof + 3) / sg ^ 2) * v1))
      with (sqrt (2 * dof / (dof + 3) / sg ^ 2) * sqrt (2 * dof / (dof + 3) / sg ^ 2) * v1) by ring.
    rewrite sqrt_sq by lra. field. split; lra.
Qed.

Lemma vcst_nll dof d m sg : 0 < dof -> 0 < sg ->
  vcst_E dof d m sg = - ln (studentt_kernel dof ((d - m) / sg) / sg).
Proof.
  intros Hd Hs. unfold studentt_kernel. set (k := Rpower _ _).
  assert (Hk : ln k = - ((dof + 1) / 2) * ln (1 + ((d - m) / sg) ^ 2 / dof)).
  { unfold k, Rpower. rewrite ln_exp. reflexivity. }
  assert (0 < k) by (unfold k, Rpower; apply exp_pos).
  replace (k / sg) with (k * / sg) by reflexivity.
  rewrite ln_mult; auto; [|apply Rinv_0_lt_compat; auto]. rewrite ln_Rinv by auto. rewrite Hk.
  unfold vcst_E. replace (((d - m) / sg) ^ 2) with ((d - m) / sg * ((d - m) / sg)) by ring. field.
Qed.

(* ---------- the moment hypotheses are satisfiable ---------------------------------------------- *)
Lemma expectation_satisfiable m v : 0 <= v ->
  exists Ex, expectation Ex /\ Ex (fun d => d) = m /\ Ex (fun d => d ^ 2) = m ^ 2 + v.
Proof.
  intros Hv. exists (fun f => (f (m + sqrt v) + f (m - sqrt v)) / 2).
  assert (sqrt v * sqrt v = v) by (apply sqrt_sqrt; auto).
  split; [constructor|split].
  - intros a b c. field.
  - intros f g E. rewrite !E. reflexivity.
  - field.
  - replace ((m + sqrt v) ^ 2 + (m - sqrt v) ^ 2) with (2 * m ^ 2 + 2 * (sqrt v * sqrt v)) by ring.
    rewrite H. field.
Qed.
