(* C05 -- translation validation of nifty/cl/operator_tree_optimiser.py.  NO proofs in this file.

   Operator graphs (exported from the Python objects, original and optimised) are terms [g]; their
   meaning is a function on dynamically typed values (a field or a multi-field) for ARBITRARY opaque leaf
   operators.  The validator executes both graphs symbolically on the symbolic input {k: TIn k} and compares
   the resulting expression trees syntactically: shared definitions introduced by the optimiser
   ([FieldAdapter(key).adjoint @ subtree], plugged in by [partial_insert]) are thereby inlined. *)
From Coq Require Import List Arith Bool NArith.
Import ListNotations.

Definition key := N.

Inductive g :=
| GLeaf (id : N)            (* any other operator, identified by id() of the ORIGINAL object; field -> field *)
| GVar (k : key)            (* FieldAdapter(dom, k):           multi-field -> field  x[k] *)
| GBind (k : key)           (* FieldAdapter(dom, k).adjoint:   field -> multi-field  {k: x} *)
| GId (ks : list key)       (* identity_operator(MultiDomain(ks)):  multi-field restricted to ks *)
| GSum (a b : g)            (* _OpSum: force both on x, add fields / unite multi-fields *)
| GProd (a b : g)           (* _OpProd *)
| GComp (a b : g).          (* _OpChain (a, b): a(b(x));  chains are right-nested *)

(* ---- association lists keyed by N ----------------------------------------------------------------- *)
Section Assoc.
  Variable X : Type.
  Fixpoint lookup (k : key) (m : list (key * X)) : option X :=
    match m with [] => None | (k', x) :: m' => if N.eqb k k' then Some x else lookup k m' end.
  Definition restrict (ks : list key) (m : list (key * X)) : list (key * X) :=
    filter (fun p => existsb (N.eqb (fst p)) ks) m.
  Variable add : X -> X -> X.
  (* MultiField.unite: union of the keys, common keys are added *)
  Fixpoint insert_add (k : key) (x : X) (m : list (key * X)) : list (key * X) :=
    match m with
    | [] => [(k, x)]
    | (k', y) :: m' => if N.eqb k k' then (k', add y x) :: m' else (k', y) :: insert_add k x m'
    end.
  Fixpoint unite (m1 m2 : list (key * X)) : list (key * X) :=
    match m2 with [] => m1 | (k, x) :: m2' => unite (insert_add k x m1) m2' end.
End Assoc.
Arguments lookup {X}. Arguments restrict {X}. Arguments insert_add {X}. Arguments unite {X}.

(* ---- concrete semantics ------------------------------------------------------------------------------ *)
Section Sem.
  Variable F : Type.                         (* fields *)
  Variables (fadd fmul : F -> F -> F).       (* Field + Field, Field * Field *)
  Variable leaf : N -> F -> F.               (* the opaque operators *)

  Inductive val := VF (x : F) | VM (m : list (key * F)) | VErr.

  Fixpoint eval (t : g) (v : val) : val :=
    match t with
    | GLeaf id => match v with VF x => VF (leaf id x) | _ => VErr end
    | GVar k => match v with VM m => match lookup k m with Some x => VF x | None => VErr end | _ => VErr end
    | GBind k => match v with VF x => VM [(k, x)] | _ => VErr end
    | GId ks => match v with VM m => VM (restrict ks m) | _ => VErr end
    | GSum a b =>
        match eval a v, eval b v with
        | VF x, VF y => VF (fadd x y)
        | VM m1, VM m2 => VM (unite fadd m1 m2)
        | _, _ => VErr end
    | GProd a b =>
        match eval a v, eval b v with
        | VF x, VF y => VF (fmul x y)
        | _, _ => VErr end
    | GComp a b => eval a (eval b v)
    end.
End Sem.
Arguments VF {F}. Arguments VM {F}. Arguments VErr {F}.

(* ---- symbolic execution ---------------------------------------------------------------------------------- *)
Inductive term := TIn (k : key) | TApp (id : N) (t : term) | TAdd (a b : term) | TMul (a b : term).

Definition sval := val term.
Definition sym : g -> sval -> sval := eval term TAdd TMul TApp.

Fixpoint term_eqb (a b : term) : bool :=
  match a, b with
  | TIn k, TIn k' => N.eqb k k'
  | TApp i x, TApp i' x' => N.eqb i i' && term_eqb x x'
  | TAdd x y, TAdd x' y' => term_eqb x x' && term_eqb y y'
  | TMul x y, TMul x' y' => term_eqb x x' && term_eqb y y'
  | _, _ => false
  end.

Fixpoint assoc_eqb (m m' : list (key * term)) : bool :=
  match m, m' with
  | [], [] => true
  | (k, t) :: r, (k', t') :: r' => N.eqb k k' && term_eqb t t' && assoc_eqb r r'
  | _, _ => false
  end.

Definition sval_eqb (a b : sval) : bool :=
  match a, b with
  | VF x, VF y => term_eqb x y
  | VM m, VM m' => assoc_eqb m m'
  | _, _ => false           (* an error on either side is never accepted *)
  end.

Definition input0 (ks : list key) : sval := VM (map (fun k => (k, TIn k)) ks).

(* the validator: original graph o, optimised graph p, keys of the common domain *)
Definition equivb (ks : list key) (o p : g) : bool := sval_eqb (sym o (input0 ks)) (sym p (input0 ks)).

(* meaning of terms / symbolic values at a concrete input rho *)
Section Denote.
  Variable F : Type.
  Variables (fadd fmul : F -> F -> F).
  Variable leaf : N -> F -> F.
  Variable rho : key -> F.
  Fixpoint teval (t : term) : F :=
    match t with
    | TIn k => rho k
    | TApp id x => leaf id (teval x)
    | TAdd a b => fadd (teval a) (teval b)
    | TMul a b => fmul (teval a) (teval b)
    end.
  Definition denote (s : sval) : val F :=
    match s with
    | VF t => VF (teval t)
    | VM m => VM (map (fun p => (fst p, teval (snd p))) m)
    | VErr => VErr
    end.
End Denote.

(* chains as exported: [o1; ...; on] = o1 @ ... @ on *)
Fixpoint gchain (l : list g) : g :=
  match l with [] => GId [] | [x] => x | x :: r => GComp x (gchain r) end.
