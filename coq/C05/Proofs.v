(* C05 -- soundness of the validator: symbolic execution commutes with the concrete semantics for
   every field type, every addition/multiplication, every interpretation of the opaque leaves and every
   input; syntactic equality of the symbolic results therefore implies equal values (and, over dual
   numbers, equal tangents). *)
From Coq Require Import List Arith Bool NArith.
Import ListNotations.
Require Import NV.C05.Model.

Section Sound.
  Variable F : Type.
  Variables (fadd fmul : F -> F -> F).
  Variable leaf : N -> F -> F.
  Variable rho : key -> F.

  Notation teval := (teval F fadd fmul leaf rho).
  Notation denote := (denote F fadd fmul leaf rho).
  Notation eval := (eval F fadd fmul leaf).
  Definition phi (p : key * term) : key * F := (fst p, teval (snd p)).

  Lemma lookup_map k m : lookup k (map phi m) = option_map teval (lookup k m).
  Proof. induction m as [|[k' t] m IH]; simpl; [reflexivity|]. destruct (N.eqb k k'); [reflexivity | exact IH]. Qed.

  Lemma restrict_map ks m : restrict ks (map phi m) = map phi (restrict ks m).
  Proof.
    unfold restrict. induction m as [|[k' t] m IH]; simpl; [reflexivity|].
    destruct (existsb (N.eqb k') ks); simpl; now rewrite IH.
  Qed.

  Lemma insert_add_map k t m : map phi (insert_add TAdd k t m) = insert_add fadd k (teval t) (map phi m).
  Proof.
    induction m as [|[k' t'] m IH]; simpl; [reflexivity|].
    destruct (N.eqb k k'); simpl; [reflexivity | now rewrite IH].
  Qed.

  Lemma unite_map m2 : forall m1, map phi (unite TAdd m1 m2) = unite fadd (map phi m1) (map phi m2).
  Proof.
    induction m2 as [|[k t] m2 IH]; simpl; intros m1; [reflexivity|].
    rewrite IH. now rewrite insert_add_map.
  Qed.

  (* symbolic execution is sound (errors included: both sides fail together) *)
  Lemma sym_sound t : forall sv, denote (sym t sv) = eval t (denote sv).
  Proof.
    unfold sym. induction t; intros sv; cbn [Model.eval].
    - destruct sv; reflexivity.
    - destruct sv; cbn [Model.denote]; try reflexivity. fold phi. rewrite lookup_map. destruct (lookup k m); reflexivity.
    - destruct sv; reflexivity.
    - destruct sv; cbn [Model.denote]; try reflexivity. fold phi. now rewrite restrict_map.
    - pose proof (IHt1 sv) as H1. pose proof (IHt2 sv) as H2.
      destruct (Model.eval term TAdd TMul TApp t1 sv); destruct (Model.eval term TAdd TMul TApp t2 sv);
        cbn [Model.denote] in *; rewrite <- H1; try rewrite <- H2; try reflexivity.
      fold phi. now rewrite unite_map.
    - pose proof (IHt1 sv) as H1. pose proof (IHt2 sv) as H2.
      destruct (Model.eval term TAdd TMul TApp t1 sv); destruct (Model.eval term TAdd TMul TApp t2 sv);
        cbn [Model.denote] in *; rewrite <- H1; try rewrite <- H2; reflexivity.
    - rewrite <- (IHt2 sv). now rewrite <- IHt1.
  Qed.
End Sound.

Lemma term_eqb_eq a : forall b, term_eqb a b = true -> a = b.
Proof.
  induction a; destruct b; simpl; intros H; try discriminate.
  - apply N.eqb_eq in H. now subst.
  - apply andb_prop in H as [H1 H2]. apply N.eqb_eq in H1. subst. f_equal. now apply IHa.
  - apply andb_prop in H as [H1 H2]. f_equal; [now apply IHa1 | now apply IHa2].
  - apply andb_prop in H as [H1 H2]. f_equal; [now apply IHa1 | now apply IHa2].
Qed.

Lemma assoc_eqb_eq m : forall m', assoc_eqb m m' = true -> m = m'.
Proof.
  induction m as [|[k t] m IH]; destruct m' as [|[k' t'] m']; simpl; intros H; try discriminate; [reflexivity|].
  apply andb_prop in H as [H H3]. apply andb_prop in H as [H1 H2].
  apply N.eqb_eq in H1. apply term_eqb_eq in H2. subst. f_equal. now apply IH.
Qed.

Lemma sval_eqb_eq a b : sval_eqb a b = true -> a = b /\ a <> VErr.
Proof.
  destruct a; destruct b; simpl; intros H; try discriminate.
  - apply term_eqb_eq in H. subst. split; [reflexivity | discriminate].
  - apply assoc_eqb_eq in H. subst. split; [reflexivity | discriminate].
Qed.

Definition input (F : Type) (rho : key -> F) (ks : list key) : val F := VM (map (fun k => (k, rho k)) ks).

Lemma denote_input F fadd fmul leaf rho ks : denote F fadd fmul leaf rho (input0 ks) = input F rho ks.
Proof. unfold input0, input. simpl. rewrite map_map. reflexivity. Qed.

Lemma denote_noerr F fadd fmul leaf rho s : s <> VErr -> denote F fadd fmul leaf rho s <> VErr.
Proof. destruct s; simpl; intros H; try discriminate. congruence. Qed.

Theorem validator_sound ks o p : equivb ks o p = true ->
  forall (F : Type) (fadd fmul : F -> F -> F) (leaf : N -> F -> F) (rho : key -> F),
    eval F fadd fmul leaf o (input F rho ks) = eval F fadd fmul leaf p (input F rho ks)
    /\ eval F fadd fmul leaf o (input F rho ks) <> VErr.
Proof.
  intros H F fadd fmul leaf rho. unfold equivb in H. apply sval_eqb_eq in H as [E NE].
  rewrite <- !(denote_input F fadd fmul leaf rho ks), <- !sym_sound. rewrite E. split; [reflexivity|].
  rewrite <- E. now apply denote_noerr.
Qed.

(* dual numbers: values and tangents (any leaf f with any claimed derivative f') *)
Section Dual.
  Variable F : Type.
  Variables (add mul : F -> F -> F).
  Variables (f f' : N -> F -> F).
  Definition dadd (x y : F * F) : F * F := (add (fst x) (fst y), add (snd x) (snd y)).
  Definition dmul (x y : F * F) : F * F := (mul (fst x) (fst y), add (mul (fst x) (snd y)) (mul (snd x) (fst y))).
  Definition dleaf (id : N) (x : F * F) : F * F := (f id (fst x), mul (f' id (fst x)) (snd x)).
End Dual.

Corollary validator_sound_dual ks o p : equivb ks o p = true ->
  forall (F : Type) (add mul : F -> F -> F) (f f' : N -> F -> F) (rho : key -> F * F),
    eval (F * F) (dadd F add) (dmul F add mul) (dleaf F mul f f') o (input (F * F) rho ks)
    = eval (F * F) (dadd F add) (dmul F add mul) (dleaf F mul f f') p (input (F * F) rho ks).
Proof. intros H F add mul f f' rho. apply (validator_sound ks o p H). Qed.

(* the validator accepts every graph against itself unless its symbolic execution fails (ill-typed graph) *)
Lemma term_eqb_refl a : term_eqb a a = true.
Proof. induction a; simpl; rewrite ?N.eqb_refl, ?IHa, ?IHa1, ?IHa2; reflexivity. Qed.
Lemma assoc_eqb_refl m : assoc_eqb m m = true.
Proof. induction m as [|[k t] m IH]; simpl; [reflexivity|]. now rewrite N.eqb_refl, term_eqb_refl, IH. Qed.
Lemma validator_refl ks o : sym o (input0 ks) <> VErr -> equivb ks o o = true.
Proof.
  unfold equivb. destruct (sym o (input0 ks)); simpl; intros H.
  - apply term_eqb_refl.
  - apply assoc_eqb_refl.
  - congruence.
Qed.

(* a definition plugged in by partial_insert is inlined:  body @ (FieldAdapter(k).adjoint @ def + identity(ks))
   evaluates body on the input extended by k := def(input) *)
Definition ex_orig : g :=      (* (s*s) + s   with the SAME object s = f7(a) + f8(b) used three times *)
  let s := GSum (GComp (GLeaf 7%N) (GVar 1%N)) (GComp (GLeaf 8%N) (GVar 2%N)) in GSum (GProd s s) s.
Definition ex_opt : g :=       (* ((A*A) + A) @ (FieldAdapter(A).adjoint @ s) *)
  let s := GSum (GComp (GLeaf 7%N) (GVar 1%N)) (GComp (GLeaf 8%N) (GVar 2%N)) in
  GComp (GSum (GProd (GVar 100%N) (GVar 100%N)) (GVar 100%N)) (GComp (GBind 100%N) s).
Definition ex_bad : g :=       (* the definition lost one summand *)
  GComp (GSum (GProd (GVar 100%N) (GVar 100%N)) (GVar 100%N)) (GComp (GBind 100%N) (GComp (GLeaf 7%N) (GVar 1%N))).
Lemma examples : equivb [1%N; 2%N] ex_orig ex_opt = true /\ equivb [1%N; 2%N] ex_orig ex_bad = false.
Proof. split; vm_compute; reflexivity. Qed.
