(* C05 -- property theorems only.  Each is closed by [exact] of a lemma from Proofs.v. *)
From Coq Require Import List Arith Bool NArith.
Import ListNotations.
Require Import NV.C05.Model NV.C05.Proofs.

(* Soundness of the validator, for EVERY pair of operator graphs (any size), every field type with any
   addition and multiplication (no algebraic law is used), every interpretation of the opaque leaf
   operators and every input: if the validator accepts (original, optimised) then both denote the same
   value, and that value is not the ill-typed error. *)
Theorem C05_validator_sound :
  forall (ks : list key) (o p : g), equivb ks o p = true ->
  forall (F : Type) (fadd fmul : F -> F -> F) (leaf : N -> F -> F) (rho : key -> F),
    eval F fadd fmul leaf o (input F rho ks) = eval F fadd fmul leaf p (input F rho ks)
    /\ eval F fadd fmul leaf o (input F rho ks) <> VErr.
Proof. exact validator_sound. Qed.

(* ... in particular over dual numbers: values AND tangents (Jacobian applied to any direction) agree, for
   leaves f with any derivative f'. *)
Theorem C05_validator_sound_dual :
  forall (ks : list key) (o p : g), equivb ks o p = true ->
  forall (F : Type) (add mul : F -> F -> F) (f f' : N -> F -> F) (rho : key -> F * F),
    eval (F * F) (dadd F add) (dmul F add mul) (dleaf F mul f f') o (input (F * F) rho ks)
    = eval (F * F) (dadd F add) (dmul F add mul) (dleaf F mul f f') p (input (F * F) rho ks).
Proof. exact validator_sound_dual. Qed.

(* The symbolic executor the validator is made of commutes with the concrete semantics (errors included). *)
Theorem C05_symbolic_execution_sound :
  forall (F : Type) (fadd fmul : F -> F -> F) (leaf : N -> F -> F) (rho : key -> F) (t : g) (sv : sval),
    denote F fadd fmul leaf rho (sym t sv) = eval F fadd fmul leaf t (denote F fadd fmul leaf rho sv).
Proof. exact sym_sound. Qed.

(* An optimiser that returns its input is never rejected (for well-typed graphs). *)
Theorem C05_validator_reflexive :
  forall (ks : list key) (o : g), sym o (input0 ks) <> VErr -> equivb ks o o = true.
Proof. exact validator_refl. Qed.

(* Non-vacuity: a shared definition plugged in by partial_insert is accepted, a damaged one is rejected. *)
Example C05_examples : equivb [1%N; 2%N] ex_orig ex_opt = true /\ equivb [1%N; 2%N] ex_orig ex_bad = false.
Proof. exact examples. Qed.
