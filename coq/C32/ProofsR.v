(* C32 -- proofs over the reals (Coquelicot):
   (1) the Jacobian determinant of the translated leapfrog step in one dimension is 1, for an
       arbitrary differentiable gradient function;
   (2) the accept rule of generate_hmc_acc_rej (with exp) satisfies detailed balance on a finite
       state space for every involution, including infinite and NaN energies;
   (3) the logarithmic form of the accept decision used by the correspondence is equivalent. *)
From Coq Require Import Reals Lra ZArith List Bool.
From Coquelicot Require Import Coquelicot.
Require Import NV.C32.Model NV.C32.Gen_Leapfrog.
Import ListNotations.
Local Open Scope R_scope.

Definition Rltb (a b : R) : bool := if Rlt_dec a b then true else false.
Definition ROps : Ops R := mkOps R 0 1 Rplus Rminus Rmult Rdiv Ropp IZR Rltb.

(* ---------------------------------------------------------------------------------------- *)
Section Vol1.
  (* gradient of the potential and its derivative: arbitrary *)
  Variables (dV ddV : R -> R).
  Hypothesis dV_derive : forall x, is_derive dV x (ddV x).
  Variables (eps m : R).      (* step size, inverse mass *)
  Definition gV : vec R -> vec R := fun v _ => dV (v 0%nat).
  Definition step (q p : R) : QP R :=
    leapfrog_step ROps gV (kinetic_energy_gradient ROps) eps (fun _ => m)
                  (mkQP (fun _ => q) (fun _ => p)).
  Definition Fq q p := position (step q p) 0%nat.
  Definition Fp q p := momentum (step q p) 0%nat.

  Definition hh := eps / 2.
  Definition J11 (q p : R) := 1 - eps * (m * (hh * ddV q)).
  Definition J12 (q p : R) := eps * m.
  Definition J21 (q p : R) := - (hh * ddV q) - hh * (ddV (Fq q p) * J11 q p).
  Definition J22 (q p : R) := 1 - hh * (ddV (Fq q p) * J12 q p).

  Lemma DdV x : Derive (fun x : R => dV x) x = ddV x.
  Proof. apply is_derive_unique, dV_derive. Qed.
  Lemma exdV x : ex_derive (fun x : R => dV x) x.
  Proof. exists (ddV x). apply dV_derive. Qed.

  Lemma Fq_eq q p : Fq q p = q + eps * (m * (p - eps / 2 * dV q)).
  Proof. reflexivity. Qed.

  Lemma d11 q p : is_derive (fun q => Fq q p) q (J11 q p).
  Proof.
    unfold Fq, step, leapfrog_step, kinetic_energy_gradient, gV, vadd, vsub, vscale, vmul; cbn.
    auto_derive; [apply exdV|]. rewrite DdV. unfold J11, hh. ring.
  Qed.
  Lemma d12 q p : is_derive (fun p => Fq q p) p (J12 q p).
  Proof.
    unfold Fq, step, leapfrog_step, kinetic_energy_gradient, gV, vadd, vsub, vscale, vmul; cbn.
    auto_derive; [exact I|]. unfold J12. ring.
  Qed.
  Lemma d21 q p : is_derive (fun q => Fp q p) q (J21 q p).
  Proof.
    unfold J21, J11. rewrite Fq_eq.
    unfold Fp, step, leapfrog_step, kinetic_energy_gradient, gV, vadd, vsub, vscale, vmul; cbn.
    auto_derive; [repeat split; apply exdV|]. rewrite !DdV. unfold hh.
    replace (q + eps * (m * (p + - (eps / 2 * dV q)))) with (q + eps * (m * (p - eps / 2 * dV q))) by ring. ring.
  Qed.
  Lemma d22 q p : is_derive (fun p => Fp q p) p (J22 q p).
  Proof.
    unfold J22, J12. rewrite Fq_eq.
    unfold Fp, step, leapfrog_step, kinetic_energy_gradient, gV, vadd, vsub, vscale, vmul; cbn.
    auto_derive; [repeat split; apply exdV|]. rewrite !DdV. unfold hh.
    replace (q + eps * (m * (p + - (eps / 2 * dV q)))) with (q + eps * (m * (p - eps / 2 * dV q))) by ring. ring.
  Qed.

  Lemma det_one q p : J11 q p * J22 q p - J12 q p * J21 q p = 1.
  Proof. unfold J22, J21, J12, J11. ring. Qed.
End Vol1.

(* ---------------------------------------------------------------------------------------- *)
(* transition_probability = jnp.minimum(1.0, jnp.exp(energy_diff)) *)
Definition prob (d : ext R) : R :=
  match d with Fin e => Rmin 1 (exp e) | PInf => 1 | NInf => 0 | NaN => 0 end.

Lemma accept_log_form u d :
  0 < u < 1 -> (accept_log ROps (ln u) d = true <-> u < prob d).
Proof.
  intros [U0 U1]. destruct d as [e| | |]; cbn.
  - unfold Rltb. destruct (Rlt_dec e 0) as [Hn|Hn]; cbn.
    + rewrite Rmin_right by (left; rewrite <- exp_0; apply exp_increasing; exact Hn).
      destruct (Rlt_dec (ln u) e) as [Hl|Hl]; split; intro A; try reflexivity; try discriminate.
      * rewrite <- (exp_ln u U0). apply exp_increasing. exact Hl.
      * exfalso. apply Hl. rewrite <- (ln_exp e). apply ln_increasing; assumption.
    + rewrite Rmin_left; [tauto|]. rewrite <- exp_0. apply Rnot_lt_le in Hn.
      destruct Hn as [Hn|Hn]; [left; apply exp_increasing; exact Hn | right; rewrite Hn; reflexivity].
  - tauto.
  - split; [discriminate | lra].
  - split; [discriminate | lra].
Qed.

Section DetailedBalance.
  Variable X : Type.
  Variable eqb : X -> X -> bool.
  Hypothesis eqb_spec : forall x y, reflect (x = y) (eqb x y).
  (* the proposal: flip o leapfrog^n, an involution by C32_reversible_n *)
  Variable Psi : X -> X.
  Hypothesis Psi_invol : forall x, Psi (Psi x) = x.
  (* total_energy of every state, as a float: finite, +inf or NaN *)
  Variable H : X -> ext R.
  Hypothesis H_not_neginf : forall x, H x <> NInf.

  Section Rule.
    Variable rule : ext R -> ext R.      (* what is done with a NaN energy difference *)
    Definition acc (x : X) : R := prob (rule (ext_sub ROps (H x) (H (Psi x)))).
    (* accepted_qp = proposed_qp with probability acc, initial_qp otherwise *)
    Definition K (x y : X) : R :=
      (if eqb y (Psi x) then acc x else 0) + (if eqb y x then 1 - acc x else 0).
  End Rule.

  (* unnormalised target density exp(-H); energies +inf and NaN carry no mass *)
  Definition pi (x : X) : R := match H x with Fin e => exp (- e) | _ => 0 end.

  Lemma pair_balance x : pi x * acc (nan_rule (T:=R)) x = pi (Psi x) * acc (nan_rule (T:=R)) (Psi x).
  Proof.
    unfold acc, pi. rewrite Psi_invol.
    generalize (H_not_neginf x) (H_not_neginf (Psi x)).
    destruct (H x) as [a| | |], (H (Psi x)) as [b| | |]; cbn; intros; try congruence; try ring.
    destruct (Rle_dec a b) as [Hab|Hab].
    - rewrite (Rmin_right 1 (exp (a - b))), (Rmin_left 1 (exp (b - a))).
      + rewrite Rmult_1_r, <- exp_plus. f_equal. ring.
      + rewrite <- exp_0. destruct Hab; [left; apply exp_increasing; lra | right; f_equal; lra].
      + rewrite <- exp_0. destruct Hab; [left; apply exp_increasing; lra | right; f_equal; lra].
    - apply Rnot_le_lt in Hab.
      rewrite (Rmin_left 1 (exp (a - b))), (Rmin_right 1 (exp (b - a))).
      + rewrite Rmult_1_r, <- exp_plus. f_equal. ring.
      + rewrite <- exp_0. left; apply exp_increasing; lra.
      + rewrite <- exp_0. left; apply exp_increasing; lra.
  Qed.

  Theorem detailed_balance x y :
    pi x * K (nan_rule (T:=R)) x y = pi y * K (nan_rule (T:=R)) y x.
  Proof.
    unfold K.
    destruct (eqb_spec y x) as [->|Nyx].
    { destruct (eqb_spec x x); [|congruence]. reflexivity. }
    destruct (eqb_spec x y) as [->|_]; [congruence|].
    destruct (eqb_spec y (Psi x)) as [->|NyP].
    - rewrite Psi_invol. destruct (eqb_spec x x); [|congruence].
      rewrite !Rplus_0_r. apply pair_balance.
    - destruct (eqb_spec x (Psi y)) as [E|_].
      + exfalso. apply NyP. rewrite E, Psi_invol. reflexivity.
      + ring.
  Qed.

  (* invariance: summing over a duplicate-free enumeration of the state space *)
  Fixpoint rsum (xs : list X) (f : X -> R) : R :=
    match xs with [] => 0 | x :: r => f x + rsum r f end.

  Lemma rsum_ext xs f g : (forall x, f x = g x) -> rsum xs f = rsum xs g.
  Proof. intro E; induction xs; cbn; [reflexivity | rewrite E, IHxs; reflexivity]. Qed.
  Lemma rsum_scal xs c f : rsum xs (fun x => c * f x) = c * rsum xs f.
  Proof. induction xs; cbn; [ring | rewrite IHxs; ring]. Qed.
  Lemma rsum_plus xs f g : rsum xs (fun x => f x + g x) = rsum xs f + rsum xs g.
  Proof. induction xs; cbn; [ring | rewrite IHxs; ring]. Qed.
  Lemma rsum_indicator xs a c :
    NoDup xs -> In a xs -> rsum xs (fun x => if eqb x a then c else 0) = c.
  Proof.
    induction 1 as [|x r Hx ND IH]; cbn; [tauto|].
    assert (Z : ~ In a r -> rsum r (fun x => if eqb x a then c else 0) = 0).
    { clear - eqb_spec. induction r; cbn; intro N; [reflexivity|].
      destruct (eqb_spec a0 a); [exfalso; apply N; left; assumption|].
      rewrite IHr; [ring | tauto]. }
    intros [->|Hin].
    - destruct (eqb_spec a a); [|congruence]. rewrite Z by assumption. ring.
    - destruct (eqb_spec x a) as [->|_]; [contradiction|]. rewrite IH by assumption. ring.
  Qed.

  Theorem invariance xs y :
    NoDup xs -> (forall x, In x xs) ->
    rsum xs (fun x => pi x * K (nan_rule (T:=R)) x y) = pi y.
  Proof.
    intros ND All.
    rewrite (rsum_ext _ _ (fun x => pi y * K (nan_rule (T:=R)) y x)) by (intro; apply detailed_balance).
    rewrite rsum_scal. unfold K. rewrite rsum_plus, !rsum_indicator by auto. ring.
  Qed.
End DetailedBalance.

(* The rule of the pinned tree (NaN -> +inf, i.e. accept with probability 1) is refuted: two
   states, the proposal of the good one has a NaN energy. *)
Definition Hbad (b : bool) : ext R := if b then Fin 0 else NaN.
Lemma pinned_rule_refuted :
  exists (x y : bool),
    pi bool Hbad x * K bool Bool.eqb negb Hbad (nan_rule_pinned (T:=R)) x y
    <> pi bool Hbad y * K bool Bool.eqb negb Hbad (nan_rule_pinned (T:=R)) y x.
Proof.
  exists true, false. unfold pi, K, acc, Hbad; cbn. rewrite Ropp_0, exp_0. lra.
Qed.
