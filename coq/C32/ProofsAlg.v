(* C32 -- (1) forward-mode (dual number) evaluation of the TRANSLATED leapfrog step: its tangent
   map is kick o drift o kick for arbitrary Hessian actions, any dimension, any commutative ring;
   (2) progressive sampling of add_single_qp_to_tree is multinomial sampling. *)
From Coq Require Import ZArith QArith Qminmax List Bool Ring Ring_theory Field Lia.
Import ListNotations.
Require Import NV.C32.Model NV.C32.Gen_Leapfrog NV.C32.Proofs.

Section Dual.
  Variable T : Type.
  Variables (r0 r1 : T) (radd rmul rsub : T -> T -> T) (ropp : T -> T).
  Hypothesis RT : ring_theory r0 r1 radd rmul rsub ropp (@eq T).
  Variables (rdiv : T -> T -> T) (rZ : Z -> T) (rltb : T -> T -> bool).
  Add Ring TRing2 : RT.
  Let O := RO T r0 r1 radd rmul rsub ropp rdiv rZ rltb.

  (* dual numbers a + a' d, d^2 = 0.  Division and literals only occur on constants (step_size / 2.0),
     whose tangent part is 0. *)
  Definition D := (T * T)%type.
  Definition DO : Ops D :=
    mkOps D (r0, r0) (r1, r0)
      (fun a b => (radd (fst a) (fst b), radd (snd a) (snd b)))
      (fun a b => (rsub (fst a) (fst b), rsub (snd a) (snd b)))
      (fun a b => (rmul (fst a) (fst b), radd (rmul (fst a) (snd b)) (rmul (snd a) (fst b))))
      (fun a b => (rdiv (fst a) (fst b), r0))
      (fun a => (ropp (fst a), ropp (snd a)))
      (fun z => (rZ z, r0))
      (fun a b => rltb (fst a) (fst b)).
  Definition const (c : T) : D := (c, r0).
  Definition dual (a da : vec T) : vec D := fun i => (a i, da i).
  Definition primal (w : vec D) : vec T := fun i => fst (w i).
  Definition tangent (w : vec D) : vec T := fun i => snd (w i).

  (* gradient of the potential and the action of its derivative (Hessian at q applied to v):
     both arbitrary *)
  Variable gradV : vec T -> vec T.
  Variable hessV : vec T -> vec T -> vec T.
  Definition gradV_D (w : vec D) : vec D :=
    fun i => (gradV (primal w) i, hessV (primal w) (tangent w) i).

  Variables (eps : T) (imm : vec T).
  Variables (q p dq dp : vec T).

  Definition zD : QP D :=
    leapfrog_step DO gradV_D (kinetic_energy_gradient DO) (const eps) (fun i => const (imm i))
                  (mkQP (dual q dq) (dual p dp)).
  Definition z1 : QP T :=
    leapfrog_step O gradV (kinetic_energy_gradient O) eps imm (mkQP q p).

  (* the three shears, as maps on (dq, dp) *)
  Definition hT := rdiv eps (rZ 2).
  Definition kick1 : vec T := fun i => rsub (dp i) (rmul hT (hessV q dq i)).
  Definition drift2 : vec T := fun i => radd (dq i) (rmul eps (rmul (imm i) (kick1 i))).
  (* last kick: Hessian action at the end position, applied to the position tangent (= drift2, below) *)
  Definition kick3 : vec T :=
    fun i => rsub (kick1 i) (rmul hT (hessV (primal (position zD)) (tangent (position zD)) i)).

  Lemma primal_part :
    (forall i, primal (position zD) i = position z1 i) /\ (forall i, primal (momentum zD) i = momentum z1 i).
  Proof. split; intro i; reflexivity. Qed.

  (* no extensionality needed: the tangent of the position is, entry by entry, the drift applied
     to the first kick; the Hessian action in the last kick is evaluated at the primal end position *)
  Lemma tangent_position i : tangent (position zD) i = drift2 i.
  Proof.
    unfold tangent, zD, leapfrog_step, kinetic_energy_gradient, drift2, kick1, hT.
    cbn -[gradV_D]. unfold gradV_D, primal, tangent, dual; cbn.
    change (fun i0 : nat => q i0) with q. change (fun i0 : nat => dq i0) with dq. ring.
  Qed.
  Lemma tangent_momentum i : tangent (momentum zD) i = kick3 i.
  Proof.
    unfold kick3, kick1, hT.
    change (tangent (momentum zD) i) with
      (rsub (rsub (dp i) (radd (rmul (rdiv eps (rZ 2)) (hessV (primal (dual q dq)) (tangent (dual q dq)) i))
                               (rmul r0 (gradV (primal (dual q dq)) i))))
            (radd (rmul (rdiv eps (rZ 2)) (hessV (primal (position zD)) (tangent (position zD)) i))
                  (rmul r0 (gradV (primal (position zD)) i)))).
    change (primal (dual q dq)) with q. change (tangent (dual q dq)) with dq.
    ring.
  Qed.
End Dual.

(* ---------------------------------------------------------------------------------------- *)
(* progressive sampling *)
Local Open Scope Q_scope.

Fixpoint qsum (l : list Q) : Q := match l with [] => 0 | x :: r => x + qsum r end.

Lemma qsum_app a b : qsum (a ++ b) == qsum a + qsum b.
Proof. induction a; cbn; [ring | rewrite IHa; ring]. Qed.

Definition inv_ok (st : Q * list Q) (ws : list Q) : Prop :=
  fst st == qsum ws /\ 0 < fst st /\ Forall2 (fun p w => p == w / fst st) (snd st) ws.

Lemma add_point_inv st ws w : 0 < w -> inv_ok st ws -> inv_ok (add_point st w) (ws ++ [w]).
Proof.
  destruct st as [W ps]. unfold inv_ok; cbn [fst snd add_point]. intros Hw [HW [Hpos HF]].
  assert (Hne : ~ W == 0) by (intro E; rewrite E in Hpos; apply (Qlt_irrefl 0); exact Hpos).
  assert (Hpos' : 0 < W + w) by (rewrite <- (Qplus_0_l 0); apply Qplus_lt_le_compat; [assumption | apply Qlt_le_weak; assumption]).
  assert (Hne' : ~ W + w == 0) by (intro E; rewrite E in Hpos'; apply (Qlt_irrefl 0); exact Hpos').
  split; [rewrite qsum_app, HW; cbn; ring|]. split; [exact Hpos'|].
  apply Forall2_app.
  - clear HW. induction HF as [|p0 w0 ps0 ws0 E F IH]; cbn; constructor; auto.
    rewrite E. field. split; assumption.
  - constructor; [|constructor]. field. exact Hne'.
Qed.

Lemma progressive_inv ws : forall st done,
  Forall (fun w => 0 < w) ws -> inv_ok st done -> inv_ok (fold_left add_point ws st) (done ++ ws).
Proof.
  induction ws as [|w r IH]; intros st done HF Hinv; cbn.
  - rewrite app_nil_r. exact Hinv.
  - inversion HF; subst. replace (done ++ w :: r) with ((done ++ [w]) ++ r) by (rewrite <- app_assoc; reflexivity).
    apply IH; [assumption|]. apply add_point_inv; assumption.
Qed.

(* after any sequence of additions: total weight = sum of the weights, and every visited point
   (the start point and every added one) is the candidate with probability w_i / total *)
Lemma progressive_multinomial w0 ws :
  0 < w0 -> Forall (fun w => 0 < w) ws ->
  let '(W, ps) := progressive w0 ws in
  W == qsum (w0 :: ws) /\ Forall2 (fun p w => p == w / W) ps (w0 :: ws).
Proof.
  intros H0 HF. unfold progressive.
  assert (I0 : inv_ok (w0, [1]) [w0]).
  { unfold inv_ok; cbn. split; [ring|]. split; [assumption|]. constructor; [|constructor].
    field. intro E; rewrite E in H0; apply (Qlt_irrefl 0); exact H0. }
  assert (P := progressive_inv ws (w0, [1]) [w0] HF I0).
  destruct (fold_left add_point ws (w0, [1])) as [W ps]. destruct P as [A [_ B]]. cbn in *. split; assumption.
Qed.

(* merge_trees, unbiased: candidate of the merged tree is again weighted by the tree weights;
   biased: the new tree's candidate is taken with min(1, Wnew/Wcur) *)
Lemma merge_unbiased Wc Wn pc pn wc wn :
  0 < Wc -> 0 < Wn -> pc == wc / Wc -> pn == wn / Wn ->
  pc * (1 - merge_prob false Wc Wn) == wc / (Wc + Wn) /\ pn * merge_prob false Wc Wn == wn / (Wc + Wn).
Proof.
  intros Hc Hn Ec En. unfold merge_prob.
  assert (~ Wc == 0) by (intro E; rewrite E in Hc; apply (Qlt_irrefl 0); exact Hc).
  assert (~ Wn == 0) by (intro E; rewrite E in Hn; apply (Qlt_irrefl 0); exact Hn).
  assert (Hs : 0 < Wc + Wn) by (rewrite <- (Qplus_0_l 0); apply Qplus_lt_le_compat; [assumption | apply Qlt_le_weak; assumption]).
  assert (~ Wc + Wn == 0) by (intro E; rewrite E in Hs; apply (Qlt_irrefl 0); exact Hs).
  rewrite Ec, En. split; field; auto.
Qed.

(* ---- momentum variance vs. kinetic energy ---- *)
Lemma mass_consistent_variance s im : 0 < im -> mass_consistent s im -> s * s == / im.
Proof.
  unfold mass_consistent. intros Hp H.
  assert (Hne : ~ im == 0) by (intro E; rewrite E in Hp; apply (Qlt_irrefl 0); exact Hp).
  setoid_replace (/ im) with ((s * s * im) * / im) by (rewrite H; ring).
  field. exact Hne.
Qed.
Lemma mass_consistent_equipartition s im : mass_consistent s im -> expected_kinetic s im == 1 # 2.
Proof.
  unfold mass_consistent, expected_kinetic. intro H.
  setoid_replace (im * (s * s)) with (s * s * im) by ring. rewrite H. reflexivity.
Qed.
(* drawing with the square root of the INVERSE mass (s*s = im) is consistent only for unit mass *)
Lemma inverse_sqrt_inconsistent s im : s * s == im -> mass_consistent s im -> im * im == 1.
Proof. unfold mass_consistent. intros E H. rewrite E in H. exact H. Qed.
