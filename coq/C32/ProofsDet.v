(* C32 -- volume preservation in any dimension: the tangent map of one leapfrog step is a product
   of three shear maps (ProofsAlg.v, tangent_is_three_shears); every such product has determinant 1
   (here, MathComp block determinants, any commutative ring, any dimension). *)
From mathcomp Require Import all_ssreflect all_algebra.
Set Implicit Arguments.
Unset Strict Implicit.
Unset Printing Implicit Defensive.
Import GRing.Theory.
Local Open Scope ring_scope.

Section Shear.
  Variables (R : comRingType) (n : nat).
  (* (dq, dp) |-> (dq, dp + C dq): momentum kick with C = -(eps/2) * Hessian *)
  Definition kick (C : 'M[R]_n) : 'M[R]_(n + n) := block_mx 1%:M 0 C 1%:M.
  (* (dq, dp) |-> (dq + D dp, dp): drift with D = eps * inverse mass matrix (need not be diagonal) *)
  Definition drift (D : 'M[R]_n) : 'M[R]_(n + n) := block_mx 1%:M D 0 1%:M.

  Lemma det_kick C : \det (kick C) = 1.
  Proof. by rewrite /kick det_lblock !det1 mulr1. Qed.
  Lemma det_drift D : \det (drift D) = 1.
  Proof. by rewrite /drift det_ublock !det1 mulr1. Qed.

  (* Jacobian of one step = kick(H2) * drift(M) * kick(H1) for arbitrary H1, H2, M *)
  Lemma det_leapfrog_jacobian (H1 H2 M : 'M[R]_n) :
    \det (kick H2 *m drift M *m kick H1) = 1.
  Proof. by rewrite !det_mulmx !det_kick det_drift !mulr1. Qed.

  (* and of any number of steps with arbitrary (position dependent) Hessians *)
  Lemma det_leapfrog_jacobian_n (steps : seq ('M[R]_n * 'M[R]_n * 'M[R]_n)) :
    \det (foldr (fun s J => kick s.1.2 *m drift s.2 *m kick s.1.1 *m J) 1%:M steps) = 1.
  Proof.
    elim: steps => [|s r IH] /=; first by rewrite det1.
    by rewrite det_mulmx det_leapfrog_jacobian IH mulr1.
  Qed.
End Shear.

(* statement packaged for Props.v (which does not import MathComp's notations) *)
Definition shear_product_det_statement : Prop :=
  forall (R : comRingType) (n : nat) (H1 H2 M : 'M[R]_n),
    \det (block_mx 1%:M 0 H2 1%:M *m block_mx 1%:M M 0 1%:M *m block_mx 1%:M 0 H1 1%:M
          : 'M[R]_(n + n)) = 1.
Lemma shear_product_det : shear_product_det_statement.
Proof. move=> R n H1 H2 M. exact: det_leapfrog_jacobian. Qed.

Definition shear_product_det_n_statement : Prop :=
  forall (R : comRingType) (n : nat) (steps : seq ('M[R]_n * 'M[R]_n * 'M[R]_n)),
    \det (foldr (fun s J => block_mx 1%:M 0 s.1.2 1%:M *m block_mx 1%:M s.2 0 1%:M
                            *m block_mx 1%:M 0 s.1.1 1%:M *m J) (1%:M : 'M[R]_(n + n)) steps) = 1.
Lemma shear_product_det_n : shear_product_det_n_statement.
Proof. move=> R n steps. exact: det_leapfrog_jacobian_n. Qed.
