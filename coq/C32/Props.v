(* C32 -- property theorems only.  Each is closed by [exact] of a lemma from Proofs*.v. *)
From Coq Require Import ZArith NArith QArith Reals List Bool Ring_theory.
Import ListNotations.
Require Import NV.C32.Model NV.C32.Gen_Leapfrog NV.C32.Proofs NV.C32.ProofsAlg NV.C32.ProofsBits
               NV.C32.ProofsR.
Require NV.C32.ProofsDet.
From Coquelicot Require Import Coquelicot.

(* ------------------------------------------------------------------------------------------
   (1) Time reversibility of the TRANSLATED leapfrog_step (Gen_Leapfrog.v, regenerated from
   nifty/re/hmc.py on every run).  Any commutative ring (no law for the division in
   `step_size / 2.0`, for the literal and for comparisons), any dimension (arrays = index
   functions, statements entry by entry), ARBITRARY gradient functions of potential and kinetic
   energy (only: they are functions of the entries, and the kinetic one is odd in the momentum),
   any number of steps:   flip (L^n (flip (L^n z))) = z.                                        *)
Theorem C32_reversible :
  forall (T : Type) (r0 r1 : T) (radd rmul rsub : T -> T -> T) (ropp : T -> T),
    ring_theory r0 r1 radd rmul rsub ropp eq ->
    forall (rdiv : T -> T -> T) (rZ : Z -> T) (rltb : T -> T -> bool),
    let O := RO T r0 r1 radd rmul rsub ropp rdiv rZ rltb in
    forall (gradV : vec T -> vec T),
      (forall a b, veq T a b -> veq T (gradV a) (gradV b)) ->
    forall (gradK : vec T -> vec T -> vec T),
      (forall m a b, veq T a b -> veq T (gradK m a) (gradK m b)) ->
      (forall m a, veq T (gradK m (vneg O a)) (vneg O (gradK m a))) ->
    forall (eps : T) (imm : vec T) (n : nat) (z : QP T),
      let Ln := fori n (leapfrog_step O gradV gradK eps imm) in
      qpeq T (flip_momentum O (Ln (flip_momentum O (Ln z)))) z.
Proof. exact reversible_n. Qed.

(* the stepper assembled in hmc_oo.py (diagonal mass matrix: kinetic_energy_gradient = inv_m * mom,
   translated) meets the hypotheses on the kinetic gradient *)
Theorem C32_reversible_diagonal_mass :
  forall (T : Type) (r0 r1 : T) (radd rmul rsub : T -> T -> T) (ropp : T -> T),
    ring_theory r0 r1 radd rmul rsub ropp eq ->
    forall (rdiv : T -> T -> T) (rZ : Z -> T) (rltb : T -> T -> bool),
    let O := RO T r0 r1 radd rmul rsub ropp rdiv rZ rltb in
    forall (gradV : vec T -> vec T),
      (forall a b, veq T a b -> veq T (gradV a) (gradV b)) ->
    forall (eps : T) (imm : vec T) (n : nat) (z : QP T),
      let Ln := fori n (leapfrog_step O gradV (kinetic_energy_gradient O) eps imm) in
      qpeq T (flip_momentum O (Ln (flip_momentum O (Ln z)))) z.
Proof.
  intros T r0 r1 radd rmul rsub ropp RT rdiv rZ rltb O gradV Hext eps imm n z.
  exact (reversible_n T r0 r1 radd rmul rsub ropp RT rdiv rZ rltb gradV Hext
           (kinetic_energy_gradient O) (diag_gradK_ext T r0 r1 radd rmul rsub ropp rdiv rZ rltb)
           (diag_gradK_odd T r0 r1 radd rmul rsub ropp RT rdiv rZ rltb) eps imm n z).
Qed.

(* the form NUTS uses to walk to the left: n steps with step size -eps undo n steps with eps
   (needs (-a)/b = -(a/b); no oddness of the kinetic gradient) *)
Theorem C32_reversible_negative_step :
  forall (T : Type) (r0 r1 : T) (radd rmul rsub : T -> T -> T) (ropp : T -> T),
    ring_theory r0 r1 radd rmul rsub ropp eq ->
    forall (rdiv : T -> T -> T) (rZ : Z -> T) (rltb : T -> T -> bool),
    let O := RO T r0 r1 radd rmul rsub ropp rdiv rZ rltb in
    forall (gradV : vec T -> vec T),
      (forall a b, veq T a b -> veq T (gradV a) (gradV b)) ->
    forall (gradK : vec T -> vec T -> vec T),
      (forall m a b, veq T a b -> veq T (gradK m a) (gradK m b)) ->
      (forall a b, rdiv (ropp a) b = ropp (rdiv a b)) ->
    forall (eps : T) (imm : vec T) (n : nat) (z : QP T),
      qpeq T (fori n (leapfrog_step O gradV gradK (ropp eps) imm)
                (fori n (leapfrog_step O gradV gradK eps imm) z)) z.
Proof. exact reversible_neg_n. Qed.

(* ------------------------------------------------------------------------------------------
   (2) Volume preservation.
   (a) One dimension, reals, arbitrary differentiable gradient dV (derivative ddV), any step size
   and inverse mass: the four partial derivatives of the translated step are J11..J22 (true
   derivatives, Coquelicot is_derive) and the Jacobian determinant is 1.                        *)
Theorem C32_volume_dim1 :
  forall (dV ddV : R -> R),
    (forall x, Coquelicot.Derive.is_derive dV x (ddV x)) ->
  forall (eps m q p : R),
    Coquelicot.Derive.is_derive (fun q' => Fq dV eps m q' p) q (J11 ddV eps m q p) /\
    Coquelicot.Derive.is_derive (fun p' => Fq dV eps m q p') p (J12 eps m q p) /\
    Coquelicot.Derive.is_derive (fun q' => Fp dV eps m q' p) q (J21 dV ddV eps m q p) /\
    Coquelicot.Derive.is_derive (fun p' => Fp dV eps m q p') p (J22 dV ddV eps m q p) /\
    (J11 ddV eps m q p * J22 dV ddV eps m q p - J12 eps m q p * J21 dV ddV eps m q p = 1)%R.
Proof.
  intros dV ddV D eps m q p.
  exact (conj (d11 dV ddV D eps m q p) (conj (d12 dV eps m q p)
        (conj (d21 dV ddV D eps m q p) (conj (d22 dV ddV D eps m q p) (det_one dV ddV eps m q p))))).
Qed.

(* (b) Any dimension, any commutative ring: evaluating the translated step on dual numbers
   (forward-mode differentiation; gradV's derivative = an ARBITRARY Hessian action hessV) gives
   as tangent map   kick o drift o kick   on (dq, dp):
     dp1 = dp - h * hessV(q) dq ;  dq' = dq + eps * M^-1 dp1 ;  dp' = dp1 - h * hessV(q') dq'
   and the primal part is the ordinary step. *)
Theorem C32_volume_tangent_is_three_shears :
  forall (T : Type) (r0 r1 : T) (radd rmul rsub : T -> T -> T) (ropp : T -> T),
    ring_theory r0 r1 radd rmul rsub ropp eq ->
    forall (rdiv : T -> T -> T) (rZ : Z -> T) (rltb : T -> T -> bool)
           (gradV : vec T -> vec T) (hessV : vec T -> vec T -> vec T)
           (eps : T) (imm q p dq dp : vec T),
    let O := RO T r0 r1 radd rmul rsub ropp rdiv rZ rltb in
    let OD := DO T r0 r1 radd rmul rsub ropp rdiv rZ rltb in
    let zD := leapfrog_step OD (gradV_D T gradV hessV) (kinetic_energy_gradient OD) (const T r0 eps)
                            (fun i => const T r0 (imm i)) (mkQP (dual T q dq) (dual T p dp)) in
    let z1 := leapfrog_step O gradV (kinetic_energy_gradient O) eps imm (mkQP q p) in
    let h := rdiv eps (rZ 2%Z) in
    let dp1 := fun i => rsub (dp i) (rmul h (hessV q dq i)) in
    forall i,
      primal T (position zD) i = position z1 i /\
      primal T (momentum zD) i = momentum z1 i /\
      tangent T (position zD) i = radd (dq i) (rmul eps (rmul (imm i) (dp1 i))) /\
      tangent T (momentum zD) i
        = rsub (dp1 i) (rmul h (hessV (primal T (position zD)) (tangent T (position zD)) i)).
Proof.
  intros T r0 r1 radd rmul rsub ropp RT rdiv rZ rltb gradV hessV eps imm q p dq dp O OD zD z1 h dp1 i.
  split; [reflexivity|]. split; [reflexivity|]. split.
  - exact (tangent_position T r0 r1 radd rmul rsub ropp RT rdiv rZ rltb gradV hessV eps imm q p dq dp i).
  - exact (tangent_momentum T r0 r1 radd rmul rsub ropp RT rdiv rZ rltb gradV hessV eps imm q p dq dp i).
Qed.

(* (c) Any dimension n, any commutative ring, arbitrary n x n matrices H1, H2 (Hessians times -h)
   and M (eps times the inverse mass matrix, not necessarily diagonal):
     det ( [[1,0],[H2,1]] * [[1,M],[0,1]] * [[1,0],[H1,1]] ) = 1,
   and likewise for any sequence of steps.  (Statements: ProofsDet.v, MathComp block matrices.) *)
Theorem C32_volume_shear_product_det1 : NV.C32.ProofsDet.shear_product_det_statement.
Proof. exact NV.C32.ProofsDet.shear_product_det. Qed.
Theorem C32_volume_shear_product_det1_nsteps : NV.C32.ProofsDet.shear_product_det_n_statement.
Proof. exact NV.C32.ProofsDet.shear_product_det_n. Qed.

(* ------------------------------------------------------------------------------------------
   (3) HMC accept/reject as coded (probability min(1, exp(energy_diff)), IEEE subtraction of
   possibly infinite / NaN energies, NaN difference -> -inf) on a finite state space with an
   arbitrary involution Psi as proposal and target density pi = exp(-H) (0 for +inf / NaN):
   detailed balance, hence invariance. *)
Theorem C32_hmc_detailed_balance :
  forall (X : Type) (eqb : X -> X -> bool),
    (forall x y, reflect (x = y) (eqb x y)) ->
  forall Psi : X -> X, (forall x, Psi (Psi x) = x) ->
  forall H : X -> ext R, (forall x, H x <> NInf) ->
  forall x y,
    (pi X H x * K X eqb Psi H (@nan_rule R) x y = pi X H y * K X eqb Psi H (@nan_rule R) y x)%R.
Proof. exact detailed_balance. Qed.

Theorem C32_hmc_invariance :
  forall (X : Type) (eqb : X -> X -> bool),
    (forall x y, reflect (x = y) (eqb x y)) ->
  forall Psi : X -> X, (forall x, Psi (Psi x) = x) ->
  forall H : X -> ext R, (forall x, H x <> NInf) ->
  forall (xs : list X) (y : X), NoDup xs -> (forall x, In x xs) ->
    rsum X xs (fun x => (pi X H x * K X eqb Psi H (@nan_rule R) x y)%R) = pi X H y.
Proof. exact invariance. Qed.

(* the rule of the pinned tree (NaN difference -> +inf: accept with probability 1) violates
   detailed balance; witness: a state whose proposal has a NaN energy (finding C32-F1) *)
Theorem C32_hmc_nan_rule_pinned_refuted :
  exists (x y : bool),
    (pi bool Hbad x * K bool Bool.eqb negb Hbad (@nan_rule_pinned R) x y
     <> pi bool Hbad y * K bool Bool.eqb negb Hbad (@nan_rule_pinned R) y x)%R.
Proof. exact pinned_rule_refuted. Qed.

(* the decision `uniform < min(1, exp d)` in the logarithmic form the correspondence replays *)
Theorem C32_accept_log_form :
  forall (u : R) (d : ext R), (0 < u < 1)%R -> (accept_log ROps (ln u) d = true <-> (u < prob d)%R).
Proof. exact accept_log_form. Qed.

(* ------------------------------------------------------------------------------------------
   (4) Checkpoint array of iterative_build_tree, for EVERY step number n.
   The balanced sub-trees of the leaf sequence that end at leaf n have 2^k leaves, k <= cto(n). *)
Theorem C32_subtrees_ending_at_n :
  forall (k : nat) (n : N), N.divide (2 ^ N.of_nat k)%N (n + 1)%N <-> (N.of_nat k <= count_trailing_ones n)%N.
Proof. exact aligned_iff_cto. Qed.

(* at an odd step n, for every k = 1..cto(n) the U-turn loop reads slot i_max-k+1 and that slot
   holds leaf n+1-2^k, the left end of the sub-tree with 2^k leaves ending at n *)
Theorem C32_checkpoints :
  forall (n k : nat),
    N.odd (N.of_nat n) = true -> (1 <= k)%nat -> (N.of_nat k <= count_trailing_ones (N.of_nat n))%N ->
    In (i_max_incl (N.of_nat n) - Z.of_nat k + 1)%Z (read_slots (N.of_nat n)) /\
    S_after (n - 1) (i_max_incl (N.of_nat n) - Z.of_nat k + 1)%Z = Some (N.of_nat n + 1 - 2 ^ N.of_nat k)%N.
Proof. exact checkpoint_read. Qed.

(* and nothing else is read *)
Theorem C32_checkpoint_reads_only_left_ends :
  forall (n : nat) (s : Z), In s (read_slots (N.of_nat n)) ->
    exists k, (1 <= k)%nat /\ (N.of_nat k <= count_trailing_ones (N.of_nat n))%N /\
              s = (i_max_incl (N.of_nat n) - Z.of_nat k + 1)%Z.
Proof. exact read_slots_are_left_ends. Qed.

(* slots stay inside the array: a sub-tree of depth d (n < 2^d, d <= max_tree_depth = length of S) *)
Theorem C32_checkpoint_write_in_bounds :
  forall (d : nat) (n : N), (0 < n)%N -> (n < 2 ^ N.of_nat d)%N -> N.even n = true ->
    (write_slot n < N.of_nat d)%N.
Proof. exact write_slot_bound. Qed.
Theorem C32_checkpoint_read_in_bounds :
  forall (d : nat) (n : N) (s : Z), (n < 2 ^ N.of_nat d)%N -> N.odd n = true -> In s (read_slots n) ->
    (0 <= s < Z.of_nat d)%Z.
Proof. exact read_slot_bound. Qed.

(* ------------------------------------------------------------------------------------------
   (5) NUTS: only the sampling-within-the-trajectory part is proved (PARTIAL: invariance of the
   whole NUTS transition -- symmetry of the doubling process under the stopping rule -- is not
   formalised; it is checked on the implementation by exact kernel enumeration, see notes).
   Progressive sampling of add_single_qp_to_tree: after any sequence of additions the total weight
   is the sum and point i is the candidate with probability w_i / total. *)
Theorem C32_nuts_multinomial_partial :
  forall (w0 : Q) (ws : list Q), (0 < w0)%Q -> List.Forall (fun w => (0 < w)%Q) ws ->
    let '(W, ps) := progressive w0 ws in
    (W == qsum (w0 :: ws))%Q /\ List.Forall2 (fun p w => (p == w / W)%Q) ps (w0 :: ws).
Proof. exact progressive_multinomial. Qed.

Theorem C32_nuts_merge_unbiased_partial :
  forall Wc Wn pc pn wc wn : Q,
    (0 < Wc)%Q -> (0 < Wn)%Q -> (pc == wc / Wc)%Q -> (pn == wn / Wn)%Q ->
    (pc * (1 - merge_prob false Wc Wn) == wc / (Wc + Wn))%Q /\
    (pn * merge_prob false Wc Wn == wn / (Wc + Wn))%Q.
Proof. exact merge_unbiased. Qed.

(* ------------------------------------------------------------------------------------------
   (6) Momentum refresh on pytree positions: every leaf is drawn with its own sub-key (pairwise distinct,
   one per leaf), so leaves of equal shape get independent streams; handing the same key to every
   leaf (>= 2 leaves) does not have that property. *)
Theorem C32_momentum_keys_distinct :
  forall n : nat, NoDup (leaf_keys n) /\ length (leaf_keys n) = n /\
                  ((2 <= n)%nat -> ~ NoDup (leaf_keys_shared n)).
Proof. intro n. split; [apply leaf_keys_NoDup | split; [apply leaf_keys_length | apply leaf_keys_shared_dup]]. Qed.

(* ------------------------------------------------------------------------------------------
   (7) generate_n_samples returns the core state after the last transition, so for EVERY transition
   function a chain of n samples continued for m more from the returned state is the chain of n + m
   samples (same samples, same final state). *)
Theorem C32_chain_resume :
  forall (St Smp : Type) (next : St -> Smp * St) (n m : nat) (st : St),
    chain_run St Smp next (n + m) st =
    (fst (chain_run St Smp next n st) ++ fst (chain_run St Smp next m (snd (chain_run St Smp next n st))),
     snd (chain_run St Smp next m (snd (chain_run St Smp next n st)))).
Proof. exact chain_run_app. Qed.

(* ------------------------------------------------------------------------------------------
   (8) Mass matrix: with mass_matrix_sqrt^2 * inverse_mass = 1 (what `inverse_mass_matrix ** (-0.5)` gives,
   entry by entry) the refreshed momentum has variance M = (M^-1)^-1 and the expected kinetic energy
   per degree of freedom is 1/2, i.e. p ~ N(0, M) is the momentum marginal of exp(-K); refreshing with the
   square root of the inverse mass instead is consistent only for unit mass. *)
Theorem C32_mass_consistency :
  forall s im : Q, (0 < im)%Q -> mass_consistent s im ->
    (s * s == / im)%Q /\ (expected_kinetic s im == 1 # 2)%Q.
Proof. intros s im Hp H. split; [apply mass_consistent_variance | apply mass_consistent_equipartition]; assumption. Qed.
Theorem C32_mass_inverse_sqrt_refuted :
  forall s im : Q, (s * s == im)%Q -> mass_consistent s im -> (im * im == 1)%Q.
Proof. exact inverse_sqrt_inconsistent. Qed.

(* ------------------------------------------------------------------------------------------
   Non-vacuity: the ring hypotheses are met by Qc (with its field division), and the checkpoint
   theorem's hypotheses by n = 7 (reads slots 0,1,2 holding leaves 0,4,6). *)
From Coq Require Import Qcanon.
Example C32_hyps_satisfiable_Qc :
  ring_theory 0%Qc 1%Qc Qcplus Qcmult Qcminus Qcopp eq /\
  (forall a b : Qc, Qcdiv (Qcopp a) b = Qcopp (Qcdiv a b)).
Proof. split; [exact Qcrt | intros; unfold Qcdiv; ring]. Qed.

Example C32_checkpoints_n7 :
  read_slots 7 = [0; 1; 2]%Z /\
  map (S_after 6) (read_slots 7) = [Some 0%N; Some 4%N; Some 6%N] /\ count_trailing_ones 7 = 3%N.
Proof. repeat split. Qed.
