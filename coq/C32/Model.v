(* C32 -- executable model of nifty/re/hmc.py (no proofs here).

   * [Ops T]: an arithmetic signature WITHOUT laws (ring operations, an uninterpreted division,
     integer literals, a comparison).  Instances: Q (run by vm_compute in the correspondence),
     R (Coquelicot proofs), any commutative ring (generic proofs), dual numbers (tangent map).
   * vectors are index functions [nat -> T]; every array operation of hmc.py that the model uses
     is element-wise, [vdot] sums the first [d] entries.
   * [leapfrog_step], [flip_momentum], [is_euclidean_uturn], [total_energy_of_qp] and the
     kinetic energy / its gradient of hmc_oo.py are NOT here: they are regenerated from the Python
     source on every run (tr/c32_leapfrog.py -> Gen_Leapfrog.v).
   * hand-written here (source lines quoted): the accept rule of generate_hmc_acc_rej, the bit
     functions and the checkpoint bookkeeping of iterative_build_tree, progressive (multinomial)
     sampling of add_single_qp_to_tree / merge_trees. *)
From Coq Require Import ZArith NArith QArith Qminmax List Bool.
Import ListNotations.

Record Ops (T : Type) := mkOps {
  o0 : T; o1 : T;
  oadd : T -> T -> T; osub : T -> T -> T; omul : T -> T -> T; odiv : T -> T -> T;
  oopp : T -> T;
  oZ : Z -> T;                (* float literals with integral value, e.g. 2.0 *)
  oltb : T -> T -> bool }.
Arguments o0 {T}. Arguments o1 {T}. Arguments oadd {T}. Arguments osub {T}. Arguments omul {T}.
Arguments odiv {T}. Arguments oopp {T}. Arguments oZ {T}. Arguments oltb {T}.

Section Vec.
  Context {T : Type} (O : Ops T).
  Definition vec := nat -> T.
  Definition vadd (a b : vec) : vec := fun i => oadd O (a i) (b i).
  Definition vsub (a b : vec) : vec := fun i => osub O (a i) (b i).
  Definition vmul (a b : vec) : vec := fun i => omul O (a i) (b i).
  Definition vneg (a : vec) : vec := fun i => oopp O (a i).
  Definition vscale (s : T) (a : vec) : vec := fun i => omul O s (a i).      (* scalar * array *)
  Definition vdivs (a : vec) (s : T) : vec := fun i => odiv O (a i) s.        (* array / scalar *)
  (* tree_math.vdot / jnp.sum over the d entries of the array, in index order *)
  Fixpoint vsum (d : nat) (a : vec) : T :=
    match d with 0%nat => o0 O | S d' => oadd O (vsum d' a) (a d') end.
  Definition vdot (d : nat) (a b : vec) : T := vsum d (vmul a b).

  (* class QP(NamedTuple): position, momentum *)
  Record QP := mkQP { position : vec; momentum : vec }.
End Vec.
Arguments vec T : clear implicits.
Arguments QP T : clear implicits.
Arguments mkQP {T}. Arguments position {T}. Arguments momentum {T}.

(* fori_loop(lower=0, upper=n, body_fun=lambda _, args: f(args), init_val=x) *)
Fixpoint fori {A : Type} (n : nat) (f : A -> A) (x : A) : A :=
  match n with 0%nat => x | S n' => f (fori n' f x) end.

(* ------------------------------------------------------------------------------------------ *)
(* generate_hmc_acc_rej: the accept rule.  Float energies as far as the rule distinguishes them. *)
Inductive ext (T : Type) := Fin (e : T) | PInf | NInf | NaN.
Arguments Fin {T}. Arguments PInf {T}. Arguments NInf {T}. Arguments NaN {T}.

Section Accept.
  Context {T : Type} (O : Ops T).
  (* IEEE subtraction on the extended values: energy_diff = total_energy(initial_qp) - total_energy(proposed_qp) *)
  Definition ext_sub (a b : ext T) : ext T :=
    match a, b with
    | NaN, _ | _, NaN => NaN
    | Fin x, Fin y => Fin (osub O x y)
    | Fin _, PInf => NInf | Fin _, NInf => PInf
    | PInf, PInf => NaN | NInf, NInf => NaN
    | PInf, _ => PInf | NInf, _ => NInf
    end.
  Definition ext_add (a b : ext T) : ext T :=
    match a, b with
    | NaN, _ | _, NaN => NaN
    | Fin x, Fin y => Fin (oadd O x y)
    | PInf, NInf | NInf, PInf => NaN
    | PInf, _ | _, PInf => PInf
    | NInf, _ | _, NInf => NInf
    end.
  (* energy_diff = jnp.where(jnp.isnan(energy_diff), -jnp.inf, energy_diff)      (after fix C32-1;
     the pinned tree had +jnp.inf here, [nan_rule_pinned]) *)
  Definition nan_rule (d : ext T) : ext T := match d with NaN => NInf | _ => d end.
  Definition nan_rule_pinned (d : ext T) : ext T := match d with NaN => PInf | _ => d end.
  (* transition_probability = jnp.minimum(1.0, jnp.exp(energy_diff))
     accept = random.bernoulli(key, transition_probability)      [= uniform(key) < probability]
     in logarithmic form (lnu = log of the uniform draw, u in (0,1)):  u < min(1, exp d)  <->
     0 <= d  or  ln u < d   (proved in ProofsR.v) *)
  Definition accept_log (lnu : T) (d : ext T) : bool :=
    match d with
    | Fin e => negb (oltb O e (o0 O)) || oltb O lnu e
    | PInf => true | NInf => false | NaN => false
    end.
  (* diverging = jnp.abs(energy_diff) > max_energy_difference
     (max_energy_difference: [None] = jnp.inf, the default; nothing is greater than inf) *)
  Definition diverging (maxd : option T) (d : ext T) : bool :=
    match maxd with
    | None => false
    | Some mx =>
      match d with
      | Fin e => oltb O mx e || oltb O mx (oopp O e)
      | PInf | NInf => true | NaN => false
      end
    end.
End Accept.

(* ------------------------------------------------------------------------------------------ *)
(* Bit functions of iterative_build_tree. *)

(* lax.population_count(n) *)
Fixpoint pc_pos (p : positive) : N :=
  match p with xH => 1%N | xO p' => pc_pos p' | xI p' => N.succ (pc_pos p') end.
Definition popcount (n : N) : N := match n with N0 => 0%N | Npos p => pc_pos p end.

(* count_trailing_ones(n):
     _, trailing_ones_count = while_loop(lambda nc: (nc[0] & 1) != 0,
                                         lambda nc: (nc[0] >> 1, nc[1] + 1), (n, 0)) *)
Fixpoint cto_pos (p : positive) : N :=
  match p with xH => 1%N | xO _ => 0%N | xI p' => N.succ (cto_pos p') end.
Definition count_trailing_ones (n : N) : N := match n with N0 => 0%N | Npos p => cto_pos p end.

(* One iteration of `amend_incomplete_tree`, as far as the checkpoint array S is concerned.
   The slots hold step numbers (which leaf of the new sub-tree was stored), [None] = never written.
     def _even_fun(S):  S = tree_index_update(S, lax.population_count(n), z)
     def _odd_fun(S):   l = count_trailing_ones(n)
                        i_max_incl = lax.population_count(n - 1)
                        i_min_incl = i_max_incl - l + 1
                        turning = fori_loop(lower=i_min_incl, upper=i_max_incl + 1, ... tree_index_get(S, k) ...)
     cond(pred=n % 2 == 0, true_fun=_even_fun, false_fun=_odd_fun, operand=S)                     *)
Definition write_slot (n : N) : N := popcount n.
Definition i_max_incl (n : N) : Z := Z.of_N (popcount (n - 1)).
Definition i_min_incl (n : N) : Z := (i_max_incl n - Z.of_N (count_trailing_ones n) + 1)%Z.
(* fori_loop(lower, upper): lower, lower+1, ..., upper-1 *)
Fixpoint zrange (lo : Z) (len : nat) : list Z :=
  match len with 0%nat => [] | S l => lo :: zrange (lo + 1)%Z l end.
Definition read_slots (n : N) : list Z :=
  zrange (i_min_incl n) (Z.to_nat (i_max_incl n + 1 - i_min_incl n)).

Inductive ckev := Wr (n : N) (slot : Z) | Rd (n : N) (slot : Z).

Definition step_events (n : N) : list ckev :=
  if N.even n then [Wr n (Z.of_N (write_slot n))] else map (Rd n) (read_slots n).

(* the events of a sub-tree build that runs to completion: `S = tree_index_update(S, 0, z)` before
   the loop, then n = 1 .. 2**depth - 1 *)
Fixpoint events_upto (k : nat) : list ckev :=
  match k with
  | 0%nat => [Wr 0 0]
  | S k' => events_upto k' ++ step_events (N.of_nat k)
  end.

(* contents of S (as step numbers) after the iterations n = 1..k *)
Definition store := Z -> option N.
Definition upd (s : store) (i : Z) (v : N) : store := fun j => if Z.eqb j i then Some v else s j.
Fixpoint S_after (k : nat) : store :=
  match k with
  | 0%nat => upd (fun _ => None) 0 0%N
  | S k' => let n := N.of_nat k in
            if N.even n then upd (S_after k') (Z.of_N (write_slot n)) n else S_after k'
  end.

(* ------------------------------------------------------------------------------------------ *)
(* Progressive sampling (add_single_qp_to_tree), in weight space: w = exp(-H), W = exp(logweight).
     total_logweight = jnp.logaddexp(tree.logweight, neg_energy)              W' = W + w
     prob_of_keeping_old = expit(tree.logweight - neg_energy)                 W / (W + w)
     remain = random.bernoulli(key, prob_of_keeping_old)
     proposal_candidate = select(remain, tree.proposal_candidate, qp)
   State: total weight and the probability of each visited point (in visiting order) of being
   the candidate. *)
Definition add_point (st : Q * list Q) (w : Q) : Q * list Q :=
  let '(W, ps) := st in
  let keep := (W / (W + w))%Q in
  ((W + w)%Q, map (fun p => (p * keep)%Q) ps ++ [(1 - keep)%Q]).
Definition progressive (w0 : Q) (ws : list Q) : Q * list Q :=
  fold_left add_point ws (w0, [1%Q]).

(* merge_trees: probability of taking the new sub-tree's candidate
     bias_transition:  jnp.minimum(1.0, jnp.exp(new.logweight - current.logweight))
     else:             expit(new.logweight - current.logweight)                                *)
Definition merge_prob (bias : bool) (Wcur Wnew : Q) : Q :=
  if bias then Qmin 1 (Wnew / Wcur) else (Wnew / (Wcur + Wnew))%Q.

(* ------------------------------------------------------------------------------------------ *)
(* Momentum refresh: sample_momentum_from_diagonal(key, mass_matrix_sqrt)
     normal = random_like(key=key, primals=mass_matrix_sqrt, rng=random.normal)
     return tree_util.tree_map(jnp.multiply, mass_matrix_sqrt, normal)
   with random_like (tree_math/forest_math.py):
     subkeys = tree_unflatten(struct, random.split(key, struct.num_leaves))
     draw(key_j, x_j) = rng(key=key_j, shape=x_j.shape, dtype=x_j.dtype)
   i.e. leaf j (in flattening order) is drawn with the j-th of n sub-keys of the key.  [-1] stands for
   the un-split key itself. *)
Definition leaf_keys (n : nat) : list Z := map Z.of_nat (seq 0 n).
(* the variant that hands the same key to every leaf *)
Definition leaf_keys_shared (n : nat) : list Z := repeat (-1)%Z n.

(* ------------------------------------------------------------------------------------------ *)
(* _Sampler.generate_n_samples: the chain is the iteration of one transition on the core state
   (key, position); the returned core state is the one after the last transition:
     def amend_chain(idx, state):
         chain, core_state = state
         tree, core_state = self.sample_next_state( *core_state)
         chain = self.update_chain(chain, idx, tree)
         return chain, core_state
     chain, core_state = fori_loop(0, num_samples, amend_chain, (chain, (key, initial_position)))
     return chain, core_state
   with sample_next_state(key, pos): `key, k1, k2 = random.split(key, 3)` ... `return tree, (key, new_position)`. *)
Section Chain.
  Variables (St Smp : Type) (next : St -> Smp * St).
  Fixpoint chain_run (n : nat) (st : St) : list Smp * St :=
    match n with
    | 0%nat => ([], st)
    | S n' => let '(x, st1) := next st in let '(xs, st2) := chain_run n' st1 in (x :: xs, st2)
    end.
End Chain.
(* number of `key = random.split(key, 3)[0]` advances the returned key is away from the key passed in *)
Definition key_advances (num_samples : nat) : nat := num_samples.

(* ------------------------------------------------------------------------------------------ *)
(* _Sampler.__init__: the momentum is refreshed with  p = mass_matrix_sqrt * normal  where
     self.mass_matrix_sqrt = self.inverse_mass_matrix ** (-0.5)
   while leapfrog, kinetic energy and acceptance use inverse_mass_matrix (diagonal M^-1, entry by entry).
   [mass_consistent s im]: the standard deviation s of a momentum entry and its inverse mass im fit together. *)
Definition mass_consistent (s im : Q) : Prop := (s * s * im == 1)%Q.
(* expected kinetic energy  E[ im * p^2 / 2 ]  of an entry with p = s * z, E[z^2] = 1 *)
Definition expected_kinetic (s im : Q) : Q := ((1 # 2) * (im * (s * s)))%Q.

(* generate_nuts_tree / cond_tree_doubling: the new sub-tree is merged only if it neither turned nor diverged
     current_tree = cond(pred=new_subtree.turning | new_subtree.diverging,
                         true_fun=lambda old_and_new: old_and_new[0], false_fun=... merge_trees(...))
     stop = new_subtree.turning | current_tree.turning;  stop |= new_subtree.diverging                      *)
Definition merge_guard (turning diverging : bool) : bool := negb (turning || diverging).
