(* C32 -- the checkpoint array of iterative_build_tree: bit arithmetic, for every step number. *)
From Coq Require Import ZArith NArith List Bool Lia FinFun.
Import ListNotations.
Require Import NV.C32.Model.
Local Open Scope N_scope.

Lemma pc_double n : popcount (N.double n) = popcount n.
Proof. destruct n; reflexivity. Qed.
Lemma pc_succ_double n : popcount (N.succ_double n) = N.succ (popcount n).
Proof. destruct n; reflexivity. Qed.
Lemma cto_double n : count_trailing_ones (N.double n) = 0.
Proof. destruct n; reflexivity. Qed.
Lemma cto_succ_double n : count_trailing_ones (N.succ_double n) = N.succ (count_trailing_ones n).
Proof. destruct n; reflexivity. Qed.

Lemma pc_2n n : popcount (2 * n) = popcount n.
Proof. rewrite <- N.double_spec. apply pc_double. Qed.
Lemma pc_2n1 n : popcount (2 * n + 1) = popcount n + 1.
Proof. rewrite <- N.succ_double_spec, pc_succ_double. lia. Qed.
Lemma cto_2n n : count_trailing_ones (2 * n) = 0.
Proof. rewrite <- N.double_spec. apply cto_double. Qed.
Lemma cto_2n1 n : count_trailing_ones (2 * n + 1) = count_trailing_ones n + 1.
Proof. rewrite <- N.succ_double_spec, cto_succ_double. lia. Qed.

Lemma even_or_odd n : (exists m, n = 2 * m) \/ (exists m, n = 2 * m + 1).
Proof.
  destruct (N.even n) eqn:E.
  - left. apply N.even_spec in E. destruct E as [m ->]. eauto.
  - right. assert (O : N.odd n = true) by (rewrite <- N.negb_even, E; reflexivity).
    apply N.odd_spec in O. destruct O as [m ->]. eauto.
Qed.

Lemma pow2_S k : 2 ^ N.of_nat (S k) = 2 * 2 ^ N.of_nat k.
Proof. rewrite Nat2N.inj_succ, N.pow_succ_r'. reflexivity. Qed.
Lemma pow2_pos k : 0 < 2 ^ k.
Proof. apply N.neq_0_lt_0, N.pow_nonzero. discriminate. Qed.

(* the balanced sub-trees [n+1-2^k, n] of the leaf sequence 0,1,2,... that END at leaf n are those
   with k <= count_trailing_ones n *)
Lemma aligned_iff_cto k : forall n,
  (2 ^ N.of_nat k | n + 1) <-> N.of_nat k <= count_trailing_ones n.
Proof.
  induction k; intro n.
  - cbn. split; intros; [lia | apply N.divide_1_l].
  - rewrite pow2_S. destruct (even_or_odd n) as [[m ->] | [m ->]].
    + rewrite cto_2n. split; [|lia].
      intros [c Hc]. exfalso. lia.
    + rewrite cto_2n1. replace (2 * m + 1 + 1) with (2 * (m + 1)) by lia.
      rewrite N.mul_divide_cancel_l by discriminate. rewrite IHk. lia.
Qed.

(* slot of the left end of the sub-tree of size 2^k ending at n *)
Lemma left_end_slot k : forall n,
  (1 <= k)%nat -> N.of_nat k <= count_trailing_ones n ->
  2 ^ N.of_nat k <= n + 1 /\
  popcount (n + 1 - 2 ^ N.of_nat k) + N.of_nat k = popcount (n - 1) + 1.
Proof.
  induction k; intros n Hk Hc; [lia|].
  destruct (even_or_odd n) as [[m ->] | [m ->]].
  { rewrite cto_2n in Hc. lia. }
  rewrite cto_2n1 in Hc. rewrite pow2_S.
  destruct k.
  - change (2 ^ N.of_nat 0) with 1. change (N.of_nat 1) with 1. split; [lia|].
    replace (2 * m + 1 + 1 - 2 * 1) with (2 * m + 1 - 1) by lia. lia.
  - destruct (IHk m) as [A B]; [lia | lia |].
    split; [lia|].
    replace (2 * m + 1 + 1 - 2 * 2 ^ N.of_nat (S k)) with (2 * (m + 1 - 2 ^ N.of_nat (S k))) by lia.
    replace (2 * m + 1 - 1) with (2 * m) by lia.
    rewrite !pc_2n.
    (* m is odd because it has at least one trailing one *)
    destruct (even_or_odd m) as [[m' ->] | [m' ->]].
    { rewrite cto_2n in Hc. lia. }
    rewrite pc_2n1. replace (2 * m' + 1 - 1) with (2 * m') in B by lia. rewrite pc_2n in B. lia.
Qed.

(* bits above and below position k do not interact *)
Lemma pc_split k : forall a r, r < 2 ^ N.of_nat k ->
  popcount (a * 2 ^ N.of_nat k + r) = popcount a + popcount r.
Proof.
  induction k; intros a r Hr.
  - cbn in *. assert (r = 0) by lia. subst. rewrite N.mul_1_r, N.add_0_r. cbn. lia.
  - rewrite pow2_S in *. destruct (even_or_odd r) as [[m ->] | [m ->]].
    + replace (a * (2 * 2 ^ N.of_nat k) + 2 * m) with (2 * (a * 2 ^ N.of_nat k + m)) by lia.
      rewrite !pc_2n. apply IHk. lia.
    + replace (a * (2 * 2 ^ N.of_nat k) + (2 * m + 1)) with (2 * (a * 2 ^ N.of_nat k + m) + 1) by lia.
      rewrite !pc_2n1. rewrite IHk by lia. lia.
Qed.

Lemma pc_pos_iff r : 0 < r -> 0 < popcount r.
Proof. destruct r as [|p]; [lia|]. intros _. cbn. induction p; cbn; lia. Qed.

(* no step strictly between the left end and n writes to the left end's slot *)
Lemma no_overwrite k n m :
  (1 <= k)%nat -> N.of_nat k <= count_trailing_ones n ->
  n + 1 - 2 ^ N.of_nat k < m -> m < n ->
  popcount m <> popcount (n + 1 - 2 ^ N.of_nat k).
Proof.
  intros Hk Hc Hlo Hhi.
  destruct (proj2 (aligned_iff_cto k n) Hc) as [c Hcn].
  assert (P := pow2_pos (N.of_nat k)).
  assert (c <> 0) by (intro; subst; lia).
  assert (E1 : n + 1 - 2 ^ N.of_nat k = (c - 1) * 2 ^ N.of_nat k + 0) by nia.
  assert (E2 : m = (c - 1) * 2 ^ N.of_nat k + (m - (c - 1) * 2 ^ N.of_nat k)) by nia.
  rewrite E1, E2. rewrite !pc_split; [| lia | nia].
  assert (0 < popcount (m - (c - 1) * 2 ^ N.of_nat k)) by (apply pc_pos_iff; nia).
  cbn [popcount]. lia.
Qed.

(* contents of the checkpoint array: a slot holds the latest even step with that popcount *)
Lemma S_after_last j : forall s m,
  N.even m = true -> m <= N.of_nat j -> popcount m = s ->
  (forall m', N.even m' = true -> m < m' -> m' <= N.of_nat j -> popcount m' <> s) ->
  S_after j (Z.of_N s) = Some m.
Proof.
  induction j; intros s m Hev Hle Hpc Hlast; subst s.
  - assert (m = 0) by lia. subst. cbn. reflexivity.
  - cbn [S_after]. set (n := N.of_nat (S j)).
    destruct (N.eq_dec m n) as [->|Hne].
    + rewrite Hev. unfold upd, write_slot. rewrite Z.eqb_refl. reflexivity.
    + assert (Hle' : m <= N.of_nat j) by lia.
      destruct (N.even n) eqn:En.
      * unfold upd, write_slot.
        assert (popcount n <> popcount m) by (apply Hlast; [exact En | lia | lia]).
        destruct (Z.eqb_spec (Z.of_N (popcount m)) (Z.of_N (popcount n))); [lia|].
        apply IHj; auto. intros; apply Hlast; auto; lia.
      * apply IHj; auto. intros; apply Hlast; auto; lia.
Qed.

Lemma zrange_In lo len x : In x (zrange lo len) <-> (lo <= x < lo + Z.of_nat len)%Z.
Proof.
  revert lo; induction len; intro lo; cbn [zrange In].
  - lia.
  - rewrite IHlen. lia.
Qed.

(* C32_checkpoints: at an odd step n the U-turn loop reads, for k = 1 .. count_trailing_ones n, slot
   i_max - k + 1, and that slot holds leaf n + 1 - 2^k, the left end of the balanced sub-tree of
   2^k leaves that ends at n. *)
Lemma checkpoint_read (n k : nat) :
  N.odd (N.of_nat n) = true -> (1 <= k)%nat -> N.of_nat k <= count_trailing_ones (N.of_nat n) ->
  In (i_max_incl (N.of_nat n) - Z.of_nat k + 1)%Z (read_slots (N.of_nat n)) /\
  S_after (n - 1) (i_max_incl (N.of_nat n) - Z.of_nat k + 1)%Z = Some (N.of_nat n + 1 - 2 ^ N.of_nat k).
Proof.
  intros Hodd Hk Hc. set (nn := N.of_nat n) in *.
  destruct (left_end_slot k nn Hk Hc) as [A B].
  split.
  - unfold read_slots. rewrite zrange_In. unfold i_min_incl. lia.
  - unfold i_max_incl.
    replace (Z.of_N (popcount (nn - 1)) - Z.of_nat k + 1)%Z with (Z.of_N (popcount (nn + 1 - 2 ^ N.of_nat k))) by lia.
    assert (P := pow2_pos (N.of_nat k)).
    assert (P2 : 2 <= 2 ^ N.of_nat k).
    { destruct k; [lia|]. rewrite pow2_S. assert (Q := pow2_pos (N.of_nat k)). lia. }
    assert (n <> 0)%nat by (intro; subst; cbn in Hodd; discriminate).
    apply S_after_last.
    + destruct (proj2 (aligned_iff_cto k nn) Hc) as [c Hcn].
      destruct k; [lia|]. rewrite pow2_S in *.
      replace (nn + 1 - 2 * 2 ^ N.of_nat k) with (2 * ((c - 1) * 2 ^ N.of_nat k)) by nia.
      rewrite N.even_mul. reflexivity.
    + lia.
    + reflexivity.
    + intros m' Hev Hlo Hhi. apply no_overwrite; auto; try lia.
Qed.

(* conversely every slot that is read is one of those *)
Lemma read_slots_are_left_ends (n : nat) s :
  In s (read_slots (N.of_nat n)) ->
  exists k, (1 <= k)%nat /\ N.of_nat k <= count_trailing_ones (N.of_nat n) /\
            s = (i_max_incl (N.of_nat n) - Z.of_nat k + 1)%Z.
Proof.
  unfold read_slots. rewrite zrange_In. unfold i_min_incl. intros H.
  exists (Z.to_nat (i_max_incl (N.of_nat n) - s + 1)). lia.
Qed.

(* slot bounds: the array has max_tree_depth entries and depth <= max_tree_depth *)
Lemma pc_le_bits d : forall n, n < 2 ^ N.of_nat d -> popcount n <= N.of_nat d.
Proof.
  induction d; intros n Hn.
  - cbn in Hn. assert (n = 0) by lia. subst. cbn. lia.
  - rewrite pow2_S in Hn. destruct (even_or_odd n) as [[m ->] | [m ->]].
    + rewrite pc_2n. specialize (IHd m). lia.
    + rewrite pc_2n1. specialize (IHd m). lia.
Qed.

Lemma pc_even_lt_bits d n : n < 2 ^ N.of_nat d -> N.even n = true -> 0 < n -> popcount n < N.of_nat d.
Proof.
  intros Hn Hev Hpos. destruct d; [cbn in Hn; lia|].
  rewrite pow2_S in Hn. apply N.even_spec in Hev. destruct Hev as [m ->].
  rewrite pc_2n. assert (popcount m <= N.of_nat d) by (apply pc_le_bits; lia). lia.
Qed.

Lemma write_slot_bound (d : nat) n :
  0 < n -> n < 2 ^ N.of_nat d -> N.even n = true -> write_slot n < N.of_nat d.
Proof. intros; apply pc_even_lt_bits; auto. Qed.

Lemma read_slot_bound (d : nat) n s :
  n < 2 ^ N.of_nat d -> N.odd n = true -> In s (read_slots n) -> (0 <= s < Z.of_nat d)%Z.
Proof.
  intros Hn Hodd Hin. unfold read_slots in Hin. rewrite zrange_In in Hin. unfold i_min_incl in *.
  apply N.odd_spec in Hodd. destruct Hodd as [m ->].
  unfold i_max_incl in *. replace (2 * m + 1 - 1) with (2 * m) in * by lia.
  rewrite cto_2n1 in Hin. rewrite pc_2n in *.
  (* popcount m >= count_trailing_ones m *)
  assert (G : forall x, count_trailing_ones x <= popcount x).
  { intros [|p]; cbn; [lia|]. induction p; cbn; lia. }
  specialize (G m).
  destruct d; [cbn in Hn; lia|]. rewrite pow2_S in Hn.
  assert (popcount m <= N.of_nat d) by (apply pc_le_bits; lia). lia.
Qed.

(* ---- momentum refresh: every leaf gets its own sub-key ---- *)
Lemma leaf_keys_NoDup n : NoDup (leaf_keys n).
Proof.
  unfold leaf_keys. apply Injective_map_NoDup; [|apply seq_NoDup].
  intros a b H. apply Nat2Z.inj. exact H.
Qed.
Lemma leaf_keys_length n : length (leaf_keys n) = n.
Proof. unfold leaf_keys. rewrite map_length, seq_length. reflexivity. Qed.
Lemma leaf_keys_shared_dup n : (2 <= n)%nat -> ~ NoDup (leaf_keys_shared n).
Proof.
  intros H ND. destruct n as [|[|n]]; try lia. cbn in ND.
  inversion ND as [|? ? Hin _]; subst. apply Hin. left. reflexivity.
Qed.

(* ---- a chain continued from the returned core state is the longer chain ---- *)
Lemma chain_run_app (St Smp : Type) (next : St -> Smp * St) n m st :
  chain_run St Smp next (n + m) st =
  (fst (chain_run St Smp next n st) ++ fst (chain_run St Smp next m (snd (chain_run St Smp next n st))),
   snd (chain_run St Smp next m (snd (chain_run St Smp next n st)))).
Proof.
  revert st; induction n as [|n IH]; intro st; cbn [chain_run Nat.add].
  - cbn. destruct (chain_run St Smp next m st); reflexivity.
  - destruct (next st) as [x st1]. rewrite IH.
    destruct (chain_run St Smp next n st1) as [xs st2]. cbn [fst snd].
    destruct (chain_run St Smp next m st2) as [ys st3]. reflexivity.
Qed.
