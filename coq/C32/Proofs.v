(* C32 -- leapfrog reversibility over an arbitrary commutative ring (generic proofs).
   The statements are about the TRANSLATED leapfrog_step / flip_momentum (Gen_Leapfrog.v). *)
From Coq Require Import ZArith List Bool Ring Ring_theory.
Require Import NV.C32.Model NV.C32.Gen_Leapfrog.

Section Ring.
  Variable T : Type.
  Variables (r0 r1 : T) (radd rmul rsub : T -> T -> T) (ropp : T -> T).
  Hypothesis RT : ring_theory r0 r1 radd rmul rsub ropp (@eq T).
  (* no law at all about division, literals and comparison *)
  Variables (rdiv : T -> T -> T) (rZ : Z -> T) (rltb : T -> T -> bool).
  Add Ring TRing : RT.

  Definition RO : Ops T := mkOps T r0 r1 radd rsub rmul rdiv ropp rZ rltb.

  Definition veq (a b : vec T) : Prop := forall i, a i = b i.
  Definition qpeq (x y : QP T) : Prop := veq (position x) (position y) /\ veq (momentum x) (momentum y).

  Lemma qpeq_refl x : qpeq x x.
  Proof. split; intro; reflexivity. Qed.
  Lemma qpeq_sym x y : qpeq x y -> qpeq y x.
  Proof. intros [A B]; split; intro i; symmetry; auto. Qed.
  Lemma qpeq_trans x y z : qpeq x y -> qpeq y z -> qpeq x z.
  Proof. intros [A B] [C D]; split; intro i; [rewrite A; apply C | rewrite B; apply D]. Qed.

  (* arbitrary gradient functions; all that is needed is that they are functions of the array's
     entries (no functional extensionality axiom is used) *)
  Variable gradV : vec T -> vec T.
  Hypothesis gradV_ext : forall a b, veq a b -> veq (gradV a) (gradV b).
  Variable gradK : vec T -> vec T -> vec T.
  Hypothesis gradK_ext : forall m a b, veq a b -> veq (gradK m a) (gradK m b).

  Definition L (eps : T) (imm : vec T) (z : QP T) : QP T := leapfrog_step RO gradV gradK eps imm z.
  Definition flip (z : QP T) : QP T := flip_momentum RO z.

  Lemma L_ext eps imm x y : qpeq x y -> qpeq (L eps imm x) (L eps imm y).
  Proof.
    intros [A B].
    set (h := odiv RO eps (oZ RO 2)).
    set (p1x := vsub RO (momentum x) (vscale RO h (gradV (position x)))).
    set (p1y := vsub RO (momentum y) (vscale RO h (gradV (position y)))).
    set (qx := vadd RO (position x) (vscale RO eps (gradK imm p1x))).
    set (qy := vadd RO (position y) (vscale RO eps (gradK imm p1y))).
    assert (Ex : L eps imm x = mkQP qx (vsub RO p1x (vscale RO h (gradV qx)))) by reflexivity.
    assert (Ey : L eps imm y = mkQP qy (vsub RO p1y (vscale RO h (gradV qy)))) by reflexivity.
    rewrite Ex, Ey.
    assert (G1 := gradV_ext _ _ A).
    assert (P1 : veq p1x p1y).
    { intro i. unfold p1x, p1y, vsub, vscale. rewrite (B i), (G1 i). reflexivity. }
    assert (K1 := gradK_ext imm _ _ P1).
    assert (Q1 : veq qx qy).
    { intro i. unfold qx, qy, vadd, vscale. rewrite (A i), (K1 i). reflexivity. }
    assert (G2 := gradV_ext _ _ Q1).
    split; [exact Q1|].
    intro i. cbn [momentum]. unfold vsub, vscale. rewrite (P1 i), (G2 i). reflexivity.
  Qed.

  Lemma flip_ext x y : qpeq x y -> qpeq (flip x) (flip y).
  Proof. intros [A B]; split; [exact A|]. intro i. unfold flip, flip_momentum, vneg; cbn. rewrite B; reflexivity. Qed.

  Lemma flip_flip x : qpeq (flip (flip x)) x.
  Proof. split; intro i; cbn; [reflexivity|]. unfold vneg; cbn. ring. Qed.

  Lemma fori_L_ext eps imm n x y : qpeq x y -> qpeq (fori n (L eps imm) x) (fori n (L eps imm) y).
  Proof. induction n; intros; cbn; auto using L_ext. Qed.

  Lemma fori_shift {A} (f : A -> A) n x : fori n f (f x) = f (fori n f x).
  Proof. induction n; cbn; congruence. Qed.

  (* the kinetic-energy gradient of hmc_oo.py (diagonal mass matrix) meets both hypotheses *)
  Lemma diag_gradK_ext m a b : veq a b -> veq (kinetic_energy_gradient RO m a) (kinetic_energy_gradient RO m b).
  Proof. intros E i. unfold kinetic_energy_gradient, vmul. rewrite (E i). reflexivity. Qed.
  Lemma diag_gradK_odd m a : veq (kinetic_energy_gradient RO m (vneg RO a)) (vneg RO (kinetic_energy_gradient RO m a)).
  Proof. intro i. unfold kinetic_energy_gradient, vmul, vneg. cbn [RO omul oopp]. ring. Qed.

  (* -------- form 1: momentum flip, kinetic gradient odd in the momentum ------------------- *)
  Section Flip.
    Hypothesis gradK_odd : forall m a, veq (gradK m (vneg RO a)) (vneg RO (gradK m a)).

    Lemma reversible_1 eps imm z : qpeq (flip (L eps imm (flip (L eps imm z)))) z.
    Proof.
      set (h := odiv RO eps (oZ RO 2)).
      set (q := position z). set (p := momentum z).
      set (p1 := vsub RO p (vscale RO h (gradV q))).
      set (q' := vadd RO q (vscale RO eps (gradK imm p1))).
      set (p' := vsub RO p1 (vscale RO h (gradV q'))).
      assert (E1 : L eps imm z = mkQP q' p') by reflexivity.
      rewrite E1.
      (* second application, started at (q', -p') *)
      set (p1s := vsub RO (vneg RO p') (vscale RO h (gradV q'))).
      set (q'' := vadd RO q' (vscale RO eps (gradK imm p1s))).
      set (p'' := vsub RO p1s (vscale RO h (gradV q''))).
      assert (E2 : L eps imm (flip (mkQP q' p')) = mkQP q'' p'') by reflexivity.
      rewrite E2.
      assert (H1 : veq p1s (vneg RO p1)).
      { intro i. unfold p1s, p', vsub, vneg, vscale. cbn [RO oadd osub omul oopp]. ring. }
      assert (H2 : veq (gradK imm p1s) (vneg RO (gradK imm p1))).
      { intro i. rewrite (gradK_ext imm _ _ H1 i). apply gradK_odd. }
      assert (H3 : veq q'' q).
      { intro i. unfold q'', q', vadd, vscale. rewrite (H2 i). unfold vneg. cbn [RO oadd osub omul oopp]. ring. }
      assert (H4 := gradV_ext _ _ H3).
      split; [exact H3|].
      intro i. unfold flip, flip_momentum; cbn [momentum].
      unfold vneg at 1. unfold p''. unfold vsub at 1, vscale at 1. rewrite (H1 i), (H4 i).
      unfold vneg, p1, vsub, vscale. cbn [RO oadd osub omul oopp]. change (momentum z) with p. ring.
    Qed.

    (* L (flip (L z)) = flip z *)
    Lemma L_flip_L eps imm z : qpeq (L eps imm (flip (L eps imm z))) (flip z).
    Proof.
      apply qpeq_trans with (flip (flip (L eps imm (flip (L eps imm z))))).
      - apply qpeq_sym, flip_flip.
      - apply flip_ext, reversible_1.
    Qed.

    Lemma Ln_flip_Ln eps imm n z :
      qpeq (fori n (L eps imm) (flip (fori n (L eps imm) z))) (flip z).
    Proof.
      revert z; induction n; intro z; [apply qpeq_refl|].
      (* L^(n+1) (flip (L^(n+1) z)) = L^n (L (flip (L (L^n z)))) *)
      change (fori (S n) (L eps imm) z) with (L eps imm (fori n (L eps imm) z)).
      change (fori (S n) (L eps imm) ?w) with (L eps imm (fori n (L eps imm) w)).
      rewrite <- fori_shift.
      eapply qpeq_trans; [apply fori_L_ext, L_flip_L|]. apply IHn.
    Qed.

    Lemma reversible_n eps imm n z :
      qpeq (flip (fori n (L eps imm) (flip (fori n (L eps imm) z)))) z.
    Proof.
      eapply qpeq_trans; [apply flip_ext, Ln_flip_Ln|]. apply flip_flip.
    Qed.
  End Flip.

  (* -------- form 2: negative step size (how NUTS walks to the left) ----------------------- *)
  Section Neg.
    Hypothesis div_opp : forall a b, rdiv (ropp a) b = ropp (rdiv a b).

    Lemma reversible_neg_1 eps imm z : qpeq (L (ropp eps) imm (L eps imm z)) z.
    Proof.
      set (h := odiv RO eps (oZ RO 2)).
      set (q := position z). set (p := momentum z).
      set (p1 := vsub RO p (vscale RO h (gradV q))).
      set (q' := vadd RO q (vscale RO eps (gradK imm p1))).
      set (p' := vsub RO p1 (vscale RO h (gradV q'))).
      assert (E1 : L eps imm z = mkQP q' p') by reflexivity.
      rewrite E1.
      set (hm := odiv RO (ropp eps) (oZ RO 2)).
      set (p1s := vsub RO p' (vscale RO hm (gradV q'))).
      set (q'' := vadd RO q' (vscale RO (ropp eps) (gradK imm p1s))).
      set (p'' := vsub RO p1s (vscale RO hm (gradV q''))).
      assert (E2 : L (ropp eps) imm (mkQP q' p') = mkQP q'' p'') by reflexivity.
      rewrite E2.
      assert (Hh : hm = ropp h) by (unfold hm, h; cbn [RO odiv]; apply div_opp).
      assert (H1 : veq p1s p1).
      { intro i. unfold p1s, p', vsub, vscale. rewrite Hh. cbn [RO oadd osub omul oopp]. ring. }
      assert (H2 := gradK_ext imm _ _ H1).
      assert (H3 : veq q'' q).
      { intro i. unfold q'', q', vadd, vscale. rewrite (H2 i). cbn [RO oadd osub omul oopp]. ring. }
      assert (H4 := gradV_ext _ _ H3).
      split; [exact H3|].
      intro i. cbn [momentum]. unfold p''. unfold vsub at 1, vscale at 1. rewrite (H1 i), (H4 i), Hh.
      unfold p1, vsub, vscale. cbn [RO oadd osub omul oopp]. change (momentum z) with p. ring.
    Qed.

    Lemma reversible_neg_n eps imm n z :
      qpeq (fori n (L (ropp eps) imm) (fori n (L eps imm) z)) z.
    Proof.
      revert z; induction n; intro z; [apply qpeq_refl|].
      change (fori (S n) (L eps imm) z) with (L eps imm (fori n (L eps imm) z)).
      change (fori (S n) (L (ropp eps) imm) ?w) with (L (ropp eps) imm (fori n (L (ropp eps) imm) w)).
      rewrite <- fori_shift.
      eapply qpeq_trans; [|apply IHn].
      apply fori_L_ext, reversible_neg_1.
    Qed.
  End Neg.
End Ring.
