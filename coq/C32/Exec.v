(* C32 -- running the model on rationals (correspondence checks, evaluated by vm_compute).
   No proofs.  The implementation's float64 results enter as exact (dyadic) rationals. *)
From Coq Require Import ZArith NArith QArith Qminmax Qabs List Bool.
Import ListNotations.
Require Import NV.C32.Model NV.C32.Gen_Leapfrog.
Local Open Scope Q_scope.

Definition Qltb (a b : Q) : bool := negb (Qle_bool b a).
Definition QO : Ops Q :=
  mkOps Q 0 1 (fun a b => Qred (a + b)) (fun a b => Qred (a - b)) (fun a b => Qred (a * b))
        (fun a b => Qred (a / b)) Qopp inject_Z Qltb.

Definition vl (l : list Q) : vec Q := fun i => nth i l 0.
Definition qp_of (q p : list Q) : QP Q := mkQP (vl q) (vl p).

(* potential family of the correspondence (Python: harness/props/c32.py, `make_potential`):
     V(q) = b.q + 1/2 q.A.q + 1/4 sum_i c_i q_i^4          (A symmetric)
     optional barrier: V = bad value (NaN or +inf) where q_0 > t; jax.grad gives 0 there *)
Record pot := mkPot { pd : nat; pA : list (list Q); pb : list Q; pc : list Q;
                      pbar : option (Q * bool) (* threshold, true = NaN / false = +inf *) }.

Fixpoint sumf (d : nat) (f : nat -> Q) : Q :=
  match d with 0%nat => 0 | S d' => Qred (sumf d' f + f d') end.
Definition Aij (P : pot) i j : Q := nth j (nth i (pA P) []) 0.
Definition in_bar (P : pot) (q : vec Q) : bool :=
  match pbar P with Some (t, _) => Qltb t (q 0%nat) | None => false end.
Definition polyV (P : pot) (q : vec Q) : Q :=
  Qred (sumf (pd P) (fun i => nth i (pb P) 0 * q i)
        + (1 # 2) * sumf (pd P) (fun i => q i * sumf (pd P) (fun j => Aij P i j * q j))
        + (1 # 4) * sumf (pd P) (fun i => nth i (pc P) 0 * (q i * q i * (q i * q i)))).
Definition gradP (P : pot) (q : vec Q) : vec Q :=
  fun i => if in_bar P q then 0
           else Qred (nth i (pb P) 0 + sumf (pd P) (fun j => Aij P i j * q j) + nth i (pc P) 0 * (q i * q i * q i)).
Definition Vext (P : pot) (q : vec Q) : ext Q :=
  if in_bar P q then (match pbar P with Some (_, true) => NaN | _ => PInf end) else Fin (polyV P q).

(* re-tabulation of an index function on its first d entries (extensionally the identity there):
   vm_compute is call-by-value, so the table is computed once instead of once per access *)
Definition freeze (d : nat) (v : vec Q) : vec Q := vl (map v (seq 0 d)).
Definition freezeQP (d : nat) (z : QP Q) : QP Q := mkQP (freeze d (position z)) (freeze d (momentum z)).

(* stepper = partial(leapfrog_step, potential_energy_gradient, kinetic_energy_gradient) *)
Definition stepper (P : pot) (eps : Q) (imm : vec Q) (z : QP Q) : QP Q :=
  freezeQP (pd P) (leapfrog_step QO (gradP P) (kinetic_energy_gradient QO) eps imm z).

(* total_energy_of_qp, with the potential possibly non-finite *)
Definition Hext (P : pot) (imm : vec Q) (z : QP Q) : ext Q :=
  ext_add QO (Vext P (position z)) (Fin (kinetic_energy QO (pd P) imm (momentum z))).
(* and the translated total_energy_of_qp on the finite branch *)
Definition Hfin (P : pot) (imm : vec Q) (z : QP Q) : Q :=
  total_energy_of_qp QO z (polyV P) (kinetic_energy QO (pd P) imm).

Definition close (tol : Q) (m x : Q) : bool :=
  Qle_bool (Qabs (m - x)) (tol * Qmax 1 (Qabs x)).
Fixpoint vclose (tol : Q) (d : nat) (m : vec Q) (x : list Q) : bool :=
  match d with 0%nat => true | S d' => vclose tol d' m x && close tol (m d') (nth d' x 0) end.
Definition qpclose tol d (z : QP Q) (xq xp : list Q) : bool :=
  vclose tol d (position z) xq && vclose tol d (momentum z) xp.

(* n leapfrog steps against the real leapfrog_step *)
Definition lf_case (P : pot) (eps : Q) (imm q p : list Q) (n : nat) (tol : Q) (xq xp : list Q) : bool :=
  qpclose tol (pd P) (fori n (stepper P eps (vl imm)) (qp_of q p)) xq xp.

(* energies against the implementation's potential / kinetic energy *)
Definition energy_case (P : pot) (imm q p : list Q) (tol : Q) (x : Q) : bool :=
  close tol (Hfin P (vl imm) (qp_of q p)) x &&
  match Hext P (vl imm) (qp_of q p) with Fin e => Qeq_bool e (Hfin P (vl imm) (qp_of q p)) | _ => false end.

(* generate_hmc_acc_rej:
     new_qp = fori_loop(0, num_steps, lambda _, args: loop_body(args), initial_qp)
     proposed_qp = flip_momentum(new_qp)
     energy_diff = total_energy(initial_qp) - total_energy(proposed_qp)
     energy_diff = jnp.where(jnp.isnan(energy_diff), -jnp.inf, energy_diff)
     transition_probability = jnp.minimum(1.0, jnp.exp(energy_diff))
     accept = random.bernoulli(key, transition_probability)
     accepted_qp, rejected_qp = select(accept, (proposed_qp, initial_qp), (initial_qp, proposed_qp))
     diverging = jnp.abs(energy_diff) > max_energy_difference                                   *)
Record hmc_out := mkOut { h_acc : bool; h_div : bool; h_accepted : QP Q; h_rejected : QP Q;
                          h_near_tie : bool }.
Definition hmc_step (P : pot) (eps : Q) (imm : vec Q) (n : nat) (lnu : Q) (maxd : option Q) (z : QP Q) : hmc_out :=
  let new_qp := fori n (stepper P eps imm) z in
  let proposed := flip_momentum QO new_qp in
  let d := nan_rule (ext_sub QO (Hext P imm z) (Hext P imm proposed)) in
  let a := accept_log QO lnu d in
  let tie := match d with
             | Fin e => Qle_bool (Qabs e) (1 # 1000000000) || Qle_bool (Qabs (e - lnu)) (1 # 1000000000)
                        || match maxd with Some mx => Qle_bool (Qabs (Qabs e - mx)) (1 # 1000000000) | None => false end
             | _ => false end in
  mkOut a (diverging QO maxd d) (if a then proposed else z) (if a then z else proposed) tie.

(* decision, divergence flag and both returned points; decisions are only compared away from ties *)
Definition hmc_case (P : pot) (eps : Q) (imm q p : list Q) (n : nat) (lnu : Q) (maxd : option Q) (tol : Q)
           (xacc xdiv : bool) (aq ap rq rp : list Q) : bool :=
  let o := hmc_step P eps (vl imm) n lnu maxd (qp_of q p) in
  h_near_tie o ||
  (Bool.eqb (h_acc o) xacc && Bool.eqb (h_div o) xdiv &&
   qpclose tol (pd P) (h_accepted o) aq ap && qpclose tol (pd P) (h_rejected o) rq rp).

(* is_euclidean_uturn on recorded float arguments (exact), skipped when a product is within 1e-12 of 0 *)
Definition uturn_case (d : nat) (lq lp rq rp : list Q) (x : bool) : bool :=
  let l := qp_of lq lp in let r := qp_of rq rp in
  let a := vdot QO d (momentum r) (vsub QO (position r) (position l)) in
  let b := vdot QO d (momentum l) (vsub QO (position l) (position r)) in
  Qle_bool (Qabs a) (1 # 1000000000000) || Qle_bool (Qabs b) (1 # 1000000000000) ||
  Bool.eqb (is_euclidean_uturn QO d l r) x.

(* checkpoint events of one iterative_build_tree call that made [iters] loop iterations *)
Definition ckev_eqb (a b : ckev) : bool :=
  match a, b with
  | Wr _ s, Wr _ t => Z.eqb s t
  | Rd _ s, Rd _ t => Z.eqb s t
  | _, _ => false end.
Fixpoint list_eqb {A} (e : A -> A -> bool) (a b : list A) : bool :=
  match a, b with [] , [] => true | x :: r, y :: s => e x y && list_eqb e r s | _, _ => false end.
Definition ckpt_case (iters : nat) (obs : list ckev) : bool := list_eqb ckev_eqb (events_upto iters) obs.

Definition bits_case (n pc cto : N) : bool := N.eqb (popcount n) pc && N.eqb (count_trailing_ones n) cto.

(* progressive sampling: recorded keep-probabilities of add_single_qp_to_tree against W/(W+w) *)
Fixpoint prog_keeps (st : Q * list Q) (ws : list Q) : list Q :=
  match ws with
  | [] => []
  | w :: r => let st' := add_point st w in Qred (1 - last (snd st') 0) :: prog_keeps st' r
  end.
Fixpoint lclose (tol : Q) (a b : list Q) : bool :=
  match a, b with [], [] => true | x :: r, y :: s => close tol x y && lclose tol r s | _, _ => false end.
Definition prog_case (w0 : Q) (ws : list Q) (tol : Q) (xkeep : list Q) (xtotal : Q) : bool :=
  lclose tol (prog_keeps (w0, [1]) ws) xkeep && close tol (fst (progressive w0 ws)) xtotal.
Definition merge_case (bias : bool) (Wc Wn tol x : Q) : bool := close tol (merge_prob bias Wc Wn) x.

(* which sub-key reproduces, bit for bit, the momentum of each leaf (found by the harness) *)
Definition momentum_case (n : nat) (obs : list Z) : bool := list_eqb Z.eqb (leaf_keys n) obs.

(* resumed chains: samples (as the integer bit patterns of their float64 entries) of one run against
   the concatenation of the segments; number of key advances of every returned core state *)
Definition resume_case (one : list (list Z)) (segs : list (list (list Z))) : bool :=
  list_eqb (list_eqb Z.eqb) one (concat segs).
Definition key_case (num_samples observed : nat) : bool := Nat.eqb (key_advances num_samples) observed.

(* the sampler's mass_matrix_sqrt entry against its inverse_mass_matrix entry (relative tolerance for the
   floating-point power) *)
Definition mass_case (tol s im : Q) : bool := close tol (s * s * im) 1.

Definition merge_guard_case (turning diverging merged : bool) : bool := Bool.eqb (merge_guard turning diverging) merged.
