(* C10 -- the rational instance: in characteristic 0 the member counts of non-empty bins are
   non-zero field elements, so [rho_ok] follows from the combinatorial condition [bins_ok]. *)
From Coq Require Import List Arith Lia QArith Qcanon.
Import ListNotations.
Require Import NV.C10.Model NV.C10.Proofs.
Open Scope nat_scope.

Lemma ofn_Qc_nonneg n : (0 <= of_nat Qc 0%Qc 1%Qc Qcplus n)%Qc.
Proof.
  induction n; simpl; [apply Qcle_refl|].
  replace 0%Qc with (0 + 0)%Qc by ring.
  apply Qcplus_le_compat; [exact IHn|]. unfold Qcle; simpl. discriminate.
Qed.

Lemma ofn_Qc_pos n : n <> 0 -> of_nat Qc 0%Qc 1%Qc Qcplus n <> 0%Qc.
Proof.
  destruct n as [|k]; [congruence|]. intros _ E. simpl in E.
  pose proof (ofn_Qc_nonneg k) as H.
  assert (L : (0 + 1 <= of_nat Qc 0 1 Qcplus k + 1)%Qc) by (apply Qcplus_le_compat; [exact H|apply Qcle_refl]).
  rewrite E in L. revert L. unfold Qcle; simpl. intros L. apply L. reflexivity.
Qed.

Lemma rho_ok_Qc pindex nbin : bins_ok pindex nbin -> rho_ok Qc 0%Qc 1%Qc Qcplus pindex nbin.
Proof. intros [_ Hne] b Hb. apply ofn_Qc_pos. apply Hne. exact Hb. Qed.
