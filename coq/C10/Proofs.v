(* C10 -- lemmas.  All statements are for an arbitrary field (R, 0, 1, +, *, -, /, inv) with
   Leibniz equality; the distributor lemmas only use the ring laws. *)
From Coq Require Import List Arith Bool Lia Ring Field.
Import ListNotations.
Require Import NV.C10.Model.

(* ---------------------------------------------------------------------------------------------- *)
(* index arithmetic of the (pre, n, post) block layout                                             *)
(* ---------------------------------------------------------------------------------------------- *)
Definition idx3 (n post i1 j i3 : nat) : nat := (i1 * n + j) * post + i3.

Lemma idx3_decode n post i1 j i3 :
  j < n -> i3 < post ->
  idx3 n post i1 j i3 mod post = i3 /\
  (idx3 n post i1 j i3 / post) mod n = j /\
  idx3 n post i1 j i3 / post / n = i1.
Proof.
  intros Hj H3. unfold idx3.
  assert (Hp : post <> 0) by lia. assert (Hn : n <> 0) by lia.
  assert (E1 : ((i1 * n + j) * post + i3) / post = i1 * n + j).
  { rewrite Nat.div_add_l by exact Hp. rewrite Nat.div_small by exact H3. lia. }
  repeat split.
  - rewrite Nat.add_comm, Nat.mod_add by exact Hp. apply Nat.mod_small; exact H3.
  - rewrite E1. rewrite Nat.add_comm, Nat.mod_add by exact Hn. apply Nat.mod_small; exact Hj.
  - rewrite E1. rewrite Nat.div_add_l by exact Hn. rewrite Nat.div_small by exact Hj. lia.
Qed.

Lemma idx3_lt pre n post i1 j i3 :
  i1 < pre -> j < n -> i3 < post -> idx3 n post i1 j i3 < pre * n * post.
Proof.
  intros H1 Hj H3. unfold idx3.
  assert ((i1 * n + j) + 1 <= pre * n) by nia.
  assert (((i1 * n + j) + 1) * post <= pre * n * post) by (apply Nat.mul_le_mono_r; assumption).
  nia.
Qed.

Lemma idx3_encode pre n post t :
  t < pre * n * post ->
  t = idx3 n post (t / post / n) ((t / post) mod n) (t mod post) /\
  t / post / n < pre /\ (t / post) mod n < n /\ t mod post < post.
Proof.
  intros Ht.
  assert (Hp : post <> 0) by (intro; subst; lia).
  assert (Hn : n <> 0) by (intro; subst; lia).
  unfold idx3.
  pose proof (Nat.div_mod t post Hp) as E1.
  pose proof (Nat.div_mod (t / post) n Hn) as E2.
  pose proof (Nat.mod_upper_bound t post Hp).
  pose proof (Nat.mod_upper_bound (t / post) n Hn).
  repeat split; try assumption.
  - rewrite (Nat.mul_comm (t / post / n) n). rewrite <- E2. lia.
  - assert (t / post < pre * n).
    { apply Nat.div_lt_upper_bound; [exact Hp|]. lia. }
    apply Nat.div_lt_upper_bound; [exact Hn|]. lia.
Qed.

(* ---------------------------------------------------------------------------------------------- *)
(* generic list facts                                                                              *)
(* ---------------------------------------------------------------------------------------------- *)
Lemma nth_map_seq {A} (f : nat -> A) (n t : nat) (d : A) :
  t < n -> nth t (map f (seq 0 n)) d = f t.
Proof.
  intros H. rewrite (nth_indep _ d (f 0)) by (rewrite map_length, seq_length; exact H).
  rewrite map_nth. rewrite seq_nth by exact H. reflexivity.
Qed.

Lemma nth_map_in {A B} (f : A -> B) (l : list A) (t : nat) (da : A) (db : B) :
  t < length l -> nth t (map f l) db = f (nth t l da).
Proof.
  intros H. rewrite (nth_indep _ db (f da)) by (rewrite map_length; exact H).
  apply map_nth.
Qed.

Lemma updG_length {A} (l : list A) i v : length (updG l i v) = length l.
Proof. revert i; induction l; intros [|i]; simpl; auto. Qed.

Lemma nth_updG {A} (l : list A) i v k d :
  nth k (updG l i v) d = if (i =? k) && (i <? length l) then v else nth k l d.
Proof.
  revert i k; induction l as [|x l IH]; intros [|i] [|k]; simpl; auto.
  - destruct (i =? k); reflexivity.
  - rewrite IH. reflexivity.
Qed.

(* bincount: the accumulated entry b is the old entry plus the sum of the weights with index b *)
Section Bincount.
Context {A : Type} (zero : A) (add : A -> A -> A).
Hypothesis add_assoc : forall x y z, add x (add y z) = add (add x y) z.
Hypothesis add_0_r : forall x, add x zero = x.
Hypothesis add_0_l : forall x, add zero x = x.

Fixpoint bsum (idx : list nat) (w : list A) (b : nat) : A :=
  match idx, w with
  | i :: idx', v :: w' => add (if i =? b then v else zero) (bsum idx' w' b)
  | _, _ => zero
  end.

Lemma bincount_acc_length idx w acc : length (bincount_acc zero add idx w acc) = length acc.
Proof.
  revert w acc; induction idx as [|i idx IH]; intros [|v w] acc; simpl; auto.
  rewrite IH. apply updG_length.
Qed.

Lemma bincount_acc_nth idx w acc b :
  Forall (fun i => i < length acc) idx ->
  nth b (bincount_acc zero add idx w acc) zero = add (nth b acc zero) (bsum idx w b).
Proof.
  revert w acc; induction idx as [|i idx IH]; intros [|v w] acc Hall; simpl;
    try (rewrite add_0_r; reflexivity).
  inversion Hall as [|? ? Hi Hrest]; subst.
  rewrite IH by (rewrite updG_length; exact Hrest).
  rewrite nth_updG.
  apply Nat.ltb_lt in Hi. rewrite Hi, andb_true_r.
  destruct (i =? b) eqn:E.
  - apply Nat.eqb_eq in E; subst. rewrite add_assoc. reflexivity.
  - rewrite add_0_l. reflexivity.
Qed.

Lemma bincountG_length idx w nbin :
  Forall (fun i => i < nbin) idx -> length (bincountG zero add idx w nbin) = nbin.
Proof.
  intros H. unfold bincountG. rewrite bincount_acc_length, repeat_length.
  apply Nat.max_l. unfold bins_len. destruct idx as [|i idx]; [lia|].
  assert (list_max (i :: idx) < nbin); [|lia].
  destruct nbin as [|m]. { inversion H; lia. }
  apply Nat.lt_succ_r. apply list_max_le. eapply Forall_impl; [|exact H]. simpl; intros; lia.
Qed.

Lemma bincountG_nth idx w nbin b :
  Forall (fun i => i < nbin) idx -> b < nbin ->
  nth b (bincountG zero add idx w nbin) zero = bsum idx w b.
Proof.
  intros H Hb. unfold bincountG.
  assert (L : Nat.max nbin (bins_len idx) = nbin).
  { pose proof (bincountG_length idx w nbin H) as E. unfold bincountG in E.
    rewrite bincount_acc_length, repeat_length in E. exact E. }
  rewrite L. rewrite bincount_acc_nth by (rewrite repeat_length; exact H).
  rewrite nth_repeat. apply add_0_l.
Qed.
End Bincount.

(* ---------------------------------------------------------------------------------------------- *)
(* the field section                                                                               *)
(* ---------------------------------------------------------------------------------------------- *)
Section Th.
Variable R : Type.
Variables (r0 r1 : R) (radd rmul rsub : R -> R -> R) (ropp : R -> R) (rdiv : R -> R -> R) (rinv : R -> R).
Hypothesis Rfield : field_theory r0 r1 radd rmul rsub ropp rdiv rinv (@eq R).
Add Field Rf : Rfield.

Local Infix "+" := radd.
Local Infix "*" := rmul.
Local Notation get := (get R r0).
Local Notation ofn := (of_nat R r0 r1 radd).

(* Sum n F = F 0 + ... + F (n-1) *)
Fixpoint Sum (n : nat) (F : nat -> R) : R :=
  match n with O => r0 | S k => Sum k F + F k end.

Lemma Sum_ext n F G : (forall j, j < n -> F j = G j) -> Sum n F = Sum n G.
Proof. induction n; simpl; intros H; [reflexivity|]. rewrite IHn, H by auto. reflexivity. Qed.

Lemma Sum_add n F G : Sum n (fun j => F j + G j) = Sum n F + Sum n G.
Proof. induction n; simpl; [ring|]. rewrite IHn. ring. Qed.

Lemma Sum_scale n F c : Sum n (fun j => F j * c) = Sum n F * c.
Proof. induction n; simpl; [ring|]. rewrite IHn. ring. Qed.

Lemma Sum_zero n : Sum n (fun _ => r0) = r0.
Proof. induction n; simpl; [reflexivity|]. rewrite IHn. ring. Qed.

Lemma Sum_shift n F : Sum (S n) F = F 0 + Sum n (fun j => F (S j)).
Proof. induction n; [simpl; ring|]. change (Sum (S (S n)) F) with (Sum (S n) F + F (S n)). rewrite IHn. simpl. ring. Qed.

Lemma Sum_swap a b (G : nat -> nat -> R) :
  Sum a (fun i => Sum b (fun k => G i k)) = Sum b (fun k => Sum a (fun i => G i k)).
Proof.
  induction a; simpl; [symmetry; apply Sum_zero|].
  rewrite IHa. rewrite <- Sum_add. reflexivity.
Qed.

Lemma Sum_split a b F : Sum (a * b) F = Sum a (fun i => Sum b (fun k => F (i * b + k))).
Proof.
  induction a; simpl; [reflexivity|].
  rewrite <- IHa. clear IHa.
  replace (b + a * b) with (a * b + b) by lia.
  generalize (a * b) as m. intros m.
  induction b; simpl.
  - rewrite Nat.add_0_r. ring.
  - replace (m + S b) with (S (m + b)) by lia. simpl. rewrite IHb. ring.
Qed.

(* picking one index out of a sum *)
Lemma Sum_pick n k (F : nat -> R) :
  k < n -> Sum n (fun b => if k =? b then F b else r0) = F k.
Proof.
  induction n; intros H; [lia|]. simpl.
  destruct (Nat.eq_dec k n) as [->|Hne].
  - rewrite Nat.eqb_refl. rewrite (Sum_ext n _ (fun _ => r0)).
    + rewrite Sum_zero. ring.
    + intros j Hj. destruct (n =? j) eqn:E; [apply Nat.eqb_eq in E; lia|reflexivity].
  - assert (E : (k =? n) = false) by (apply Nat.eqb_neq; exact Hne). rewrite E.
    rewrite IHn by lia. ring.
Qed.

(* bsum (head first) as an indexed sum *)
Lemma bsum_Sum (idx : list nat) (w : list R) b :
  length w = length idx ->
  bsum r0 radd idx w b = Sum (length idx) (fun j => if nth j idx 0 =? b then get w j else r0).
Proof.
  revert w; induction idx as [|i idx IH]; intros [|v w] HL; simpl in HL; try discriminate; [reflexivity|].
  change (length (i :: idx)) with (S (length idx)). rewrite Sum_shift. simpl bsum.
  rewrite IH by lia. reflexivity.
Qed.

Lemma radd_assoc x y z : x + (y + z) = (x + y) + z. Proof. ring. Qed.
Lemma radd_0_r x : x + r0 = x. Proof. ring. Qed.
Lemma radd_0_l x : r0 + x = x. Proof. ring. Qed.

Lemma get_map_seq (f : nat -> R) n t : t < n -> get (map f (seq 0 n)) t = f t.
Proof. apply nth_map_seq. Qed.

(* ---- DOFDistributor._times --------------------------------------------------------------------- *)
Lemma dist_times_length pre n post nbin pindex x :
  length (dist_times R r0 pre n post nbin pindex x) = pre * n * post.
Proof. unfold dist_times. rewrite map_length, seq_length. reflexivity. Qed.

Lemma dist_times_get pre n post nbin pindex x i1 j i3 :
  i1 < pre -> j < n -> i3 < post ->
  get (dist_times R r0 pre n post nbin pindex x) (idx3 n post i1 j i3)
  = get x (idx3 nbin post i1 (nth j pindex 0) i3).
Proof.
  intros H1 Hj H3. unfold dist_times.
  rewrite get_map_seq by (apply idx3_lt; assumption).
  destruct (idx3_decode n post i1 j i3 Hj H3) as (E1 & E2 & E3).
  rewrite E1, E2, E3. reflexivity.
Qed.

(* ---- DOFDistributor._adjoint_times ------------------------------------------------------------- *)
Lemma dist_adjoint_length pre n post nbin pindex x :
  length (dist_adjoint R r0 radd pre n post nbin pindex x) = pre * nbin * post.
Proof. unfold dist_adjoint. rewrite map_length, seq_length. reflexivity. Qed.

Lemma column_length n post x i1 i3 : length (column R r0 n post x i1 i3) = n.
Proof. unfold column. rewrite map_length, seq_length. reflexivity. Qed.

Lemma dist_adjoint_get pre n post nbin pindex x i1 b i3 :
  length pindex = n -> Forall (fun i => i < nbin) pindex ->
  i1 < pre -> b < nbin -> i3 < post ->
  get (dist_adjoint R r0 radd pre n post nbin pindex x) (idx3 nbin post i1 b i3)
  = Sum n (fun j => if nth j pindex 0 =? b then get x (idx3 n post i1 j i3) else r0).
Proof.
  intros HL Hall H1 Hb H3. unfold dist_adjoint.
  rewrite get_map_seq by (apply idx3_lt; assumption).
  destruct (idx3_decode nbin post i1 b i3 Hb H3) as (E1 & E2 & E3).
  rewrite E1, E2, E3.
  assert (Hc : i1 * post + i3 < pre * post) by nia.
  rewrite (nth_map_seq _ _ _ [] Hc).
  assert (Hp : post <> 0) by lia.
  assert (Ed : (i1 * post + i3) / post = i1).
  { rewrite Nat.div_add_l by exact Hp. rewrite Nat.div_small by exact H3. lia. }
  assert (Em : (i1 * post + i3) mod post = i3).
  { rewrite Nat.add_comm, Nat.mod_add by exact Hp. apply Nat.mod_small; exact H3. }
  rewrite Ed, Em. unfold bincount, Model.get.
  rewrite (bincountG_nth r0 radd radd_assoc radd_0_r radd_0_l) by assumption.
  rewrite bsum_Sum by (rewrite column_length; auto).
  rewrite HL, radd_0_l. apply Sum_ext. intros j Hj.
  destruct (nth j pindex 0 =? b); [|reflexivity].
  unfold column. rewrite get_map_seq by exact Hj. reflexivity.
Qed.
