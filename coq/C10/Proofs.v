(* C10 -- lemmas.  All statements are for an arbitrary field (R, 0, 1, +, *, -, /, inv) with
   Leibniz equality; the distributor lemmas only use the ring laws. *)
From Coq Require Import List Arith Bool Lia Ring Field.
Import ListNotations.
Require Import NV.C10.Model.

(* ---------------------------------------------------------------------------------------------- *)
(* index arithmetic of the (pre, n, post) block layout                                             *)
(* ---------------------------------------------------------------------------------------------- *)
Definition idx3 (n post i1 j i3 : nat) : nat := (i1 * n + j) * post + i3.

Lemma idx3_decode n post i1 j i3 :
  j < n -> i3 < post ->
  idx3 n post i1 j i3 mod post = i3 /\
  (idx3 n post i1 j i3 / post) mod n = j /\
  idx3 n post i1 j i3 / post / n = i1.
Proof.
  intros Hj H3. unfold idx3.
  assert (Hp : post <> 0) by lia. assert (Hn : n <> 0) by lia.
  assert (E1 : ((i1 * n + j) * post + i3) / post = i1 * n + j).
  { rewrite Nat.div_add_l by exact Hp. rewrite Nat.div_small by exact H3. lia. }
  repeat split.
  - rewrite Nat.add_comm, Nat.mod_add by exact Hp. apply Nat.mod_small; exact H3.
  - rewrite E1. rewrite Nat.add_comm, Nat.mod_add by exact Hn. apply Nat.mod_small; exact Hj.
  - rewrite E1. rewrite Nat.div_add_l by exact Hn. rewrite Nat.div_small by exact Hj. lia.
Qed.

Lemma idx3_lt pre n post i1 j i3 :
  i1 < pre -> j < n -> i3 < post -> idx3 n post i1 j i3 < pre * n * post.
Proof.
  intros H1 Hj H3. unfold idx3.
  assert ((i1 * n + j) + 1 <= pre * n) by nia.
  assert (((i1 * n + j) + 1) * post <= pre * n * post) by (apply Nat.mul_le_mono_r; assumption).
  nia.
Qed.

Lemma idx3_encode pre n post t :
  t < pre * n * post ->
  t = idx3 n post (t / post / n) ((t / post) mod n) (t mod post) /\
  t / post / n < pre /\ (t / post) mod n < n /\ t mod post < post.
Proof.
  intros Ht.
  assert (Hp : post <> 0) by (intro; subst; lia).
  assert (Hn : n <> 0) by (intro; subst; lia).
  unfold idx3.
  pose proof (Nat.div_mod t post Hp) as E1.
  pose proof (Nat.div_mod (t / post) n Hn) as E2.
  pose proof (Nat.mod_upper_bound t post Hp).
  pose proof (Nat.mod_upper_bound (t / post) n Hn).
  repeat split; try assumption.
  - rewrite (Nat.mul_comm (t / post / n) n). rewrite <- E2. lia.
  - assert (t / post < pre * n).
    { apply Nat.div_lt_upper_bound; [exact Hp|]. lia. }
    apply Nat.div_lt_upper_bound; [exact Hn|]. lia.
Qed.

(* ---------------------------------------------------------------------------------------------- *)
(* generic list facts                                                                              *)
(* ---------------------------------------------------------------------------------------------- *)
Lemma nth_map_seq {A} (f : nat -> A) (n t : nat) (d : A) :
  t < n -> nth t (map f (seq 0 n)) d = f t.
Proof.
  intros H. rewrite (nth_indep _ d (f 0)) by (rewrite map_length, seq_length; exact H).
  rewrite map_nth. rewrite seq_nth by exact H. reflexivity.
Qed.

Lemma nth_map_in {A B} (f : A -> B) (l : list A) (t : nat) (da : A) (db : B) :
  t < length l -> nth t (map f l) db = f (nth t l da).
Proof.
  intros H. rewrite (nth_indep _ db (f da)) by (rewrite map_length; exact H).
  apply map_nth.
Qed.

Lemma updG_length {A} (l : list A) i v : length (updG l i v) = length l.
Proof. revert i; induction l; intros [|i]; simpl; auto. Qed.

Lemma nth_updG {A} (l : list A) i v k d :
  nth k (updG l i v) d = if (i =? k) && (i <? length l) then v else nth k l d.
Proof.
  revert i k; induction l as [|x l IH]; intros [|i] [|k]; simpl; auto.
  - destruct (i =? k); reflexivity.
  - rewrite IH. reflexivity.
Qed.

(* bincount: the accumulated entry b is the old entry plus the sum of the weights with index b *)
Section Bincount.
Context {A : Type} (zero : A) (add : A -> A -> A).
Hypothesis add_assoc : forall x y z, add x (add y z) = add (add x y) z.
Hypothesis add_0_r : forall x, add x zero = x.
Hypothesis add_0_l : forall x, add zero x = x.

Fixpoint bsum (idx : list nat) (w : list A) (b : nat) : A :=
  match idx, w with
  | i :: idx', v :: w' => add (if i =? b then v else zero) (bsum idx' w' b)
  | _, _ => zero
  end.

Lemma bincount_acc_length idx w acc : length (bincount_acc zero add idx w acc) = length acc.
Proof.
  revert w acc; induction idx as [|i idx IH]; intros [|v w] acc; simpl; auto.
  rewrite IH. apply updG_length.
Qed.

Lemma bincount_acc_nth idx w acc b :
  Forall (fun i => i < length acc) idx ->
  nth b (bincount_acc zero add idx w acc) zero = add (nth b acc zero) (bsum idx w b).
Proof.
  revert w acc; induction idx as [|i idx IH]; intros [|v w] acc Hall; simpl;
    try (rewrite add_0_r; reflexivity).
  inversion Hall as [|? ? Hi Hrest]; subst.
  rewrite IH by (rewrite updG_length; exact Hrest).
  rewrite nth_updG.
  apply Nat.ltb_lt in Hi. rewrite Hi, andb_true_r.
  destruct (i =? b) eqn:E.
  - apply Nat.eqb_eq in E; subst. rewrite add_assoc. reflexivity.
  - rewrite add_0_l. reflexivity.
Qed.

Lemma bincountG_length idx w nbin :
  Forall (fun i => i < nbin) idx -> length (bincountG zero add idx w nbin) = nbin.
Proof.
  intros H. unfold bincountG. rewrite bincount_acc_length, repeat_length.
  apply Nat.max_l. unfold bins_len. destruct idx as [|i idx]; [lia|].
  assert (list_max (i :: idx) < nbin); [|lia].
  destruct nbin as [|m]. { inversion H; lia. }
  apply Nat.lt_succ_r. apply list_max_le. eapply Forall_impl; [|exact H]. simpl; intros; lia.
Qed.

Lemma bincountG_nth idx w nbin b :
  Forall (fun i => i < nbin) idx -> b < nbin ->
  nth b (bincountG zero add idx w nbin) zero = bsum idx w b.
Proof.
  intros H Hb. unfold bincountG.
  assert (L : Nat.max nbin (bins_len idx) = nbin).
  { pose proof (bincountG_length idx w nbin H) as E. unfold bincountG in E.
    rewrite bincount_acc_length, repeat_length in E. exact E. }
  rewrite L. rewrite bincount_acc_nth by (rewrite repeat_length; exact H).
  rewrite nth_repeat. apply add_0_l.
Qed.
End Bincount.
