(* C10 -- lemmas.  All statements are for an arbitrary field (R, 0, 1, +, *, -, /, inv) with
   Leibniz equality; the distributor lemmas only use the ring laws. *)
From Coq Require Import List Arith Bool Lia Ring Field.
Import ListNotations.
Require Import NV.C10.Model.

(* ---------------------------------------------------------------------------------------------- *)
(* index arithmetic of the (pre, n, post) block layout                                             *)
(* ---------------------------------------------------------------------------------------------- *)
Definition idx3 (n post i1 j i3 : nat) : nat := (i1 * n + j) * post + i3.

Lemma idx3_decode n post i1 j i3 :
  j < n -> i3 < post ->
  idx3 n post i1 j i3 mod post = i3 /\
  (idx3 n post i1 j i3 / post) mod n = j /\
  idx3 n post i1 j i3 / post / n = i1.
Proof.
  intros Hj H3. unfold idx3.
  assert (Hp : post <> 0) by lia. assert (Hn : n <> 0) by lia.
  assert (E1 : ((i1 * n + j) * post + i3) / post = i1 * n + j).
  { rewrite Nat.div_add_l by exact Hp. rewrite Nat.div_small by exact H3. lia. }
  repeat split.
  - rewrite Nat.add_comm, Nat.mod_add by exact Hp. apply Nat.mod_small; exact H3.
  - rewrite E1. rewrite Nat.add_comm, Nat.mod_add by exact Hn. apply Nat.mod_small; exact Hj.
  - rewrite E1. rewrite Nat.div_add_l by exact Hn. rewrite Nat.div_small by exact Hj. lia.
Qed.

Lemma idx3_lt pre n post i1 j i3 :
  i1 < pre -> j < n -> i3 < post -> idx3 n post i1 j i3 < pre * n * post.
Proof.
  intros H1 Hj H3. unfold idx3.
  assert ((i1 * n + j) + 1 <= pre * n) by nia.
  assert (((i1 * n + j) + 1) * post <= pre * n * post) by (apply Nat.mul_le_mono_r; assumption).
  nia.
Qed.

Lemma idx3_encode pre n post t :
  t < pre * n * post ->
  t = idx3 n post (t / post / n) ((t / post) mod n) (t mod post) /\
  t / post / n < pre /\ (t / post) mod n < n /\ t mod post < post.
Proof.
  intros Ht.
  assert (Hp : post <> 0) by (intro; subst; lia).
  assert (Hn : n <> 0) by (intro; subst; lia).
  unfold idx3.
  pose proof (Nat.div_mod t post Hp) as E1.
  pose proof (Nat.div_mod (t / post) n Hn) as E2.
  pose proof (Nat.mod_upper_bound t post Hp).
  pose proof (Nat.mod_upper_bound (t / post) n Hn).
  repeat split; try assumption.
  - rewrite (Nat.mul_comm (t / post / n) n). rewrite <- E2. lia.
  - assert (t / post < pre * n).
    { apply Nat.div_lt_upper_bound; [exact Hp|]. lia. }
    apply Nat.div_lt_upper_bound; [exact Hn|]. lia.
Qed.

(* ---------------------------------------------------------------------------------------------- *)
(* generic list facts                                                                              *)
(* ---------------------------------------------------------------------------------------------- *)
Lemma nth_map_seq {A} (f : nat -> A) (n t : nat) (d : A) :
  t < n -> nth t (map f (seq 0 n)) d = f t.
Proof.
  intros H. rewrite (nth_indep _ d (f 0)) by (rewrite map_length, seq_length; exact H).
  rewrite map_nth. rewrite seq_nth by exact H. reflexivity.
Qed.

Lemma nth_map_in {A B} (f : A -> B) (l : list A) (t : nat) (da : A) (db : B) :
  t < length l -> nth t (map f l) db = f (nth t l da).
Proof.
  intros H. rewrite (nth_indep _ db (f da)) by (rewrite map_length; exact H).
  apply map_nth.
Qed.

Lemma updG_length {A} (l : list A) i v : length (updG l i v) = length l.
Proof. revert i; induction l; intros [|i]; simpl; auto. Qed.

Lemma nth_updG {A} (l : list A) i v k d :
  nth k (updG l i v) d = if (i =? k) && (i <? length l) then v else nth k l d.
Proof.
  revert i k; induction l as [|x l IH]; intros [|i] [|k]; simpl; auto.
  - destruct (i =? k); reflexivity.
  - rewrite IH. reflexivity.
Qed.

(* bincount: the accumulated entry b is the old entry plus the sum of the weights with index b *)
Section Bincount.
Context {A : Type} (zero : A) (add : A -> A -> A).
Hypothesis add_assoc : forall x y z, add x (add y z) = add (add x y) z.
Hypothesis add_0_r : forall x, add x zero = x.
Hypothesis add_0_l : forall x, add zero x = x.

Fixpoint bsum (idx : list nat) (w : list A) (b : nat) : A :=
  match idx, w with
  | i :: idx', v :: w' => add (if i =? b then v else zero) (bsum idx' w' b)
  | _, _ => zero
  end.

Lemma bincount_acc_length idx w acc : length (bincount_acc zero add idx w acc) = length acc.
Proof.
  revert w acc; induction idx as [|i idx IH]; intros [|v w] acc; simpl; auto.
  rewrite IH. apply updG_length.
Qed.

Lemma bincount_acc_nth idx w acc b :
  Forall (fun i => i < length acc) idx ->
  nth b (bincount_acc zero add idx w acc) zero = add (nth b acc zero) (bsum idx w b).
Proof.
  revert w acc; induction idx as [|i idx IH]; intros [|v w] acc Hall; simpl;
    try (rewrite add_0_r; reflexivity).
  inversion Hall as [|? ? Hi Hrest]; subst.
  rewrite IH by (rewrite updG_length; exact Hrest).
  rewrite nth_updG.
  apply Nat.ltb_lt in Hi. rewrite Hi, andb_true_r.
  destruct (i =? b) eqn:E.
  - apply Nat.eqb_eq in E; subst. rewrite add_assoc. reflexivity.
  - rewrite add_0_l. reflexivity.
Qed.

Lemma bincountG_length idx w nbin :
  Forall (fun i => i < nbin) idx -> length (bincountG zero add idx w nbin) = nbin.
Proof.
  intros H. unfold bincountG. rewrite bincount_acc_length, repeat_length.
  apply Nat.max_l. unfold bins_len. destruct idx as [|i idx]; [lia|].
  assert (list_max (i :: idx) < nbin); [|lia].
  destruct nbin as [|m]. { inversion H; lia. }
  apply Nat.lt_succ_r. apply list_max_le. eapply Forall_impl; [|exact H]. simpl; intros; lia.
Qed.

Lemma bincountG_nth idx w nbin b :
  Forall (fun i => i < nbin) idx -> b < nbin ->
  nth b (bincountG zero add idx w nbin) zero = bsum idx w b.
Proof.
  intros H Hb. unfold bincountG.
  assert (L : Nat.max nbin (bins_len idx) = nbin).
  { pose proof (bincountG_length idx w nbin H) as E. unfold bincountG in E.
    rewrite bincount_acc_length, repeat_length in E. exact E. }
  rewrite L. rewrite bincount_acc_nth by (rewrite repeat_length; exact H).
  rewrite nth_repeat. apply add_0_l.
Qed.
End Bincount.

(* ---------------------------------------------------------------------------------------------- *)
(* the field section                                                                               *)
(* ---------------------------------------------------------------------------------------------- *)
Section Th.
Variable R : Type.
Variables (r0 r1 : R) (radd rmul rsub : R -> R -> R) (ropp : R -> R) (rdiv : R -> R -> R) (rinv : R -> R).
Hypothesis Rfield : field_theory r0 r1 radd rmul rsub ropp rdiv rinv (@eq R).
Add Field Rf : Rfield.

Declare Scope r_scope.
Local Infix "+" := radd : r_scope.
Local Infix "*" := rmul : r_scope.
Local Open Scope r_scope.
Local Notation get := (get R r0).
Local Notation ofn := (of_nat R r0 r1 radd).

(* Sum n F = F 0 + ... + F (n-1) *)
Fixpoint Sum (n : nat) (F : nat -> R) : R :=
  match n with O => r0 | S k => Sum k F + F k end.

Lemma Sum_ext n F G : (forall j, j < n -> F j = G j) -> Sum n F = Sum n G.
Proof. induction n; simpl; intros H; [reflexivity|]. rewrite IHn, H by auto. reflexivity. Qed.

Lemma Sum_add n F G : Sum n (fun j => F j + G j) = Sum n F + Sum n G.
Proof. induction n; simpl; [ring|]. rewrite IHn. ring. Qed.

Lemma Sum_scale n F c : Sum n (fun j => F j * c) = Sum n F * c.
Proof. induction n; simpl; [ring|]. rewrite IHn. ring. Qed.

Lemma Sum_zero n : Sum n (fun _ => r0) = r0.
Proof. induction n; simpl; [reflexivity|]. rewrite IHn. ring. Qed.

Lemma Sum_shift n F : Sum (S n) F = F 0 + Sum n (fun j => F (S j)).
Proof. induction n; [simpl; ring|]. change (Sum (S (S n)) F) with (Sum (S n) F + F (S n)). rewrite IHn. simpl. ring. Qed.

Lemma Sum_swap a b (G : nat -> nat -> R) :
  Sum a (fun i => Sum b (fun k => G i k)) = Sum b (fun k => Sum a (fun i => G i k)).
Proof.
  induction a; simpl; [symmetry; apply Sum_zero|].
  rewrite IHa. rewrite <- Sum_add. reflexivity.
Qed.

Lemma Sum_split a b F : Sum (a * b) F = Sum a (fun i => Sum b (fun k => F (i * b + k)%nat)).
Proof.
  induction a; simpl; [reflexivity|].
  rewrite <- IHa. clear IHa.
  replace (b + a * b)%nat with (a * b + b)%nat by lia.
  generalize (a * b)%nat as m. intros m.
  induction b; simpl.
  - rewrite Nat.add_0_r. ring.
  - replace (m + S b)%nat with (S (m + b)) by lia. simpl. rewrite IHb. ring.
Qed.

(* picking one index out of a sum *)
Lemma Sum_pick n k (F : nat -> R) :
  k < n -> Sum n (fun b => if k =? b then F b else r0) = F k.
Proof.
  induction n; intros H; [lia|]. simpl.
  destruct (Nat.eq_dec k n) as [->|Hne].
  - rewrite Nat.eqb_refl. rewrite (Sum_ext n _ (fun _ => r0)).
    + rewrite Sum_zero. ring.
    + intros j Hj. destruct (n =? j) eqn:E; [apply Nat.eqb_eq in E; lia|reflexivity].
  - assert (E : (k =? n) = false) by (apply Nat.eqb_neq; exact Hne). rewrite E.
    rewrite IHn by lia. ring.
Qed.

(* bsum (head first) as an indexed sum *)
Lemma bsum_Sum (idx : list nat) (w : list R) b :
  length w = length idx ->
  bsum r0 radd idx w b = Sum (length idx) (fun j => if nth j idx 0 =? b then get w j else r0).
Proof.
  revert w; induction idx as [|i idx IH]; intros [|v w] HL; simpl in HL; try discriminate; [reflexivity|].
  change (length (i :: idx)) with (S (length idx)). rewrite Sum_shift. simpl bsum.
  rewrite IH by lia. reflexivity.
Qed.

Lemma radd_assoc x y z : x + (y + z) = (x + y) + z. Proof. ring. Qed.
Lemma radd_0_r x : x + r0 = x. Proof. ring. Qed.
Lemma radd_0_l x : r0 + x = x. Proof. ring. Qed.

Lemma get_map_seq (f : nat -> R) n t : t < n -> get (map f (seq 0 n)) t = f t.
Proof. apply nth_map_seq. Qed.

(* ---- DOFDistributor._times --------------------------------------------------------------------- *)
Lemma dist_times_length pre n post nbin pindex x :
  length (dist_times R r0 pre n post nbin pindex x) = (pre * n * post)%nat.
Proof. unfold dist_times. rewrite map_length, seq_length. reflexivity. Qed.

Lemma dist_times_get pre n post nbin pindex x i1 j i3 :
  i1 < pre -> j < n -> i3 < post ->
  get (dist_times R r0 pre n post nbin pindex x) (idx3 n post i1 j i3)
  = get x (idx3 nbin post i1 (nth j pindex 0) i3).
Proof.
  intros H1 Hj H3. unfold dist_times.
  rewrite get_map_seq by (apply idx3_lt; assumption).
  destruct (idx3_decode n post i1 j i3 Hj H3) as (E1 & E2 & E3).
  rewrite E1, E2, E3. reflexivity.
Qed.

(* ---- DOFDistributor._adjoint_times ------------------------------------------------------------- *)
Lemma dist_adjoint_length pre n post nbin pindex x :
  length (dist_adjoint R r0 radd pre n post nbin pindex x) = (pre * nbin * post)%nat.
Proof. unfold dist_adjoint. rewrite map_length, seq_length. reflexivity. Qed.

Lemma column_length n post x i1 i3 : length (column R r0 n post x i1 i3) = n.
Proof. unfold column. rewrite map_length, seq_length. reflexivity. Qed.

Lemma dist_adjoint_get pre n post nbin pindex x i1 b i3 :
  length pindex = n -> Forall (fun i => i < nbin) pindex ->
  i1 < pre -> b < nbin -> i3 < post ->
  get (dist_adjoint R r0 radd pre n post nbin pindex x) (idx3 nbin post i1 b i3)
  = Sum n (fun j => if nth j pindex 0 =? b then get x (idx3 n post i1 j i3) else r0).
Proof.
  intros HL Hall H1 Hb H3. unfold dist_adjoint.
  rewrite get_map_seq by (apply idx3_lt; assumption).
  destruct (idx3_decode nbin post i1 b i3 Hb H3) as (E1 & E2 & E3).
  rewrite E1, E2, E3.
  assert (Hc : (i1 * post + i3 < pre * post)%nat) by nia.
  rewrite (nth_map_seq _ _ _ [] Hc).
  assert (Hp : post <> 0) by lia.
  assert (Ed : ((i1 * post + i3) / post = i1)%nat).
  { rewrite Nat.div_add_l by exact Hp. rewrite Nat.div_small by exact H3. lia. }
  assert (Em : ((i1 * post + i3) mod post = i3)%nat).
  { rewrite Nat.add_comm, Nat.mod_add by exact Hp. apply Nat.mod_small; exact H3. }
  rewrite Ed, Em. unfold bincount, Model.get.
  rewrite (bincountG_nth r0 radd radd_assoc radd_0_r radd_0_l) by assumption.
  rewrite bsum_Sum by (rewrite column_length; auto).
  rewrite HL, radd_0_l. apply Sum_ext. intros j Hj.
  destruct (nth j pindex 0 =? b); [|reflexivity].
  unfold column. rewrite get_map_seq by exact Hj. reflexivity.
Qed.

(* a bin's sum depends only on the members of that bin: whatever the other entries of the column are
   (huge, tiny, infinite in the implementation), they do not enter *)
Lemma dist_adjoint_independent pre n post nbin pindex x x' i1 b i3 :
  length pindex = n -> Forall (fun i => i < nbin) pindex ->
  i1 < pre -> b < nbin -> i3 < post ->
  (forall j, j < n -> nth j pindex 0%nat = b -> get x (idx3 n post i1 j i3) = get x' (idx3 n post i1 j i3)) ->
  get (dist_adjoint R r0 radd pre n post nbin pindex x) (idx3 nbin post i1 b i3)
  = get (dist_adjoint R r0 radd pre n post nbin pindex x') (idx3 nbin post i1 b i3).
Proof.
  intros HL Hall H1 Hb H3 Hx. rewrite !dist_adjoint_get by assumption.
  apply Sum_ext. intros j Hj. destruct (nth j pindex 0%nat =? b) eqn:E; [|reflexivity].
  apply Hx; [exact Hj|]. apply Nat.eqb_eq. exact E.
Qed.

(* ---- Field.weight ------------------------------------------------------------------------------ *)
Local Notation space := (space R).
Local Notation pw := (pw R rinv).

(* product of the per-pixel factors and of the scalar factors of a domain *)
Fixpoint pfac (neg : bool) (d : list space) (t : nat) : R :=
  match d with
  | [] => r1
  | s :: rest =>
      match sdv s with
      | Scalar _ => pfac neg rest t
      | PerPix w => pw neg (get w ((t / prodsz rest) mod ssize s)) * pfac neg rest t
      end
  end.

Fixpoint sfac (d : list space) : R :=
  match d with
  | [] => r1
  | s :: rest => match sdv s with Scalar v => v * sfac rest | PerPix _ => sfac rest end
  end.

Lemma get_map (f : R -> R) (l : list R) t : t < length l -> get (map f l) t = f (get l t).
Proof. intros H. unfold Model.get. apply nth_map_in. exact H. Qed.

Lemma mul_axis_length neg n post w a : length (mul_axis R r0 rmul rinv neg n post w a) = length a.
Proof. unfold mul_axis. rewrite map_length, seq_length. reflexivity. Qed.

Lemma weight_go_spec neg d : forall fct a,
  fst (weight_go R r0 rmul rinv neg d fct a) = fct * sfac d /\
  length (snd (weight_go R r0 rmul rinv neg d fct a)) = length a /\
  forall t, t < length a ->
    get (snd (weight_go R r0 rmul rinv neg d fct a)) t = get a t * pfac neg d t.
Proof.
  induction d as [|s rest IH]; intros fct a; simpl.
  - repeat split; [ring|]. intros; ring.
  - destruct (sdv s) as [v|w].
    + destruct (IH (fct * v) a) as (E1 & E2 & E3). repeat split; [rewrite E1; ring|exact E2|exact E3].
    + destruct (IH fct (mul_axis R r0 rmul rinv neg (ssize s) (prodsz rest) w a)) as (E1 & E2 & E3).
      rewrite mul_axis_length in E2, E3.
      repeat split; [exact E1|exact E2|].
      intros t Ht. rewrite E3 by exact Ht. unfold mul_axis at 1.
      rewrite get_map_seq by exact Ht. ring.
Qed.

Lemma weight_length neg d a : length (weight R r0 r1 rmul rinv neg d a) = length a.
Proof.
  unfold weight. destruct (weight_go_spec neg d r1 a) as (_ & E2 & _).
  destruct (weight_go R r0 rmul rinv neg d r1 a) as [fct a']. simpl in *.
  rewrite map_length. exact E2.
Qed.

Lemma weight_get neg d a t :
  t < length a ->
  get (weight R r0 r1 rmul rinv neg d a) t = get a t * pfac neg d t * pw neg (sfac d).
Proof.
  intros Ht. unfold weight. destruct (weight_go_spec neg d r1 a) as (E1 & E2 & E3).
  destruct (weight_go R r0 rmul rinv neg d r1 a) as [fct a']. simpl in *.
  rewrite get_map by (rewrite E2; exact Ht). rewrite E3 by exact Ht.
  replace fct with (sfac d) by (rewrite E1; ring). reflexivity.
Qed.

(* the factors of a product domain split along the block decomposition *)
Lemma prodsz_app (d1 d2 : list space) : prodsz (d1 ++ d2) = (prodsz d1 * prodsz d2)%nat.
Proof. induction d1; simpl; [lia|]. unfold prodsz in *. simpl. rewrite IHd1. lia. Qed.

Lemma prodsz_cons (s : space) d : prodsz (s :: d) = (ssize s * prodsz d)%nat.
Proof. reflexivity. Qed.

Lemma sfac_app d1 d2 : sfac (d1 ++ d2) = sfac d1 * sfac d2.
Proof. induction d1 as [|s d1 IH]; simpl; [ring|]. destruct (sdv s); rewrite IH; ring. Qed.

Lemma pfac_post neg d : forall M i3, pfac neg d (M * prodsz d + i3) = pfac neg d i3.
Proof.
  induction d as [|s rest IH]; intros M i3; [reflexivity|].
  rewrite prodsz_cons. simpl pfac.
  replace (M * (ssize s * prodsz rest) + i3)%nat with ((M * ssize s) * prodsz rest + i3)%nat by lia.
  rewrite IH. destruct (sdv s) as [v|w]; [reflexivity|].
  f_equal. f_equal. f_equal.
  destruct (Nat.eq_dec (prodsz rest) 0) as [Z|NZ].
  - rewrite Z. reflexivity.
  - rewrite Nat.div_add_l by exact NZ.
    destruct (Nat.eq_dec (ssize s) 0) as [Zs|NZs].
    + rewrite Zs. rewrite Nat.mul_0_r. reflexivity.
    + rewrite Nat.add_comm. apply Nat.mod_add. exact NZs.
Qed.

Lemma pfac_app neg d1 d2 t :
  prodsz d2 <> 0%nat ->
  pfac neg (d1 ++ d2) t = pfac neg d1 (t / prodsz d2) * pfac neg d2 t.
Proof.
  intros NZ. induction d1 as [|s rest IH]; simpl; [ring|].
  rewrite IH. destruct (sdv s) as [v|w]; [reflexivity|].
  rewrite prodsz_app.
  destruct (Nat.eq_dec (prodsz rest) 0) as [Z|NZr].
  - rewrite Z. simpl. ring.
  - rewrite (Nat.mul_comm (prodsz rest)). rewrite <- Nat.div_div by assumption. ring.
Qed.

Lemma pfac_block neg (dpre : list space) (s : space) (dpost : list space) i1 j i3 :
  j < ssize s -> i3 < prodsz dpost ->
  pfac neg (dpre ++ s :: dpost) (idx3 (ssize s) (prodsz dpost) i1 j i3)
  = pfac neg dpre i1
    * match sdv s with Scalar _ => r1 | PerPix w => pw neg (get w j) end
    * pfac neg dpost i3.
Proof.
  intros Hj H3.
  destruct (idx3_decode (ssize s) (prodsz dpost) i1 j i3 Hj H3) as (E1 & E2 & E3).
  rewrite pfac_app by (rewrite prodsz_cons; nia).
  rewrite prodsz_cons. rewrite (Nat.mul_comm (ssize s)).
  rewrite <- Nat.div_div by lia. rewrite E3.
  simpl pfac.
  assert (EP : pfac neg dpost (idx3 (ssize s) (prodsz dpost) i1 j i3) = pfac neg dpost i3).
  { unfold idx3. apply pfac_post. }
  destruct (sdv s) as [v|w]; rewrite EP; [ring|]. rewrite E2. ring.
Qed.

(* ---- non-zero volume factors ------------------------------------------------------------------- *)
Definition dvol_ok1 (s : space) : Prop :=
  0 < ssize s /\
  match sdv s with
  | Scalar v => v <> r0
  | PerPix w => length w = ssize s /\ Forall (fun x => x <> r0) w
  end.
Definition dvol_ok (d : list space) : Prop := Forall dvol_ok1 d.

Lemma rmul_nonzero a b : a <> r0 -> b <> r0 -> a * b <> r0.
Proof.
  intros Ha Hb E. apply Hb.
  transitivity (rinv a * (a * b)); [field; exact Ha|]. rewrite E. ring.
Qed.

Lemma r1_nonzero : r1 <> r0.
Proof. exact (F_1_neq_0 Rfield). Qed.

Lemma sfac_nonzero d : dvol_ok d -> sfac d <> r0.
Proof.
  induction 1 as [|s d [_ Hs] _ IH]; simpl; [exact r1_nonzero|].
  destruct (sdv s); [apply rmul_nonzero; assumption|exact IH].
Qed.

Lemma pfac_inv d t : dvol_ok d ->
  pfac false d t <> r0 /\ pfac true d t = rinv (pfac false d t).
Proof.
  induction 1 as [|s d [Hsz Hs] _ IH]; simpl.
  - split; [exact r1_nonzero|]. field. exact r1_nonzero.
  - destruct IH as [IH1 IH2]. destruct (sdv s) as [v|w]; [split; assumption|].
    destruct Hs as [HL Hall].
    assert (Hw : get w ((t / prodsz d) mod ssize s) <> r0).
    { rewrite Forall_forall in Hall. apply Hall. unfold Model.get. apply nth_In.
      rewrite HL. apply Nat.mod_upper_bound. lia. }
    split; [apply rmul_nonzero; assumption|].
    rewrite IH2. field. split; assumption.
Qed.

(* ---- PowerSpace volumes ------------------------------------------------------------------------ *)
Definition bins_ok (pindex : list nat) (nbin : nat) : Prop :=
  Forall (fun i => i < nbin) pindex /\ forall b, b < nbin -> nth b (rho pindex nbin) 0%nat <> 0%nat.

Lemma rho_length pindex nbin : Forall (fun i => i < nbin) pindex -> length (rho pindex nbin) = nbin.
Proof. intros H. unfold rho. apply bincountG_length. exact H. Qed.

Lemma rho_no_zero pindex nbin : bins_ok pindex nbin -> existsb (Nat.eqb 0) (rho pindex nbin) = false.
Proof.
  intros [Hall Hne]. destruct (existsb (Nat.eqb 0) (rho pindex nbin)) eqn:E; [|reflexivity].
  apply existsb_exists in E. destruct E as (c & Hin & Hc). apply Nat.eqb_eq in Hc. subst c.
  destruct (In_nth _ _ 0%nat Hin) as (b & Hb & Eb). rewrite rho_length in Hb by exact Hall.
  exfalso. exact (Hne b Hb Eb).
Qed.

Lemma pspace_dvol_get pindex nbin pdvol b :
  Forall (fun i => i < nbin) pindex -> b < nbin ->
  match sdv (pspace R r0 r1 radd rmul pindex nbin pdvol) with
  | Scalar _ => False
  | PerPix w => get w b = ofn (nth b (rho pindex nbin) 0%nat) * pdvol /\ length w = nbin
  end.
Proof.
  intros Hall Hb. simpl. split.
  - unfold Model.get. rewrite (nth_map_in _ _ _ 0%nat) by (rewrite rho_length; assumption). reflexivity.
  - rewrite map_length. apply rho_length. exact Hall.
Qed.

(* ---- _single_power_analyze --------------------------------------------------------------------- *)
Local Notation single := (single_power_analyze R r0 r1 radd rmul rinv).

Lemma split_facts {A} (dpre : list A) s dpost :
  nth_error (dpre ++ s :: dpost) (length dpre) = Some s /\
  firstn (length dpre) (dpre ++ s :: dpost) = dpre /\
  skipn (S (length dpre)) (dpre ++ s :: dpost) = dpost.
Proof.
  repeat split.
  - rewrite nth_error_app2 by lia. rewrite Nat.sub_diag. reflexivity.
  - rewrite firstn_app, Nat.sub_diag, firstn_all. simpl. apply app_nil_r.
  - replace (S (length dpre)) with (length (dpre ++ [s])) by (rewrite app_length; simpl; lia).
    replace (dpre ++ s :: dpost) with ((dpre ++ [s]) ++ dpost) by (rewrite <- app_assoc; reflexivity).
    rewrite skipn_app, Nat.sub_diag, skipn_all. reflexivity.
Qed.

Definition dom' (dpre : list space) pindex nbin pdvol (dpost : list space) : list space :=
  dpre ++ pspace R r0 r1 radd rmul pindex nbin pdvol :: dpost.

(* Field.weight(power, spaces=idx) *)
Lemma weight_at_length neg d idx a : length (weight_at R r0 r1 rmul rinv neg d idx a) = length a.
Proof.
  unfold weight_at. destruct (nth_error d idx) as [s|]; [|reflexivity].
  destruct (sdv s); rewrite map_length; [reflexivity|apply mul_axis_length].
Qed.

Lemma weight_at_scalar neg dpre s dpost v a t :
  sdv s = Scalar v -> t < length a ->
  get (weight_at R r0 r1 rmul rinv neg (dpre ++ s :: dpost) (length dpre) a) t = get a t * pw neg (r1 * v).
Proof.
  intros Hs Ht. unfold weight_at. destruct (split_facts dpre s dpost) as (E1 & _ & _).
  rewrite E1, Hs. rewrite get_map by exact Ht. reflexivity.
Qed.

Lemma weight_at_perpix neg dpre s dpost w a i1 j i3 :
  sdv s = PerPix w -> length a = (prodsz dpre * ssize s * prodsz dpost)%nat ->
  i1 < prodsz dpre -> j < ssize s -> i3 < prodsz dpost ->
  get (weight_at R r0 r1 rmul rinv neg (dpre ++ s :: dpost) (length dpre) a) (idx3 (ssize s) (prodsz dpost) i1 j i3)
  = get a (idx3 (ssize s) (prodsz dpost) i1 j i3) * pw neg (get w j) * pw neg r1.
Proof.
  intros Hs HL H1 Hj H3. unfold weight_at. destruct (split_facts dpre s dpost) as (E1 & _ & E3).
  rewrite E1, Hs, E3.
  assert (Ht : idx3 (ssize s) (prodsz dpost) i1 j i3 < length a) by (rewrite HL; apply idx3_lt; assumption).
  rewrite get_map by (rewrite mul_axis_length; exact Ht).
  unfold mul_axis. rewrite get_map_seq by exact Ht.
  destruct (idx3_decode (ssize s) (prodsz dpost) i1 j i3 Hj H3) as (_ & E2 & _). rewrite E2. reflexivity.
Qed.

Lemma single_unfold dpre s dpost pdvol pindex nbin x :
  sdv s = Scalar pdvol -> length pindex = ssize s -> bins_ok pindex nbin ->
  single (dpre ++ s :: dpost) (length dpre) pindex nbin x
  = Some (dom' dpre pindex nbin pdvol dpost,
          weight_at R r0 r1 rmul rinv true (dom' dpre pindex nbin pdvol dpost) (length dpre)
            (dist_adjoint R r0 radd (prodsz dpre) (ssize s) (prodsz dpost) nbin pindex
               (weight_at R r0 r1 rmul rinv false (dpre ++ s :: dpost) (length dpre) x))).
Proof.
  intros Hs HL Hb. unfold single_power_analyze, pd_adjoint.
  destruct (split_facts dpre s dpost) as (E1 & E2 & E3).
  rewrite E1, Hs, E2, E3, HL, Nat.eqb_refl. simpl negb. cbv iota.
  rewrite (rho_no_zero _ _ Hb). reflexivity.
Qed.

(* the value of one analysed entry, in any commutative ring: weighted bin sum times the inverse weights *)
Lemma single_formula dpre s dpost pdvol pindex nbin x i1 b i3 :
  sdv s = Scalar pdvol -> length pindex = ssize s -> bins_ok pindex nbin ->
  length x = prodsz (dpre ++ s :: dpost) ->
  i1 < prodsz dpre -> b < nbin -> i3 < prodsz dpost ->
  exists y, single (dpre ++ s :: dpost) (length dpre) pindex nbin x = Some (dom' dpre pindex nbin pdvol dpost, y) /\
    length y = (prodsz dpre * nbin * prodsz dpost)%nat /\
    get y (idx3 nbin (prodsz dpost) i1 b i3)
    = Sum (ssize s) (fun j => if nth j pindex 0%nat =? b
                               then get x (idx3 (ssize s) (prodsz dpost) i1 j i3) * (r1 * pdvol)
                               else r0)
      * rinv (ofn (nth b (rho pindex nbin) 0%nat) * pdvol)
      * rinv r1.
Proof.
  intros Hs HL Hb Hx H1 Hbb H3.
  eexists. split; [apply single_unfold; eassumption|].
  set (pre := prodsz dpre) in *. set (post := prodsz dpost) in *. set (n := ssize s) in *.
  assert (Hlen : length x = (pre * n * post)%nat).
  { rewrite Hx. rewrite prodsz_app, prodsz_cons. fold pre post n. lia. }
  split.
  { rewrite weight_at_length, dist_adjoint_length. reflexivity. }
  destruct Hb as [Hall Hne].
  pose proof (pspace_dvol_get pindex nbin pdvol b Hall Hbb) as Hdv.
  unfold dom'.
  set (s' := pspace R r0 r1 radd rmul pindex nbin pdvol) in *.
  assert (Hsz' : ssize s' = nbin) by reflexivity.
  destruct (sdv s') as [v|w] eqn:Edv; [contradiction|]. destruct Hdv as [Hg _].
  pose proof (weight_at_perpix true dpre s' dpost w
                (dist_adjoint R r0 radd pre n post nbin pindex
                   (weight_at R r0 r1 rmul rinv false (dpre ++ s :: dpost) (length dpre) x)) i1 b i3 Edv) as W.
  rewrite Hsz' in W. fold pre post in W. rewrite W; try assumption.
  2:{ rewrite dist_adjoint_length. reflexivity. }
  clear W. rewrite dist_adjoint_get by assumption. simpl pw. rewrite Hg.
  f_equal. f_equal. apply Sum_ext. intros j Hj.
  destruct (nth j pindex 0%nat =? b); [|reflexivity].
  rewrite (weight_at_scalar false dpre s dpost pdvol x _ Hs) by (rewrite Hlen; apply idx3_lt; assumption).
  reflexivity.
Qed.

Definition rho_ok (pindex : list nat) (nbin : nat) : Prop :=
  forall b, b < nbin -> ofn (nth b (rho pindex nbin) 0%nat) <> r0.

(* analysis = bin mean *)
Lemma single_mean dpre s dpost pdvol pindex nbin x i1 b i3 :
  sdv s = Scalar pdvol -> length pindex = ssize s -> bins_ok pindex nbin -> rho_ok pindex nbin ->
  pdvol <> r0 ->
  length x = prodsz (dpre ++ s :: dpost) ->
  i1 < prodsz dpre -> b < nbin -> i3 < prodsz dpost ->
  exists y, single (dpre ++ s :: dpost) (length dpre) pindex nbin x = Some (dom' dpre pindex nbin pdvol dpost, y) /\
    length y = (prodsz dpre * nbin * prodsz dpost)%nat /\
    get y (idx3 nbin (prodsz dpost) i1 b i3)
    = Sum (ssize s) (fun j => if nth j pindex 0%nat =? b
                               then get x (idx3 (ssize s) (prodsz dpost) i1 j i3) else r0)
      * rinv (ofn (nth b (rho pindex nbin) 0%nat)).
Proof.
  intros Hs HL Hb Hr Hpd Hx H1 Hbb H3.
  destruct (single_formula dpre s dpost pdvol pindex nbin x i1 b i3 Hs HL Hb Hx H1 Hbb H3) as (y & E & Ly & G).
  exists y. split; [exact E|]. split; [exact Ly|]. rewrite G. clear G E.
  rewrite (Sum_ext _ _ (fun j => (if nth j pindex 0%nat =? b
                                  then get x (idx3 (ssize s) (prodsz dpost) i1 j i3) else r0) * (r1 * pdvol))).
  2:{ intros j _. destruct (nth j pindex 0%nat =? b); ring. }
  rewrite Sum_scale. specialize (Hr b Hbb). pose proof r1_nonzero.
  field. repeat split; assumption.
Qed.

Lemma ofn_add a b : ofn (a + b)%nat = ofn a + ofn b.
Proof. induction b; simpl. - rewrite Nat.add_0_r. ring. - rewrite Nat.add_succ_r. simpl. rewrite IHb. ring. Qed.

Lemma count_sum (idx : list nat) b c :
  Sum (length idx) (fun j => if nth j idx 0%nat =? b then c else r0)
  = ofn (bsum 0%nat Nat.add idx (repeat 1%nat (length idx)) b) * c.
Proof.
  induction idx as [|i idx IH]; [simpl; ring|].
  change (length (i :: idx)) with (S (length idx)). rewrite Sum_shift.
  cbn [nth repeat bsum]. rewrite IH. rewrite ofn_add.
  destruct (i =? b); simpl; ring.
Qed.

Lemma rho_nth pindex nbin b :
  Forall (fun i => i < nbin) pindex -> b < nbin ->
  nth b (rho pindex nbin) 0%nat = bsum 0%nat Nat.add pindex (repeat 1%nat (length pindex)) b.
Proof.
  intros H Hb. unfold rho. apply bincountG_nth; auto; intros; lia.
Qed.

(* exactness of one analysis step: analysing a distributed field returns the field *)
Lemma single_exact dpre s dpost pdvol pindex nbin y :
  sdv s = Scalar pdvol -> length pindex = ssize s -> bins_ok pindex nbin -> rho_ok pindex nbin ->
  pdvol <> r0 ->
  length y = (prodsz dpre * nbin * prodsz dpost)%nat ->
  single (dpre ++ s :: dpost) (length dpre) pindex nbin
         (dist_times R r0 (prodsz dpre) (ssize s) (prodsz dpost) nbin pindex y)
  = Some (dom' dpre pindex nbin pdvol dpost, y).
Proof.
  intros Hs HL Hb Hr Hpd Hy.
  rewrite (single_unfold dpre s dpost pdvol pindex nbin _ Hs HL Hb).
  f_equal. f_equal.
  apply (nth_ext _ _ r0 r0).
  { rewrite weight_at_length, dist_adjoint_length. symmetry. exact Hy. }
  intros t Ht. rewrite weight_at_length, dist_adjoint_length in Ht.
  destruct (idx3_encode _ _ _ t Ht) as (Et & H1 & Hbb & H3).
  set (i1 := (t / prodsz dpost / nbin)%nat) in *. set (b := ((t / prodsz dpost) mod nbin)%nat) in *.
  set (i3 := (t mod prodsz dpost)%nat) in *.
  assert (Hx : length (dist_times R r0 (prodsz dpre) (ssize s) (prodsz dpost) nbin pindex y)
               = prodsz (dpre ++ s :: dpost)).
  { rewrite dist_times_length, prodsz_app, prodsz_cons. lia. }
  destruct (single_mean dpre s dpost pdvol pindex nbin _ i1 b i3 Hs HL Hb Hr Hpd Hx H1 Hbb H3)
    as (y' & E & _ & G).
  rewrite (single_unfold dpre s dpost pdvol pindex nbin _ Hs HL Hb) in E.
  injection E as E. rewrite E. rewrite Et. fold (get y' (idx3 nbin (prodsz dpost) i1 b i3)). rewrite G.
  fold (get y (idx3 nbin (prodsz dpost) i1 b i3)).
  rewrite (Sum_ext _ _ (fun j => if nth j pindex 0%nat =? b then get y (idx3 nbin (prodsz dpost) i1 b i3) else r0)).
  2:{ intros j Hj. destruct (nth j pindex 0%nat =? b) eqn:Ej; [|reflexivity].
      rewrite dist_times_get by assumption. apply Nat.eqb_eq in Ej. rewrite Ej. reflexivity. }
  rewrite <- HL. rewrite count_sum. destruct Hb as [Hall Hne].
  rewrite <- (rho_nth pindex nbin b Hall Hbb).
  specialize (Hr b Hbb). field. exact Hr.
Qed.

(* ---- several analysed spaces -------------------------------------------------------------------- *)
Local Notation analyze := (analyze_spaces R r0 r1 radd rmul rinv).
Local Notation dom_after := (dom_after R r0 r1 radd rmul).
Local Notation distribute := (distribute_spaces R r0 r1 radd rmul).

Fixpoint doms_after (d : list space) (specs : list spec) : list space :=
  match specs with
  | [] => d
  | (idx, (pindex, nbin)) :: rest => doms_after (dom_after d idx pindex nbin) rest
  end.

(* what the real constructors demand of each analysed space, in analysis order *)
Fixpoint specs_ok (d : list space) (specs : list spec) : Prop :=
  match specs with
  | [] => True
  | (idx, (pindex, nbin)) :: rest =>
      match nth_error d idx with
      | Some s =>
          match sdv s with
          | Scalar pdvol =>
              pdvol <> r0 /\
              length pindex = ssize s /\ bins_ok pindex nbin /\ rho_ok pindex nbin /\ 0 < nbin /\
              specs_ok (dom_after d idx pindex nbin) rest
          | PerPix _ => False
          end
      | None => False
      end
  end.

Lemma spec_split d idx s pdvol pindex nbin :
  nth_error d idx = Some s -> sdv s = Scalar pdvol ->
  exists dpre dpost, d = dpre ++ s :: dpost /\ idx = length dpre /\
    dom_after d idx pindex nbin = dom' dpre pindex nbin pdvol dpost.
Proof.
  intros E Hs. destruct (nth_error_split d idx E) as (l1 & l2 & Ed & El).
  exists l1, l2. split; [exact Ed|]. split; [symmetry; exact El|].
  unfold Model.dom_after. rewrite E. destruct s as [n dv]. simpl in Hs. subst dv.
  subst idx. rewrite Ed. destruct (split_facts l1 (mkSpace n (Scalar pdvol)) l2) as (_ & E2 & E3).
  rewrite E2, E3. reflexivity.
Qed.

Lemma dvol_ok_after dpre s dpost pdvol pindex nbin :
  sdv s = Scalar pdvol -> bins_ok pindex nbin -> rho_ok pindex nbin -> 0 < nbin ->
  dvol_ok (dpre ++ s :: dpost) -> dvol_ok (dom' dpre pindex nbin pdvol dpost).
Proof.
  intros Hs [Hall Hne] Hr Hnb Hd. unfold dvol_ok, dom' in *.
  apply Forall_app in Hd. destruct Hd as [H1 H2]. inversion H2 as [|? ? Hs1 H3]; subst.
  apply Forall_app. split; [exact H1|]. constructor; [|exact H3].
  destruct Hs1 as [_ Hv]. rewrite Hs in Hv.
  split; [exact Hnb|]. simpl. split.
  - rewrite map_length. apply rho_length. exact Hall.
  - apply Forall_forall. intros v Hin. apply in_map_iff in Hin. destruct Hin as (c & <- & Hc).
    destruct (In_nth _ _ 0%nat Hc) as (b & Hb & Eb). rewrite rho_length in Hb by exact Hall.
    rewrite <- Eb. apply rmul_nonzero; [apply Hr; exact Hb|exact Hv].
Qed.

Lemma prodsz_dom' dpre pindex nbin pdvol dpost :
  prodsz (dom' dpre pindex nbin pdvol dpost) = (prodsz dpre * nbin * prodsz dpost)%nat.
Proof. unfold dom'. rewrite prodsz_app, prodsz_cons. simpl ssize. lia. Qed.

Lemma distribute_length specs : forall d p,
  specs_ok d specs -> length p = prodsz (doms_after d specs) ->
  length (distribute d specs p) = prodsz d.
Proof.
  induction specs as [|[idx [pindex nbin]] rest IH]; intros d p Hok Hp; simpl in *; [exact Hp|].
  destruct (nth_error d idx) as [s|] eqn:E; [|contradiction].
  destruct (sdv s) as [pdvol|] eqn:Hs; [|contradiction].
  destruct Hok as (Hpd & HL & Hb & Hr & Hnb & Hrest).
  destruct (spec_split d idx s pdvol pindex nbin E Hs) as (dpre & dpost & Ed & Ei & Ea).
  unfold pd_times. rewrite dist_times_length. subst d idx.
  destruct (split_facts dpre s dpost) as (_ & E2 & E3). rewrite E2, E3, HL.
  rewrite prodsz_app, prodsz_cons. lia.
Qed.

(* C10_analyze_exact *)
Lemma analyze_exact specs : forall d p,
  specs_ok d specs -> length p = prodsz (doms_after d specs) ->
  analyze d specs (distribute d specs p) = Some (doms_after d specs, p).
Proof.
  induction specs as [|[idx [pindex nbin]] rest IH]; intros d p Hok Hp; [reflexivity|].
  cbn [analyze_spaces distribute_spaces doms_after]. cbn [doms_after] in Hp. simpl in Hok.
  destruct (nth_error d idx) as [s|] eqn:E; [|contradiction].
  destruct (sdv s) as [pdvol|] eqn:Hs; [|contradiction].
  destruct Hok as (Hpd & HL & Hb & Hr & Hnb & Hrest).
  destruct (spec_split d idx s pdvol pindex nbin E Hs) as (dpre & dpost & Ed & Ei & Ea).
  pose proof (distribute_length rest _ p Hrest Hp) as Hlen.
  rewrite Ea in *. subst d idx.
  unfold pd_times. destruct (split_facts dpre s dpost) as (_ & E2 & E3). rewrite E2, E3, HL.
  rewrite (single_exact dpre s dpost pdvol pindex nbin _ Hs HL Hb Hr Hpd).
  - apply IH; [exact Hrest|exact Hp].
  - rewrite Hlen. apply prodsz_dom'.
Qed.

(* ---- additivity of the analysis (for the phase split) ------------------------------------------ *)
Local Notation vadd := (vadd R radd).

Lemma vadd_length a b : length a = length b -> length (vadd a b) = length a.
Proof. intros H. unfold Model.vadd. rewrite map_length, combine_length, H. apply Nat.min_id. Qed.

Lemma vadd_get a b t : length a = length b -> t < length a -> get (vadd a b) t = get a t + get b t.
Proof.
  intros H Ht. unfold Model.vadd, Model.get.
  rewrite (nth_map_in _ _ _ (r0, r0)) by (rewrite combine_length, H, Nat.min_id; lia).
  rewrite combine_nth by exact H. reflexivity.
Qed.

Lemma single_add dpre s dpost pdvol pindex nbin x y :
  sdv s = Scalar pdvol -> length pindex = ssize s -> bins_ok pindex nbin -> 0 < nbin ->
  length x = prodsz (dpre ++ s :: dpost) -> length y = prodsz (dpre ++ s :: dpost) ->
  exists ax ay,
    single (dpre ++ s :: dpost) (length dpre) pindex nbin x = Some (dom' dpre pindex nbin pdvol dpost, ax) /\
    single (dpre ++ s :: dpost) (length dpre) pindex nbin y = Some (dom' dpre pindex nbin pdvol dpost, ay) /\
    single (dpre ++ s :: dpost) (length dpre) pindex nbin (vadd x y)
      = Some (dom' dpre pindex nbin pdvol dpost, vadd ax ay) /\
    length ax = prodsz (dom' dpre pindex nbin pdvol dpost) /\
    length ay = prodsz (dom' dpre pindex nbin pdvol dpost).
Proof.
  intros Hs HL Hb Hnb Hx Hy.
  pose proof (single_unfold dpre s dpost pdvol pindex nbin x Hs HL Hb) as Ex.
  pose proof (single_unfold dpre s dpost pdvol pindex nbin y Hs HL Hb) as Ey.
  pose proof (single_unfold dpre s dpost pdvol pindex nbin (vadd x y) Hs HL Hb) as Exy.
  eexists. eexists. split; [exact Ex|]. split; [exact Ey|].
  match type of Ex with _ = Some (_, ?a) => set (ax := a) in * end.
  match type of Ey with _ = Some (_, ?a) => set (ay := a) in * end.
  assert (Lx : length ax = (prodsz dpre * nbin * prodsz dpost)%nat)
    by (unfold ax; rewrite weight_at_length, dist_adjoint_length; reflexivity).
  assert (Ly : length ay = (prodsz dpre * nbin * prodsz dpost)%nat)
    by (unfold ay; rewrite weight_at_length, dist_adjoint_length; reflexivity).
  rewrite prodsz_dom'. split; [|split; assumption].
  rewrite Exy. f_equal. f_equal.
  apply (nth_ext _ _ r0 r0).
  { rewrite weight_at_length, dist_adjoint_length, vadd_length; lia. }
  intros t Ht. rewrite weight_at_length, dist_adjoint_length in Ht.
  destruct (idx3_encode _ _ _ t Ht) as (Et & H1 & Hbb & H3).
  set (i1 := (t / prodsz dpost / nbin)%nat) in *. set (b := ((t / prodsz dpost) mod nbin)%nat) in *.
  set (i3 := (t mod prodsz dpost)%nat) in *.
  assert (Hxy : length (vadd x y) = prodsz (dpre ++ s :: dpost)) by (rewrite vadd_length; lia).
  destruct (single_formula dpre s dpost pdvol pindex nbin x i1 b i3 Hs HL Hb Hx H1 Hbb H3) as (zx & Zx & _ & Gx).
  destruct (single_formula dpre s dpost pdvol pindex nbin y i1 b i3 Hs HL Hb Hy H1 Hbb H3) as (zy & Zy & _ & Gy).
  destruct (single_formula dpre s dpost pdvol pindex nbin (vadd x y) i1 b i3 Hs HL Hb Hxy H1 Hbb H3) as (zz & Zz & _ & Gz).
  rewrite Ex in Zx. rewrite Ey in Zy. rewrite Exy in Zz.
  injection Zx as Zx. injection Zy as Zy. injection Zz as Zz.
  fold (get (weight_at R r0 r1 rmul rinv true (dom' dpre pindex nbin pdvol dpost) (length dpre)
     (dist_adjoint R r0 radd (prodsz dpre) (ssize s) (prodsz dpost) nbin pindex
        (weight_at R r0 r1 rmul rinv false (dpre ++ s :: dpost) (length dpre) (vadd x y)))) t).
  fold (get (vadd ax ay) t).
  rewrite vadd_get by lia. rewrite Zz. rewrite Et. rewrite Gz.
  fold ax in Zx. fold ay in Zy. rewrite Zx, Zy. rewrite Gx, Gy.
  rewrite <- !Sum_scale. rewrite <- Sum_add. apply Sum_ext. intros j Hj.
  destruct (nth j pindex 0%nat =? b); [|ring].
  rewrite vadd_get.
  - ring.
  - lia.
  - rewrite Hx, prodsz_app, prodsz_cons.
    pose proof (idx3_lt (prodsz dpre) (ssize s) (prodsz dpost) i1 j i3 H1 Hj H3). lia.
Qed.

Lemma analyze_add specs : forall d x y,
  specs_ok d specs -> length x = prodsz d -> length y = prodsz d ->
  exists ax ay,
    analyze d specs x = Some (doms_after d specs, ax) /\
    analyze d specs y = Some (doms_after d specs, ay) /\
    analyze d specs (vadd x y) = Some (doms_after d specs, vadd ax ay) /\
    length ax = prodsz (doms_after d specs) /\ length ay = prodsz (doms_after d specs).
Proof.
  induction specs as [|[idx [pindex nbin]] rest IH]; intros d x y Hok Hx Hy.
  - exists x, y. simpl. repeat split; assumption.
  - cbn [analyze_spaces doms_after]. simpl in Hok.
    destruct (nth_error d idx) as [s|] eqn:E; [|contradiction].
    destruct (sdv s) as [pdvol|] eqn:Hs; [|contradiction].
    destruct Hok as (Hpd & HL & Hb & Hr & Hnb & Hrest).
    destruct (spec_split d idx s pdvol pindex nbin E Hs) as (dpre & dpost & Ed & Ei & Ea).
    rewrite Ea in *. subst d idx.
    destruct (single_add dpre s dpost pdvol pindex nbin x y Hs HL Hb Hnb Hx Hy)
      as (ax & ay & E1 & E2 & E3 & L1 & L2).
    rewrite E1, E2, E3.
    apply IH; assumption.
Qed.

(* ---- power_analyze ------------------------------------------------------------------------------ *)
Local Notation panalyze := (power_analyze R r0 r1 radd rmul rinv).
Local Notation sq := (sq R rmul).

Lemma sq_length a : length (sq a) = length a.
Proof. apply map_length. Qed.

Lemma keep_phase d specs re im :
  specs <> [] -> specs_ok d specs -> length re = prodsz d -> length im = prodsz d ->
  exists p0 p1,
    analyze d specs (sq re) = Some (doms_after d specs, p0) /\
    analyze d specs (sq im) = Some (doms_after d specs, p1) /\
    panalyze d specs true (FCplx re im) = Some (doms_after d specs, FCplx p0 p1) /\
    panalyze d specs false (FCplx re im) = Some (doms_after d specs, FReal (vadd p0 p1)).
Proof.
  intros Hne Hok Hre Him.
  destruct (analyze_add specs d (sq re) (sq im) Hok) as (p0 & p1 & E0 & E1 & E01 & _ & _);
    try (rewrite sq_length; assumption).
  exists p0, p1. split; [exact E0|]. split; [exact E1|].
  destruct specs as [|sp rest]; [contradiction|].
  unfold power_analyze. rewrite E0, E1, E01. split; reflexivity.
Qed.

Lemma real_no_phase d specs a : panalyze d specs true (FReal a) = None.
Proof. destruct specs; reflexivity. Qed.

Lemma panalyze_exact_real d specs a p :
  specs <> [] -> specs_ok d specs -> length p = prodsz (doms_after d specs) ->
  sq a = distribute d specs p ->
  panalyze d specs false (FReal a) = Some (doms_after d specs, FReal p).
Proof.
  intros Hne Hok Hp E. destruct specs as [|sp rest]; [contradiction|].
  unfold power_analyze. rewrite E. rewrite analyze_exact by assumption. reflexivity.
Qed.

Lemma panalyze_exact_cplx d specs re im p :
  specs <> [] -> specs_ok d specs -> length p = prodsz (doms_after d specs) ->
  vadd (sq re) (sq im) = distribute d specs p ->
  panalyze d specs false (FCplx re im) = Some (doms_after d specs, FReal p).
Proof.
  intros Hne Hok Hp E. destruct specs as [|sp rest]; [contradiction|].
  unfold power_analyze. rewrite E. rewrite analyze_exact by assumption. reflexivity.
Qed.

(* ---- adjointness <y, D x> = <D^T y, x> ---------------------------------------------------------- *)
Definition dot (N : nat) (a b : list R) : R := Sum N (fun t => get a t * get b t).

Lemma regroup n nbin (pf : nat -> nat) (g h : nat -> R) :
  (forall j, j < n -> pf j < nbin) ->
  Sum n (fun j => g j * h (pf j))
  = Sum nbin (fun b => Sum n (fun j => if pf j =? b then g j else r0) * h b).
Proof.
  induction n; intros Hpf; simpl.
  - rewrite (Sum_ext _ _ (fun _ => r0)) by (intros; ring). symmetry. apply Sum_zero.
  - rewrite IHn by (intros; apply Hpf; lia).
    rewrite (Sum_ext nbin (fun b => (Sum n (fun j => if pf j =? b then g j else r0) + (if pf n =? b then g n else r0)) * h b)
                     (fun b => Sum n (fun j => if pf j =? b then g j else r0) * h b
                               + (if pf n =? b then g n * h b else r0))).
    2:{ intros b _. destruct (pf n =? b); ring. }
    rewrite Sum_add. f_equal.
    rewrite (Sum_pick nbin (pf n) (fun b => g n * h b)) by (apply Hpf; lia). reflexivity.
Qed.

Lemma Sum_blocks a b c F :
  Sum (a * b * c) F = Sum a (fun i1 => Sum b (fun j => Sum c (fun i3 => F (idx3 b c i1 j i3)))).
Proof.
  rewrite Sum_split. rewrite Sum_split. apply Sum_ext. intros i1 _. apply Sum_ext. intros j _.
  reflexivity.
Qed.

Lemma adjointness pre n post nbin pindex x y :
  length pindex = n -> Forall (fun i => i < nbin) pindex ->
  dot (pre * n * post) y (dist_times R r0 pre n post nbin pindex x)
  = dot (pre * nbin * post) (dist_adjoint R r0 radd pre n post nbin pindex y) x.
Proof.
  intros HL Hall. unfold dot. rewrite !Sum_blocks.
  apply Sum_ext. intros i1 H1.
  rewrite (Sum_swap n post). rewrite (Sum_swap nbin post).
  apply Sum_ext. intros i3 H3.
  rewrite (Sum_ext n _ (fun j => get y (idx3 n post i1 j i3) * get x (idx3 nbin post i1 (nth j pindex 0%nat) i3))).
  2:{ intros j Hj. rewrite dist_times_get by assumption. reflexivity. }
  rewrite (regroup n nbin (fun j => nth j pindex 0%nat) (fun j => get y (idx3 n post i1 j i3))
                   (fun b => get x (idx3 nbin post i1 b i3))).
  2:{ intros j Hj. rewrite Forall_forall in Hall. apply Hall. apply nth_In. lia. }
  apply Sum_ext. intros b Hb. rewrite dist_adjoint_get by assumption. reflexivity.
Qed.

(* ---- create_power_operator ---------------------------------------------------------------------- *)
Lemma power_operator_get dpre s dpost pindex nbin p x i1 j i3 :
  length pindex = ssize s -> length x = prodsz (dpre ++ s :: dpost) ->
  i1 < prodsz dpre -> j < ssize s -> i3 < prodsz dpost ->
  get (power_operator_times R r0 rmul (dpre ++ s :: dpost) (length dpre) pindex nbin p x)
      (idx3 (ssize s) (prodsz dpost) i1 j i3)
  = get x (idx3 (ssize s) (prodsz dpost) i1 j i3) * get p (nth j pindex 0%nat).
Proof.
  intros HL Hx H1 Hj H3. unfold power_operator_times.
  assert (Es : size_at R r0 (dpre ++ s :: dpost) (length dpre) = ssize s).
  { unfold size_at. rewrite app_nth2 by lia. rewrite Nat.sub_diag. reflexivity. }
  destruct (split_facts dpre s dpost) as (_ & _ & E3). rewrite Es, E3.
  rewrite get_map_seq.
  2:{ rewrite Hx, prodsz_app, prodsz_cons.
      pose proof (idx3_lt (prodsz dpre) (ssize s) (prodsz dpost) i1 j i3 H1 Hj H3). lia. }
  destruct (idx3_decode (ssize s) (prodsz dpost) i1 j i3 Hj H3) as (_ & E2 & _). rewrite E2.
  f_equal.
  pose proof (dist_times_get 1 (ssize s) 1 nbin pindex p 0 j 0) as G.
  unfold idx3 in G. simpl in G. rewrite !Nat.mul_1_r, !Nat.add_0_r in G. apply G; lia.
Qed.

(* ---- DiagonalOperator.apply in all four modes (real spectrum) ------------------------------------ *)
Lemma power_operator_apply_length m d idx pindex nbin p x :
  length (power_operator_apply R r0 rmul rdiv m d idx pindex nbin p x) = length x.
Proof. unfold power_operator_apply. rewrite map_length, seq_length. reflexivity. Qed.

Lemma power_operator_apply_times d idx pindex nbin p x :
  power_operator_apply R r0 rmul rdiv MTimes d idx pindex nbin p x
  = power_operator_times R r0 rmul d idx pindex nbin p x.
Proof. reflexivity. Qed.

Lemma power_operator_apply_get m dpre s dpost pindex nbin p x i1 j i3 :
  length pindex = ssize s -> length x = prodsz (dpre ++ s :: dpost) ->
  i1 < prodsz dpre -> j < ssize s -> i3 < prodsz dpost ->
  get (power_operator_apply R r0 rmul rdiv m (dpre ++ s :: dpost) (length dpre) pindex nbin p x)
      (idx3 (ssize s) (prodsz dpost) i1 j i3)
  = if inverse_mode m
    then rdiv (get x (idx3 (ssize s) (prodsz dpost) i1 j i3)) (get p (nth j pindex 0%nat))
    else get x (idx3 (ssize s) (prodsz dpost) i1 j i3) * get p (nth j pindex 0%nat).
Proof.
  intros HL Hx H1 Hj H3. unfold power_operator_apply.
  assert (Es : size_at R r0 (dpre ++ s :: dpost) (length dpre) = ssize s).
  { unfold size_at. rewrite app_nth2 by lia. rewrite Nat.sub_diag. reflexivity. }
  destruct (split_facts dpre s dpost) as (_ & _ & E3). rewrite Es, E3.
  rewrite get_map_seq.
  2:{ rewrite Hx, prodsz_app, prodsz_cons.
      pose proof (idx3_lt (prodsz dpre) (ssize s) (prodsz dpost) i1 j i3 H1 Hj H3). lia. }
  destruct (idx3_decode (ssize s) (prodsz dpost) i1 j i3 Hj H3) as (_ & E2 & _). rewrite E2.
  assert (G : get (dist_times R r0 1 (ssize s) 1 nbin pindex p) j = get p (nth j pindex 0%nat)).
  { pose proof (dist_times_get 1 (ssize s) 1 nbin pindex p 0 j 0) as G.
    unfold idx3 in G. simpl in G. rewrite !Nat.mul_1_r, !Nat.add_0_r in G. apply G; lia. }
  rewrite G. destruct m; reflexivity.
Qed.

(* INVERSE_TIMES undoes TIMES and vice versa (also for the adjoint pair and the mixed pairs: the diagonal is
   real), on every mode whose bin has a non-zero spectrum value. *)
Lemma power_operator_inverse m mi dpre s dpost pindex nbin p x i1 j i3 :
  inverse_mode m = false -> inverse_mode mi = true ->
  length pindex = ssize s -> length x = prodsz (dpre ++ s :: dpost) ->
  i1 < prodsz dpre -> j < ssize s -> i3 < prodsz dpost ->
  get p (nth j pindex 0%nat) <> r0 ->
  (get (power_operator_apply R r0 rmul rdiv mi (dpre ++ s :: dpost) (length dpre) pindex nbin p
         (power_operator_apply R r0 rmul rdiv m (dpre ++ s :: dpost) (length dpre) pindex nbin p x))
      (idx3 (ssize s) (prodsz dpost) i1 j i3)
  = get x (idx3 (ssize s) (prodsz dpost) i1 j i3))
  /\ (get (power_operator_apply R r0 rmul rdiv m (dpre ++ s :: dpost) (length dpre) pindex nbin p
         (power_operator_apply R r0 rmul rdiv mi (dpre ++ s :: dpost) (length dpre) pindex nbin p x))
      (idx3 (ssize s) (prodsz dpost) i1 j i3)
  = get x (idx3 (ssize s) (prodsz dpost) i1 j i3)).
Proof.
  intros Hm Hmi HL Hx H1 Hj H3 Hp.
  rewrite !power_operator_apply_get by (try rewrite power_operator_apply_length; assumption).
  rewrite Hm, Hmi. split; field; exact Hp.
Qed.

End Th.

(* the model of a history is stateless: the answer to the last call does not depend on the calls before *)
Lemma history_stateless (R : Type) r0 r1 radd rmul rinv (pre : list (acall R)) (c : acall R) :
  analyze_history R r0 r1 radd rmul rinv (pre ++ [c])
  = analyze_history R r0 r1 radd rmul rinv pre ++ [run_acall R r0 r1 radd rmul rinv c].
Proof. unfold analyze_history. rewrite map_app. reflexivity. Qed.

Lemma history_pointwise (R : Type) r0 r1 radd rmul rinv (calls : list (acall R)) i c :
  nth_error calls i = Some c ->
  nth_error (analyze_history R r0 r1 radd rmul rinv calls) i = Some (run_acall R r0 r1 radd rmul rinv c).
Proof. intros H. unfold analyze_history. apply map_nth_error. exact H. Qed.

Lemma ohistory_pointwise (R : Type) r0 rmul (calls : list (ocall R)) i c :
  nth_error calls i = Some c ->
  nth_error (operator_history R r0 rmul calls) i = Some (run_ocall R r0 rmul c).
Proof. intros H. unfold operator_history. apply map_nth_error. exact H. Qed.
