Require Import NV.C10.Model.
Theorem C10_stub : True. Proof. exact I. Qed.
