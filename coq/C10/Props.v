(* C10 -- property theorems only.  Each is closed by [exact] of a lemma from Proofs.v.

   All theorems hold for EVERY field (R, 0, 1, +, *, -, /, inv) with Leibniz equality, every block
   layout (pre, n, post) / product domain, every number of bins and every bin-index table pindex.
   Layout:  idx3 n post i1 j i3 = (i1*n + j)*post + i3  is the flat position of block index
   (i1, j, i3);  get a t  is the t-th entry of the flat array a;  Sum n F = F 0 + ... + F (n-1);
   bins_ok pindex nbin: every index < nbin and every bin non-empty (what the constructors check);
   rho_ok: the member counts are non-zero IN THE FIELD (automatic in characteristic 0, see
   C10_counts_nonzero_Qc);  specs_ok d specs: each analysed sub-domain, in analysis order, is
   present, has a non-zero scalar volume and a valid binning. *)
From Coq Require Import List Arith Bool Field.
Import ListNotations.
Require Import NV.C10.Model NV.C10.Proofs.

(* Distribution (PowerDistributor/DOFDistributor TIMES): every mode (i1, j, i3) of the harmonic
   side receives the value of its bin pindex[j]. *)
Theorem C10_distribute :
  forall (R : Type) (r0 r1 : R) (radd rmul rsub : R -> R -> R) (ropp : R -> R)
         (rdiv : R -> R -> R) (rinv : R -> R),
    field_theory r0 r1 radd rmul rsub ropp rdiv rinv eq ->
    forall pre n post nbin pindex x i1 j i3,
    i1 < pre -> j < n -> i3 < post ->
    get R r0 (dist_times R r0 pre n post nbin pindex x) (idx3 n post i1 j i3)
    = get R r0 x (idx3 nbin post i1 (nth j pindex 0) i3).
Proof. intros R r0 r1 radd rmul rsub ropp rdiv rinv F. exact (dist_times_get R r0). Qed.

(* Adjoint (ADJOINT_TIMES via numpy.bincount per column): entry (i1, b, i3) is the sum over the
   members of bin b. *)
Theorem C10_adjoint_sums :
  forall (R : Type) (r0 r1 : R) (radd rmul rsub : R -> R -> R) (ropp : R -> R)
         (rdiv : R -> R -> R) (rinv : R -> R),
    field_theory r0 r1 radd rmul rsub ropp rdiv rinv eq ->
    forall pre n post nbin pindex x i1 b i3,
    length pindex = n -> Forall (fun i => i < nbin) pindex ->
    i1 < pre -> b < nbin -> i3 < post ->
    get R r0 (dist_adjoint R r0 radd pre n post nbin pindex x) (idx3 nbin post i1 b i3)
    = Sum R r0 radd n (fun j => if nth j pindex 0 =? b then get R r0 x (idx3 n post i1 j i3) else r0).
Proof. intros R r0 r1 radd rmul rsub ropp rdiv rinv F. exact (dist_adjoint_get R r0 r1 radd rmul rsub ropp rdiv rinv F). Qed.

(* Per-bin sums are independent of the other bins: if two inputs agree on the members of bin b (in
   column (i1, i3)), the adjoint's entry (i1, b, i3) is the same -- no rounding error, overflow or
   non-finite value of another bin can leak into it.  The correspondence uses this to compare the
   clean bins exactly when single bins of the implementation's input hold inf / nan. *)
Theorem C10_adjoint_bin_independent :
  forall (R : Type) (r0 r1 : R) (radd rmul rsub : R -> R -> R) (ropp : R -> R)
         (rdiv : R -> R -> R) (rinv : R -> R),
    field_theory r0 r1 radd rmul rsub ropp rdiv rinv eq ->
    forall pre n post nbin pindex x x' i1 b i3,
    length pindex = n -> Forall (fun i => i < nbin) pindex ->
    i1 < pre -> b < nbin -> i3 < post ->
    (forall j, j < n -> nth j pindex 0 = b -> get R r0 x (idx3 n post i1 j i3) = get R r0 x' (idx3 n post i1 j i3)) ->
    get R r0 (dist_adjoint R r0 radd pre n post nbin pindex x) (idx3 nbin post i1 b i3)
    = get R r0 (dist_adjoint R r0 radd pre n post nbin pindex x') (idx3 nbin post i1 b i3).
Proof. intros R r0 r1 radd rmul rsub ropp rdiv rinv F. exact (dist_adjoint_independent R r0 r1 radd rmul rsub ropp rdiv rinv F). Qed.

(* <y, D x> = <D^T y, x> for the flat inner products  dot N a b = Sum_{t<N} a[t]*b[t]. *)
Theorem C10_adjointness :
  forall (R : Type) (r0 r1 : R) (radd rmul rsub : R -> R -> R) (ropp : R -> R)
         (rdiv : R -> R -> R) (rinv : R -> R),
    field_theory r0 r1 radd rmul rsub ropp rdiv rinv eq ->
    forall pre n post nbin pindex x y,
    length pindex = n -> Forall (fun i => i < nbin) pindex ->
    dot R r0 radd rmul (pre * n * post) y (dist_times R r0 pre n post nbin pindex x)
    = dot R r0 radd rmul (pre * nbin * post) (dist_adjoint R r0 radd pre n post nbin pindex y) x.
Proof. intros R r0 r1 radd rmul rsub ropp rdiv rinv F. exact (adjointness R r0 r1 radd rmul rsub ropp rdiv rinv F). Qed.

(* One analysed sub-domain s (scalar volume pdvol <> 0) inside ANY product domain dpre ++ s :: dpost
   (the other sub-domains are arbitrary: scalar, per-pixel or no volume factors at all -- they are
   not weighted, fixes/C10-3.patch):
   _single_power_analyze = weight(1, idx) -> adjoint distributor -> weight(-1, idx) returns the bin MEAN,
   (sum over the members of bin b) / (number of members), on the domain with s replaced by the
   power space. *)
Theorem C10_analyze_mean :
  forall (R : Type) (r0 r1 : R) (radd rmul rsub : R -> R -> R) (ropp : R -> R)
         (rdiv : R -> R -> R) (rinv : R -> R),
    field_theory r0 r1 radd rmul rsub ropp rdiv rinv eq ->
    forall dpre s dpost pdvol pindex nbin x i1 b i3,
    sdv s = Scalar pdvol -> length pindex = ssize s ->
    bins_ok pindex nbin -> rho_ok R r0 r1 radd pindex nbin -> pdvol <> r0 ->
    length x = prodsz (dpre ++ s :: dpost) ->
    i1 < prodsz dpre -> b < nbin -> i3 < prodsz dpost ->
    exists y,
      single_power_analyze R r0 r1 radd rmul rinv (dpre ++ s :: dpost) (length dpre) pindex nbin x
        = Some (dom' R r0 r1 radd rmul dpre pindex nbin pdvol dpost, y) /\
      length y = prodsz dpre * nbin * prodsz dpost /\
      get R r0 y (idx3 nbin (prodsz dpost) i1 b i3)
      = rmul (Sum R r0 radd (ssize s)
                (fun j => if nth j pindex 0 =? b
                          then get R r0 x (idx3 (ssize s) (prodsz dpost) i1 j i3) else r0))
             (rinv (of_nat R r0 r1 radd (nth b (rho pindex nbin) 0))).
Proof. intros R r0 r1 radd rmul rsub ropp rdiv rinv F. exact (single_mean R r0 r1 radd rmul rsub ropp rdiv rinv F). Qed.

(* Exactness for any number of analysed sub-domains in any order: analysing a field that was
   distributed from the fully binned domain returns exactly the binned field (equality of lists)
   on the domain in which every analysed sub-domain is replaced by its power space. *)
Theorem C10_analyze_exact :
  forall (R : Type) (r0 r1 : R) (radd rmul rsub : R -> R -> R) (ropp : R -> R)
         (rdiv : R -> R -> R) (rinv : R -> R),
    field_theory r0 r1 radd rmul rsub ropp rdiv rinv eq ->
    forall specs d p,
    specs_ok R r0 r1 radd rmul d specs ->
    length p = prodsz (doms_after R r0 r1 radd rmul d specs) ->
    analyze_spaces R r0 r1 radd rmul rinv d specs (distribute_spaces R r0 r1 radd rmul d specs p)
    = Some (doms_after R r0 r1 radd rmul d specs, p).
Proof. intros R r0 r1 radd rmul rsub ropp rdiv rinv F. exact (analyze_exact R r0 r1 radd rmul rsub ropp rdiv rinv F). Qed.

(* power_analyze of a real field with f^2 = distribute(p) returns p ... *)
Theorem C10_power_analyze_exact_real :
  forall (R : Type) (r0 r1 : R) (radd rmul rsub : R -> R -> R) (ropp : R -> R)
         (rdiv : R -> R -> R) (rinv : R -> R),
    field_theory r0 r1 radd rmul rsub ropp rdiv rinv eq ->
    forall d specs a p,
    specs <> [] -> specs_ok R r0 r1 radd rmul d specs ->
    length p = prodsz (doms_after R r0 r1 radd rmul d specs) ->
    sq R rmul a = distribute_spaces R r0 r1 radd rmul d specs p ->
    power_analyze R r0 r1 radd rmul rinv d specs false (FReal a)
    = Some (doms_after R r0 r1 radd rmul d specs, FReal p).
Proof. intros R r0 r1 radd rmul rsub ropp rdiv rinv F. exact (panalyze_exact_real R r0 r1 radd rmul rsub ropp rdiv rinv F). Qed.

(* ... and of a complex field with Re^2 + Im^2 = distribute(p) as well. *)
Theorem C10_power_analyze_exact_complex :
  forall (R : Type) (r0 r1 : R) (radd rmul rsub : R -> R -> R) (ropp : R -> R)
         (rdiv : R -> R -> R) (rinv : R -> R),
    field_theory r0 r1 radd rmul rsub ropp rdiv rinv eq ->
    forall d specs re im p,
    specs <> [] -> specs_ok R r0 r1 radd rmul d specs ->
    length p = prodsz (doms_after R r0 r1 radd rmul d specs) ->
    vadd R radd (sq R rmul re) (sq R rmul im) = distribute_spaces R r0 r1 radd rmul d specs p ->
    power_analyze R r0 r1 radd rmul rinv d specs false (FCplx re im)
    = Some (doms_after R r0 r1 radd rmul d specs, FReal p).
Proof. intros R r0 r1 radd rmul rsub ropp rdiv rinv F. exact (panalyze_exact_cplx R r0 r1 radd rmul rsub ropp rdiv rinv F). Qed.

(* Phase information (FIXED code): the result is analyze(Re^2) + i analyze(Im^2), it is defined
   for every valid input, and its real and imaginary parts add up entry by entry to the result
   without phase information. *)
Theorem C10_keep_phase :
  forall (R : Type) (r0 r1 : R) (radd rmul rsub : R -> R -> R) (ropp : R -> R)
         (rdiv : R -> R -> R) (rinv : R -> R),
    field_theory r0 r1 radd rmul rsub ropp rdiv rinv eq ->
    forall d specs re im,
    specs <> [] -> specs_ok R r0 r1 radd rmul d specs -> length re = prodsz d -> length im = prodsz d ->
    exists p0 p1,
      analyze_spaces R r0 r1 radd rmul rinv d specs (sq R rmul re)
        = Some (doms_after R r0 r1 radd rmul d specs, p0) /\
      analyze_spaces R r0 r1 radd rmul rinv d specs (sq R rmul im)
        = Some (doms_after R r0 r1 radd rmul d specs, p1) /\
      power_analyze R r0 r1 radd rmul rinv d specs true (FCplx re im)
        = Some (doms_after R r0 r1 radd rmul d specs, FCplx p0 p1) /\
      power_analyze R r0 r1 radd rmul rinv d specs false (FCplx re im)
        = Some (doms_after R r0 r1 radd rmul d specs, FReal (vadd R radd p0 p1)).
Proof. intros R r0 r1 radd rmul rsub ropp rdiv rinv F. exact (keep_phase R r0 r1 radd rmul rsub ropp rdiv rinv F). Qed.

(* A real field carries no phase: the documented ValueError, for every input. *)
Theorem C10_real_field_has_no_phase :
  forall (R : Type) (r0 r1 : R) (radd rmul : R -> R -> R) (rinv : R -> R) d specs a,
    power_analyze R r0 r1 radd rmul rinv d specs true (FReal a) = None.
Proof. exact real_no_phase. Qed.

(* create_power_operator: the operator multiplies mode (i1, j, i3) by p[pindex[j]], i.e. it is the
   diagonal of the distributed spectrum on the addressed sub-domain of any product domain. *)
Theorem C10_power_operator :
  forall (R : Type) (r0 r1 : R) (radd rmul rsub : R -> R -> R) (ropp : R -> R)
         (rdiv : R -> R -> R) (rinv : R -> R),
    field_theory r0 r1 radd rmul rsub ropp rdiv rinv eq ->
    forall dpre s dpost pindex nbin p x i1 j i3,
    length pindex = ssize s -> length x = prodsz (dpre ++ s :: dpost) ->
    i1 < prodsz dpre -> j < ssize s -> i3 < prodsz dpost ->
    get R r0 (power_operator_times R r0 rmul (dpre ++ s :: dpost) (length dpre) pindex nbin p x)
        (idx3 (ssize s) (prodsz dpost) i1 j i3)
    = rmul (get R r0 x (idx3 (ssize s) (prodsz dpost) i1 j i3)) (get R r0 p (nth j pindex 0)).
Proof. intros R r0 r1 radd rmul rsub ropp rdiv rinv F. exact (power_operator_get R r0 rmul). Qed.

(* DiagonalOperator.apply of the power operator in ALL FOUR modes (real spectrum): TIMES and ADJOINT_TIMES
   multiply mode (i1, j, i3) by p[pindex[j]], INVERSE_TIMES and ADJOINT_INVERSE_TIMES divide by it. *)
Theorem C10_power_operator_modes :
  forall (R : Type) (r0 r1 : R) (radd rmul rsub : R -> R -> R) (ropp : R -> R)
         (rdiv : R -> R -> R) (rinv : R -> R),
    field_theory r0 r1 radd rmul rsub ropp rdiv rinv eq ->
    forall m dpre s dpost pindex nbin p x i1 j i3,
    length pindex = ssize s -> length x = prodsz (dpre ++ s :: dpost) ->
    i1 < prodsz dpre -> j < ssize s -> i3 < prodsz dpost ->
    get R r0 (power_operator_apply R r0 rmul rdiv m (dpre ++ s :: dpost) (length dpre) pindex nbin p x)
        (idx3 (ssize s) (prodsz dpost) i1 j i3)
    = if inverse_mode m
      then rdiv (get R r0 x (idx3 (ssize s) (prodsz dpost) i1 j i3)) (get R r0 p (nth j pindex 0))
      else rmul (get R r0 x (idx3 (ssize s) (prodsz dpost) i1 j i3)) (get R r0 p (nth j pindex 0)).
Proof. intros R r0 r1 radd rmul rsub ropp rdiv rinv F. exact (power_operator_apply_get R r0 rmul rdiv). Qed.

(* The inverse modes really invert: for a non-inverse mode m (TIMES / ADJOINT_TIMES) and an inverse mode mi
   (INVERSE_TIMES / ADJOINT_INVERSE_TIMES), applying mi after m and m after mi gives back the input on every
   mode (i1, j, i3) whose bin carries a non-zero spectrum value -- on any product domain, for any binning. *)
Theorem C10_power_operator_inverse :
  forall (R : Type) (r0 r1 : R) (radd rmul rsub : R -> R -> R) (ropp : R -> R)
         (rdiv : R -> R -> R) (rinv : R -> R),
    field_theory r0 r1 radd rmul rsub ropp rdiv rinv eq ->
    forall m mi dpre s dpost pindex nbin p x i1 j i3,
    inverse_mode m = false -> inverse_mode mi = true ->
    length pindex = ssize s -> length x = prodsz (dpre ++ s :: dpost) ->
    i1 < prodsz dpre -> j < ssize s -> i3 < prodsz dpost ->
    get R r0 p (nth j pindex 0) <> r0 ->
    (get R r0 (power_operator_apply R r0 rmul rdiv mi (dpre ++ s :: dpost) (length dpre) pindex nbin p
                (power_operator_apply R r0 rmul rdiv m (dpre ++ s :: dpost) (length dpre) pindex nbin p x))
         (idx3 (ssize s) (prodsz dpost) i1 j i3)
     = get R r0 x (idx3 (ssize s) (prodsz dpost) i1 j i3))
    /\ (get R r0 (power_operator_apply R r0 rmul rdiv m (dpre ++ s :: dpost) (length dpre) pindex nbin p
                (power_operator_apply R r0 rmul rdiv mi (dpre ++ s :: dpost) (length dpre) pindex nbin p x))
         (idx3 (ssize s) (prodsz dpost) i1 j i3)
     = get R r0 x (idx3 (ssize s) (prodsz dpost) i1 j i3)).
Proof. intros R r0 r1 radd rmul rsub ropp rdiv rinv F. exact (power_operator_inverse R r0 r1 radd rmul rsub ropp rdiv rinv F). Qed.

(* In TIMES mode the four-mode model is the model of C10_power_operator. *)
Theorem C10_power_operator_apply_times :
  forall (R : Type) (r0 : R) (rmul rdiv : R -> R -> R) d idx pindex nbin p x,
    power_operator_apply R r0 rmul rdiv MTimes d idx pindex nbin p x
    = power_operator_times R r0 rmul d idx pindex nbin p x.
Proof. exact power_operator_apply_times. Qed.

(* Histories: the answer to the i-th call of any sequence of power_analyze calls is the pure
   function of that call's arguments (domain, binning, phase flag, field) -- nothing that happened
   before (other binnings on the same domain, failed calls, retries) can influence it.  The
   correspondence evaluates `analyze_history` on generated call sequences. *)
Theorem C10_history_stateless :
  forall (R : Type) r0 r1 radd rmul rinv (calls : list (acall R)) i c,
    nth_error calls i = Some c ->
    nth_error (analyze_history R r0 r1 radd rmul rinv calls) i
    = Some (power_analyze R r0 r1 radd rmul rinv (fst c) (fst (snd c)) (fst (snd (snd c))) (snd (snd (snd c)))).
Proof.
  intros R r0 r1 radd rmul rinv calls i [d [specs [keep f]]] H.
  exact (history_pointwise R r0 r1 radd rmul rinv calls i _ H).
Qed.

(* The same for create_power_operator: the i-th operator of any sequence of calls is the pure function of the
   i-th call's domain, binning and spectrum VALUES (what the spectrum callable returns at that moment). *)
Theorem C10_operator_history_stateless :
  forall (R : Type) r0 rmul (calls : list (ocall R)) i c,
    nth_error calls i = Some c ->
    nth_error (operator_history R r0 rmul calls) i = Some (run_ocall R r0 rmul c).
Proof. exact ohistory_pointwise. Qed.

(* In the rationals (characteristic 0) the field-level side condition on the member counts follows
   from the combinatorial one: non-empty bins have non-zero counts. *)
Require Import Lia QArith Qcanon NV.C10.ProofsQc NV.C10.Corr.
Open Scope nat_scope.

Theorem C10_counts_nonzero_Qc :
  forall pindex nbin, bins_ok pindex nbin -> rho_ok Qc 0%Qc 1%Qc Qcplus pindex nbin.
Proof. exact rho_ok_Qc. Qed.

(* Non-vacuity: a product domain (passive sub-domain of size 2 with volume 1/2, harmonic partner
   of size 4 with volume 1/4 and bins {0}, {1,3}, {2}) meets every hypothesis of the theorems
   above, and the model run reproduces the spectrum. *)
Example C10_hyps_satisfiable :
  let d := [sp_scalar 2 (1 # 2); sp_scalar 4 (1 # 4)] in
  let specs := [(1, ([0; 1; 2; 1], 3))] in
  let p := qcs [1#1; 4#1; 9#1; 16#1; 25#1; 36#1]%Q in
  specs_ok Qc 0%Qc 1%Qc Qcplus Qcmult d specs /\
  length p = prodsz (doms_after Qc 0%Qc 1%Qc Qcplus Qcmult d specs) /\
  eq_list (distribute_spaces Qc 0%Qc 1%Qc Qcplus Qcmult d specs p)
          (qcs [1#1; 4#1; 9#1; 4#1; 16#1; 25#1; 36#1; 25#1]%Q) = true /\
  match analyze_spaces Qc 0%Qc 1%Qc Qcplus Qcmult Qcinv d specs
          (distribute_spaces Qc 0%Qc 1%Qc Qcplus Qcmult d specs p) with
  | Some (_, y) => eq_list y p
  | None => false
  end = true.
Proof.
  assert (B : bins_ok [0; 1; 2; 1] 3).
  { split; [repeat constructor|]. intros [|[|[|b]]] Hb; vm_compute; try discriminate; lia. }
  split; [|split; [|split]].
  - simpl. split; [discriminate|]. split; [reflexivity|]. split; [exact B|]. split; [apply rho_ok_Qc; exact B|]. split; [lia|exact I].
  - reflexivity.
  - vm_compute. reflexivity.
  - vm_compute. reflexivity.
Qed.
