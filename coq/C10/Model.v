(* C10 -- executable model of power distribution / power analysis (no proofs in this file).

   Mirrors (nifty/cl, FIXED code of fixes/C10-1.patch for power_analyze):
     operators/distributors.py   DOFDistributor._init2/_times/_adjoint_times, PowerDistributor
     utilities.py                _special_add_at  (numpy.bincount per (i1, i3) column)
     field.py                    Field.weight
     domains/power_space.py      PowerSpace.__init__: temp_rho = bincount(pindex), dvol = rho*pdvol,
                                 "empty bins detected"
     sugar.py                    _single_power_analyze, power_analyze, _create_power_field,
                                 create_power_operator (+ DiagonalOperator.apply, TIMES, sub-space)

   Arrays are flat, row-major.  A sub-domain with several axes (2-D RGSpace) is ONE block of
   size prod(shape) -- exactly how `_init2` treats it (firstaxis..lastaxis) and how `pindex.ravel()`
   enumerates it.  A field on the product domain d = [s_0; ...; s_{k-1}] has prod(ssize s_i)
   entries; the entry with block indices (i1, j, i3) relative to space `idx` sits at
   (i1 * n + j) * post + i3   with pre = prod sizes before idx, n = ssize s_idx, post = prod after.

   Everything is generic in the scalar type R with its operations; Props.v proves the theorems for
   every field (R, 0, 1, +, *, -, /, inv) and the correspondence check instantiates R := Qc. *)
From Coq Require Import List Arith Bool.
Import ListNotations.

(* ---- numpy.bincount(index, weights, minlength), generic in the weight type -------------------
       out = zeros(max(minlength, max(index)+1));  for j in range(len(index)): out[index[j]] += weights[j] *)
Fixpoint updG {A} (l : list A) (i : nat) (v : A) : list A :=
  match l, i with
  | [], _ => []
  | _ :: t, O => v :: t
  | x :: t, S i' => x :: updG t i' v
  end.

Fixpoint bincount_acc {A} (zero : A) (add : A -> A -> A) (idx : list nat) (w : list A) (acc : list A) : list A :=
  match idx, w with
  | i :: idx', v :: w' => bincount_acc zero add idx' w' (updG acc i (add (nth i acc zero) v))
  | _, _ => acc
  end.

Definition bins_len (idx : list nat) : nat := match idx with [] => 0 | _ => S (list_max idx) end.

Definition bincountG {A} (zero : A) (add : A -> A -> A) (idx : list nat) (w : list A) (minlength : nat) : list A :=
  bincount_acc zero add idx w (repeat zero (Nat.max minlength (bins_len idx))).

(* power_space.py:  temp_rho = np.bincount(temp_pindex.ravel(), minlength=nbin)   (integer counts) *)
Definition rho (pindex : list nat) (nbin : nat) : list nat :=
  bincountG 0 Nat.add pindex (repeat 1 (length pindex)) nbin.

(* the four application modes of a LinearOperator (TIMES, ADJOINT_TIMES, INVERSE_TIMES, ADJOINT_INVERSE_TIMES) *)
Inductive dmode := MTimes | MAdjoint | MInverse | MAdjInverse.
Definition inverse_mode (m : dmode) : bool := match m with MInverse | MAdjInverse => true | _ => false end.

Section Arith.
Variable R : Type.
Variables (r0 r1 : R) (radd rmul : R -> R -> R) (rinv : R -> R).
Variable rdiv : R -> R -> R.

Definition get (a : list R) (t : nat) : R := nth t a r0.

(* int -> float conversion of a count *)
Fixpoint of_nat (n : nat) : R := match n with O => r0 | S k => radd (of_nat k) r1 end.

Definition bincount (idx : list nat) (w : list R) (minlength : nat) : list R :=
  bincountG r0 radd idx w minlength.

(* ---- domains: only what C10 needs (size and volume factors) ---------------------------------- *)
Inductive dvol := Scalar (v : R) | PerPix (w : list R).
Record space := mkSpace { ssize : nat; sdv : dvol }.

Definition prodsz (d : list space) : nat := fold_right (fun s acc => ssize s * acc) 1 d.

(* ---- Field.weight(power), power in {1, -1}, spaces=None (all sub-domains) ----------------------
        fct = 1.
        for ind in spaces:
            wgt = self._domain[ind].dvol
            if np.isscalar(wgt):  fct *= wgt
            else:  new_shape = ones; new_shape[axes of ind] = wgt.shape; aout *= wgt.reshape(new_shape)**power
        fct = fct**power
        if fct != 1.:  aout *= fct          (multiplying by 1 is the identity: modelled unconditionally) *)
Definition pw (neg : bool) (x : R) : R := if neg then rinv x else x.

Definition mul_axis (neg : bool) (n post : nat) (w : list R) (a : list R) : list R :=
  map (fun t => rmul (get a t) (pw neg (get w ((t / post) mod n)))) (seq 0 (length a)).

Fixpoint weight_go (neg : bool) (d : list space) (fct : R) (a : list R) : R * list R :=
  match d with
  | [] => (fct, a)
  | s :: rest =>
      match sdv s with
      | Scalar v => weight_go neg rest (rmul fct v) a
      | PerPix w => weight_go neg rest fct (mul_axis neg (ssize s) (prodsz rest) w a)
      end
  end.

Definition weight (neg : bool) (d : list space) (a : list R) : list R :=
  let (fct, a') := weight_go neg d r1 a in
  map (fun x => rmul x (pw neg fct)) a'.

(* ---- Field.weight(power, spaces=idx): only sub-domain idx is weighted (same statements, the loop
        runs over `spaces = (idx,)`; `fct` stays 1. for a per-pixel volume).  A missing sub-domain
        (parse_spaces raises) is excluded by the theorems. *)
Definition weight_at (neg : bool) (d : list space) (idx : nat) (a : list R) : list R :=
  match nth_error d idx with
  | None => a
  | Some s =>
      match sdv s with
      | Scalar v => map (fun x => rmul x (pw neg (rmul r1 v))) a
      | PerPix w => map (fun x => rmul x (pw neg r1)) (mul_axis neg (ssize s) (prodsz (skipn (S idx) d)) w a)
      end
  end.

(* ---- DOFDistributor._times:
        arr = x.val.reshape(self._hshape)                      # (presize, nbin, postsize)
        oarr[()] = arr[(slice(None), self._dofdex, slice(None))]   # -> (presize, n, postsize)   *)
Definition dist_times (pre n post nbin : nat) (pindex : list nat) (x : list R) : list R :=
  map (fun t => get x (((t / post / n) * nbin + nth ((t / post) mod n) pindex 0) * post + t mod post))
      (seq 0 (pre * n * post)).

(* ---- DOFDistributor._adjoint_times + utilities._special_add_at:
        arr = x.val.reshape(self._pshape);  oarr = zeros(self._hshape)
        for i1 in range(sz1): for i3 in range(sz3):
            a2[i1, :, i3] += np.bincount(index, b2[i1, :, i3], minlength=a2.shape[1])
      (complex arrays are processed as two real arrays: `view(dt2)`, sz3 *= 2 -- see cmap) *)
Definition column (n post : nat) (x : list R) (i1 i3 : nat) : list R :=
  map (fun j => get x ((i1 * n + j) * post + i3)) (seq 0 n).

Definition dist_adjoint (pre n post nbin : nat) (pindex : list nat) (x : list R) : list R :=
  let tab := map (fun c => bincount pindex (column n post x (c / post) (c mod post)) nbin)
                 (seq 0 (pre * post)) in
  map (fun t => radd r0 (get (nth ((t / post / nbin) * post + t mod post) tab []) ((t / post) mod nbin)))
      (seq 0 (pre * nbin * post)).

(* ---- DOFDistributor._init2: the (pre, n, post) blocks come from the target's shape
        presize = prod(arrshape[0:firstaxis]);  postsize = prod(arrshape[lastaxis+1:])
        self._hshape = (presize, self._domain[self._space].shape[0], postsize)
        self._pshape = (presize, self._dofdex.size, postsize)
      d is the TARGET (harmonic side) domain. *)
Definition size_at (d : list space) (idx : nat) : nat := ssize (nth idx d (mkSpace 0 (Scalar r0))).

Definition pd_times (d : list space) (idx : nat) (pindex : list nat) (nbin : nat) (x : list R) : list R :=
  dist_times (prodsz (firstn idx d)) (length pindex) (prodsz (skipn (S idx) d)) nbin pindex x.

Definition pd_adjoint (d : list space) (idx : nat) (pindex : list nat) (nbin : nat) (x : list R) : list R :=
  dist_adjoint (prodsz (firstn idx d)) (length pindex) (prodsz (skipn (S idx) d)) nbin pindex x.

(* complex arrays = (real part, imaginary part); real-linear maps act on both *)
Definition cmap (f : list R -> list R) (z : list R * list R) : list R * list R := (f (fst z), f (snd z)).

(* ---- PowerSpace(harmonic_partner, binbounds): size = nbin, dvol = temp_rho * pdvol ------------ *)
Definition pspace (pindex : list nat) (nbin : nat) (pdvol : R) : space :=
  mkSpace nbin (PerPix (map (fun c => rmul (of_nat c) pdvol) (rho pindex nbin))).

(* ---- sugar._single_power_analyze(field, idx, binbounds):
        power_domain = PowerSpace(field.domain[idx], binbounds)
        pd = PowerDistributor(field.domain, power_domain, idx)
        res = pd.adjoint_times(field.weight(1, spaces=idx))      # fixes/C10-3.patch: only the analysed
        return res.weight(-1, spaces=idx)                        # sub-domain is weighted
      The binning enters through pindex/nbin (what PowerSpace computed; C08's subject).
      None = an exception of the real code:
        idx out of range; "harmonic partner must have scalar volume factors"; "empty bins detected";
        pindex of the wrong length cannot occur in the real code (modelled as None). *)
Definition single_power_analyze (d : list space) (idx : nat) (pindex : list nat) (nbin : nat) (x : list R)
  : option (list space * list R) :=
  match nth_error d idx with
  | None => None
  | Some s =>
      match sdv s with
      | PerPix _ => None
      | Scalar pdvol =>
          if negb (length pindex =? ssize s) then None
          else if existsb (Nat.eqb 0) (rho pindex nbin) then None
          else
            let dpre := firstn idx d in
            let dpost := skipn (S idx) d in
            let d' := dpre ++ pspace pindex nbin pdvol :: dpost in
            Some (d', weight_at true d' idx (pd_adjoint d idx pindex nbin (weight_at false d idx x)))
      end
  end.

(* one analysed space = (index, pindex, nbin) *)
Definition spec := (nat * (list nat * nat))%type.

(*  for space_index in spaces:
        parts = [_single_power_analyze(part, space_index, binbounds) for part in parts]          *)
Fixpoint analyze_spaces (d : list space) (specs : list spec) (x : list R) : option (list space * list R) :=
  match specs with
  | [] => Some (d, x)
  | (idx, (pindex, nbin)) :: rest =>
      match single_power_analyze d idx pindex nbin x with
      | None => None
      | Some (d', x') => analyze_spaces d' rest x'
      end
  end.

Inductive fval := FReal (a : list R) | FCplx (re im : list R).

Definition sq (a : list R) : list R := map (fun v => rmul v v) a.
Definition vadd (a b : list R) : list R := map (fun p => radd (fst p) (snd p)) (combine a b).

(* ---- sugar.power_analyze (FIXED: `if field_real and keep_phase_information: raise ValueError`)
        if len(spaces) == 0: raise ValueError
        field_real = not iscomplextype(field.dtype)
        if field_real and keep_phase_information: raise ValueError("cannot keep phase from real-valued input Field")
        if keep_phase_information: parts = [field.real*field.real, field.imag*field.imag]
        else: parts = [field**2] if field_real else [field.real*field.real + field.imag*field.imag]
        for space_index in spaces: parts = [_single_power_analyze(part, space_index, binbounds) ...]
        return parts[0] + 1j*parts[1] if keep_phase_information else parts[0]
      (1j*parts[1] of a real array has real part 0*p - 1*0 = 0 and imaginary part 0*0 + 1*p = p.) *)
Definition power_analyze (d : list space) (specs : list spec) (keep : bool) (f : fval)
  : option (list space * fval) :=
  match specs with
  | [] => None
  | _ =>
      match f, keep with
      | FReal _, true => None
      | FCplx re im, true =>
          match analyze_spaces d specs (sq re), analyze_spaces d specs (sq im) with
          | Some (d', p0), Some (_, p1) => Some (d', FCplx p0 p1)
          | _, _ => None
          end
      | FReal a, false =>
          match analyze_spaces d specs (sq a) with
          | Some (d', p0) => Some (d', FReal p0)
          | None => None
          end
      | FCplx re im, false =>
          match analyze_spaces d specs (vadd (sq re) (sq im)) with
          | Some (d', p0) => Some (d', FReal p0)
          | None => None
          end
      end
  end.

(* ---- the inverse direction used by the exactness theorem: distribute over all analysed spaces
        (PowerDistributor(target=d, power_space, space=idx).times for each spec, innermost last) --- *)
Definition dom_after (d : list space) (idx : nat) (pindex : list nat) (nbin : nat) : list space :=
  match nth_error d idx with
  | Some (mkSpace _ (Scalar pdvol)) => firstn idx d ++ pspace pindex nbin pdvol :: skipn (S idx) d
  | _ => d
  end.

Fixpoint distribute_spaces (d : list space) (specs : list spec) (p : list R) : list R :=
  match specs with
  | [] => p
  | (idx, (pindex, nbin)) :: rest =>
      pd_times d idx pindex nbin (distribute_spaces (dom_after d idx pindex nbin) rest p)
  end.

(* ---- sugar.create_power_operator(domain, power_spectrum: Field on a PowerSpace, space):
        field = PowerDistributor(domain[space], power_domain)(fp)        # _create_power_field
        return DiagonalOperator(field, domain, space)
      DiagonalOperator.apply (TIMES): x.val * self._ldiag  with  _ldiag = diagonal reshaped to
      [shp if axis active else 1]  (broadcast along the other sub-domains). *)
Definition power_operator_times (d : list space) (idx : nat) (pindex : list nat) (nbin : nat)
           (p : list R) (x : list R) : list R :=
  let n := size_at d idx in
  let post := prodsz (skipn (S idx) d) in
  let diag := dist_times 1 n 1 nbin pindex p in
  map (fun t => rmul (get x t) (get diag ((t / post) mod n))) (seq 0 (length x)).

(* ---- DiagonalOperator.apply, all four modes, REAL diagonal (create_power_operator: `_trafo` = 0, so
        trafo = self._ilog[mode] ^ self._trafo = 0 (TIMES), 1 (ADJOINT_TIMES), 2 (INVERSE_TIMES), 3 (ADJOINT_INVERSE_TIMES)):
        if trafo == 0:  return Field(x.domain, x.val*self._ldiag)
        if trafo == 1:  return Field(x.domain, mul_conj2(x.val, self._ldiag) if self._complex else x.val*self._ldiag)
        if trafo == 2:  return Field(x.domain, x.val/self._ldiag)
        return Field(x.domain, div_conj2(x.val, self._ldiag) if self._complex else x.val/self._ldiag)
      (`self._complex` is the DIAGONAL's complexity: false for a power spectrum).  A zero diagonal entry in an
      inverse mode (IEEE inf/nan in the code, x/0 totalised in a field) is excluded by the theorems. *)
Definition power_operator_apply (m : dmode) (d : list space) (idx : nat) (pindex : list nat) (nbin : nat)
           (p : list R) (x : list R) : list R :=
  let n := size_at d idx in
  let post := prodsz (skipn (S idx) d) in
  let diag := dist_times 1 n 1 nbin pindex p in
  map (fun t => match m with
                | MTimes | MAdjoint => rmul (get x t) (get diag ((t / post) mod n))
                | MInverse | MAdjInverse => rdiv (get x t) (get diag ((t / post) mod n))
                end) (seq 0 (length x)).

(* ---- histories: power_analyze keeps NO state between calls.  The model of a sequence of calls in
        one process (same or different domains, binnings, phase flags; failing calls and retries) is
        the pure model applied to each call's own arguments. ------------------------------------- *)
Definition acall := (list space * (list spec * (bool * fval)))%type.
Definition run_acall (c : acall) : option (list space * fval) :=
  let '(d, (specs, (keep, f))) := c in power_analyze d specs keep f.
Definition analyze_history (calls : list acall) : list (option (list space * fval)) := map run_acall calls.

(* create_power_operator keeps no state either: a sequence of calls (also with the SAME callable object whose
   parameters changed in between) is the pure model applied to each call's own spectrum values. *)
Definition ocall := (list space * (nat * (list nat * (nat * (list R * list R)))))%type.
Definition run_ocall (c : ocall) : list R :=
  let '(d, (idx, (pindex, (nbin, (p, x))))) := c in power_operator_times d idx pindex nbin p x.
Definition operator_history (calls : list ocall) : list (list R) := map run_ocall calls.

End Arith.

Arguments Scalar {R} _.
Arguments PerPix {R} _.
Arguments mkSpace {R} _ _.
Arguments ssize {R} _.
Arguments sdv {R} _.
Arguments prodsz {R} _.
Arguments FReal {R} _.
Arguments FCplx {R} _ _.
