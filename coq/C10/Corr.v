(* C10 -- instantiation of the model at R := Qc and the comparison functions used by the
   correspondence check (no proofs).  Inputs arrive as Q literals (exact images of float64 values). *)
From Coq Require Import List Arith Bool ZArith QArith Qabs Qcanon.
Import ListNotations.
Require Import NV.C10.Model.

Definition qc (x : Q) : Qc := Q2Qc x.
Definition qcs (l : list Q) : list Qc := map qc l.

Definition Qspace := space Qc.
Definition sp_scalar (n : nat) (v : Q) : Qspace := mkSpace n (Scalar (qc v)).
Definition sp_perpix (n : nat) (w : list Q) : Qspace := mkSpace n (PerPix (qcs w)).

Definition q_times := pd_times Qc 0%Qc.
Definition q_adjoint := pd_adjoint Qc 0%Qc Qcplus.
Definition q_weight := weight Qc 0%Qc 1%Qc Qcmult Qcinv.
Definition q_single := single_power_analyze Qc 0%Qc 1%Qc Qcplus Qcmult Qcinv.
Definition q_analyze := power_analyze Qc 0%Qc 1%Qc Qcplus Qcmult Qcinv.
Definition q_pspace := pspace Qc 0%Qc 1%Qc Qcplus Qcmult.
Definition q_powop := power_operator_times Qc 0%Qc Qcmult.

Definition q_powop_apply := power_operator_apply Qc 0%Qc Qcmult Qcdiv.

Fixpoint eq_list (a b : list Qc) : bool :=
  match a, b with
  | [], [] => true
  | x :: a', y :: b' => Qc_eq_bool x y && eq_list a' b'
  | _, _ => false
  end.

(* compare only where the mask is true (bins whose members are all finite in the implementation's input) *)
Fixpoint eq_list_masked (m : list bool) (a b : list Qc) : bool :=
  match m, a, b with
  | [], [], [] => true
  | k :: m', x :: a', y :: b' => (if k then Qc_eq_bool x y else true) && eq_list_masked m' a' b'
  | _, _, _ => false
  end.

(* |x - y| <= 2^-40 * max(1, |y|) : float64 result of the implementation vs exact model value.
   (The analysis multiplies by the rounded reciprocal of rho*dvol, so its float result is within a
   few ulp = 2^-52 relative of the exact rational; 2^-40 leaves three decimal orders of slack.) *)
Definition close1 (x y : Qc) : bool :=
  let d := Qabs (this x - this y) in
  let s := Qabs (this y) in
  Qle_bool (d * (1099511627776 # 1)) (if Qle_bool 1 s then s else 1).

Fixpoint close_list (a b : list Qc) : bool :=
  match a, b with
  | [], [] => true
  | x :: a', y :: b' => close1 x y && close_list a' b'
  | _, _ => false
  end.

Definition dvol_eq (a b : dvol Qc) : bool :=
  match a, b with
  | Scalar x, Scalar y => Qc_eq_bool x y
  | PerPix x, PerPix y => eq_list x y
  | _, _ => false
  end.

Fixpoint dom_eq (a b : list Qspace) : bool :=
  match a, b with
  | [], [] => true
  | x :: a', y :: b' => (ssize x =? ssize y) && dvol_eq (sdv x) (sdv y) && dom_eq a' b'
  | _, _ => false
  end.

(* observed outcome of power_analyze on the implementation: None = ValueError raised *)
Definition analyze_ok (d : list Qspace) (specs : list spec) (keep : bool) (f : fval Qc)
           (obs : option (list Qspace * fval Qc)) : bool :=
  match q_analyze d specs keep f, obs with
  | None, None => true
  | Some (d1, FReal a), Some (d2, FReal b) => dom_eq d1 d2 && close_list b a
  | Some (d1, FCplx a1 a2), Some (d2, FCplx b1 b2) => dom_eq d1 d2 && close_list b1 a1 && close_list b2 a2
  | _, _ => false
  end.

(* a whole history of calls: the i-th observation is compared with the pure model of the i-th call *)
Definition result_ok (m obs : option (list Qspace * fval Qc)) : bool :=
  match m, obs with
  | None, None => true
  | Some (d1, FReal a), Some (d2, FReal b) => dom_eq d1 d2 && close_list b a
  | Some (d1, FCplx a1 a2), Some (d2, FCplx b1 b2) => dom_eq d1 d2 && close_list b1 a1 && close_list b2 a2
  | _, _ => false
  end.
Fixpoint results_ok (ms obs : list (option (list Qspace * fval Qc))) : bool :=
  match ms, obs with
  | [], [] => true
  | m :: ms', o :: obs' => result_ok m o && results_ok ms' obs'
  | _, _ => false
  end.
Definition q_history := analyze_history Qc 0%Qc 1%Qc Qcplus Qcmult Qcinv.
Definition history_ok (calls : list (acall Qc)) (obs : list (option (list Qspace * fval Qc))) : bool :=
  results_ok (q_history calls) obs.
Definition acall_of (d : list Qspace) (specs : list spec) (keep : bool) (f : fval Qc) : acall Qc := (d, (specs, (keep, f))).

Definition q_ohistory := operator_history Qc 0%Qc Qcmult.
Fixpoint lists_ok (ms obs : list (list Qc)) : bool :=
  match ms, obs with
  | [], [] => true
  | m :: ms', o :: obs' => eq_list m o && lists_ok ms' obs'
  | _, _ => false
  end.
Definition ohistory_ok (calls : list (ocall Qc)) (obs : list (list Qc)) : bool := lists_ok (q_ohistory calls) obs.
Definition ocall_of (d : list Qspace) (idx : nat) (pindex : list nat) (nbin : nat) (p x : list Q) : ocall Qc :=
  (d, (idx, (pindex, (nbin, (qcs p, qcs x))))).

Definition fre (l : list Q) : fval Qc := FReal (qcs l).
Definition fcx (re im : list Q) : fval Qc := FCplx (qcs re) (qcs im).
