(* C19 -- lemmas about the sampled-KL model. *)
From Coq Require Import List Arith Bool Lia QArith.
Import ListNotations.
Require Import NV.C23.Model NV.C23.Proofs NV.C19.Model.
Require NV.C23.Leaves.
Local Open Scope nat_scope.

(* ---------------------------------------------------------------------------------------------- *)
(* 1. The pairwise tree of allreduce_sum equals the ordered sum for associative addition           *)
Section Hom.
Variables (A B : Type) (opA : A -> A -> A) (opB : B -> B -> B) (f : A -> B).
Hypothesis f_hom : forall a b, f (opA a b) = opB (f a) (f b).

Lemma cell_map (l : arr A) i : cell B (map (option_map f) l) i = option_map f (cell A l i).
Proof.
  unfold cell. change (@None B) with (option_map f (@None A)). apply map_nth.
Qed.

Lemma upd_map (l : arr A) i v :
  upd B (map (option_map f) l) i (option_map f v) = map (option_map f) (upd A l i v).
Proof.
  revert i; induction l as [|x l IH]; intros [|i]; simpl; try reflexivity. now rewrite IH.
Qed.

Lemma addat_map (l : arr A) j k :
  addat B opB (map (option_map f) l) j k = map (option_map f) (addat A opA l j k).
Proof.
  unfold addat. rewrite !cell_map.
  destruct (cell A l j) as [a|]; simpl; [|reflexivity].
  destruct (cell A l k) as [b|]; simpl; [|reflexivity].
  change (@None B) with (option_map f (@None A)).
  rewrite <- f_hom. change (Some (f (opA a b))) with (option_map f (Some (opA a b))).
  now rewrite !upd_map.
Qed.

Lemma fold_addat_map (evs : list (nat * nat)) (l : arr A) :
  fold_left (fun l e => addat B opB l (fst e) (snd e)) evs (map (option_map f) l)
  = map (option_map f) (fold_left (fun l e => addat A opA l (fst e) (snd e)) evs l).
Proof.
  revert l; induction evs as [|e evs IH]; intros l; simpl; [reflexivity|].
  now rewrite addat_map, IH.
Qed.

Lemma seq_sum_hom (vals : list A) :
  seq_sum B opB (map f vals) = option_map f (seq_sum A opA vals).
Proof.
  unfold seq_sum, seq_run. rewrite map_length, map_map.
  replace (map (fun x => Some (f x)) vals) with (map (option_map f) (map Some vals))
    by (rewrite map_map; reflexivity).
  now rewrite fold_addat_map, cell_map.
Qed.
End Hom.

Section Assoc.
Variable A : Type.
Variable op : A -> A -> A.
Hypothesis op_assoc : forall a b c, op a (op b c) = op (op a b) c.

Definition fold1 (d : A) (l : list A) : A := match l with [] => d | x :: xs => fold_left op xs x end.

Lemma fold_left_op_shift ys : forall a y, fold_left op ys (op a y) = op a (fold_left op ys y).
Proof.
  induction ys as [|z ys IH]; intros a y; simpl; [reflexivity|].
  rewrite <- op_assoc. apply IH.
Qed.

Lemma fold1_app d l1 l2 : l1 <> [] -> l2 <> [] ->
  fold1 d (l1 ++ l2) = op (fold1 d l1) (fold1 d l2).
Proof.
  destruct l1 as [|x xs]; [congruence|]. destruct l2 as [|y ys]; [congruence|]. intros _ _.
  simpl. rewrite fold_left_app. simpl. apply fold_left_op_shift.
Qed.

Fixpoint eval (vals : list A) (d : A) (t : tm) : A :=
  match t with V i => nth i vals d | P a b => op (eval vals d a) (eval vals d b) end.

Lemma leaves_nonempty t : leaves t <> [].
Proof.
  induction t as [i|a IHa b IHb]; simpl; [discriminate|].
  destruct (leaves a); [congruence|discriminate].
Qed.

Lemma eval_leaves vals d t :
  eval vals d t = fold1 d (map (fun i => nth i vals d) (leaves t)).
Proof.
  induction t as [i|a IHa b IHb]; simpl; [reflexivity|].
  rewrite map_app, fold1_app, IHa, IHb; try reflexivity.
  - intro H; apply map_eq_nil in H; exact (leaves_nonempty a H).
  - intro H; apply map_eq_nil in H; exact (leaves_nonempty b H).
Qed.

Lemma map_nth_seq (vals : list A) d : map (fun i => nth i vals d) (seq 0 (length vals)) = vals.
Proof.
  induction vals as [|x vals IH]; simpl; [reflexivity|].
  f_equal. rewrite <- seq_shift, map_map. exact IH.
Qed.

Lemma list_eqb_nat_sound : forall a b : list nat, list_eqb Nat.eqb a b = true -> a = b.
Proof.
  induction a as [|x a IH]; destruct b as [|y b]; simpl; intros H; try discriminate; [reflexivity|].
  apply andb_true_iff in H. destruct H as [H1 H2]. apply Nat.eqb_eq in H1. subst. f_equal. now apply IH.
Qed.

Lemma leaves_fold1_fold_left : forall (l : list A) x, Leaves.fold1 A op x l = fold_left op l x.
Proof. induction l as [|y l IH]; intros x; simpl; [reflexivity|apply IH]. Qed.

(* the tree of allreduce_sum (C23) is the ordered sum, for ANY number >= 1 of summands
   (unbounded tree-shape theorem NV.C23.Leaves.seq_sum_assoc) *)
Lemma tree_sum_assoc (vals : list A) : 1 <= length vals ->
  seq_sum A op vals = sum1 op vals.
Proof.
  intros Hn. destruct vals as [|d vals0] eqn:E; [simpl in Hn; lia|]. rewrite <- E in *.
  pose proof (Leaves.seq_sum_assoc A op (fun i => nth i vals d) op_assoc (length vals) Hn) as H.
  rewrite map_nth_seq in H. rewrite H. rewrite leaves_fold1_fold_left.
  rewrite E. cbn [length nth sum1]. f_equal. f_equal.
  replace (S (length vals0) - 1) with (length vals0) by lia.
  rewrite <- seq_shift, map_map. cbn [nth]. apply map_nth_seq.
Qed.
End Assoc.

(* ---------------------------------------------------------------------------------------------- *)
(* 2. Multi-field lemmas                                                                            *)
Section MF.
Variable T : Type.
Variable tadd tsub : T -> T -> T.
Variable tdivn : T -> nat -> T.
Hypothesis tadd_assoc : forall a b c, tadd a (tadd b c) = tadd (tadd a b) c.

Notation mf := (mf T).
Notation lookup := (lookup T).

Lemma vzip_assoc : forall u v w : vec T,
  vzip T tadd u (vzip T tadd v w) = vzip T tadd (vzip T tadd u v) w.
Proof.
  induction u as [|a u IH]; intros [|b v] [|c w]; simpl; try reflexivity.
  now rewrite tadd_assoc, IH.
Qed.

Lemma mf_add_assoc : forall a b c : mf,
  mf_add T tadd a (mf_add T tadd b c) = mf_add T tadd (mf_add T tadd a b) c.
Proof.
  induction a as [|[k u] a IH]; intros [|[k1 v] b] [|[k2 w] c]; simpl; try reflexivity.
  now rewrite vzip_assoc, IH.
Qed.

Lemma lookup_filter_keep (p : nat * vec T -> bool) k : forall f : mf,
  (forall v, p (k, v) = true) -> lookup k (filter p f) = lookup k f.
Proof.
  intros f Hp. induction f as [|[k' v] f IH]; simpl; [reflexivity|].
  destruct (p (k', v)) eqn:E; simpl.
  - destruct (Nat.eqb k k'); [reflexivity|exact IH].
  - destruct (Nat.eqb k k') eqn:Ek; [|exact IH].
    apply Nat.eqb_eq in Ek. subst. rewrite Hp in E. discriminate.
Qed.

Lemma lookup_filter_drop (p : nat * vec T -> bool) k : forall f : mf,
  (forall v, p (k, v) = false) -> lookup k (filter p f) = None.
Proof.
  intros f Hp. induction f as [|[k' v] f IH]; simpl; [reflexivity|].
  destruct (p (k', v)) eqn:E; simpl; [|exact IH].
  destruct (Nat.eqb k k') eqn:Ek; [|exact IH].
  apply Nat.eqb_eq in Ek. subst. rewrite Hp in E. discriminate.
Qed.

Lemma lookup_reduce_field f keys k :
  lookup k (reduce_field T f keys) = if has keys k then None else lookup k f.
Proof.
  unfold reduce_field. destruct (has keys k) eqn:E.
  - apply lookup_filter_drop. intros v; simpl. now rewrite E.
  - apply lookup_filter_keep. intros v; simpl. now rewrite E.
Qed.

Lemma lookup_map_val (g : nat * vec T -> vec T) k : forall f : mf,
  lookup k (map (fun kv => (fst kv, g kv)) f)
  = match lookup k f with Some v => Some (g (k, v)) | None => None end.
Proof.
  induction f as [|[k' v] f IH]; simpl; [reflexivity|].
  destruct (Nat.eqb k k') eqn:Ek; [|exact IH].
  apply Nat.eqb_eq in Ek. now subst.
Qed.

Lemma flexible_addsub_alt (m r : mf) neg :
  flexible_addsub T tadd tsub m r neg
  = map (fun kv => (fst kv, match lookup (fst kv) r with
                            | Some rv => vzip T (if neg then tsub else tadd) (snd kv) rv
                            | None => snd kv end)) m.
Proof.
  unfold flexible_addsub. apply map_ext. intros [k v]; simpl. now destruct (lookup k r).
Qed.

Lemma lookup_flexible_addsub (m r : mf) neg k :
  lookup k (flexible_addsub T tadd tsub m r neg)
  = match lookup k m with
    | Some v => Some (match lookup k r with
                      | Some rv => vzip T (if neg then tsub else tadd) v rv
                      | None => v end)
    | None => None
    end.
Proof.
  rewrite flexible_addsub_alt.
  rewrite (lookup_map_val (fun kv => match lookup (fst kv) r with
                            | Some rv => vzip T (if neg then tsub else tadd) (snd kv) rv
                            | None => snd kv end)).
  reflexivity.
Qed.

Lemma has_keys_of (a : mf) k : has (keys_of T a) k = match lookup k a with Some _ => true | None => false end.
Proof.
  induction a as [|[k' v] a IH]; simpl; [reflexivity|].
  destruct (Nat.eqb k k'); [reflexivity|exact IH].
Qed.

Lemma lookup_app (a b : mf) k :
  lookup k (a ++ b) = match lookup k a with Some v => Some v | None => lookup k b end.
Proof.
  induction a as [|[k' v] a IH]; simpl; [reflexivity|].
  destruct (Nat.eqb k k'); [reflexivity|exact IH].
Qed.

Lemma union_alt (a b : mf) :
  union T a b
  = map (fun kv => (fst kv, match lookup (fst kv) b with Some v => v | None => snd kv end)) a
    ++ filter (fun kv => negb (has (keys_of T a) (fst kv))) b.
Proof.
  unfold union. f_equal. apply map_ext. intros [k v]; simpl. now destruct (lookup k b).
Qed.

Lemma lookup_union (a b : mf) k :
  lookup k (union T a b)
  = match lookup k a with
    | Some va => Some (match lookup k b with Some v => v | None => va end)
    | None => lookup k b
    end.
Proof.
  rewrite union_alt, lookup_app.
  rewrite (lookup_map_val (fun kv => match lookup (fst kv) b with Some v => v | None => snd kv end)).
  destruct (lookup k a) as [va|] eqn:Ea; [reflexivity|].
  apply lookup_filter_keep. intros v; simpl. rewrite has_keys_of, Ea. reflexivity.
Qed.

(* ---- KL-level statements ---- *)
Variable hval : list nat -> mf -> T.
Variable hgrad : mf -> mf.
Variable hmet : mf -> mf -> mf.

Notation kl := (kl T).

Lemma sl_samples_length (s : slist T) : length (sl_res s) = length (sl_neg s) ->
  length (sl_samples T tadd tsub s) = sl_n T s.
Proof.
  intros H. unfold sl_samples, sl_n. rewrite map_length, combine_length, <- H. apply Nat.min_id.
Qed.

(* average(op=None): the tree average of the samples is their ordered sum divided by n *)
Lemma sl_average_ordered (s : slist T) :
  let smp := sl_samples T tadd tsub s in
  1 <= length smp ->
  sl_average T tadd tsub tdivn s
  = option_map (fun a => mf_divn T tdivn a (length smp)) (sum1 (mf_add T tadd) smp).
Proof.
  intros smp Hn. unfold sl_average, average_mf. fold smp.
  rewrite (tree_sum_assoc (Model.mf T) (mf_add T tadd) mf_add_assoc) by exact Hn.
  destruct (sum1 (mf_add T tadd) _); reflexivity.
Qed.

(* at(mean) keeps the number of samples; the sample list has n_samples items *)
Lemma sl_at_count (s : slist T) (p : mf) :
  sl_n T (sl_at T s p) = sl_n T s /\
  (length (sl_res s) = length (sl_neg s) ->
   length (sl_samples T tadd tsub (sl_at T s p)) = sl_n T s).
Proof.
  split; [reflexivity|]. intros H. exact (sl_samples_length (sl_at T s p) H).
Qed.

Lemma kl_value_mean (e : kl) :
  let smp := sl_samples T tadd tsub (kl_sl e) in
  1 <= length smp ->
  kl_value T tadd tsub tdivn hval hgrad e
  = option_map (fun s => tdivn s (length smp)) (sum1 tadd (map (hval (kl_constants e)) smp)).
Proof.
  intros smp Hn. unfold kl_value, average_T.
  assert (E : map (fun s => fst (kl_func T hval hgrad e s)) (sl_samples T tadd tsub (kl_sl e)) = map (hval (kl_constants e)) smp)
    by (apply map_ext; reflexivity).
  rewrite E.
  rewrite (tree_sum_assoc T tadd tadd_assoc) by (rewrite map_length; exact Hn).
  rewrite map_length.
  destruct (sum1 tadd (map (hval (kl_constants e)) smp)); reflexivity.
Qed.

Lemma kl_gradient_mean (e : kl) :
  let smp := sl_samples T tadd tsub (kl_sl e) in
  1 <= length smp ->
  kl_gradient T tadd tsub tdivn hval hgrad e
  = option_map (fun s => mf_divn T tdivn s (length smp))
      (sum1 (mf_add T tadd) (map (fun s => reduce_field T (hgrad s) (kl_constants e)) smp)).
Proof.
  intros smp Hn. unfold kl_gradient, average_mf.
  assert (E : map (fun s => snd (kl_func T hval hgrad e s)) (sl_samples T tadd tsub (kl_sl e))
              = map (fun s => reduce_field T (hgrad s) (kl_constants e)) smp)
    by (apply map_ext; reflexivity).
  rewrite E.
  rewrite (tree_sum_assoc (Model.mf T) (mf_add T tadd) mf_add_assoc) by (rewrite map_length; exact Hn).
  rewrite map_length.
  destruct (sum1 (mf_add T tadd) _); reflexivity.
Qed.

Lemma kl_metric_mean (e : kl) (x : mf) :
  let smp := sl_samples T tadd tsub (kl_sl e) in
  1 <= length smp ->
  kl_apply_metric T tadd tsub tdivn hmet e x
  = option_map (fun s => mf_divn T tdivn s (length smp))
      (sum1 (mf_add T tadd)
         (map (fun s => reduce_field T (hmet s (embed T tsub x s)) (kl_constants e)) smp)).
Proof.
  intros smp Hn. unfold kl_apply_metric, average_mf.
  rewrite (tree_sum_assoc (Model.mf T) (mf_add T tadd) mf_add_assoc) by (rewrite map_length; exact Hn).
  fold smp. rewrite map_length.
  destruct (sum1 (mf_add T tadd) _); reflexivity.
Qed.

(* JAX reduction = classic tree average on the same samples (all neg flags false) *)
Lemma jax_value_eq_classic (primals : mf) (res : list mf) :
  1 <= length res ->
  jax_kl_value T tadd tsub tdivn hval primals res
  = kl_value T tadd tsub tdivn hval hgrad
      {| kl_sl := {| sl_mean := primals; sl_res := res; sl_neg := repeat false (length res) |};
         kl_constants := []; kl_invariants := None |}.
Proof.
  intros Hn.
  assert (Hs : sl_samples T tadd tsub {| sl_mean := primals; sl_res := res; sl_neg := repeat false (length res) |}
               = jax_samples T tadd tsub primals res).
  { unfold sl_samples, jax_samples; simpl.
    clear Hn. induction res as [|r res IH]; simpl; [reflexivity|]. now rewrite IH. }
  rewrite kl_value_mean; simpl kl_sl; rewrite Hs.
  - unfold jax_kl_value, jax_samples. rewrite !map_length.
    destruct (sum1 tadd _); reflexivity.
  - unfold jax_samples. rewrite map_length. exact Hn.
Qed.

Lemma jax_grad_eq_classic (primals : mf) (res : list mf) (cst : list nat) :
  1 <= length res ->
  jax_kl_grad T tadd tsub tdivn hgrad cst primals res
  = kl_gradient T tadd tsub tdivn hval hgrad
      {| kl_sl := {| sl_mean := primals; sl_res := res; sl_neg := repeat false (length res) |};
         kl_constants := cst; kl_invariants := None |}.
Proof.
  intros Hn.
  assert (Hs : sl_samples T tadd tsub {| sl_mean := primals; sl_res := res; sl_neg := repeat false (length res) |}
               = jax_samples T tadd tsub primals res).
  { unfold sl_samples, jax_samples; simpl.
    clear Hn. induction res as [|r res IH]; simpl; [reflexivity|]. now rewrite IH. }
  rewrite kl_gradient_mean; simpl kl_sl; rewrite Hs.
  - unfold jax_kl_grad, jax_samples. simpl kl_constants. rewrite !map_length.
    destruct (sum1 (mf_add T tadd) _); reflexivity.
  - unfold jax_samples. rewrite map_length. exact Hn.
Qed.

(* constants *)
Lemma position_constants (e : kl) k :
  lookup k (kl_position T e)
  = if has (kl_constants e) k then None else lookup k (sl_mean (kl_sl e)).
Proof. unfold kl_position. apply lookup_reduce_field. Qed.

Lemma gradient_restricted (e : kl) (s : mf) k :
  lookup k (snd (kl_func T hval hgrad e s))
  = if has (kl_constants e) k then None else lookup k (hgrad s).
Proof. unfold kl_func; simpl. apply lookup_reduce_field. Qed.

Lemma at_mean (e : kl) (p : mf) k :
  lookup k (sl_mean (kl_sl (kl_at T e p)))
  = match lookup k (sl_mean (kl_sl e)) with
    | Some va => Some (match lookup k p with Some v => v | None => va end)
    | None => lookup k p
    end.
Proof. unfold kl_at, sl_at; simpl. apply lookup_union. Qed.

Lemma at_keeps (e : kl) (p : mf) :
  sl_res (kl_sl (kl_at T e p)) = sl_res (kl_sl e) /\
  sl_neg (kl_sl (kl_at T e p)) = sl_neg (kl_sl e) /\
  kl_constants (kl_at T e p) = kl_constants e /\
  kl_invariants (kl_at T e p) = kl_invariants e.
Proof. repeat split. Qed.

Lemma fold_at_keeps (ps : list mf) : forall e : kl,
  sl_res (kl_sl (fold_left (kl_at T) ps e)) = sl_res (kl_sl e) /\
  sl_neg (kl_sl (fold_left (kl_at T) ps e)) = sl_neg (kl_sl e) /\
  kl_constants (fold_left (kl_at T) ps e) = kl_constants e.
Proof.
  induction ps as [|p ps IH]; intros e; simpl; [repeat split|].
  destruct (IH (kl_at T e p)) as [H1 [H2 H3]]. rewrite H1, H2, H3. repeat split.
Qed.

(* whatever positions a minimiser visits (they live on the variable keys), the constant keys of the
   expansion point keep their input values *)
Lemma minimisation_keeps_constants (ps : list mf) : forall (e : kl) k,
  (forall p, In p ps -> lookup k p = None) ->
  lookup k (sl_mean (kl_sl (fold_left (kl_at T) ps e))) = lookup k (sl_mean (kl_sl e)).
Proof.
  induction ps as [|p ps IH]; intros e k H; simpl; [reflexivity|].
  rewrite IH by (intros q Hq; apply H; now right).
  rewrite at_mean, (H p (or_introl eq_refl)).
  now destruct (lookup k (sl_mean (kl_sl e))).
Qed.

(* ... and the variable keys are those of the last visited position *)
Lemma at_sets_variable (e : kl) (p : mf) k v :
  lookup k (sl_mean (kl_sl e)) <> None -> lookup k p = Some v ->
  lookup k (sl_mean (kl_sl (kl_at T e p))) = Some v.
Proof.
  intros Hm Hp. rewrite at_mean, Hp. destruct (lookup k (sl_mean (kl_sl e))); [reflexivity|congruence].
Qed.

(* samples after `at`: same residuals around the updated mean *)
Lemma at_samples (e : kl) (p : mf) :
  sl_samples T tadd tsub (kl_sl (kl_at T e p))
  = map (fun rn => flexible_addsub T tadd tsub (union T (sl_mean (kl_sl e)) p) (fst rn) (snd rn))
        (combine (sl_res (kl_sl e)) (sl_neg (kl_sl e))).
Proof. reflexivity. Qed.

(* point estimates: a key absent from a residual is not perturbed in the sample *)
Lemma point_estimate_sample (m r : mf) neg k :
  lookup k r = None -> lookup k (flexible_addsub T tadd tsub m r neg) = lookup k m.
Proof. intros H. rewrite lookup_flexible_addsub, H. now destruct (lookup k m). Qed.

(* invariants (keys both constant and point-estimated): the reported samples are re-centred on the
   full mean, residuals untouched *)
Lemma samples_with_invariants (e : kl) inv k :
  kl_invariants e = Some inv ->
  sl_res (kl_samples T e) = sl_res (kl_sl e) /\
  sl_neg (kl_samples T e) = sl_neg (kl_sl e) /\
  lookup k (sl_mean (kl_samples T e))
  = match lookup k (sl_mean (kl_sl e)) with
    | Some va => Some (match lookup k inv with Some v => v | None => va end)
    | None => lookup k inv
    end.
Proof.
  intros H. unfold kl_samples. rewrite H. simpl. repeat split. apply lookup_union.
Qed.

End MF.

(* ---------------------------------------------------------------------------------------------- *)
(* 3. The rational instance satisfies the associativity hypothesis (Leibniz, thanks to Qred)       *)
Lemma qadd_assoc : forall a b c, qadd a (qadd b c) = qadd (qadd a b) c.
Proof.
  intros a b c. unfold qadd. apply Qred_complete.
  rewrite !Qred_correct. apply Qplus_assoc.
Qed.

(* without constants the specialised value is the Hamiltonian's own value *)
Lemma p_val_c_nil (M : pmodel) (f : qmf) : p_val_c M [] f = p_val M f.
Proof.
  unfold p_val_c. generalize (p_val M f). induction f as [|kv f IH]; intros q; simpl; [reflexivity|]. apply IH.
Qed.

Lemma q_value_no_constants (M : pmodel) (s : slist Q) (inv : option qmf) :
  (1 <= length (sl_samples Q qadd qsub s))%nat ->
  q_kl_value M {| kl_sl := s; kl_constants := []; kl_invariants := inv |}
  = q_mean_of_hamiltonian M {| kl_sl := s; kl_constants := []; kl_invariants := inv |}.
Proof.
  intros Hn. unfold q_kl_value, q_mean_of_hamiltonian.
  rewrite (kl_value_mean Q qadd qsub qdivn qadd_assoc) by exact Hn.
  simpl kl_constants. simpl kl_sl.
  rewrite (map_ext (p_val_c M []) (p_val M) (p_val_c_nil M)).
  destruct (sum1 qadd _); reflexivity.
Qed.
