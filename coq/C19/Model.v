(* C19 -- executable model (no proofs) of the sampled KL energy.

   Classic:  nifty/cl/minimization/kl_energies.py  (SampledKLEnergyClass, _reduce_field,
             _reduce_by_keys), nifty/cl/minimization/sample_list.py (ResidualSampleList.local_item,
             .at, SampleListBase.average / _average_2tuple with utilities.allreduce_sum = the pairwise
             tree of C23).
   JAX:      nifty/re/optimize_kl.py (_kl_vg, _kl_met with reduce = mean over the sample axis,
             kl_minimize with constants), nifty/re/evi.py (Samples.at / .samples).

   Part 1 is generic in the scalar type and in the Hamiltonian (value+gradient, metric given as
   functions on multi-fields); part 2 instantiates scalars with Q and the Hamiltonian with the
   generated polynomial Gaussian models used by the correspondence check. *)
From Coq Require Import List Arith Bool QArith.
Import ListNotations.
Require Import NV.C23.Model.

Section Generic.
Variable T : Type.
Variable tadd tsub : T -> T -> T.
Variable tdivn : T -> nat -> T.          (* `x / n` with n the total number of samples *)

Definition vec := list T.
(* MultiField: association list key -> component; a plain Field is the multi-field with one key *)
Definition mf := list (nat * vec).

Fixpoint vzip (f : T -> T -> T) (u v : vec) : vec :=
  match u, v with
  | a :: u', b :: v' => f a b :: vzip f u' v'
  | _, _ => []
  end.

Fixpoint lookup (k : nat) (f : mf) : option vec :=
  match f with
  | [] => None
  | (k', v) :: t => if Nat.eqb k k' then Some v else lookup k t
  end.

Definition has (keys : list nat) (k : nat) : bool := existsb (Nat.eqb k) keys.
Definition keys_of (f : mf) : list nat := map fst f.

(* MultiField.extract_by_keys(keys) *)
Definition extract_by_keys (f : mf) (keys : list nat) : mf := filter (fun kv => has keys (fst kv)) f.
(* kl_energies.py:43-46  _reduce_field: field.extract_by_keys(set(field.keys()) - set(keys)) *)
Definition reduce_field (f : mf) (keys : list nat) : mf := filter (fun kv => negb (has keys (fst kv))) f.

(* MultiField.union([a, b]): keys of both, entries of b override *)
Definition union (a b : mf) : mf :=
  map (fun kv => match lookup (fst kv) b with Some v => (fst kv, v) | None => kv end) a
  ++ filter (fun kv => negb (has (keys_of a) (fst kv))) b.

(* sample_list.py:432-433  local_item(i) = self._m.flexible_addsub(self._r[i], self._n[i]):
   the residual may live on a sub-domain; missing keys contribute zero *)
Definition flexible_addsub (m r : mf) (neg : bool) : mf :=
  map (fun kv => match lookup (fst kv) r with
                 | Some rv => (fst kv, vzip (if neg then tsub else tadd) (snd kv) rv)
                 | None => kv
                 end) m.

(* keywise sum of two multi-fields over the same domain *)
Fixpoint mf_add (a b : mf) : mf :=
  match a, b with
  | (k, u) :: a', (_, v) :: b' => (k, vzip tadd u v) :: mf_add a' b'
  | _, _ => []
  end.
Definition mf_divn (a : mf) (n : nat) : mf := map (fun kv => (fst kv, map (fun x => tdivn x n) (snd kv))) a.

(* ---- sample list -------------------------------------------------------------------------- *)
Record slist := { sl_mean : mf; sl_res : list mf; sl_neg : list bool }.

Definition sl_samples (s : slist) : list mf :=
  map (fun rn => flexible_addsub (sl_mean s) (fst rn) (snd rn)) (combine (sl_res s) (sl_neg s)).
Definition sl_n (s : slist) : nat := length (sl_res s).

(* sample_list.py:435-455  at(mean): union with the old mean (only for MultiFields) *)
Definition sl_at (s : slist) (mean : mf) : slist :=
  {| sl_mean := union (sl_mean s) mean; sl_res := sl_res s; sl_neg := sl_neg s |}.

(* sample_list.py:212-265  average / _average_2tuple:
     res = [op(ss) for ss in local_iterator()];  allreduce_sum(res, comm) / n
   with allreduce_sum the pairwise tree of C23 (NV.C23.Model.seq_sum). *)
Definition average_T (vals : list T) : option T :=
  match seq_sum T tadd vals with Some s => Some (tdivn s (length vals)) | None => None end.
Definition average_mf (vals : list mf) : option mf :=
  match seq_sum mf mf_add vals with Some s => Some (mf_divn s (length vals)) | None => None end.

(* sample_list.py:212-237  average(op=None): `_prepare_average(None)` is the list of the samples
   themselves (op = identity);  return utilities.allreduce_sum(res, self.comm) / self.n_samples.
   This is what `kl.samples.average()` reports (posterior mean estimate). *)
Definition sl_average (s : slist) : option mf := average_mf (sl_samples s).

(* ---- the KL energy ------------------------------------------------------------------------- *)
(* Hamiltonian: value and gradient on a full position, metric applied to a tangent.
   `hval cst x` is the value of the Hamiltonian SPECIALISED to the constant keys `cst`
   (hamiltonian.simplify_for_constant_input) at the full position x; `hval [] x` is the value of the
   Hamiltonian itself.  For a StandardHamiltonian the specialised operator carries the prior of the
   variable keys only (energy_operators.py:923-931), so `hval cst x` lacks 1/2 |x_cst|^2 -- see
   `p_val_c` below and the open finding C19-F1 / C04-F2. *)
Variable hval : list nat -> mf -> T.
Variable hgrad : mf -> mf.
Variable hmet : mf -> mf -> mf.

Record kl := { kl_sl : slist; kl_constants : list nat; kl_invariants : option mf }.

(* kl_energies.py:314  super().__init__(_reduce_field(sample_list._m, constants)) *)
Definition kl_position (e : kl) : mf := reduce_field (sl_mean (kl_sl e)) (kl_constants e).

(* kl_energies.py:322-325
     def _func(inp):
         inp, tmp = _reduce_by_keys(inp, hamiltonian, constants)   # cst part inserted into H
         tmp = tmp(Linearization.make_var(inp))                    # derivative w.r.t. var keys
         return tmp.val, tmp.gradient
   `simplify_for_constant_input` (property C04) is modelled by its observed behaviour: the
   specialised Hamiltonian's value is `hval constants`, its gradient is the gradient of the
   Hamiltonian on the full sample restricted to the variable keys. *)
Definition kl_func (e : kl) (inp : mf) : T * mf :=
  (hval (kl_constants e) inp, reduce_field (hgrad inp) (kl_constants e)).

(* kl_energies.py:327  self._val, self._grad = sample_list._average_2tuple(_func) *)
Definition kl_value (e : kl) : option T :=
  average_T (map (fun s => fst (kl_func e s)) (sl_samples (kl_sl e))).
Definition kl_gradient (e : kl) : option mf :=
  average_mf (map (fun s => snd (kl_func e s)) (sl_samples (kl_sl e))).

(* kl_energies.py:344-349  apply_metric(x): average over samples of tmp.metric(x), x on var keys *)
Definition embed (x : mf) (full : mf) : mf :=        (* tangent with zeros on the constant keys *)
  map (fun kv => match lookup (fst kv) x with
                 | Some v => (fst kv, v)
                 | None => (fst kv, vzip tsub (snd kv) (snd kv))
                 end) full.
Definition kl_apply_metric (e : kl) (x : mf) : option mf :=
  average_mf (map (fun s => reduce_field (hmet s (embed x s)) (kl_constants e)) (sl_samples (kl_sl e))).

(* kl_energies.py:339-342  at(position) *)
Definition kl_at (e : kl) (p : mf) : kl :=
  {| kl_sl := sl_at (kl_sl e) p; kl_constants := kl_constants e; kl_invariants := kl_invariants e |}.

(* kl_energies.py:356-360  samples: sample_list, or sample_list.at(invariants) *)
Definition kl_samples (e : kl) : slist :=
  match kl_invariants e with None => kl_sl e | Some inv => sl_at (kl_sl e) inv end.

(* ---- JAX: optimize_kl.py:90-144 ----------------------------------------------------------------
     s = vvg(primals_samples.at(primals).samples);  return reduce(s)     reduce = mean over axis 0
   Samples.samples = pos[None] + residuals (the stored residuals already carry the sign of mirrored
   samples).  The reduction is a plain sum in unspecified order divided by n; modelled as the
   ordered left-to-right sum (Proofs.v: equal to the pairwise tree for associative addition). *)
Definition sum1 {A} (op : A -> A -> A) (l : list A) : option A :=
  match l with [] => None | x :: xs => Some (fold_left op xs x) end.

Definition jax_samples (primals : mf) (res : list mf) : list mf :=
  map (fun r => flexible_addsub primals r false) res.
(* evi.py Samples.at(pos, old_pos) with old_pos given: the new residuals are the ABSOLUTE samples
   minus old_pos:  smpls = self.samples;  smpls = s - old_pos[None]  *)
Definition jax_at_old (pos old : mf) (res : list mf) : list mf :=
  map (fun r => flexible_addsub (flexible_addsub pos r false) old true) res.

Definition jax_kl_value (primals : mf) (res : list mf) : option T :=
  match sum1 tadd (map (hval []) (jax_samples primals res)) with
  | Some s => Some (tdivn s (length res)) | None => None end.
(* kl_minimize with constants: partial_insert_and_remove inserts the frozen primals and removes the
   frozen entries of the gradient / metric output *)
Definition jax_kl_grad (constants : list nat) (primals : mf) (res : list mf) : option mf :=
  match sum1 mf_add (map (fun s => reduce_field (hgrad s) constants) (jax_samples primals res)) with
  | Some s => Some (mf_divn s (length res)) | None => None end.
Definition jax_kl_metric (constants : list nat) (primals : mf) (res : list mf) (x : mf) : option mf :=
  match sum1 mf_add (map (fun s => reduce_field (hmet s (embed x s)) constants) (jax_samples primals res)) with
  | Some s => Some (mf_divn s (length res)) | None => None end.

End Generic.

Arguments sl_mean {T}. Arguments sl_res {T}. Arguments sl_neg {T}.
Arguments kl_sl {T}. Arguments kl_constants {T}. Arguments kl_invariants {T}.

(* ============================================================================================== *)
(* Part 2: rational instance and the generated polynomial Hamiltonians                             *)
Open Scope Q_scope.

Definition qadd (a b : Q) : Q := Qred (a + b).
Definition qsub (a b : Q) : Q := Qred (a - b).
Definition qmul (a b : Q) : Q := Qred (a * b).
Definition qdivn (a : Q) (n : nat) : Q := Qred (a / inject_Z (Z.of_nat n)).

Definition qvec := list Q.
Definition qmf := mf Q.

Fixpoint qdot (u v : qvec) : Q :=
  match u, v with a :: u', b :: v' => qadd (qmul a b) (qdot u' v') | _, _ => 0 end.
Definition qmat_vec (A : list qvec) (x : qvec) : qvec := map (fun r => qdot r x) A.
Definition qtranspose (nc : nat) (A : list qvec) : list qvec :=
  map (fun j => map (fun r => nth j r 0) A) (seq 0 nc).
Definition qvadd := vzip Q qadd.
Definition qvsub := vzip Q qsub.
Definition qvmul := vzip Q qmul.

(* flatten a position in the order of its entries; split a flat vector back along a layout *)
Definition flatten (f : qmf) : qvec := flat_map snd f.
Fixpoint unflatten (layout : list (nat * nat)) (x : qvec) : qmf :=
  match layout with
  | [] => []
  | (k, sz) :: t => (k, firstn sz x) :: unflatten t (skipn sz x)
  end.
Definition layout_of (f : qmf) : list (nat * nat) := map (fun kv => (fst kv, length (snd kv))) f.

(* Generated model: signal f(x) = A x + (C x)*(D x) (pointwise product of two linear forms, couples
   the keys non-linearly), Gaussian likelihood with diagonal inverse noise covariance w, standard
   normal prior (StandardHamiltonian / _StandardHamiltonian):
     H(x)      = 1/2 (f(x)-d)^T diag(w) (f(x)-d) + 1/2 x^T x
     grad H    = J^T diag(w) (f - d) + x,        J = A + diag(D x) C + diag(C x) D
     metric(t) = J^T diag(w) J t + t                                                                *)
Record pmodel := { pA : list qvec; pC : list qvec; pD : list qvec; pw : qvec; pd : qvec }.

Definition p_signal (M : pmodel) (x : qvec) : qvec :=
  qvadd (qmat_vec (pA M) x) (qvmul (qmat_vec (pC M) x) (qmat_vec (pD M) x)).
Definition p_jac (M : pmodel) (x : qvec) : list qvec :=
  let cx := qmat_vec (pC M) x in let dx := qmat_vec (pD M) x in
  map (fun t => let '(a, c, d, ci, di) := t in
                qvadd a (qvadd (map (qmul di) c) (map (qmul ci) d)))
      (combine (combine (combine (combine (pA M) (pC M)) (pD M)) cx) dx).
Definition half : Q := 1 # 2.
Definition p_val (M : pmodel) (f : qmf) : Q :=
  let x := flatten f in
  let r := qvsub (p_signal M x) (pd M) in
  qadd (qmul half (qdot r (qvmul (pw M) r))) (qmul half (qdot x x)).
Definition p_grad (M : pmodel) (f : qmf) : qmf :=
  let x := flatten f in
  let r := qvsub (p_signal M x) (pd M) in
  let g := qvadd (qmat_vec (qtranspose (length x) (p_jac M x)) (qvmul (pw M) r)) x in
  unflatten (layout_of f) g.
Definition p_met (M : pmodel) (f t : qmf) : qmf :=
  let x := flatten f in let tv := flatten t in
  let J := p_jac M x in
  let g := qvadd (qmat_vec (qtranspose (length x) J) (qvmul (pw M) (qmat_vec J tv))) tv in
  unflatten (layout_of f) g.

(* value of the StandardHamiltonian specialised to constant keys: the prior energy of the constant
   keys is absent (StandardHamiltonian._simplify_for_constant_input_nontrivial builds
   StandardHamiltonian(lh1) on the variable domain) *)
Definition p_val_c (M : pmodel) (cst : list nat) (f : qmf) : Q :=
  fold_left (fun acc kv => if has cst (fst kv)
                           then qsub acc (qmul half (qdot (snd kv) (snd kv))) else acc)
            f (p_val M f).

(* instantiated KL functions *)
Definition q_kl_value (M : pmodel) := kl_value Q qadd qsub qdivn (p_val_c M) (p_grad M).
Definition q_kl_gradient (M : pmodel) := kl_gradient Q qadd qsub qdivn (p_val_c M) (p_grad M).
(* the literal reading of the property: mean of the Hamiltonian's own value *)
Definition q_mean_of_hamiltonian (M : pmodel) (e : kl Q) : option Q :=
  let smp := sl_samples Q qadd qsub (kl_sl e) in
  match sum1 qadd (map (p_val M) smp) with Some s => Some (qdivn s (length smp)) | None => None end.
Definition q_kl_apply_metric (M : pmodel) := kl_apply_metric Q qadd qsub qdivn (p_met M).
Definition q_jax_value (M : pmodel) := jax_kl_value Q qadd qsub qdivn (p_val_c M).
Definition q_jax_grad (M : pmodel) := jax_kl_grad Q qadd qsub qdivn (p_grad M).
Definition q_jax_metric (M : pmodel) := jax_kl_metric Q qadd qsub qdivn (p_met M).

(* ---- comparison predicates ------------------------------------------------------------------- *)
Fixpoint veqb (u v : qvec) : bool :=
  match u, v with
  | [], [] => true
  | a :: u', b :: v' => Qeq_bool a b && veqb u' v'
  | _, _ => false
  end.
Definition qabs (a : Q) : Q := if Qle_bool 0 a then a else Qopp a.
Fixpoint vclose (tol : Q) (u v : qvec) : bool :=
  match u, v with
  | [], [] => true
  | a :: u', b :: v' => Qle_bool (qabs (a - b)) tol && vclose tol u' v'
  | _, _ => false
  end.
(* tol = 0 means exact *)
Definition vcmp (tol : Q) (u v : qvec) : bool := if Qeq_bool tol 0 then veqb u v else vclose tol u v.
Fixpoint mfcmp (tol : Q) (a b : qmf) : bool :=
  match a, b with
  | [], [] => true
  | (k, u) :: a', (k', v) :: b' => Nat.eqb k k' && vcmp tol u v && mfcmp tol a' b'
  | _, _ => false
  end.
Definition ocmp_T (tol : Q) (a : option Q) (b : Q) : bool :=
  match a with Some x => vcmp tol [x] [b] | None => false end.
Definition ocmp_mf (tol : Q) (a : option qmf) (b : qmf) : bool :=
  match a with Some x => mfcmp tol x b | None => false end.
Fixpoint lmfcmp (tol : Q) (a b : list qmf) : bool :=
  match a, b with
  | [], [] => true
  | x :: a', y :: b' => mfcmp tol x y && lmfcmp tol a' b'
  | _, _ => false
  end.
