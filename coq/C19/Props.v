(* C19 -- property theorems only (lemmas in Proofs.v).  T is any scalar type; `tadd` is only
   assumed ASSOCIATIVE where the pairwise tree of allreduce_sum (C23) has to be identified with the
   arithmetic mean; `hval/hgrad/hmet` are an arbitrary Hamiltonian (value, gradient, metric).      *)
From Coq Require Import List Arith Bool QArith.
Import ListNotations.
Require Import NV.C23.Model NV.C19.Model NV.C19.Proofs.
Local Open Scope nat_scope.

(* allreduce_sum's pairwise tree (the C23 model) over any associative operation is the ordered sum
   of all summands -- each exactly once -- for every number >= 1 of summands (samples)
   (unbounded, via NV.C23.Leaves). *)
Theorem C19_tree_is_ordered_sum :
  forall (A : Type) (op : A -> A -> A), (forall a b c, op a (op b c) = op (op a b) c) ->
  forall vals : list A, 1 <= length vals -> seq_sum A op vals = sum1 op vals.
Proof. exact tree_sum_assoc. Qed.

(* value / gradient / metric of the sampled KL = arithmetic mean over mean +- residual_i of the
   value of the Hamiltonian specialised to the constants (`hval constants`; = the Hamiltonian's own
   value when there are no constants) / its (restricted) gradient / its (restricted) metric *)
Theorem C19_value_is_mean :
  forall (T : Type) (tadd tsub : T -> T -> T) (tdivn : T -> nat -> T),
  (forall a b c, tadd a (tadd b c) = tadd (tadd a b) c) ->
  forall (hval : list nat -> mf T -> T) (hgrad : mf T -> mf T) (e : kl T),
  let smp := sl_samples T tadd tsub (kl_sl e) in
  1 <= length smp ->
  kl_value T tadd tsub tdivn hval hgrad e
  = option_map (fun s => tdivn s (length smp)) (sum1 tadd (map (hval (kl_constants e)) smp)).
Proof. exact kl_value_mean. Qed.

Theorem C19_gradient_is_mean :
  forall (T : Type) (tadd tsub : T -> T -> T) (tdivn : T -> nat -> T),
  (forall a b c, tadd a (tadd b c) = tadd (tadd a b) c) ->
  forall (hval : list nat -> mf T -> T) (hgrad : mf T -> mf T) (e : kl T),
  let smp := sl_samples T tadd tsub (kl_sl e) in
  1 <= length smp ->
  kl_gradient T tadd tsub tdivn hval hgrad e
  = option_map (fun s => mf_divn T tdivn s (length smp))
      (sum1 (mf_add T tadd) (map (fun s => reduce_field T (hgrad s) (kl_constants e)) smp)).
Proof. exact kl_gradient_mean. Qed.

(* SampleListBase.average(op=None) (what `kl.samples.average()` reports): the pairwise-tree average
   of the samples mean +- residual_i equals their ordered sum divided by the number of samples. *)
Theorem C19_sample_average_is_mean :
  forall (T : Type) (tadd tsub : T -> T -> T) (tdivn : T -> nat -> T),
  (forall a b c, tadd a (tadd b c) = tadd (tadd a b) c) ->
  forall (s : slist T),
  let smp := sl_samples T tadd tsub s in
  1 <= length smp ->
  sl_average T tadd tsub tdivn s
  = option_map (fun a => mf_divn T tdivn a (length smp)) (sum1 (mf_add T tadd) smp).
Proof. exact sl_average_ordered. Qed.

(* moving the expansion point keeps the number of samples (n_samples), and the moved list yields
   exactly that many samples *)
Theorem C19_at_keeps_sample_count :
  forall (T : Type) (tadd tsub : T -> T -> T) (s : slist T) (p : mf T),
  sl_n T (sl_at T s p) = sl_n T s /\
  (length (sl_res s) = length (sl_neg s) ->
   length (sl_samples T tadd tsub (sl_at T s p)) = sl_n T s).
Proof. exact sl_at_count. Qed.

Theorem C19_metric_is_mean :
  forall (T : Type) (tadd tsub : T -> T -> T) (tdivn : T -> nat -> T),
  (forall a b c, tadd a (tadd b c) = tadd (tadd a b) c) ->
  forall (hmet : mf T -> mf T -> mf T) (e : kl T) (x : mf T),
  let smp := sl_samples T tadd tsub (kl_sl e) in
  1 <= length smp ->
  kl_apply_metric T tadd tsub tdivn hmet e x
  = option_map (fun s => mf_divn T tdivn s (length smp))
      (sum1 (mf_add T tadd)
         (map (fun s => reduce_field T (hmet s (embed T tsub x s)) (kl_constants e)) smp)).
Proof. exact kl_metric_mean. Qed.

(* the JAX reduction (mean over the sample axis) agrees with the classic tree average *)
Theorem C19_jax_value_equals_classic :
  forall (T : Type) (tadd tsub : T -> T -> T) (tdivn : T -> nat -> T),
  (forall a b c, tadd a (tadd b c) = tadd (tadd a b) c) ->
  forall (hval : list nat -> mf T -> T) (hgrad : mf T -> mf T) (primals : mf T) (res : list (mf T)),
  1 <= length res ->
  jax_kl_value T tadd tsub tdivn hval primals res
  = kl_value T tadd tsub tdivn hval hgrad
      {| kl_sl := {| sl_mean := primals; sl_res := res; sl_neg := repeat false (length res) |};
         kl_constants := []; kl_invariants := None |}.
Proof. exact jax_value_eq_classic. Qed.

Theorem C19_jax_gradient_equals_classic :
  forall (T : Type) (tadd tsub : T -> T -> T) (tdivn : T -> nat -> T),
  (forall a b c, tadd a (tadd b c) = tadd (tadd a b) c) ->
  forall (hval : list nat -> mf T -> T) (hgrad : mf T -> mf T) (primals : mf T) (res : list (mf T)) (cst : list nat),
  1 <= length res ->
  jax_kl_grad T tadd tsub tdivn hgrad cst primals res
  = kl_gradient T tadd tsub tdivn hval hgrad
      {| kl_sl := {| sl_mean := primals; sl_res := res; sl_neg := repeat false (length res) |};
         kl_constants := cst; kl_invariants := None |}.
Proof. exact jax_grad_eq_classic. Qed.

(* constants: absent from the optimised position, variable keys are those of the mean *)
Theorem C19_constants_absent_from_position :
  forall (T : Type) (e : kl T) (k : nat),
  lookup T k (kl_position T e)
  = if has (kl_constants e) k then None else lookup T k (sl_mean (kl_sl e)).
Proof. exact position_constants. Qed.

(* the per-sample gradient is the restriction of the Hamiltonian's gradient to the variable keys *)
Theorem C19_gradient_is_restriction :
  forall (T : Type) (hval : list nat -> mf T -> T) (hgrad : mf T -> mf T) (e : kl T) (s : mf T) (k : nat),
  lookup T k (snd (kl_func T hval hgrad e s))
  = if has (kl_constants e) k then None else lookup T k (hgrad s).
Proof. exact gradient_restricted. Qed.

(* minimisation = any sequence of `at` calls with positions on the variable keys: the constant keys
   of the expansion point keep their input values, residuals / neg flags / constants are unchanged *)
Theorem C19_minimisation_keeps_constants :
  forall (T : Type) (ps : list (mf T)) (e : kl T) (k : nat),
  (forall p, In p ps -> lookup T k p = None) ->
  lookup T k (sl_mean (kl_sl (fold_left (kl_at T) ps e))) = lookup T k (sl_mean (kl_sl e)).
Proof. exact minimisation_keeps_constants. Qed.

Theorem C19_at_keeps_residuals :
  forall (T : Type) (ps : list (mf T)) (e : kl T),
  sl_res (kl_sl (fold_left (kl_at T) ps e)) = sl_res (kl_sl e) /\
  sl_neg (kl_sl (fold_left (kl_at T) ps e)) = sl_neg (kl_sl e) /\
  kl_constants (fold_left (kl_at T) ps e) = kl_constants e.
Proof. exact fold_at_keeps. Qed.

Theorem C19_at_moves_variable_keys :
  forall (T : Type) (e : kl T) (p : mf T) (k : nat) (v : vec T),
  lookup T k (sl_mean (kl_sl e)) <> None -> lookup T k p = Some v ->
  lookup T k (sl_mean (kl_sl (kl_at T e p))) = Some v.
Proof. exact at_sets_variable. Qed.

Theorem C19_at_samples :
  forall (T : Type) (tadd tsub : T -> T -> T) (e : kl T) (p : mf T),
  sl_samples T tadd tsub (kl_sl (kl_at T e p))
  = map (fun rn => flexible_addsub T tadd tsub (union T (sl_mean (kl_sl e)) p) (fst rn) (snd rn))
        (combine (sl_res (kl_sl e)) (sl_neg (kl_sl e))).
Proof. exact at_samples. Qed.

(* point estimates: a key on which the residual does not live is not perturbed in any sample *)
Theorem C19_point_estimate_sample :
  forall (T : Type) (tadd tsub : T -> T -> T) (m r : mf T) (neg : bool) (k : nat),
  lookup T k r = None -> lookup T k (flexible_addsub T tadd tsub m r neg) = lookup T k m.
Proof. exact point_estimate_sample. Qed.

(* invariants (constant AND point-estimated keys): reported samples are re-centred on the full mean *)
Theorem C19_samples_with_invariants :
  forall (T : Type) (e : kl T) (inv : mf T) (k : nat),
  kl_invariants e = Some inv ->
  sl_res (kl_samples T e) = sl_res (kl_sl e) /\
  sl_neg (kl_samples T e) = sl_neg (kl_sl e) /\
  lookup T k (sl_mean (kl_samples T e))
  = match lookup T k (sl_mean (kl_sl e)) with
    | Some va => Some (match lookup T k inv with Some v => v | None => va end)
    | None => lookup T k inv
    end.
Proof. exact samples_with_invariants. Qed.

(* the rational instance evaluated by the correspondence satisfies the associativity hypothesis *)
Theorem C19_rational_instance :
  forall vals : list Q, 1 <= length vals -> seq_sum Q qadd vals = sum1 qadd vals.
Proof. exact (tree_sum_assoc Q qadd qadd_assoc). Qed.

(* The literal value statement is REFUTED for the classic API when constants are present: the
   StandardHamiltonian specialised to constant keys has no prior term for them, so the KL value is
   the sample mean of the Hamiltonian minus the mean of 1/2 |x_constants|^2 (finding C19-F1, same root
   as C04-F2).  Witness: 2 keys, key 1 constant with value 3, two mirrored samples. *)
Theorem C19_value_refuted :
  exists (M : pmodel) (e : kl Q),
    kl_constants e <> [] /\ q_kl_value M e <> q_mean_of_hamiltonian M e /\
    q_kl_value M e = Some (90 # 1)%Q /\ q_mean_of_hamiltonian M e = Some (189 # 2)%Q.
Proof.
  exists {| pA := [[1;0;0];[0;1;1]]; pC := [[0;0;1];[0;0;0]]; pD := [[1;0;0];[0;0;0]];
            pw := [1;4]; pd := [1;-1] |}%Q.
  exists {| kl_sl := {| sl_mean := [(0%nat, [1;2]); (1%nat, [3])];
                        sl_res := [[(0%nat, [1;-1])]; [(0%nat, [1;-1])]];
                        sl_neg := [false; true] |};
            kl_constants := [1%nat]; kl_invariants := None |}%Q.
  vm_compute. repeat split; discriminate.
Qed.

(* ... and it HOLDS on the complement of that finding: without constants the classic KL value is the
   sample mean of the Hamiltonian's own value (rational instance used by the correspondence). *)
Theorem C19_value_without_constants :
  forall (M : pmodel) (s : slist Q) (inv : option qmf),
  1 <= length (sl_samples Q qadd qsub s) ->
  q_kl_value M {| kl_sl := s; kl_constants := []; kl_invariants := inv |}
  = q_mean_of_hamiltonian M {| kl_sl := s; kl_constants := []; kl_invariants := inv |}.
Proof. exact q_value_no_constants. Qed.

(* Non-vacuity: a 2-key position, key 1 constant, two mirrored samples, H = sum of squares / 2 *)
Example C19_instance :
  let M := {| pA := [[1;0;0];[0;1;1]]; pC := [[0;0;1];[0;0;0]]; pD := [[1;0;0];[0;0;0]];
              pw := [1;4]; pd := [1;-1] |}%Q in
  let e := {| kl_sl := {| sl_mean := [(0%nat, [1;2]); (1%nat, [3])];
                          sl_res := [[(0%nat, [1;-1])]; [(0%nat, [1;-1])]];
                          sl_neg := [false; true] |};
              kl_constants := [1%nat]; kl_invariants := None |}%Q in
  q_kl_value M e = Some (90 # 1)%Q /\
  q_kl_gradient M e = Some [(0%nat, [13; 26])]%Q /\
  keys_of Q (kl_position Q e) = [0%nat].
Proof. vm_compute. repeat split. Qed.
