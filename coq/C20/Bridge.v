(* C20 -- bridge between the executable list/Q model (Model.v) and the MathComp statements
   (ProofsMx.v): the rationals of Coq's QArith are mapped into an arbitrary MathComp field of
   characteristic 0 (numFieldType; e.g. `rat`), lists of rows into matrices, and the model's
   operations (dot, mat_vec, transpose, mat_mul, mat_add, identity, post_cov_inv, info_source,
   the exact certificate is_solution) are shown to BE the matrix operations.  Consequence
   (model_signal_is_mean): a `true` correspondence term of the signal-space route means that the
   model's exact vector is `mean_signal` of ProofsMx.v, the object of the C20 theorems.            *)
From Coq Require Import ZArith.
From mathcomp Require Import ssreflect ssrfun ssrbool eqtype ssrnat seq fintype bigop order ssralg ssrnum ssrint matrix mxalgebra.
From mathcomp Require Import ssrZ zify ring.
From Coq Require QArith Qreduction.
Require NV.C20.Model.
Require Import NV.C20.ProofsMx.
Set Implicit Arguments.
Unset Strict Implicit.
Unset Printing Implicit Defensive.
Import GRing.Theory Order.TTheory Num.Theory.
Local Open Scope ring_scope.

Section Embedding.
Variable F : numFieldType.

Notation Q := QArith_base.Q.
Notation Qnum := QArith_base.Qnum.
Notation Qden := QArith_base.Qden.

Definition q2F (q : Q) : F := (int_of_Z (Qnum q))%:~R / (Pos.to_nat (Qden q))%:R.

Lemma den_neq0 (p : positive) : (Pos.to_nat p)%:R != 0 :> F.
Proof. rewrite pnatr_eq0; have := Pos2Nat.is_pos p; lia. Qed.

Lemma int_of_Z_pos (p : positive) : int_of_Z (Zpos p) = Posz (Pos.to_nat p).
Proof. by []. Qed.

Lemma iZM x y : int_of_Z (Z.mul x y) = int_of_Z x * int_of_Z y.
Proof. lia. Qed.
Lemma iZD x y : int_of_Z (Z.add x y) = int_of_Z x + int_of_Z y.
Proof. lia. Qed.
Lemma iZN x : int_of_Z (Z.opp x) = - int_of_Z x.
Proof. lia. Qed.
Lemma to_natM p q : Pos.to_nat (p * q) = (Pos.to_nat p * Pos.to_nat q)%N.
Proof. exact: Pos2Nat.inj_mul. Qed.

Lemma q2F_eq (a b : Q) : QArith_base.Qeq a b -> q2F a = q2F b.
Proof.
rewrite /QArith_base.Qeq /q2F => H.
apply/eqP; rewrite eqr_div ?den_neq0 //; apply/eqP.
have := congr1 int_of_Z H.
rewrite !iZM !int_of_Z_pos => /(congr1 (fun z : int => z%:~R : F)).
by rewrite !rmorphM /= -!pmulrn.
Qed.

Lemma q2F_add (a b : Q) : q2F (QArith_base.Qplus a b) = q2F a + q2F b.
Proof.
rewrite /q2F /QArith_base.Qplus /= iZD !iZM !int_of_Z_pos to_natM natrM !rmorphD !rmorphM /= -!pmulrn.
have Ha := den_neq0 (Qden a); have Hb := den_neq0 (Qden b).
by field; rewrite Ha Hb.
Qed.

Lemma q2F_mul (a b : Q) : q2F (QArith_base.Qmult a b) = q2F a * q2F b.
Proof.
rewrite /q2F /QArith_base.Qmult /= iZM to_natM natrM rmorphM /=.
have Ha := den_neq0 (Qden a); have Hb := den_neq0 (Qden b).
by field; rewrite Ha Hb.
Qed.

Lemma q2F_opp (a : Q) : q2F (QArith_base.Qopp a) = - q2F a.
Proof. by rewrite /q2F /QArith_base.Qopp /= iZN rmorphN /= mulNr. Qed.

Lemma q2F_0 : q2F (QArith_base.Qmake 0 1) = 0.
Proof. by rewrite /q2F /= mul0r. Qed.

Lemma q2F_1 : q2F (QArith_base.Qmake 1 1) = 1.
Proof. by rewrite /q2F /= Pos2Nat.inj_1 divr1. Qed.

Lemma q2F_red (a : Q) : q2F (Qreduction.Qred a) = q2F a.
Proof. exact: q2F_eq (Qreduction.Qred_correct a). Qed.

(* the normalised operations of the model *)
Lemma q2F_qadd a b : q2F (Model.qadd a b) = q2F a + q2F b.
Proof. by rewrite /Model.qadd q2F_red q2F_add. Qed.
Lemma q2F_qmul a b : q2F (Model.qmul a b) = q2F a * q2F b.
Proof. by rewrite /Model.qmul q2F_red q2F_mul. Qed.
Lemma q2F_qsub a b : q2F (Model.qsub a b) = q2F a - q2F b.
Proof. by rewrite /Model.qsub q2F_red /QArith_base.Qminus q2F_add q2F_opp. Qed.

End Embedding.

(* ---------------------------------------------------------------------------------------------- *)
Section Lists.
Variable F : numFieldType.

Notation Q := QArith_base.Q.
Notation q2 := (@q2F F).
Notation zeroQ := (QArith_base.Qmake 0 1).

(* lists of rows -> matrices (entries outside the lists read as 0, like the model's `nth _ _ 0`) *)
Definition cvQ n (x : list Q) : 'cV[F]_n := \col_(i < n) q2 (List.nth i x zeroQ).
Definition mxQ m n (A : list (list Q)) : 'M[F]_(m,n) :=
  \matrix_(i < m, j < n) q2 (List.nth j (List.nth i A nil) zeroQ).

(* m rows of length n *)
Definition wfm m n (A : list (list Q)) : Prop :=
  length A = m /\ forall i, (i < m)%N -> length (List.nth i A nil) = n.

Lemma nth_nilQ j : List.nth j (@nil Q) zeroQ = zeroQ.
Proof. by case: j. Qed.

Lemma q2_dot u v n : length u = n ->
  q2 (Model.dot u v) = \sum_(j < n) q2 (List.nth j u zeroQ) * q2 (List.nth j v zeroQ).
Proof.
elim: u v n => [|a u IH] v n /=.
  by move=> <-; rewrite big_ord0 q2F_0.
case: v => [|b v] Hn.
  rewrite q2F_0 big1 // => j _; by rewrite nth_nilQ q2F_0 mulr0.
rewrite -Hn big_ord_recl /= q2F_qadd q2F_qmul (IH v (length u) erefl).
by congr (_ + _).
Qed.

Lemma cvQ_mat_vec m n A x : wfm m n A -> cvQ m (Model.mat_vec A x) = mxQ m n A *m cvQ n x.
Proof.
case=> HA Hr; apply/colP => i; rewrite !mxE /Model.mat_vec.
change zeroQ with (Model.dot nil x) at 1; rewrite List.map_nth.
rewrite (q2_dot x (Hr i (ltn_ord i))).
by apply: eq_bigr => j _; rewrite !mxE.
Qed.

Lemma veqb_nth u v : Model.veqb u v = true -> forall i, q2 (List.nth i u zeroQ) = q2 (List.nth i v zeroQ).
Proof.
elim: u v => [|a u IH] [|b v] //= /andP [Hab Huv] [|i] /=.
  exact: q2F_eq (QArith_base.Qeq_bool_eq _ _ Hab).
exact: IH.
Qed.

(* the exact certificate of the model IS the matrix equation A x = b *)
Lemma is_solution_mx m n A b x : wfm m n A ->
  Model.is_solution A b x = true -> mxQ m n A *m cvQ n x = cvQ m b.
Proof.
move=> wA H; rewrite -(cvQ_mat_vec x wA); apply/colP => i; rewrite !mxE.
exact: veqb_nth H i.
Qed.

(* ---- list helpers ---- *)
Lemma nth_mapP {A B} (dA : A) (f : A -> B) l i dB : (i < length l)%N ->
  List.nth i (List.map f l) dB = f (List.nth i l dA).
Proof. by elim: l i => [|a l IH] [|i] //= Hi; apply: IH. Qed.

Lemma nth_seq0 n i : (i < n)%N -> List.nth i (List.seq 0 n) 0%N = i.
Proof. by move=> /ssrnat.ltP Hi; rewrite List.seq_nth. Qed.

Lemma nth_map_seq {B} (f : nat -> B) n i d : (i < n)%N -> List.nth i (List.map f (List.seq 0 n)) d = f i.
Proof. by move=> Hi; rewrite (nth_mapP 0%N f) ?List.seq_length // nth_seq0. Qed.

Lemma nth_vzip f u v j : (j < length u)%N -> (j < length v)%N ->
  List.nth j (Model.vzip f u v) zeroQ = f (List.nth j u zeroQ) (List.nth j v zeroQ).
Proof. by elim: u v j => [|a u IH] [|b v] [|j] //= Hu Hv; apply: IH. Qed.

Lemma length_vzip f u v n : length u = n -> length v = n -> length (Model.vzip f u v) = n.
Proof. by elim: u v n => [|a u IH] [|b v] [|n] //= [Hu] [Hv]; rewrite (IH v n). Qed.

(* ---- transpose ---- *)
Lemma wfm_transpose m n A : length A = m -> wfm n m (Model.transpose n A).
Proof.
move=> HA; split; first by rewrite /Model.transpose List.map_length List.seq_length.
by move=> j Hj; rewrite /Model.transpose nth_map_seq // List.map_length.
Qed.

Lemma mxQ_transpose m n A : length A = m -> mxQ n m (Model.transpose n A) = (mxQ m n A)^T.
Proof.
move=> HA; apply/matrixP => j i; rewrite !mxE /Model.transpose nth_map_seq //.
by rewrite (nth_mapP nil) // HA.
Qed.

(* ---- product ---- *)
Lemma wfm_mat_mul m nc A B : length A = m -> wfm m nc (Model.mat_mul nc A B).
Proof.
move=> HA; split; first by rewrite /Model.mat_mul List.map_length.
move=> i Hi; rewrite /Model.mat_mul (nth_mapP nil) ?HA // List.map_length.
by rewrite /Model.transpose List.map_length List.seq_length.
Qed.

Lemma mxQ_mat_mul m k nc A B : wfm m k A -> length B = k ->
  mxQ m nc (Model.mat_mul nc A B) = mxQ m k A *m mxQ k nc B.
Proof.
case=> HA Hr HB; apply/matrixP => i j; rewrite !mxE /Model.mat_mul.
rewrite (nth_mapP nil) ?HA //.
rewrite (nth_mapP nil); last first.
  by rewrite /Model.transpose List.map_length List.seq_length.
rewrite (q2_dot _ (Hr i (ltn_ord i))); apply: eq_bigr => l _; rewrite !mxE.
by rewrite /Model.transpose nth_map_seq // (nth_mapP nil) ?HB.
Qed.

(* ---- sum ---- *)
Lemma wfm_mat_add m n A B : wfm m n A -> wfm m n B -> wfm m n (Model.mat_add A B).
Proof.
case=> HA HrA [HB HrB]; split.
  by rewrite /Model.mat_add List.map_length List.combine_length HA HB Nat.min_id.
move=> i Hi; rewrite /Model.mat_add (nth_mapP (nil, nil)); last first.
  by rewrite List.combine_length HA HB Nat.min_id.
by rewrite List.combine_nth ?HA ?HB //= /Model.vadd (length_vzip _ (HrA i Hi) (HrB i Hi)).
Qed.

Lemma mxQ_mat_add m n A B : wfm m n A -> wfm m n B ->
  mxQ m n (Model.mat_add A B) = mxQ m n A + mxQ m n B.
Proof.
case=> HA HrA [HB HrB]; apply/matrixP => i j; rewrite !mxE /Model.mat_add.
rewrite (nth_mapP (nil, nil)); last first.
  by rewrite List.combine_length HA HB Nat.min_id.
rewrite List.combine_nth ?HA ?HB //= /Model.vadd nth_vzip ?q2F_qadd //.
  by rewrite (HrA i (ltn_ord i)).
by rewrite (HrB i (ltn_ord i)).
Qed.

(* ---- identity ---- *)
Lemma wfm_identity n : wfm n n (Model.identity n).
Proof.
split; first by rewrite /Model.identity List.map_length List.seq_length.
by move=> i Hi; rewrite /Model.identity nth_map_seq // /Model.unit_vec List.map_length List.seq_length.
Qed.

Lemma mxQ_identity n : mxQ n n (Model.identity n) = 1%:M.
Proof.
apply/matrixP => i j; rewrite !mxE /Model.identity nth_map_seq // /Model.unit_vec nth_map_seq //.
have -> : Nat.eqb i j = (i == j :> nat) by apply/idP/eqP => /Nat.eqb_eq.
by rewrite -val_eqE /=; case: eqP => _; rewrite ?q2F_1 ?q2F_0.
Qed.

(* ---- the operators of the Wiener filter ---- *)
Lemma wfm_post_cov_inv m n R Ninv : length R = m -> wfm n n (Model.post_cov_inv n R Ninv).
Proof.
move=> HR; rewrite /Model.post_cov_inv; apply: wfm_mat_add; last exact: wfm_identity.
by apply: wfm_mat_mul; case: (wfm_transpose n HR).
Qed.

Lemma mxQ_post_cov_inv m n R Ninv : wfm m n R -> wfm m m Ninv ->
  mxQ n n (Model.post_cov_inv n R Ninv)
  = (mxQ m n R)^T *m mxQ m m Ninv *m mxQ m n R + 1%:M.
Proof.
move=> wR wN; have [HR _] := wR; have [HN _] := wN.
rewrite /Model.post_cov_inv mxQ_mat_add; first last.
- exact: wfm_identity.
- by apply: wfm_mat_mul; case: (wfm_transpose n HR).
rewrite mxQ_identity (mxQ_mat_mul (k := m) n (wfm_transpose n HR)); last first.
  by rewrite /Model.mat_mul List.map_length.
by rewrite (mxQ_transpose n HR) (mxQ_mat_mul n wN HR) mulmxA.
Qed.

Lemma cvQ_info_source m n R Ninv d : wfm m n R -> wfm m m Ninv ->
  cvQ n (Model.info_source n R Ninv d) = (mxQ m n R)^T *m (mxQ m m Ninv *m cvQ m d).
Proof.
move=> wR wN; have [HR _] := wR.
by rewrite /Model.info_source (cvQ_mat_vec _ (wfm_transpose n HR)) (mxQ_transpose n HR) (cvQ_mat_vec _ wN).
Qed.

(* A `true` correspondence term of the signal-space route: the model's exact vector is the
   Wiener-filter mean `mean_signal` of ProofsMx.v for the matrices read off the lists. *)
Theorem model_signal_is_mean m n tol R Ninv d impl :
  wfm m n R -> wfm m m Ninv ->
  let Rm := mxQ m n R in let Ni := mxQ m m Ninv in
  Ni \in unitmx -> curv Rm Rm^T (invmx Ni) \in unitmx ->
  Model.corr_signal tol n R Ninv d impl = true ->
  exists x, Model.wf_signal n R Ninv d = Some x /\
            cvQ n x = mean_signal Rm Rm^T (invmx Ni) (cvQ m d).
Proof.
move=> wR wN Rm Ni uN uA; rewrite /Model.corr_signal => /andP [Hc _].
case E: (Model.wf_signal n R Ninv d) Hc => [x|] //= Hs; exists x; split=> //.
have [HR _] := wR.
have := is_solution_mx (wfm_post_cov_inv n Ninv HR) Hs.
rewrite (mxQ_post_cov_inv wR wN) (cvQ_info_source d wR wN) -/Rm -/Ni => H.
apply/(mean_signal_char (cvQ m d) (cvQ n x) uA).
by rewrite /curv invmxK.
Qed.

(* the data-space route and the Newton (MAP / MGVI) route end in the same certificate *)
Theorem model_data_is_mean m n tol R N Ninv d impl :
  wfm m n R -> wfm m m Ninv ->
  let Rm := mxQ m n R in let Ni := mxQ m m Ninv in
  Ni \in unitmx -> curv Rm Rm^T (invmx Ni) \in unitmx ->
  Model.corr_data tol n R N Ninv d impl = true ->
  exists x, Model.wf_data n R N d = Some x /\
            cvQ n x = mean_signal Rm Rm^T (invmx Ni) (cvQ m d).
Proof.
move=> wR wN Rm Ni uN uA; rewrite /Model.corr_data => /andP [/andP [_ Hc] _].
case E: (Model.wf_data n R N d) Hc => [x|] //= Hs; exists x; split=> //.
have [HR _] := wR.
have := is_solution_mx (wfm_post_cov_inv n Ninv HR) Hs.
rewrite (mxQ_post_cov_inv wR wN) (cvQ_info_source d wR wN) -/Rm -/Ni => H.
apply/(mean_signal_char (cvQ m d) (cvQ n x) uA).
by rewrite /curv invmxK.
Qed.

Theorem model_map_is_mean m n tol R Ninv d s0 impl :
  wfm m n R -> wfm m m Ninv ->
  let Rm := mxQ m n R in let Ni := mxQ m m Ninv in
  Ni \in unitmx -> curv Rm Rm^T (invmx Ni) \in unitmx ->
  Model.corr_map tol n R Ninv d s0 impl = true ->
  exists x, Model.newton_step n R Ninv d s0 = Some x /\
            cvQ n x = mean_signal Rm Rm^T (invmx Ni) (cvQ m d).
Proof.
move=> wR wN Rm Ni uN uA; rewrite /Model.corr_map => /andP [Hc _].
case E: (Model.newton_step n R Ninv d s0) Hc => [x|] //= Hs; exists x; split=> //.
have [HR _] := wR.
have := is_solution_mx (wfm_post_cov_inv n Ninv HR) Hs.
rewrite (mxQ_post_cov_inv wR wN) (cvQ_info_source d wR wN) -/Rm -/Ni => H.
apply/(mean_signal_char (cvQ m d) (cvQ n x) uA).
by rewrite /curv invmxK.
Qed.

End Lists.
