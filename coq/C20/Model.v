(* C20 -- executable model (exact rational arithmetic, no proofs) of the linear-Gaussian routes:
     nifty/re/evi.py:wiener_filter_posterior (signal-space, data-space, linearised branches),
     nifty/cl/library/wiener_filter_curvature.py:WienerFilterCurvature(...).inverse_times,
     MAP / MGVI through the Newton minimisers (one exact Newton step on the quadratic Hamiltonian).
   The conjugate-gradient / Newton-CG solves of the code are modelled by their exact fixed point
   (assumption "the inner solves converge", tight tolerances in the runs), computed by an
   UNTRUSTED elimination whose result is CERTIFIED inside the same vm_compute by an exact
   residual check (`is_solution`, soundness in ProofsList.v).
   Matrices are row lists over Q; every operation re-normalises with Qred.
   The general matrix identities that these functions instantiate are proved in ProofsMx.v. *)
From Coq Require Import QArith List Bool ZArith.
Import ListNotations.
Open Scope Q_scope.

Definition vec := list Q.
Definition mat := list (list Q).

Definition qadd (a b : Q) : Q := Qred (a + b).
Definition qsub (a b : Q) : Q := Qred (a - b).
Definition qmul (a b : Q) : Q := Qred (a * b).
Definition qdiv (a b : Q) : Q := Qred (a / b).

Fixpoint dot (u v : vec) : Q :=
  match u, v with
  | a :: u', b :: v' => qadd (qmul a b) (dot u' v')
  | _, _ => 0
  end.

Fixpoint vzip (f : Q -> Q -> Q) (u v : vec) : vec :=
  match u, v with
  | a :: u', b :: v' => f a b :: vzip f u' v'
  | _, _ => []
  end.

Definition vadd := vzip qadd.
Definition vsub := vzip qsub.
Definition vmul := vzip qmul.               (* pointwise product *)
Definition vscale (c : Q) (u : vec) : vec := map (qmul c) u.

Definition mat_vec (A : mat) (x : vec) : vec := map (fun r => dot r x) A.
(* transpose of a matrix with [nc] columns *)
Definition transpose (nc : nat) (A : mat) : mat :=
  map (fun j => map (fun r => nth j r 0) A) (seq 0 nc).
Definition mat_mul (nc : nat) (A B : mat) : mat :=      (* nc = number of columns of B *)
  let Bt := transpose nc B in map (fun r => map (fun c => dot r c) Bt) A.
Definition mat_add (A B : mat) : mat := map (fun rb => vadd (fst rb) (snd rb)) (combine A B).
Definition unit_vec (n i : nat) : vec := map (fun j => if Nat.eqb i j then 1 else 0) (seq 0 n).
Definition identity (n : nat) : mat := map (unit_vec n) (seq 0 n).
Definition diag (v : vec) : mat :=
  map (fun iv => map (fun j => if Nat.eqb (fst iv) j then snd iv else 0) (seq 0 (length v)))
      (combine (seq 0 (length v)) v).

(* ---- untrusted exact elimination (augmented rows = coefficients ++ [rhs]) ------------------ *)
Definition qzero (a : Q) : bool := Qeq_bool a 0.

Fixpoint pick_pivot (rows acc : list (list Q)) : option (list Q * list (list Q)) :=
  match rows with
  | [] => None
  | r :: rs => if qzero (hd 0 r) then pick_pivot rs (acc ++ [r]) else Some (r, acc ++ rs)
  end.

Fixpoint solve_aug (n : nat) (rows : list (list Q)) : option vec :=
  match n with
  | O => Some []
  | S n' =>
    match pick_pivot rows [] with
    | None => None
    | Some (p, others) =>
      let ph := hd 0 p in
      let pt := map (fun x => qdiv x ph) (tl p) in
      let others' := map (fun r => vsub (tl r) (vscale (hd 0 r) pt)) others in
      match solve_aug n' others' with
      | None => None
      | Some xs => Some (qsub (last pt 0) (dot pt xs) :: xs)
      end
    end
  end.

Definition solve (A : mat) (b : vec) : option vec :=
  solve_aug (length b) (map (fun rb => fst rb ++ [snd rb]) (combine A b)).

(* ---- exact certificate ------------------------------------------------------------------------ *)
Fixpoint veqb (u v : vec) : bool :=
  match u, v with
  | [], [] => true
  | a :: u', b :: v' => Qeq_bool a b && veqb u' v'
  | _, _ => false
  end.

Definition is_solution (A : mat) (b x : vec) : bool := veqb (mat_vec A x) b.

(* ---- tolerance comparison with the floating-point implementation ------------------------------ *)
Definition qabs (a : Q) : Q := if Qle_bool 0 a then a else Qopp a.
Fixpoint close (tol : Q) (u v : vec) : bool :=
  match u, v with
  | [], [] => true
  | a :: u', b :: v' => Qle_bool (qabs (a - b)) tol && close tol u' v'
  | _, _ => false
  end.

(* ---- the routes ------------------------------------------------------------------------------- *)
(* evi.py:468-472   n_inv = likelihood.metric;  (j,) = forward_lin_T(n_inv(data))
                    post_cov_inv(t) = forward_lin_T(n_inv(forward_lin(t)))[0] + t                *)
Definition info_source (n : nat) (R Ninv : mat) (d : vec) : vec :=
  mat_vec (transpose n R) (mat_vec Ninv d).
Definition post_cov_inv (n : nat) (R Ninv : mat) : mat :=
  let m := length R in
  mat_add (mat_mul n (transpose n R) (mat_mul n Ninv R)) (identity n).
(* evi.py:475       post_mean, post_info = cg(post_cov_inv, j)                                   *)
Definition wf_signal (n : nat) (R Ninv : mat) (d : vec) : option vec :=
  solve (post_cov_inv n R Ninv) (info_source n R Ninv d).

(* evi.py:489-492   post_dspace_cov_inv(t) = forward_lin(forward_lin_T(t)) + noise_covariance(t)  *)
Definition post_dspace_cov_inv (n : nat) (R N : mat) : mat :=
  let m := length R in
  mat_add (mat_mul m R (transpose n R)) N.
(* evi.py:495-501   post_mean_dspace = cg(post_dspace_cov_inv, data)
                    (post_mean,) = forward_lin_T(post_mean_dspace)                                *)
Definition wf_data (n : nat) (R N : mat) (d : vec) : option vec :=
  match solve (post_dspace_cov_inv n R N) d with
  | Some y => Some (mat_vec (transpose n R) y)
  | None => None
  end.

(* evi.py:459-461   model_is_linear=False:  _, forward_lin = jax.linearize(forward, position)
                    data = data - forward(position) + forward_lin(position)
   for the generated forward models  f(x) = R x + Q (x*x) + c  (pointwise square):
   Jacobian at p:  R + 2 Q diag(p).                                                               *)
Definition fwd (R Qm : mat) (c x : vec) : vec :=
  vadd (vadd (mat_vec R x) (mat_vec Qm (vmul x x))) c.
Definition jac (R Qm : mat) (p : vec) : mat :=
  map (fun rq => vadd (fst rq) (vmul (vscale 2 (snd rq)) p)) (combine R Qm).
Definition lin_data (R Qm : mat) (c d p : vec) : vec :=
  vadd (vsub d (fwd R Qm c p)) (mat_vec (jac R Qm p) p).
Definition wf_lin_signal (n : nat) (R Qm Ninv : mat) (c d p : vec) : option vec :=
  wf_signal n (jac R Qm p) Ninv (lin_data R Qm c d p).
Definition wf_lin_data (n : nat) (R Qm N : mat) (c d p : vec) : option vec :=
  wf_data n (jac R Qm p) N (lin_data R Qm c d p).

(* wiener_filter_curvature.py:56-62  M = SandwichOperator.make(R, N.inverse); op = M + S.inverse;
   InversionEnabler(op, ic, Sinv).inverse_times(j)   with diagonal prior covariance S            *)
Definition curvature (n : nat) (R Ninv : mat) (Sinv : vec) : mat :=
  mat_add (mat_mul n (transpose n R) (mat_mul n Ninv R)) (diag Sinv).
Definition curv_inverse_times (n : nat) (R Ninv : mat) (Sinv j : vec) : option vec :=
  solve (curvature n R Ninv Sinv) j.

(* Standard Hamiltonian of the linear Gaussian model: gradient, and one exact Newton step
   (what NewtonCG / newton_cg with a converged inner CG performs).                               *)
Definition ham_grad (n : nat) (R Ninv : mat) (d s : vec) : vec :=
  vadd (mat_vec (transpose n R) (mat_vec Ninv (vsub (mat_vec R s) d))) s.
Definition newton_step (n : nat) (R Ninv : mat) (d s : vec) : option vec :=
  match solve (post_cov_inv n R Ninv) (ham_grad n R Ninv d s) with
  | Some dx => Some (vsub s dx)
  | None => None
  end.

(* ---- correspondence predicates (booleans evaluated by vm_compute) ----------------------------- *)
Definition certified (A : mat) (b : vec) (x : option vec) : bool :=
  match x with Some x => is_solution A b x | None => false end.

Definition opt_close (tol : Q) (x : option vec) (impl : vec) : bool :=
  match x with Some x => close tol x impl | None => false end.

(* signal-space route: exact solution certified + implementation within tol *)
Definition corr_signal (tol : Q) (n : nat) (R Ninv : mat) (d impl : vec) : bool :=
  let x := wf_signal n R Ninv d in
  certified (post_cov_inv n R Ninv) (info_source n R Ninv d) x && opt_close tol x impl.

(* data-space route: the data-space system is certified, the result is compared AND must be the
   certified solution of the signal-space system as well (push-through, instance-wise) *)
Definition corr_data (tol : Q) (n : nat) (R N Ninv : mat) (d impl : vec) : bool :=
  let y := solve (post_dspace_cov_inv n R N) d in
  let x := wf_data n R N d in
  certified (post_dspace_cov_inv n R N) d y &&
  certified (post_cov_inv n R Ninv) (info_source n R Ninv d) x && opt_close tol x impl.

Definition corr_lin_signal (tol : Q) (n : nat) (R Qm Ninv : mat) (c d p impl : vec) : bool :=
  corr_signal tol n (jac R Qm p) Ninv (lin_data R Qm c d p) impl.
Definition corr_lin_data (tol : Q) (n : nat) (R Qm N Ninv : mat) (c d p impl : vec) : bool :=
  corr_data tol n (jac R Qm p) N Ninv (lin_data R Qm c d p) impl.

Definition corr_curvature (tol : Q) (n : nat) (R Ninv : mat) (Sinv j impl : vec) : bool :=
  let x := curv_inverse_times n R Ninv Sinv j in
  certified (curvature n R Ninv Sinv) j x && opt_close tol x impl.

(* MAP/MGVI result from start s0: one Newton step of the model; it must also be the certified
   Wiener-filter mean (newton_one_step, instance-wise) *)
Definition corr_map (tol : Q) (n : nat) (R Ninv : mat) (d s0 impl : vec) : bool :=
  let x := newton_step n R Ninv d s0 in
  certified (post_cov_inv n R Ninv) (info_source n R Ninv d) x && opt_close tol x impl.

(* sample-covariance factor: T (n x k, given by rows) with  (T T^T) A = 1  for the posterior
   precision A (post_cov_inv / curvature) *)
Fixpoint mclose (tol : Q) (A B : mat) : bool :=
  match A, B with
  | [], [] => true
  | a :: A', b :: B' => close tol a b && mclose tol A' B'
  | _, _ => false
  end.
Definition corr_cov (tol : Q) (n k : nat) (A : mat) (T : mat) : bool :=
  mclose tol (mat_mul n (mat_mul n T (transpose k T)) A) (identity n).
