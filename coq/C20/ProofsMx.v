(* C20 -- linear Gaussian problems: the Wiener filter identities for GENERAL matrices over an
   arbitrary field (MathComp matrices, ssreflect style).  Everything here is axiom-free.

   Notation of the code (nifty/re/evi.py:wiener_filter_posterior, cl/library/wiener_filter_curvature.py):
     R   forward_lin                       'M_(m,n)   (m data pixels, n signal pixels)
     Rh  forward_lin_T (adjoint of R)      'M_(n,m)   -- an ARBITRARY matrix in the purely algebraic
                                                         statements; R^T in the quadratic-form ones
     N   noise covariance                  'M_m
     S   prior covariance                  'M_n       (1 for the standardised models of nifty.re)
     d   data                              'cV_m
   signal space:  post_cov_inv = Rh N^-1 R + S^-1 (=: A),  j = Rh N^-1 d,  mean = A^-1 j
   data space:    post_dspace_cov_inv = R S Rh + N (=: B),                 mean = S Rh B^-1 d      *)
From mathcomp Require Import ssreflect ssrfun ssrbool eqtype ssrnat seq fintype bigop order ssralg ssrnum matrix mxalgebra ssrAC.
Set Implicit Arguments.
Unset Strict Implicit.
Unset Printing Implicit Defensive.
Import GRing.Theory Order.TTheory Num.Theory.
Local Open Scope ring_scope.

Section WienerGeneral.
Variable F : fieldType.
Variables m n : nat.
Variables (R : 'M[F]_(m,n)) (Rh : 'M[F]_(n,m)) (N : 'M[F]_m) (S : 'M[F]_n).

(* WienerFilterCurvature: `M = SandwichOperator.make(R, N.inverse); op = M + S.inverse` *)
Definition curvS : 'M[F]_n := Rh *m invmx N *m R + invmx S.
Definition dcovS : 'M[F]_m := R *m S *m Rh + N.

Lemma curvS_dcovS : N \in unitmx -> S \in unitmx ->
  curvS *m (S *m Rh) = Rh *m invmx N *m dcovS.
Proof.
move=> uN uS; rewrite /curvS /dcovS mulmxDl mulmxDr.
rewrite (mulmxA (invmx S)) (mulVmx uS) mul1mx -!mulmxA (mulVmx uN) mulmx1.
by rewrite !mulmxA.
Qed.

(* Push-through identity with a general prior covariance. *)
Lemma push_through_S : N \in unitmx -> S \in unitmx -> curvS \in unitmx -> dcovS \in unitmx ->
  invmx curvS *m Rh *m invmx N = S *m Rh *m invmx dcovS.
Proof.
move=> uN uS uA uB; have H := curvS_dcovS uN uS.
rewrite -mulmxA -(mulmxK uB (Rh *m invmx N)) -H.
by rewrite (mulmxA (invmx curvS)) (mulKmx uA).
Qed.

(* The data-space system is solvable whenever the signal-space one is, and conversely
   (Woodbury): no rank condition on R is involved. *)
Lemma dcovS_unit : N \in unitmx -> S \in unitmx -> curvS \in unitmx -> dcovS \in unitmx.
Proof.
move=> uN uS uA.
suff H : dcovS *m (invmx N - invmx N *m R *m invmx curvS *m Rh *m invmx N) = 1%:M
  by case: (mulmx1_unit H).
have HA : R *m S *m Rh *m invmx N *m R + R = R *m S *m curvS.
  rewrite /curvS mulmxDr -!mulmxA (mulmxV uS) mulmx1; congr (_ + _).
have -> : dcovS *m (invmx N - invmx N *m R *m invmx curvS *m Rh *m invmx N)
        = dcovS *m invmx N - (dcovS *m invmx N *m R) *m invmx curvS *m Rh *m invmx N.
  by rewrite mulmxBr !mulmxA.
have -> : dcovS *m invmx N *m R = R *m S *m curvS.
  by rewrite -HA /dcovS !mulmxDl (mulmxV uN) mul1mx.
rewrite -(mulmxA (R *m S)) (mulmxV uA) mulmx1.
by rewrite /dcovS mulmxDl (mulmxV uN) addrC addKr.
Qed.

Lemma curvS_unit : N \in unitmx -> S \in unitmx -> dcovS \in unitmx -> curvS \in unitmx.
Proof.
move=> uN uS uB.
suff H : curvS *m (S - S *m Rh *m invmx dcovS *m R *m S) = 1%:M by case: (mulmx1_unit H).
have H := curvS_dcovS uN uS.
rewrite mulmxBr !mulmxA -(mulmxA curvS S Rh) H -(mulmxA _ dcovS) (mulmxV uB) mulmx1.
rewrite /curvS mulmxDl (mulVmx uS) [X in X - _]addrC.
by rewrite -!mulmxA addrK.
Qed.

End WienerGeneral.

(* ---------------------------------------------------------------------------------------------- *)
(* The standardised model of nifty.re (unit prior covariance).                                     *)
Section WienerStandard.
Variable F : fieldType.
Variables m n : nat.
Variables (R : 'M[F]_(m,n)) (Rh : 'M[F]_(n,m)) (N : 'M[F]_m).

(* evi.py:471-472  `post_cov_inv(t) = forward_lin_T(n_inv(forward_lin(t)))[0] + t` *)
Definition curv : 'M[F]_n := Rh *m invmx N *m R + 1%:M.
(* evi.py:489-492  `post_dspace_cov_inv(t) = forward_lin(forward_lin_T(t)) + noise_covariance(t)` *)
Definition dcov : 'M[F]_m := R *m Rh + N.

Lemma curv_curvS : curv = curvS R Rh N 1%:M.
Proof. by rewrite /curv /curvS invmx1. Qed.
Lemma dcov_dcovS : dcov = dcovS R Rh N 1%:M.
Proof. by rewrite /dcov /dcovS mulmx1. Qed.

Lemma dcov_unit : N \in unitmx -> curv \in unitmx -> dcov \in unitmx.
Proof. rewrite curv_curvS dcov_dcovS; move=> uN; exact: dcovS_unit uN (unitmx1 _ _). Qed.

Lemma curv_unit : N \in unitmx -> dcov \in unitmx -> curv \in unitmx.
Proof. rewrite curv_curvS dcov_dcovS; move=> uN; exact: curvS_unit uN (unitmx1 _ _). Qed.

Lemma push_through : N \in unitmx -> curv \in unitmx ->
  invmx curv *m Rh *m invmx N = Rh *m invmx dcov.
Proof.
move=> uN uA; have uB := dcov_unit uN uA.
move: uA uB; rewrite curv_curvS dcov_dcovS => uA uB.
by rewrite (push_through_S uN (unitmx1 _ _) uA uB) mul1mx.
Qed.

(* evi.py:469,475  j = forward_lin_T(n_inv(data)); post_mean = cg(post_cov_inv, j) *)
Definition mean_signal (d : 'cV[F]_m) : 'cV[F]_n := invmx curv *m (Rh *m (invmx N *m d)).
(* evi.py:495-501  post_mean_dspace = cg(post_dspace_cov_inv, data); post_mean = forward_lin_T(.) *)
Definition mean_data (d : 'cV[F]_m) : 'cV[F]_n := Rh *m (invmx dcov *m d).

Lemma branches_agree d : N \in unitmx -> curv \in unitmx -> mean_signal d = mean_data d.
Proof.
by move=> uN uA; rewrite /mean_signal /mean_data !mulmxA (push_through uN uA).
Qed.

(* what a converged CG returns is characterised by the linear system alone *)
Lemma solve_unique (A : 'M[F]_n) (x b : 'cV[F]_n) : A \in unitmx -> A *m x = b -> x = invmx A *m b.
Proof. by move=> uA <-; rewrite mulmxA (mulVmx uA) mul1mx. Qed.

Lemma mean_signal_char d x : curv \in unitmx ->
  (curv *m x = Rh *m (invmx N *m d)) <-> x = mean_signal d.
Proof.
move=> uA; split; first exact: solve_unique.
by move=> ->; rewrite /mean_signal mulmxA (mulmxV uA) mul1mx.
Qed.

(* Gradient of the standard Hamiltonian of the linear Gaussian model, and its Newton step. *)
Definition grad (d : 'cV[F]_m) (s : 'cV[F]_n) : 'cV[F]_n := Rh *m (invmx N *m (R *m s - d)) + s.

Lemma grad_affine d s : grad d s = curv *m s - Rh *m (invmx N *m d).
Proof.
rewrite /grad /curv mulmxDl mul1mx !mulmxBr -!mulmxA.
by rewrite addrAC.
Qed.

Lemma stationary_iff_mean d s : curv \in unitmx -> (grad d s = 0) <-> s = mean_signal d.
Proof.
move=> uA; rewrite grad_affine -(mean_signal_char d s uA); split.
  by move/eqP; rewrite subr_eq0 => /eqP.
by move=> ->; rewrite subrr.
Qed.

Lemma newton_one_step d s : curv \in unitmx -> s - invmx curv *m grad d s = mean_signal d.
Proof.
move=> uA; rewrite grad_affine mulmxBr mulmxA (mulVmx uA) mul1mx /mean_signal.
by rewrite opprB addrC subrK.
Qed.

(* MGVI on a linear model: with mirrored residuals the summed gradient over mean +- residual_i
   is (number of samples) times the gradient at the mean, so the sampled KL has the same
   stationary point as the Hamiltonian.  (No division: the statement is about the sum.) *)
Lemma mirrored_gradient_sum d s (rs : seq 'cV[F]_n) :
  \sum_(r <- rs) (grad d (s + r) + grad d (s - r)) = (grad d s) *+ (2 * size rs).
Proof.
elim: rs => [|r rs IH]; first by rewrite big_nil muln0 mulr0n.
rewrite big_cons IH /= mulnS mulrnDr; congr (_ + _).
rewrite !grad_affine !mulmxDr mulmxN mulr2n.
rewrite addrACA [X in _ = X]addrACA; congr (_ + _).
by rewrite addrACA subrr addr0.
Qed.

End WienerStandard.

(* ---------------------------------------------------------------------------------------------- *)
(* Quadratic form: the Hamiltonian, its exact second-order expansion and the completed square.      *)
Section Quadratic.
Variable F : fieldType.
Variables m n : nat.
Variables (R : 'M[F]_(m,n)) (N : 'M[F]_m).
Hypothesis Nsym : (invmx N)^T = invmx N.

Let Rh := R^T.
Let A := curv R Rh N.

(* twice the information Hamiltonian  (d - R s)^T N^-1 (d - R s) + s^T s   as a 1x1 matrix *)
Definition ham2 (d : 'cV[F]_m) (s : 'cV[F]_n) : 'M[F]_1 :=
  (R *m s - d)^T *m invmx N *m (R *m s - d) + s^T *m s.

Lemma A_sym : A^T = A.
Proof.
rewrite /A /curv /Rh linearD /= trmx1 !trmx_mul trmxK Nsym.
by rewrite !mulmxA.
Qed.

Lemma ac8 (V : zmodType) (a b c q p u v w : V) :
  (a + (b + c) + q) + (p + (u + v) + w) = a + p + ((c + v) + (b + u)) + (q + w).
Proof.
by rewrite [LHS](AC (((1*2)*1)*((1*2)*1)) (((1*5)*((3*7)*(2*6)))*(4*8))).
Qed.

Lemma quad_expand k (M : 'M[F]_k) (x y : 'cV[F]_k) :
  (x + y)^T *m M *m (x + y) = x^T *m M *m x + (x^T *m M *m y + y^T *m M *m x) + y^T *m M *m y.
Proof.
rewrite [(x + y)^T]linearD /= !mulmxDl !mulmxDr.
by rewrite [LHS](AC ((1*1)*(1*1)) ((1*(2*3))*4)).
Qed.

(* exact Taylor expansion: value, gradient (`grad`) and Hessian (`curv`) *)
Lemma ham2_expand d s t :
  ham2 d (s + t) = ham2 d s + (t^T *m grad R Rh N d s + (grad R Rh N d s)^T *m t) + t^T *m A *m t.
Proof.
rewrite /ham2 /grad /A /curv -/Rh.
set Ni := invmx N.
have -> : R *m (s + t) - d = (R *m s - d) + R *m t by rewrite mulmxDr addrAC.
set e := R *m s - d.
rewrite quad_expand.
have -> : (s + t)^T *m (s + t) = s^T *m s + (s^T *m t + t^T *m s) + t^T *m t.
  by rewrite -[X in X *m (s + t)]mulmx1 quad_expand !mulmx1.
rewrite ac8; congr (_ + _ + (_ + _) + _).
- by rewrite mulmxDr /Rh trmx_mul !mulmxA.
- by rewrite [(_ + s)^T]linearD /= mulmxDl !trmx_mul /Rh trmxK Nsym !mulmxA.
- by rewrite mulmxDr mulmx1 mulmxDl /Rh trmx_mul !mulmxA.
Qed.

(* completing the square: around the posterior mean the linear term vanishes, i.e. the posterior
   density exp(-H) is the Gaussian with mean `mean_signal d` and precision matrix `curv`
   (covariance invmx curv). *)
Lemma ham2_complete_square d t : A \in unitmx ->
  ham2 d (mean_signal R Rh N d + t) = ham2 d (mean_signal R Rh N d) + t^T *m A *m t.
Proof.
move=> uA; rewrite ham2_expand.
have -> : grad R Rh N d (mean_signal R Rh N d) = 0 by apply/stationary_iff_mean.
by rewrite mulmx0 trmx0 mul0mx addr0 addr0.
Qed.

End Quadratic.

(* ---------------------------------------------------------------------------------------------- *)
(* Ordered fields: for positive semi-definite N^-1 the curvature is invertible for EVERY response, *)
(* in particular for rank-deficient ones; so all hypotheses above reduce to `N \in unitmx`.         *)
Section Ordered.
Variable F : realFieldType.
Variables m n : nat.
Variables (R : 'M[F]_(m,n)) (N : 'M[F]_m).
Hypothesis Npsd : forall y : 'rV[F]_m, 0 <= (y *m invmx N *m y^T) ord0 ord0.

Lemma sqnorm_eq0 (x : 'rV[F]_n) : (x *m x^T) ord0 ord0 = 0 -> x = 0.
Proof.
rewrite mxE => H.
have H0 : forall i, i \in index_enum (ordinal_finType n) -> x ord0 i * x^T i ord0 = 0.
  have := @Num.Theory.psumr_eq0P F _ predT (fun i => x ord0 i * x^T i ord0).
  move=> P i _; apply: P => //.
  by move=> j _; rewrite mxE; exact: Num.Theory.sqr_ge0.
apply/rowP => i; rewrite mxE.
have := H0 i (mem_index_enum _); rewrite mxE => /eqP.
by rewrite mulf_eq0 orbb => /eqP.
Qed.

Lemma curv_unit_psd : curv R R^T N \in unitmx.
Proof.
rewrite -row_free_unit -kermx_eq0; apply/eqP/row_matrixP => i; rewrite row0.
set x := row i _.
have Hx : x *m curv R R^T N = 0.
  by rewrite /x -row_mul mulmx_ker row0.
apply: sqnorm_eq0.
have : (x *m curv R R^T N *m x^T) ord0 ord0 = 0 by rewrite Hx mul0mx mxE.
rewrite /curv mulmxDr mulmx1 mulmxDl mxE !mulmxA.
have -> : x *m R^T *m invmx N *m R *m x^T = (x *m R^T) *m invmx N *m (x *m R^T)^T.
  by rewrite trmx_mul trmxK !mulmxA.
move=> H.
have H1 := Npsd (x *m R^T).
have H2 : 0 <= (x *m x^T) ord0 ord0.
  rewrite mxE; apply: sumr_ge0 => j _; by rewrite [_^T _ _]mxE -expr2 sqr_ge0.
apply/eqP; rewrite eq_le H2 andbT.
by rewrite -[X in _ <= X]H ler_addr.
Qed.

End Ordered.

(* Diagonal noise with positive variances (the noise model of the generated cases): every
   hypothesis is discharged, whatever the response.                                                 *)
Section OrderedDiag.
Variable F : realFieldType.
Variables m n : nat.
Variables (R : 'M[F]_(m,n)) (v : 'rV[F]_m).
Hypothesis vpos : forall i, 0 < v ord0 i.

Let w : 'rV[F]_m := \row_j (v ord0 j)^-1.

Lemma diag_mul_inv : diag_mx v *m diag_mx w = 1%:M.
Proof.
rewrite mulmx_diag; apply/matrixP => i j; rewrite !mxE.
case: eqP => // _; rewrite mulfV // ; exact: lt0r_neq0.
Qed.

Lemma diag_unit : diag_mx v \in unitmx.
Proof. by case: (mulmx1_unit diag_mul_inv). Qed.

Lemma invmx_diag : invmx (diag_mx v) = diag_mx w.
Proof.
by rewrite -[LHS]mulmx1 -[X in _ *m X]diag_mul_inv mulmxA (mulVmx diag_unit) mul1mx.
Qed.

Lemma diag_psd (y : 'rV[F]_m) : 0 <= (y *m invmx (diag_mx v) *m y^T) ord0 ord0.
Proof.
rewrite invmx_diag mul_mx_diag mxE; apply: sumr_ge0 => j _.
rewrite [_^T _ _]mxE !mxE mulrAC -expr2; apply: mulr_ge0; first exact: sqr_ge0.
by rewrite invr_ge0 ltW.
Qed.

Lemma curv_unit_diag : curv R R^T (diag_mx v) \in unitmx.
Proof. exact: curv_unit_psd diag_psd. Qed.

Lemma branches_agree_diag d :
  mean_signal R R^T (diag_mx v) d = mean_data R R^T (diag_mx v) d.
Proof. exact: branches_agree diag_unit curv_unit_diag. Qed.

End OrderedDiag.
