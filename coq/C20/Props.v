(* C20 -- property theorems only.  Each is closed by [exact] of a lemma from ProofsMx.v (general
   matrices over an arbitrary field, MathComp) or ProofsList.v (certificates of the executable model).
   R : 'M_(m,n) response, Rh : 'M_(n,m) its adjoint (arbitrary matrix where not said otherwise),
   N noise covariance, S prior covariance, d data.                                                  *)
From mathcomp Require Import ssreflect ssrfun ssrbool eqtype ssrnat seq fintype bigop order ssralg ssrnum matrix.
From Coq Require Import BinNums BinInt.
Require NV.C20.Model NV.C20.ProofsList.
Require Import NV.C20.ProofsMx NV.C20.Bridge.
Import GRing.Theory Order.TTheory Num.Theory.
Local Open Scope ring_scope.

(* Push-through identity, general prior covariance (WienerFilterCurvature(R, N, S)):
   (Rh N^-1 R + S^-1)^-1 Rh N^-1 = S Rh (R S Rh + N)^-1 .  No rank condition on R. *)
Theorem C20_push_through_prior :
  forall (F : fieldType) (m n : nat) (R : 'M[F]_(m,n)) (Rh : 'M[F]_(n,m)) (N : 'M[F]_m) (S : 'M[F]_n),
    N \in unitmx -> S \in unitmx -> curvS R Rh N S \in unitmx -> dcovS R Rh N S \in unitmx ->
    invmx (curvS R Rh N S) *m Rh *m invmx N = S *m Rh *m invmx (dcovS R Rh N S).
Proof. exact: push_through_S. Qed.

(* Standardised model (nifty.re): (Rh N^-1 R + 1)^-1 Rh N^-1 = Rh (R Rh + N)^-1; invertibility of
   the data-space operator is DERIVED (Woodbury), so it is no hypothesis. *)
Theorem C20_push_through :
  forall (F : fieldType) (m n : nat) (R : 'M[F]_(m,n)) (Rh : 'M[F]_(n,m)) (N : 'M[F]_m),
    N \in unitmx -> curv R Rh N \in unitmx ->
    invmx (curv R Rh N) *m Rh *m invmx N = Rh *m invmx (dcov R Rh N).
Proof. exact: push_through. Qed.

(* The signal-space system is solvable iff the data-space system is. *)
Theorem C20_solvable_together :
  forall (F : fieldType) (m n : nat) (R : 'M[F]_(m,n)) (Rh : 'M[F]_(n,m)) (N : 'M[F]_m),
    N \in unitmx -> (curv R Rh N \in unitmx) = (dcov R Rh N \in unitmx).
Proof.
move=> F m n R Rh N uN; apply/idP/idP; [exact: dcov_unit | exact: curv_unit].
Qed.

(* Both branches of wiener_filter_posterior return the same mean. *)
Theorem C20_branches_agree :
  forall (F : fieldType) (m n : nat) (R : 'M[F]_(m,n)) (Rh : 'M[F]_(n,m)) (N : 'M[F]_m) (d : 'cV[F]_m),
    N \in unitmx -> curv R Rh N \in unitmx ->
    mean_signal R Rh N d = mean_data R Rh N d.
Proof. move=> F m n R Rh N d; exact: branches_agree. Qed.

(* Over an ordered field with positive diagonal noise NOTHING is assumed about R (rank-deficient,
   zero, more data than signal, ...): the curvature is invertible and the branches agree. *)
Theorem C20_branches_agree_any_response :
  forall (F : realFieldType) (m n : nat) (R : 'M[F]_(m,n)) (v : 'rV[F]_m) (d : 'cV[F]_m),
    (forall i, 0 < v ord0 i) ->
    curv R R^T (diag_mx v) \in unitmx /\
    mean_signal R R^T (diag_mx v) d = mean_data R R^T (diag_mx v) d.
Proof.
move=> F m n R v d vpos; split; [exact: curv_unit_diag | exact: branches_agree_diag].
Qed.

(* ... and for every noise covariance whose inverse is positive semi-definite. *)
Theorem C20_curvature_invertible :
  forall (F : realFieldType) (m n : nat) (R : 'M[F]_(m,n)) (N : 'M[F]_m),
    (forall y : 'rV[F]_m, 0 <= (y *m invmx N *m y^T) ord0 ord0) -> curv R R^T N \in unitmx.
Proof. move=> F m n R N; exact: curv_unit_psd. Qed.

(* What a converged solver returns is determined by the system: x is the Wiener-filter mean iff it
   satisfies the normal equations (this is what the certificate of the executable model checks). *)
Theorem C20_mean_characterised :
  forall (F : fieldType) (m n : nat) (R : 'M[F]_(m,n)) (Rh : 'M[F]_(n,m)) (N : 'M[F]_m)
         (d : 'cV[F]_m) (x : 'cV[F]_n),
    curv R Rh N \in unitmx ->
    (curv R Rh N *m x = Rh *m (invmx N *m d)) <-> x = mean_signal R Rh N d.
Proof. move=> F m n R Rh N d x; exact: mean_signal_char. Qed.

(* Posterior of d = R s + n, n ~ G(0,N), s ~ G(0,1): twice the information Hamiltonian
   (R s - d)^T N^-1 (R s - d) + s^T s is, up to its value at the mean, the quadratic form of
   `curv` centred on `mean_signal`: the posterior is Gaussian with that mean and covariance
   (R^T N^-1 R + 1)^-1. *)
Theorem C20_posterior_mean_and_covariance :
  forall (F : fieldType) (m n : nat) (R : 'M[F]_(m,n)) (N : 'M[F]_m) (d : 'cV[F]_m) (t : 'cV[F]_n),
    (invmx N)^T = invmx N -> curv R R^T N \in unitmx ->
    ham2 R N d (mean_signal R R^T N d + t)
      = ham2 R N d (mean_signal R R^T N d) + t^T *m curv R R^T N *m t.
Proof. move=> F m n R N d t Nsym; exact: ham2_complete_square. Qed.

(* Exact second-order expansion: `grad` is the gradient and `curv` the Hessian of the Hamiltonian. *)
Theorem C20_hamiltonian_expansion :
  forall (F : fieldType) (m n : nat) (R : 'M[F]_(m,n)) (N : 'M[F]_m) (d : 'cV[F]_m) (s t : 'cV[F]_n),
    (invmx N)^T = invmx N ->
    ham2 R N d (s + t)
      = ham2 R N d s + (t^T *m grad R R^T N d s + (grad R R^T N d s)^T *m t) + t^T *m curv R R^T N *m t.
Proof. move=> F m n R N d s t Nsym; exact: ham2_expand. Qed.

(* MAP: the stationary point of the Hamiltonian is the posterior mean ... *)
Theorem C20_map_is_mean :
  forall (F : fieldType) (m n : nat) (R : 'M[F]_(m,n)) (Rh : 'M[F]_(n,m)) (N : 'M[F]_m)
         (d : 'cV[F]_m) (s : 'cV[F]_n),
    curv R Rh N \in unitmx -> (grad R Rh N d s = 0) <-> s = mean_signal R Rh N d.
Proof. move=> F m n R Rh N d s; exact: stationary_iff_mean. Qed.

(* ... and one exact Newton step from ANY start reaches it. *)
Theorem C20_newton_one_step :
  forall (F : fieldType) (m n : nat) (R : 'M[F]_(m,n)) (Rh : 'M[F]_(n,m)) (N : 'M[F]_m)
         (d : 'cV[F]_m) (s : 'cV[F]_n),
    curv R Rh N \in unitmx -> s - invmx (curv R Rh N) *m grad R Rh N d s = mean_signal R Rh N d.
Proof. move=> F m n R Rh N d s; exact: newton_one_step. Qed.

(* MGVI with mirrored samples on a linear model: the summed KL gradient over mean +- residual_i is
   (number of samples) * Hamiltonian gradient at the mean, so the KL minimum is the posterior mean
   whatever the residuals are. *)
Theorem C20_mgvi_mirrored_gradient :
  forall (F : fieldType) (m n : nat) (R : 'M[F]_(m,n)) (Rh : 'M[F]_(n,m)) (N : 'M[F]_m)
         (d : 'cV[F]_m) (s : 'cV[F]_n) (rs : seq 'cV[F]_n),
    \sum_(r <- rs) (grad R Rh N d (s + r) + grad R Rh N d (s - r)) = (grad R Rh N d s) *+ (2 * size rs).
Proof. move=> F m n R Rh N d s rs; exact: mirrored_gradient_sum. Qed.

(* Executable model: a `true` correspondence term certifies, inside Coq, that the exact rational
   vector of the model solves the signal-space normal equations and that the implementation's
   floats are within the tolerance of it -- for the signal-space, data-space and MAP routes. *)
Theorem C20_model_signal_certified :
  forall tol n R Ninv d impl, Model.corr_signal tol n R Ninv d impl = true ->
  exists x, Model.wf_signal n R Ninv d = Some x /\
    List.Forall2 QArith_base.Qeq (Model.mat_vec (Model.post_cov_inv n R Ninv) x) (Model.info_source n R Ninv d) /\
    List.Forall2 (fun a b => QArith_base.Qle (Qabs.Qabs (QArith_base.Qminus a b)) tol) x impl.
Proof. exact: ProofsList.corr_signal_sound. Qed.

Theorem C20_model_data_certified :
  forall tol n R N Ninv d impl, Model.corr_data tol n R N Ninv d impl = true ->
  exists x, Model.wf_data n R N d = Some x /\
    List.Forall2 QArith_base.Qeq (Model.mat_vec (Model.post_cov_inv n R Ninv) x) (Model.info_source n R Ninv d) /\
    List.Forall2 (fun a b => QArith_base.Qle (Qabs.Qabs (QArith_base.Qminus a b)) tol) x impl.
Proof. exact: ProofsList.corr_data_sound. Qed.

Theorem C20_model_map_certified :
  forall tol n R Ninv d s0 impl, Model.corr_map tol n R Ninv d s0 impl = true ->
  exists x, Model.newton_step n R Ninv d s0 = Some x /\
    List.Forall2 QArith_base.Qeq (Model.mat_vec (Model.post_cov_inv n R Ninv) x) (Model.info_source n R Ninv d) /\
    List.Forall2 (fun a b => QArith_base.Qle (Qabs.Qabs (QArith_base.Qminus a b)) tol) x impl.
Proof. exact: ProofsList.corr_map_sound. Qed.

(* Bridge between the executable list/Q model and the matrix theorems above (Bridge.v): Coq's
   rationals are embedded into an arbitrary MathComp field of characteristic 0 (`q2F`), row lists
   are read as matrices (`mxQ`, `cvQ`), and the model's operations are the matrix operations:
   matrix-vector product, the exact certificate (normal-equation residual) ... *)
Theorem C20_bridge_mat_vec :
  forall (F : numFieldType) (m n : nat) (A : list (list QArith_base.Q)) (x : list QArith_base.Q),
    wfm m n A -> cvQ F m (Model.mat_vec A x) = mxQ F m n A *m cvQ F n x.
Proof. move=> F m n A x; exact: cvQ_mat_vec. Qed.

Theorem C20_bridge_certificate :
  forall (F : numFieldType) (m n : nat) (A : list (list QArith_base.Q)) (b x : list QArith_base.Q),
    wfm m n A -> Model.is_solution A b x = true -> mxQ F m n A *m cvQ F n x = cvQ F m b.
Proof. move=> F m n A b x; exact: is_solution_mx. Qed.

(* ... the Wiener-filter operators of the model are `curv` and the information source ... *)
Theorem C20_bridge_operators :
  forall (F : numFieldType) (m n : nat) (R Ninv : list (list QArith_base.Q)) (d : list QArith_base.Q),
    wfm m n R -> wfm m m Ninv ->
    mxQ F n n (Model.post_cov_inv n R Ninv) = (mxQ F m n R)^T *m mxQ F m m Ninv *m mxQ F m n R + 1%:M /\
    cvQ F n (Model.info_source n R Ninv d) = (mxQ F m n R)^T *m (mxQ F m m Ninv *m cvQ F m d).
Proof. move=> F m n R Ninv d wR wN; split; [exact: mxQ_post_cov_inv | exact: cvQ_info_source]. Qed.

(* ... hence a `true` correspondence term of the signal-space, data-space and Newton (MAP/MGVI)
   routes says that the model's exact rational vector IS `mean_signal` -- the object of
   C20_branches_agree, C20_map_is_mean, C20_posterior_mean_and_covariance -- for the matrices read
   off the lists (N := inverse of the list `Ninv`). *)
Theorem C20_model_signal_is_mean :
  forall (F : numFieldType) (m n : nat) tol R Ninv d impl,
    wfm m n R -> wfm m m Ninv ->
    let Rm := mxQ F m n R in let Ni := mxQ F m m Ninv in
    Ni \in unitmx -> curv Rm Rm^T (invmx Ni) \in unitmx ->
    Model.corr_signal tol n R Ninv d impl = true ->
    exists x, Model.wf_signal n R Ninv d = Some x /\
              cvQ F n x = mean_signal Rm Rm^T (invmx Ni) (cvQ F m d).
Proof. move=> F m n tol R Ninv d impl; exact: model_signal_is_mean. Qed.

Theorem C20_model_data_is_mean :
  forall (F : numFieldType) (m n : nat) tol R N Ninv d impl,
    wfm m n R -> wfm m m Ninv ->
    let Rm := mxQ F m n R in let Ni := mxQ F m m Ninv in
    Ni \in unitmx -> curv Rm Rm^T (invmx Ni) \in unitmx ->
    Model.corr_data tol n R N Ninv d impl = true ->
    exists x, Model.wf_data n R N d = Some x /\
              cvQ F n x = mean_signal Rm Rm^T (invmx Ni) (cvQ F m d).
Proof. move=> F m n tol R N Ninv d impl; exact: model_data_is_mean. Qed.

Theorem C20_model_map_is_mean :
  forall (F : numFieldType) (m n : nat) tol R Ninv d s0 impl,
    wfm m n R -> wfm m m Ninv ->
    let Rm := mxQ F m n R in let Ni := mxQ F m m Ninv in
    Ni \in unitmx -> curv Rm Rm^T (invmx Ni) \in unitmx ->
    Model.corr_map tol n R Ninv d s0 impl = true ->
    exists x, Model.newton_step n R Ninv d s0 = Some x /\
              cvQ F n x = mean_signal Rm Rm^T (invmx Ni) (cvQ F m d).
Proof. move=> F m n tol R Ninv d s0 impl; exact: model_map_is_mean. Qed.

(* Non-vacuity: a rank-deficient response (row 3 = row 1, 4 data / 3 signal pixels): both routes of
   the model are defined, certified and equal. *)
Example C20_rank_deficient_instance :
  let q := fun z : BinNums.Z => QArith_base.Qmake z 1 in
  let l3 := fun a b c => cons (q a) (cons (q b) (cons (q c) nil)) in
  let R := (cons (l3 1 2 0) (cons (l3 0 1 1) (cons (l3 1 2 0) (cons (l3 2 0 1) nil))))%Z in
  let Ninv := Model.diag (cons (q 4%Z) (cons (q 1%Z) (cons (QArith_base.Qmake 1 4) (cons (q 1%Z) nil)))) in
  let N := Model.diag (cons (QArith_base.Qmake 1 4) (cons (q 1%Z) (cons (q 4%Z) (cons (q 1%Z) nil)))) in
  let d := (cons (q 1) (cons (q (-2)) (cons (q 3) (cons (q 1) nil))))%Z in
  Model.wf_signal 3 R Ninv d = Model.wf_data 3 R N d /\
  Model.corr_data (q 0%Z) 3 R N Ninv d
    (cons (QArith_base.Qmake 925 1037) (cons (QArith_base.Qmake 47 1037) (cons (QArith_base.Qmake (-978) 1037) nil))) = true.
Proof. by vm_compute. Qed.
