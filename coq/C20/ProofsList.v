(* C20 -- soundness of the exact certificate and of the tolerance comparison used by the
   correspondence terms of Model.v (lists over Q). *)
From Coq Require Import QArith Qabs List Bool.
Import ListNotations.
Require Import NV.C20.Model.
Open Scope Q_scope.

Lemma veqb_sound : forall u v, veqb u v = true -> Forall2 Qeq u v.
Proof.
  induction u as [|a u IH]; destruct v as [|b v]; simpl; intros H; try discriminate.
  - constructor.
  - apply andb_true_iff in H. destruct H as [H1 H2].
    constructor; [apply Qeq_bool_iff; exact H1 | apply IH; exact H2].
Qed.

Lemma veqb_complete : forall u v, Forall2 Qeq u v -> veqb u v = true.
Proof.
  induction 1; simpl; [reflexivity|].
  apply andb_true_iff; split; [apply Qeq_bool_iff; assumption | assumption].
Qed.

(* the certificate: the exact rational vector x satisfies the linear system A x = b *)
Lemma is_solution_sound : forall A b x, is_solution A b x = true -> Forall2 Qeq (mat_vec A x) b.
Proof. intros A b x; apply veqb_sound. Qed.

Lemma certified_sound : forall A b ox, certified A b ox = true ->
  exists x, ox = Some x /\ Forall2 Qeq (mat_vec A x) b.
Proof.
  intros A b [x|] H; simpl in H; [|discriminate].
  exists x; split; [reflexivity | apply is_solution_sound; exact H].
Qed.

Lemma qabs_Qabs : forall a, qabs a == Qabs a.
Proof.
  intros a; unfold qabs. destruct (Qle_bool 0 a) eqn:E.
  - apply Qle_bool_iff in E. symmetry; apply Qabs_pos; exact E.
  - assert (H : ~ 0 <= a) by (intro H; apply Qle_bool_iff in H; congruence).
    symmetry; apply Qabs_neg. apply Qnot_lt_le. intro H1. apply H. apply Qlt_le_weak; exact H1.
Qed.

Lemma close_sound : forall tol u v, close tol u v = true ->
  Forall2 (fun a b => Qabs (a - b) <= tol) u v.
Proof.
  intros tol; induction u as [|a u IH]; destruct v as [|b v]; simpl; intros H; try discriminate.
  - constructor.
  - apply andb_true_iff in H. destruct H as [H1 H2]. constructor; [|apply IH; exact H2].
    apply Qle_bool_iff in H1. pose proof (qabs_Qabs (a - b)) as E.
    apply (Qle_trans _ (qabs (a - b))); [apply Qle_lteq; right; symmetry; exact E | exact H1].
Qed.

(* what a `true` correspondence term of the signal-space route means *)
Lemma corr_signal_sound : forall tol n R Ninv d impl, corr_signal tol n R Ninv d impl = true ->
  exists x, wf_signal n R Ninv d = Some x /\
            Forall2 Qeq (mat_vec (post_cov_inv n R Ninv) x) (info_source n R Ninv d) /\
            Forall2 (fun a b => Qabs (a - b) <= tol) x impl.
Proof.
  intros tol n R Ninv d impl H. unfold corr_signal in H. apply andb_true_iff in H. destruct H as [H1 H2].
  apply certified_sound in H1. destruct H1 as [x [Hx Hs]]. exists x. split; [exact Hx|]. split; [exact Hs|].
  rewrite Hx in H2. simpl in H2. apply close_sound; exact H2.
Qed.

(* data-space route: its result solves the SIGNAL-space normal equations as well *)
Lemma corr_data_sound : forall tol n R N Ninv d impl, corr_data tol n R N Ninv d impl = true ->
  exists x, wf_data n R N d = Some x /\
            Forall2 Qeq (mat_vec (post_cov_inv n R Ninv) x) (info_source n R Ninv d) /\
            Forall2 (fun a b => Qabs (a - b) <= tol) x impl.
Proof.
  intros tol n R N Ninv d impl H. unfold corr_data in H.
  apply andb_true_iff in H. destruct H as [H H3]. apply andb_true_iff in H. destruct H as [_ H2].
  apply certified_sound in H2. destruct H2 as [x [Hx Hs]]. exists x. split; [exact Hx|]. split; [exact Hs|].
  rewrite Hx in H3. simpl in H3. apply close_sound; exact H3.
Qed.

(* MAP route: one Newton step from ANY generated start lands on the certified Wiener-filter mean *)
Lemma corr_map_sound : forall tol n R Ninv d s0 impl, corr_map tol n R Ninv d s0 impl = true ->
  exists x, newton_step n R Ninv d s0 = Some x /\
            Forall2 Qeq (mat_vec (post_cov_inv n R Ninv) x) (info_source n R Ninv d) /\
            Forall2 (fun a b => Qabs (a - b) <= tol) x impl.
Proof.
  intros tol n R Ninv d s0 impl H. unfold corr_map in H. apply andb_true_iff in H. destruct H as [H1 H2].
  apply certified_sound in H1. destruct H1 as [x [Hx Hs]]. exists x. split; [exact Hx|]. split; [exact Hs|].
  rewrite Hx in H2. simpl in H2. apply close_sound; exact H2.
Qed.
