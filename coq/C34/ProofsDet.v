(* C34 -- Sylvester's determinant identity: det(1 + a b) = det(1 + b a) for a : m x n, b : n x m over
   any commutative ring.  With a = N^{-1/2} R and b = a^T this is
   logdet(1 + R^T N^-1 R) = logdet(1 + N^-1/2 R R^T N^-1/2): the trace-log term of the ELBO is the same
   in signal space (f = log on the metric) and in data space (f = log1p on LSM^T LSM). *)
From mathcomp Require Import all_ssreflect all_algebra.
Set Implicit Arguments.
Unset Strict Implicit.
Unset Printing Implicit Defensive.
Import GRing.Theory.
Local Open Scope ring_scope.

Section Sylvester.
  Variables (R : comRingType) (m n : nat) (a : 'M[R]_(m, n)) (b : 'M[R]_(n, m)).

  Let M : 'M[R]_(m + n) := block_mx 1%:M (- a) b 1%:M.

  Lemma M_lu : M = block_mx 1%:M 0 b 1%:M *m block_mx 1%:M (- a) 0 (1%:M + b *m a).
  Proof.
    rewrite mulmx_block ?mul1mx ?mulmx1 ?mul0mx ?mulmx0 ?addr0 ?add0r ?mulmxN.
    by rewrite addrCA addNr addr0.
  Qed.

  Lemma M_ul : M = block_mx (1%:M + a *m b) (- a) 0 1%:M *m block_mx 1%:M 0 b 1%:M.
  Proof.
    rewrite mulmx_block ?mul1mx ?mulmx1 ?mul0mx ?mulmx0 ?addr0 ?add0r ?mulNmx.
    by rewrite addrK.
  Qed.

  Lemma sylvester : \det (1%:M + a *m b) = \det (1%:M + b *m a).
  Proof.
    have E1 : \det M = \det (1%:M + b *m a).
      by rewrite M_lu det_mulmx det_lblock det_ublock !det1 !mul1r.
    have E2 : \det M = \det (1%:M + a *m b).
      by rewrite M_ul det_mulmx det_ublock det_lblock !det1 !mulr1.
    by rewrite -E2 E1.
  Qed.
End Sylvester.

Definition sylvester_statement : Prop :=
  forall (R : comRingType) (m n : nat) (a : 'M[R]_(m, n)) (b : 'M[R]_(n, m)),
    \det (1%:M + a *m b) = \det (1%:M + b *m a).
Lemma sylvester_proof : sylvester_statement.
Proof. move=> R m n a b. exact: sylvester. Qed.
