(* C34 -- rational instance of the Lanczos model and the check functions of the correspondence. *)
From Coq Require Import ZArith QArith Qabs Qminmax Qround List Bool.
Import ListNotations.
Require Import NV.C34.Model.
Local Open Scope Q_scope.

(* Scalars: rationals kept on the dyadic grid 2^-160 after every multiplication (the implementation's
   floats are dyadic; only the inverse norms and products leave the grid).  Exact rationals would be
   a ring but their size grows by a constant FACTOR per Lanczos step (degree of the recurrence in the
   inverse norms); the comparison with float64 is by tolerance 1e-8 anyway, the rounding is 2^-160. *)
Definition grid : positive := (2 ^ 160)%positive.
Definition qround (x : Q) : Q := Qred (Qfloor (x * inject_Z (Zpos grid)) # grid).
Definition qadd (a b : Q) := Qred (a + b).
Definition qmul (a b : Q) := qround (a * b).
Definition qsub (a b : Q) := Qred (a - b).
Definition qv := list Q.
Fixpoint qvsub (a b : qv) : qv := match a, b with x :: r, y :: s => qsub x y :: qvsub r s | _, _ => [] end.
Definition qvscale (c : Q) (a : qv) : qv := map (qmul c) a.
Fixpoint qdot (a b : qv) : Q := match a, b with x :: r, y :: s => qadd (qmul x y) (qdot r s) | _, _ => 0 end.
Definition qmatvec (A : list qv) (v : qv) : qv := map (fun row => qdot row v) A.

Definition qstate := lstate Q qv.
Definition qresidual (n : nat) (A : list qv) := residual Q qv (repeat 0 n) qvsub qvscale qdot (qmatvec A).
Definition qstep (n : nat) (A : list qv) := lstep Q qv (repeat 0 n) qvsub qvscale qdot (qmatvec A).

Definition close (tol m x : Q) : bool := Qle_bool (Qabs (m - x)) (tol * Qmax 1 (Qabs x)).
Fixpoint vclose (tol : Q) (a b : qv) : bool :=
  match a, b with [], [] => true | x :: r, y :: s => close tol x y && vclose tol r s | _, _ => false end.
Fixpoint mclose (tol : Q) (a b : list qv) : bool :=
  match a, b with [], [] => true | x :: r, y :: s => vclose tol x y && mclose tol r s | _, _ => false end.

(* run the recurrence with the implementation's own beta_full as norm witnesses, checking at every
   step that b^2 is the squared norm of the model's residual *)
Fixpoint run_chk (n : nat) (A : list qv) (tol : Q) (bs : list Q) (s : qstate) : bool * qstate :=
  match bs with
  | [] => (true, s)
  | b :: r =>
    match qresidual n A s with
    | None => (false, s)
    | Some (_, w) =>
      let ok := close tol (qdot w w) (b * b) in
      let '(ok', s') := run_chk n A tol r (qstep n A b (qround (/ b)) s) in (ok && ok', s')
    end
  end.

(* A, start vector (already normalised, as the implementation sees it), the non-zero betas, expected
   alphas (one more than betas consumed... see harness) and basis rows, oldest first *)
Definition lanczos_case (n : nat) (A : list qv) (v1 : qv) (bs : list Q) (tol : Q)
           (alphas : list Q) (basis : list qv) : bool :=
  let '(ok, s) := run_chk n A tol bs (linit Q qv v1) in
  ok && vclose tol (rev (l_al Q qv s)) alphas && mclose tol (rev (l_vs Q qv s)) basis.

(* breakdown: after the steps bs the next residual vanishes (norm^2 <= tol) *)
Definition breakdown_case (n : nat) (A : list qv) (v1 : qv) (bs : list Q) (tol tol0 : Q) (last_alpha : Q) : bool :=
  let '(ok, s) := run_chk n A tol bs (linit Q qv v1) in
  ok && match qresidual n A s with
        | Some (a, w) => Qle_bool (qdot w w) tol0 && close tol a last_alpha
        | None => false end.

(* ELBO bookkeeping (eigsh): lower_error and the ELBO samples from the logs of the eigenvalues *)
Definition elbo_case (n_rel metric_size : nat) (logs : list Q) (hs : list Q) (tol : Q)
           (lower_error : Q) (samples : list Q) : bool :=
  close tol (tr_log_lower n_rel logs) lower_error &&
  vclose tol (map (elbo_sample metric_size logs) hs) samples.

Fixpoint nat_list_eqb (a b : list nat) : bool :=
  match a, b with [], [] => true | x :: r, y :: s => Nat.eqb x y && nat_list_eqb r s | _, _ => false end.
Definition batches_case (n nb pre : nat) (obs : list nat) : bool := nat_list_eqb (batches n nb pre) obs.

(* eigenvalues saved by a resumed run against those of the one-go run: the operator the solver sees on
   resume carries the same shift that is subtracted afterwards *)
Definition shift_case (sigma tol : Q) (ref obs : list Q) : bool :=
  vclose tol (map (reported_eigenvalue sigma sigma) ref) obs.

Definition slq_order_case (requested op_size observed : nat) : bool := Nat.eqb (clamp_order requested op_size) observed.

(* observed: Some k = k eigenvalues were computed, None = the call raised ValueError *)
Definition neig_case (compute_all verbose : bool) (n n_rel : nat) (obs : option nat) : bool :=
  match effective_n compute_all verbose n n_rel, obs with
  | Some a, Some b => Nat.eqb a b
  | None, None => true
  | _, _ => false
  end.

Definition gauss_case (tol tolc : Q) (nodes : list (Q * Q * Q)) (obs : Q) : bool := close tolc (gauss_sum tol nodes) obs.
Definition space_case (sp : tl_space) (n_data metric_size : nat) (obs_data : bool) : bool :=
  Bool.eqb (use_data_space sp n_data metric_size) obs_data.
Definition trace_inv_case (sp : tl_space) (n_data metric_size : nat) (tolc : Q) (evs : list Q) (obs : Q) : bool :=
  close tolc (trace_inv_exact (use_data_space sp n_data metric_size) evs) obs.

Definition trace_const_case (metric_size n_rel : nat) (obs : Q) : bool := Qeq_bool (trace_inv_const metric_size n_rel) obs.
(* resumed from MORE eigenpairs than requested, in any order: lower_error and ELBO samples from the n largest *)
Definition resume_over_case (n_rel metric_size n : nat) (logs_given : list Q) (hs : list Q) (tol : Q)
           (lower_error : Q) (samples : list Q) : bool :=
  elbo_case n_rel metric_size (resume_select n logs_given) hs tol lower_error samples.
