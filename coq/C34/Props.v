(* C34 -- property theorems only. *)
From Coq Require Import ZArith QArith Reals List Bool Ring_theory.
Import ListNotations.
Require Import NV.C34.Model NV.C34.ProofsLanczos NV.C34.ProofsElbo NV.C34.ProofsR.
Require NV.C34.ProofsDet.

(* Lanczos three-term recurrence of _lanczos_tridiag (with the full re-orthogonalisation as coded),
   ANY order, any dimension: scalars = any commutative ring, vectors = any space with a bilinear
   symmetric form `dot`, A symmetric w.r.t. it; the residual norms b_i (square roots) enter as
   witnesses with b_i*b_i = <w_i,w_i> and inverses ib_i (i.e. no breakdown up to this order).
   Then: the basis is orthonormal, every A v_i = beta_{i-1} v_{i-1} + alpha_i v_i + beta_i v_{i+1}
   (tested against every vector u), and the bookkeeping lengths agree. *)
Theorem C34_lanczos_recurrence :
  forall (F V : Type) (f0 f1 : F) (fadd fmul fsub : F -> F -> F) (fopp : F -> F),
    ring_theory f0 f1 fadd fmul fsub fopp eq ->
  forall (vzero : V) (vsub : V -> V -> V) (vscale : F -> V -> V) (dot : V -> V -> F) (A : V -> V),
    (forall u a b, dot u (vsub a b) = fsub (dot u a) (dot u b)) ->
    (forall u c a, dot u (vscale c a) = fmul c (dot u a)) ->
    (forall u, dot u vzero = f0) ->
    (forall a b, dot a b = dot b a) ->
    (forall a b, dot (A a) b = dot a (A b)) ->
  forall (v1 : V) (bs : list (F * F)),
    dot v1 v1 = f1 ->
    good F V f1 fmul vzero vsub vscale dot A v1 bs ->
    let s := lrun F V vzero vsub vscale dot A v1 bs in
    orthonormal F V f0 f1 dot (l_vs F V s) /\
    rec_ok F V f0 fadd fmul dot A (l_vs F V s) (l_al F V s) (l_be F V s) /\
    length (l_vs F V s) = S (length (l_be F V s)) /\ length (l_al F V s) = length (l_be F V s).
Proof.
  intros F V f0 f1 fadd fmul fsub fopp RT vzero vsub vscale dot A H1 H2 H3 H4 H5 v1 bs Hv G.
  exact (lanczos_invariant F V f0 f1 fadd fmul fsub fopp RT vzero vsub vscale dot A H1 H2 H3 H4 H5 v1 bs Hv G).
Qed.

(* hence T = V^T A V: diagonal entry alpha_i = <v_i, A v_i>, off-diagonal beta_i = <v_{i+1}, A v_i> *)
Theorem C34_lanczos_tridiagonal_entries :
  forall (F V : Type) (f0 f1 : F) (fadd fmul fsub : F -> F -> F) (fopp : F -> F),
    ring_theory f0 f1 fadd fmul fsub fopp eq ->
  forall (dot : V -> V -> F) (A : V -> V),
    (forall a b, dot a b = dot b a) ->
  forall (vn vc : V) (rest : list V) (a : F) (als : list F) (b : F) (bes : list F),
    orthonormal F V f0 f1 dot (vn :: vc :: rest) ->
    rec_ok F V f0 fadd fmul dot A (vn :: vc :: rest) (a :: als) (b :: bes) ->
    dot vc (A vc) = a /\ dot vn (A vc) = b.
Proof.
  intros F V f0 f1 fadd fmul fsub fopp RT dot A Hs.
  exact (tridiag_head F V f0 f1 fadd fmul fsub fopp RT dot A Hs).
Qed.

(* ELBO of a linear Gaussian model in its eigenbasis (per mode; reals): with the exact posterior the
   bound as computed (-H(mean) - ln(lambda)/2, i.e. `-0.5*log(eigenvalue) + 0.5 - <H>`) IS the
   log-evidence, and every Gaussian approximation gives at most the log-evidence (ln x <= x - 1). *)
Theorem C34_elbo_exact_linear_gaussian :
  forall d r s2 : R, (0 < s2)%R -> elbo d r s2 (mpost d r s2) (/ lam r s2) = logZ d r s2.
Proof. exact elbo_exact. Qed.
Theorem C34_elbo_le_evidence :
  forall d r s2 : R, (0 < s2)%R -> forall m v : R, (0 < v)%R -> (elbo d r s2 m v <= logZ d r s2)%R.
Proof. exact elbo_le_evidence. Qed.

(* trace_log_method="eigsh" with only the k largest eigenvalues: the trace-log term is over-estimated
   by at most the reported lower_error = 0.5*(n_rel - k)*min(log eigenvalues) *)
Theorem C34_eigsh_tail_bounds :
  forall (logs rest : list Q) (n_rel : nat),
    logs <> [] -> n_rel = (length logs + length rest)%nat ->
    Forall (fun r => (0 <= r)%Q /\ forall x, In x logs -> (r <= x)%Q) rest ->
    (tr_log_lat_cov (logs ++ rest) <= tr_log_lat_cov logs)%Q /\
    (tr_log_lat_cov logs - tr_log_lower n_rel logs <= tr_log_lat_cov (logs ++ rest))%Q.
Proof. exact eigsh_tail_bounds. Qed.

(* signal space vs data space: det(1 + a b) = det(1 + b a) for rectangular a, b over any commutative
   ring (Sylvester; statement in ProofsDet.v, MathComp) *)
Theorem C34_data_signal_space_sylvester : NV.C34.ProofsDet.sylvester_statement.
Proof. exact NV.C34.ProofsDet.sylvester_proof. Qed.

(* batch schedule of _eigsh, fresh or resumed with `pre` eigenpairs: the batches add up to what is
   missing and none is empty *)
Theorem C34_batching :
  forall n nb pre : nat, (0 < nb)%nat -> (pre <= n)%nat ->
    nsum (batches n nb pre) = (n - pre)%nat /\ Forall (fun b => (0 < b)%nat) (batches n nb pre).
Proof. exact batches_sum. Qed.

(* solver shift of _eigsh (data space): the eigenvalue reported for an eigen-direction is the operator's
   eigenvalue exactly when the projected operator handed to the solver -- also the one built on resume --
   carries the shift that is subtracted afterwards; with an unshifted operator it is off by the shift *)
Theorem C34_solver_shift :
  forall sigma lam : Q,
    (reported_eigenvalue sigma sigma lam == lam)%Q /\
    (~ (sigma == 0)%Q -> ~ (reported_eigenvalue 0 sigma lam == lam)%Q).
Proof. intros; split; [apply shift_consistent | apply shift_inconsistent]. Qed.

(* SLQ order: a requested order that reaches the dimension of the operator is clamped to exactly that
   dimension (never below it), so the Krylov space can be exhausted and the quadrature can be exact *)
Theorem C34_slq_order_clamp :
  forall requested op_size : nat,
    clamp_order requested op_size = Nat.min requested op_size /\
    ((op_size <= requested)%nat -> clamp_order requested op_size = op_size).
Proof. exact clamp_order_spec. Qed.

(* options: the number of eigenvalues entering the trace-log does not depend on `verbose`, and
   compute_all overrides whatever n_eigenvalues the caller passed *)
Theorem C34_options :
  forall (ca v1 v2 : bool) (n n_rel : nat),
    effective_n ca v1 n n_rel = effective_n ca v2 n n_rel /\ effective_n true v1 n n_rel = Some n_rel.
Proof. intros; split; reflexivity. Qed.

(* Gauss quadrature with discarded nodes (stochastic_logdet_from_lanczos): the zero eigenvalues of a tridiagonal
   that was zero-padded after a Lanczos breakdown do not enter, whatever f(0) is *)
Theorem C34_quadrature_ignores_padding :
  forall (tol : Q) (nodes pad : list (Q * Q * Q)),
    (0 < tol)%Q -> Forall (fun n => (fst (fst n) == 0)%Q) pad ->
    (gauss_sum tol (nodes ++ pad) == gauss_sum tol nodes)%Q.
Proof. exact gauss_sum_padding. Qed.

(* analytic prior term: Tr(Lambda^-1) from data-space eigenvalues needs the +1 of the RESOLVED space *)
Theorem C34_trace_inv_spaces :
  forall evs : list Q, (trace_inv_exact true evs == trace_inv_exact false (map (fun e => e + 1) evs))%Q.
Proof. exact trace_inv_spaces. Qed.

(* analytic prior term: the metric eigenvalues that are exactly one (metric_size - n_relevant_dofs of them)
   contribute one each to Tr(Lambda^-1) *)
Theorem C34_trace_inv_unit_eigenvalues :
  forall (evs : list Q) (metric_size n_rel : nat),
    (trace_inv_exact false (evs ++ repeat 1%Q (metric_size - n_rel))
     == trace_inv_exact false evs + trace_inv_const metric_size n_rel)%Q.
Proof. intros. apply trace_inv_units. Qed.

(* a resumed eigensystem is sorted before it is truncated: the kept eigenvalues are the largest ones *)
Theorem C34_resume_keeps_largest :
  forall (n : nat) (evs : list Q) (x y : Q),
    In x (resume_select n evs) -> In y (skipn n (sort_desc evs)) -> (y <= x)%Q.
Proof. exact resume_select_largest. Qed.

(* non-vacuity: a resumed and a fresh schedule (the Lanczos hypotheses are exercised with Q^n and
   generated SPD matrices by the correspondence on every check run) *)
Example C34_batches_example : batches 7 3 4 = [1; 2]%nat /\ batches 7 3 0 = [3; 2; 2]%nat.
Proof. split; reflexivity. Qed.
