(* C34 -- executable models (no proofs).
   nifty/re/num/lanczos.py   _lanczos_tridiag  (three-term recurrence, full re-orthogonalisation, breakdown)
   nifty/re/evidence_lower_bound.py  the trace-log / lower-error bookkeeping of estimate_evidence_lower_bound
                                     and the batch schedule of _eigsh.
   The Lanczos model is generic over an abstract inner-product space (scalars F, vectors V) so that the
   proofs need no representation of vectors; the executable instance (Exec.v) uses lists of rationals. *)
From Coq Require Import ZArith QArith Qminmax List Bool.
Import ListNotations.

Section Lanczos.
  Variables F V : Type.
  Variables (f0 f1 : F) (fadd fmul fsub : F -> F -> F).
  Variables (vzero : V) (vsub : V -> V -> V) (vscale : F -> V -> V) (dot : V -> V -> F).
  Variable A : V -> V.                              (* matvec *)

  (* state after some steps: basis newest first (v_k :: ... :: v_0), alphas / betas newest first *)
  Record lstate := mkL { l_vs : list V; l_al : list F; l_be : list F }.

  (*  def orthogonalize(vecs, w):  proj = vecs @ w;  return w - (proj[:, None] * vecs).sum(axis=0)
      (all projections are taken from the same w: classical Gram-Schmidt) *)
  Definition orthogonalize (vecs : list V) (w : V) : V :=
    fold_left (fun acc v => vsub acc (vscale (dot v w) v)) vecs w.

  (*  w = matvec(v_curr); a = jnp.dot(v_curr, w)
      w = w - a * v_curr - jnp.where(i > 0, beta_full[i - 1] * v_prev, 0.0)
      w = orthogonalize(vecs, w)                    [reorth_mode == 2: all stored vectors]
      b = jnp.linalg.norm(w); good = b > eps; v_next = w / b
      alpha[i] = a; beta_full[i] = b; Vbuf[i+1] = v_next
     [b] and [ib] are the norm and its inverse (witnesses supplied from outside: a square root). *)
  Definition residual (s : lstate) : option (F * V) :=
    match l_vs s with
    | [] => None
    | vc :: rest =>
      let w0 := A vc in
      let a := dot vc w0 in
      let w1 := vsub (vsub w0 (vscale a vc))
                     (match rest, l_be s with vp :: _, bp :: _ => vscale bp vp | _, _ => vzero end) in
      Some (a, orthogonalize (l_vs s) w1)
    end.
  Definition lstep (b ib : F) (s : lstate) : lstate :=
    match residual s with
    | None => s
    | Some (a, w) => mkL (vscale ib w :: l_vs s) (a :: l_al s) (b :: l_be s)
    end.
  Definition linit (v1 : V) : lstate := mkL [v1] [] [].
  (* the steps i = 0, 1, ... with witnesses bs = [(b_0, 1/b_0); (b_1, 1/b_1); ...]  (fori_loop) *)
  Definition lrun (v1 : V) (bs : list (F * F)) : lstate :=
    fold_left (fun s bb => lstep (fst bb) (snd bb) s) bs (linit v1).
End Lanczos.

(* ------------------------------------------------------------------------------------------ *)
(* estimate_evidence_lower_bound, trace_log_method="eigsh", in terms of the logarithms L_i = log(lambda_i)
   of the computed eigenvalues (largest first):
     tr_log_lat_cov = -0.5 * np.sum(log_eigenvalues)
     tr_log_lat_cov_lower = 0.5 * (n_relevant_dofs - log_eigenvalues.size) * np.min(log_eigenvalues)
     posterior_contribution = tr_log_lat_cov + 0.5 * metric_size
     elbo_sample = posterior_contribution - hamiltonian(s)                                       *)
Local Open Scope Q_scope.
Fixpoint qsum (l : list Q) : Q := match l with [] => 0 | x :: r => x + qsum r end.
Fixpoint qmin (l : list Q) (d : Q) : Q := match l with [] => d | x :: r => Qmin x (qmin r x) end.
Definition tr_log_lat_cov (logs : list Q) : Q := - (1 # 2) * qsum logs.
Definition tr_log_lower (n_rel : nat) (logs : list Q) : Q :=
  match logs with
  | [] => 0
  | x :: _ => (1 # 2) * inject_Z (Z.of_nat (n_rel - length logs)) * qmin logs x
  end.
Definition elbo_sample (metric_size : nat) (logs : list Q) (h : Q) : Q :=
  tr_log_lat_cov logs + (1 # 2) * inject_Z (Z.of_nat metric_size) - h.

(* ------------------------------------------------------------------------------------------ *)
(* _eigsh: batch schedule.
     base = n_eigenvalues // n_batches; remainder = n_eigenvalues % n_batches
     full_batches = [base + 1] * remainder + [base] * (n_batches - remainder)
     full_batches = [batch for batch in full_batches if batch > 0]
     skip = n_precomputed
     for batch in full_batches:
         if skip >= batch: skip -= batch; continue
         if skip > 0: batch -= skip; skip = 0
         batches.append(batch)                                                                  *)
Definition full_batches (n nb : nat) : list nat :=
  filter (fun b => Nat.ltb 0 b)
         (repeat (S (Nat.div n nb)) (Nat.modulo n nb) ++ repeat (Nat.div n nb) (nb - Nat.modulo n nb)%nat).
Fixpoint skip_batches (skip : nat) (l : list nat) : list nat :=
  match l with
  | [] => []
  | b :: r => if Nat.leb b skip then skip_batches (skip - b)%nat r
              else if Nat.ltb 0 skip then (b - skip)%nat :: skip_batches 0 r
              else b :: skip_batches 0 r
  end.
Definition batches (n nb pre : nat) : list nat := skip_batches pre (full_batches n nb).

(* _eigsh, solver shift (data space: solver_shift = 1 because LSM^T LSM may have zero eigenvalues which
   `which="LM"` could not tell from the projected-out directions; signal space: 0):
     solver_metric = metric if solver_shift == 0.0 else _ShiftedMetric(metric, solver_shift)
     projected_metric = _ProjectedMetric(solver_metric, projector)          (also when resuming)
     eigvals = np.real_if_close(eigvals - solver_shift)
   For an eigen-direction of the operator (eigenvalue lam) orthogonal to the projected-out ones, the solver
   sees lam + op_shift and the code reports that minus sub_shift. *)
Definition reported_eigenvalue (op_shift sub_shift lam : Q) : Q := lam + op_shift - sub_shift.

(* estimate_evidence_lower_bound, trace_log_method="slq":
     if slq_order > op_size: slq_order = op_size
   (op_size = dimension of the space the trace-log is taken in: metric_size in signal space, number of data
   points in data space -- not the number of relevant degrees of freedom) *)
Definition clamp_order (requested op_size : nat) : nat := if Nat.ltb op_size requested then op_size else requested.

(* estimate_evidence_lower_bound (both APIs), number of eigenvalues that enter the trace-log:
     if compute_all:
         if verbose: logger.info(...)
         n_eigenvalues = n_relevant_dofs
     ... _eigsh raises ValueError if n_eigenvalues > n_relevant_dofs
   [verbose] only controls logging. *)
Definition effective_n (compute_all verbose : bool) (n n_rel : nat) : option nat :=
  if compute_all then Some n_rel else if Nat.ltb n_rel n then None else Some n.

(* _quadrature_from_eigh with discard_eigs_below = tol (stochastic_logdet_from_lanczos -> _gauss_unit):
     evals = jnp.where(evals < threshold, jnp.nan, evals);  terms = first_evec_components**2 * f(evals)
     return jnp.nansum(terms)
   i.e. nodes below the threshold (the zero eigenvalues of a tridiagonal that was zero-padded after a Lanczos
   breakdown) are left out.  [nodes] = (eigenvalue, first eigenvector component, f(eigenvalue)). *)
Fixpoint gauss_sum (tol : Q) (nodes : list (Q * Q * Q)) : Q :=
  match nodes with
  | [] => 0
  | (ev, c, fv) :: r => (if Qle_bool tol ev then c * c * fv else 0) + gauss_sum tol r
  end.

(* trace_log_space: "signal" | "data" | "auto"; auto = data space iff the data-space shapes are known and
   n_data_points <= metric_size.  The analytic prior term adds  sum 1 / (eigenvalue + [data space])  *)
Inductive tl_space := SpSignal | SpData | SpAuto.
Definition use_data_space (sp : tl_space) (n_data metric_size : nat) : bool :=
  match sp with SpSignal => false | SpData => true | SpAuto => Nat.leb n_data metric_size end.
Definition trace_inv_exact (data_space : bool) (evs : list Q) : Q :=
  qsum (map (fun ev => / (ev + (if data_space then 1 else 0))) evs).

(* analytic prior term, both APIs:  trace_inv_const = float(metric_size - n_relevant_dofs)
   (the metric eigenvalues that are exactly 1 contribute 1 each to Tr(Lambda^-1));
   trace_inv_total = trace_inv_exact + [SLQ remainder] + trace_inv_const *)
Definition trace_inv_const (metric_size n_rel : nat) : Q := inject_Z (Z.of_nat (metric_size - n_rel)).

(* _eigsh, resumed eigensystem (both APIs):
     order = np.argsort(-eigenvalues); eigenvalues = eigenvalues[order]; eigenvectors = eigenvectors[:, order]
     if eigenvalues.size > n_eigenvalues: eigenvalues = eigenvalues[:n_eigenvalues] ...
   sort descending FIRST, then keep the n largest.  (On the logarithms: log is increasing.) *)
Fixpoint insert_desc (x : Q) (l : list Q) : list Q :=
  match l with
  | [] => [x]
  | y :: r => if Qle_bool y x then x :: y :: r else y :: insert_desc x r
  end.
Fixpoint sort_desc (l : list Q) : list Q := match l with [] => [] | x :: r => insert_desc x (sort_desc r) end.
Definition resume_select (n : nat) (evs : list Q) : list Q := firstn n (sort_desc evs).
