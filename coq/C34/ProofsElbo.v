(* C34 -- bookkeeping of estimate_evidence_lower_bound: (1) with only the k largest eigenvalues the
   trace-log term is over-estimated by at most the reported lower_error; (2) the batch schedule of
   _eigsh, with or without a resumed prefix, adds up to the requested number of eigenvalues. *)
From Coq Require Import ZArith QArith Qminmax List Bool Lia Lqa Arith.
Import ListNotations.
Require Import NV.C34.Model.
Local Open Scope Q_scope.

(* ---- (1) ---- *)
Lemma qsum_app a b : qsum (a ++ b) == qsum a + qsum b.
Proof. induction a; cbn; [ring | rewrite IHa; ring]. Qed.

Lemma qmin_le_all l : forall d x, In x l -> qmin l d <= x.
Proof.
  induction l as [|y l IH]; intros d x Hin; [contradiction|].
  cbn [qmin]. destruct Hin as [->|Hin].
  - apply Q.le_min_l.
  - eapply Qle_trans; [apply Q.le_min_r | apply IH; assumption].
Qed.

Lemma qsum_bounds (rest : list Q) (m : Q) :
  Forall (fun x => 0 <= x /\ x <= m) rest ->
  0 <= qsum rest /\ qsum rest <= inject_Z (Z.of_nat (length rest)) * m.
Proof.
  induction 1 as [|x r [H0 H1] HF [IH0 IH1]]; cbn [qsum length].
  - change (inject_Z (Z.of_nat 0)) with 0. lra.
  - rewrite Nat2Z.inj_succ. unfold Z.succ. rewrite inject_Z_plus. change (inject_Z 1) with 1. split; [lra | nra].
Qed.

(* logs = computed logarithms (k of them, non-empty), rest = the logarithms that were not computed:
   all of them lie between 0 (metric eigenvalues are >= 1) and every computed one (the solver
   returns the largest first).  full = value with all eigenvalues. *)
Theorem eigsh_tail_bounds (logs rest : list Q) (n_rel : nat) :
  logs <> [] -> n_rel = (length logs + length rest)%nat ->
  Forall (fun r => 0 <= r /\ forall x, In x logs -> r <= x) rest ->
  let full := tr_log_lat_cov (logs ++ rest) in
  full <= tr_log_lat_cov logs /\ tr_log_lat_cov logs - tr_log_lower n_rel logs <= full.
Proof.
  intros Hne Hn HF full. unfold full, tr_log_lat_cov, tr_log_lower.
  destruct logs as [|x0 logs']; [congruence|].
  set (logs := x0 :: logs') in *.
  set (m := qmin logs x0).
  assert (Hm : Forall (fun r => 0 <= r /\ r <= m) rest).
  { rewrite Forall_forall in *. intros r Hr. destruct (HF r Hr) as [H0 H1]. split; [exact H0|].
    unfold m. clear - H1.
    assert (G : forall l d, (forall x, In x l -> r <= x) -> r <= d -> r <= qmin l d).
    { induction l as [|y l IH]; intros d Hall Hd; cbn [qmin]; [exact Hd|].
      apply Q.min_glb; [apply Hall; left; reflexivity | apply IH; [intros; apply Hall; right; assumption | apply Hall; left; reflexivity]]. }
    apply G; [exact H1 | apply H1; left; reflexivity]. }
  destruct (qsum_bounds rest m Hm) as [B0 B1].
  rewrite qsum_app.
  replace (n_rel - length logs)%nat with (length rest) by lia.
  split; lra.
Qed.

(* ---- (2) ---- *)
Fixpoint nsum (l : list nat) : nat := match l with [] => 0 | x :: r => x + nsum r end%nat.

Lemma nsum_app a b : nsum (a ++ b) = (nsum a + nsum b)%nat.
Proof. induction a; cbn; lia. Qed.
Lemma nsum_repeat x n : nsum (repeat x n) = (n * x)%nat.
Proof. induction n; cbn; lia. Qed.
Lemma nsum_filter_pos l : nsum (filter (fun b => Nat.ltb 0 b) l) = nsum l.
Proof.
  induction l as [|x l IH]; [reflexivity|]. cbn [filter nsum].
  destruct (Nat.ltb_spec 0 x); cbn [nsum]; rewrite IH; lia.
Qed.

Lemma full_batches_sum n nb : (0 < nb)%nat -> nsum (full_batches n nb) = n.
Proof.
  intro H. unfold full_batches. rewrite nsum_filter_pos, nsum_app, !nsum_repeat.
  assert (D := Nat.div_mod n nb ltac:(lia)).
  assert (M := Nat.mod_upper_bound n nb ltac:(lia)).
  nia.
Qed.
Lemma full_batches_pos n nb : Forall (fun b => 0 < b)%nat (full_batches n nb).
Proof.
  unfold full_batches. apply Forall_forall. intros x Hx. apply filter_In in Hx. destruct Hx as [_ Hx].
  apply Nat.ltb_lt in Hx. exact Hx.
Qed.

Lemma skip_batches_spec l : forall skip,
  Forall (fun b => 0 < b)%nat l -> (skip <= nsum l)%nat ->
  nsum (skip_batches skip l) = (nsum l - skip)%nat /\ Forall (fun b => 0 < b)%nat (skip_batches skip l).
Proof.
  induction l as [|b l IH]; intros skip HF Hs; cbn [skip_batches nsum] in *.
  - split; [lia | constructor].
  - apply Forall_cons_iff in HF. destruct HF as [Hb HF].
    destruct (Nat.leb_spec b skip) as [L|L].
    + destruct (IH (skip - b)%nat HF ltac:(lia)) as [A B]. split; [lia | exact B].
    + destruct (IH 0%nat HF ltac:(lia)) as [A B].
      destruct (Nat.ltb_spec 0 skip); cbn [nsum]; (split; [lia | constructor; [lia | exact B]]).
Qed.

(* the eigenvalue batches always add up to what is still missing, and no batch is empty *)
Theorem batches_sum n nb pre :
  (0 < nb)%nat -> (pre <= n)%nat ->
  nsum (batches n nb pre) = (n - pre)%nat /\ Forall (fun b => 0 < b)%nat (batches n nb pre).
Proof.
  intros Hnb Hp. unfold batches.
  assert (S := full_batches_sum n nb Hnb).
  destruct (skip_batches_spec (full_batches n nb) pre (full_batches_pos n nb) ltac:(lia)) as [A B].
  split; [lia | exact B].
Qed.

(* ---- (3) solver shift ---- *)
Lemma shift_consistent sigma lam : reported_eigenvalue sigma sigma lam == lam.
Proof. unfold reported_eigenvalue. ring. Qed.
Lemma shift_inconsistent sigma lam : ~ sigma == 0 -> ~ reported_eigenvalue 0 sigma lam == lam.
Proof. unfold reported_eigenvalue. intros H E. apply H. lra. Qed.

(* ---- (4) SLQ order clamp ---- *)
Lemma clamp_order_spec requested op_size :
  clamp_order requested op_size = Nat.min requested op_size /\
  (op_size <= requested -> clamp_order requested op_size = op_size)%nat.
Proof. unfold clamp_order. destruct (Nat.ltb_spec op_size requested); lia. Qed.

(* ---- (5) options ---- *)
Lemma effective_n_verbose ca v1 v2 n n_rel : effective_n ca v1 n n_rel = effective_n ca v2 n n_rel.
Proof. reflexivity. Qed.
Lemma effective_n_compute_all v n n_rel : effective_n true v n n_rel = Some n_rel.
Proof. reflexivity. Qed.

(* ---- (6) discarded quadrature nodes; data-space shift of the analytic prior term ---- *)
Lemma gauss_sum_app tol a b : gauss_sum tol (a ++ b) == gauss_sum tol a + gauss_sum tol b.
Proof. induction a as [|[[ev c] fv] a IH]; cbn [gauss_sum app]; [ring | rewrite IH; ring]. Qed.
(* zero-padding after a breakdown does not change the quadrature, whatever f(0) and the components are *)
Lemma gauss_sum_padding tol nodes pad :
  0 < tol -> Forall (fun n => fst (fst n) == 0) pad -> gauss_sum tol (nodes ++ pad) == gauss_sum tol nodes.
Proof.
  intros Ht HF. rewrite gauss_sum_app.
  assert (Z : gauss_sum tol pad == 0).
  { induction HF as [|[[ev c] fv] r H HF IH]; cbn [gauss_sum]; [reflexivity|].
    cbn in H. destruct (Qle_bool tol ev) eqn:E; [apply Qle_bool_iff in E; rewrite H in E; lra | rewrite IH; ring]. }
  rewrite Z. ring.
Qed.
(* the data-space operator LSM^T LSM has the metric eigenvalues minus one: the shift makes both spaces agree *)
Lemma trace_inv_spaces evs : trace_inv_exact true evs == trace_inv_exact false (map (fun e => e + 1) evs).
Proof.
  unfold trace_inv_exact. induction evs as [|e r IH]; cbn [map qsum]; [reflexivity|].
  rewrite IH. setoid_replace (e + 1 + 0) with (e + 1) by ring. reflexivity.
Qed.

(* ---- (7) unit eigenvalues in Tr(Lambda^-1); selection of a resumed eigensystem ---- *)
Lemma trace_inv_units evs k :
  trace_inv_exact false (evs ++ repeat 1 k) == trace_inv_exact false evs + inject_Z (Z.of_nat k).
Proof.
  unfold trace_inv_exact. rewrite map_app, qsum_app.
  assert (E : qsum (map (fun ev : Q => / (ev + 0)) (repeat 1 k)) == inject_Z (Z.of_nat k)).
  { induction k as [|k IH]; [reflexivity|]. cbn [repeat map qsum]. rewrite IH, Nat2Z.inj_succ. unfold Z.succ.
    rewrite inject_Z_plus. change (inject_Z 1) with 1. setoid_replace (/ (1 + 0)) with 1 by reflexivity. ring. }
  rewrite E. reflexivity.
Qed.

Fixpoint all_ge (x : Q) (l : list Q) : Prop := match l with [] => True | y :: r => y <= x /\ all_ge x r end.
Fixpoint desc (l : list Q) : Prop := match l with [] => True | x :: r => all_ge x r /\ desc r end.
Lemma all_ge_insert x y l : all_ge x l -> y <= x -> all_ge x (insert_desc y l).
Proof.
  induction l as [|z r IH]; cbn [insert_desc all_ge]; [tauto|]. intros [A B] H.
  destruct (Qle_bool z y); cbn [all_ge]; tauto.
Qed.
Lemma all_ge_trans x y l : y <= x -> all_ge y l -> all_ge x l.
Proof. induction l as [|z r IH]; cbn [all_ge]; [tauto|]. intros H [A B]. split; [lra | auto]. Qed.
Lemma insert_desc_sorted x l : desc l -> desc (insert_desc x l).
Proof.
  induction l as [|y r IH]; cbn [insert_desc desc all_ge]; [tauto|]. intros [A B].
  destruct (Qle_bool y x) eqn:E.
  - apply Qle_bool_iff in E. cbn [desc all_ge]. repeat split; auto. apply (all_ge_trans x y); assumption.
  - assert (x < y) by (destruct (Qlt_le_dec x y) as [L|L]; [exact L | apply Qle_bool_iff in L; congruence]).
    cbn [desc]. split; [apply all_ge_insert; [assumption | lra] | auto].
Qed.
Lemma sort_desc_sorted l : desc (sort_desc l).
Proof. induction l; cbn [sort_desc]; [exact I | apply insert_desc_sorted; assumption]. Qed.
Lemma insert_desc_In x y l : In y (insert_desc x l) <-> y = x \/ In y l.
Proof.
  induction l as [|z r IH]; cbn [insert_desc]; [cbn; intuition (subst; auto)|].
  destruct (Qle_bool z x); cbn [In]; [intuition (subst; auto) | rewrite IH; intuition (subst; auto)].
Qed.
Lemma sort_desc_In y l : In y (sort_desc l) <-> In y l.
Proof. induction l as [|x r IH]; cbn [sort_desc In]; [tauto | rewrite insert_desc_In, IH; intuition (subst; auto)]. Qed.
(* every kept eigenvalue is >= every dropped one, whatever order the caller supplied them in *)
Lemma resume_select_largest n evs x y :
  In x (resume_select n evs) -> In y (skipn n (sort_desc evs)) -> y <= x.
Proof.
  unfold resume_select. generalize (sort_desc_sorted evs). generalize (sort_desc evs) as l. clear evs.
  intro l; revert n; induction l as [|z r IH]; intros n D Hx Hy.
  - rewrite firstn_nil in Hx. contradiction.
  - destruct n as [|n]; [contradiction|]. cbn [firstn skipn In desc] in *. destruct D as [A D].
    destruct Hx as [->|Hx]; [|apply (IH n); assumption].
    assert (G : forall (l : list Q) (u : Q), all_ge x l -> In u l -> u <= x).
    { clear. induction l as [|w l IHl]; cbn [all_ge In]; [tauto|]. intros u [B C] [E|H]; [subst; exact B | apply IHl; assumption]. }
    apply (G r y A).
    assert (S : forall (l : list Q) (m : nat) (u : Q), In u (skipn m l) -> In u l).
    { clear. induction l as [|w l IHl]; intros [|m] u; cbn [skipn In]; try tauto. intro H. right. apply (IHl m u H). }
    apply (S r n y Hy).
Qed.
