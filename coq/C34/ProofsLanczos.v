(* C34 -- the Lanczos recurrence of _lanczos_tridiag in exact arithmetic, any order, any dimension:
   over a commutative ring of scalars and an abstract inner-product space (dot bilinear and
   symmetric, A symmetric), with the norms of the residuals supplied as witnesses (b*b = <w,w>,
   ib*b = 1): the produced vectors are orthonormal, the full re-orthogonalisation is a no-op, and
   A v_i = beta_{i-1} v_{i-1} + alpha_i v_i + beta_i v_{i+1}  (tested against every vector u). *)
From Coq Require Import List Bool Ring Ring_theory Lia.
Import ListNotations.
Require Import NV.C34.Model.

Section Lanczos.
  Variables F V : Type.
  Variables (f0 f1 : F) (fadd fmul fsub : F -> F -> F) (fopp : F -> F).
  Hypothesis RT : ring_theory f0 f1 fadd fmul fsub fopp (@eq F).
  Add Ring FRing : RT.
  Variables (vzero : V) (vsub : V -> V -> V) (vscale : F -> V -> V) (dot : V -> V -> F).
  Variable A : V -> V.
  Hypothesis dot_sub : forall u a b, dot u (vsub a b) = fsub (dot u a) (dot u b).
  Hypothesis dot_scale : forall u c a, dot u (vscale c a) = fmul c (dot u a).
  Hypothesis dot_zero : forall u, dot u vzero = f0.
  Hypothesis dot_sym : forall a b, dot a b = dot b a.
  Hypothesis A_sym : forall a b, dot (A a) b = dot a (A b).

  Notation lstate := (lstate F V).
  Notation residual := (residual F V vzero vsub vscale dot A).
  Notation lstep := (lstep F V vzero vsub vscale dot A).
  Notation lrun := (lrun F V vzero vsub vscale dot A).
  Notation orthogonalize := (orthogonalize F V vsub vscale dot).

  Fixpoint orthonormal (l : list V) : Prop :=
    match l with
    | [] => True
    | v :: r => dot v v = f1 /\ Forall (fun u => dot v u = f0) r /\ orthonormal r
    end.

  Definition prev_term (u : V) (rest : list V) (bes : list F) : F :=
    match rest, bes with vp :: _, bp :: _ => fmul bp (dot u vp) | _, _ => f0 end.

  (* three-term recurrence for every vector that already has a successor *)
  Fixpoint rec_ok (vs : list V) (als bes : list F) : Prop :=
    match vs, als, bes with
    | vn :: ((vc :: rest) as tl), a :: als', b :: bes' =>
      (forall u, dot u (A vc) = fadd (fadd (prev_term u rest bes') (fmul a (dot u vc))) (fmul b (dot u vn)))
      /\ rec_ok tl als' bes'
    | _, _, _ => True
    end.

  Definition Inv (s : lstate) : Prop :=
    orthonormal (l_vs F V s) /\ rec_ok (l_vs F V s) (l_al F V s) (l_be F V s) /\
    length (l_vs F V s) = S (length (l_be F V s)) /\ length (l_al F V s) = length (l_be F V s).

  Lemma orthogonalize_noop u w : forall l acc,
    Forall (fun v => dot v w = f0) l ->
    dot u (fold_left (fun acc v => vsub acc (vscale (dot v w) v)) l acc) = dot u acc.
  Proof.
    induction l as [|v l IH]; intros acc HF; cbn [fold_left]; [reflexivity|].
    apply Forall_cons_iff in HF; destruct HF as [Hv HF']. rewrite IH by assumption.
    rewrite dot_sub, dot_scale, Hv. ring.
  Qed.

  (* with u fixed and orthogonal to the whole tail, A x is orthogonal to u for every x of the tail *)
  Lemma expand_tail u : forall tl vn als bes,
    rec_ok (vn :: tl) als bes -> length als = length bes -> length tl = length bes ->
    dot u vn = f0 -> Forall (fun y => dot u y = f0) tl ->
    Forall (fun x => dot u (A x) = f0) tl.
  Proof.
    induction tl as [|x tl IH]; intros vn als bes HR HL1 HL2 Hn HF; [constructor|].
    destruct als as [|a als]; destruct bes as [|b bes]; try discriminate.
    cbn [rec_ok] in HR. destruct HR as [E HR].
    apply Forall_cons_iff in HF; destruct HF as [Hx HF'].
    constructor.
    - rewrite E, Hx, Hn. unfold prev_term.
      destruct tl as [|y tl']; destruct bes as [|b' bes']; try ring.
      apply Forall_cons_iff in HF'; destruct HF' as [Hy _]. rewrite Hy. ring.
    - apply (IH x als bes); auto.
  Qed.

  Lemma step_inv b ib s :
    Inv s ->
    (forall a w, residual s = Some (a, w) -> fmul b b = dot w w) -> fmul ib b = f1 ->
    Inv (lstep b ib s).
  Proof.
    intros [HO [HR [HL1 HL2]]] Hb Hib. unfold Model.lstep, Model.residual in *.
    destruct s as [vs als bes]; cbn [l_vs l_al l_be] in *.
    destruct vs as [|vc rest]; [discriminate|].
    set (a := dot vc (A vc)) in *.
    set (bterm := match rest, bes with vp :: _, bp :: _ => vscale bp vp | _, _ => vzero end) in *.
    set (w1 := vsub (vsub (A vc) (vscale a vc)) bterm) in *.
    set (w := Model.orthogonalize F V vsub vscale dot (vc :: rest) w1) in *.
    specialize (Hb a w eq_refl).
    cbn [orthonormal] in HO. destruct HO as [Hcc [Hcr HOr]].
    injection HL1 as HL1.
    assert (Hbt : forall u, dot u bterm = prev_term u rest bes).
    { intro u. unfold bterm, prev_term. destruct rest; destruct bes; try apply dot_zero. apply dot_scale. }
    (* w1 is orthogonal to every stored vector *)
    assert (O : Forall (fun x => dot x w1 = f0) (vc :: rest)).
    { constructor.
      - unfold w1. rewrite !dot_sub, dot_scale, Hbt, Hcc. fold a. unfold prev_term.
        destruct rest as [|vp rest']; destruct bes as [|bp bes']; try ring.
        apply Forall_cons_iff in Hcr; destruct Hcr as [Hcp0 _]. rewrite Hcp0. ring.
      - destruct rest as [|vp rest']; [constructor|].
        destruct bes as [|bp bes']; [discriminate|]. destruct als as [|ap als']; [discriminate|].
        cbn [rec_ok] in HR. destruct HR as [E HR].
        apply Forall_cons_iff in Hcr; destruct Hcr as [Hcp Hcr'].
        cbn [orthonormal] in HOr. destruct HOr as [Hpp [Hpr HOr']].
        constructor.
        + (* the predecessor *)
          unfold w1. rewrite !dot_sub, dot_scale, Hbt. unfold prev_term.
          rewrite <- A_sym, (dot_sym (A vp) vc), E.
          rewrite (dot_sym vp vc), Hcp, Hcc, Hpp. unfold prev_term.
          destruct rest' as [|y r']; destruct bes' as [|b' bs']; try ring.
          apply Forall_cons_iff in Hcr'; destruct Hcr' as [Hcy _]. rewrite Hcy. ring.
        + (* deeper vectors *)
          assert (T := expand_tail vc rest' vp als' bes' HR).
          injection HL1 as HL1. injection HL2 as HL2.
          specialize (T HL2 HL1 Hcp Hcr').
          rewrite Forall_forall in *. intros x Hx.
          unfold w1. rewrite !dot_sub, dot_scale, Hbt. unfold prev_term.
          rewrite <- A_sym, (dot_sym (A x) vc), (T x Hx).
          rewrite (dot_sym x vc), (Hcr' x Hx), (dot_sym x vp), (Hpr x Hx). ring. }
    assert (W : forall u, dot u w = dot u w1).
    { intro u. unfold w, Model.orthogonalize. apply orthogonalize_noop. exact O. }
    assert (Hbi : fmul b ib = f1) by (rewrite <- Hib; ring).
    cbn [l_vs l_al l_be]. repeat split.
    - (* unit norm *)
      rewrite dot_scale, (dot_sym (vscale ib w) w), dot_scale, <- Hb.
      transitivity (fmul (fmul ib b) (fmul ib b)); [ring | rewrite Hib; ring].
    - (* orthogonal to all previous vectors *)
      rewrite Forall_forall in *. intros x Hx.
      rewrite dot_sym, dot_scale, W, (O x Hx). ring.
    - exact Hcc.
    - exact Hcr.
    - exact HOr.
    - (* the new instance of the recurrence *)
      intro u. rewrite dot_scale, W. unfold w1. rewrite !dot_sub, dot_scale, Hbt.
      fold a. transitivity (fadd (fadd (prev_term u rest bes) (fmul a (dot u vc)))
                                 (fmul (fmul b ib) (fsub (fsub (dot u (A vc)) (fmul a (dot u vc))) (prev_term u rest bes)))).
      + rewrite Hbi. ring.
      + ring.
    - exact HR.
    - cbn. lia.
    - cbn. lia.
  Qed.

  (* witnesses along a run: b_i is the norm of the i-th residual and ib_i its inverse (no breakdown) *)
  Inductive good (v1 : V) : list (F * F) -> Prop :=
  | good_nil : good v1 []
  | good_snoc bs b ib :
      good v1 bs ->
      (forall a w, residual (lrun v1 bs) = Some (a, w) -> fmul b b = dot w w) ->
      fmul ib b = f1 -> good v1 (bs ++ [(b, ib)]).

  Theorem lanczos_invariant v1 bs : dot v1 v1 = f1 -> good v1 bs -> Inv (lrun v1 bs).
  Proof.
    intros H1. induction 1 as [|bs b ib G IH Hb Hib].
    - cbn. repeat split; auto.
    - unfold Model.lrun. rewrite fold_left_app. cbn [fold_left fst snd].
      apply step_inv; assumption.
  Qed.

  (* entries of the tridiagonal matrix: T = V^T A V on and next to the diagonal, for the newest pair *)
  Lemma tridiag_head vn vc rest a als b bes :
    orthonormal (vn :: vc :: rest) -> rec_ok (vn :: vc :: rest) (a :: als) (b :: bes) ->
    dot vc (A vc) = a /\ dot vn (A vc) = b.
  Proof.
    cbn [orthonormal rec_ok]. intros [Hnn [Hnr [Hcc [Hcr _]]]] [E _].
    apply Forall_cons_iff in Hnr; destruct Hnr as [Hnc Hnr'].
    split; rewrite E; unfold prev_term.
    - rewrite Hcc, (dot_sym vc vn), Hnc.
      destruct rest as [|y r]; destruct bes as [|b' bs]; try ring.
      apply Forall_cons_iff in Hcr; destruct Hcr as [Hcy _]. rewrite Hcy. ring.
    - rewrite Hnc, Hnn.
      destruct rest as [|y r]; destruct bes as [|b' bs]; try ring.
      apply Forall_cons_iff in Hnr'; destruct Hnr' as [Hny _]. rewrite Hny. ring.
  Qed.
End Lanczos.
