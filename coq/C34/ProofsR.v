(* C34 -- linear Gaussian model in its eigenbasis (one mode; modes add up):
   prior xi ~ N(0,1), datum d = r*xi + n, n ~ N(0, s2).  Information Hamiltonian as NIFTy uses it
   (no normalisation constants):  H(xi) = (d - r xi)^2 / (2 s2) + xi^2 / 2.
   Metric eigenvalue lam = 1 + r^2/s2.  For a Gaussian approximation N(m, v):
     <H> = H(m) + lam*v/2,      ELBO(m, v) = -<H> + 1/2 + ln(v)/2      (what the code computes per mode,
   with v = 1/lam: -H(m) - ln(lam)/2, the `-0.5*log(eigenvalue) + 0.5*N - H(sample)` bookkeeping)
   log-evidence (same constants dropped): logZ = -d^2/(2 (s2 + r^2)) - ln((s2 + r^2)/s2)/2.        *)
From Coq Require Import Reals Lra.
Local Open Scope R_scope.

Section Mode.
  Variables (d r s2 : R).
  Hypothesis s2_pos : 0 < s2.

  Definition H (xi : R) : R := (d - r * xi) ^ 2 / (2 * s2) + xi ^ 2 / 2.
  Definition lam : R := 1 + r ^ 2 / s2.
  Definition mpost : R := (r * d / s2) / lam.
  Definition elbo (m v : R) : R := - (H m + lam * v / 2) + 1 / 2 + ln v / 2.
  Definition logZ : R := - d ^ 2 / (2 * (s2 + r ^ 2)) - ln ((s2 + r ^ 2) / s2) / 2.

  Lemma lam_pos : 0 < lam.
  Proof.
    unfold lam. assert (0 <= r ^ 2 / s2).
    { apply Rmult_le_pos; [apply pow2_ge_0 | left; apply Rinv_0_lt_compat; exact s2_pos]. }
    lra.
  Qed.
  Lemma lam_eq : lam = (s2 + r ^ 2) / s2.
  Proof. unfold lam. field. lra. Qed.

  (* H is a parabola with curvature lam around the posterior mean *)
  Lemma H_quadratic m : H m = H mpost + lam * (m - mpost) ^ 2 / 2.
  Proof.
    assert (L := lam_pos). unfold H, mpost. rewrite lam_eq in *. 
    assert (0 < s2 + r ^ 2) by (assert (0 <= r ^ 2) by apply pow2_ge_0; lra).
    field. split; lra.
  Qed.
  Lemma H_at_mean : H mpost = d ^ 2 / (2 * (s2 + r ^ 2)).
  Proof.
    unfold H, mpost. rewrite lam_eq.
    assert (0 < s2 + r ^ 2) by (assert (0 <= r ^ 2) by apply pow2_ge_0; lra).
    field. split; lra.
  Qed.

  (* with the exact posterior (m = posterior mean, v = 1/lam) the ELBO IS the log-evidence *)
  Theorem elbo_exact : elbo mpost (/ lam) = logZ.
  Proof.
    assert (L := lam_pos). unfold elbo, logZ. rewrite H_at_mean, ln_Rinv by exact L.
    rewrite <- lam_eq. replace (lam * / lam) with 1 by (symmetry; apply Rinv_r; lra).
    unfold Rdiv. lra.
  Qed.

  Lemma ln_le_minus1 x : 0 < x -> ln x <= x - 1.
  Proof.
    intro Hx. destruct (Req_dec x 1) as [->|Hne]; [rewrite ln_1; lra|].
    assert (E := exp_ineq1 (x - 1) ltac:(lra)).
    left. rewrite <- (ln_exp (x - 1)). apply ln_increasing; [exact Hx | lra].
  Qed.

  (* every Gaussian approximation gives a LOWER bound: logZ - ELBO = KL >= 0 *)
  Theorem elbo_le_evidence m v : 0 < v -> elbo m v <= logZ.
  Proof.
    intro Hv. assert (L := lam_pos). rewrite <- elbo_exact. unfold elbo.
    rewrite (H_quadratic m), ln_Rinv by exact L.
    assert (X := ln_le_minus1 (lam * v) ltac:(apply Rmult_lt_0_compat; assumption)).
    rewrite ln_mult in X by assumption.
    assert (Q : 0 <= lam * (m - mpost) ^ 2 / 2).
    { assert (0 <= (m - mpost) ^ 2) by apply pow2_ge_0. nra. }
    replace (lam * / lam) with 1 by (field; lra). lra.
  Qed.
End Mode.
