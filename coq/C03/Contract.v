(* C03 -- partial contractions of a Linearization over sub-spaces of a product domain with volume elements:
   Linearization.sum(spaces) / .integrate(spaces)  and  Operator.sum(spaces) / .integrate(spaces)
   (ContractionOperator / IntegrationOperator).  NO proofs.
   A field on a product domain is a flat (row-major) vector; [tbl o] lists the flat source indices that are
   contracted into target pixel o; [w] is the product of the volume elements of the integrated sub-spaces
   (1 for sum).  On a Linearization (value v, Jacobian columns J) the method returns the contracted value and the
   contracted columns. *)
From Coq Require Import List Arith Bool.
Import ListNotations.

Section Contract.
  Variable A : Type.
  Variables (a0 : A) (aadd amul : A -> A -> A).

  Fixpoint suml (l : list A) : A := match l with [] => a0 | x :: r => aadd x (suml r) end.

  Definition contract (w : A) (tbl : list (list nat)) (v : nat -> A) : list A :=
    map (fun srcs => amul w (suml (map v srcs))) tbl.

  Definition vecl (l : list A) : nat -> A := fun i => nth i l a0.

  (* value and dense Jacobian (list of columns) after the contraction *)
  Definition lin_contract (w : A) (tbl : list (list nat)) (val : list A) (cols : list (list A)) : list A * list (list A) :=
    (contract w tbl (vecl val), map (fun c => contract w tbl (vecl c)) cols).
End Contract.
