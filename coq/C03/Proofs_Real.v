(* C03 -- real-analysis closure: over R, the dual part of [evalD] (hence, by Proofs.jac_dual, the
   Jacobian the code assembles, applied to a direction) IS the directional derivative of the plain
   evaluation, for every expression tree, every number of pixels and keys, at every point where the
   pointwise functions used are differentiable. *)
From Coq Require Import Reals Lra Lia Arith.
From Coquelicot Require Import Coquelicot.
Require Import NV.C03.Model.
Open Scope R_scope.

Section RealDeriv.
  Variable P : Type.
  Variable ptab : P -> ptw_entry R.
  Variable pdom : P -> R -> Prop.
  Hypothesis ptab_ok : forall p x, pdom p x -> is_derive (pf (ptab p)) x (phd (ptab p) x).

  Notation evalR := (eval R 0 Rplus Rmult Rminus P ptab).
  Notation evalDR := (evalD R 0 1 Rplus Rmult Rminus P ptab).
  Notation sumR := (sumn R 0 Rplus).

  Definition line (r d : env R) (t : R) : env R := fun k i => r k i + t * d k i.

  Fixpoint validAt (e : expr R P) (r : env R) (i : nat) : Prop :=
    match e with
    | Var _ | Const _ _ => True
    | AddC _ _ e | MulC _ e | Scale _ e => validAt e r i
    | Ptw p e => validAt e r i /\ pdom p (evalR e r i)
    | Mul e1 e2 | Add e1 e2 => validAt e1 r i /\ validAt e2 r i
    | Sum n e | Sq2 n e => forall j, (j < n)%nat -> validAt e r j
    | Vdot n e1 e2 => forall j, (j < n)%nat -> validAt e1 r j /\ validAt e2 r j
    end.

  Lemma is_derive_sumn n (f : R -> nat -> R) (g : nat -> R) t :
    (forall j, (j < n)%nat -> is_derive (fun s => f s j) t (g j)) ->
    is_derive (fun s => sumR n (f s)) t (sumR n g).
  Proof.
    induction n; simpl; intros H.
    - apply (is_derive_const 0 t).
    - apply (is_derive_plus (fun s => sumR n (f s)) (fun s => f s n)).
      + apply IHn. intros; apply H; lia.
      + apply H; lia.
  Qed.

  Lemma fstD e r d : forall i, fst (evalDR e r d i) = evalR e r i.
  Proof.
    induction e; simpl; intros i;
      repeat match goal with
             | |- context [evalDR ?e r d i] => destruct (evalDR e r d i) eqn:?
             end; simpl in *; try reflexivity;
      repeat match goal with
             | IH : forall i, fst (evalDR ?e r d i) = _, E : evalDR ?e r d ?i = _ |- _ =>
                 let H := fresh in pose proof (IH i) as H; rewrite E in H; simpl in H; rewrite H; clear E
             end; try reflexivity.
    - clear -IHe. induction n; simpl; [reflexivity | now rewrite IHn, IHe].
    - clear -IHe1 IHe2. induction n; simpl; [reflexivity | now rewrite IHn, IHe1, IHe2].
    - clear -IHe. induction n; simpl; [reflexivity | now rewrite IHn, IHe].
  Qed.

  Lemma directional e r d t : forall i, validAt e (line r d t) i ->
    is_derive (fun s => evalR e (line r d s) i) t (snd (evalDR e (line r d t) d i)).
  Proof.
    induction e; simpl; intros i Hv.
    - unfold line. auto_derive; [exact I | ring].
    - apply (is_derive_const (c i) t).
    - specialize (IHe i Hv). destruct (evalDR e (line r d t) d i) as [v tt]; simpl in *.
      destruct neg; simpl.
      + replace tt with (tt - 0) by ring.
        apply (is_derive_minus (fun s => evalR e (line r d s) i) (fun _ => c i)); [exact IHe|apply (is_derive_const (c i) t)].
      + replace tt with (tt + 0) by ring.
        apply (is_derive_plus (fun s => evalR e (line r d s) i) (fun _ => c i)); [exact IHe|apply (is_derive_const (c i) t)].
    - specialize (IHe i Hv). destruct (evalDR e (line r d t) d i) as [v tt]; simpl in *.
      apply (is_derive_scal (fun s => evalR e (line r d s) i) t (c i) tt IHe).
    - specialize (IHe i Hv). destruct (evalDR e (line r d t) d i) as [v tt]; simpl in *.
      apply (is_derive_scal (fun s => evalR e (line r d s) i) t c tt IHe).
    - destruct Hv as [Hv Hp]. specialize (IHe i Hv). pose proof (fstD e (line r d t) d i) as Hf.
      destruct (evalDR e (line r d t) d i) as [v tt]; simpl in *. subst v.
      rewrite Rmult_comm.
      apply (is_derive_comp (pf (ptab p)) (fun s => evalR e (line r d s) i) t _ _ (ptab_ok p _ Hp) IHe).
    - destruct Hv as [Hv1 Hv2]. specialize (IHe1 i Hv1). specialize (IHe2 i Hv2).
      pose proof (fstD e1 (line r d t) d i) as Hf1. pose proof (fstD e2 (line r d t) d i) as Hf2.
      destruct (evalDR e1 (line r d t) d i) as [v1 t1]; destruct (evalDR e2 (line r d t) d i) as [v2 t2]; simpl in *.
      subst v1 v2.
      replace (evalR e1 (line r d t) i * t2 + evalR e2 (line r d t) i * t1)
        with (t1 * evalR e2 (line r d t) i + evalR e1 (line r d t) i * t2) by ring.
      apply (is_derive_mult (fun s => evalR e1 (line r d s) i) (fun s => evalR e2 (line r d s) i) t t1 t2 IHe1 IHe2).
      intros; apply Rmult_comm.
    - destruct Hv as [Hv1 Hv2]. specialize (IHe1 i Hv1). specialize (IHe2 i Hv2).
      destruct (evalDR e1 (line r d t) d i) as [v1 t1]; destruct (evalDR e2 (line r d t) d i) as [v2 t2]; simpl in *.
      apply (is_derive_plus (fun s => evalR e1 (line r d s) i) (fun s => evalR e2 (line r d s) i) t t1 t2 IHe1 IHe2).
    - apply (is_derive_sumn n (fun s j => evalR e (line r d s) j)). intros j Hj. apply IHe, Hv, Hj.
    - apply (is_derive_sumn n (fun s j => evalR e1 (line r d s) j * evalR e2 (line r d s) j)). intros j Hj.
      destruct (Hv j Hj) as [Hv1 Hv2]. rewrite !fstD.
      replace (evalR e1 (line r d t) j * snd (evalDR e2 (line r d t) d j) + evalR e2 (line r d t) j * snd (evalDR e1 (line r d t) d j))
        with (snd (evalDR e1 (line r d t) d j) * evalR e2 (line r d t) j + evalR e1 (line r d t) j * snd (evalDR e2 (line r d t) d j)) by ring.
      apply (is_derive_mult (fun s => evalR e1 (line r d s) j) (fun s => evalR e2 (line r d s) j) t _ _ (IHe1 j Hv1) (IHe2 j Hv2)).
      intros; apply Rmult_comm.
    - apply (is_derive_sumn n (fun s j => evalR e (line r d s) j * evalR e (line r d s) j)). intros j Hj.
      specialize (IHe j (Hv j Hj)). rewrite !fstD. unfold two.
      replace ((1 + 1) * evalR e (line r d t) j * snd (evalDR e (line r d t) d j))
        with (snd (evalDR e (line r d t) d j) * evalR e (line r d t) j + evalR e (line r d t) j * snd (evalDR e (line r d t) d j)) by ring.
      apply (is_derive_mult (fun s => evalR e (line r d s) j) (fun s => evalR e (line r d s) j) t _ _ IHe IHe).
      intros; apply Rmult_comm.
  Qed.
End RealDeriv.
