(* C03 -- model of nifty/cl/operators/einsum.py: MultiLinearEinsum.  NO proofs.
   out[o] = sum over the assignments of the contracted letters of  prod_p operand_p[letters of p],
   operands in the order of `key_order`.  Jacobian w.r.t. the operand at position p (MultiLinearEinsum.apply:
   `LinearEinsum(domain[wrt], mf_wo_k, ss, key_order=tuple(plc.keys()))`): the same contraction with operand p
   replaced by the tangent (the other operands keep THEIR subscripts, in key_order). *)
From Coq Require Import List Arith Bool.
Import ListNotations.

Section Ein.
  Variable A : Type.
  Variables (a0 a1 : A) (aadd amul : A -> A -> A).

  Definition tensor := list nat -> A.            (* multi-index -> entry *)
  Definition asg := nat -> nat.                  (* letter -> value *)
  Definition upd (s : asg) (l v : nat) : asg := fun l' => if l' =? l then v else s l'.

  Fixpoint sumn (n : nat) (f : nat -> A) : A := match n with 0 => a0 | S m => aadd (sumn m f) (f m) end.

  (* sum over all assignments of the letters [ls] (letter l ranges over dim l) *)
  Fixpoint sum_over (ls : list nat) (dim : nat -> nat) (s : asg) (f : asg -> A) : A :=
    match ls with
    | [] => f s
    | l :: r => sumn (dim l) (fun v => sum_over r dim (upd s l v) f)
    end.

  Fixpoint prodl (l : list A) : A := match l with [] => a1 | x :: r => amul x (prodl r) end.

  (* the term under the sum: product of the operands at the assigned indices *)
  Definition term (iss : list (list nat)) (ops : list tensor) (s : asg) : A :=
    prodl (map (fun p => snd p (map s (fst p))) (combine iss ops)).

  Fixpoint bind (ls : list nat) (vs : list nat) (s : asg) : asg :=
    match ls, vs with l :: lr, v :: vr => bind lr vr (upd s l v) | _, _ => s end.

  (* iss: letters of each operand (key_order), oss: output letters, summed: the contracted letters *)
  Definition ein (iss : list (list nat)) (oss summed : list nat) (dim : nat -> nat) (ops : list tensor) : tensor :=
    fun oidx => sum_over summed dim (bind oss oidx (fun _ => 0)) (term iss ops).

  Fixpoint replace (p : nat) (x : tensor) (ops : list tensor) : list tensor :=
    match ops, p with
    | [], _ => []
    | _ :: r, 0 => x :: r
    | o :: r, S q => o :: replace q x r
    end.

  (* Jacobian block for operand p applied to the tangent d *)
  Definition ein_jac (iss : list (list nat)) (oss summed : list nat) (dim : nat -> nat) (ops : list tensor)
             (p : nat) (d : tensor) : tensor := ein iss oss summed dim (replace p d ops).

  (* total directional derivative: sum of the blocks *)
  Fixpoint jac_total_term (iss : list (list nat)) (ops ds : list tensor) (s : asg) : A :=
    match iss, ops, ds with
    | i :: ir, o :: orr, d :: dr =>
        aadd (amul (d (map s i)) (prodl (map (fun p => snd p (map s (fst p))) (combine ir orr))))
             (amul (o (map s i)) (jac_total_term ir orr dr s))
    | _, _, _ => a0
    end.

  (* dual-number product of the perturbed operands: (value, tangent) *)
  Fixpoint dterm (iss : list (list nat)) (ops ds : list tensor) (s : asg) : A * A :=
    match iss, ops, ds with
    | i :: ir, o :: orr, d :: dr =>
        let (v, t) := dterm ir orr dr s in
        (amul (o (map s i)) v, aadd (amul (o (map s i)) t) (amul (d (map s i)) v))
    | _, _, _ => (a1, a0)
    end.

  (* ---- flat (row-major) tensors for the correspondence ----------------------------------------------- *)
  Fixpoint ravel (shape idx : list nat) : nat :=
    match shape, idx with
    | _ :: sr, i :: ir => i * fold_right Nat.mul 1 sr + ravel sr ir
    | _, _ => 0
    end.
  Definition of_flat (shape : list nat) (flat : list A) : tensor := fun idx => nth (ravel shape idx) flat a0.
  Fixpoint all_idx (shape : list nat) : list (list nat) :=
    match shape with
    | [] => [[]]
    | n :: r => flat_map (fun i => map (cons i) (all_idx r)) (seq 0 n)
    end.
  Definition to_flat (shape : list nat) (t : tensor) : list A := map t (all_idx shape).
  Definition basis_t (shape : list nat) (e : nat) : tensor := fun idx => if ravel shape idx =? e then a1 else a0.
  Definition size (shape : list nat) : nat := fold_right Nat.mul 1 shape.
End Ein.
