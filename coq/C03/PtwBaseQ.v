(* C03 -- base vocabulary of the exact (rational) pointwise table Gen_PtwQ.v.  No proofs. *)
From Coq Require Import ZArith QArith Qabs Bool.
Open Scope Q_scope.

Definition Qlt_b (a b : Q) : bool := negb (Qle_bool b a).
Definition Qsign (x : Q) : Q :=
  match Qnum x with Z0 => 0 | Zpos _ => 1 | Zneg _ => -(1) end.
Definition NaN_Q : Q := 0.
Definition Undef_Q : Q := 0.

(* PARTIAL exact primitives (used by C04 only, on inputs inside the stated sets):
   square root, exact on p/q with p and q perfect squares (0 elsewhere); natural logarithm, exact only
   at 1 (the constant 0).  The checks that use them keep their inputs inside these sets. *)
Definition Qsqrt_exact (x : Q) : Q :=
  let n := Z.sqrt (Qnum x) in
  let d := Pos.sqrt (Qden x) in
  if ((n * n =? Qnum x)%Z && (d * d =? Qden x)%positive)%bool then n # d else 0.
Definition Qlog_at1 (x : Q) : Q := 0.
