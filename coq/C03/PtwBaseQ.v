(* C03 -- base vocabulary of the exact (rational) pointwise table Gen_PtwQ.v.  No proofs. *)
From Coq Require Import ZArith QArith Qabs Bool.
Open Scope Q_scope.

Definition Qlt_b (a b : Q) : bool := negb (Qle_bool b a).
Definition Qsign (x : Q) : Q :=
  match Qnum x with Z0 => 0 | Zpos _ => 1 | Zneg _ => -(1) end.
Definition NaN_Q : Q := 0.
Definition Undef_Q : Q := 0.
