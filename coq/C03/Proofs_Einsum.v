(* C03 -- MultiLinearEinsum: the sum of the per-operand Jacobian blocks the code assembles, applied to a tangent,
   is the dual (forward-mode) part of the contraction with every operand perturbed -- any commutative ring, any
   subscripts, any number of operands, any order of the operands. *)
From Coq Require Import List Arith Bool Lia Ring Setoid.
Import ListNotations.
Require Import NV.C03.Einsum.

Section EinProofs.
  Variable A : Type.
  Variables (a0 a1 : A) (aadd amul asub : A -> A -> A) (aopp : A -> A).
  Variable Rth : ring_theory a0 a1 aadd amul asub aopp (@eq A).
  Add Ring Aring : Rth.

  Notation tensor := (tensor A).
  Notation sumn := (sumn A a0 aadd).
  Notation sum_over := (sum_over A a0 aadd).
  Notation prodl := (prodl A a1 amul).
  Notation term := (term A a1 amul).
  Notation ein := (ein A a0 a1 aadd amul).
  Notation ein_jac := (ein_jac A a0 a1 aadd amul).
  Notation jtt := (jac_total_term A a0 a1 aadd amul).
  Notation dterm := (dterm A a0 a1 aadd amul).
  Notation replace := (replace A).
  Infix "+" := aadd. Infix "*" := amul.

  Lemma sumn_ext n f g : (forall j, f j = g j) -> sumn n f = sumn n g.
  Proof. intros H; induction n; simpl; [reflexivity | now rewrite IHn, H]. Qed.
  Lemma sumn_add n f g : sumn n (fun j => f j + g j) = sumn n f + sumn n g.
  Proof. induction n; simpl; [ring | rewrite IHn; ring]. Qed.
  Lemma sumn_scal n c f : sumn n (fun j => c * f j) = c * sumn n f.
  Proof. induction n; simpl; [ring | rewrite IHn; ring]. Qed.
  Lemma sumn_shift n f : sumn (S n) f = f 0 + sumn n (fun j => f (S j)).
  Proof. induction n; [simpl; ring|]. change (sumn (S (S n)) f) with (sumn (S n) f + f (S n)). rewrite IHn. simpl. ring. Qed.

  Lemma sum_over_ext ls dim : forall s f g, (forall s', f s' = g s') -> sum_over ls dim s f = sum_over ls dim s g.
  Proof. induction ls; simpl; intros s f g H; [apply H|]. apply sumn_ext; intros v. now apply IHls. Qed.
  Lemma sum_over_add ls dim : forall s f g,
    sum_over ls dim s (fun s' => f s' + g s') = sum_over ls dim s f + sum_over ls dim s g.
  Proof.
    induction ls; simpl; intros s f g; [reflexivity|].
    rewrite <- sumn_add. apply sumn_ext; intros v. apply IHls.
  Qed.
  Lemma sum_over_zero ls dim : forall s, sum_over ls dim s (fun _ => a0) = a0.
  Proof.
    induction ls; simpl; intros s; [reflexivity|].
    rewrite (sumn_ext _ _ (fun _ => a0)) by (intros; apply IHls). induction (dim a); simpl; [reflexivity | rewrite IHn; ring].
  Qed.
  Lemma sum_over_sumn ls dim n : forall s (F : nat -> asg -> A),
    sumn n (fun p => sum_over ls dim s (F p)) = sum_over ls dim s (fun s' => sumn n (fun p => F p s')).
  Proof.
    induction n; intros s F; simpl; [now rewrite sum_over_zero|].
    rewrite IHn. now rewrite <- sum_over_add.
  Qed.

  (* value part of the dual product = the plain term; tangent part = the sum of the blocks, pointwise *)
  Lemma dterm_fst iss : forall ops ds s, length ops = length iss -> length ds = length iss ->
    fst (dterm iss ops ds s) = term iss ops s.
  Proof.
    unfold Einsum.term. induction iss as [|i ir IH]; intros [|o orr] [|d dr] s Ho Hd; simpl in *; try discriminate; [reflexivity|].
    specialize (IH orr dr s (f_equal pred Ho) (f_equal pred Hd)). destruct (dterm ir orr dr s); simpl in *. now rewrite IH.
  Qed.

  Lemma dterm_snd iss : forall ops ds s, length ops = length iss -> length ds = length iss ->
    snd (dterm iss ops ds s) = jtt iss ops ds s.
  Proof.
    induction iss as [|i ir IH]; intros [|o orr] [|d dr] s Ho Hd; simpl in *; try discriminate; [reflexivity|].
    pose proof (dterm_fst ir orr dr s (f_equal pred Ho) (f_equal pred Hd)) as F.
    specialize (IH orr dr s (f_equal pred Ho) (f_equal pred Hd)). unfold Einsum.term in F.
    destruct (dterm ir orr dr s); simpl in *. rewrite IH, F. ring.
  Qed.

  Lemma blocks_sum iss : forall ops ds s (z : tensor), length ops = length iss -> length ds = length iss ->
    sumn (length iss) (fun p => term iss (replace p (nth p ds z) ops) s) = jtt iss ops ds s.
  Proof.
    unfold Einsum.term. induction iss as [|i ir IH]; intros [|o orr] [|d dr] s z Ho Hd; simpl length in *; try discriminate; [reflexivity|].
    rewrite sumn_shift. simpl.
    rewrite sumn_scal. rewrite (IH orr dr s z (f_equal pred Ho) (f_equal pred Hd)). ring.
  Qed.

  (* the assembled Jacobian (sum over the operands of the blocks) applied to the tangents = dual part *)
  Lemma ein_jacobian_dual iss oss summed dim ops ds (z : tensor) oidx :
    length ops = length iss -> length ds = length iss ->
    sumn (length iss) (fun p => ein_jac iss oss summed dim ops p (nth p ds z) oidx)
    = sum_over summed dim (bind oss oidx (fun _ => 0)) (fun s => snd (dterm iss ops ds s))
    /\ ein iss oss summed dim ops oidx
       = sum_over summed dim (bind oss oidx (fun _ => 0)) (fun s => fst (dterm iss ops ds s)).
  Proof.
    intros Ho Hd. unfold Einsum.ein_jac, Einsum.ein. split.
    - rewrite sum_over_sumn. apply sum_over_ext; intros s. rewrite dterm_snd by assumption. now apply blocks_sum.
    - apply sum_over_ext; intros s. now rewrite dterm_fst.
  Qed.
End EinProofs.
