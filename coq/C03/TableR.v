(* C03 -- the generated pointwise table (Gen_Ptw.v) packaged as a [ptab] for the real instance of the
   algebra model, with each entry's natural open domain.  No proofs. *)
From Coq Require Import Reals.
From Coquelicot Require Import Coquelicot.
Require Import NV.C03.Model NV.C03.PtwBase NV.C03.Gen_Ptw.
Open Scope R_scope.

Inductive rname :=
| Nsqrt | Nsin | Ncos | Ntan | Nsinc | Nexp | Nexpm1 | Nlog | Nlog10 | Nlog1p | Nsinh | Ncosh | Ntanh
| Nsigmoid | Nreciprocal | Nabs | Nabsolute | Nsign | Npower (expo : R) | Nclip (a_min a_max : R)
| Nsoftplus | Nexponentiate (base : R) | Narctan | Nunitstep.

Definition rtab (p : rname) : ptw_entry R :=
  match p with
  | Nsqrt => Build_ptw_entry ptwp_sqrt ptw_sqrt dptw_sqrt
  | Nsin => Build_ptw_entry ptwp_sin ptw_sin dptw_sin
  | Ncos => Build_ptw_entry ptwp_cos ptw_cos dptw_cos
  | Ntan => Build_ptw_entry ptwp_tan ptw_tan dptw_tan
  | Nsinc => Build_ptw_entry ptwp_sinc ptw_sinc dptw_sinc
  | Nexp => Build_ptw_entry ptwp_exp ptw_exp dptw_exp
  | Nexpm1 => Build_ptw_entry ptwp_expm1 ptw_expm1 dptw_expm1
  | Nlog => Build_ptw_entry ptwp_log ptw_log dptw_log
  | Nlog10 => Build_ptw_entry ptwp_log10 ptw_log10 dptw_log10
  | Nlog1p => Build_ptw_entry ptwp_log1p ptw_log1p dptw_log1p
  | Nsinh => Build_ptw_entry ptwp_sinh ptw_sinh dptw_sinh
  | Ncosh => Build_ptw_entry ptwp_cosh ptw_cosh dptw_cosh
  | Ntanh => Build_ptw_entry ptwp_tanh ptw_tanh dptw_tanh
  | Nsigmoid => Build_ptw_entry ptwp_sigmoid ptw_sigmoid dptw_sigmoid
  | Nreciprocal => Build_ptw_entry ptwp_reciprocal ptw_reciprocal dptw_reciprocal
  | Nabs => Build_ptw_entry ptwp_abs ptw_abs dptw_abs
  | Nabsolute => Build_ptw_entry ptwp_absolute ptw_absolute dptw_absolute
  | Nsign => Build_ptw_entry ptwp_sign ptw_sign dptw_sign
  | Npower e => Build_ptw_entry (ptwp_power e) (ptw_power e) (dptw_power e)
  | Nclip a b => Build_ptw_entry (ptwp_clip a b) (ptw_clip a b) (dptw_clip a b)
  | Nsoftplus => Build_ptw_entry ptwp_softplus ptw_softplus dptw_softplus
  | Nexponentiate b => Build_ptw_entry (ptwp_exponentiate b) (ptw_exponentiate b) (dptw_exponentiate b)
  | Narctan => Build_ptw_entry ptwp_arctan ptw_arctan dptw_arctan
  | Nunitstep => Build_ptw_entry ptwp_unitstep ptw_unitstep dptw_unitstep
  end.

(* where the entry is claimed differentiable with the tabulated derivative *)
Definition rdom (p : rname) (x : R) : Prop :=
  match p with
  | Nsqrt | Nlog | Nlog10 => 0 < x
  | Npower _ => 0 < x                      (* real exponent: Rpower; integer exponents are covered over Q *)
  | Ntan => cos x <> 0
  | Nlog1p => -1 < x
  | Nreciprocal | Nabs | Nabsolute | Nsign | Nunitstep => x <> 0
  | Nclip a b => a < b /\ x <> a /\ x <> b
  | Nsoftplus => x <> 33 /\ x <> -33        (* the three branches do not join continuously *)
  | Nexponentiate b => 0 < b
  | _ => True
  end.
