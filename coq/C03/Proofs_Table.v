(* C03 -- the generated table satisfies the two hypotheses of the algebra theorems over R. *)
From Coq Require Import Reals Lra.
From Coquelicot Require Import Coquelicot.
From Coq Require Import RealField.
Require Import NV.C03.Proofs.
Require Import NV.C03.Model NV.C03.PtwBase NV.C03.Gen_Ptw NV.C03.Proofs_Ptw NV.C03.TableR NV.C03.Proofs_Real.
Open Scope R_scope.

Lemma rtab_pure : forall p x, pf (rtab p) x = phf (rtab p) x.
Proof.
  pose proof v_all as H. decompose [and] H; clear H.
  intros [] x; simpl; auto.
Qed.

Lemma rtab_ok : forall p x, rdom p x -> is_derive (pf (rtab p)) x (phd (rtab p) x).
Proof.
  intros p x Hd.
  apply (is_derive_ext (phf (rtab p))); [intros t; symmetry; apply rtab_pure|].
  destruct p; simpl in *.
  - now apply d_sqrt.
  - apply d_sin.
  - apply d_cos.
  - now apply d_tan.
  - apply d_sinc_all.
  - apply d_exp.
  - apply d_expm1.
  - now apply d_log.
  - now apply d_log10.
  - now apply d_log1p.
  - apply d_sinh.
  - apply d_cosh.
  - apply d_tanh.
  - apply d_sigmoid.
  - now apply d_reciprocal.
  - now apply d_abs.
  - now apply d_absolute.
  - now apply d_sign.
  - now apply d_power.
  - destruct Hd as (H1 & H2 & H3). now apply d_clip.
  - destruct Hd as (H1 & H2). now apply d_softplus.
  - now apply d_exponentiate.
  - apply d_arctan.
  - now apply d_unitstep.
Qed.

(* For every expression over the real table: the directional derivative of plain evaluation along d
   exists and is the dual part. *)
Lemma directional_table (e : expr R rname) r d t i :
  validAt rname rtab rdom e (line r d t) i ->
  is_derive (fun s => eval R 0 Rplus Rmult Rminus rname rtab e (line r d s) i) t
            (snd (evalD R 0 1 Rplus Rmult Rminus rname rtab e (line r d t) d i)).
Proof. apply directional. exact rtab_ok. Qed.

Lemma jacobian_is_derivative (om : bool) (e : expr R rname) r d t i :
  validAt rname rtab rdom e (line r d t) i ->
  is_derive (fun s => eval R 0 Rplus Rmult Rminus rname rtab e (line r d s) i) t
            (times R 0 Rplus Rmult (snd (lin R 0 1 Rplus Rmult Rminus rname rtab om e (line r d t))) d i).
Proof.
  intros H.
  rewrite (NV.C03.Proofs.jac_dual R 0 1 Rplus Rmult Rminus Ropp RTheory rname rtab rtab_pure om e (line r d t) d i).
  now apply directional_table.
Qed.

Lemma valid_example :
  validAt rname rtab rdom
    (Sum 2 (Mul (Ptw Nabs (Var 0)) (Ptw Nexp (Var 1))))
    (line (fun k i => 1) (fun k i => 1) 0) 0.
Proof. simpl. intros j Hj. unfold line. repeat split; lra. Qed.
