(* C03 -- hand-written base vocabulary of the generated pointwise table (Gen_Ptw.v).  No proofs.
   NumPy comparisons on float arrays become decidable comparisons on R (boolean valued so that the
   generated [if]s, [negb], [orb] mirror the masks of pointwise.py). *)
From Coq Require Import Reals Bool.
From Coquelicot Require Import Coquelicot.
Open Scope R_scope.

Definition Req_b (a b : R) : bool := if Req_EM_T a b then true else false.
Definition Rlt_b (a b : R) : bool := if Rlt_dec a b then true else false.
Definition Rle_b (a b : R) : bool := if Rle_dec a b then true else false.

(* [np.nan] marks "no derivative here" (abs, sign at 0).  The theorems exclude those points by
   hypothesis; the value chosen for the marker is irrelevant. *)
Definition NaN_R : R := 0.
(* [np.empty_like]: an element no masked store has written.  Every theorem about a function whose
   definition mentions [Undef_R] is proved on regions where a store has happened. *)
Definition Undef_R : R := 0.

(* numpy.sinc: sin(pi x)/(pi x), and 1 at 0 (NumPy documentation). *)
Definition np_sinc (x : R) : R := if Req_EM_T x 0 then 1 else sin (PI * x) / (PI * x).
