(* C03 -- executable model of NIFTy's operator/Linearization algebra (nifty/cl/linearization.py,
   nifty/cl/operators/operator.py, energy_operators.py).  NO proofs in this file.

   Fields are index functions [nat -> A] over an arbitrary carrier [A] (a commutative ring in the
   proofs; Q in the correspondence check; R in the real-analysis closure).  Multi-fields are
   [key -> field] with keys = nat.  Sizes appear only where the code contracts ([sum], [vdot]).

   Three evaluators over the same expression language:
     eval   plain evaluation                      op(x)              (Field in, Field out)
     lin    value + Jacobian AS THE CODE ASSEMBLES IT   op(Linearization.make_var(x))
     evalD  dual numbers (forward mode), the reference semantics of "derivative"           *)
From Coq Require Import List Arith Bool.
Import ListNotations.

Section Alg.
  Variable A : Type.
  Variables (a0 a1 ahalf : A) (aadd amul asub : A -> A -> A).
  Variable anonneg : A -> bool.          (* [np.isreal(f) and f >= 0] of ScalingOperator.__call__ *)

  (* One entry of pointwise.ptw_dict:  name: (plain, helper)  with  helper(v) = (value, derivative).
     [Field.ptw] uses ptw_dict[op][0], [Field.ptw_with_deriv] uses ptw_dict[op][1] (any_array.py). *)
  Record ptw_entry := { pf : A -> A; phf : A -> A; phd : A -> A }.
  Variable P : Type.                     (* names (with parameters) of pointwise functions *)
  Variable ptab : P -> ptw_entry.

  Definition vec := nat -> A.
  Definition env := nat -> vec.

  Fixpoint sumn (n : nat) (f : vec) : A :=
    match n with 0 => a0 | S m => aadd (sumn m f) (f m) end.

  Definition two : A := aadd a1 a1.

  (* ---- expressions ------------------------------------------------------------------------ *)
  Inductive expr :=
  | Var (k : nat)                         (* FieldAdapter(dom, key)  /  Linearization.__getitem__ *)
  | Const (m : nat) (c : vec)             (* ConstantOperator(c)  (simplify_for_const.py) *)
  | AddC (neg : bool) (c : vec) (e : expr)  (* Adder(c, neg) @ e      op + field / op - field *)
  | MulC (c : vec) (e : expr)             (* makeOp(c) @ e          op * field *)
  | Scale (c : A) (e : expr)              (* e.scale(c)             ScalingOperator(c) @ e *)
  | Ptw (p : P) (e : expr)                (* e.ptw(name, ...)       _OpChain(_FunctionApplier, e) *)
  | Mul (e1 e2 : expr)                    (* _OpProd(e1, e2)        / Linearization.__mul__ *)
  | Add (e1 e2 : expr)                    (* _OpSum(e1, e2)         / Linearization.__add__ *)
  | Sum (n : nat) (e : expr)              (* e.sum()                ContractionOperator @ e *)
  | Vdot (n : nat) (e1 e2 : expr)         (* e1.vdot(e2)            Operator.vdot / Linearization.vdot *)
  | Sq2 (n : nat) (e : expr).             (* Squared2NormOperator(dom) @ e *)

  Definition addsub (neg : bool) (x y : A) : A := if neg then asub x y else aadd x y.

  Fixpoint eval (e : expr) (r : env) : vec :=
    match e with
    | Var k => r k
    | Const _ c => c
    | AddC neg c e => fun i => addsub neg (eval e r i) (c i)
    | MulC c e => fun i => amul (c i) (eval e r i)
    | Scale c e => fun i => amul c (eval e r i)
    | Ptw p e => fun i => pf (ptab p) (eval e r i)
    | Mul e1 e2 => fun i => amul (eval e1 r i) (eval e2 r i)
    | Add e1 e2 => fun i => aadd (eval e1 r i) (eval e2 r i)
    | Sum n e => fun _ => sumn n (eval e r)
    | Vdot n e1 e2 => fun _ => sumn n (fun j => amul (eval e1 r j) (eval e2 r j))
    | Sq2 n e => fun _ => sumn n (fun j => amul (eval e r j) (eval e r j))
    end.

  (* ---- linear operators the Jacobians are made of ------------------------------------------ *)
  Inductive lop1 :=                       (* field -> field *)
  | D (d : vec)                           (* DiagonalOperator = makeOp(d) *)
  | Sc (c : A)                            (* ScalingOperator *)
  | Contract (n : nat)                    (* ContractionOperator(target, None) *)
  | Vd (n : nat) (a : vec).               (* VdotOperator(a) *)

  Inductive jop :=                        (* multi-field -> field *)
  | JX (k : nat)                          (* FieldAdapter(dom, k) *)
  | JNull (m : nat)                       (* NullOperator(domain, target) *)
  | JCh (a : lop1) (b : jop)              (* a @ b *)
  | JAd (a b : jop)                       (* a._myadd(b, False)   (SumOperator) *)
  | JMask (cs : nat -> bool) (a : jop).   (* a @ BlockDiagonal(k: Scaling(0 if cs k else 1))
                                             (make_partial_var, InsertionOperator._jac; used by C04) *)

  Definition times1 (a : lop1) (x : vec) : vec :=
    match a with
    | D d => fun i => amul (d i) (x i)
    | Sc c => fun i => amul c (x i)
    | Contract n => fun _ => sumn n x
    | Vd n a => fun _ => sumn n (fun j => amul (a j) (x j))
    end.

  (* adjoint (= transpose over a commutative ring; conjugation is outside this model) *)
  Definition adj1 (a : lop1) (y : vec) : vec :=
    match a with
    | D d => fun i => amul (d i) (y i)
    | Sc c => fun i => amul c (y i)
    | Contract n => fun _ => y 0
    | Vd n a => fun i => amul (a i) (y 0)
    end.

  Fixpoint times (J : jop) (d : env) : vec :=
    match J with
    | JX k => d k
    | JNull _ => fun _ => a0
    | JCh a b => times1 a (times b d)
    | JAd a b => fun i => aadd (times a d i) (times b d i)
    | JMask cs a => times a (fun k => if cs k then fun _ => a0 else d k)
    end.

  Definition ezero : env := fun _ _ => a0.
  Definition eadd (x y : env) : env := fun k i => aadd (x k i) (y k i).

  Fixpoint adj (J : jop) (y : vec) : env :=
    match J with
    | JX k => fun k' => if k' =? k then y else fun _ => a0
    | JNull _ => ezero
    | JCh a b => adj b (adj1 a y)
    | JAd a b => eadd (adj a y) (adj b y)
    | JMask cs a => fun k => if cs k then fun _ => a0 else adj a y k
    end.

  (* ---- value + Jacobian as the code assembles them ------------------------------------------
     Operator.__call__(x) for a Linearization x:
         return self.apply(x.trivial_jac()).prepend_jac(x.jac)
     i.e. every operator sees an identity Jacobian and the result's Jacobian is composed with the
     incoming one (prepend_jac: `self._jac @ jac`, with the isIdentity short cuts).  Below, [J] is
     the incoming Jacobian of the sub-expression and the outer factor is what [apply] builds.
     [om = true]: operator objects (_OpProd.apply / Operator.vdot);  [om = false]: the
     Linearization methods (__mul__ / vdot) called directly.  They differ in the order of the
     product-rule summands and in how vdot is built. *)
  Fixpoint lin (om : bool) (e : expr) (r : env) : vec * jop :=
    match e with
    | Var k => (r k, JX k)
        (* LinearOperator.__call__: x.new(self(x._val), self).prepend_jac(x.jac) *)
    | Const m c => (c, JNull m)
        (* ConstantOperator.apply: x.new(self._output, NullOperator(domain, target)) *)
    | AddC neg c e =>
        let (v, J) := lin om e r in (fun i => addsub neg (v i) (c i), J)
        (* Linearization._myadd, other.jac is None: new(val -/+ other, self._jac, self._metric) *)
    | MulC c e =>
        let (v, J) := lin om e r in (fun i => amul (c i) (v i), JCh (D c) J)
    | Scale c e =>
        let (v, J) := lin om e r in (fun i => amul c (v i), JCh (Sc c) J)
    | Ptw p e =>
        let (v, J) := lin om e r in
        (* Linearization.ptw: t1, t2 = self._val.ptw_with_deriv(op, ...)
                              return self.new(t1, makeOp(t2)(self._jac))          *)
        (fun i => phf (ptab p) (v i), JCh (D (fun i => phd (ptab p) (v i))) J)
    | Mul e1 e2 =>
        let (v1, J1) := lin om e1 r in
        let (v2, J2) := lin om e2 r in
        (fun i => amul (v1 i) (v2 i),
         if om
         then (* _OpProd.apply: (makeOp(lin1._val)(lin2._jac))._myadd(makeOp(lin2._val)(lin1._jac), False) *)
              JAd (JCh (D v1) J2) (JCh (D v2) J1)
         else (* Linearization.__mul__: (other.val*self.jac)._myadd(self.val*other.jac, False) *)
              JAd (JCh (D v2) J1) (JCh (D v1) J2))
    | Add e1 e2 =>
        let (v1, J1) := lin om e1 r in
        let (v2, J2) := lin om e2 r in
        (* _OpSum._apply_operator_sum: jac = reduce(lambda x, y: x._myadd(y, False), jacs) *)
        (fun i => aadd (v1 i) (v2 i), JAd J1 J2)
    | Sum n e =>
        let (v, J) := lin om e r in
        (* Linearization.sum: new(self._val.sum(spaces), ContractionOperator(...)(self._jac)) *)
        (fun _ => sumn n v, JCh (Contract n) J)
    | Vdot n e1 e2 =>
        let (v1, J1) := lin om e1 r in
        let (v2, J2) := lin om e2 r in
        (fun _ => sumn n (fun j => amul (v1 j) (v2 j)),
         if om
         then (* Operator.vdot: res = self.conjugate()*other; return res.sum()   (real fields) *)
              JCh (Contract n) (JAd (JCh (D v1) J2) (JCh (D v2) J1))
         else (* Linearization.vdot: VdotOperator(self._val)(other._jac) + VdotOperator(other._val)(self._jac) *)
              JAd (JCh (Vd n v1) J2) (JCh (Vd n v2) J1))
    | Sq2 n e =>
        let (v, J) := lin om e r in
        (* Squared2NormOperator.apply: x.new(x.val.vdot(x.val), VdotOperator(2*x.val)) *)
        (fun _ => sumn n (fun j => amul (v j) (v j)), JCh (Vd n (fun j => amul two (v j))) J)
    end.

  (* ---- dual numbers -------------------------------------------------------------------------- *)
  Fixpoint evalD (e : expr) (r d : env) : nat -> A * A :=
    match e with
    | Var k => fun i => (r k i, d k i)
    | Const _ c => fun i => (c i, a0)
    | AddC neg c e => fun i => let (v, t) := evalD e r d i in (addsub neg v (c i), t)
    | MulC c e => fun i => let (v, t) := evalD e r d i in (amul (c i) v, amul (c i) t)
    | Scale c e => fun i => let (v, t) := evalD e r d i in (amul c v, amul c t)
    | Ptw p e => fun i => let (v, t) := evalD e r d i in (pf (ptab p) v, amul (phd (ptab p) v) t)
    | Mul e1 e2 => fun i =>
        let (v1, t1) := evalD e1 r d i in let (v2, t2) := evalD e2 r d i in
        (amul v1 v2, aadd (amul v1 t2) (amul v2 t1))
    | Add e1 e2 => fun i =>
        let (v1, t1) := evalD e1 r d i in let (v2, t2) := evalD e2 r d i in (aadd v1 v2, aadd t1 t2)
    | Sum n e => fun _ => (sumn n (fun j => fst (evalD e r d j)), sumn n (fun j => snd (evalD e r d j)))
    | Vdot n e1 e2 => fun _ =>
        (sumn n (fun j => amul (fst (evalD e1 r d j)) (fst (evalD e2 r d j))),
         sumn n (fun j => aadd (amul (fst (evalD e1 r d j)) (snd (evalD e2 r d j)))
                               (amul (fst (evalD e2 r d j)) (snd (evalD e1 r d j)))))
    | Sq2 n e => fun _ =>
        (sumn n (fun j => amul (fst (evalD e r d j)) (fst (evalD e r d j))),
         sumn n (fun j => amul (amul two (fst (evalD e r d j))) (snd (evalD e r d j))))
    end.

  (* ---- shapes (needed only for the adjointness statement) ------------------------------------ *)
  Definition oshape1 (a : lop1) (m : nat) : option nat :=
    match a with
    | D _ | Sc _ => Some m
    | Contract n | Vd n _ => if n =? m then Some 1 else None
    end.

  Fixpoint jshape (K : nat) (dims : nat -> nat) (J : jop) : option nat :=
    match J with
    | JX k => if k <? K then Some (dims k) else None
    | JNull m => Some m
    | JCh a b => match jshape K dims b with Some m => oshape1 a m | None => None end
    | JAd a b => match jshape K dims a, jshape K dims b with
                 | Some m, Some m' => if m =? m' then Some m else None
                 | _, _ => None end
    | JMask _ a => jshape K dims a
    end.

  Fixpoint eshape (K : nat) (dims : nat -> nat) (e : expr) : option nat :=
    match e with
    | Var k => if k <? K then Some (dims k) else None
    | Const m _ => Some m
    | AddC _ _ e | MulC _ e | Scale _ e | Ptw _ e => eshape K dims e
    | Mul e1 e2 | Add e1 e2 =>
        match eshape K dims e1, eshape K dims e2 with
        | Some m, Some m' => if m =? m' then Some m else None
        | _, _ => None end
    | Sum n e | Sq2 n e =>
        match eshape K dims e with Some m => if n =? m then Some 1 else None | None => None end
    | Vdot n e1 e2 =>
        match eshape K dims e1, eshape K dims e2 with
        | Some m, Some m' => if (n =? m) && (n =? m') then Some 1 else None
        | _, _ => None end
    end.

  Definition dotn (n : nat) (x y : vec) : A := sumn n (fun j => amul (x j) (y j)).
  Definition dotE (K : nat) (dims : nat -> nat) (x y : env) : A :=
    sumn K (fun k => dotn (dims k) (x k) (y k)).

  (* ---- energies and the metric ------------------------------------------------------------------
     GaussianEnergy(data, inverse_covariance = makeOp(icov)) @ e, scaled and added.            *)
  Inductive energy :=
  | EGauss (n : nat) (data : option vec) (icov : option vec) (e : expr)
  | EScale (c : A) (h : energy)
  | EAdd (h1 h2 : energy)
  (* Linearization-level arithmetic on an energy's Linearization (inside a user-written apply):  *)
  | EShift (neg : bool) (c : A) (h : energy)   (* lin + c / lin - c,  c a scalar or a scalar Field  (Linearization._myadd) *)
  | ELScale (c : A) (h : energy).              (* lin * c,  c a scalar                                (Linearization.__mul__) *)

  Inductive mop :=
  | MSand (J : jop) (M : lop1)            (* SandwichOperator.make(J, M) = J^dagger M J  (prepend_jac) *)
  | MScale (c : A) (m : mop)              (* SandwichOperator.make(Scaling(sqrt c), m)   (ScalingOperator.__call__) *)
  | MAdd (m1 m2 : mop)                    (* reduce(add, metrics)                         (_apply_operator_sum) *)
  | MMask (cs : nat -> bool) (m : mop).   (* SandwichOperator.make(BlockDiagonal(0/1), m)  (prepend_jac; used by C04) *)

  Fixpoint mapply (m : mop) (d : env) : env :=
    match m with
    | MSand J M => adj J (times1 M (times J d))
    | MScale c m => fun k i => amul c (mapply m d k i)
    | MAdd m1 m2 => eadd (mapply m1 d) (mapply m2 d)
    | MMask cs m => fun k => if cs k then fun _ => a0
                             else mapply m (fun k' => if cs k' then fun _ => a0 else d k') k
    end.

  Definition resid (data : option vec) (v : vec) : vec :=
    match data with None => v | Some dd => fun i => asub (v i) (dd i) end.

  Fixpoint evalE (h : energy) (r : env) : A :=
    match h with
    | EGauss n data icov e =>
        let rr := resid data (eval e r) in
        match icov with
        | None => amul ahalf (sumn n (fun j => amul (rr j) (rr j)))
            (* self._op = Squared2NormOperator(dom).scale(0.5) *)
        | Some N => amul ahalf (sumn n (fun j => amul (rr j) (amul (N j) (rr j))))
            (* QuadraticFormOperator: 0.5*x.vdot(self._op(x)) *)
        end
    | EScale c h => amul c (evalE h r)
    | EAdd h1 h2 => aadd (evalE h1 r) (evalE h2 r)
    | EShift neg c h => addsub neg (evalE h r) c
    | ELScale c h => amul (evalE h r) c
    end.

  Fixpoint linE (om wm : bool) (h : energy) (r : env) : A * jop * option mop :=
    match h with
    | EGauss n data icov e =>
        let (v, J) := lin om e r in
        let rr := resid data v in            (* residual = x - self._data *)
        match icov with
        | None =>
            (amul ahalf (sumn n (fun j => amul (rr j) (rr j))),
             JCh (Sc ahalf) (JCh (Vd n (fun j => amul two (rr j))) J),
             if wm then Some (MSand J (Sc a1)) else None)    (* res.add_metric(self._icov); prepend_jac *)
        | Some N =>
            (amul ahalf (sumn n (fun j => amul (rr j) (amul (N j) (rr j)))),
             JCh (Vd n (fun j => amul (N j) (rr j))) J,     (* QuadraticFormOperator: VdotOperator(tmp) *)
             if wm then Some (MSand J (D N)) else None)
        end
    | EScale c h =>
        let '(v, J, m) := linE om wm h r in
        (amul c v, JCh (Sc c) J,
         if anonneg c then option_map (MScale c) m else None)   (* ScalingOperator.__call__ *)
    | EAdd h1 h2 =>
        let '(v1, J1, m1) := linE om wm h1 r in
        let '(v2, J2, m2) := linE om wm h2 r in
        (aadd v1 v2, JAd J1 J2,
         match m1, m2 with Some x, Some y => Some (MAdd x y) | _, _ => None end)
           (* if all(mm is not None for mm in metrics): res.add_metric(reduce(add, metrics)) *)
    | EShift neg c h =>
        let '(v, J, m) := linE om wm h r in
        (addsub neg v c, J, m)
        (* Linearization._myadd, np.isscalar(other) or other.jac is None:
             return self.new(self._val-other if neg else self._val+other, self._jac, self._metric) *)
    | ELScale c h =>
        let '(v, J, m) := linE om wm h r in
        (amul v c, JCh (Sc c) J, option_map (MScale c) m)
        (* Linearization.__mul__, np.isscalar(other):
             met = None if self._metric is None else self._metric.scale(other)
             return self.new(self._val*other, self._jac.scale(other), met)          (any sign) *)
    end.

  (* dual-number evaluation of an energy (product rule applied to r * (N r), nothing simplified) *)
  Fixpoint evalED (h : energy) (r d : env) : A * A :=
    match h with
    | EGauss n data icov e =>
        let rr := fun j => match data with None => fst (evalD e r d j) | Some dd => asub (fst (evalD e r d j)) (dd j) end in
        let t := fun j => snd (evalD e r d j) in
        match icov with
        | None => (amul ahalf (sumn n (fun j => amul (rr j) (rr j))),
                   amul ahalf (sumn n (fun j => aadd (amul (rr j) (t j)) (amul (rr j) (t j)))))
        | Some N => (amul ahalf (sumn n (fun j => amul (rr j) (amul (N j) (rr j)))),
                     amul ahalf (sumn n (fun j => aadd (amul (rr j) (amul (N j) (t j))) (amul (amul (N j) (rr j)) (t j)))))
        end
    | EScale c h => let (v, t) := evalED h r d in (amul c v, amul c t)
    | EAdd h1 h2 => let (v1, t1) := evalED h1 r d in let (v2, t2) := evalED h2 r d in (aadd v1 v2, aadd t1 t2)
    | EShift neg c h => let (v, t) := evalED h r d in (addsub neg v c, t)
    | ELScale c h => let (v, t) := evalED h r d in (amul v c, amul t c)
    end.

  (* the Fisher form the metric is supposed to be:  sum_i c_i J_i^dagger N_i^-1 J_i  through the
     forward derivative (dual part) of every residual expression *)
  Fixpoint fisher (om : bool) (h : energy) (r d : env) : env :=
    match h with
    | EGauss n data icov e =>
        let t := fun j => snd (evalD e r d j) in
        adj (snd (lin om e r)) (match icov with None => fun j => amul a1 (t j) | Some N => fun j => amul (N j) (t j) end)
    | EScale c h => fun k i => amul c (fisher om h r d k i)
    | EAdd h1 h2 => eadd (fisher om h1 r d) (fisher om h2 r d)
    | EShift _ _ h => fisher om h r d               (* an additive constant does not change the metric *)
    | ELScale c h => fun k i => amul c (fisher om h r d k i)
    end.

  Fixpoint scales_nonneg (h : energy) : bool :=
    match h with
    | EGauss _ _ _ _ => true
    | EScale c h => anonneg c && scales_nonneg h
    | EAdd h1 h2 => scales_nonneg h1 && scales_nonneg h2
    | EShift _ _ h | ELScale _ h => scales_nonneg h
    end.

  (* ---- dense matrices for the correspondence check ------------------------------------------- *)
  Definition basis (k j : nat) : env := fun k' i => if (k' =? k) && (i =? j) then a1 else a0.
  Definition ebasis (j : nat) : vec := fun i => if i =? j then a1 else a0.
  Definition tolist (m : nat) (v : vec) : list A := map v (seq 0 m).
  (* columns of the Jacobian: for every key k (< K) and pixel j (< dims k) the image of the basis vector *)
  Definition dense_times (K : nat) (dims : nat -> nat) (m : nat) (J : jop) : list (list (list A)) :=
    map (fun k => map (fun j => tolist m (times J (basis k j))) (seq 0 (dims k))) (seq 0 K).
  (* rows via the adjoint: for every target pixel i the multi-field adj J e_i *)
  Definition dense_adj (K : nat) (dims : nat -> nat) (m : nat) (J : jop) : list (list (list A)) :=
    map (fun i => map (fun k => tolist (dims k) (adj J (ebasis i) k)) (seq 0 K)) (seq 0 m).
  Definition dense_metric (K : nat) (dims : nat -> nat) (M : mop) : list (list (list (list A))) :=
    map (fun k => map (fun j => map (fun k' => tolist (dims k') (mapply M (basis k j) k')) (seq 0 K))
                      (seq 0 (dims k))) (seq 0 K).
End Alg.

Arguments Var {A P}. Arguments Const {A P}. Arguments AddC {A P}. Arguments MulC {A P}.
Arguments Scale {A P}. Arguments Ptw {A P}. Arguments Mul {A P}. Arguments Add {A P}.
Arguments Sum {A P}. Arguments Vdot {A P}. Arguments Sq2 {A P}.
Arguments D {A}. Arguments Sc {A}. Arguments Contract {A}. Arguments Vd {A}.
Arguments JX {A}. Arguments JNull {A}. Arguments JCh {A}. Arguments JAd {A}. Arguments JMask {A}.
Arguments EGauss {A P}. Arguments EScale {A P}. Arguments EAdd {A P}. Arguments EShift {A P}. Arguments ELScale {A P}.
Arguments MSand {A}. Arguments MScale {A}. Arguments MAdd {A}. Arguments MMask {A}.
Arguments Build_ptw_entry {A}. Arguments pf {A}. Arguments phf {A}. Arguments phd {A}.
