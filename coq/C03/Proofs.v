(* C03 -- lemmas about the Linearization algebra over an arbitrary commutative ring. *)
From Coq Require Import List Arith Bool Lia Ring Setoid.
Require Import NV.C03.Model.

Section Proofs.
  Variable A : Type.
  Variables (a0 a1 ahalf : A) (aadd amul asub : A -> A -> A) (aopp : A -> A).
  Variable anonneg : A -> bool.
  Variable Rth : ring_theory a0 a1 aadd amul asub aopp (@eq A).
  Add Ring Aring : Rth.
  Variable P : Type.
  Variable ptab : P -> ptw_entry A.

  Notation vec := (vec A).
  Notation env := (env A).
  Notation sumn := (sumn A a0 aadd).
  Notation eval := (eval A a0 aadd amul asub P ptab).
  Notation lin := (lin A a0 a1 aadd amul asub P ptab).
  Notation evalD := (evalD A a0 a1 aadd amul asub P ptab).
  Notation times := (times A a0 aadd amul).
  Notation times1 := (times1 A a0 aadd amul).
  Notation adj := (adj A a0 aadd amul).
  Notation adj1 := (adj1 A amul).
  Notation dotn := (dotn A a0 aadd amul).
  Notation dotE := (dotE A a0 aadd amul).
  Notation two := (two A a1 aadd).
  Notation evalE := (evalE A a0 ahalf aadd amul asub P ptab).
  Notation evalED := (evalED A a0 a1 ahalf aadd amul asub P ptab).
  Notation linE := (linE A a0 a1 ahalf aadd amul asub anonneg P ptab).
  Notation fisher := (fisher A a0 a1 aadd amul asub P ptab).
  Notation mapply := (mapply A a0 aadd amul).
  Notation scales_nonneg := (scales_nonneg A anonneg P).
  Infix "+" := aadd. Infix "*" := amul. Infix "-" := asub.

  (* ---- finite sums ---------------------------------------------------------------------------- *)
  Lemma sumn_ext n (f g : vec) : (forall j, f j = g j) -> sumn n f = sumn n g.
  Proof. intros H; induction n; simpl; [reflexivity | now rewrite IHn, H]. Qed.

  Lemma sumn_ext_lt n (f g : vec) : (forall j, j < n -> f j = g j) -> sumn n f = sumn n g.
  Proof.
    induction n; simpl; intros H; [reflexivity|].
    rewrite IHn by (intros; apply H; lia). now rewrite H by lia.
  Qed.

  Lemma sumn_add n (f g : vec) : sumn n (fun j => f j + g j) = sumn n f + sumn n g.
  Proof. induction n; simpl; [ring | rewrite IHn; ring]. Qed.

  Lemma sumn_scal n c (f : vec) : sumn n (fun j => c * f j) = c * sumn n f.
  Proof. induction n; simpl; [ring | rewrite IHn; ring]. Qed.

  Lemma sumn_zero n : sumn n (fun _ => a0) = a0.
  Proof. induction n; simpl; [reflexivity | rewrite IHn; ring]. Qed.

  Lemma sumn_pick K k (f : vec) : k < K -> sumn K (fun k' => if k' =? k then f k' else a0) = f k.
  Proof.
    induction K; intros H; [lia|]. simpl.
    destruct (Nat.eqb_spec K k) as [->|Hne].
    - rewrite (sumn_ext_lt k _ (fun _ => a0)).
      + rewrite sumn_zero; ring.
      + intros j Hj. destruct (Nat.eqb_spec j k); [lia | reflexivity].
    - rewrite IHK by lia. ring.
  Qed.

  (* ---- value: the Linearization carries the plain value ------------------------------------------ *)
  Section Value.
    Hypothesis Hpure : forall p x, pf (ptab p) x = phf (ptab p) x.

    Lemma lin_value om e r : forall i, fst (lin om e r) i = eval e r i.
    Proof.
      induction e; simpl; intros i;
        repeat match goal with
               | |- context [lin om ?e r] => destruct (lin om e r) eqn:?
               end; simpl in *; try reflexivity;
        rewrite ?IHe, ?IHe1, ?IHe2, ?Hpure; try reflexivity.
      - apply sumn_ext; intros; apply IHe.
      - apply sumn_ext; intros; now rewrite IHe1, IHe2.
      - apply sumn_ext; intros; now rewrite IHe.
    Qed.

    Lemma dual_value e r d : forall i, fst (evalD e r d i) = eval e r i.
    Proof.
      induction e; simpl; intros i;
        repeat match goal with
               | |- context [evalD ?e r d i] => destruct (evalD e r d i) eqn:?
               end; simpl in *; try reflexivity;
        repeat match goal with
               | IH : forall i, fst (evalD ?e r d i) = _, E : evalD ?e r d ?i = _ |- _ =>
                   let H := fresh in pose proof (IH i) as H; rewrite E in H; simpl in H; rewrite H; clear E
               end; try reflexivity.
      - apply sumn_ext; intros; apply IHe.
      - apply sumn_ext; intros; now rewrite IHe1, IHe2.
      - apply sumn_ext; intros; now rewrite IHe.
    Qed.

    (* ---- the assembled Jacobian applied to a tangent = dual part ------------------------------- *)
    Lemma jac_dual om e r d : forall i, times (snd (lin om e r)) d i = snd (evalD e r d i).
    Proof.
      induction e; simpl; intros i.
      - reflexivity.
      - reflexivity.
      - pose proof (IHe i) as H. destruct (lin om e r); destruct (evalD e r d i); simpl in *. exact H.
      - pose proof (IHe i) as H. destruct (lin om e r); destruct (evalD e r d i); simpl in *. now rewrite H.
      - pose proof (IHe i) as H. destruct (lin om e r); destruct (evalD e r d i); simpl in *. now rewrite H.
      - pose proof (IHe i) as H. pose proof (lin_value om e r i) as Hv. pose proof (dual_value e r d i) as Hd.
        destruct (lin om e r); destruct (evalD e r d i); simpl in *. rewrite H, Hv, Hd. reflexivity.
      - pose proof (IHe1 i) as H1. pose proof (IHe2 i) as H2.
        pose proof (lin_value om e1 r i) as Hv1. pose proof (dual_value e1 r d i) as Hd1.
        pose proof (lin_value om e2 r i) as Hv2. pose proof (dual_value e2 r d i) as Hd2.
        destruct (lin om e1 r); destruct (lin om e2 r); destruct (evalD e1 r d i); destruct (evalD e2 r d i).
        simpl in *. destruct om; simpl; rewrite H1, H2, Hv1, Hv2, Hd1, Hd2; ring.
      - pose proof (IHe1 i) as H1. pose proof (IHe2 i) as H2.
        destruct (lin om e1 r); destruct (lin om e2 r); destruct (evalD e1 r d i); destruct (evalD e2 r d i).
        simpl in *. now rewrite H1, H2.
      - destruct (lin om e r) as [v J] eqn:E; simpl in *. apply sumn_ext; intros j. apply IHe.
      - pose proof (lin_value om e1 r) as Hv1. pose proof (lin_value om e2 r) as Hv2.
        destruct (lin om e1 r) as [v1 J1] eqn:E1; destruct (lin om e2 r) as [v2 J2] eqn:E2; simpl in *.
        destruct om; simpl.
        + apply sumn_ext; intros j. rewrite IHe1, IHe2, Hv1, Hv2, !dual_value. ring.
        + rewrite <- sumn_add. apply sumn_ext; intros j. rewrite IHe1, IHe2, Hv1, Hv2, !dual_value. ring.
      - pose proof (lin_value om e r) as Hv.
        destruct (lin om e r) as [v J] eqn:E; simpl in *.
        apply sumn_ext; intros j. rewrite IHe, Hv, dual_value. reflexivity.
    Qed.
  End Value.

  (* ---- adjointness ------------------------------------------------------------------------------ *)
  Lemma adj1_ok a m m' x y : oshape1 A a m = Some m' -> dotn m (adj1 a y) x = dotn m' y (times1 a x).
  Proof.
    unfold Model.dotn; destruct a; simpl; intros H.
    - injection H as <-. apply sumn_ext; intros; ring.
    - injection H as <-. apply sumn_ext; intros; ring.
    - destruct (Nat.eqb_spec n m); [subst|discriminate]. injection H as <-. simpl.
      rewrite sumn_scal. ring.
    - destruct (Nat.eqb_spec n m); [subst|discriminate]. injection H as <-. simpl.
      rewrite <- sumn_scal. rewrite (sumn_ext m _ (fun j => y 0 * (a j * x j))) by (intros; ring).
      rewrite sumn_scal. ring.
  Qed.

  Lemma dotE_add K dims (x y d : env) :
    dotE K dims (eadd A aadd x y) d = dotE K dims x d + dotE K dims y d.
  Proof.
    unfold Model.dotE, Model.dotn, eadd. rewrite <- sumn_add. apply sumn_ext; intros k.
    rewrite <- sumn_add. apply sumn_ext; intros; ring.
  Qed.

  Lemma adj_ok K dims J : forall m y d, jshape A K dims J = Some m ->
    dotE K dims (adj J y) d = dotn m y (times J d).
  Proof.
    induction J; simpl; intros mm y d H.
    - destruct (Nat.ltb_spec k K); [|discriminate]. injection H as <-.
      unfold Model.dotE.
      rewrite (sumn_ext K _ (fun k' => if k' =? k then dotn (dims k') y (d k') else a0)).
      + now rewrite sumn_pick.
      + intros k'. destruct (Nat.eqb_spec k' k); [reflexivity|].
        unfold Model.dotn. rewrite (sumn_ext _ _ (fun _ => a0)) by (intros; ring). apply sumn_zero.
    - injection H as <-. unfold Model.dotE, Model.dotn, ezero.
      rewrite (sumn_ext K _ (fun _ => a0)).
      + rewrite sumn_zero. rewrite (sumn_ext m _ (fun _ => a0)) by (intros; ring). now rewrite sumn_zero.
      + intros k. rewrite (sumn_ext _ _ (fun _ => a0)) by (intros; ring). apply sumn_zero.
    - destruct (jshape A K dims J) as [m'|] eqn:E; [|discriminate].
      rewrite (IHJ m' _ d eq_refl). now apply adj1_ok.
    - destruct (jshape A K dims J1) as [m1|] eqn:E1; [|discriminate].
      destruct (jshape A K dims J2) as [m2|] eqn:E2; [|discriminate].
      destruct (Nat.eqb_spec m1 m2); [subst|discriminate]. injection H as <-.
      rewrite dotE_add, (IHJ1 m2 y d eq_refl), (IHJ2 m2 y d eq_refl).
      unfold Model.dotn. rewrite <- sumn_add. apply sumn_ext; intros; ring.
    - rewrite <- (IHJ mm y _ H). unfold Model.dotE. apply sumn_ext; intros k.
      destruct (cs k); [|reflexivity].
      unfold Model.dotn. apply sumn_ext; intros; ring.
  Qed.

  Lemma lin_shape K dims om e r : forall m, eshape A P K dims e = Some m ->
    jshape A K dims (snd (lin om e r)) = Some m.
  Proof.
    induction e; simpl; intros mm H.
    - exact H.
    - exact H.
    - specialize (IHe mm H). destruct (lin om e r); exact IHe.
    - specialize (IHe mm H). destruct (lin om e r); simpl in *. now rewrite IHe.
    - specialize (IHe mm H). destruct (lin om e r); simpl in *. now rewrite IHe.
    - specialize (IHe mm H). destruct (lin om e r); simpl in *. now rewrite IHe.
    - destruct (eshape A P K dims e1) as [m1|]; [|discriminate].
      destruct (eshape A P K dims e2) as [m2|]; [|discriminate].
      destruct (Nat.eqb_spec m1 m2); [subst|discriminate]. injection H as <-.
      specialize (IHe1 _ eq_refl). specialize (IHe2 _ eq_refl).
      destruct (lin om e1 r); destruct (lin om e2 r); simpl in *.
      destruct om; simpl; rewrite IHe1, IHe2; simpl; now rewrite Nat.eqb_refl.
    - destruct (eshape A P K dims e1) as [m1|]; [|discriminate].
      destruct (eshape A P K dims e2) as [m2|]; [|discriminate].
      destruct (Nat.eqb_spec m1 m2); [subst|discriminate]. injection H as <-.
      specialize (IHe1 _ eq_refl). specialize (IHe2 _ eq_refl).
      destruct (lin om e1 r); destruct (lin om e2 r); simpl in *.
      rewrite IHe1, IHe2; now rewrite Nat.eqb_refl.
    - destruct (eshape A P K dims e) as [m1|]; [|discriminate].
      specialize (IHe _ eq_refl). destruct (lin om e r); simpl in *. now rewrite IHe.
    - destruct (eshape A P K dims e1) as [m1|]; [|discriminate].
      destruct (eshape A P K dims e2) as [m2|]; [|discriminate].
      destruct (Nat.eqb_spec n m1); [subst|discriminate].
      destruct (Nat.eqb_spec m1 m2); [subst|discriminate]. simpl in H.
      specialize (IHe1 _ eq_refl). specialize (IHe2 _ eq_refl).
      destruct (lin om e1 r); destruct (lin om e2 r); simpl in *.
      destruct om; simpl; rewrite IHe1, IHe2; simpl; rewrite ?Nat.eqb_refl; simpl; rewrite ?Nat.eqb_refl; exact H.
    - destruct (eshape A P K dims e) as [m1|]; [|discriminate].
      specialize (IHe _ eq_refl). destruct (lin om e r); simpl in *. now rewrite IHe.
  Qed.

  (* ---- energies --------------------------------------------------------------------------------- *)
  Section Energy.
    Hypothesis Hpure : forall p x, pf (ptab p) x = phf (ptab p) x.
    Hypothesis Hhalf : ahalf * two = a1.

    Lemma linE_value om wm h r : fst (fst (linE om wm h r)) = evalE h r.
    Proof.
      induction h; simpl.
      - pose proof (lin_value Hpure om e r) as Hv. destruct (lin om e r) as [v J]; simpl in *.
        destruct icov; simpl; f_equal; apply sumn_ext; intros j; destruct data; simpl; now rewrite !Hv.
      - destruct (linE om wm h r) as [[v J] m]; simpl in *. now rewrite IHh.
      - destruct (linE om wm h1 r) as [[v1 J1] m1]; destruct (linE om wm h2 r) as [[v2 J2] m2]; simpl in *.
        now rewrite IHh1, IHh2.
      - destruct (linE om wm h r) as [[v J] m]; simpl in *. now rewrite IHh.
      - destruct (linE om wm h r) as [[v J] m]; simpl in *. now rewrite IHh.
    Qed.

    Lemma evalED_value h r d : fst (evalED h r d) = evalE h r.
    Proof.
      induction h; simpl.
      - destruct icov; simpl; f_equal; apply sumn_ext; intros j; destruct data; simpl;
          now rewrite !(dual_value e r d).
      - destruct (evalED h r d); simpl in *. now rewrite IHh.
      - destruct (evalED h1 r d); destruct (evalED h2 r d); simpl in *. now rewrite IHh1, IHh2.
      - destruct (evalED h r d); simpl in *. now rewrite IHh.
      - destruct (evalED h r d); simpl in *. now rewrite IHh.
    Qed.

    Lemma linE_jac_dual om wm h r d : times (snd (fst (linE om wm h r))) d 0 = snd (evalED h r d).
    Proof.
      induction h; simpl.
      - pose proof (lin_value Hpure om e r) as Hv. pose proof (jac_dual Hpure om e r d) as Hj.
        destruct (lin om e r) as [v J]; simpl in *.
        destruct icov; simpl.
        + rewrite <- sumn_scal. apply sumn_ext; intros j. rewrite Hj.
          destruct data; simpl; rewrite Hv, (dual_value e r d).
          * transitivity ((ahalf * two) * (v0 j * (eval e r j - v1 j) * snd (evalD e r d j))); [rewrite Hhalf; ring | unfold Model.two; ring].
          * transitivity ((ahalf * two) * (v0 j * (eval e r j) * snd (evalD e r d j))); [rewrite Hhalf; ring | unfold Model.two; ring].
        + f_equal. apply sumn_ext; intros j. rewrite Hj.
          destruct data; simpl; rewrite Hv, (dual_value e r d); unfold Model.two; ring.
      - destruct (linE om wm h r) as [[v J] m]; destruct (evalED h r d); simpl in *. now rewrite IHh.
      - destruct (linE om wm h1 r) as [[v1 J1] m1]; destruct (linE om wm h2 r) as [[v2 J2] m2].
        destruct (evalED h1 r d); destruct (evalED h2 r d); simpl in *. now rewrite IHh1, IHh2.
      - destruct (linE om wm h r) as [[v J] m]; destruct (evalED h r d); simpl in *. exact IHh.
      - destruct (linE om wm h r) as [[v J] m]; destruct (evalED h r d); simpl in *. rewrite IHh. ring.
    Qed.

    Lemma metric_absent om h r : snd (linE om false h r) = None.
    Proof.
      induction h; simpl.
      - destruct (lin om e r); destruct icov; reflexivity.
      - destruct (linE om false h r) as [[v J] m]; simpl in *. subst. now destruct (anonneg c).
      - destruct (linE om false h1 r) as [[v1 J1] m1]; destruct (linE om false h2 r) as [[v2 J2] m2]; simpl in *.
        now subst.
      - destruct (linE om false h r) as [[v J] m]; simpl in *. exact IHh.
      - destruct (linE om false h r) as [[v J] m]; simpl in *. now subst.
    Qed.

    Lemma metric_carried om h r : scales_nonneg h = true ->
      exists M, snd (linE om true h r) = Some M /\
                forall d k i, mapply M d k i = fisher om h r d k i.
    Proof.
      induction h; simpl; intros Hs.
      - pose proof (jac_dual Hpure om e r) as Hj.
        destruct (lin om e r) as [v J] eqn:E; simpl in *.
        destruct icov; simpl; eexists; (split; [reflexivity|]); intros d k i; simpl.
        + assert (X : forall y y' : vec, (forall j, y j = y' j) -> forall k i, adj J y k i = adj J y' k i).
          { clear. induction J; simpl; intros y y' H k0 i0.
            - destruct (k0 =? k); [apply H | reflexivity].
            - reflexivity.
            - apply IHJ. intros j. destruct a; simpl; now rewrite ?H.
            - unfold eadd. now rewrite (IHJ1 y y' H), (IHJ2 y y' H).
            - destruct (cs k0); [reflexivity | now apply IHJ]. }
          apply X. intros j. now rewrite Hj.
        + assert (X : forall y y' : vec, (forall j, y j = y' j) -> forall k i, adj J y k i = adj J y' k i).
          { clear. induction J; simpl; intros y y' H k0 i0.
            - destruct (k0 =? k); [apply H | reflexivity].
            - reflexivity.
            - apply IHJ. intros j. destruct a; simpl; now rewrite ?H.
            - unfold eadd. now rewrite (IHJ1 y y' H), (IHJ2 y y' H).
            - destruct (cs k0); [reflexivity | now apply IHJ]. }
          apply X. intros j. now rewrite Hj.
      - apply andb_prop in Hs as [Hc Hs]. destruct (IHh Hs) as [M [HM HF]].
        destruct (linE om true h r) as [[v J] m]; simpl in *. subst m. rewrite Hc. simpl.
        eexists; split; [reflexivity|]. intros d k i; simpl. now rewrite HF.
      - apply andb_prop in Hs as [Hs1 Hs2].
        destruct (IHh1 Hs1) as [M1 [HM1 HF1]]. destruct (IHh2 Hs2) as [M2 [HM2 HF2]].
        destruct (linE om true h1 r) as [[v1 J1] m1]; destruct (linE om true h2 r) as [[v2 J2] m2]; simpl in *.
        subst. eexists; split; [reflexivity|]. intros d k i; simpl. unfold eadd. now rewrite HF1, HF2.
      - destruct (IHh Hs) as [M [HM HF]].
        destruct (linE om true h r) as [[v J] m]; simpl in *. subst m.
        eexists; split; [reflexivity|]. exact HF.
      - destruct (IHh Hs) as [M [HM HF]].
        destruct (linE om true h r) as [[v J] m]; simpl in *. subst m. simpl.
        eexists; split; [reflexivity|]. intros d k i; simpl. now rewrite HF.
    Qed.
  End Energy.
End Proofs.

(* ---- closed statements (section variables generalised), as used by Props.v ---------------------- *)
Lemma closed_value :
  forall (A : Type) (a0 a1 : A) (aadd amul asub : A -> A -> A) (aopp : A -> A),
    ring_theory a0 a1 aadd amul asub aopp (@eq A) ->
  forall (P : Type) (ptab : P -> ptw_entry A), (forall p x, pf (ptab p) x = phf (ptab p) x) ->
  forall (om : bool) (e : expr A P) (r : env A) (i : nat),
    fst (lin A a0 a1 aadd amul asub P ptab om e r) i = eval A a0 aadd amul asub P ptab e r i.
Proof. intros; now apply lin_value. Qed.

Lemma closed_jacobian_dual :
  forall (A : Type) (a0 a1 : A) (aadd amul asub : A -> A -> A) (aopp : A -> A),
    ring_theory a0 a1 aadd amul asub aopp (@eq A) ->
  forall (P : Type) (ptab : P -> ptw_entry A), (forall p x, pf (ptab p) x = phf (ptab p) x) ->
  forall (om : bool) (e : expr A P) (r d : env A) (i : nat),
    times A a0 aadd amul (snd (lin A a0 a1 aadd amul asub P ptab om e r)) d i
    = snd (evalD A a0 a1 aadd amul asub P ptab e r d i)
    /\ fst (evalD A a0 a1 aadd amul asub P ptab e r d i) = eval A a0 aadd amul asub P ptab e r i.
Proof. intros; split; [eapply jac_dual; eauto | apply dual_value]. Qed.

Lemma closed_adjoint :
  forall (A : Type) (a0 a1 : A) (aadd amul asub : A -> A -> A) (aopp : A -> A),
    ring_theory a0 a1 aadd amul asub aopp (@eq A) ->
  forall (K : nat) (dims : nat -> nat) (J : jop A) (m : nat) (y : vec A) (d : env A),
    jshape A K dims J = Some m ->
    dotE A a0 aadd amul K dims (adj A a0 aadd amul J y) d = dotn A a0 aadd amul m y (times A a0 aadd amul J d).
Proof. intros; eapply adj_ok; eauto. Qed.

Lemma closed_jacobian_shape :
  forall (A : Type) (a0 a1 : A) (aadd amul asub : A -> A -> A) (P : Type) (ptab : P -> ptw_entry A)
         (K : nat) (dims : nat -> nat) (om : bool) (e : expr A P) (r : env A) (m : nat),
    eshape A P K dims e = Some m ->
    jshape A K dims (snd (lin A a0 a1 aadd amul asub P ptab om e r)) = Some m.
Proof. intros; now apply lin_shape. Qed.

Lemma closed_energy_value_and_gradient :
  forall (A : Type) (a0 a1 ahalf : A) (aadd amul asub : A -> A -> A) (aopp : A -> A) (anonneg : A -> bool),
    ring_theory a0 a1 aadd amul asub aopp (@eq A) ->
  forall (P : Type) (ptab : P -> ptw_entry A), (forall p x, pf (ptab p) x = phf (ptab p) x) ->
    amul ahalf (two A a1 aadd) = a1 ->
  forall (om wm : bool) (h : energy A P) (r d : env A),
    fst (fst (linE A a0 a1 ahalf aadd amul asub anonneg P ptab om wm h r)) = evalE A a0 ahalf aadd amul asub P ptab h r
    /\ times A a0 aadd amul (snd (fst (linE A a0 a1 ahalf aadd amul asub anonneg P ptab om wm h r))) d 0%nat
       = snd (evalED A a0 a1 ahalf aadd amul asub P ptab h r d)
    /\ fst (evalED A a0 a1 ahalf aadd amul asub P ptab h r d) = evalE A a0 ahalf aadd amul asub P ptab h r.
Proof. intros; repeat split; [now apply linE_value | eapply linE_jac_dual; eauto | apply evalED_value]. Qed.

Lemma closed_metric_carried :
  forall (A : Type) (a0 a1 ahalf : A) (aadd amul asub : A -> A -> A) (aopp : A -> A) (anonneg : A -> bool),
    ring_theory a0 a1 aadd amul asub aopp (@eq A) ->
  forall (P : Type) (ptab : P -> ptw_entry A), (forall p x, pf (ptab p) x = phf (ptab p) x) ->
  forall (om : bool) (h : energy A P) (r : env A),
    snd (linE A a0 a1 ahalf aadd amul asub anonneg P ptab om false h r) = None /\
    (scales_nonneg A anonneg P h = true ->
     exists M, snd (linE A a0 a1 ahalf aadd amul asub anonneg P ptab om true h r) = Some M /\
               forall d k i, mapply A a0 aadd amul M d k i = fisher A a0 a1 aadd amul asub P ptab om h r d k i).
Proof. intros; split; [apply metric_absent | eapply metric_carried; eauto]. Qed.

