(* C03 -- property theorems only.  Each is closed by [exact] of a lemma from Proofs*.v. *)
From Coq Require Import List Arith Bool Reals ZArith QArith Qcanon Ring.
From Coquelicot Require Import Coquelicot.
Require Import NV.C03.Model NV.C03.Proofs NV.C03.PtwBase NV.C03.Gen_Ptw NV.C03.Proofs_Ptw
               NV.C03.TableR NV.C03.Proofs_Real NV.C03.Proofs_Table NV.C03.ModelQ NV.C03.Proofs_Q NV.C03.Einsum NV.C03.Proofs_Einsum NV.C03.Contract NV.C03.Proofs_Contract.

(* ---------------------------------------------------------------------------------------------
   Algebra, over EVERY commutative ring, every expression tree (any depth, any number of keys and
   pixels), both construction routes ([om]): operator objects and Linearization methods.
   Hypothesis on the pointwise table: each entry's plain function and the value component of its
   helper are the same function (discharged for the generated tables below).                     *)

(* Evaluating on a Linearization returns the same value as plain evaluation. *)
Theorem C03_value :
  forall (A : Type) (a0 a1 : A) (aadd amul asub : A -> A -> A) (aopp : A -> A),
    ring_theory a0 a1 aadd amul asub aopp (@eq A) ->
  forall (P : Type) (ptab : P -> ptw_entry A), (forall p x, pf (ptab p) x = phf (ptab p) x) ->
  forall (om : bool) (e : expr A P) (r : env A) (i : nat),
    fst (lin A a0 a1 aadd amul asub P ptab om e r) i = eval A a0 aadd amul asub P ptab e r i.
Proof. exact closed_value. Qed.

(* The Jacobian the code assembles, applied to any tangent, is the forward-mode (dual number)
   derivative of the expression. *)
Theorem C03_jacobian_dual :
  forall (A : Type) (a0 a1 : A) (aadd amul asub : A -> A -> A) (aopp : A -> A),
    ring_theory a0 a1 aadd amul asub aopp (@eq A) ->
  forall (P : Type) (ptab : P -> ptw_entry A), (forall p x, pf (ptab p) x = phf (ptab p) x) ->
  forall (om : bool) (e : expr A P) (r d : env A) (i : nat),
    times A a0 aadd amul (snd (lin A a0 a1 aadd amul asub P ptab om e r)) d i
    = snd (evalD A a0 a1 aadd amul asub P ptab e r d i)
    /\ fst (evalD A a0 a1 aadd amul asub P ptab e r d i) = eval A a0 aadd amul asub P ptab e r i.
Proof. exact closed_jacobian_dual. Qed.

(* ADJOINT_TIMES of every well-shaped Jacobian is the transpose of TIMES:
   <J^T y, d> = <y, J d>  with the inner products of the domain (all keys) and the target. *)
Theorem C03_adjoint :
  forall (A : Type) (a0 a1 : A) (aadd amul asub : A -> A -> A) (aopp : A -> A),
    ring_theory a0 a1 aadd amul asub aopp (@eq A) ->
  forall (K : nat) (dims : nat -> nat) (J : jop A) (m : nat) (y : vec A) (d : env A),
    jshape A K dims J = Some m ->
    dotE A a0 aadd amul K dims (adj A a0 aadd amul J y) d = dotn A a0 aadd amul m y (times A a0 aadd amul J d).
Proof. exact closed_adjoint. Qed.

(* ... and the Jacobian of every well-shaped expression is well-shaped (so C03_adjoint applies). *)
Theorem C03_jacobian_shape :
  forall (A : Type) (a0 a1 : A) (aadd amul asub : A -> A -> A) (P : Type) (ptab : P -> ptw_entry A)
         (K : nat) (dims : nat -> nat) (om : bool) (e : expr A P) (r : env A) (m : nat),
    eshape A P K dims e = Some m ->
    jshape A K dims (snd (lin A a0 a1 aadd amul asub P ptab om e r)) = Some m.
Proof. exact closed_jacobian_shape. Qed.

(* Energies (Gaussian likelihoods of arbitrary expressions, scaled and added): value, gradient
   direction (dual part), given that the literal 0.5 of the code satisfies 0.5 * 2 = 1. *)
Theorem C03_energy_value_and_gradient :
  forall (A : Type) (a0 a1 ahalf : A) (aadd amul asub : A -> A -> A) (aopp : A -> A) (anonneg : A -> bool),
    ring_theory a0 a1 aadd amul asub aopp (@eq A) ->
  forall (P : Type) (ptab : P -> ptw_entry A), (forall p x, pf (ptab p) x = phf (ptab p) x) ->
    amul ahalf (two A a1 aadd) = a1 ->
  forall (om wm : bool) (h : energy A P) (r d : env A),
    fst (fst (linE A a0 a1 ahalf aadd amul asub anonneg P ptab om wm h r)) = evalE A a0 ahalf aadd amul asub P ptab h r
    /\ times A a0 aadd amul (snd (fst (linE A a0 a1 ahalf aadd amul asub anonneg P ptab om wm h r))) d 0%nat
       = snd (evalED A a0 a1 ahalf aadd amul asub P ptab h r d)
    /\ fst (evalED A a0 a1 ahalf aadd amul asub P ptab h r d) = evalE A a0 ahalf aadd amul asub P ptab h r.
Proof. exact closed_energy_value_and_gradient. Qed.

(* A requested metric is carried through: with want_metric and non-negative scale factors the
   Linearization has a metric and it is  sum_i c_i J_i^T N_i^-1 (dJ_i)  with dJ_i the forward
   derivative of the i-th residual expression; without want_metric there is none. *)
Theorem C03_metric_carried :
  forall (A : Type) (a0 a1 ahalf : A) (aadd amul asub : A -> A -> A) (aopp : A -> A) (anonneg : A -> bool),
    ring_theory a0 a1 aadd amul asub aopp (@eq A) ->
  forall (P : Type) (ptab : P -> ptw_entry A), (forall p x, pf (ptab p) x = phf (ptab p) x) ->
  forall (om : bool) (h : energy A P) (r : env A),
    snd (linE A a0 a1 ahalf aadd amul asub anonneg P ptab om false h r) = None /\
    (scales_nonneg A anonneg P h = true ->
     exists M, snd (linE A a0 a1 ahalf aadd amul asub anonneg P ptab om true h r) = Some M /\
               forall d k i, mapply A a0 aadd amul M d k i = fisher A a0 a1 aadd amul asub P ptab om h r d k i).
Proof. exact closed_metric_carried. Qed.

(* ---------------------------------------------------------------------------------------------
   The pointwise table generated from nifty/cl/pointwise.py on this run (Gen_Ptw.v): for EVERY
   entry the helper's derivative component is the derivative of its value component on the
   entry's natural open domain (piecewise entries region by region; sinc also at 0), and the plain
   function equals the helper's value component.                                                 *)
Theorem C03_ptw_table :
  forall (p : rname) (x : R), rdom p x -> is_derive (pf (rtab p)) x (phd (rtab p) x).
Proof. exact rtab_ok. Qed.

Theorem C03_ptw_value_consistent : forall (p : rname) (x : R), pf (rtab p) x = phf (rtab p) x.
Proof. exact rtab_pure. Qed.

Theorem C03_ptw_sinc_at_0 : is_derive ptw_sinc 0 (dptw_sinc 0).
Proof. exact d_sinc_0. Qed.

(* Real-analysis closure, any table: the dual part is the directional derivative of plain
   evaluation along d, at every point of the line where the pointwise functions used are inside
   their domains -- every tree, any number of pixels and keys. *)
Theorem C03_directional_derivative_real :
  forall (P : Type) (ptab : P -> ptw_entry R) (pdom : P -> R -> Prop),
    (forall p x, pdom p x -> is_derive (pf (ptab p)) x (phd (ptab p) x)) ->
  forall (e : expr R P) (r d : env R) (t : R) (i : nat),
    validAt P ptab pdom e (line r d t) i ->
    is_derive (fun s => eval R 0%R Rplus Rmult Rminus P ptab e (line r d s) i) t
              (snd (evalD R 0%R 1%R Rplus Rmult Rminus P ptab e (line r d t) d i)).
Proof. intros P ptab pdom H e r d t i. exact (directional P ptab pdom H e r d t i). Qed.

(* The end-to-end statement for the generated table: the Jacobian assembled by the code at the
   point x = r + t d, applied to d, is the derivative of  s |-> op(r + s d)  at t. *)
Theorem C03_jacobian_is_derivative :
  forall (om : bool) (e : expr R rname) (r d : env R) (t : R) (i : nat),
    validAt rname rtab rdom e (line r d t) i ->
    is_derive (fun s => eval R 0%R Rplus Rmult Rminus rname rtab e (line r d s) i) t
              (times R 0%R Rplus Rmult (snd (lin R 0%R 1%R Rplus Rmult Rminus rname rtab om e (line r d t))) d i).
Proof. exact jacobian_is_derivative. Qed.

(* MultiLinearEinsum (einsum.py), any commutative ring, any subscripts, any number of operands in any key_order: the
   Jacobian the code assembles -- the sum over the operands of the contraction with that operand replaced by its
   tangent, the other operands keeping their own subscripts -- applied to a tangent is the dual (forward-mode)
   part of the contraction with every operand perturbed; the value part is the plain contraction. *)
Theorem C03_einsum_jacobian :
  forall (A : Type) (a0 a1 : A) (aadd amul asub : A -> A -> A) (aopp : A -> A),
    ring_theory a0 a1 aadd amul asub aopp (@eq A) ->
  forall (iss : list (list nat)) (oss summed : list nat) (dim : nat -> nat)
         (ops ds : list (Einsum.tensor A)) (z : Einsum.tensor A) (oidx : list nat),
    length ops = length iss -> length ds = length iss ->
    Einsum.sumn A a0 aadd (length iss)
      (fun p => ein_jac A a0 a1 aadd amul iss oss summed dim ops p (nth p ds z) oidx)
    = sum_over A a0 aadd summed dim (bind oss oidx (fun _ => 0%nat))
        (fun s => snd (dterm A a0 a1 aadd amul iss ops ds s))
    /\ ein A a0 a1 aadd amul iss oss summed dim ops oidx
       = sum_over A a0 aadd summed dim (bind oss oidx (fun _ => 0%nat))
           (fun s => fst (dterm A a0 a1 aadd amul iss ops ds s)).
Proof. exact ein_jacobian_dual. Qed.

(* Partial contractions (Linearization.sum(spaces) / .integrate(spaces), ContractionOperator / IntegrationOperator on
   product domains with volume elements): the weighted contraction is linear over any commutative ring, so contracting
   the Jacobian columns gives the exact Jacobian of  contraction o F  (and dual numbers are contracted part by part). *)
Theorem C03_contraction_linear :
  forall (A : Type) (a0 a1 : A) (aadd amul asub : A -> A -> A) (aopp : A -> A),
    ring_theory a0 a1 aadd amul asub aopp (@eq A) ->
  forall (w : A) (tbl : list (list nat)) (c : A) (x y : nat -> A) (o : nat),
    nth o (contract A a0 aadd amul w tbl (fun i => aadd (amul c (x i)) (y i))) a0
    = aadd (amul c (nth o (contract A a0 aadd amul w tbl x) a0)) (nth o (contract A a0 aadd amul w tbl y) a0).
Proof. exact contract_linear. Qed.

(* The rational instance executed by the correspondence check satisfies the hypotheses of the
   algebra theorems (ring, table purity, 1/2 * 2 = 1). *)
Theorem C03_qc_instance :
  ring_theory (q 0 1) (q 1 1) Qcplus Qcmult Qcminus Qcopp (@eq Qc) /\
  (forall p x, pf (qtab p) x = phf (qtab p) x) /\
  Qcmult qhalf (two Qc (q 1 1) Qcplus) = q 1 1.
Proof. exact qc_instance. Qed.

(* Non-vacuity: a concrete two-key tree with a piecewise and a smooth pointwise function is valid at
   a concrete point (so C03_jacobian_is_derivative applies to it). *)
Example C03_valid_example :
  validAt rname rtab rdom
    (Sum 2 (Mul (Ptw Nabs (Var 0)) (Ptw Nexp (Var 1))))
    (line (fun k i => 1%R) (fun k i => 1%R) 0%R) 0.
Proof. exact valid_example. Qed.
