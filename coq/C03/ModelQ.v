(* C03 -- the rational instance of the algebra model that the correspondence check executes
   (carrier Qc = canonical rationals, a ring for Leibniz equality, so the generic theorems apply to
   exactly what is run).  The pointwise entries come from the GENERATED exact table Gen_PtwQ.v.
   No proofs. *)
From Coq Require Import List Arith Bool ZArith QArith Qcanon.
Import ListNotations.
Require Import NV.C03.Model NV.C03.PtwBaseQ NV.C03.Gen_PtwQ NV.C03.Einsum NV.C03.Contract.

Definition lift (f : Q -> Q) (x : Qc) : Qc := Q2Qc (f (this x)).

Inductive qname :=
| QNreciprocal | QNabs | QNabsolute | QNsign | QNunitstep | QNpower (expo : Z) | QNclip (a_min a_max : Q)
| QNsqrt | QNlog.   (* partial exact primitives, see PtwBaseQ.v; used by C04 *)

Definition qtab (p : qname) : ptw_entry Qc :=
  match p with
  | QNreciprocal => Build_ptw_entry (lift qptwp_reciprocal) (lift qptw_reciprocal) (lift qdptw_reciprocal)
  | QNabs => Build_ptw_entry (lift qptwp_abs) (lift qptw_abs) (lift qdptw_abs)
  | QNabsolute => Build_ptw_entry (lift qptwp_absolute) (lift qptw_absolute) (lift qdptw_absolute)
  | QNsign => Build_ptw_entry (lift qptwp_sign) (lift qptw_sign) (lift qdptw_sign)
  | QNunitstep => Build_ptw_entry (lift qptwp_unitstep) (lift qptw_unitstep) (lift qdptw_unitstep)
  | QNpower n => Build_ptw_entry (lift (qptwp_power n)) (lift (qptw_power n)) (lift (qdptw_power n))
  | QNclip a b => Build_ptw_entry (lift (qptwp_clip a b)) (lift (qptw_clip a b)) (lift (qdptw_clip a b))
  | QNsqrt => Build_ptw_entry (lift qptwp_sqrt) (lift qptw_sqrt) (lift qdptw_sqrt)
  | QNlog => Build_ptw_entry (lift qptwp_log) (lift qptw_log) (lift qdptw_log)
  end.

Definition q (n : Z) (d : positive) : Qc := Q2Qc (n # d).
Definition qhalf : Qc := q 1 2.
Definition qnonneg (c : Qc) : bool := Qle_bool 0%Q (this c).
Definition vq (l : list Qc) : vec Qc := fun i => nth i l (q 0 1).
Definition envq (l : list (list Qc)) : env Qc := fun k => vq (nth k l []).
Definition dimsq (l : list nat) : nat -> nat := fun k => nth k l 0%nat.

Definition qexpr := expr Qc qname.
Definition qenergy := energy Qc qname.
Definition qeval := eval Qc (q 0 1) Qcplus Qcmult Qcminus qname qtab.
Definition qlin := lin Qc (q 0 1) (q 1 1) Qcplus Qcmult Qcminus qname qtab.
Definition qevalD := evalD Qc (q 0 1) (q 1 1) Qcplus Qcmult Qcminus qname qtab.
Definition qtimes := times Qc (q 0 1) Qcplus Qcmult.
Definition qadj := adj Qc (q 0 1) Qcplus Qcmult.
Definition qevalE := evalE Qc (q 0 1) qhalf Qcplus Qcmult Qcminus qname qtab.
Definition qlinE := linE Qc (q 0 1) (q 1 1) qhalf Qcplus Qcmult Qcminus qnonneg qname qtab.
Definition qdense_times := dense_times Qc (q 0 1) (q 1 1) Qcplus Qcmult.
Definition qdense_adj := dense_adj Qc (q 0 1) (q 1 1) Qcplus Qcmult.
Definition qdense_metric := dense_metric Qc (q 0 1) (q 1 1) Qcplus Qcmult.

Fixpoint leq {X} (eqb : X -> X -> bool) (a b : list X) : bool :=
  match a, b with
  | [], [] => true
  | x :: a', y :: b' => eqb x y && leq eqb a' b'
  | _, _ => false
  end.
Definition eq1 := leq Qc_eq_bool.
Definition eq2 := leq eq1.
Definition eq3 := leq eq2.
Definition eq4 := leq eq3.

(* One correspondence case for an operator expression: the implementation's plain value, the value
   carried by the Linearization, the dense Jacobian through TIMES (columns) and through
   ADJOINT_TIMES (rows), and the shape discipline. *)
Definition check_expr (om : bool) (dims : list nat) (m : nat) (e : qexpr) (r : list (list Qc))
           (plain linval : list Qc) (jt ja : list (list (list Qc))) : bool :=
  let K := length dims in
  let (v, J) := qlin om e (envq r) in
  eq1 (tolist Qc m (qeval e (envq r))) plain &&
  eq1 (tolist Qc m v) linval &&
  eq3 (qdense_times K (dimsq dims) m J) jt &&
  eq3 (qdense_adj K (dimsq dims) m J) ja &&
  match jshape Qc K (dimsq dims) J with Some m' => m' =? m | None => false end.

Definition check_energy (wm : bool) (dims : list nat) (h : qenergy) (r : list (list Qc))
           (plain linval : Qc) (jt ja : list (list (list Qc))) (met : option (list (list (list (list Qc))))) : bool :=
  let K := length dims in
  let '(v, J, M) := qlinE true wm h (envq r) in
  Qc_eq_bool (qevalE h (envq r)) plain && Qc_eq_bool v linval &&
  eq3 (qdense_times K (dimsq dims) 1 J) jt &&
  eq3 (qdense_adj K (dimsq dims) 1 J) ja &&
  match M, met with
  | None, None => true
  | Some M, Some dm => eq4 (qdense_metric K (dimsq dims) M) dm
  | _, _ => false
  end.

(* ---- MultiLinearEinsum ------------------------------------------------------------------------------------
   operands in key_order; letters are numbers; dims: size of every letter; shapes: shape of every operand;
   plain / linval: flat (row-major) value; jt[p][e]: Jacobian applied to the e-th basis tensor of operand p (flat);
   ja[f][p]: adjoint applied to the f-th basis tensor of the target, component of operand p (flat). *)
Definition qein := ein Qc (q 0 1) (q 1 1) Qcplus Qcmult.
Definition qein_jac := ein_jac Qc (q 0 1) (q 1 1) Qcplus Qcmult.
Definition check_einsum (iss : list (list nat)) (oss summed : list nat) (dims : list nat) (shapes : list (list nat))
           (oshape : list nat) (ops : list (list Qc)) (plain linval : list Qc)
           (jt ja : list (list (list Qc))) : bool :=
  let dim := fun l => nth l dims 0%nat in
  let T := map (fun p => of_flat Qc (q 0 1) (fst p) (snd p)) (combine shapes ops) in
  let val := to_flat Qc oshape (qein iss oss summed dim T) in
  let M := map (fun p => let sh := nth p shapes [] in
                         map (fun e => to_flat Qc oshape (qein_jac iss oss summed dim T p (basis_t Qc (q 0 1) (q 1 1) sh e)))
                             (seq 0 (size sh)))
               (seq 0 (length shapes)) in
  let MT := map (fun f => map (fun p => map (fun e => nth f (nth e (nth p M []) []) (q 0 1))
                                            (seq 0 (size (nth p shapes []))))
                              (seq 0 (length shapes)))
                (seq 0 (size oshape)) in
  eq1 val plain && eq1 val linval && eq3 M jt && eq3 MT ja.

(* ---- partial contractions (sum / integrate over sub-spaces of a product domain) ------------------------------
   val0 / cols0: value and dense Jacobian columns of the Linearization the method is applied to;
   val1 / cols1: what the implementation returns;  w: product of the volume elements of the integrated spaces. *)
Definition check_contract (w : Qc) (tbl : list (list nat)) (val0 : list Qc) (cols0 : list (list Qc))
           (val1 : list Qc) (cols1 : list (list Qc)) : bool :=
  let (v, c) := lin_contract Qc (q 0 1) Qcplus Qcmult w tbl val0 cols0 in
  eq1 v val1 && eq2 c cols1.
