(* C03 -- the generated pointwise table (Gen_Ptw.v, regenerated from nifty/cl/pointwise.py on every
   run): every helper's second component is the derivative of its first component on the entry's
   natural open domain, and the plain function equals the helper's value component. *)
From Coq Require Import Reals Lra Lia Bool.
From Coquelicot Require Import Coquelicot.
Require Import NV.C03.PtwBase NV.C03.Gen_Ptw.
Open Scope R_scope.

Lemma ln10_pos : 0 < ln 10. Proof. rewrite <- ln_1; apply ln_increasing; lra. Qed.

Ltac unf := unfold ptw_sqrt, dptw_sqrt, ptw_sin, dptw_sin, ptw_cos, dptw_cos, ptw_tan, dptw_tan, ptw_exp, dptw_exp,
  ptw_expm1, dptw_expm1, ptw_log, dptw_log, ptw_log10, dptw_log10, ptw_log1p, dptw_log1p, ptw_sinh, dptw_sinh,
  ptw_cosh, dptw_cosh, ptw_tanh, dptw_tanh, ptw_sigmoid, dptw_sigmoid, ptw_reciprocal, dptw_reciprocal,
  ptw_power, dptw_power, ptw_exponentiate, dptw_exponentiate, ptw_arctan, dptw_arctan,
  tan, tanh, sinh, cosh, Rpower.
Ltac pos_facts :=
  repeat match goal with |- context [exp ?a] =>
    lazymatch goal with | _ : 0 < exp a |- _ => fail | _ => pose proof (exp_pos a) end end;
  pose proof ln10_pos.
Ltac side := pos_facts; repeat split; try exact I; try assumption; try lra; try nra;
  try (apply Rgt_not_eq; lra); try (apply Rgt_not_eq; nra).
Ltac eqn := pos_facts; try ring; try (field; side).
Ltac deriv := unf; auto_derive; [ side | eqn ].

(* ---- smooth entries ---------------------------------------------------------------------------- *)
Lemma d_sqrt x : 0 < x -> is_derive ptw_sqrt x (dptw_sqrt x).
Proof. intros; unf; auto_derive; [side|]. field. apply Rgt_not_eq, sqrt_lt_R0; lra. Qed.
Lemma d_sin x : is_derive ptw_sin x (dptw_sin x). Proof. deriv. Qed.
Lemma d_cos x : is_derive ptw_cos x (dptw_cos x). Proof. deriv. Qed.
Lemma d_tan x : cos x <> 0 -> is_derive ptw_tan x (dptw_tan x).
Proof. intros H; unf; auto_derive; [side|].
  assert (E: sin x * sin x + cos x * cos x = 1) by (generalize (sin2_cos2 x); unfold Rsqr; lra).
  field_simplify_eq; try assumption. nra. Qed.
Lemma d_exp x : is_derive ptw_exp x (dptw_exp x). Proof. deriv. Qed.
Lemma d_expm1 x : is_derive ptw_expm1 x (dptw_expm1 x). Proof. deriv. Qed.
Lemma d_log x : 0 < x -> is_derive ptw_log x (dptw_log x). Proof. intros; deriv. Qed.
Lemma d_log10 x : 0 < x -> is_derive ptw_log10 x (dptw_log10 x). Proof. intros; deriv. Qed.
Lemma d_log1p x : -1 < x -> is_derive ptw_log1p x (dptw_log1p x). Proof. intros; deriv. Qed.
Lemma d_sinh x : is_derive ptw_sinh x (dptw_sinh x). Proof. deriv. Qed.
Lemma d_cosh x : is_derive ptw_cosh x (dptw_cosh x). Proof. deriv. Qed.
Lemma d_tanh x : is_derive ptw_tanh x (dptw_tanh x). Proof. deriv. Qed.
Lemma d_sigmoid x : is_derive ptw_sigmoid x (dptw_sigmoid x). Proof. deriv. Qed.
Lemma d_reciprocal x : x <> 0 -> is_derive ptw_reciprocal x (dptw_reciprocal x). Proof. intros; deriv. Qed.
Lemma d_arctan x : is_derive ptw_arctan x (dptw_arctan x). Proof. deriv. Qed.
Lemma d_exponentiate b x : 0 < b -> is_derive (ptw_exponentiate b) x (dptw_exponentiate b x).
Proof. intros; deriv. Qed.
Lemma d_power e x : 0 < x -> is_derive (ptw_power e) x (dptw_power e x).
Proof. intros; unf; auto_derive; [side|].
  replace ((e - 1) * ln x) with (e * ln x + - ln x) by ring.
  rewrite exp_plus, exp_Ropp, exp_ln by lra. field; lra. Qed.

(* ---- piecewise entries, region by region ------------------------------------------------------- *)
Lemma Req_b_false a b : a <> b -> Req_b a b = false.
Proof. intros; unfold Req_b; destruct (Req_EM_T a b); congruence. Qed.
Lemma Req_b_true a b : a = b -> Req_b a b = true.
Proof. intros; unfold Req_b; destruct (Req_EM_T a b); congruence. Qed.
Lemma Rlt_b_true a b : a < b -> Rlt_b a b = true.
Proof. intros; unfold Rlt_b; destruct (Rlt_dec a b); auto; lra. Qed.
Lemma Rlt_b_false a b : b <= a -> Rlt_b a b = false.
Proof. intros; unfold Rlt_b; destruct (Rlt_dec a b); auto; lra. Qed.
Lemma Rle_b_true a b : a <= b -> Rle_b a b = true.
Proof. intros; unfold Rle_b; destruct (Rle_dec a b); auto; lra. Qed.
Lemma Rle_b_false a b : b < a -> Rle_b a b = false.
Proof. intros; unfold Rle_b; destruct (Rle_dec a b); auto; lra. Qed.

Lemma loc_lt (x y : R) : x < y -> locally x (fun t => t < y).
Proof. intros; now apply (open_lt y). Qed.
Lemma loc_gt (x y : R) : y < x -> locally x (fun t => y < t).
Proof. intros; now apply (open_gt y). Qed.

Lemma sign_pos x : 0 < x -> sign x = 1.
Proof. intros; unfold sign; destruct (total_order_T 0 x) as [[|]|]; lra. Qed.
Lemma sign_neg x : x < 0 -> sign x = -1.
Proof. intros; unfold sign; destruct (total_order_T 0 x) as [[|]|]; lra. Qed.

Lemma d_abs x : x <> 0 -> is_derive ptw_abs x (dptw_abs x).
Proof.
  intros H; unfold ptw_abs, dptw_abs. rewrite Req_b_false by assumption.
  destruct (Rlt_dec x 0).
  - rewrite sign_neg by lra.
    apply (is_derive_ext_loc (fun t => - t)).
    + apply (filter_imp (fun t => t < 0)); [|apply loc_lt; lra].
      intros t Ht; rewrite Rabs_left; lra.
    + auto_derive; [exact I | ring].
  - rewrite sign_pos by lra.
    apply (is_derive_ext_loc (fun t => t)).
    + apply (filter_imp (fun t => 0 < t)); [|apply loc_gt; lra].
      intros t Ht; rewrite Rabs_right; lra.
    + auto_derive; [exact I | ring].
Qed.
Lemma d_absolute x : x <> 0 -> is_derive ptw_absolute x (dptw_absolute x).
Proof. exact (d_abs x). Qed.

Lemma d_sign x : x <> 0 -> is_derive ptw_sign x (dptw_sign x).
Proof.
  intros H; unfold ptw_sign, dptw_sign. rewrite Req_b_false by assumption.
  destruct (Rlt_dec x 0).
  - apply (is_derive_ext_loc (fun _ => -1)).
    + apply (filter_imp (fun t => t < 0)); [|apply loc_lt; lra].
      intros t Ht; now rewrite sign_neg.
    + auto_derive; [exact I | ring].
  - apply (is_derive_ext_loc (fun _ => 1)).
    + apply (filter_imp (fun t => 0 < t)); [|apply loc_gt; lra].
      intros t Ht; now rewrite sign_pos.
    + auto_derive; [exact I | ring].
Qed.

Lemma d_unitstep x : x <> 0 -> is_derive ptw_unitstep x (dptw_unitstep x).
Proof.
  intros H; unfold ptw_unitstep, dptw_unitstep.
  destruct (Rlt_dec x 0).
  - apply (is_derive_ext_loc (fun _ => 0)).
    + apply (filter_imp (fun t => t < 0)); [|apply loc_lt; lra].
      intros t Ht; now rewrite Rle_b_false.
    + auto_derive; [exact I | ring].
  - apply (is_derive_ext_loc (fun _ => 1)).
    + apply (filter_imp (fun t => 0 < t)); [|apply loc_gt; lra].
      intros t Ht; rewrite Rle_b_true; lra.
    + auto_derive; [exact I | ring].
Qed.

Lemma clip_lo a b t : a < b -> t < a -> Rmin (Rmax t a) b = a.
Proof. intros; rewrite Rmax_right by lra; rewrite Rmin_left; lra. Qed.
Lemma clip_mid a b t : a < t -> t < b -> Rmin (Rmax t a) b = t.
Proof. intros; rewrite Rmax_left by lra; rewrite Rmin_left; lra. Qed.
Lemma clip_hi a b t : a < b -> b < t -> Rmin (Rmax t a) b = b.
Proof. intros; rewrite Rmax_left by lra; rewrite Rmin_right; lra. Qed.

Lemma d_clip a b x : a < b -> x <> a -> x <> b -> is_derive (ptw_clip a b) x (dptw_clip a b x).
Proof.
  intros Hab Ha Hb; unfold ptw_clip, dptw_clip.
  destruct (Rlt_dec x a); [|destruct (Rlt_dec x b)].
  - rewrite clip_lo by lra. rewrite (Req_b_false a b) by lra. rewrite Req_b_true by reflexivity.
    apply (is_derive_ext_loc (fun _ => a)).
    + apply (filter_imp (fun t => t < a)); [|apply loc_lt; lra].
      intros t Ht; now rewrite clip_lo.
    + auto_derive; [exact I | ring].
  - rewrite clip_mid by lra. rewrite !Req_b_false by lra.
    apply (is_derive_ext_loc (fun t => t)).
    + apply (filter_imp (fun t => a < t /\ t < b)).
      * intros t [H1 H2]; now rewrite clip_mid.
      * apply filter_and; [apply loc_gt | apply loc_lt]; lra.
    + auto_derive; [exact I | ring].
  - rewrite clip_hi by lra. rewrite Req_b_true by reflexivity.
    apply (is_derive_ext_loc (fun _ => b)).
    + apply (filter_imp (fun t => b < t)); [|apply loc_gt; lra].
      intros t Ht; now rewrite clip_hi.
    + auto_derive; [exact I | ring].
Qed.

Lemma d_softplus x : x <> 33 -> x <> -33 -> is_derive ptw_softplus x (dptw_softplus x).
Proof.
  intros H1 H2; unfold ptw_softplus, dptw_softplus.
  destruct (Rlt_dec x (-33)); [|destruct (Rlt_dec x 33)].
  - rewrite Rlt_b_true by lra.
    apply (is_derive_ext_loc (fun _ => 0)).
    + apply (filter_imp (fun t => t < -33)); [|apply loc_lt; lra].
      intros t Ht; now rewrite Rlt_b_true.
    + auto_derive; [exact I | ring].
  - rewrite (Rlt_b_false x (-33)) by lra. rewrite (Rlt_b_false 33 x) by lra. cbn [orb negb].
    apply (is_derive_ext_loc (fun t => ln (1 + exp t))).
    + apply (filter_imp (fun t => -33 < t /\ t < 33)).
      * intros t [Ha Hb]. rewrite (Rlt_b_false t (-33)) by lra. rewrite (Rlt_b_false 33 t) by lra. reflexivity.
      * apply filter_and; [apply loc_gt | apply loc_lt]; lra.
    + auto_derive; [side|]. pose proof (exp_pos x). rewrite exp_Ropp. field. split; lra.
  - rewrite (Rlt_b_false x (-33)) by lra. rewrite (Rlt_b_true 33 x) by lra. cbn [orb negb].
    apply (is_derive_ext_loc (fun t => t)).
    + apply (filter_imp (fun t => 33 < t)); [|apply loc_gt; lra].
      intros t Ht. rewrite (Rlt_b_false t (-33)) by lra. rewrite (Rlt_b_true 33 t) by lra. reflexivity.
    + auto_derive; [exact I | ring].
Qed.

Lemma d_sinc x : x <> 0 -> is_derive ptw_sinc x (dptw_sinc x).
Proof.
  intros H; unfold ptw_sinc, dptw_sinc. rewrite Req_b_false by assumption. cbn [negb].
  apply (is_derive_ext_loc (fun t => sin (PI * t) / (PI * t))).
  - apply (filter_imp (fun t => t <> 0)); [|now apply (open_neq 0)].
    intros t Ht; unfold np_sinc; destruct (Req_EM_T t 0); congruence.
  - pose proof PI_RGT_0.
    unfold np_sinc; destruct (Req_EM_T x 0); [congruence|].
    auto_derive; [ apply Rmult_integral_contrapositive_currified; lra |]. field. split; lra.
Qed.

(* sinc at 0: |sin a - a| <= |a|^3/6 near 0 gives the difference quotient bound pi^2 |h| / 6 *)

Lemma sin_cubic_pos a : 0 <= a -> a <= 1 -> a - a^3/6 <= sin a <= a.
Proof.
  intros H0 H1; split.
  - destruct (pre_sin_bound a 0) as [L _]; try lra.
    unfold sin_approx, sin_term in L; simpl in L. lra.
  - destruct (Req_dec a 0) as [->|]; [rewrite sin_0; lra|].
    left; apply sin_lt_x; lra.
Qed.
Lemma sin_cubic a : Rabs a <= 1 -> Rabs (sin a - a) <= Rabs a ^ 3 / 6.
Proof.
  intros H. destruct (Rle_dec 0 a).
  - rewrite (Rabs_right a) in * by lra. destruct (sin_cubic_pos a) as [L U]; try lra.
    rewrite Rabs_left1 by lra. lra.
  - rewrite (Rabs_left a) in * by lra. destruct (sin_cubic_pos (-a)) as [L U]; try lra.
    rewrite sin_neg in L, U. rewrite Rabs_right by lra. lra.
Qed.

Lemma d_sinc_0 : is_derive ptw_sinc 0 (dptw_sinc 0).
Proof.
  unfold ptw_sinc, dptw_sinc. unfold Req_b at 1. destruct (Req_EM_T 0 0) as [_|]; [|congruence]. cbn [negb].
  apply is_derive_Reals. intros eps Heps.
  assert (Hd : 0 < Rmin (1/4) (eps/3)) by (apply Rmin_pos; lra).
  exists (mkposreal _ Hd). intros h Hh Hlt; simpl in Hlt.
  pose proof PI_RGT_0 as Hpi. pose proof PI_4 as Hpi4.
  assert (Hh1 : Rabs h < 1/4) by (eapply Rlt_le_trans; [exact Hlt|apply Rmin_l]).
  assert (Hh2 : Rabs h < eps/3) by (eapply Rlt_le_trans; [exact Hlt|apply Rmin_r]).
  rewrite Rplus_0_l. unfold np_sinc. destruct (Req_EM_T 0 0) as [_|]; [|congruence].
  destruct (Req_EM_T h 0); [congruence|].
  assert (Hah : 0 < Rabs h) by (apply Rabs_pos_lt; assumption).
  assert (Hph : Rabs (PI * h) <= 1).
  { rewrite Rabs_mult, (Rabs_right PI) by lra. apply Rle_trans with (4 * Rabs h); [apply Rmult_le_compat_r|]; lra. }
  pose proof (sin_cubic (PI * h) Hph) as Hc.
  rewrite Rabs_mult, (Rabs_right PI) in Hc by lra.
  replace ((sin (PI * h) / (PI * h) - 1) / h - 0) with ((sin (PI * h) - PI * h) / (PI * h * h)) by (field; lra).
  unfold Rdiv at 1. rewrite Rabs_mult, Rabs_inv, !Rabs_mult, (Rabs_right PI) by lra.
  apply Rle_lt_trans with ((PI * Rabs h) ^ 3 / 6 * / (PI * Rabs h * Rabs h)).
  - apply Rmult_le_compat_r; [|exact Hc]. left; apply Rinv_0_lt_compat; apply Rmult_lt_0_compat; [apply Rmult_lt_0_compat|]; lra.
  - replace ((PI * Rabs h) ^ 3 / 6 * / (PI * Rabs h * Rabs h)) with (PI * PI * Rabs h / 6) by (field; lra).
    assert (PI * PI <= 16) by nra. assert (PI * PI * Rabs h <= 16 * Rabs h) by (apply Rmult_le_compat_r; lra). lra.
Qed.

Lemma d_sinc_all x : is_derive ptw_sinc x (dptw_sinc x).
Proof. destruct (Req_dec x 0) as [->|H]; [exact d_sinc_0 | exact (d_sinc x H)]. Qed.

(* ---- plain function = value component of the helper (the source writes them twice) ------------- *)
Lemma v_all :
  (forall x, ptwp_sqrt x = ptw_sqrt x) /\ (forall x, ptwp_sin x = ptw_sin x) /\ (forall x, ptwp_cos x = ptw_cos x) /\
  (forall x, ptwp_tan x = ptw_tan x) /\ (forall x, ptwp_sinc x = ptw_sinc x) /\ (forall x, ptwp_exp x = ptw_exp x) /\
  (forall x, ptwp_expm1 x = ptw_expm1 x) /\ (forall x, ptwp_log x = ptw_log x) /\ (forall x, ptwp_log10 x = ptw_log10 x) /\
  (forall x, ptwp_log1p x = ptw_log1p x) /\ (forall x, ptwp_sinh x = ptw_sinh x) /\ (forall x, ptwp_cosh x = ptw_cosh x) /\
  (forall x, ptwp_tanh x = ptw_tanh x) /\ (forall x, ptwp_sigmoid x = ptw_sigmoid x) /\
  (forall x, ptwp_reciprocal x = ptw_reciprocal x) /\ (forall x, ptwp_abs x = ptw_abs x) /\
  (forall x, ptwp_absolute x = ptw_absolute x) /\ (forall x, ptwp_sign x = ptw_sign x) /\
  (forall e x, ptwp_power e x = ptw_power e x) /\ (forall a b x, ptwp_clip a b x = ptw_clip a b x) /\
  (forall x, ptwp_softplus x = ptw_softplus x) /\ (forall b x, ptwp_exponentiate b x = ptw_exponentiate b x) /\
  (forall x, ptwp_arctan x = ptw_arctan x) /\ (forall x, ptwp_unitstep x = ptw_unitstep x).
Proof. repeat split; intros; reflexivity. Qed.
