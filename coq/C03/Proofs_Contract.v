(* C03 -- a (weighted) partial contraction is linear, hence the derivative of  contraction o F  along any direction is
   the contraction of the derivative of F: contracting the Jacobian columns is the exact Jacobian. *)
From Coq Require Import List Arith Bool Ring.
Import ListNotations.
Require Import NV.C03.Contract.

Section ContractProofs.
  Variable A : Type.
  Variables (a0 a1 : A) (aadd amul asub : A -> A -> A) (aopp : A -> A).
  Variable Rth : ring_theory a0 a1 aadd amul asub aopp (@eq A).
  Add Ring Aring : Rth.
  Notation suml := (suml A a0 aadd).
  Notation contract := (contract A a0 aadd amul).
  Infix "+" := aadd. Infix "*" := amul.

  Lemma suml_lin c (x y : nat -> A) l : suml (map (fun i => c * x i + y i) l) = c * suml (map x l) + suml (map y l).
  Proof. induction l; simpl; [ring | rewrite IHl; ring]. Qed.

  Lemma contract_linear w tbl c (x y : nat -> A) o :
    nth o (contract w tbl (fun i => c * x i + y i)) a0
    = c * nth o (contract w tbl x) a0 + nth o (contract w tbl y) a0.
  Proof.
    unfold Contract.contract. revert o. induction tbl as [|s tbl IH]; intros [|o]; simpl; try ring.
    - rewrite suml_lin. ring.
    - apply IH.
  Qed.

  (* dual numbers: value part and tangent part are contracted separately *)
  Lemma contract_dual w tbl (v t : nat -> A) o :
    nth o (map (fun srcs => (w * suml (map v srcs), w * suml (map t srcs))) tbl) (a0, a0)
    = (nth o (contract w tbl v) a0, nth o (contract w tbl t) a0).
  Proof. unfold Contract.contract. revert o. induction tbl; intros [|o]; simpl; try reflexivity. apply IHtbl. Qed.
End ContractProofs.
