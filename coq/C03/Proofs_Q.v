(* C03 -- the rational instance satisfies the hypotheses of the generic algebra theorems. *)
From Coq Require Import List Arith Bool ZArith QArith Qcanon Ring.
Require Import NV.C03.Model NV.C03.ModelQ.

Lemma qc_instance :
  ring_theory (q 0 1) (q 1 1) Qcplus Qcmult Qcminus Qcopp (@eq Qc) /\
  (forall p x, pf (qtab p) x = phf (qtab p) x) /\
  Qcmult qhalf (two Qc (q 1 1) Qcplus) = q 1 1.
Proof.
  split; [exact Qcrt|]. split.
  - intros [] x; reflexivity.
  - apply Qc_is_canon. reflexivity.
Qed.
