(* C29 -- property theorems only.  Each is closed by [exact] of a lemma from Proofs.v.
   Numbers are canonical rationals Qc; square roots / exponentials enter only through the
   relations stated as hypotheses (s*s = dt, r*r = dt^2/12 + asperity, amp^2 = sigma^2 (1 - e^2)). *)
From Coq Require Import QArith Qcanon List Bool ZArith Lia.
Import ListNotations.
Require Import NV.C29.Model NV.C29.Proofs NV.C29.Proofs2.
Open Scope Qc_scope.

(* ---- discrete_gauss_markov_process: the fori_loop with scatter-add (running to res.size, i.e.
   beyond the last row, where the updates are dropped) is the textbook recursion
   x_{k+1} = drift_k x_k + diffamp_k xi_k -- for any state space, any number of steps *)
Theorem C29_generic_is_recursion :
  forall (V D : Type) (vadd : V -> V -> V) (app : D -> V -> V) (vdef : V)
         (dim : nat) (drift : nat -> D) (g : list V) (x0 : V),
    (1 <= dim)%nat ->
    gmp V D vadd app vdef dim drift g x0 = recursion V D vadd app drift 0 x0 g.
Proof. exact gmp_is_recursion. Qed.

(* ---- Wiener process: the cumsum formulation is the recursion x_{k+1} = x_k + s_k sigma_k xi_k
   (every number of steps, non-uniform grids, time-varying sigma), and the generic generator with
   drift 1 agrees with it *)
Theorem C29_wiener_vectorised_is_recursion :
  forall xi x0 sigma s,
    wiener xi x0 sigma s =
    lrec Qcplus Qcmult x0 (repeat 1 (length (map2 Qcmult (map2 Qcmult s sigma) xi)))
         (map2 Qcmult (map2 Qcmult s sigma) xi).
Proof. exact wiener_is_recursion. Qed.

Theorem C29_wiener_generic_agrees :
  forall xi x0 sigma s,
    wiener xi x0 sigma s =
    gmp1 (repeat 1 (length (map2 Qcmult (map2 Qcmult s sigma) xi))) (map2 Qcmult s sigma) xi x0.
Proof. exact wiener_generic_agree. Qed.

(* ---- integrated Wiener process: the seven vectorised lines are the recursion with
   F_k = [[1, dt_k], [0, 1]] and G_k = sigma_k s_k [[r_k, dt_k/2], [0, 1]], and the generic generator
   with these matrices agrees with it *)
Theorem C29_iwp_vectorised_is_recursion :
  forall xi x0 sigma s dt r,
    length sigma = length xi -> length s = length xi -> length dt = length xi -> length r = length xi ->
    iwp xi x0 sigma s dt r =
    lrec vadd2 mv x0 (map iwp_drift dt)
         (map2 (fun p x => mv (iwp_amp (fst (fst p)) (snd (fst p)) (fst (snd p)) (snd (snd p))) x)
               (combine (combine sigma s) (combine dt r)) xi).
Proof. exact iwp_is_recursion. Qed.

Theorem C29_iwp_generic_agrees :
  forall xi x0 sigma s dt r,
    length sigma = length xi -> length s = length xi -> length dt = length xi -> length r = length xi ->
    iwp xi x0 sigma s dt r = gmp2 (map iwp_drift dt) (iwp_amps sigma s dt r) xi x0.
Proof. exact iwp_generic_agree. Qed.

(* ---- the transition covariance G G^T is that of the continuous-time process over a step dt:
   sigma^2 [[dt^3/3 + asperity dt, dt^2/2], [dt^2/2, dt]]  (asperity enters as coded: linearly) *)
Theorem C29_iwp_transition :
  forall sigma s dt r asp,
    s * s = dt -> r * r = dt * dt * twelfth + asp ->
    ggt (iwp_amp sigma s dt r) = iwp_Q sigma asp dt.
Proof. exact iwp_transition. Qed.

(* ---- semigroup: Q(d1 + d2) = F(d2) Q(d1) F(d2)^T + Q(d2); hence the marginal covariance after
   any sequence of (non-uniform) steps is the closed form at the accumulated time, and the
   covariance of the response columns propagates exactly like that *)
Theorem C29_iwp_semigroup :
  forall sigma asp d1 d2,
    iwp_propagate d2 (iwp_Q sigma asp d1) (iwp_Q sigma asp d2) = iwp_Q sigma asp (d1 + d2).
Proof. exact iwp_semigroup. Qed.

Theorem C29_iwp_marginal_covariance :
  forall sigma asp dts t,
    iwp_marginals sigma asp dts (iwp_Q sigma asp t) = map (iwp_Q sigma asp) (times_from t dts).
Proof. exact iwp_marginals_closed. Qed.

Theorem C29_iwp_cov_propagation :
  forall dt G cols,
    colsum (cols_step (iwp_drift dt) G cols) = iwp_propagate dt (colsum cols) (ggt G).
Proof. exact iwp_cov_propagation. Qed.

(* ---- the 2-D state is linear in the excitations: after every step the state of the recursion
   x_{k+1} = F_k x_k + G_k xi_k (any matrices) is the response columns applied to
   (x0_0, x0_1, xi_00, xi_01, xi_10, ...); for the integrated Wiener process as coded this ties the
   numeric run to the columns whose covariance C29_iwp_cov_propagation / C29_iwp_marginal_covariance describe *)
Theorem C29_state_linear :
  forall Fs cols pre Gs xis,
    length cols = length pre -> length Gs = length Fs -> length xis = length Fs ->
    lrec vadd2 mv (apply_cols cols pre) Fs (map2 mv Gs xis) =
    map (fun c => apply_cols c (pre ++ flat_xi xis)) (iwp_cols cols Fs Gs).
Proof. exact state_linear. Qed.

Theorem C29_iwp_linear :
  forall xi x0 sigma s dt r,
    length sigma = length xi -> length s = length xi -> length dt = length xi -> length r = length xi ->
    iwp xi x0 sigma s dt r =
    map (fun c => apply_cols c ([fst x0; snd x0] ++ flat_xi xi))
        (iwp_cols [(1, 0); (0, 1)] (map iwp_drift dt) (iwp_amps sigma s dt r)).
Proof. exact iwp_linear. Qed.

(* ---- scalar processes are linear in the excitations: x_k = <row_k, excitations>, where one step
   scales the coefficient row by the drift and appends the amplitude *)
Theorem C29_scalar_linear :
  forall ds row pre amps xis,
    length row = length pre -> length amps = length ds -> length xis = length ds ->
    lrec Qcplus Qcmult (dot row pre) ds (map2 Qcmult amps xis) =
    map (fun r => dot r (pre ++ xis)) (srows row ds amps).
Proof. exact scalar_linear. Qed.

(* ---- Wiener covariance: Var(x_k) = running sum of amp_j^2 = sigma_j^2 dt_j (= sigma^2 t_k for
   constant sigma), Cov(x_i, x_j) = Var(x_min(i,j)) *)
Theorem C29_wiener_variances :
  forall amps row qs,
    Forall2 (fun a q => a * a = q) amps qs ->
    map (fun r => dot r r) (srows row (repeat 1 (length amps)) amps) = times_from (dot row row) qs.
Proof. exact wiener_variances. Qed.

Theorem C29_wiener_cov_min :
  forall amps row,
    map (fun r => dot r row) (srows row (repeat 1 (length amps)) amps) = repeat (dot row row) (S (length amps)).
Proof. exact wiener_cov_min. Qed.

Theorem C29_times_scale :
  forall c dts t, times_from (c * t) (map (Qcmult c) dts) = map (Qcmult c) (times_from t dts).
Proof. exact times_scale. Qed.

(* ---- Ornstein-Uhlenbeck: ou is the recursion x_{k+1} = e_k x_k + sigma_k q_k xi_k; with
   amp_k^2 = sigma^2 (1 - e_k^2) the variance sigma^2 is invariant, covariances decay by the
   product of the drifts in between, and two steps compose to one (e(dt1+dt2) = e(dt1) e(dt2)) *)
Theorem C29_ou_is_recursion :
  forall xi x0 sigma e q,
    length e = length (map2 Qcmult (map2 Qcmult sigma q) xi) ->
    ou xi x0 sigma e q = lrec Qcplus Qcmult x0 e (map2 Qcmult (map2 Qcmult sigma q) xi).
Proof. exact ou_is_recursion. Qed.

Theorem C29_ou_stationary :
  forall sigma ds row amps,
    dot row row = sigma * sigma ->
    Forall2 (fun d a => a * a = sigma * sigma * (1 - d * d)) ds amps ->
    Forall (fun r => dot r r = sigma * sigma) (srows row ds amps).
Proof. exact ou_stationary. Qed.

Theorem C29_cov_decay :
  forall ds row amps r0,
    (length r0 <= length row)%nat ->
    map (fun r => dot r r0) (srows row ds amps) = decays (dot row r0) ds amps.
Proof. exact cov_decay. Qed.

Theorem C29_ou_semigroup :
  forall sigma e1 e2 a1 a2,
    a1 * a1 = sigma * sigma * (1 - e1 * e1) -> a2 * a2 = sigma * sigma * (1 - e2 * e2) ->
    (e2 * a1) * (e2 * a1) + a2 * a2 = sigma * sigma * (1 - (e1 * e2) * (e1 * e2)).
Proof. exact ou_semigroup. Qed.

(* ---- round 7: a scalar (time-independent) drift -- the else-branch of `d = drift[i] if len(drift.shape) > 2
   else drift` -- is the textbook recursion with that constant, and equals the per-step path driven with the
   constant repeated; any number of steps, incl. the loop's overrun to res.size *)
Theorem C29_const_drift_is_recursion :
  forall d amp xi x0,
    gmp1_cd d amp xi x0 = recursion Qc Qc Qcplus Qcmult (fun _ => d) 0 x0 (map2 Qcmult amp xi).
Proof. exact gmp1_cd_is_recursion. Qed.

Theorem C29_const_drift_agrees_with_sequence :
  forall d amp xi x0,
    gmp1_cd d amp xi x0 = gmp1 (repeat d (length (map2 Qcmult amp xi))) amp xi x0.
Proof. exact gmp1_cd_is_gmp1. Qed.

(* ---- non-vacuity: the relations have rational witnesses, and the models run *)
Example C29_hyps_satisfiable :
  let dt := Q2Qc (1 # 4) in let s := Q2Qc (1 # 2) in let asp := Q2Qc (143 # 768) in let r := Q2Qc (7 # 16) in
  s * s = dt /\ r * r = dt * dt * twelfth + asp /\
  wiener [1; 1] 0 [Q2Qc 2; Q2Qc 2] [s; s] = [0; 1; Q2Qc 2] /\
  (let e := Q2Qc (3 # 5) in let a := Q2Qc (4 # 5) in a * a = 1 * 1 * (1 - e * e)).
Proof. repeat split; apply Qc_is_canon; reflexivity. Qed.
