(* C29 -- lemmas about the Gauss-Markov process models. *)
From Coq Require Import QArith Qcanon Qabs List Bool ZArith Lia.
Import ListNotations.
Require Import NV.C29.Model.
Open Scope Qc_scope.

(* ------------------------------------------------------------------ the fori_loop of
   discrete_gauss_markov_process is the textbook recursion, for every loop bound >= #steps *)
Section Loop.
  Variable V D : Type.
  Variable vadd : V -> V -> V.
  Variable app : D -> V -> V.
  Variable vdef : V.
  Notation upd_add := (upd_add V vadd).
  Notation fori := (fori V D vadd app vdef).
  Notation recursion := (recursion V D vadd app).

  Lemma upd_add_app pre x t y :
    upd_add (pre ++ x :: t) (length pre) y = pre ++ vadd x y :: t.
  Proof. induction pre as [|p pre IH]; simpl; [reflexivity | rewrite IH; reflexivity]. Qed.

  Lemma upd_add_oob a k y : (length a <= k)%nat -> upd_add a k y = a.
  Proof.
    revert k. induction a as [|x a IH]; intros k H; simpl in *; [destruct k; reflexivity|].
    destruct k; [lia|]. rewrite IH by lia. reflexivity.
  Qed.

  Lemma nth_app_mid (pre : list V) x t : nth (length pre) (pre ++ x :: t) vdef = x.
  Proof. induction pre; simpl; auto. Qed.

  Lemma fori_full drift gs : forall pre x lo,
    length pre = lo ->
    fori drift lo (length gs) (pre ++ x :: gs) = pre ++ recursion drift lo x gs.
  Proof.
    induction gs as [|g gs IH]; intros pre x lo H; simpl; [reflexivity|].
    unfold loop_body. subst lo. rewrite nth_app_mid.
    replace (pre ++ x :: g :: gs) with ((pre ++ [x]) ++ g :: gs) by (rewrite <- app_assoc; reflexivity).
    replace (S (length pre)) with (length (pre ++ [x])) by (rewrite app_length; simpl; lia).
    rewrite upd_add_app. rewrite IH by reflexivity.
    rewrite <- app_assoc. simpl. rewrite app_length. simpl.
    replace (length pre + 1)%nat with (S (length pre)) by lia. reflexivity.
  Qed.

  Lemma fori_overrun drift m : forall lo a, (length a <= S lo)%nat -> fori drift lo m a = a.
  Proof.
    induction m as [|m IH]; intros lo a H; simpl; [reflexivity|].
    unfold loop_body. rewrite upd_add_oob by lia. apply IH. lia.
  Qed.

  Lemma fori_split drift n : forall m lo a,
    fori drift lo (n + m) a = fori drift (lo + n) m (fori drift lo n a).
  Proof.
    induction n as [|n IH]; intros m lo a; simpl.
    - replace (lo + 0)%nat with lo by lia. reflexivity.
    - rewrite IH. replace (S lo + n)%nat with (lo + S n)%nat by lia. reflexivity.
  Qed.

  Lemma recursion_length drift gs : forall k x, length (recursion drift k x gs) = S (length gs).
  Proof. induction gs as [|g gs IH]; intros k x; simpl; [reflexivity | rewrite IH; reflexivity]. Qed.

  Theorem gmp_is_recursion dim drift g x0 :
    (1 <= dim)%nat -> gmp V D vadd app vdef dim drift g x0 = recursion drift 0 x0 g.
  Proof.
    intros Hd. unfold gmp.
    replace (length (x0 :: g) * dim)%nat with (length g + (length (x0 :: g) * dim - length g))%nat
      by (simpl; nia).
    rewrite fori_split. pose proof (fori_full drift g [] x0 0%nat eq_refl) as E. simpl app in E.
    rewrite E. apply fori_overrun. rewrite recursion_length. lia.
  Qed.

  Lemma recursion_ext d1 d2 gs : forall k x,
    (forall i, (k <= i < k + length gs)%nat -> d1 i = d2 i) ->
    recursion d1 k x gs = recursion d2 k x gs.
  Proof.
    induction gs as [|g gs IH]; intros k x H; simpl; [reflexivity|].
    rewrite (H k) by (simpl; lia). f_equal. apply IH. intros i Hi. apply H. simpl. lia.
  Qed.

  (* list-driven form of the recursion *)
  Fixpoint lrec (x : V) (ds : list D) (gs : list V) : list V :=
    match ds, gs with
    | d :: ds', g :: gs' => x :: lrec (vadd g (app d x)) ds' gs'
    | _, _ => [x]
    end.

  Lemma recursion_lrec (ddef : D) ds gs : forall k x pre,
    length pre = k -> length ds = length gs ->
    recursion (fun i => nth i (pre ++ ds) ddef) k x gs = lrec x ds gs.
  Proof.
    revert ds. induction gs as [|g gs IH]; intros [|d ds] k x pre Hk HL; simpl in *; try lia; try reflexivity.
    subst k. rewrite app_nth2 by lia. rewrite Nat.sub_diag. simpl. f_equal.
    replace (pre ++ d :: ds) with ((pre ++ [d]) ++ ds) by (rewrite <- app_assoc; reflexivity).
    apply IH; [rewrite app_length; simpl; lia | lia].
  Qed.
End Loop.
