(* C29 -- lemmas about the Gauss-Markov process models. *)
From Coq Require Import QArith Qcanon Qabs List Bool ZArith Lia.
Import ListNotations.
Require Import NV.C29.Model.
Open Scope Qc_scope.

(* ------------------------------------------------------------------ the fori_loop of
   discrete_gauss_markov_process is the textbook recursion, for every loop bound >= #steps *)
Section Loop.
  Variable V D : Type.
  Variable vadd : V -> V -> V.
  Variable app : D -> V -> V.
  Variable vdef : V.
  Notation upd_add := (upd_add V vadd).
  Notation fori := (fori V D vadd app vdef).
  Notation recursion := (recursion V D vadd app).

  Lemma upd_add_app pre x t y :
    upd_add (pre ++ x :: t) (length pre) y = pre ++ vadd x y :: t.
  Proof. induction pre as [|p pre IH]; simpl; [reflexivity | rewrite IH; reflexivity]. Qed.

  Lemma upd_add_oob a k y : (length a <= k)%nat -> upd_add a k y = a.
  Proof.
    revert k. induction a as [|x a IH]; intros k H; simpl in *; [destruct k; reflexivity|].
    destruct k; [lia|]. rewrite IH by lia. reflexivity.
  Qed.

  Lemma nth_app_mid (pre : list V) x t : nth (length pre) (pre ++ x :: t) vdef = x.
  Proof. induction pre; simpl; auto. Qed.

  Lemma fori_full drift gs : forall pre x lo,
    length pre = lo ->
    fori drift lo (length gs) (pre ++ x :: gs) = pre ++ recursion drift lo x gs.
  Proof.
    induction gs as [|g gs IH]; intros pre x lo H; simpl; [reflexivity|].
    unfold loop_body. subst lo. rewrite nth_app_mid.
    replace (pre ++ x :: g :: gs) with ((pre ++ [x]) ++ g :: gs) by (rewrite <- app_assoc; reflexivity).
    replace (S (length pre)) with (length (pre ++ [x])) by (rewrite app_length; simpl; lia).
    rewrite upd_add_app. rewrite IH by reflexivity.
    rewrite <- app_assoc. simpl. rewrite app_length. simpl.
    replace (length pre + 1)%nat with (S (length pre)) by lia. reflexivity.
  Qed.

  Lemma fori_overrun drift m : forall lo a, (length a <= S lo)%nat -> fori drift lo m a = a.
  Proof.
    induction m as [|m IH]; intros lo a H; simpl; [reflexivity|].
    unfold loop_body. rewrite upd_add_oob by lia. apply IH. lia.
  Qed.

  Lemma fori_split drift n : forall m lo a,
    fori drift lo (n + m) a = fori drift (lo + n) m (fori drift lo n a).
  Proof.
    induction n as [|n IH]; intros m lo a; simpl.
    - replace (lo + 0)%nat with lo by lia. reflexivity.
    - rewrite IH. replace (S lo + n)%nat with (lo + S n)%nat by lia. reflexivity.
  Qed.

  Lemma recursion_length drift gs : forall k x, length (recursion drift k x gs) = S (length gs).
  Proof. induction gs as [|g gs IH]; intros k x; simpl; [reflexivity | rewrite IH; reflexivity]. Qed.

  Theorem gmp_is_recursion dim drift g x0 :
    (1 <= dim)%nat -> gmp V D vadd app vdef dim drift g x0 = recursion drift 0 x0 g.
  Proof.
    intros Hd. unfold gmp.
    replace (length (x0 :: g) * dim)%nat with (length g + (length (x0 :: g) * dim - length g))%nat
      by (simpl; nia).
    rewrite fori_split. pose proof (fori_full drift g [] x0 0%nat eq_refl) as E. change ([] ++ x0 :: g) with (x0 :: g) in E. change ([] ++ recursion drift 0 x0 g) with (recursion drift 0 x0 g) in E.
    rewrite E. apply fori_overrun. rewrite recursion_length. lia.
  Qed.

  Lemma recursion_ext d1 d2 gs : forall k x,
    (forall i, (k <= i < k + length gs)%nat -> d1 i = d2 i) ->
    recursion d1 k x gs = recursion d2 k x gs.
  Proof.
    induction gs as [|g gs IH]; intros k x H; simpl; [reflexivity|].
    rewrite (H k) by (simpl; lia). f_equal. apply IH. intros i Hi. apply H. simpl. lia.
  Qed.

  (* list-driven form of the recursion *)
  Fixpoint lrec (x : V) (ds : list D) (gs : list V) : list V :=
    match ds, gs with
    | d :: ds', g :: gs' => x :: lrec (vadd g (app d x)) ds' gs'
    | _, _ => [x]
    end.

  Lemma recursion_lrec (ddef : D) ds gs : forall k x pre,
    length pre = k -> length ds = length gs ->
    recursion (fun i => nth i (pre ++ ds) ddef) k x gs = lrec x ds gs.
  Proof.
    revert ds. induction gs as [|g gs IH]; intros [|d ds] k x pre Hk HL; simpl in *; try lia; try reflexivity.
    subst k. rewrite app_nth2 by lia. rewrite Nat.sub_diag. simpl. f_equal.
    replace (pre ++ d :: ds) with ((pre ++ [d]) ++ ds) by (rewrite <- app_assoc; reflexivity).
    apply IH; [rewrite app_length; simpl; lia | lia].
  Qed.
End Loop.

Arguments lrec {V D} vadd app x ds gs.

(* ------------------------------------------------------------------ Wiener process *)
Definition lrec1 := @lrec Qc Qc Qcplus Qcmult.
Definition lrec2 := @lrec (Qc * Qc) mat vadd2 mv.

Lemma cumsum_from_lrec gs : forall acc,
  acc :: cumsum_from acc gs = lrec1 acc (repeat 1 (length gs)) gs.
Proof.
  induction gs as [|g gs IH]; intros acc; simpl; [reflexivity|].
  f_equal. rewrite IH. f_equal. ring.
Qed.

Lemma cumsum_cons x l : cumsum (x :: l) = x :: cumsum_from x l.
Proof. unfold cumsum. simpl. replace (0 + x) with x by ring. reflexivity. Qed.

Lemma map2_length {A B C} (f : A -> B -> C) a b : length (map2 f a b) = Nat.min (length a) (length b).
Proof. revert b. induction a as [|x a IH]; intros [|y b]; simpl; auto. Qed.

(* the cumsum formulation IS the recursion x_{k+1} = x_k + s_k sigma_k xi_k, for every number of
   steps and every (non-uniform) grid / time-varying sigma *)
Theorem wiener_is_recursion xi x0 sigma s :
  wiener xi x0 sigma s =
  lrec1 x0 (repeat 1 (length (map2 Qcmult (map2 Qcmult s sigma) xi))) (map2 Qcmult (map2 Qcmult s sigma) xi).
Proof. unfold wiener. rewrite cumsum_cons. apply cumsum_from_lrec. Qed.

(* the generic scalar generator with drift 1 and the same amplitudes reproduces it *)
Theorem gmp1_is_lrec drift amp xi x0 :
  length drift = length (map2 Qcmult amp xi) ->
  gmp1 drift amp xi x0 = lrec1 x0 drift (map2 Qcmult amp xi).
Proof.
  intros H. unfold gmp1. rewrite gmp_is_recursion by lia.
  apply (recursion_lrec Qc Qc Qcplus Qcmult (last drift 0) drift _ 0%nat x0 []); auto.
Qed.

Theorem wiener_generic_agree xi x0 sigma s :
  wiener xi x0 sigma s =
  gmp1 (repeat 1 (length (map2 Qcmult (map2 Qcmult s sigma) xi))) (map2 Qcmult s sigma) xi x0.
Proof. rewrite gmp1_is_lrec by apply repeat_length. apply wiener_is_recursion. Qed.

(* ------------------------------------------------------------------ integrated Wiener process *)
(* the increments (a_k, b_k) the vectorised code builds in L1-L3 *)
Definition iwp_incr (sigma s dt r : Qc) (xi : Qc * Qc) : Qc * Qc :=
  (sigma * s * fst xi * r + half * dt * (sigma * s * snd xi), sigma * s * snd xi).

Lemma iwp_incr_is_amp sigma s dt r xi : iwp_incr sigma s dt r xi = mv (iwp_amp sigma s dt r) xi.
Proof. unfold iwp_incr, mv, iwp_amp. simpl. f_equal; ring. Qed.

Lemma removelast_cons {A} (x : A) l : l <> [] -> removelast (x :: l) = x :: removelast l.
Proof. destruct l; [congruence | reflexivity]. Qed.

Lemma iwp_step a b d x v : vadd2 (a, b) (mv (iwp_drift d) (x, v)) = (x + (a + d * v), v + b).
Proof. unfold vadd2, mv, iwp_drift. cbn [fst snd]. f_equal; ring. Qed.

(* L4-L7 on given increment columns: the two cumsums with the shifted velocity coupling are the
   recursion with F_k = [[1, dt_k], [0, 1]] *)
Lemma iwp_cumsum_is_recursion aa : forall dts bb x v,
  length dts = length aa -> length bb = length aa ->
  combine (x :: cumsum_from x (map3 (fun a d vv => a + d * vv) aa dts (removelast (v :: cumsum_from v bb))))
          (v :: cumsum_from v bb)
  = lrec2 (x, v) (map iwp_drift dts) (combine aa bb).
Proof.
  induction aa as [|a aa IH]; intros [|d dts] [|b bb] x v H1 H2; simpl in *; try lia; try reflexivity.
  f_equal.
  assert (E : removelast (v + b :: cumsum_from (v + b) bb) = removelast ((v + b) :: cumsum_from (v + b) bb)) by reflexivity.
  specialize (IH dts bb (x + (a + d * v)) (v + b) ltac:(lia) ltac:(lia)).
  unfold lrec2 in *. cbn [lrec]. rewrite iwp_step. rewrite <- IH. reflexivity.
Qed.

Lemma map3_length {A B C D} (f : A -> B -> C -> D) a b c :
  length (map3 f a b c) = Nat.min (length a) (Nat.min (length b) (length c)).
Proof. revert b c. induction a as [|x a IH]; intros [|y b] [|z c]; simpl; auto. Qed.

Lemma map2_map_l {A B C D} (f : B -> C -> D) (g : A -> B) l1 l2 :
  map2 f (map g l1) l2 = map2 (fun a c => f (g a) c) l1 l2.
Proof. revert l2. induction l1; intros [|]; simpl; auto. f_equal. auto. Qed.

Theorem iwp_is_recursion xi x0 sigma s dt r :
  length sigma = length xi -> length s = length xi -> length dt = length xi -> length r = length xi ->
  iwp xi x0 sigma s dt r =
  lrec2 x0 (map iwp_drift dt)
        (map2 (fun p x => mv (iwp_amp (fst (fst p)) (snd (fst p)) (fst (snd p)) (snd (snd p))) x)
              (combine (combine sigma s) (combine dt r)) xi).
Proof.
  revert x0. intros [x v] Hs Hss Hd Hr. unfold iwp. cbn [fst snd].
  rewrite !cumsum_cons.
  set (f := map2 Qcmult sigma s).
  set (bb := map2 Qcmult f (map snd xi)).
  set (aa := map3 (fun a d b => a + half * d * b) (map2 Qcmult (map2 Qcmult f (map fst xi)) r) dt bb).
  assert (Lbb : length bb = length xi).
  { subst bb f. rewrite !map2_length, map_length. lia. }
  assert (Laa : length aa = length xi).
  { subst aa bb f. rewrite map3_length, !map2_length, !map_length. lia. }
  rewrite iwp_cumsum_is_recursion by lia.
  f_equal.
  (* the increment pairs are G_k xi_k *)
  subst aa bb f. clear Lbb Laa.
  revert sigma s dt r Hs Hss Hd Hr. induction xi as [|p xi IH]; intros [|a1 sigma] [|a2 s] [|a3 dt] [|a4 r] H1 H2 H3 H4;
    simpl in *; try lia; try reflexivity.
  f_equal; [|apply IH; lia].
  rewrite <- iwp_incr_is_amp. unfold iwp_incr. f_equal; ring.
Qed.

(* ------------------------------------------------------------------ IWP: transition covariance,
   semigroup, marginal covariance on every (non-uniform) grid *)

Lemma half_half : half + half = 1.
Proof. apply Qc_is_canon. reflexivity. Qed.
Lemma third_3 : third + third + third = 1.
Proof. apply Qc_is_canon. reflexivity. Qed.
Lemma twelfth_quarter : twelfth + half * half = third.
Proof. apply Qc_is_canon. reflexivity. Qed.

(* with s^2 = dt and r^2 = dt^2/12 + asperity the amplitude matrix of the code has exactly the
   transition covariance of the (generalised) integrated Wiener process over a step dt *)
Theorem iwp_transition sigma s dt r asp :
  s * s = dt -> r * r = dt * dt * twelfth + asp ->
  ggt (iwp_amp sigma s dt r) = iwp_Q sigma asp dt.
Proof.
  intros Hs Hr. unfold ggt, iwp_amp, iwp_Q. fold third.
  f_equal; [f_equal|].
  - transitivity (sigma * sigma * (s * s) * (r * r) + sigma * sigma * (s * s) * (half * half) * (dt * dt)); [ring|].
    rewrite Hs, Hr. rewrite <- twelfth_quarter. ring.
  - transitivity (sigma * sigma * (s * s) * (half * dt)); [ring|]. rewrite Hs. ring.
  - transitivity (sigma * sigma * (s * s)); [ring|]. rewrite Hs. ring.
Qed.

Lemma half_inv : half = / (1 + 1).
Proof. apply Qc_is_canon. reflexivity. Qed.
Lemma third_inv : third = / (1 + 1 + 1).
Proof. apply Qc_is_canon. reflexivity. Qed.
Lemma twelfth_inv : twelfth = / ((1 + 1 + 1) * (1 + 1) * (1 + 1)).
Proof. apply Qc_is_canon. reflexivity. Qed.
Lemma two_neq0 : (1 + 1 : Qc) <> 0.
Proof. discriminate. Qed.
Lemma three_neq0 : (1 + 1 + 1 : Qc) <> 0.
Proof. discriminate. Qed.

Ltac qc_field := unfold iwp_Q, iwp_propagate, ggt, iwp_amp; fold third; fold twelfth;
  rewrite ?half_inv, ?third_inv, ?twelfth_inv; field; repeat split; discriminate.

(* Q(d1 + d2) = F(d2) Q(d1) F(d2)^T + Q(d2): two steps are one step over the joint interval *)
Theorem iwp_semigroup sigma asp d1 d2 :
  iwp_propagate d2 (iwp_Q sigma asp d1) (iwp_Q sigma asp d2) = iwp_Q sigma asp (d1 + d2).
Proof.
  unfold iwp_propagate, iwp_Q. fold third. rewrite half_inv, third_inv.
  f_equal; [f_equal|]; field; repeat split; discriminate.
Qed.

(* hence the marginal covariance of the state after any sequence of steps is the closed form
   Q(t) of the continuous-time process at the accumulated time (P_0 = Q(t0), t0 = 0 for a fixed start) *)
Theorem iwp_marginals_closed sigma asp dts : forall t,
  iwp_marginals sigma asp dts (iwp_Q sigma asp t) = map (iwp_Q sigma asp) (times_from t dts).
Proof.
  induction dts as [|d dts IH]; intros t; cbn [iwp_marginals times_from map]; [reflexivity|].
  f_equal. rewrite iwp_semigroup. apply IH.
Qed.

(* response columns: the state after k steps as a linear function of the unit excitations; each
   column is the response (position, velocity) to one scalar excitation.  One step maps the columns
   by F and appends the two columns of G. *)
Lemma colsum_app c1 c2 :
  colsum (c1 ++ c2) = let '(p, q, w) := colsum c1 in let '(p', q', w') := colsum c2 in (p + p', q + q', w + w').
Proof.
  induction c1 as [|[a b] c1 IH]; simpl.
  - destruct (colsum c2) as [[p q] w]. repeat (f_equal; try ring).
  - rewrite IH. destruct (colsum c1) as [[p q] w]. destruct (colsum c2) as [[p' q'] w']. repeat (f_equal; try ring).
Qed.

Lemma colsum_map_drift dt cols :
  colsum (map (mv (iwp_drift dt)) cols) =
  let '(p00, p01, p11) := colsum cols in (p00 + dt * p01 + dt * (p01 + dt * p11), p01 + dt * p11, p11).
Proof.
  induction cols as [|[a b] cols IH]; simpl.
  - repeat (f_equal; try ring).
  - rewrite IH. destruct (colsum cols) as [[p q] w]. unfold mv, iwp_drift. cbn [fst snd].
    repeat (f_equal; try ring).
Qed.

(* covariance (sum over the unit excitations of response x response^T) propagates as
   F P F^T + G G^T *)
Theorem iwp_cov_propagation dt G cols :
  colsum (cols_step (iwp_drift dt) G cols) = iwp_propagate dt (colsum cols) (ggt G).
Proof.
  unfold cols_step. rewrite colsum_app, colsum_map_drift.
  destruct (colsum cols) as [[p q] w]. destruct G as [[a b] [c d]]. cbn [fst snd colsum ggt iwp_propagate].
  repeat (f_equal; try ring).
Qed.

(* ------------------------------------------------------------------ scalar processes: exact
   covariances from the linearity in the excitations *)
(* coefficient row of x_k with respect to the excitations seen so far; one step scales the row by
   the drift and appends the amplitude *)
Lemma dot_app a1 a2 b1 b2 : length a1 = length b1 -> dot (a1 ++ a2) (b1 ++ b2) = dot a1 b1 + dot a2 b2.
Proof.
  revert b1. induction a1 as [|x a1 IH]; intros [|y b1] H; simpl in *; try lia; [ring|].
  rewrite IH by lia. ring.
Qed.

Lemma dot_nil_r a : dot a [] = 0.
Proof. destruct a; reflexivity. Qed.

Lemma dot_scale d r p : dot (map (Qcmult d) r) p = d * dot r p.
Proof. revert p. induction r as [|x r IH]; intros [|y p]; simpl; try ring. rewrite IH. ring. Qed.

Lemma dot_comm a b : dot a b = dot b a.
Proof. revert b. induction a as [|x a IH]; intros [|y b]; simpl; try reflexivity. rewrite IH. ring. Qed.

Lemma dot_short l m r : (length r <= length l)%nat -> dot (l ++ m) r = dot l r.
Proof.
  revert r. induction l as [|x l IH]; intros [|y r] H; simpl in *; try lia; try reflexivity.
  - apply dot_nil_r.
  - rewrite IH by lia. reflexivity.
Qed.

(* the recursion is linear: x_k = <row_k, (excitations)> *)
Theorem scalar_linear ds : forall row pre amps xis,
  length row = length pre -> length amps = length ds -> length xis = length ds ->
  lrec1 (dot row pre) ds (map2 Qcmult amps xis) = map (fun r => dot r (pre ++ xis)) (srows row ds amps).
Proof.
  induction ds as [|d ds IH]; intros row pre [|a amps] [|x xis] H1 H2 H3; simpl in *; try lia.
  - rewrite app_nil_r. reflexivity.
  - assert (E0 : dot row (pre ++ x :: xis) = dot row pre).
    { rewrite <- (app_nil_r row) at 1. rewrite dot_app by assumption. simpl. ring. }
    rewrite E0. f_equal.
    replace (pre ++ x :: xis) with ((pre ++ [x]) ++ xis) by (rewrite <- app_assoc; reflexivity).
    unfold lrec1 in IH. rewrite <- IH; try lia.
    + unfold lrec1. f_equal. rewrite dot_app by (rewrite map_length; assumption). rewrite dot_scale. simpl. ring.
    + rewrite !app_length, map_length. simpl. lia.
Qed.

Lemma var_step d a row :
  dot (map (Qcmult d) row ++ [a]) (map (Qcmult d) row ++ [a]) = d * d * dot row row + a * a.
Proof.
  rewrite dot_app by reflexivity. rewrite dot_scale, (dot_comm row), dot_scale. simpl. ring.
Qed.

Lemma cov_step d a row r0 :
  (length r0 <= length row)%nat -> dot (map (Qcmult d) row ++ [a]) r0 = d * dot row r0.
Proof. intros H. rewrite dot_short by (rewrite map_length; assumption). apply dot_scale. Qed.

(* covariances of an earlier state with all later ones decay by the drifts in between *)
Theorem cov_decay ds : forall row amps r0,
  (length r0 <= length row)%nat ->
  map (fun r => dot r r0) (srows row ds amps) = decays (dot row r0) ds amps.
Proof.
  induction ds as [|d ds IH]; intros row [|a amps] r0 H; simpl; try reflexivity.
  f_equal. rewrite IH by (rewrite app_length, map_length; simpl; lia).
  rewrite cov_step by assumption. reflexivity.
Qed.

(* Ornstein-Uhlenbeck: with amp_k^2 = sigma^2 (1 - e_k^2) the variance sigma^2 is invariant *)
Theorem ou_stationary sigma ds : forall row amps,
  dot row row = sigma * sigma ->
  Forall2 (fun d a => a * a = sigma * sigma * (1 - d * d)) ds amps ->
  Forall (fun r => dot r r = sigma * sigma) (srows row ds amps).
Proof.
  induction ds as [|d ds IH]; intros row amps H F; inversion F; subst; simpl.
  - constructor; [assumption | constructor].
  - constructor; [assumption|]. apply IH; [|assumption].
    rewrite var_step, H. match goal with E : _ * _ = _ |- _ => rewrite E end. ring.
Qed.

(* Wiener (drift 1): the variances are the running sums of amp_k^2 = sigma_k^2 dt_k *)
Theorem wiener_variances amps : forall row qs,
  Forall2 (fun a q => a * a = q) amps qs ->
  map (fun r => dot r r) (srows row (repeat 1 (length amps)) amps) = times_from (dot row row) qs.
Proof.
  induction amps as [|a amps IH]; intros row qs F; inversion F as [|a' q amps' qs' Ha HF]; subst; simpl; [reflexivity|].
  f_equal. rewrite (IH _ qs') by assumption. rewrite var_step. f_equal. ring.
Qed.

Lemma decays_ones c amps : decays c (repeat 1 (length amps)) amps = repeat c (S (length amps)).
Proof.
  revert c. induction amps as [|a amps IH]; intros c; simpl; [reflexivity|].
  f_equal. rewrite IH. replace (1 * c) with c by ring. reflexivity.
Qed.

(* ... and Cov(x_i, x_j) = Var(x_min(i,j)): the covariance of a state with every later one is its
   own variance *)
Theorem wiener_cov_min amps row :
  map (fun r => dot r row) (srows row (repeat 1 (length amps)) amps) = repeat (dot row row) (S (length amps)).
Proof. rewrite cov_decay by lia. apply decays_ones. Qed.

(* constant sigma: running sums of sigma^2 dt_k are sigma^2 t_k *)
Lemma times_scale c dts : forall t,
  times_from (c * t) (map (Qcmult c) dts) = map (Qcmult c) (times_from t dts).
Proof.
  induction dts as [|d dts IH]; intros t; simpl; [reflexivity|].
  f_equal. rewrite <- IH. f_equal. ring.
Qed.

Theorem gmp2_is_lrec drift diffamp xi x0 :
  length drift = length (map2 mv diffamp xi) ->
  gmp2 drift diffamp xi x0 = lrec2 x0 drift (map2 mv diffamp xi).
Proof.
  intros H. unfold gmp2. rewrite gmp_is_recursion by lia.
  apply (recursion_lrec (Qc * Qc) mat vadd2 mv (last drift mat0) drift _ 0%nat x0 []); auto.
Qed.

Lemma map2_combine4 sigma s dt r xi :
  length sigma = length xi -> length s = length xi -> length dt = length xi -> length r = length xi ->
  map2 (fun p x => mv (iwp_amp (fst (fst p)) (snd (fst p)) (fst (snd p)) (snd (snd p))) x)
       (combine (combine sigma s) (combine dt r)) xi
  = map2 mv (map (fun p => iwp_amp (fst (fst p)) (snd (fst p)) (fst (snd p)) (snd (snd p)))
                 (combine (combine sigma s) (combine dt r))) xi.
Proof. intros. rewrite map2_map_l. reflexivity. Qed.

(* the generic generator with F_k = [[1, dt_k], [0, 1]] and the amplitude matrices G_k reproduces
   the vectorised integrated Wiener process *)
Theorem iwp_generic_agree xi x0 sigma s dt r :
  length sigma = length xi -> length s = length xi -> length dt = length xi -> length r = length xi ->
  iwp xi x0 sigma s dt r = gmp2 (map iwp_drift dt) (iwp_amps sigma s dt r) xi x0.
Proof.
  intros H1 H2 H3 H4. rewrite iwp_is_recursion by assumption. rewrite map2_combine4 by assumption.
  rewrite gmp2_is_lrec; [reflexivity|].
  unfold iwp_amps. rewrite map_length, map2_length, map_length, !combine_length. lia.
Qed.

Theorem ou_is_recursion xi x0 sigma e q :
  length e = length (map2 Qcmult (map2 Qcmult sigma q) xi) ->
  ou xi x0 sigma e q = lrec1 x0 e (map2 Qcmult (map2 Qcmult sigma q) xi).
Proof. intros H. unfold ou. apply gmp1_is_lrec. assumption. Qed.

(* two OU steps with drifts e1, e2 are one step with drift e1 e2 (e(dt1 + dt2) = e(dt1) e(dt2)) *)
Theorem ou_semigroup sigma e1 e2 a1 a2 :
  a1 * a1 = sigma * sigma * (1 - e1 * e1) -> a2 * a2 = sigma * sigma * (1 - e2 * e2) ->
  (e2 * a1) * (e2 * a1) + a2 * a2 = sigma * sigma * (1 - (e1 * e2) * (e1 * e2)).
Proof.
  intros H1 H2. transitivity (e2 * e2 * (a1 * a1) + a2 * a2); [ring|]. rewrite H1, H2. ring.
Qed.

(* ------------------------------------------------------------------ 2-D state: linear response *)
Lemma pair_eq (a b c d : Qc) : a = c -> b = d -> (a, b) = (c, d).
Proof. intros; subst; reflexivity. Qed.

Ltac pr := unfold vadd2, mv; cbn [fst snd]; apply pair_eq; ring.

Lemma apply_cols_app c1 c2 e1 e2 :
  length c1 = length e1 -> apply_cols (c1 ++ c2) (e1 ++ e2) = vadd2 (apply_cols c1 e1) (apply_cols c2 e2).
Proof.
  revert e1. induction c1 as [|c c1 IH]; intros [|x e1] H; cbn [app apply_cols length] in *; try lia.
  - destruct (apply_cols c2 e2). pr.
  - rewrite IH by lia. destruct (apply_cols c1 e1), (apply_cols c2 e2). pr.
Qed.

Lemma apply_cols_nil_r cols : apply_cols cols [] = (0, 0).
Proof. destruct cols; reflexivity. Qed.

Lemma apply_cols_prefix cols pre rest : length cols = length pre -> apply_cols cols (pre ++ rest) = apply_cols cols pre.
Proof.
  intros H. rewrite <- (app_nil_r cols) at 1. rewrite apply_cols_app by assumption.
  cbn [apply_cols]. destruct (apply_cols cols pre). pr.
Qed.

Lemma apply_cols_map F cols e : apply_cols (map (mv F) cols) e = mv F (apply_cols cols e).
Proof.
  revert e. induction cols as [|c cols IH]; intros [|x e]; cbn [map apply_cols]; try pr.
  rewrite IH. destruct (apply_cols cols e), c. pr.
Qed.

Lemma apply_cols_G G (x : Qc * Qc) :
  apply_cols [(fst (fst G), fst (snd G)); (snd (fst G), snd (snd G))] [fst x; snd x] = mv G x.
Proof. destruct G as [[a b] [c d]], x as [u v]. cbn [apply_cols]. pr. Qed.

Lemma vadd2_comm u v : vadd2 u v = vadd2 v u.
Proof. destruct u, v. pr. Qed.

(* the recursion x_{k+1} = F_k x_k + G_k xi_k is, step by step, the response columns applied to the
   excitations (x0 components first, then xi_00, xi_01, xi_10, ...) *)
Theorem state_linear Fs : forall cols pre Gs xis,
  length cols = length pre -> length Gs = length Fs -> length xis = length Fs ->
  lrec2 (apply_cols cols pre) Fs (map2 mv Gs xis) =
  map (fun c => apply_cols c (pre ++ flat_xi xis)) (iwp_cols cols Fs Gs).
Proof.
  induction Fs as [|F Fs IH]; intros cols pre [|G Gs] [|x xis] H1 H2 H3; simpl in *; try lia.
  - rewrite app_nil_r. reflexivity.
  - rewrite apply_cols_prefix by assumption. f_equal.
    replace (pre ++ fst x :: snd x :: flat_xi xis) with ((pre ++ [fst x; snd x]) ++ flat_xi xis)
      by (rewrite <- app_assoc; reflexivity).
    unfold lrec2 in IH. rewrite <- IH; try lia.
    + unfold cols_step. rewrite apply_cols_app by (rewrite map_length; assumption).
      rewrite apply_cols_map, apply_cols_G. rewrite (vadd2_comm (mv F (apply_cols cols pre))). reflexivity.
    + unfold cols_step. rewrite !app_length, map_length. simpl. lia.
Qed.

Lemma apply_unit x0 : apply_cols [(1, 0); (0, 1)] [fst x0; snd x0] = x0.
Proof. destruct x0. cbn [apply_cols]. pr. Qed.

(* in particular for the integrated Wiener process as coded *)
Theorem iwp_linear xi x0 sigma s dt r :
  length sigma = length xi -> length s = length xi -> length dt = length xi -> length r = length xi ->
  iwp xi x0 sigma s dt r =
  map (fun c => apply_cols c ([fst x0; snd x0] ++ flat_xi xi))
      (iwp_cols [(1, 0); (0, 1)] (map iwp_drift dt) (iwp_amps sigma s dt r)).
Proof.
  intros H1 H2 H3 H4. rewrite iwp_is_recursion by assumption. rewrite map2_combine4 by assumption.
  fold (iwp_amps sigma s dt r). rewrite <- (apply_unit x0) at 1.
  apply state_linear; [reflexivity | |].
  - unfold iwp_amps. rewrite !map_length, !combine_length. lia.
  - rewrite map_length. lia.
Qed.
