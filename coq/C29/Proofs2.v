(* C29 -- round 7: the constant-drift branch of discrete_gauss_markov_process *)
From Coq Require Import QArith Qcanon List Bool ZArith Lia.
Import ListNotations.
Require Import NV.C29.Model NV.C29.Proofs.
Open Scope Qc_scope.

Lemma gmp1_cd_is_gmp1 d amp xi x0 :
  gmp1_cd d amp xi x0 = gmp1 (repeat d (length (map2 Qcmult amp xi))) amp xi x0.
Proof.
  unfold gmp1_cd, gmp1. rewrite !gmp_is_recursion by lia.
  apply recursion_ext. intros i Hi. simpl in Hi.
  rewrite (nth_indep _ _ d) by (rewrite repeat_length; lia).
  symmetry. apply nth_repeat.
Qed.

Lemma gmp1_cd_is_recursion d amp xi x0 :
  gmp1_cd d amp xi x0 = recursion Qc Qc Qcplus Qcmult (fun _ => d) 0 x0 (map2 Qcmult amp xi).
Proof. unfold gmp1_cd. apply gmp_is_recursion. lia. Qed.
