(* C29 -- executable model of nifty/re/gauss_markov.py (no proofs in this file).

   Numbers are canonical rationals (Qc: Leibniz equality, `ring`/`field`).  Square roots and
   exponentials never have to be evaluated here: the model takes them as extra arguments
   (s_k for sqrt(dt_k), r_k for sqrt(dt_k^2/12 + asperity_k), e_k for exp(-gamma_k dt_k),
   q_k for sqrt(1 - e_k^2)); the theorems state the relations they have to satisfy, the
   correspondence check supplies the values the implementation computed.

   Mirrored source (nifty/re/gauss_markov.py):

   def wiener_process(xi, x0, sigma, dt):
       amp = jnp.sqrt(dt) * sigma
       return jnp.cumsum(jnp.concatenate((jnp.atleast_1d(x0).flatten(), amp * xi)))

   def integrated_wiener_process(xi, x0, sigma, dt, asperity=None):
       asperity = 0.0 if asperity is None else asperity
       dt = jnp.ones(xi.shape[0]) * dt if _isscalar(dt) else dt
       res = (sigma * jnp.sqrt(dt))[:, jnp.newaxis] * xi                 (L1)
       res = res.at[:, 0].mul(jnp.sqrt(dt**2 / 12.0 + asperity))         (L2)
       res = res.at[:, 0].add(0.5 * dt * res[:, 1])                      (L3)
       res = jnp.concatenate((x0[jnp.newaxis, ...], res), axis=0)        (L4)
       res = res.at[:, 1].set(jnp.cumsum(res[:, 1]))                     (L5)
       res = res.at[1:, 0].add(dt * res[:-1, 1])                         (L6)
       return res.at[:, 0].set(jnp.cumsum(res[:, 0]))                    (L7)

   def discrete_gauss_markov_process(xi, x0, drift, diffamp):
       res = vmap(jnp.matmul, in_ax, 0)(diffamp, xi)
       def loop(i, a):
           d = drift[i] if len(drift.shape) > 2 else drift
           return a.at[i + 1].add(jnp.matmul(d, a[i]))
       res = jnp.concatenate([x0[jnp.newaxis, ...], res], axis=0)
       return fori_loop(0, res.size, loop, res)

   def ornstein_uhlenbeck_process(xi, x0, sigma, gamma, dt):
       drift = jnp.exp(-gamma * dt)
       amp = sigma * jnp.sqrt(1.0 - drift**2)
       return scalar_gauss_markov_process(xi, x0, drift, amp)
*)
From Coq Require Import QArith Qcanon Qabs List Bool ZArith.
Import ListNotations.
Open Scope Qc_scope.

Fixpoint map2 {A B C : Type} (f : A -> B -> C) (l1 : list A) (l2 : list B) : list C :=
  match l1, l2 with
  | a :: l1', b :: l2' => f a b :: map2 f l1' l2'
  | _, _ => []
  end.

Fixpoint map3 {A B C D : Type} (f : A -> B -> C -> D) (l1 : list A) (l2 : list B) (l3 : list C) : list D :=
  match l1, l2, l3 with
  | a :: l1', b :: l2', c :: l3' => f a b c :: map3 f l1' l2' l3'
  | _, _, _ => []
  end.

(* jnp.cumsum *)
Fixpoint cumsum_from (acc : Qc) (l : list Qc) : list Qc :=
  match l with
  | [] => []
  | x :: r => (acc + x) :: cumsum_from (acc + x) r
  end.
Definition cumsum (l : list Qc) : list Qc := cumsum_from 0 l.

Definition half : Qc := Q2Qc (1 # 2).

(* ---------------------------------------------------------------- wiener_process *)
(* s_k = sqrt(dt_k) *)
Definition wiener (xi : list Qc) (x0 : Qc) (sigma s : list Qc) : list Qc :=
  let amp := map2 Qcmult s sigma in
  cumsum (x0 :: map2 Qcmult amp xi).

(* ---------------------------------------------------------------- integrated_wiener_process *)
(* state rows (position, velocity); r_k = sqrt(dt_k^2/12 + asperity_k) *)
Definition iwp (xi : list (Qc * Qc)) (x0 : Qc * Qc) (sigma s dt r : list Qc) : list (Qc * Qc) :=
  let f := map2 Qcmult sigma s in
  let c0 := map2 Qcmult f (map fst xi) in                            (* L1, column 0 *)
  let c1 := map2 Qcmult f (map snd xi) in                            (* L1, column 1 *)
  let c0 := map2 Qcmult c0 r in                                      (* L2 *)
  let c0 := map3 (fun a d b => a + half * d * b) c0 dt c1 in         (* L3 *)
  let c0 := fst x0 :: c0 in                                          (* L4 *)
  let c1 := snd x0 :: c1 in
  let c1 := cumsum c1 in                                             (* L5 *)
  let c0 := match c0 with
            | [] => []
            | h :: t => h :: map3 (fun a d v => a + d * v) t dt (removelast c1)      (* L6 *)
            end in
  combine (cumsum c0) c1.                                            (* L7 *)

(* ---------------------------------------------------------------- discrete_gauss_markov_process *)
Section GMP.
  Variable V D : Type.           (* state vectors, drift matrices *)
  Variable vadd : V -> V -> V.
  Variable app : D -> V -> V.    (* jnp.matmul(d, a[i]) *)
  Variable vdef : V.

  (* a.at[k].add(y): out-of-bounds scatter updates are dropped *)
  Fixpoint upd_add (a : list V) (k : nat) (y : V) : list V :=
    match a, k with
    | [], _ => []
    | x :: t, O => vadd x y :: t
    | x :: t, S k' => x :: upd_add t k' y
    end.

  (* one iteration of `loop`; drift[i] is given as an index function *)
  Definition loop_body (drift : nat -> D) (i : nat) (a : list V) : list V :=
    upd_add a (S i) (app (drift i) (nth i a vdef)).

  (* fori_loop(lo, lo + n, loop, a) *)
  Fixpoint fori (drift : nat -> D) (lo n : nat) (a : list V) : list V :=
    match n with
    | O => a
    | S n' => fori drift (S lo) n' (loop_body drift lo a)
    end.

  (* res = concat([x0], diffamp_k @ xi_k);  fori_loop(0, res.size, loop, res), res.size = rows * dim *)
  Definition gmp (dim : nat) (drift : nat -> D) (g : list V) (x0 : V) : list V :=
    fori drift 0 (length (x0 :: g) * dim) (x0 :: g).

  (* the textbook recursion x_{k+1} = drift_k x_k + g_k *)
  Fixpoint recursion (drift : nat -> D) (k : nat) (x : V) (g : list V) : list V :=
    match g with
    | [] => [x]
    | gk :: rest => x :: recursion drift (S k) (vadd gk (app (drift k) x)) rest
    end.
End GMP.

(* scalars *)
Definition gmp1 (drift : list Qc) (amp xi : list Qc) (x0 : Qc) : list Qc :=
  gmp Qc Qc Qcplus Qcmult 0 1 (fun i => nth i drift (last drift 0)) (map2 Qcmult amp xi) x0.

(* time-independent scalar drift: the else-branch of
     d = drift[i] if len(drift.shape) > 2 else drift
   (scalar_gauss_markov_process leaves a scalar drift alone: `if not _isscalar(drift): drift = drift[:, None, None]`),
   so every iteration uses the same d, at every index i up to res.size *)
Definition gmp1_cd (d : Qc) (amp xi : list Qc) (x0 : Qc) : list Qc :=
  gmp Qc Qc Qcplus Qcmult 0 1 (fun _ => d) (map2 Qcmult amp xi) x0.

(* 2-D states, matrices row-major ((a, b), (c, d)) *)
Definition mat := ((Qc * Qc) * (Qc * Qc))%type.
Definition mv (m : mat) (v : Qc * Qc) : Qc * Qc :=
  (fst (fst m) * fst v + snd (fst m) * snd v, fst (snd m) * fst v + snd (snd m) * snd v).
Definition vadd2 (u v : Qc * Qc) : Qc * Qc := (fst u + fst v, snd u + snd v).
Definition mat0 : mat := ((0, 0), (0, 0)).

Definition gmp2 (drift diffamp : list mat) (xi : list (Qc * Qc)) (x0 : Qc * Qc) : list (Qc * Qc) :=
  gmp (Qc * Qc) mat vadd2 mv (0, 0) 2 (fun i => nth i drift (last drift mat0)) (map2 mv diffamp xi) x0.

(* the drift and amplitude matrices of the IWP (as in NIFTy's own test_iwp_cumsum_vs_fori) *)
Definition iwp_drift (dt : Qc) : mat := ((1, dt), (0, 1)).
Definition iwp_amp (sigma s dt r : Qc) : mat :=
  ((sigma * s * r, sigma * s * (half * dt)), (0, sigma * s)).

(* ---------------------------------------------------------------- ornstein_uhlenbeck_process *)
(* e_k = exp(-gamma_k dt_k), q_k = sqrt(1 - e_k^2) *)
Definition ou (xi : list Qc) (x0 : Qc) (sigma e q : list Qc) : list Qc :=
  gmp1 e (map2 Qcmult sigma q) xi x0.

(* ---------------------------------------------------------------- covariance propagation
   (symmetric 2x2 matrices as (p00, p01, p11)) *)
Definition sym := (Qc * Qc * Qc)%type.
Definition iwp_Q (sigma asp dt : Qc) : sym :=
  (sigma * sigma * (dt * dt * dt * Q2Qc (1 # 3) + asp * dt), sigma * sigma * (dt * dt * half), sigma * sigma * dt).
(* F P F^T + Q  with F = [[1, dt], [0, 1]] *)
Definition iwp_propagate (dt : Qc) (P Qm : sym) : sym :=
  let '(p00, p01, p11) := P in
  let '(q00, q01, q11) := Qm in
  (p00 + dt * p01 + dt * (p01 + dt * p11) + q00, p01 + dt * p11 + q01, p11 + q11).

Fixpoint iwp_marginals (sigma asp : Qc) (dts : list Qc) (P : sym) : list sym :=
  match dts with
  | [] => [P]
  | dt :: rest => P :: iwp_marginals sigma asp rest (iwp_propagate dt P (iwp_Q sigma asp dt))
  end.

(* ---------------------------------------------------------------- linear-response view
   (definitions used by the theorems AND run by the correspondence check) *)
Definition third : Qc := Q2Qc (1 # 3).
Definition twelfth : Qc := Q2Qc (1 # 12).

(* G G^T of a matrix ((a, b), (c, d)) as symmetric (p00, p01, p11) *)
Definition ggt (m : mat) : sym :=
  let '((a, b), (c, d)) := m in (a * a + b * b, a * c + b * d, c * c + d * d).


Fixpoint times_from (t : Qc) (dts : list Qc) : list Qc :=
  match dts with [] => [t] | d :: r => t :: times_from (t + d) r end.


(* response columns of the 2-D state: one step maps the columns by F and appends the two columns of G *)
Definition cols_step (F G : mat) (cols : list (Qc * Qc)) : list (Qc * Qc) :=
  map (mv F) cols ++ [(fst (fst G), fst (snd G)); (snd (fst G), snd (snd G))].

Fixpoint colsum (cols : list (Qc * Qc)) : sym :=
  match cols with
  | [] => (0, 0, 0)
  | (a, b) :: r => let '(p, q, w) := colsum r in (a * a + p, a * b + q, b * b + w)
  end.


(* the columns after 0, 1, 2, ... steps, starting from the unit responses to x0 *)
Fixpoint iwp_cols (cols : list (Qc * Qc)) (Fs Gs : list mat) : list (list (Qc * Qc)) :=
  match Fs, Gs with
  | F :: Fs', G :: Gs' => cols :: iwp_cols (cols_step F G cols) Fs' Gs'
  | _, _ => [cols]
  end.

(* scalar processes: coefficient row of x_k with respect to the excitations seen so far *)
Fixpoint srows (row : list Qc) (ds amps : list Qc) : list (list Qc) :=
  match ds, amps with
  | d :: ds', a :: amps' => row :: srows (map (Qcmult d) row ++ [a]) ds' amps'
  | _, _ => [row]
  end.

(* sum_k a_k b_k over the common prefix (a shorter row is a row padded with zeros: causality) *)
Fixpoint dot (a b : list Qc) : Qc :=
  match a, b with
  | x :: a', y :: b' => x * y + dot a' b'
  | _, _ => 0
  end.


Fixpoint decays (c : Qc) (ds amps : list Qc) : list Qc :=
  match ds, amps with
  | d :: ds', _ :: amps' => c :: decays (d * c) ds' amps'
  | _, _ => [c]
  end.


Definition iwp_amps (sigma s dt r : list Qc) : list mat :=
  map (fun p => iwp_amp (fst (fst p)) (snd (fst p)) (fst (snd p)) (snd (snd p)))
      (combine (combine sigma s) (combine dt r)).


(* ---------------------------------------------------------------- comparison helpers *)
Definition qc_eqb (a b : Qc) : bool := Qeq_bool a b.
Definition qc_close (tol a b : Qc) : bool := Qle_bool (Qabs (a - b)%Q) tol.

Fixpoint list_eqb {A : Type} (eqb : A -> A -> bool) (l1 l2 : list A) : bool :=
  match l1, l2 with
  | [], [] => true
  | a :: l1', b :: l2' => eqb a b && list_eqb eqb l1' l2'
  | _, _ => false
  end.

Definition pair_cmp (cmp : Qc -> Qc -> bool) (u v : Qc * Qc) : bool := cmp (fst u) (fst v) && cmp (snd u) (snd v).

Definition qcl (l : list Q) : list Qc := map Q2Qc l.
Definition qcp (p : Q * Q) : Qc * Qc := (Q2Qc (fst p), Q2Qc (snd p)).
Definition qcpl (l : list (Q * Q)) : list (Qc * Qc) := map qcp l.

(* observed full-length response row against the model's causal row: equal on the model's
   prefix, zero beyond *)
Fixpoint row_match {A : Type} (cmp : A -> A -> bool) (zero : A) (model obs : list A) : bool :=
  match model, obs with
  | [], _ => forallb (cmp zero) obs
  | m :: model', o :: obs' => cmp m o && row_match cmp zero model' obs'
  | _ :: _, [] => false
  end.

Definition qmat (m : (Q * Q) * (Q * Q)) : mat := (qcp (fst m), qcp (snd m)).

(* ---- correspondence checks (implementation outputs arrive as exact dyadic rationals) *)
Definition chk_wiener (xi : list Q) (x0 : Q) (sigma s obs : list Q) : bool :=
  list_eqb qc_eqb (wiener (qcl xi) (Q2Qc x0) (qcl sigma) (qcl s)) (qcl obs).

Definition chk_wiener_rows (sigma s : list Q) (obs : list (list Q)) : bool :=
  list_eqb (row_match qc_eqb 0)
           (srows [1] (repeat 1 (length s)) (map2 Qcmult (qcl s) (qcl sigma))) (map qcl obs).

Definition chk_gmp1 (drift amp xi : list Q) (x0 : Q) (obs : list Q) : bool :=
  list_eqb qc_eqb (gmp1 (qcl drift) (qcl amp) (qcl xi) (Q2Qc x0)) (qcl obs).

Definition chk_gmp1_rows (drift amp : list Q) (obs : list (list Q)) : bool :=
  list_eqb (row_match qc_eqb 0) (srows [1] (qcl drift) (qcl amp)) (map qcl obs).

Definition chk_ou (tol : Q) (xi : list Q) (x0 : Q) (sigma e q obs : list Q) : bool :=
  list_eqb (qc_close (Q2Qc tol)) (ou (qcl xi) (Q2Qc x0) (qcl sigma) (qcl e) (qcl q)) (qcl obs).

Definition chk_ou_rows (tol : Q) (sigma e q : list Q) (obs : list (list Q)) : bool :=
  list_eqb (row_match (qc_close (Q2Qc tol)) 0)
           (srows [1] (qcl e) (map2 Qcmult (qcl sigma) (qcl q))) (map qcl obs).

Definition chk_iwp (tol : Q) (xi : list (Q * Q)) (x0 : Q * Q) (sigma s dt r : list Q) (obs : list (Q * Q)) : bool :=
  list_eqb (pair_cmp (qc_close (Q2Qc tol)))
           (iwp (qcpl xi) (qcp x0) (qcl sigma) (qcl s) (qcl dt) (qcl r)) (qcpl obs).

Definition chk_iwp_cols (tol : Q) (sigma s dt r : list Q) (obs : list (list (Q * Q))) : bool :=
  list_eqb (row_match (pair_cmp (qc_close (Q2Qc tol))) (0, 0))
           (iwp_cols [(1, 0); (0, 1)] (map iwp_drift (qcl dt)) (iwp_amps (qcl sigma) (qcl s) (qcl dt) (qcl r)))
           (map qcpl obs).

Definition chk_gmp2 (tol : Q) (drift diffamp : list ((Q * Q) * (Q * Q))) (xi : list (Q * Q)) (x0 : Q * Q)
           (obs : list (Q * Q)) : bool :=
  list_eqb (pair_cmp (qc_close (Q2Qc tol)))
           (gmp2 (map qmat drift) (map qmat diffamp) (qcpl xi) (qcp x0)) (qcpl obs).

(* covariance of the implementation's response columns (sum over the xi columns) against the
   closed-form marginal covariance propagated with the semigroup recursion *)
Definition sym_close (tol : Qc) (a b : sym) : bool :=
  qc_close tol (fst (fst a)) (fst (fst b)) && qc_close tol (snd (fst a)) (snd (fst b)) && qc_close tol (snd a) (snd b).

Definition chk_iwp_marginals (tol sigma asp : Q) (dt : list Q) (obs_cols : list (list (Q * Q))) : bool :=
  list_eqb (sym_close (Q2Qc tol))
           (iwp_marginals (Q2Qc sigma) (Q2Qc asp) (qcl dt) (0, 0, 0))
           (map (fun c => colsum (qcpl c)) obs_cols).

(* response columns of the generic 2-D generator (any drift / amplitude matrices) *)
Definition chk_gmp2_cols (tol : Q) (drift diffamp : list ((Q * Q) * (Q * Q))) (obs : list (list (Q * Q))) : bool :=
  list_eqb (row_match (pair_cmp (qc_close (Q2Qc tol))) (0, 0))
           (iwp_cols [(1, 0); (0, 1)] (map qmat drift) (map qmat diffamp)) (map qcpl obs).

(* the state as a linear function of the unit excitations: sum_j e_j * column_j *)
Fixpoint apply_cols (cols : list (Qc * Qc)) (e : list Qc) : Qc * Qc :=
  match cols, e with
  | c :: cs, x :: es => vadd2 (x * fst c, x * snd c) (apply_cols cs es)
  | _, _ => (0, 0)
  end.

(* excitations in the order of the columns: xi_k0, xi_k1 for k = 0, 1, ... *)
Definition flat_xi (xis : list (Qc * Qc)) : list Qc := flat_map (fun p => [fst p; snd p]) xis.

(* model classes (WienerProcess / OrnsteinUhlenbeckProcess) with the documented forms of x0: the
   response rows start with the coefficient c0 of the start value's own latent excitation
   (0 for a fixed start value -- also the value 0 --, sigma_0 for the steady-state start x0=None of the
   OU process, the prior's standard deviation for a (mean, std) tuple or a NormalPrior model) *)
Definition chk_ou_start_rows (tol c0 : Q) (sigma e q : list Q) (obs : list (list Q)) : bool :=
  list_eqb (row_match (qc_close (Q2Qc tol)) 0)
           (srows [Q2Qc c0] (qcl e) (map2 Qcmult (qcl sigma) (qcl q))) (map qcl obs).

Definition chk_wiener_start_rows (tol c0 : Q) (sigma s : list Q) (obs : list (list Q)) : bool :=
  list_eqb (row_match (qc_close (Q2Qc tol)) 0)
           (srows [Q2Qc c0] (repeat 1 (length s)) (map2 Qcmult (qcl s) (qcl sigma))) (map qcl obs).

(* IntegratedWienerProcess with a prior on x0: the start columns are the prior's standard deviations *)
Definition chk_iwp_cols_start (tol c0 c1 : Q) (sigma s dt r : list Q) (obs : list (list (Q * Q))) : bool :=
  list_eqb (row_match (pair_cmp (qc_close (Q2Qc tol))) (0, 0))
           (iwp_cols [(Q2Qc c0, 0); (0, Q2Qc c1)] (map iwp_drift (qcl dt)) (iwp_amps (qcl sigma) (qcl s) (qcl dt) (qcl r)))
           (map qcpl obs).

(* scalar generic generator called with a scalar (time-independent) drift *)
Definition chk_gmp1_cd (d : Q) (amp xi : list Q) (x0 : Q) (obs : list Q) : bool :=
  list_eqb qc_eqb (gmp1_cd (Q2Qc d) (qcl amp) (qcl xi) (Q2Qc x0)) (qcl obs).
