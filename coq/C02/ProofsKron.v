(* C02 -- semantics of the Kronecker product of triplet matrices, operators acting on one sub-domain
   of a DomainTuple (the (pre, n, post) reshape of the NumPy code), blocks of gathers. *)
From Coq Require Import List Arith Bool Lia Ring Ring_theory ZArith.
Import ListNotations.
Require Import NV.C02.Model NV.C02.ProofsGen NV.C02.ProofsGather.

Section Ring.
Variable T : Type.
Variables (t0 t1 : T) (tadd tmul : T -> T -> T) (topp : T -> T).
Hypothesis RT : ring_theory t0 t1 tadd tmul (fun a b => tadd a (topp b)) topp eq.
Add Ring TRing3 : RT.

Notation "0" := t0.
Notation "1" := t1.
Infix "+" := tadd.
Infix "*" := tmul.

Notation trip := (trip T).
Notation mat := (mat T).
Notation vec := (vec T).
Notation blk := (blk T).
Notation apply := (apply T t0 tadd tmul).
Notation tr := (tr T).
Notation inb := (inb T).
Notation gather := (gather T t1).
Notation ident := (ident T t1).
Notation kron := (kron T tmul).
Notation bgather := (bgather T t1).
Notation bident := (bident T t1).
Notation bkron := (bkron T tmul).
Notation bkron_list := (bkron_list T t1 tmul).
Notation on_space := (on_space T t1 tmul).
Notation apply_cons := (apply_cons T t0 t1 tadd tmul topp RT).
Notation apply_nil := (apply_nil T t0 tadd tmul).
Notation apply_app := (apply_app T t0 t1 tadd tmul topp RT).
Notation apply_ext := (apply_ext T t0 t1 tadd tmul topp RT).
Notation inb_cons := (inb_cons T).
Notation inb_app := (inb_app T).
Notation apply_gather := (apply_gather T t0 t1 tadd tmul topp RT).

Lemma kron_cons mB nB oa ia wa A B :
  kron mB nB ((oa, ia, wa) :: A) B =
  map (fun tb : trip => let '(ob, ib, wb) := tb in ((oa * mB + ob)%nat, (ia * nB + ib)%nat, wa * wb)) B ++ kron mB nB A B.
Proof. reflexivity. Qed.

Lemma inb_kron mA nA mB nB A B :
  inb mA nA A = true -> inb mB nB B = true -> inb (mA * mB) (nA * nB) (kron mB nB A B) = true.
Proof.
  intros HA HB. induction A as [|[[oa ia] wa] A IH]; [reflexivity|].
  apply inb_cons in HA. destruct HA as (Ho & Hi & HA). rewrite kron_cons. apply inb_app. split; [|apply IH; assumption].
  clear IH HA. induction B as [|[[ob ib] wb] B IH]; [reflexivity|].
  apply inb_cons in HB. destruct HB as (Ho' & Hi' & HB). cbn [map]. apply inb_cons. repeat split; [nia|nia|apply IH; assumption].
Qed.

Lemma tr_kron mB nB A B : tr (kron mB nB A B) = kron nB mB (tr A) (tr B).
Proof.
  induction A as [|[[oa ia] wa] A IH]; [reflexivity|].
  rewrite kron_cons, (tr_app T), IH, (tr_cons T), kron_cons. f_equal.
  clear IH. induction B as [|[[ob ib] wb] B IH]; [reflexivity|].
  cbn [map]. rewrite !(tr_cons T). cbn [map]. rewrite IH. reflexivity.
Qed.

Lemma apply_kron_inner mB nB oa' ia wa B x oa ob :
  inb mB nB B = true -> (ob < mB)%nat ->
  apply (map (fun tb : trip => let '(ob', ib, wb) := tb in ((oa' * mB + ob')%nat, (ia * nB + ib)%nat, wa * wb)) B) x (oa * mB + ob)%nat
  = if Nat.eqb oa' oa then wa * apply B (fun ib => x (ia * nB + ib)%nat) ob else 0.
Proof.
  intros HB Hob. induction B as [|[[ob' ib] wb] B IH].
  - cbn [map]. rewrite !apply_nil. destruct (Nat.eqb oa' oa); ring.
  - apply inb_cons in HB. destruct HB as (Ho' & Hi' & HB). cbn [map]. rewrite !apply_cons, IH by assumption.
    destruct (Nat.eqb oa' oa) eqn:E1.
    + apply Nat.eqb_eq in E1. subst. destruct (Nat.eqb ob' ob) eqn:E2.
      * apply Nat.eqb_eq in E2. subst. rewrite Nat.eqb_refl. ring.
      * apply Nat.eqb_neq in E2. destruct (Nat.eqb (oa * mB + ob') (oa * mB + ob)) eqn:E3; [apply Nat.eqb_eq in E3; lia|ring].
    + apply Nat.eqb_neq in E1. destruct (Nat.eqb (oa' * mB + ob') (oa * mB + ob)) eqn:E3; [apply Nat.eqb_eq in E3; nia|ring].
Qed.

(* (A (x) B) x [oa, ob] = sum_ia A[oa, ia] * sum_ib B[ob, ib] * x[ia, ib] *)
Theorem apply_kron mB nB A B x oa ob :
  inb mB nB B = true -> (ob < mB)%nat ->
  apply (kron mB nB A B) x (oa * mB + ob)%nat = apply A (fun ia => apply B (fun ib => x (ia * nB + ib)%nat) ob) oa.
Proof.
  intros HB Hob. induction A as [|[[oa' ia] wa] A IH]; [reflexivity|].
  rewrite kron_cons, apply_app, apply_kron_inner, IH, apply_cons by assumption. reflexivity.
Qed.

Lemma apply_ident n x o : (o < n)%nat -> apply (ident n) x o = x o.
Proof. intros H. unfold Model.ident. rewrite apply_gather by (rewrite seq_length; assumption). rewrite seq_nth by assumption. reflexivity. Qed.

Lemma seq_bound s n : Forall (fun i => i < s + n)%nat (seq s n).
Proof. apply Forall_forall. intros i Hi. apply in_seq in Hi. lia. Qed.

Lemma inb_ident n : inb n n (ident n) = true.
Proof.
  unfold Model.ident. pose proof (inb_gather T t1 (seq 0 n) n (seq_bound 0 n)) as H. rewrite seq_length in H. exact H.
Qed.

(* an operator B acting on the middle axis of an array of shape (a, n, c):
   out[i1, o, i3] = sum_j B[o, j] * in[i1, j, i3]  -- the (presize, n, postsize) reshape of the code *)
Theorem apply_on_axis a c mK nK B x i1 o i3 :
  inb mK nK B = true -> (i1 < a)%nat -> (o < mK)%nat -> (i3 < c)%nat ->
  apply (kron (mK * c) (nK * c) (ident a) (kron c c B (ident c))) x ((i1 * mK + o) * c + i3)%nat
  = apply B (fun j => x ((i1 * nK + j) * c + i3)%nat) o.
Proof.
  intros HB H1 Ho H3.
  replace ((i1 * mK + o) * c + i3)%nat with (i1 * (mK * c) + (o * c + i3))%nat by lia.
  rewrite apply_kron; [| apply inb_kron; [assumption|apply inb_ident] | nia].
  rewrite apply_ident by assumption.
  rewrite apply_kron; [| apply inb_ident | assumption].
  apply apply_ext. intros j. rewrite apply_ident by assumption. f_equal. lia.
Qed.

(* ---- blocks of gathers ---- *)
Definition iblk := (nat * list nat)%type.
Definition bg (b : iblk) : blk := bgather (fst b) (snd b).
Definition ivalid (b : iblk) : Prop := Forall (fun i => i < fst b)%nat (snd b).

Fixpoint ikron_list (l : list iblk) : iblk :=
  match l with
  | [] => (1, [0])%nat
  | b :: r => match r with
              | [] => b
              | _ => (fst b * fst (ikron_list r), ikron (fst (ikron_list r)) (snd b) (snd (ikron_list r)))%nat
              end
  end.

Lemma bkron_bg a b : bkron (bg a) (bg b) = bg (fst a * fst b, ikron (fst b) (snd a) (snd b))%nat.
Proof.
  destruct a as [nA ia], b as [nB ib]. unfold bg, Model.bkron, Model.bgather, bm, bn, bmat. cbn [fst snd].
  rewrite (kron_gather T t0 t1 tadd tmul topp RT), ikron_length. reflexivity.
Qed.

Theorem bkron_list_bg l : bkron_list (map bg l) = bg (ikron_list l).
Proof.
  induction l as [|b r IH]; [reflexivity|].
  destruct r as [|b2 r']; [reflexivity|].
  change (bkron_list (map bg (b :: b2 :: r'))) with (bkron (bg b) (bkron_list (map bg (b2 :: r')))).
  rewrite IH, bkron_bg. reflexivity.
Qed.

Lemma ikron_list_valid l : Forall ivalid l -> ivalid (ikron_list l).
Proof.
  induction l as [|b r IH]; intros H.
  - unfold ivalid. cbn. constructor; [lia|constructor].
  - inversion H; subst. destruct r as [|b2 r']; [assumption|].
    specialize (IH H3). unfold ivalid in *.
    change (ikron_list (b :: b2 :: r')) with
      (fst b * fst (ikron_list (b2 :: r')), ikron (fst (ikron_list (b2 :: r'))) (snd b) (snd (ikron_list (b2 :: r'))))%nat.
    cbn [fst snd]. apply ikron_bound; assumption.
Qed.

Lemma ikron_list_nodup l : Forall ivalid l -> Forall (fun b => NoDup (snd b)) l -> NoDup (snd (ikron_list l)).
Proof.
  induction l as [|b r IH]; intros Hv H.
  - cbn. constructor; [intros []|constructor].
  - inversion H; subst. inversion Hv; subst. destruct r as [|b2 r']; [assumption|].
    change (ikron_list (b :: b2 :: r')) with
      (fst b * fst (ikron_list (b2 :: r')), ikron (fst (ikron_list (b2 :: r'))) (snd b) (snd (ikron_list (b2 :: r'))))%nat.
    cbn [fst snd]. apply ikron_nodup; [assumption|apply IH; assumption|].
    apply (ikron_list_valid (b2 :: r')). assumption.
Qed.

Lemma bident_bg n : bident n = bg (n, seq 0 n).
Proof. unfold bg, Model.bident, Model.bgather, Model.ident. cbn [fst snd]. rewrite seq_length. reflexivity. Qed.

(* the three-factor form used by operators acting on one sub-domain *)
Lemma on_space_bg shs k b :
  on_space shs k (bg b) = bg (ikron_list [(pre shs k, seq 0 (pre shs k)); b; (post shs k, seq 0 (post shs k))]).
Proof.
  unfold Model.on_space. rewrite <- bkron_list_bg, !bident_bg. reflexivity.
Qed.

End Ring.
